import ZipVerif.Lemmas.Dos
/-
C18 — Timestamps convert to and from DOS format without loss or panic.
Property theorems only; helper lemmas are in `Lemmas/Dos.lean`.
-/

namespace ZipVerif.Props.C18
open ZipVerif ZipVerif.Spec ZipVerif.Model ZipVerif.Model.DateTime

/-- `from_msdos` never overflows its checked `years + 1980`. -/
theorem fromMsdos_no_overflow (d : UInt16) :
    ((d &&& 0b1111111000000000) >>> 9).toNat + 1980 < 65536 :=
  fromMsdos_year_no_overflow d

/-- The unpacked fields are exactly the arithmetic reading of the DOS layout. -/
theorem fromMsdos_spec (d t : UInt16) :
    fields (fromMsdos d t) = Dos.unpack d.toNat t.toNat :=
  fromMsdos_fields d t

/-- **Unpack then pack is the identity for every one of the 2^32 field values**, and the checked
subtraction in `datepart` does not panic on them: a timestamp read from any archive is
re-written unchanged. -/
theorem dos_unpack_pack (d t : UInt16) :
    (fromMsdos d t).datepart = some d ∧ (fromMsdos d t).timepart = t := by
  have hf := fromMsdos_fields d t
  have hd := d.toNat_lt
  have ht := t.toNat_lt
  obtain ⟨hfy, hfm, hfd, hfh, hfi, hfs⟩ := fromMsdos_toNat d t
  have hup := Dos.unpack_pack d.toNat t.toNat hd ht
  constructor
  · obtain ⟨v, hv, hvn⟩ := datepart_toNat (fromMsdos d t) (by omega) (by omega) (by omega) (by omega)
    rw [hf, hup.1] at hvn
    rw [hv, UInt16.toNat_inj.mp hvn]
  · apply UInt16.toNat_inj.mp
    rw [timepart_toNat _ (by omega) (by omega) (by omega), hf, hup.2]

/-- **Pack then unpack** returns the same timestamp rounded down to the 2-second resolution, for
every value whose fields fit the bit fields. -/
theorem dos_pack_unpack (x : DateTime) (h : Dos.Representable (fields x)) :
    ∃ d, x.datepart = some d ∧
      fields (fromMsdos d x.timepart) = Dos.round2s (fields x) := by
  obtain ⟨h1, h2, h3, h4, h5, h6, h7⟩ := h
  obtain ⟨v, hv, hvn⟩ := datepart_toNat x h1 h2 h3 h4
  refine ⟨v, hv, ?_⟩
  rw [fromMsdos_fields, hvn, timepart_toNat x h7 h6 h5]
  exact Dos.pack_unpack (fields x) ⟨h1, h2, h3, h4, h5, h6, h7⟩

/-- The checked constructor accepts exactly the documented ranges … -/
theorem ctor_accepts_iff (y : UInt16) (mo d h mi s : UInt8) :
    (fromDateAndTime y mo d h mi s).isSome ↔
      Dos.InDocumentedRange ⟨y.toNat, mo.toNat, d.toNat, h.toNat, mi.toNat, s.toNat⟩ := by
  unfold fromDateAndTime Dos.InDocumentedRange
  simp only [UInt16.le_iff_toNat_le, UInt8.le_iff_toNat_le]
  have e1 : (1980 : UInt16).toNat = 1980 := by decide
  have e2 : (2107 : UInt16).toNat = 2107 := by decide
  have e3 : (1 : UInt8).toNat = 1 := by decide
  have e4 : (12 : UInt8).toNat = 12 := by decide
  have e5 : (31 : UInt8).toNat = 31 := by decide
  have e6 : (23 : UInt8).toNat = 23 := by decide
  have e7 : (59 : UInt8).toNat = 59 := by decide
  have e8 : (60 : UInt8).toNat = 60 := by decide
  rw [e1, e2, e3, e4, e5, e6, e7, e8]
  split <;> simp_all

/-- … and returns the arguments unchanged. -/
theorem ctor_value {y : UInt16} {mo d h mi s : UInt8} {x : DateTime}
    (hx : fromDateAndTime y mo d h mi s = some x) : x = ⟨y, mo, d, h, mi, s⟩ := by
  unfold fromDateAndTime at hx
  split at hx
  · exact (Option.some.inj hx).symm
  · cases hx

/-- Accepted values survive pack / unpack up to the 2-second resolution (second 60 ↦ 60,
59 ↦ 58), which is what an archive round trip stores (C01 carries the bytes). -/
theorem ctor_roundtrip {y : UInt16} {mo d h mi s : UInt8} {x : DateTime}
    (hx : fromDateAndTime y mo d h mi s = some x) :
    ∃ dp, x.datepart = some dp ∧ fields (fromMsdos dp x.timepart) = Dos.round2s (fields x) := by
  have hr : Dos.InDocumentedRange ⟨y.toNat, mo.toNat, d.toNat, h.toNat, mi.toNat, s.toNat⟩ :=
    (ctor_accepts_iff y mo d h mi s).mp (by rw [hx]; rfl)
  have hv := ctor_value hx
  subst hv
  exact dos_pack_unpack _ (Dos.documented_representable _ hr)

/-- `datepart`'s checked subtraction cannot panic on any value obtainable through the API. -/
theorem datepart_no_underflow {x : DateTime} (hc : Constructible x) : (x.datepart).isSome := by
  have key : ∀ z : DateTime, 1980 ≤ z.year.toNat → (z.datepart).isSome := by
    intro z hz
    have h1980 : (1980 : UInt16).toNat = 1980 := by decide
    have hlt : ¬ z.year < 1980 := by rw [UInt16.lt_iff_toNat_lt]; omega
    unfold datepart; rw [if_neg hlt]; rfl
  cases hc with
  | default => exact key _ (by decide)
  | msdos d t =>
    have := (dos_unpack_pack d t).1
    rw [this]; rfl
  | ctor hx =>
    have hr := (ctor_accepts_iff _ _ _ _ _ _).mp (by rw [hx]; rfl)
    have hv := ctor_value hx
    subst hv
    exact key _ hr.1
  | @ofCal c x hv hx =>
    unfold tryFromCal at hx
    split at hx
    · rename_i hy
      have := Option.some.inj hx
      subst this
      apply key
      show 1980 ≤ (UInt16.ofNat c.year.toNat).toNat
      rw [UInt16.toNat_ofNat']
      omega
    · cases hx

/-- `to_time` succeeds exactly on real calendar dates with in-range clock fields. -/
theorem toTime_ok_iff (x : DateTime) :
    (x.toTime).isSome ↔ (x.cal.valid = true) := by
  unfold toTime
  split <;> simp_all

/-- The range check of `TryFrom<OffsetDateTime>`: exactly 1980..=2107. -/
theorem tryFrom_range_iff (c : Cal) :
    (tryFromCal c).isSome ↔ (1980 ≤ c.year ∧ c.year ≤ 2107) := by
  unfold tryFromCal
  split <;> simp_all

/-- `to_time` then `try_from` gives back the original value (for values in the DOS year range,
which is every value `from_msdos` or the constructor can produce). -/
theorem tryFrom_toTime {x : DateTime} {c : Cal} (hy : 1980 ≤ x.year.toNat ∧ x.year.toNat ≤ 2107)
    (h : x.toTime = some c) : tryFromCal c = some x := by
  unfold toTime at h
  split at h
  · have hc := Option.some.inj h
    subst hc
    unfold tryFromCal
    have : (1980 : Int) ≤ (x.year.toNat : Int) ∧ ((x.year.toNat : Int)) ≤ 2107 := by omega
    show (if (1980 : Int) ≤ (x.year.toNat : Int) ∧ ((x.year.toNat : Int)) ≤ 2107 then _ else _) = _
    rw [if_pos this]
    congr 1
    apply fields_inj
    simp only [fields, cal, Int.toNat_natCast, UInt16.toNat_ofNat', UInt8.toNat_ofNat',
      Dos.Fields.mk.injEq]
    have := x.year.toNat_lt; have := x.month.toNat_lt; have := x.day.toNat_lt
    have := x.hour.toNat_lt; have := x.minute.toNat_lt; have := x.second.toNat_lt
    omega
  · cases h

/-- `try_from` then `to_time` gives back the original calendar value. -/
theorem toTime_tryFrom {x : DateTime} {c : Cal} (hv : c.valid = true)
    (h : tryFromCal c = some x) : x.toTime = some c := by
  unfold tryFromCal at h
  split at h
  · rename_i hy
    have hx := Option.some.inj h
    subst hx
    obtain ⟨y, mo, d, hh, mi, s⟩ := c
    have hv' := hv
    simp only [Cal.valid, Bool.and_eq_true, decide_eq_true_eq] at hv'
    obtain ⟨⟨⟨⟨⟨_, hmo⟩, hd⟩, hh'⟩, hmi⟩, hs⟩ := hv'
    have hdm : daysInMonth y mo ≤ 31 := by
      unfold daysInMonth; split <;> (try split) <;> omega
    simp only at hy
    have e1 : (UInt16.ofNat y.toNat).toNat = y.toNat := by rw [UInt16.toNat_ofNat']; omega
    have e2 : (UInt8.ofNat mo).toNat = mo := by rw [UInt8.toNat_ofNat']; omega
    have e3 : (UInt8.ofNat d).toNat = d := by rw [UInt8.toNat_ofNat']; omega
    have e4 : (UInt8.ofNat hh).toNat = hh := by rw [UInt8.toNat_ofNat']; omega
    have e5 : (UInt8.ofNat mi).toNat = mi := by rw [UInt8.toNat_ofNat']; omega
    have e6 : (UInt8.ofNat s).toNat = s := by rw [UInt8.toNat_ofNat']; omega
    have e7 : ((y.toNat : Nat) : Int) = y := by omega
    unfold toTime cal
    simp only [e1, e2, e3, e4, e5, e6, e7, hv, if_true]
  · cases h

/-! ### Non-vacuity: concrete instances of the hypotheses -/

example : Dos.Representable (fields ⟨2107, 12, 31, 23, 59, 59⟩) := by decide
example : fromDateAndTime 2024 2 29 23 59 60 = some ⟨2024, 2, 29, 23, 59, 60⟩ := by decide
example : (⟨2023, 2, 29, 0, 0, 0⟩ : DateTime).toTime = none := by decide
example : (⟨2024, 2, 29, 1, 2, 3⟩ : DateTime).toTime = some ⟨2024, 2, 29, 1, 2, 3⟩ := by decide
example : (fromDateAndTime 2024 2 29 23 59 60).bind toTime = none := by decide
example : Constructible (fromMsdos 0xFFFF 0xFFFF) := .msdos _ _
/-- A value outside `Constructible` on which `datepart` would panic exists (the hypothesis of
`datepart_no_underflow` is not redundant). -/
example : (⟨1979, 1, 1, 0, 0, 0⟩ : DateTime).datepart = none := by decide

end ZipVerif.Props.C18
