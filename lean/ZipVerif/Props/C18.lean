import ZipVerif.Lemmas.Dos
/-
C18 — Timestamps convert to and from DOS format without loss or panic.
Property theorems only; helper lemmas are in `Lemmas/Dos.lean`.
-/

namespace ZipVerif.Props.C18
open ZipVerif ZipVerif.Spec ZipVerif.Model ZipVerif.Model.DateTime

/-- `from_msdos` never overflows its checked `years + 1980`. -/
theorem fromMsdos_no_overflow (d : UInt16) :
    ((d &&& 0b1111111000000000) >>> 9).toNat + 1980 < 65536 :=
  fromMsdos_year_no_overflow d

/-- The unpacked fields are exactly the arithmetic reading of the DOS layout. -/
theorem fromMsdos_spec (d t : UInt16) :
    fields (fromMsdos d t) = Dos.unpack d.toNat t.toNat :=
  fromMsdos_fields d t

/-- **Unpack then pack is the identity for every one of the 2^32 field values**, and the checked
subtraction in `datepart` does not panic on them: a timestamp read from any archive is
re-written unchanged. -/
theorem dos_unpack_pack (d t : UInt16) :
    (fromMsdos d t).datepart = some d ∧ (fromMsdos d t).timepart = t := by
  have hf := fromMsdos_fields d t
  have hd := d.toNat_lt
  have ht := t.toNat_lt
  obtain ⟨hfy, hfm, hfd, hfh, hfi, hfs⟩ := fromMsdos_toNat d t
  have hup := Dos.unpack_pack d.toNat t.toNat hd ht
  constructor
  · obtain ⟨v, hv, hvn⟩ := datepart_toNat (fromMsdos d t) (by omega) (by omega) (by omega) (by omega)
    rw [hf, hup.1] at hvn
    rw [hv, UInt16.toNat_inj.mp hvn]
  · apply UInt16.toNat_inj.mp
    rw [timepart_toNat _ (by omega) (by omega) (by omega), hf, hup.2]

/-- **Pack then unpack** returns the same timestamp rounded down to the 2-second resolution, for
every value whose fields fit the bit fields. -/
theorem dos_pack_unpack (x : DateTime) (h : Dos.Representable (fields x)) :
    ∃ d, x.datepart = some d ∧
      fields (fromMsdos d x.timepart) = Dos.round2s (fields x) := by
  obtain ⟨h1, h2, h3, h4, h5, h6, h7⟩ := h
  obtain ⟨v, hv, hvn⟩ := datepart_toNat x h1 h2 h3 h4
  refine ⟨v, hv, ?_⟩
  rw [fromMsdos_fields, hvn, timepart_toNat x h7 h6 h5]
  exact Dos.pack_unpack (fields x) ⟨h1, h2, h3, h4, h5, h6, h7⟩

/-- The checked constructor accepts exactly the documented ranges … -/
theorem ctor_accepts_iff (y : UInt16) (mo d h mi s : UInt8) :
    (fromDateAndTime y mo d h mi s).isSome ↔
      Dos.InDocumentedRange ⟨y.toNat, mo.toNat, d.toNat, h.toNat, mi.toNat, s.toNat⟩ := by
  unfold fromDateAndTime Dos.InDocumentedRange
  simp only [UInt16.le_iff_toNat_le, UInt8.le_iff_toNat_le]
  have e1 : (1980 : UInt16).toNat = 1980 := by decide
  have e2 : (2107 : UInt16).toNat = 2107 := by decide
  have e3 : (1 : UInt8).toNat = 1 := by decide
  have e4 : (12 : UInt8).toNat = 12 := by decide
  have e5 : (31 : UInt8).toNat = 31 := by decide
  have e6 : (23 : UInt8).toNat = 23 := by decide
  have e7 : (59 : UInt8).toNat = 59 := by decide
  have e8 : (60 : UInt8).toNat = 60 := by decide
  rw [e1, e2, e3, e4, e5, e6, e7, e8]
  split <;> simp_all

/-- … and returns the arguments unchanged. -/
theorem ctor_value {y : UInt16} {mo d h mi s : UInt8} {x : DateTime}
    (hx : fromDateAndTime y mo d h mi s = some x) : x = ⟨y, mo, d, h, mi, s⟩ := by
  unfold fromDateAndTime at hx
  split at hx
  · exact (Option.some.inj hx).symm
  · cases hx

/-- Accepted values survive pack / unpack up to the 2-second resolution (second 60 ↦ 60,
59 ↦ 58), which is what an archive round trip stores (C01 carries the bytes). -/
theorem ctor_roundtrip {y : UInt16} {mo d h mi s : UInt8} {x : DateTime}
    (hx : fromDateAndTime y mo d h mi s = some x) :
    ∃ dp, x.datepart = some dp ∧ fields (fromMsdos dp x.timepart) = Dos.round2s (fields x) := by
  have hr : Dos.InDocumentedRange ⟨y.toNat, mo.toNat, d.toNat, h.toNat, mi.toNat, s.toNat⟩ :=
    (ctor_accepts_iff y mo d h mi s).mp (by rw [hx]; rfl)
  have hv := ctor_value hx
  subst hv
  exact dos_pack_unpack _ (Dos.documented_representable _ hr)

/-- `datepart`'s checked subtraction cannot panic on any value obtainable through the API. -/
theorem datepart_no_underflow {x : DateTime} (hc : Constructible x) : (x.datepart).isSome := by
  have key : ∀ z : DateTime, 1980 ≤ z.year.toNat → (z.datepart).isSome := by
    intro z hz
    have h1980 : (1980 : UInt16).toNat = 1980 := by decide
    have hlt : ¬ z.year < 1980 := by rw [UInt16.lt_iff_toNat_lt]; omega
    unfold datepart; rw [if_neg hlt]; rfl
  cases hc with
  | default => exact key _ (by decide)
  | msdos d t =>
    have := (dos_unpack_pack d t).1
    rw [this]; rfl
  | ctor hx =>
    have hr := (ctor_accepts_iff _ _ _ _ _ _).mp (by rw [hx]; rfl)
    have hv := ctor_value hx
    subst hv
    exact key _ hr.1
  | @ofCal c x hv hx =>
    unfold tryFromCal at hx
    split at hx
    · rename_i hy
      have := Option.some.inj hx
      subst this
      apply key
      show 1980 ≤ (UInt16.ofNat c.year.toNat).toNat
      rw [UInt16.toNat_ofNat']
      omega
    · cases hx

/-- `to_time` succeeds exactly on real calendar dates with in-range clock fields. -/
theorem toTime_ok_iff (x : DateTime) :
    (x.toTime).isSome ↔ (x.cal.valid = true) := by
  unfold toTime
  split <;> simp_all

/-- The range check of `TryFrom<OffsetDateTime>`: exactly 1980..=2107. -/
theorem tryFrom_range_iff (c : Cal) :
    (tryFromCal c).isSome ↔ (1980 ≤ c.year ∧ c.year ≤ 2107) := by
  unfold tryFromCal
  split <;> simp_all

/-- `to_time` then `try_from` gives back the original value (for values in the DOS year range,
which is every value `from_msdos` or the constructor can produce). -/
theorem tryFrom_toTime {x : DateTime} {c : Cal} (hy : 1980 ≤ x.year.toNat ∧ x.year.toNat ≤ 2107)
    (h : x.toTime = some c) : tryFromCal c = some x := by
  unfold toTime at h
  split at h
  · have hc := Option.some.inj h
    subst hc
    unfold tryFromCal
    have : (1980 : Int) ≤ (x.year.toNat : Int) ∧ ((x.year.toNat : Int)) ≤ 2107 := by omega
    show (if (1980 : Int) ≤ (x.year.toNat : Int) ∧ ((x.year.toNat : Int)) ≤ 2107 then _ else _) = _
    rw [if_pos this]
    congr 1
    apply fields_inj
    simp only [fields, cal, Int.toNat_natCast, UInt16.toNat_ofNat', UInt8.toNat_ofNat',
      Dos.Fields.mk.injEq]
    have := x.year.toNat_lt; have := x.month.toNat_lt; have := x.day.toNat_lt
    have := x.hour.toNat_lt; have := x.minute.toNat_lt; have := x.second.toNat_lt
    omega
  · cases h

/-- `try_from` then `to_time` gives back the original calendar value. -/
theorem toTime_tryFrom {x : DateTime} {c : Cal} (hv : c.valid = true)
    (h : tryFromCal c = some x) : x.toTime = some c := by
  unfold tryFromCal at h
  split at h
  · rename_i hy
    have hx := Option.some.inj h
    subst hx
    obtain ⟨y, mo, d, hh, mi, s⟩ := c
    have hv' := hv
    simp only [Cal.valid, Bool.and_eq_true, decide_eq_true_eq] at hv'
    obtain ⟨⟨⟨⟨⟨_, hmo⟩, hd⟩, hh'⟩, hmi⟩, hs⟩ := hv'
    have hdm : Dos.daysInMonth y mo ≤ 31 := Dos.daysInMonth_le y mo
    simp only at hy
    have e1 : (UInt16.ofNat y.toNat).toNat = y.toNat := by rw [UInt16.toNat_ofNat']; omega
    have e2 : (UInt8.ofNat mo).toNat = mo := by rw [UInt8.toNat_ofNat']; omega
    have e3 : (UInt8.ofNat d).toNat = d := by rw [UInt8.toNat_ofNat']; omega
    have e4 : (UInt8.ofNat hh).toNat = hh := by rw [UInt8.toNat_ofNat']; omega
    have e5 : (UInt8.ofNat mi).toNat = mi := by rw [UInt8.toNat_ofNat']; omega
    have e6 : (UInt8.ofNat s).toNat = s := by rw [UInt8.toNat_ofNat']; omega
    have e7 : ((y.toNat : Nat) : Int) = y := by omega
    unfold toTime cal
    simp only [e1, e2, e3, e4, e5, e6, e7, hv, if_true]
  · cases h

/-! ### The offset and the sub-second part of an `OffsetDateTime` (statement gap closed in round 3)

`toTime_tryFrom` / `tryFrom_toTime` above speak about the six wall-clock fields.  An `OffsetDateTime`
also has a UTC offset and nanoseconds; `try_from` reads the fields in the value's OWN offset and drops
the rest, `to_time` answers in UTC with nanosecond 0.  So the round trip preserves the wall-clock fields,
NOT the instant: 12:00:00 +01:00 comes back as 12:00:00 UTC, one hour later.  Stated with the offset and
the nanoseconds as parameters: -/

/-- `try_from` then `to_time`, for ANY offset and nanosecond value of the argument: the same six
wall-clock fields, offset UTC, nanosecond 0. -/
theorem toTime_tryFrom_offset {x : DateTime} {o : OCal} (hv : o.cal.valid = true)
    (h : tryFromO o = some x) : x.toTimeO = some ⟨o.cal, 0, 0⟩ := by
  unfold toTimeO
  rw [toTime_tryFrom hv h]; rfl

/-- Hence the value itself (instant included) comes back exactly when it was UTC with a whole second. -/
theorem toTime_tryFrom_exact_iff {x : DateTime} {o : OCal} (hv : o.cal.valid = true)
    (h : tryFromO o = some x) : x.toTimeO = some o ↔ (o.offset = 0 ∧ o.nanos = 0) := by
  rw [toTime_tryFrom_offset hv h]
  obtain ⟨c, n, off⟩ := o
  simp only [Option.some.injEq, OCal.mk.injEq, true_and]
  constructor
  · rintro ⟨h1, h2⟩; exact ⟨h2.symm, h1.symm⟩
  · rintro ⟨h1, h2⟩; exact ⟨h2.symm, h1.symm⟩

/-- `to_time` then `try_from`: what `to_time` returns is in UTC with nanosecond 0, and converts back to
the original value. -/
theorem tryFrom_toTime_offset {x : DateTime} {o : OCal}
    (hy : 1980 ≤ x.year.toNat ∧ x.year.toNat ≤ 2107) (h : x.toTimeO = some o) :
    tryFromO o = some x ∧ o.offset = 0 ∧ o.nanos = 0 := by
  unfold toTimeO at h
  cases hc : x.toTime with
  | none => rw [hc] at h; cases h
  | some c =>
    rw [hc] at h
    have ho := Option.some.inj h
    subst ho
    exact ⟨tryFrom_toTime hy hc, rfl, rfl⟩

/-- The documented example of the gap: 2020-06-15 12:00:00.5 +01:00 is accepted and comes back as
12:00:00 UTC (same fields, 3600.5 s later). -/
example : (tryFromO ⟨⟨2020, 6, 15, 12, 0, 0⟩, 500000000, 3600⟩).bind toTimeO =
    some ⟨⟨2020, 6, 15, 12, 0, 0⟩, 0, 0⟩ := by decide

/-! ### The two words are handled independently (what makes per-factor enumeration exhaustive)

`dos.block` enumerates ALL 2^16 date words against a covering set of time words and ALL 2^16 time words
against a covering set of date words (valid and invalid ones), comparing implementation and model by
digest.  By the three facts below the outcome on an arbitrary pair (d, t) - fields, re-packed words and
the verdict of `to_time` - is determined by the outcomes on (d, t₀) and (d₀, t). -/

/-- The date fields of `from_msdos d t` do not depend on `t`, the clock fields not on `d`. -/
theorem fromMsdos_words_independent (d d' t t' : UInt16) :
    (fromMsdos d t).year = (fromMsdos d t').year ∧ (fromMsdos d t).month = (fromMsdos d t').month ∧
    (fromMsdos d t).day = (fromMsdos d t').day ∧
    (fromMsdos d t).hour = (fromMsdos d' t).hour ∧ (fromMsdos d t).minute = (fromMsdos d' t).minute ∧
    (fromMsdos d t).second = (fromMsdos d' t).second :=
  ⟨rfl, rfl, rfl, rfl, rfl, rfl⟩

/-- `datepart` reads the date fields only, `timepart` the clock fields only. -/
theorem parts_independent (x y : DateTime) :
    (x.year = y.year → x.month = y.month → x.day = y.day → x.datepart = y.datepart) ∧
    (x.hour = y.hour → x.minute = y.minute → x.second = y.second → x.timepart = y.timepart) := by
  constructor
  · intro h1 h2 h3; unfold datepart; rw [h1, h2, h3]
  · intro h1 h2 h3; unfold timepart; rw [h1, h2, h3]

/-- `to_time` succeeds iff the date is a calendar date AND the clock fields are in range: a conjunction
of a predicate on the date word and one on the time word. -/
theorem toTime_factors (d t : UInt16) :
    ((fromMsdos d t).toTime).isSome =
      ((fromMsdos d 0).cal.dateValid && (fromMsdos 0 t).cal.timeValid) := by
  have hv : ∀ c : Cal, c.valid = (c.dateValid && c.timeValid) := by
    intro c; simp only [Cal.valid, Cal.dateValid, Cal.timeValid, Bool.and_assoc]
  unfold toTime
  rw [hv]
  obtain ⟨i1, i2, i3, _, _, _⟩ := fromMsdos_words_independent d d t 0
  obtain ⟨_, _, _, i4, i5, i6⟩ := fromMsdos_words_independent d 0 t t
  have e1 : (fromMsdos d t).cal.dateValid = (fromMsdos d 0).cal.dateValid := by
    unfold Cal.dateValid DateTime.cal; simp only [i1, i2, i3]
  have e2 : (fromMsdos d t).cal.timeValid = (fromMsdos 0 t).cal.timeValid := by
    unfold Cal.timeValid DateTime.cal; simp only [i4, i5, i6]
  rw [e1, e2]
  split <;> simp_all

/-- Consequently: with ANY valid partner words `t₁` (e.g. 00:00:00) and `d₁` (e.g. 1980-01-01) the verdict
on (d, t) is the conjunction of the verdicts on (d, t₁) and (d₁, t). -/
theorem toTime_from_factors (d t d₁ t₁ : UInt16)
    (hd : (fromMsdos d₁ 0).cal.dateValid = true) (ht : (fromMsdos 0 t₁).cal.timeValid = true) :
    ((fromMsdos d t).toTime).isSome =
      (((fromMsdos d t₁).toTime).isSome && ((fromMsdos d₁ t).toTime).isSome) := by
  rw [toTime_factors d t, toTime_factors d t₁, toTime_factors d₁ t, hd, ht]
  simp

example : (fromMsdos 0x21 0).cal.dateValid = true ∧ (fromMsdos 0 0).cal.timeValid = true := by decide

/-! ### Non-vacuity: concrete instances of the hypotheses -/

example : Dos.Representable (fields ⟨2107, 12, 31, 23, 59, 59⟩) := by decide
example : fromDateAndTime 2024 2 29 23 59 60 = some ⟨2024, 2, 29, 23, 59, 60⟩ := by decide
example : (⟨2023, 2, 29, 0, 0, 0⟩ : DateTime).toTime = none := by decide
example : (⟨2024, 2, 29, 1, 2, 3⟩ : DateTime).toTime = some ⟨2024, 2, 29, 1, 2, 3⟩ := by decide
example : (fromDateAndTime 2024 2 29 23 59 60).bind toTime = none := by decide
/-- Days 29-31 with a VALID clock: the calendar rule decides (century rule, 30-day months). -/
example : (⟨2100, 2, 29, 12, 0, 0⟩ : DateTime).toTime = none ∧
    (⟨2000, 2, 29, 12, 0, 0⟩ : DateTime).toTime.isSome = true ∧
    (⟨2021, 4, 31, 12, 0, 0⟩ : DateTime).toTime = none ∧
    (⟨2021, 2, 30, 12, 0, 0⟩ : DateTime).toTime = none ∧
    (⟨2021, 4, 30, 23, 59, 58⟩ : DateTime).toTime.isSome = true := by decide
example : Constructible (fromMsdos 0xFFFF 0xFFFF) := .msdos _ _
/-- A value outside `Constructible` on which `datepart` would panic exists (the hypothesis of
`datepart_no_underflow` is not redundant). -/
example : (⟨1979, 1, 1, 0, 0, 0⟩ : DateTime).datepart = none := by decide

end ZipVerif.Props.C18
