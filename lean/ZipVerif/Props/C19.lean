import ZipVerif.Lemmas.Text
import ZipVerif.Model.Records
/-
C19 — Names and comments decode by the flagged encoding; raw bytes are kept.
Property theorems only; helper lemmas are in `Lemmas/Text.lean`, the model in `Model/Text.lean`,
the specification in `Spec/Utf8.lean` (RFC 3629 / Unicode table 3-7) and `Spec/Cp437Ref.lean`
(generated from CPython's cp437 codec).  Decoded text is `List Char` (= Unicode scalar values).
-/

namespace ZipVerif.Props.C19
open ZipVerif ZipVerif.Spec ZipVerif.Model

/-! ### CP437: all 256 byte values -/

/-- **Every one of the 256 bytes** is mapped by the crate's table (model of `to_char`) to the
character of the Unicode consortium CP437 table, and `to_char` does not panic. -/
theorem cp437_table_eq_ref (b : UInt8) : toChar b = .ok (cp437Ref b) :=
  toChar_eq_ref b

/-- Every table value is a Unicode scalar value: `char::from_u32(output).unwrap()` cannot panic. -/
theorem cp437_table_scalar (b : UInt8) :
    (toCharU32 b).toNat.isValidChar ∧ (Rs.charFromU32 (toCharU32 b)).isSome := by
  rw [toCharU32_eq_ref]
  exact ⟨(cp437Ref b).valid, by rw [charFromU32_val]; rfl⟩

/-- On the ASCII half CP437 is the identity (so decoding an ASCII name under either flag agrees). -/
theorem cp437_ascii_identity (b : UInt8) (h : b.toNat < 0x80) : (cp437Ref b).toNat = b.toNat :=
  ref_ascii b h

/-- **ASCII fast path = table path.**  On all-ASCII input `from_utf8(self)` succeeds (its `unwrap`
cannot panic) and yields exactly what mapping `to_char` over the bytes yields. -/
theorem ascii_fast_path_eq (bs : Bytes) (h : allAscii bs = true) :
    utf8Strict bs = some (bs.map cp437Ref) ∧ mapToChar bs = .ok (bs.map cp437Ref) :=
  ⟨strict_ascii bs h, mapToChar_eq_ref bs⟩

/-- `from_cp437` is total on every byte string (both paths) and is the reference decoding. -/
theorem from_cp437_total (bs : Bytes) : fromCp437 bs = .ok (bs.map cp437Ref) :=
  fromCp437_eq_ref bs

/-! ### The flag selects the decoding; decoding never fails; raw bytes are kept -/

/-- The reader's `is_utf8` is bit 11 of the general-purpose flags and nothing else. -/
theorem is_utf8_is_bit11 (flags : UInt16) : isUtf8Flag flags = flags.toNat.testBit 11 := by
  unfold isUtf8Flag
  have h1 : ((1 : UInt16) <<< 11) = 2048 := by decide
  rw [h1]
  have h2 : ((flags &&& 2048) != 0) = decide ((flags &&& 2048).toNat ≠ 0) := by
    by_cases h : flags &&& 2048 = 0
    · rw [h]; rfl
    · have h' : (flags &&& 2048).toNat ≠ 0 := fun e => h (UInt16.toNat_inj.mp e)
      rw [bne_iff_ne.mpr h, decide_eq_true h']
  rw [h2, UInt16.toNat_and]
  have h3 : (2048 : UInt16).toNat = 2 ^ 11 := by decide
  rw [h3]
  cases hb : flags.toNat.testBit 11
  · exact decide_eq_false (fun h => by
      have := (and_two_pow_ne_zero flags.toNat 11).mp h
      rw [hb] at this; cases this)
  · exact decide_eq_true ((and_two_pow_ne_zero flags.toNat 11).mpr hb)

/-- **Flag set → lossy UTF-8; flag clear → CP437; in both modes for every byte string, never an
error or panic.** -/
theorem decode_name_flag (raw : Bytes) :
    decodeName true raw = .ok (utf8Lossy raw) ∧ decodeName false raw = .ok (raw.map cp437Ref) :=
  ⟨rfl, fromCp437_eq_ref raw⟩

/-- Name *and* comment of a central header are decoded under the header's flag, for every flag
word and all raw byte strings; the outcome is always `ok`. -/
theorem central_name_fields (flags : UInt16) (nameRaw commentRaw : Bytes) :
    centralNameFields flags nameRaw commentRaw = .ok
      (if isUtf8Flag flags then ⟨utf8Lossy nameRaw, nameRaw, utf8Lossy commentRaw⟩
       else ⟨nameRaw.map cp437Ref, nameRaw, commentRaw.map cp437Ref⟩) := by
  unfold centralNameFields
  cases isUtf8Flag flags
  · rw [(decode_name_flag nameRaw).2, (decode_name_flag commentRaw).2]; rfl
  · rfl

/-- **The raw-name accessor returns the stored bytes unchanged**, whatever the flag and the bytes. -/
theorem name_raw_verbatim (flags : UInt16) (nameRaw commentRaw : Bytes) :
    ∃ f, centralNameFields flags nameRaw commentRaw = .ok f ∧ f.fileNameRaw = nameRaw := by
  rw [central_name_fields]
  cases isUtf8Flag flags <;> exact ⟨_, rfl, rfl⟩

/-! ### Extra fields never touch the text fields -/

/-- **No extra-field record changes the name, the raw name or the comment.**  `parse_extra_field` (its
model `Model.Records.parseExtraField`, equal to the regenerated translation of the source by
`Tie.Parsers`) runs AFTER the header parsers decoded the name by the flag; whatever the extra bytes are -
ZIP64, AES, an Info-ZIP Unicode Path (0x7075) or Unicode Comment (0x6375) record with a matching CRC-32,
anything else, well-formed or not, and whether the loop ends normally or in an error - the three text fields
of the entry are the ones the flag-driven decoding produced.  (A reader that lets a 0x7075 record override
the name is not this function: the tie obligation breaks, and the `text.name` correspondence - archives
whose central and local extra fields carry valid 0x7075 / 0x6375 records - disagrees.) -/
theorem extra_fields_keep_text (fuel : Nat) (f : Model.FileData) (extra : Bytes) :
    (Model.parseExtraField fuel f extra).1.fileName = f.fileName ∧
    (Model.parseExtraField fuel f extra).1.fileNameRaw = f.fileNameRaw ∧
    (Model.parseExtraField fuel f extra).1.fileComment = f.fileComment := by
  fun_induction Model.parseExtraField fuel f extra <;> (try simp_all +zetaDelta) <;>
    (repeat' split) <;> simp_all

/-! ### UTF-8: encode / lossy decode / strict decode -/

/-- **Lossy decoding inverts encoding, for every string of Unicode scalar values** (unbounded). -/
theorem utf8Lossy_encode (s : List Char) : utf8Lossy (utf8Encode s) = s :=
  lossy_of_chunks (utf8Chunks_encode s)

/-- Strict decoding accepts every encoding and returns the string. -/
theorem utf8Strict_encode (s : List Char) : utf8Strict (utf8Encode s) = some s :=
  strict_encode s

/-- Strict decoding is sound: it accepts *only* encodings (so `utf8Strict`/`utf8Encode` are a
bijection between well-formed byte strings and scalar-value strings). -/
theorem utf8Strict_sound {bs : Bytes} {s : List Char} (h : utf8Strict bs = some s) :
    utf8Encode s = bs :=
  encode_of_chunks bs s h

/-- On well-formed input the lossy decoder replaces nothing. -/
theorem utf8Lossy_valid {bs : Bytes} {s : List Char} (h : utf8Strict bs = some s) :
    utf8Lossy bs = s :=
  lossy_of_chunks (allSome_eq_some h)

/-- On ill-formed input the lossy decoder emits at least one U+FFFD (it does not drop bytes silently). -/
theorem utf8Lossy_invalid {bs : Bytes} (h : utf8Strict bs = none) : replacement ∈ utf8Lossy bs := by
  have key : ∀ l : List (Option Char), allSome l = none →
      replacement ∈ l.map (fun | some c => c | none => replacement) := by
    intro l
    induction l with
    | nil => intro h; cases h
    | cons a l ih =>
      intro h
      cases a with
      | none => exact List.mem_cons_self
      | some a =>
        rw [allSome] at h
        cases hl : allSome l with
        | none => exact List.mem_cons_of_mem _ (ih hl)
        | some t => rw [hl] at h; cases h
  exact key _ h

/-- Each output character consumes at least one input byte (no amplification). -/
theorem utf8Lossy_length_le (bs : Bytes) : (utf8Lossy bs).length ≤ bs.length := by
  unfold utf8Lossy; rw [List.length_map]; exact chunks_length_le bs

/-! ### Writer -/

/-- The writer sets the language-encoding flag iff the name has a character ≥ U+0080 (with or
without the encryption bit). -/
theorem writer_flag_iff (s : List Char) (enc : Bool) :
    isUtf8Flag (writerFlags (utf8Encode s) enc) = true ↔ ∃ c ∈ s, 0x80 ≤ c.toNat := by
  rw [isUtf8Flag_writerFlags, isAscii_encode, Bool.not_eq_true', List.all_eq_false]
  constructor
  · rintro ⟨c, hc, h⟩; exact ⟨c, hc, by rw [decide_eq_true_eq] at h; omega⟩
  · rintro ⟨c, hc, h⟩; exact ⟨c, hc, by rw [decide_eq_true_eq]; omega⟩

/-- A name whose UTF-8 encoding does not fit the 16-bit length field is rejected with
`InvalidArchive` before anything is written (never a success with a truncated length). -/
theorem writer_name_too_long_rejected (s : List Char) (enc : Bool)
    (h : 65535 < (utf8Encode s).length) : writerStoreName s enc = .err .invalidArchive := by
  unfold writerStoreName; simp only; rw [if_pos h]

/-- **Writer round trip, for every Rust string** (`List Char`): unless the name is rejected as too
long, the stored bytes are exactly the UTF-8 encoding of the name, the length field is their length
(the `as u16` cast does not truncate), the flag is set iff the name is not ASCII, and reading the
stored name back under the stored flag returns the same string and the same raw bytes (ASCII names:
flag clear, and CP437 decoding of ASCII is the identity; other names: flag set, and lossy UTF-8
decoding inverts the encoding). -/
theorem writer_name_roundtrip (s : List Char) (enc : Bool) :
    (65535 < (utf8Encode s).length ∧ writerStoreName s enc = .err .invalidArchive) ∨
    ∃ st, writerStoreName s enc = .ok st ∧
      st.bytes = utf8Encode s ∧
      st.lenField.toNat = (utf8Encode s).length ∧
      (isUtf8Flag st.flags = true ↔ ∃ c ∈ s, 0x80 ≤ c.toNat) ∧
      readBackName st = .ok ⟨s, utf8Encode s, []⟩ := by
  by_cases hlong : 65535 < (utf8Encode s).length
  · exact .inl ⟨hlong, writer_name_too_long_rejected s enc hlong⟩
  · right
    have hl : (UInt16.ofNat (utf8Encode s).length).toNat = (utf8Encode s).length :=
      UInt16.toNat_ofNat_of_lt' (by show _ < 65536; omega)
    refine ⟨⟨UInt16.ofNat (utf8Encode s).length, utf8Encode s, writerFlags (utf8Encode s) enc⟩,
      ?_, rfl, hl, writer_flag_iff s enc, ?_⟩
    · unfold writerStoreName; simp only; rw [if_neg hlong]
    · show centralNameFields (writerFlags (utf8Encode s) enc)
        ((utf8Encode s).take (UInt16.ofNat (utf8Encode s).length).toNat) [] = _
      rw [hl, List.take_length, central_name_fields, isUtf8Flag_writerFlags]
      cases h : Rs.isAscii (utf8Encode s)
      · -- not ASCII: flag set, lossy UTF-8
        show Out.ok (NameFields.mk (utf8Lossy (utf8Encode s)) _ (utf8Lossy [])) = _
        rw [utf8Lossy_encode]; rfl
      · -- ASCII: flag clear, CP437 (= strict UTF-8 on ASCII bytes)
        show Out.ok (NameFields.mk ((utf8Encode s).map cp437Ref) _ _) = _
        have h1 := strict_ascii (utf8Encode s) h
        rw [strict_encode] at h1
        rw [← Option.some.inj h1]; rfl

/-- The length guard is load-bearing: with the bare `as u16` cast (the code before the guard was
added) a 65 536-byte name is stored with length field 0 and reads back as the empty name. -/
theorem unguarded_cast_would_truncate :
    readBackName ⟨UInt16.ofNat 65536, List.replicate 65536 0x61, 0⟩ = .ok ⟨[], [], []⟩ := by
  have h0 : (UInt16.ofNat 65536).toNat = 0 := by decide
  show centralNameFields 0 ((List.replicate 65536 0x61).take (UInt16.ofNat 65536).toNat) [] = _
  rw [h0, List.take_zero, central_name_fields]
  rfl

/-! ### Non-vacuity and concrete behaviour -/

/-- 1-, 2-, 3- and 4-byte characters: `a é € 😀`. -/
example : utf8Encode ['a', 'é', '€', '😀'] =
    [0x61, 0xC3, 0xA9, 0xE2, 0x82, 0xAC, 0xF0, 0x9F, 0x98, 0x80] := by decide
example : utf8Lossy [0x61, 0xC3, 0xA9, 0xE2, 0x82, 0xAC, 0xF0, 0x9F, 0x98, 0x80] =
    ['a', 'é', '€', '😀'] := by decide
/-- Boundary scalar values of every length class and around the surrogate gap. -/
example : utf8Lossy (utf8Encode [Char.ofNat 0, Char.ofNat 0x7F, Char.ofNat 0x80, Char.ofNat 0x7FF,
    Char.ofNat 0x800, Char.ofNat 0xD7FF, Char.ofNat 0xE000, Char.ofNat 0xFFFF, Char.ofNat 0x10000,
    Char.ofNat 0x10FFFF]) = [Char.ofNat 0, Char.ofNat 0x7F, Char.ofNat 0x80, Char.ofNat 0x7FF,
    Char.ofNat 0x800, Char.ofNat 0xD7FF, Char.ofNat 0xE000, Char.ofNat 0xFFFF, Char.ofNat 0x10000,
    Char.ofNat 0x10FFFF] := by decide
/-- Truncated 3-byte sequence followed by ASCII: one U+FFFD for the maximal subpart `E2 82`. -/
example : utf8Lossy [0xE2, 0x82, 0x41] = [replacement, 'A'] := by decide
/-- Truncated 4-byte sequence at the end of input: one U+FFFD for `F0 9F 98`. -/
example : utf8Lossy [0xF0, 0x9F, 0x98] = [replacement] := by decide
/-- Overlong `C0 80`, surrogate `ED A0 80`, too large `F4 90 80 80`, `F5`: one U+FFFD per byte. -/
example : utf8Lossy [0xC0, 0x80] = [replacement, replacement] := by decide
example : utf8Lossy [0xED, 0xA0, 0x80] = [replacement, replacement, replacement] := by decide
example : utf8Lossy [0xF4, 0x90, 0x80, 0x80] =
    [replacement, replacement, replacement, replacement] := by decide
example : utf8Lossy [0xE0, 0x80, 0x80] = [replacement, replacement, replacement] := by decide
example : utf8Lossy [0xF5, 0x41, 0x80] = [replacement, 'A', replacement] := by decide
/-- The example of Unicode ch. 3.9 (table 3-11): `61 F1 80 80 E1 80 C2 62 80 63 80 BF 64`. -/
example : utf8Lossy [0x61, 0xF1, 0x80, 0x80, 0xE1, 0x80, 0xC2, 0x62, 0x80, 0x63, 0x80, 0xBF, 0x64] =
    ['a', replacement, replacement, replacement, 'b', replacement, 'c', replacement, replacement, 'd'] := by
  decide
example : utf8Strict [0x61, 0xC3] = none := by decide
example : utf8Strict [0xEF, 0xBF, 0xBD] = some [replacement] := by decide
/-- CP437 of high bytes (the crate's own doc examples): `Cura\x87ao` and box drawing. -/
example : fromCp437 [0x43, 0x75, 0x72, 0x61, 0x87, 0x61, 0x6F] = .ok ['C', 'u', 'r', 'a', 'ç', 'a', 'o'] := by
  rw [from_cp437_total]; exact congrArg Out.ok (by decide)
example : [0xCC, 0xCD, 0xCD, 0xB9].map cp437Ref = ['╠', '═', '═', '╣'] := by decide
/-- The same raw bytes read differently under the two flags; the raw name is the same. -/
example : centralNameFields 0x0800 [0xC3, 0xA9] [0xFF] = .ok ⟨['é'], [0xC3, 0xA9], [replacement]⟩ := by
  rw [central_name_fields]; exact congrArg Out.ok (by decide)
example : centralNameFields 0x0000 [0xC3, 0xA9] [0xFF] = .ok ⟨['├', '⌐'], [0xC3, 0xA9], [Char.ofNat 0xA0]⟩ := by
  rw [central_name_fields]; exact congrArg Out.ok (by decide)
/-- Writer: ASCII name → flag clear; non-ASCII name → flag bit 11 set; hypotheses of the round trip hold. -/
example : writerStoreName ['a', '.', 't', 'x', 't'] = .ok ⟨5, [0x61, 0x2E, 0x74, 0x78, 0x74], 0⟩ :=
  congrArg Out.ok (by decide)
example : writerStoreName ['é', '€'] = .ok ⟨5, [0xC3, 0xA9, 0xE2, 0x82, 0xAC], 0x0800⟩ :=
  congrArg Out.ok (by decide)
example : writerStoreName ['é'] true = .ok ⟨2, [0xC3, 0xA9], 0x0801⟩ := congrArg Out.ok (by decide)
/-- Both disjuncts of `writer_name_roundtrip` occur: a name that fits, and one that does not. -/
example : ¬ 65535 < (utf8Encode ['é', '€']).length := by decide
example : 65535 < (utf8Encode (List.replicate 65536 'a')).length := by
  have he : ∀ n, utf8Encode (List.replicate n 'a') = List.replicate n 0x61 := by
    intro n
    induction n with
    | zero => rfl
    | succ n ih => rw [List.replicate_succ, utf8Encode, ih]; rfl
  rw [he, List.length_replicate]; decide

end ZipVerif.Props.C19
