import ZipVerif.Lemmas.Clones
/-
C20 — Cloned archive handles are independent and usable in parallel.
Property theorems only; the model is `Model/Clones.lean` (read its header for the atomic-step
granularity), helper lemmas are in `Lemmas/Clones.lean`.

Granularity proved here: a schedule is an arbitrary merge of the handles' *atomic* steps, where
`by_index*` is split into [seek + parse local header + compute `data_start`] ; [store into the shared
cell, load-free] ; [seek + build the `ZipFile`], `ZipFile::data_start()` is one load, and every other
call is one step touching only handle-local or immutable data.  Each cell access is a single relaxed
atomic on one location, so per-location coherence makes every real execution an interleaving of these
steps as far as the cells are concerned; memory-model subtleties beyond per-location coherence, and the
real OS scheduler, are outside the model (they are exercised, not proved, by the `clones.threads` stress
op of the harness).  `ZipArchive<R>: Send + Sync` is a type-checker fact asserted at compile time in the
harness, not a Lean theorem.
-/

namespace ZipVerif.Props.C20
open ZipVerif ZipVerif.Model.Clones

/-- Every store into a cell is idempotent … -/
theorem store_idempotent (cells : List UInt64) (i : Nat) (v : UInt64) :
    (cells.set i v).set i v = cells.set i v := by
  simp

/-- … and **every store any handle ever performs into cell `i` writes the same value `f i`**, a function
of the immutable archive and the index only: whenever, after any schedule, some handle is about to
execute its store step, the value it carries is `f i`. -/
theorem store_value_determined (A : Arch) (scripts : List (List Op)) (sched : List Nat)
    (H : Handle) (hH : H ∈ (run A (Sys.init A scripts) sched).hs)
    (i : Nat) (raw : Bool) (v : UInt64) (hpc : H.pc = .storing i raw v) : A.f i = some v :=
  ((good_run (good_init A scripts) sched).handles H hH).storing i raw v hpc

/-- **Invariant of the shared cells** after any schedule of any number of handles running any scripts:
there is one cell per entry, every cell is still `0` or already holds `f i`, and if some handle has entry
`i` open (or is between its own store and the construction of its `ZipFile`) then cell `i` holds `f i`. -/
theorem cells_inv (A : Arch) (scripts : List (List Op)) (sched : List Nat) :
    let s := run A (Sys.init A scripts) sched
    s.cells.length = A.entries.length ∧
    (∀ i v, s.cells[i]? = some v → v = 0 ∨ A.f i = some v) ∧
    (∀ H ∈ s.hs, ∀ fl, H.file = some fl → H.pc = .idle →
      ∃ v, A.f fl.idx = some v ∧ s.cells[fl.idx]? = some v) := by
  intro s
  have hg := good_run (good_init A scripts) sched
  refine ⟨hg.cells.len, hg.cells.val, ?_⟩
  intro H hH fl hfl hpc
  exact (hg.handles H hH).held fl.idx (by simp [held, hpc, hfl])

/-- **Local determinism under every schedule** (no hypothesis on the schedule): after any merge order
of atomic steps, the complete local state of handle `h` — reader position, open file, remaining script,
observations so far — is exactly the state it reaches when used alone for as many atomic steps as the
schedule gave it. In particular its observations are always a prefix of the solo observations. -/
theorem interleave_local (A : Arch) (scripts : List (List Op)) (sched : List Nat) (h : Nat)
    (hh : h < scripts.length) :
    (run A (Sys.init A scripts) sched).hs[h]? =
      some (soloRun A (initCells A) (Handle.init scripts[h]) (sched.count h)).2 :=
  sim_local A scripts sched h hh

/-- **Main theorem.** For every archive, every number of handles, all scripts, and every schedule that
is an interleaving of the handles' atomic steps, each handle's observation list equals `runAlone` of its
script. -/
theorem interleave_independent (A : Arch) (scripts : List (List Op)) (sched : List Nat)
    (hs : IsInterleaving A scripts sched) :
    runInterleaved A scripts sched = scripts.map (runAlone A) := by
  unfold runInterleaved
  apply List.ext_getElem?
  intro h
  by_cases hh : h < scripts.length
  · rw [List.getElem?_map, sim_local A scripts sched h hh, hs.2 h hh]
    simp [runAlone, soloFinal, hh]
  · have h1 : scripts.length ≤ h := Nat.le_of_not_lt hh
    rw [List.getElem?_eq_none (by simp [run_length, Sys.init, h1]),
      List.getElem?_eq_none (by simp [h1])]

/-- **Call granularity** (what one thread can do: open on one clone, read a bit on another, resume the
first, …): every interleaving of whole API calls is an interleaving of atomic steps, hence every handle
observes exactly what it observes alone. This is the schedule shape the `clones` correspondence stream
executes on the real crate. -/
theorem calls_independent (A : Arch) (scripts : List (List Op)) (calls : List Nat)
    (hc : IsCallInterleaving scripts calls) :
    runCalls A scripts calls = scripts.map (runAlone A) := by
  obtain ⟨σ, hrun, hmem, hcnt⟩ := calls_as_steps A scripts calls hc.1
    (fun h hh => Nat.le_of_eq (hc.2 h hh))
  have hσ : IsInterleaving A scripts σ := by
    refine ⟨hmem, fun h hh => ?_⟩
    rw [hcnt h hh, hc.2 h hh, List.take_length]
  rw [← interleave_independent A scripts σ hσ]
  unfold runCalls runInterleaved
  rw [hrun]

/-- A script used alone runs to completion within its `atomicSteps`: nothing is left of the script, no
call is half done, and every call produced exactly one observation. (So `IsInterleaving` schedules run
every script completely, and `runAlone` is the observation list of the *whole* script.) -/
theorem runAlone_complete (A : Arch) (script : List Op) :
    (soloFinal A script).script = [] ∧ (soloFinal A script).pc = .idle ∧
      (runAlone A script).length = script.length := by
  obtain ⟨h1, h2, h3⟩ := solo_finished A script (initCells A) (Handle.init script) rfl rfl
  exact ⟨h2, h1, by simpa [runAlone, soloFinal, Handle.init] using h3⟩

/-- What a handle used alone sees from `data_start()`: after a successful open of entry `i` the load
returns `f i` — alone or interleaved (by `interleave_independent`). -/
theorem runAlone_open_dataStart (A : Arch) (i : Nat) (v : UInt64) (hv : A.f i = some v)
    (hd : ∀ e, A.entries[i]? = some e → e.decodable = true) :
    runAlone A [.openIdx i, .dataStart] = [.opened, .dataStart v] := by
  have hlt := f_lt hv
  have hv' := hv
  unfold Arch.f at hv'
  have he : A.entries[i]? = some A.entries[i] := List.getElem?_eq_getElem hlt
  rw [he] at hv'
  simp only at hv'
  have hdec := hd _ he
  cases hf : findContent A.bytes A.entries[i].headerStart with
  | ok w =>
    rw [hf] at hv'
    cases hv'
    have hc : (initCells A).length = A.entries.length := by simp [initCells]
    simp [runAlone, soloFinal, atomicSteps, opSteps, hv, soloRun, stepH, Handle.init, doOp, beginOpen,
      hf, finishOpen, hdec, Handle.emit, hc, hlt]
  | err er => rw [hf] at hv'; cases hv'
  | panic => rw [hf] at hv'; cases hv'

/-! ### Non-vacuity: a concrete archive, two handles, two entries -/

/-- Local header of a stored entry: signature, 22 bytes of fields the model does not look at,
name length 1, extra length 0, the name, then the data. -/
def lfh (name : UInt8) (data : Bytes) : Bytes :=
  [0x50, 0x4b, 0x03, 0x04] ++ List.replicate 22 0 ++ [1, 0, 0, 0] ++ [name] ++ data

/-- Two stored entries `a` = "hello" at 0 (data at 31) and `b` = "xyz" at 36 (data at 67). -/
def demo : Arch where
  bytes := lfh 0x61 [0x68, 0x65, 0x6c, 0x6c, 0x6f] ++ lfh 0x62 [0x78, 0x79, 0x7a]
  entries :=
    [ ⟨[0x61], 0, 5, 5, 0x3610a686, true, true, []⟩,
      ⟨[0x62], 36, 3, 3, 0x2e7e42a4, true, true, []⟩ ]

def scriptA : List Op := [.openIdx 0, .read 2, .dataStart, .read 10]
def scriptB : List Op := [.openIdx 0, .read 3, .openIdx 1, .dataStart, .read 2, .info]

example : demo.f 0 = some 31 ∧ demo.f 1 = some 67 ∧ demo.f 2 = none := by decide

example : runAlone demo scriptA =
    [.opened, .bytes [0x68, 0x65], .dataStart 31, .bytes [0x6c, 0x6c, 0x6f]] := by decide

example : runAlone demo scriptB =
    [.opened, .bytes [0x68, 0x65, 0x6c], .opened, .dataStart 67, .bytes [0x78, 0x79],
     .info [0x62] 3 0x2e7e42a4 36] := by decide

/-- A schedule that switches handles in the middle of the opens (between header parse, store and seek)
and between partial reads. -/
def demoSched : List Nat := [0, 1, 1, 0, 0, 1, 0, 1, 1, 0, 1, 1, 0, 1, 1, 1]

example : IsInterleaving demo [scriptA, scriptB] demoSched := by decide

example : runInterleaved demo [scriptA, scriptB] demoSched =
    [runAlone demo scriptA, runAlone demo scriptB] := by decide

/-- The cells after that run, and a state in which both handles sit between header parse and store of
the same entry (the hypothesis of `store_value_determined`): both carry the same value `f 0 = 31`. -/
example : (run demo (Sys.init demo [scriptA, scriptB]) demoSched).cells = [31, 67] := by decide

example : (run demo (Sys.init demo [scriptA, scriptB]) [0, 1]).hs.map (·.pc) =
    [.storing 0 false 31, .storing 0 false 31] ∧
    (run demo (Sys.init demo [scriptA, scriptB]) [0, 1]).cells = [0, 0] := by decide

/-- The same two scripts at call granularity (handle 0 opens and reads a bit, handle 1 opens the same
entry, reads, switches entry, handle 0 resumes …). -/
example : IsCallInterleaving [scriptA, scriptB] [0, 1, 0, 1, 1, 0, 1, 0, 1, 1] ∧
    runCalls demo [scriptA, scriptB] [0, 1, 0, 1, 1, 0, 1, 0, 1, 1] =
      [runAlone demo scriptA, runAlone demo scriptB] := by decide

/-- The hypothesis of `interleave_independent` cannot simply be dropped: a schedule that starves handle 1
leaves it with a strict prefix of its solo observations (as `interleave_local` says). -/
example : runInterleaved demo [scriptA, scriptB] [0, 0, 0, 1, 1, 1, 1] =
    [[.opened], [.opened, .bytes [0x68, 0x65, 0x6c]]] := by decide

/-- Failing opens are covered: entry with a bad local signature (no store happens: cell stays 0 for
everybody), index out of range. -/
def demoBad : Arch := { demo with bytes := 0x51 :: demo.bytes.drop 1 }

example : demoBad.f 0 = none ∧ demoBad.f 1 = some 67 := by decide

example : runInterleaved demoBad
      [[.openIdx 0, .dataStart, .openIdx 1, .dataStart], [.openIdx 7, .openRaw 1, .read 9]]
      [1, 0, 1, 0, 1, 0, 1, 0, 1, 0, 0] =
    [[.openErr .invalidArchive, .noFile, .opened, .dataStart 67],
     [.openErr .fileNotFound, .opened, .bytes [0x78, 0x79, 0x7a]]] := by decide

end ZipVerif.Props.C20
