import ZipVerif.Lemmas.Clones
/-
C20 — Cloned archive handles are independent and usable in parallel.
Property theorems only; the model is `Model/Clones.lean` (read its header for the atomic-step
granularity), helper lemmas are in `Lemmas/Clones.lean`.

Granularity proved here: a schedule is an arbitrary merge of the handles' *atomic* steps, where
`by_index*` is split into [seek + parse local header + compute `data_start`] ; [store into the shared
cell, load-free] ; [seek + build the `ZipFile`], `ZipFile::data_start()` is one load, and every other
call is one step touching only handle-local or immutable data.  Each cell access is a single relaxed
atomic on one location, so per-location coherence makes every real execution an interleaving of these
steps as far as the cells are concerned;
HYPOTHESIS ON THE READER (the property says "each with its own cloned reader"): `R::clone` yields a reader
with its OWN position over the same bytes - in the model every `Handle` carries its own `pos` and no step of
another handle touches it.  Readers whose clones share one cursor (`ZipArchive<&File>`, `File::try_clone`)
are NOT covered; `sharedPos_breaks_independence` below shows, in the model's own terms, that the statement
is false for them (a resumed partial read returns another entry's bytes).
Passwords: the verdict of a decrypting open is `A.unlock i p`, a function of entry and password alone
(`decrypt_outcome_by_entry_and_password`); nothing one handle presents can change what another one gets.
Memory-model subtleties beyond per-location coherence, and the
real OS scheduler, are outside the model (they are exercised, not proved, by the `clones.threads` stress
op of the harness).  `ZipArchive<R>: Send + Sync` is a type-checker fact asserted at compile time in the
harness, not a Lean theorem.
-/

namespace ZipVerif.Props.C20
open ZipVerif ZipVerif.Model.Clones

/-- Every store into a cell is idempotent … -/
theorem store_idempotent (cells : List UInt64) (i : Nat) (v : UInt64) :
    (cells.set i v).set i v = cells.set i v := by
  simp

/-- … and **every store any handle ever performs into cell `i` writes the same value `f i`**, a function
of the immutable archive and the index only: whenever, after any schedule, some handle is about to
execute its store step, the value it carries is `f i`. -/
theorem store_value_determined (A : Arch) (scripts : List (List Op)) (sched : List Nat)
    (H : Handle) (hH : H ∈ (run A (Sys.init A scripts) sched).hs)
    (i : Nat) (md : Mode) (v : UInt64) (hpc : H.pc = .storing i md v) : A.f i = some v :=
  ((good_run (good_init A scripts) sched).handles H hH).storing i md v hpc

/-- **Invariant of the shared cells** after any schedule of any number of handles running any scripts:
there is one cell per entry, every cell is still `0` or already holds `f i`, and if some handle has entry
`i` open (or is between its own store and the construction of its `ZipFile`) then cell `i` holds `f i`. -/
theorem cells_inv (A : Arch) (scripts : List (List Op)) (sched : List Nat) :
    let s := run A (Sys.init A scripts) sched
    s.cells.length = A.entries.length ∧
    (∀ i v, s.cells[i]? = some v → v = 0 ∨ A.f i = some v) ∧
    (∀ H ∈ s.hs, ∀ fl, H.file = some fl → H.pc = .idle →
      ∃ v, A.f fl.idx = some v ∧ s.cells[fl.idx]? = some v) := by
  intro s
  have hg := good_run (good_init A scripts) sched
  refine ⟨hg.cells.len, hg.cells.val, ?_⟩
  intro H hH fl hfl hpc
  exact (hg.handles H hH).held fl.idx (by simp [held, hpc, hfl])

/-- **Local determinism under every schedule** (no hypothesis on the schedule): after any merge order
of atomic steps, the complete local state of handle `h` — reader position, open file, remaining script,
observations so far — is exactly the state it reaches when used alone for as many atomic steps as the
schedule gave it. In particular its observations are always a prefix of the solo observations. -/
theorem interleave_local (A : Arch) (scripts : List (List Op)) (sched : List Nat) (h : Nat)
    (hh : h < scripts.length) :
    (run A (Sys.init A scripts) sched).hs[h]? =
      some (soloRun A (initCells A) (Handle.init scripts[h]) (sched.count h)).2 :=
  sim_local A scripts sched h hh

/-- **Main theorem.** For every archive, every number of handles, all scripts, and every schedule that
is an interleaving of the handles' atomic steps, each handle's observation list equals `runAlone` of its
script. -/
theorem interleave_independent (A : Arch) (scripts : List (List Op)) (sched : List Nat)
    (hs : IsInterleaving A scripts sched) :
    runInterleaved A scripts sched = scripts.map (runAlone A) := by
  unfold runInterleaved
  apply List.ext_getElem?
  intro h
  by_cases hh : h < scripts.length
  · rw [List.getElem?_map, sim_local A scripts sched h hh, hs.2 h hh]
    simp [runAlone, soloFinal, hh]
  · have h1 : scripts.length ≤ h := Nat.le_of_not_lt hh
    rw [List.getElem?_eq_none (by simp [run_length, Sys.init, h1]),
      List.getElem?_eq_none (by simp [h1])]

/-- **Call granularity** (what one thread can do: open on one clone, read a bit on another, resume the
first, …): every interleaving of whole API calls is an interleaving of atomic steps, hence every handle
observes exactly what it observes alone. This is the schedule shape the `clones` correspondence stream
executes on the real crate. -/
theorem calls_independent (A : Arch) (scripts : List (List Op)) (calls : List Nat)
    (hc : IsCallInterleaving scripts calls) :
    runCalls A scripts calls = scripts.map (runAlone A) := by
  obtain ⟨σ, hrun, hmem, hcnt⟩ := calls_as_steps A scripts calls hc.1
    (fun h hh => Nat.le_of_eq (hc.2 h hh))
  have hσ : IsInterleaving A scripts σ := by
    refine ⟨hmem, fun h hh => ?_⟩
    rw [hcnt h hh, hc.2 h hh, List.take_length]
  rw [← interleave_independent A scripts σ hσ]
  unfold runCalls runInterleaved
  rw [hrun]

/-- A script used alone runs to completion within its `atomicSteps`: nothing is left of the script, no
call is half done, and every call produced exactly one observation. (So `IsInterleaving` schedules run
every script completely, and `runAlone` is the observation list of the *whole* script.) -/
theorem runAlone_complete (A : Arch) (script : List Op) :
    (soloFinal A script).script = [] ∧ (soloFinal A script).pc = .idle ∧
      (runAlone A script).length = script.length := by
  obtain ⟨h1, h2, h3⟩ := solo_finished A script (initCells A) (Handle.init script) rfl rfl
  exact ⟨h2, h1, by simpa [runAlone, soloFinal, Handle.init] using h3⟩

/-- The observation of one opening call run alone on a fresh archive, when the local header is fine
(`A.g i md = some v`): exactly the last observation `finishOpen` emits. -/
theorem runAlone_open (A : Arch) (op : Op) (i : Nat) (md : Mode) (v : UInt64)
    (ht : op.target A = some (i, md)) (hv : A.g i md = some v) :
    soloFinal A [op] = finishOpen A
      { beginOpen A { Handle.init [op] with script := [] } i md with pc := .seeking i md v } i md v := by
  have h3 : atomicSteps A [op] = 3 := by simp [atomicSteps, opSteps_target ht, hv]
  unfold soloFinal
  rw [h3, solo_open3 A _ (Handle.init [op]) op [] rfl rfl i md ht v hv]

/-- A single opening call observes a function of its target (entry after name resolution, mode). -/
theorem runAlone_single_target (A : Arch) (op op' : Op) (i : Nat) (md : Mode)
    (ht : op.target A = some (i, md)) (ht' : op'.target A = some (i, md)) :
    runAlone A [op] = runAlone A [op'] := by
  unfold runAlone
  cases hv : A.g i md with
  | some v => rw [runAlone_open A op i md v ht hv, runAlone_open A op' i md v ht' hv]; rfl
  | none =>
    have h1 : atomicSteps A [op] = 1 := by simp [atomicSteps, opSteps_target ht, hv]
    have h1' : atomicSteps A [op'] = 1 := by simp [atomicSteps, opSteps_target ht', hv]
    unfold soloFinal
    rw [h1, h1']
    show (stepH A (initCells A) (Handle.init [op])).2.obs = (stepH A (initCells A) (Handle.init [op'])).2.obs
    simp only [stepH, Handle.init]
    rw [doOp_target _ _ ht, doOp_target _ _ ht']

/-- What a handle used alone sees from `data_start()`: after a successful open of entry `i` the load
returns `f i` — alone or interleaved (by `interleave_independent`). -/
theorem runAlone_open_dataStart (A : Arch) (i : Nat) (v : UInt64) (hv : A.f i = some v)
    (hd : ∀ e, A.entries[i]? = some e → e.decodable = true ∧ e.encrypted = false) :
    runAlone A [.openIdx i, .dataStart] = [.opened, .dataStart v] := by
  have hlt := f_lt hv
  have hv' := hv
  unfold Arch.f at hv'
  have he : A.entries[i]? = some A.entries[i] := List.getElem?_eq_getElem hlt
  rw [he] at hv'
  simp only at hv'
  obtain ⟨hdec, henc⟩ := hd _ he
  have hg : A.g i .noPw = some v := by simp [Arch.g, needsPw, he, henc, hv]
  cases hf : findContent A.bytes A.entries[i].headerStart with
  | ok w =>
    rw [hf] at hv'
    cases hv'
    have hc : (initCells A).length = A.entries.length := by simp [initCells]
    simp [runAlone, soloFinal, atomicSteps, opSteps, hg, soloRun, stepH, Handle.init, doOp, beginOpen,
      hf, finishOpen, hdec, henc, Handle.emit, hc, hlt, needsPw]
  | err er => rw [hf] at hv'; cases hv'
  | panic => rw [hf] at hv'; cases hv'

/-- What the caller of `by_index_decrypt` / `by_name_decrypt` gets for each verdict of the parameter. -/
def unlockObs : Unlock → Obs
  | .wrong => .invalidPassword
  | .fails e => .openErr e
  | .opens _ _ => .opened

/-- **The outcome of a decrypting open is a function of the entry and the password only.**  For an
encrypted entry with a decoder whose local header is fine, `by_index_decrypt(i, p)` used alone returns
exactly the verdict of `A.unlock i p` — and by `interleave_independent` / `calls_independent` the same in
every interleaving with any other handles, whatever passwords THEY present, before or after.  (A key
cache shared between clones that answers a wrong password with the verdict of an earlier right one is
not an instance of this model: the correspondence stream `clones` and its implementation-only oracle
compare exactly these observations.) -/
theorem decrypt_outcome_by_entry_and_password (A : Arch) (i : Nat) (p : Bytes) (e : Entry) (v : UInt64)
    (he : A.entries[i]? = some e) (henc : e.encrypted = true) (hdec : e.decodable = true)
    (hv : A.f i = some v) :
    runAlone A [.openDec i p] = [unlockObs (A.unlock i p)] := by
  have hg : A.g i (.pw p) = some v := by simp [Arch.g, needsPw, he, hv]
  unfold runAlone
  rw [runAlone_open A (.openDec i p) i (.pw p) v rfl hg]
  have hb : (beginOpen A { Handle.init [Op.openDec i p] with script := [] } i (.pw p)).obs = [] :=
    (beginOpen_some _ (.pw p) hg).2.2
  unfold finishOpen
  simp only [he, hdec, henc, Bool.not_true, Bool.false_eq_true, if_false]
  cases A.unlock i p <;> simp [Handle.emit, hb, unlockObs]

/-- The same through the name map. -/
theorem decrypt_by_name_eq_by_index (A : Arch) (nm p : Bytes) :
    runAlone A [.openNameDec nm p] = runAlone A [.openDec (A.nameIndex nm) p] ∧
    runAlone A [.openName nm] = runAlone A [.openIdx (A.nameIndex nm)] :=
  ⟨runAlone_single_target A _ _ _ _ rfl rfl, runAlone_single_target A _ _ _ _ rfl rfl⟩

/-- `by_index` / `by_name` on an encrypted entry is refused before anything is touched: one atomic
step, no seek, no store — whatever the other handles do. -/
theorem open_encrypted_without_password (A : Arch) (i : Nat) (e : Entry)
    (he : A.entries[i]? = some e) (henc : e.encrypted = true) :
    runAlone A [.openIdx i] = [.openErr .passwordRequired] ∧ opSteps A (.openIdx i) = 1 := by
  have hg : A.g i .noPw = none := by simp [Arch.g, needsPw, he, henc]
  refine ⟨?_, by simp [opSteps, hg]⟩
  simp [runAlone, soloFinal, atomicSteps, opSteps, hg, soloRun, stepH, Handle.init, doOp, beginOpen,
    he, henc, Handle.emit, needsPw]

/-- A password given for a PLAIN entry is discarded: same observations as without one, for the call
and for everything the handle does afterwards. -/
theorem password_on_plain_entry_ignored (A : Arch) (i : Nat) (p : Bytes) (e : Entry)
    (he : A.entries[i]? = some e) (henc : e.encrypted = false) (rest : List Op) :
    runAlone A (.openDec i p :: rest) = runAlone A (.openIdx i :: rest) := by
  have hg : A.g i (.pw p) = A.g i .noPw := by simp [Arch.g, needsPw, he, henc]
  have hsteps : opSteps A (.openDec i p) = opSteps A (.openIdx i) := by simp [opSteps, hg]
  have key : soloRun A (initCells A) (Handle.init (.openDec i p :: rest)) (opSteps A (.openDec i p)) =
      soloRun A (initCells A) (Handle.init (.openIdx i :: rest)) (opSteps A (.openIdx i)) := by
    cases hv : A.g i .noPw with
    | some v =>
      have h3 : opSteps A (.openIdx i) = 3 := by simp [opSteps, hv]
      rw [hsteps, h3,
        solo_open3 A _ (Handle.init (.openDec i p :: rest)) _ rest rfl rfl i (.pw p) rfl v (hg ▸ hv),
        solo_open3 A _ (Handle.init (.openIdx i :: rest)) _ rest rfl rfl i .noPw rfl v hv]
      congr 1
      simp only [finishOpen, beginOpen, he, henc, needsPw, Handle.init, Handle.emit,
        Bool.not_false, Bool.false_eq_true, if_false, if_true]
      cases findContent A.bytes e.headerStart <;> cases e.decodable <;> simp
    | none =>
      have h1 : opSteps A (.openIdx i) = 1 := by simp [opSteps, hv]
      rw [hsteps, h1]
      show stepH A (initCells A) (Handle.init (.openDec i p :: rest)) =
        stepH A (initCells A) (Handle.init (.openIdx i :: rest))
      have hf : A.f i = none := by simpa [Arch.g, needsPw, he, henc] using hv
      unfold Arch.f at hf
      rw [he] at hf
      simp only at hf
      simp only [stepH, Handle.init, doOp, beginOpen, he, needsPw, henc, Bool.false_eq_true, if_false]
      cases hfc : findContent A.bytes e.headerStart with
      | ok w => rw [hfc] at hf; cases hf
      | err er => rfl
      | panic => rfl
  unfold runAlone soloFinal
  have e1 : atomicSteps A (.openDec i p :: rest) = opSteps A (.openDec i p) + atomicSteps A rest := by
    simp [atomicSteps]
  have e2 : atomicSteps A (.openIdx i :: rest) = opSteps A (.openIdx i) + atomicSteps A rest := by
    simp [atomicSteps]
  rw [e1, e2, soloRun_add, soloRun_add, key]

/-! ### Non-vacuity: a concrete archive, two handles, two entries -/

/-- Local header of a stored entry: signature, 22 bytes of fields the model does not look at,
name length 1, extra length 0, the name, then the data. -/
def lfh (name : UInt8) (data : Bytes) : Bytes :=
  [0x50, 0x4b, 0x03, 0x04] ++ List.replicate 22 0 ++ [1, 0, 0, 0] ++ [name] ++ data

/-- Two stored entries `a` = "hello" at 0 (data at 31) and `b` = "xyz" at 36 (data at 67). -/
def demo : Arch where
  bytes := lfh 0x61 [0x68, 0x65, 0x6c, 0x6c, 0x6f] ++ lfh 0x62 [0x78, 0x79, 0x7a]
  entries :=
    [ ⟨[0x61], 0, 5, 5, 0x3610a686, true, true, [], false, none⟩,
      ⟨[0x62], 36, 3, 3, 0x2e7e42a4, true, true, [], false, none⟩ ]

def scriptA : List Op := [.openIdx 0, .read 2, .dataStart, .read 10]
def scriptB : List Op := [.openIdx 0, .read 3, .openIdx 1, .dataStart, .read 2, .info]

example : demo.f 0 = some 31 ∧ demo.f 1 = some 67 ∧ demo.f 2 = none := by decide

example : runAlone demo scriptA =
    [.opened, .bytes [0x68, 0x65], .dataStart 31, .bytes [0x6c, 0x6c, 0x6f]] := by decide

example : runAlone demo scriptB =
    [.opened, .bytes [0x68, 0x65, 0x6c], .opened, .dataStart 67, .bytes [0x78, 0x79],
     .info [0x62] 3 0x2e7e42a4 36] := by decide

/-- A schedule that switches handles in the middle of the opens (between header parse, store and seek)
and between partial reads. -/
def demoSched : List Nat := [0, 1, 1, 0, 0, 1, 0, 1, 1, 0, 1, 1, 0, 1, 1, 1]

example : IsInterleaving demo [scriptA, scriptB] demoSched := by decide

example : runInterleaved demo [scriptA, scriptB] demoSched =
    [runAlone demo scriptA, runAlone demo scriptB] := by decide

/-- The cells after that run, and a state in which both handles sit between header parse and store of
the same entry (the hypothesis of `store_value_determined`): both carry the same value `f 0 = 31`. -/
example : (run demo (Sys.init demo [scriptA, scriptB]) demoSched).cells = [31, 67] := by decide

example : (run demo (Sys.init demo [scriptA, scriptB]) [0, 1]).hs.map (·.pc) =
    [.storing 0 .noPw 31, .storing 0 .noPw 31] ∧
    (run demo (Sys.init demo [scriptA, scriptB]) [0, 1]).cells = [0, 0] := by decide

/-- The same two scripts at call granularity (handle 0 opens and reads a bit, handle 1 opens the same
entry, reads, switches entry, handle 0 resumes …). -/
example : IsCallInterleaving [scriptA, scriptB] [0, 1, 0, 1, 1, 0, 1, 0, 1, 1] ∧
    runCalls demo [scriptA, scriptB] [0, 1, 0, 1, 1, 0, 1, 0, 1, 1] =
      [runAlone demo scriptA, runAlone demo scriptB] := by decide

/-- The hypothesis of `interleave_independent` cannot simply be dropped: a schedule that starves handle 1
leaves it with a strict prefix of its solo observations (as `interleave_local` says). -/
example : runInterleaved demo [scriptA, scriptB] [0, 0, 0, 1, 1, 1, 1] =
    [[.opened], [.opened, .bytes [0x68, 0x65, 0x6c]]] := by decide

/-- Failing opens are covered: entry with a bad local signature (no store happens: cell stays 0 for
everybody), index out of range. -/
def demoBad : Arch := { demo with bytes := 0x51 :: demo.bytes.drop 1 }

example : demoBad.f 0 = none ∧ demoBad.f 1 = some 67 := by decide

example : runInterleaved demoBad
      [[.openIdx 0, .dataStart, .openIdx 1, .dataStart], [.openIdx 7, .openRaw 1, .read 9]]
      [1, 0, 1, 0, 1, 0, 1, 0, 1, 0, 0] =
    [[.openErr .invalidArchive, .noFile, .opened, .dataStart 67],
     [.openErr .fileNotFound, .opened, .bytes [0x78, 0x79, 0x7a]]] := by decide

/-! ### Encrypted entries: the verdict for a password does not depend on what other handles did -/

/-- `demo` plus a third, encrypted entry "c" (stored bytes = 14 opaque bytes at 100, header at 69); the
parameter accepts exactly the password `[1]` (content "OK") and - like a ZipCrypto check-byte collision -
`[9]` with garbage content whose final read fails. -/
def demoEnc : Arch where
  bytes := demo.bytes ++ lfh 0x63 (List.replicate 14 0xEE)
  entries := demo.entries ++ [ ⟨[0x63], 70, 14, 2, 0x11223344, true, true, [], true, none⟩ ]
  unlock := fun i p =>
    if i = 2 ∧ p = [1] then .opens [0x4f, 0x4b] none
    else if i = 2 ∧ p = [9] then .opens [0x21, 0x3f] (some .other)
    else .wrong

example : demoEnc.f 2 = some 101 := by decide

/-- Hypotheses of `decrypt_outcome_by_entry_and_password` on a concrete instance, all three verdicts. -/
example : runAlone demoEnc [.openDec 2 [1], .read 10] = [.opened, .bytes [0x4f, 0x4b]] ∧
    runAlone demoEnc [.openDec 2 [7]] = [.invalidPassword] ∧
    runAlone demoEnc [.openDec 2 []] = [.invalidPassword] ∧
    runAlone demoEnc [.openIdx 2] = [.openErr .passwordRequired] ∧
    runAlone demoEnc [.openNameDec [0x63] [9], .read 2, .read 1, .read 1] =
      [.opened, .bytes [0x21, 0x3f], .readErr .other, .readErr .other] ∧
    runAlone demoEnc [.openDec 0 [7], .read 9] = runAlone demoEnc [.openIdx 0, .read 9] := by decide

/-- Handle 0 validates the right password, handle 1 presents a wrong one, the empty one and the name of
the entry with a wrong one - BEFORE, BETWEEN and AFTER handle 0's steps; handle 2 makes a failing read.
Every handle sees exactly its solo observations (an instance of `interleave_independent`). -/
example :
    let scripts : List (List Op) :=
      [[.openDec 2 [1], .read 1, .dataStart, .read 5],
       [.openDec 2 [7], .openDec 2 [], .openNameDec [0x63] [7], .openDec 2 [1], .read 2],
       [.openDec 2 [9], .read 5]]
    let sched := [1, 0, 1, 0, 1, 0, 2, 0, 1, 2, 1, 0, 2, 1, 1, 1, 2, 0, 1, 1, 1, 1, 1]
    IsInterleaving demoEnc scripts sched ∧
    runInterleaved demoEnc scripts sched =
      [[.opened, .bytes [0x4f], .dataStart 101, .bytes [0x4b]],
       [.invalidPassword, .invalidPassword, .invalidPassword, .opened, .bytes [0x4f, 0x4b]],
       [.opened, .readErr .other]] := by decide

/-! ### The hypothesis on the reader: clones must not share their position -/

/-- The system one gets when `R::clone` does NOT give an independent cursor (`ZipArchive<&File>`: every
clone seeks and reads through the same OS file offset): identical to `Sys.step`, except that the acting
handle starts from, and leaves behind, ONE shared position. -/
def stepSharedPos (A : Arch) (s : Sys × Nat) (h : Nat) : Sys × Nat :=
  match s.1.hs[h]? with
  | none => s
  | some H =>
    let r := stepH A s.1.cells { H with pos := s.2 }
    (⟨r.1, s.1.hs.set h r.2⟩, r.2.pos)

def runSharedPos (A : Arch) (scripts : List (List Op)) (sched : List Nat) : List (List Obs) :=
  (sched.foldl (stepSharedPos A) (Sys.init A scripts, 0)).1.hs.map (·.obs)

/-- With a shared position `interleave_independent` is FALSE: handle 0 opens "hello", reads 2 bytes, handle 1
opens "xyz" (moving the shared offset), handle 0 resumes and receives entry 1's bytes.  (On the crate the
same schedule over `ZipArchive<&File>` returns wrong bytes followed by "Invalid checksum".)  Hence the
hypothesis "each handle's reader has its own position" - structural in `Model/Clones.lean`, stated in the
claim text - cannot be dropped. -/
theorem sharedPos_breaks_independence :
    ∃ (A : Arch) (scripts : List (List Op)) (sched : List Nat), IsInterleaving A scripts sched ∧
      runSharedPos A scripts sched ≠ scripts.map (runAlone A) :=
  ⟨demo, [[.openIdx 0, .read 2, .read 3], [.openIdx 1, .read 1]], [0, 0, 0, 0, 1, 1, 1, 1, 0],
    by decide, by decide⟩

example : runSharedPos demo [[.openIdx 0, .read 2, .read 3], [.openIdx 1, .read 1]]
      [0, 0, 0, 0, 1, 1, 1, 1, 0] =
    [[.opened, .bytes [0x68, 0x65], .bytes [0x79, 0x7a]], [.opened, .bytes [0x78]]] := by decide

end ZipVerif.Props.C20
