import ZipVerif.Basic.Bytes
/-
CRC-32 (IEEE 802.3, reflected polynomial 0xEDB88320) defined from the polynomial, bit by bit.
Interface shared by every model file: `update`, `updateBytes`, `crc32`.
-/

namespace ZipVerif.Spec.Crc32

def poly : UInt32 := 0xEDB88320

/-- One shift of the reflected LFSR. -/
def step (r : UInt32) : UInt32 :=
  if r &&& 1 == 1 then (r >>> 1) ^^^ poly else r >>> 1

def step8 (r : UInt32) : UInt32 := step (step (step (step (step (step (step (step r)))))))

/-- Table entry for index `i` (what zlib's `crc_table[i]` holds). -/
def tableEntry (i : UInt8) : UInt32 := step8 i.toUInt32

/-- Feed one byte into the raw register. -/
def update (crc : UInt32) (b : UInt8) : UInt32 :=
  tableEntry ((crc.toUInt8) ^^^ b) ^^^ (crc >>> 8)

def updateBytes (crc : UInt32) (bs : Bytes) : UInt32 := bs.foldl update crc

def crc32 (bs : Bytes) : UInt32 := updateBytes 0xFFFFFFFF bs ^^^ 0xFFFFFFFF

theorem updateBytes_append (crc : UInt32) (a b : Bytes) :
    updateBytes crc (a ++ b) = updateBytes (updateBytes crc a) b := by
  simp [updateBytes, List.foldl_append]

@[simp] theorem updateBytes_nil (crc : UInt32) : updateBytes crc [] = crc := rfl

@[simp] theorem updateBytes_cons (crc : UInt32) (b : UInt8) (bs : Bytes) :
    updateBytes crc (b :: bs) = updateBytes (update crc b) bs := rfl

end ZipVerif.Spec.Crc32
