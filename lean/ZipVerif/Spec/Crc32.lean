import ZipVerif.Basic.Bytes
/-
CRC-32 (ISO 3309 / ITU-T V.42, the checksum APPNOTE 4.4.7 prescribes), written from the
polynomial.  Nothing here is taken from the crate: the 256-entry table is *computed* from the
reflected generator polynomial 0xEDB88320 by eight shift/xor steps per entry.

* `step`           one bit of the reflected division (shift right, xor the polynomial if a 1 fell out)
* `updateBitwise`  feed one message byte, bit by bit — the definition
* `tableEntry`     remainder of one byte value (what a CRC table stores at that index)
* `updateByte`     table form `(c >>> 8) ^^^ T[(c ^^^ b) & 0xff]`, proved equal to `updateBitwise`
* `crc32`          whole message: initial value 0xFFFFFFFF, final complement
* `table`/`updateFast`/`crc32Fast`  precomputed `Array UInt32` for the compiled driver (`@[csimp]`:
  compiled code that calls `updateByte` runs the array version; the kernel sees the definition).

Core only (this file is linked into the driver).
-/

namespace ZipVerif.Spec.Crc32

/-- The reflected CRC-32 generator polynomial (x^32 + x^26 + … + 1, bit-reversed). -/
def poly : UInt32 := 0xEDB88320

/-- One step of the reflected bit-serial division. -/
def step (c : UInt32) : UInt32 :=
  if c &&& 1 = 1 then (c >>> 1) ^^^ poly else c >>> 1

/-- Eight steps: one message byte's worth of division. -/
def step8 (c : UInt32) : UInt32 := step (step (step (step (step (step (step (step c)))))))

/-- Feed one byte, bit by bit (the definition of the byte update). -/
def updateBitwise (c : UInt32) (b : UInt8) : UInt32 := step8 (c ^^^ b.toUInt32)

/-- The value a CRC-32 table holds at index `i`. -/
def tableEntry (i : UInt8) : UInt32 := step8 i.toUInt32

/-- Table form of the byte update. -/
def updateByte (c : UInt32) (b : UInt8) : UInt32 :=
  (c >>> 8) ^^^ tableEntry (c.toUInt8 ^^^ b)

/-- interface name used by the layer models -/
abbrev update := updateByte

/-- The register after feeding a list of bytes (no initial / final conditioning). -/
def updateBytes (c : UInt32) (bs : Bytes) : UInt32 := bs.foldl updateByte c

/-- CRC-32 of a message. -/
def crc32 (bs : Bytes) : UInt32 := updateBytes 0xFFFFFFFF bs ^^^ 0xFFFFFFFF

/-! ### Linearity of the division step, and table form = bitwise form -/

theorem and_one_cases (c : UInt32) : c &&& 1 = 0 ∨ c &&& 1 = 1 := by
  have h : (c &&& 1).toNat = c.toNat % 2 := by
    rw [UInt32.toNat_and]
    exact Nat.and_two_pow_sub_one_eq_mod c.toNat 1
  rcases Nat.mod_two_eq_zero_or_one c.toNat with h0 | h1
  · left; apply UInt32.toNat_inj.mp; rw [h, h0]; rfl
  · right; apply UInt32.toNat_inj.mp; rw [h, h1]; rfl

theorem step_zero : step 0 = 0 := by decide

theorem and_xor_right (a b c : UInt32) : (a ^^^ b) &&& c = (a &&& c) ^^^ (b &&& c) := by
  apply UInt32.toNat_inj.mp
  simp only [UInt32.toNat_and, UInt32.toNat_xor]
  exact Nat.and_xor_distrib_right

/-- `step` is additive over xor (the division is GF(2)-linear). -/
theorem step_xor (a b : UInt32) : step (a ^^^ b) = step a ^^^ step b := by
  have hd : (a ^^^ b) &&& 1 = (a &&& 1) ^^^ (b &&& 1) := and_xor_right a b 1
  have hs : (a ^^^ b) >>> 1 = (a >>> 1) ^^^ (b >>> 1) := UInt32.shiftRight_xor
  have n : ((0 : UInt32) = 1) = False := by decide
  have e00 : (0 : UInt32) ^^^ 0 = 0 := by decide
  have e01 : (0 : UInt32) ^^^ 1 = 1 := by decide
  have e10 : (1 : UInt32) ^^^ 0 = 1 := by decide
  have e11 : (1 : UInt32) ^^^ 1 = 0 := by decide
  unfold step
  rw [hd, hs]
  rcases and_one_cases a with ha | ha <;> rcases and_one_cases b with hb | hb <;> rw [ha, hb]
  · simp only [e00, n, if_false]
  · simp only [e01, n, if_false, if_true]
    ac_rfl
  · simp only [e10, n, if_false, if_true]
    ac_rfl
  · simp only [e11, n, if_false, if_true]
    rw [show (a >>> 1 ^^^ poly) ^^^ (b >>> 1 ^^^ poly) = (a >>> 1 ^^^ b >>> 1) ^^^ (poly ^^^ poly) by ac_rfl,
      UInt32.xor_self, UInt32.xor_zero]

theorem step8_xor (a b : UInt32) : step8 (a ^^^ b) = step8 a ^^^ step8 b := by
  simp only [step8, step_xor]

/-- On an even register value the step is a plain shift. -/
theorem step_even (c : UInt32) (h : c.toNat % 2 = 0) : (step c).toNat = c.toNat / 2 := by
  have h1 : c &&& 1 = 0 := by
    apply UInt32.toNat_inj.mp
    rw [UInt32.toNat_and]
    exact (Nat.and_two_pow_sub_one_eq_mod c.toNat 1).trans h
  have n : ¬ ((0 : UInt32) = 1) := by decide
  unfold step; rw [h1, if_neg n, UInt32.toNat_shiftRight]
  show c.toNat >>> 1 = _
  rw [Nat.shiftRight_eq_div_pow]

/-- Eight steps on a value whose low byte is zero just shift it out. -/
theorem step8_low_zero (c : UInt32) (h : c.toNat % 256 = 0) : step8 c = c >>> 8 := by
  have n1 := step_even c (by omega)
  have n2 := step_even (step c) (by omega)
  have n3 := step_even (step (step c)) (by omega)
  have n4 := step_even (step (step (step c))) (by omega)
  have n5 := step_even (step (step (step (step c)))) (by omega)
  have n6 := step_even (step (step (step (step (step c))))) (by omega)
  have n7 := step_even (step (step (step (step (step (step c)))))) (by omega)
  have n8 := step_even (step (step (step (step (step (step (step c))))))) (by omega)
  apply UInt32.toNat_inj.mp
  unfold step8
  rw [UInt32.toNat_shiftRight]
  show _ = c.toNat >>> 8
  rw [Nat.shiftRight_eq_div_pow]
  omega

theorem split_low_byte (x : UInt32) : x = (x &&& 0xFFFFFF00) ^^^ (x &&& 0xFF) := by
  apply UInt32.toNat_inj.mp
  simp only [UInt32.toNat_and, UInt32.toNat_xor]
  rw [← Nat.and_xor_distrib_left]
  have e : (0xFFFFFF00 : UInt32).toNat ^^^ (0xFF : UInt32).toNat = 2 ^ 32 - 1 := by decide
  rw [e, Nat.and_two_pow_sub_one_eq_mod]
  exact (Nat.mod_eq_of_lt x.toNat_lt).symm

theorem and_ff_eq (x : UInt32) : x &&& 0xFF = x.toUInt8.toUInt32 := by
  apply UInt32.toNat_inj.mp
  rw [UInt32.toNat_and, UInt8.toNat_toUInt32, UInt32.toNat_toUInt8]
  exact Nat.and_two_pow_sub_one_eq_mod x.toNat 8

theorem hi_low_zero (x : UInt32) : (x &&& 0xFFFFFF00).toNat % 256 = 0 := by
  rw [UInt32.toNat_and, ← Nat.and_two_pow_sub_one_eq_mod _ 8, Nat.and_assoc]
  have e : (0xFFFFFF00 : UInt32).toNat &&& (2 ^ 8 - 1) = 0 := by decide
  rw [e, Nat.and_zero]

theorem hi_shift (x : UInt32) : (x &&& 0xFFFFFF00) >>> 8 = x >>> 8 := by
  apply UInt32.toNat_inj.mp
  rw [UInt32.toNat_shiftRight, UInt32.toNat_shiftRight, UInt32.toNat_and]
  show (x.toNat &&& _) >>> 8 = x.toNat >>> 8
  have e : (0xFFFFFF00 : UInt32).toNat = (2 ^ 24 - 1) <<< 8 := by decide
  rw [e, Nat.shiftRight_and_distrib, Nat.shiftLeft_shiftRight, Nat.and_two_pow_sub_one_eq_mod]
  apply Nat.mod_eq_of_lt
  rw [Nat.shiftRight_eq_div_pow]
  have := x.toNat_lt
  omega

/-- **Table form = bitwise form** of the byte update. -/
theorem updateByte_eq_bitwise (c : UInt32) (b : UInt8) : updateByte c b = updateBitwise c b := by
  unfold updateByte updateBitwise tableEntry
  have hx := split_low_byte (c ^^^ b.toUInt32)
  have h8 : (c ^^^ b.toUInt32).toUInt8 = c.toUInt8 ^^^ b := by
    rw [UInt32.toUInt8_xor, UInt8.toUInt8_toUInt32]
  have hb : b.toUInt32 >>> 8 = 0 := by
    apply UInt32.toNat_inj.mp
    rw [UInt32.toNat_shiftRight, UInt8.toNat_toUInt32]
    show b.toNat >>> 8 = 0
    rw [Nat.shiftRight_eq_div_pow]
    have := b.toNat_lt
    show b.toNat / 256 = 0
    omega
  conv => rhs; rw [hx]
  rw [step8_xor, step8_low_zero _ (hi_low_zero _), hi_shift, and_ff_eq, h8, UInt32.shiftRight_xor, hb,
    UInt32.xor_zero]

theorem updateBytes_nil (c : UInt32) : updateBytes c [] = c := rfl

theorem updateBytes_cons (c : UInt32) (b : UInt8) (bs : Bytes) :
    updateBytes c (b :: bs) = updateBytes (updateByte c b) bs := rfl

theorem updateBytes_append (c : UInt32) (xs ys : Bytes) :
    updateBytes c (xs ++ ys) = updateBytes (updateBytes c xs) ys := List.foldl_append

/-! ### The same division on natural numbers (fast to evaluate in the kernel: used to check
literal tables against the polynomial with `decide +kernel`) -/

def stepNat (n : Nat) : Nat := if n % 2 = 1 then (n / 2) ^^^ 0xEDB88320 else n / 2

def tableEntryNat (i : Nat) : Nat :=
  stepNat (stepNat (stepNat (stepNat (stepNat (stepNat (stepNat (stepNat i)))))))

theorem step_toNat (c : UInt32) : (step c).toNat = stepNat c.toNat := by
  have hm : (c &&& 1).toNat = c.toNat % 2 := by
    rw [UInt32.toNat_and]
    exact Nat.and_two_pow_sub_one_eq_mod c.toNat 1
  have hs : (c >>> 1).toNat = c.toNat / 2 := by
    rw [UInt32.toNat_shiftRight]
    show c.toNat >>> 1 = _
    rw [Nat.shiftRight_eq_div_pow]
  have n : ¬ ((0 : UInt32) = 1) := by decide
  unfold step stepNat
  rcases and_one_cases c with h | h
  · have : c.toNat % 2 = 0 := by rw [← hm, h]; rfl
    rw [h, if_neg n, if_neg (by omega), hs]
  · have : c.toNat % 2 = 1 := by rw [← hm, h]; rfl
    rw [h, if_pos rfl, if_pos this, UInt32.toNat_xor, hs]
    rfl

theorem tableEntry_toNat (i : UInt8) : (tableEntry i).toNat = tableEntryNat i.toNat := by
  unfold tableEntry step8 tableEntryNat
  simp only [step_toNat, UInt8.toNat_toUInt32]

/-! ### Precomputed table for compiled code -/

/-- The 256 table entries, computed once (a closed constant: initialised at program start). -/
def table : Array UInt32 := Array.ofFn (n := 256) fun i => tableEntry (UInt8.ofNat i.val)

theorem table_size : table.size = 256 := Array.size_ofFn

theorem table_get (i : UInt8) : table[i.toNat]'(by rw [table_size]; exact i.toNat_lt) = tableEntry i := by
  unfold table
  rw [Array.getElem_ofFn]
  show tableEntry (UInt8.ofNat i.toNat) = tableEntry i
  rw [UInt8.ofNat_toNat]

theorem table_get? (i : UInt8) : table[i.toNat]? = some (tableEntry i) := by
  rw [Array.getElem?_eq_getElem (by rw [table_size]; exact i.toNat_lt), table_get]

/-- Array-backed byte update (what the compiled driver executes). -/
def updateFast (c : UInt32) (b : UInt8) : UInt32 :=
  (c >>> 8) ^^^ table[(c.toUInt8 ^^^ b).toNat]'(by rw [table_size]; exact (c.toUInt8 ^^^ b).toNat_lt)

@[csimp] theorem updateByte_eq_fast : @updateByte = @updateFast := by
  funext c b
  unfold updateByte updateFast
  rw [table_get]

/-! ### Check values (ISO 3309 / ITU-T V.42 test vectors) -/

example : tableEntry 0 = 0 := by decide
example : tableEntry 1 = 0x77073096 := by decide
example : tableEntry 128 = poly := by decide
example : tableEntry 255 = 0x2D02EF8D := by decide
example : crc32 [] = 0 := by decide
/-- "123456789" ↦ 0xCBF43926, the standard check value. -/
example : crc32 [0x31, 0x32, 0x33, 0x34, 0x35, 0x36, 0x37, 0x38, 0x39] = 0xCBF43926 := by decide
example : crc32 [0x61] = 0xE8B7BE43 := by decide

end ZipVerif.Spec.Crc32
