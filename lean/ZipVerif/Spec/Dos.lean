/-
MS-DOS date/time field layout, read arithmetically (APPNOTE 4.4.6 / MS-DOS FAT documentation):
date = day (bits 0-4) | month (5-8) | year-1980 (9-15);  time = sec/2 (0-4) | min (5-10) | hour (11-15).
Independent of the crate's text: plain division and remainder on naturals.
-/

namespace ZipVerif.Spec.Dos

structure Fields where
  year : Nat
  month : Nat
  day : Nat
  hour : Nat
  minute : Nat
  second : Nat
  deriving DecidableEq, Repr

def unpack (d t : Nat) : Fields :=
  ⟨1980 + d / 512, d / 32 % 16, d % 32, t / 2048, t / 32 % 64, 2 * (t % 32)⟩

def packDate (f : Fields) : Nat := f.day + 32 * f.month + 512 * (f.year - 1980)
def packTime (f : Fields) : Nat := f.second / 2 + 32 * f.minute + 2048 * f.hour

/-- Field values that fit the bit fields. -/
def Representable (f : Fields) : Prop :=
  1980 ≤ f.year ∧ f.year ≤ 2107 ∧ f.month < 16 ∧ f.day < 32 ∧ f.hour < 32 ∧ f.minute < 64 ∧
    f.second < 64

instance (f : Fields) : Decidable (Representable f) := by unfold Representable; infer_instance

/-- The documented ranges of the checked constructor. -/
def InDocumentedRange (f : Fields) : Prop :=
  1980 ≤ f.year ∧ f.year ≤ 2107 ∧ 1 ≤ f.month ∧ f.month ≤ 12 ∧ 1 ≤ f.day ∧ f.day ≤ 31 ∧
    f.hour ≤ 23 ∧ f.minute ≤ 59 ∧ f.second ≤ 60

instance (f : Fields) : Decidable (InDocumentedRange f) := by
  unfold InDocumentedRange; infer_instance

/-- Rounding to the 2-second DOS resolution. -/
def round2s (f : Fields) : Fields := { f with second := 2 * (f.second / 2) }

/-! ### The calendar rule (Gregorian; ISO 8601 / RFC 3339 appendix C), written out here and NOT taken
from the `time` crate: `Date::from_calendar_date` is compared with it on every (year, month) of the DOS
range by the `dos.dim` correspondence op (1536 cases, both tiers). -/

/-- Leap years: divisible by 4, except centuries not divisible by 400 (2000 is, 2100 is not). -/
def isLeap (y : Int) : Bool := (y % 4 == 0) && ((y % 100 != 0) || (y % 400 == 0))

/-- Days of month `m` (1..12; anything else has none) in year `y`. -/
def daysInMonth (y : Int) (m : Nat) : Nat :=
  match m with
  | 1 | 3 | 5 | 7 | 8 | 10 | 12 => 31
  | 4 | 6 | 9 | 11 => 30
  | 2 => if isLeap y then 29 else 28
  | _ => 0

theorem daysInMonth_le (y : Int) (m : Nat) : daysInMonth y m ≤ 31 := by
  unfold daysInMonth; split <;> (try split) <;> omega

example : daysInMonth 2000 2 = 29 ∧ daysInMonth 2100 2 = 28 ∧ daysInMonth 2024 2 = 29 ∧
    daysInMonth 2023 2 = 28 ∧ daysInMonth 2021 4 = 30 ∧ daysInMonth 1980 0 = 0 ∧
    daysInMonth 2107 13 = 0 := by decide

theorem unpack_pack (d t : Nat) (hd : d < 65536) (_ht : t < 65536) :
    packDate (unpack d t) = d ∧ packTime (unpack d t) = t := by
  show d % 32 + 32 * (d / 32 % 16) + 512 * (1980 + d / 512 - 1980) = d ∧
    2 * (t % 32) / 2 + 32 * (t / 32 % 64) + 2048 * (t / 2048) = t
  omega

theorem pack_unpack (f : Fields) (h : Representable f) :
    unpack (packDate f) (packTime f) = round2s f := by
  obtain ⟨h1, h2, h3, h4, h5, h6, h7⟩ := h
  obtain ⟨y, mo, d, hh, mi, s⟩ := f
  show (⟨1980 + (d + 32 * mo + 512 * (y - 1980)) / 512, (d + 32 * mo + 512 * (y - 1980)) / 32 % 16,
    (d + 32 * mo + 512 * (y - 1980)) % 32, (s / 2 + 32 * mi + 2048 * hh) / 2048,
    (s / 2 + 32 * mi + 2048 * hh) / 32 % 64, 2 * ((s / 2 + 32 * mi + 2048 * hh) % 32)⟩ : Fields) =
    ⟨y, mo, d, hh, mi, 2 * (s / 2)⟩
  simp only [Fields.mk.injEq]
  simp only [] at h1 h2 h3 h4 h5 h6 h7
  omega

theorem documented_representable (f : Fields) (h : InDocumentedRange f) : Representable f := by
  unfold InDocumentedRange at h; unfold Representable; omega

end ZipVerif.Spec.Dos
