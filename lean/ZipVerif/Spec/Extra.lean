import ZipVerif.Basic.Bytes
/-
Extensible data ("extra") fields, from PKWARE APPNOTE.TXT 6.3.9:

* 4.5.1  the field is a sequence of records `header ID (2 bytes) | data size (2 bytes) | data`,
         both numbers little-endian, the data size counting the data only; the records fill the
         field, whose own length is a 2-byte field of the local / central header (4.3.7, 4.3.12),
         hence at most 65 535 bytes;
* 4.5.2  "Header IDs of 0 thru 31 are reserved for use by PKWARE"; the IDs PKWARE has defined;
* 4.5.3  ID 0x0001 is the ZIP64 extended information record (written by the archiver itself,
         never by the user of the library);
* 4.6.1  the third-party mappings registered with PKWARE.

Written from the document; shares no text with the crate (the Tie obligation compares the ID
list with the crate's table).
-/

namespace ZipVerif.Spec.Extra

/-- 4.5.2: header IDs defined by PKWARE. -/
def pkwareIds : List Nat := [
  0x0001,  -- Zip64 extended information extra field
  0x0007,  -- AV Info
  0x0008,  -- Reserved for extended language encoding data (PFS)
  0x0009,  -- OS/2
  0x000a,  -- NTFS
  0x000c,  -- OpenVMS
  0x000d,  -- UNIX
  0x000e,  -- Reserved for file stream and fork descriptors
  0x000f,  -- Patch Descriptor
  0x0014,  -- PKCS#7 Store for X.509 Certificates
  0x0015,  -- X.509 Certificate ID and Signature for individual file
  0x0016,  -- X.509 Certificate ID for Central Directory
  0x0017,  -- Strong Encryption Header
  0x0018,  -- Record Management Controls
  0x0019,  -- PKCS#7 Encryption Recipient Certificate List
  0x0020,  -- Reserved for Timestamp record
  0x0021,  -- Policy Decryption Key Record
  0x0022,  -- Smartcrypt Key Provider Record
  0x0023,  -- Smartcrypt Policy Key Data Record
  0x0065,  -- IBM S/390 (Z390), AS/400 (I400) attributes - uncompressed
  0x0066,  -- Reserved for IBM S/390 (Z390), AS/400 (I400) attributes - compressed
  0x4690]  -- POSZIP 4690 (reserved)

/-- 4.6.1: third-party mappings. -/
def thirdPartyIds : List Nat := [
  0x07c8,  -- Macintosh
  0x2605,  -- ZipIt Macintosh
  0x2705,  -- ZipIt Macintosh 1.3.5+
  0x2805,  -- ZipIt Macintosh 1.3.5+
  0x334d,  -- Info-ZIP Macintosh
  0x4341,  -- Acorn/SparkFS
  0x4453,  -- Windows NT security descriptor (binary ACL)
  0x4704,  -- VM/CMS
  0x470f,  -- MVS
  0x4b46,  -- FWKCS MD5
  0x4c41,  -- OS/2 access control list (text ACL)
  0x4d49,  -- Info-ZIP OpenVMS
  0x4f4c,  -- Xceed original location extra field
  0x5356,  -- AOS/VS (ACL)
  0x5455,  -- extended timestamp
  0x554e,  -- Xceed unicode extra field
  0x5855,  -- Info-ZIP UNIX (original, also OS/2, NT, etc)
  0x6375,  -- Info-ZIP Unicode Comment Extra Field
  0x6542,  -- BeOS/BeBox
  0x7075,  -- Info-ZIP Unicode Path Extra Field
  0x756e,  -- ASi UNIX
  0x7855,  -- Info-ZIP UNIX (new)
  0xa11e,  -- Data Stream Alignment (Apache Commons-Compress)
  0xa220,  -- Microsoft Open Packaging Growth Hint
  0xfd4a,  -- SMS/QDOS
  0x9901,  -- AE-x encryption structure
  0x9902]  -- unknown

def reservedIds : List Nat := pkwareIds ++ thirdPartyIds

/-- One record of an extra field. -/
structure Record where
  id : Nat
  payload : Bytes
  deriving DecidableEq, Repr

/-- Two-byte little-endian number. -/
def u16le (n : Nat) : Bytes := [UInt8.ofNat (n % 256), UInt8.ofNat (n / 256)]

/-- 4.5.1 layout of one record. -/
def Record.encode (r : Record) : Bytes := u16le r.id ++ u16le r.payload.length ++ r.payload

def encodeAll : List Record → Bytes
  | [] => []
  | r :: rs => r.encode ++ encodeAll rs

/-- Both numbers fit their 2-byte fields. -/
def Record.Fits (r : Record) : Prop := r.id < 65536 ∧ r.payload.length < 65536

/-- A header ID a library user may write: not the ZIP64 record, not in PKWARE's 0..31 range, not
a defined or registered ID. -/
def Record.Allowed (r : Record) : Prop := r.id ≠ 0x0001 ∧ 31 < r.id ∧ r.id ∉ reservedIds

instance (r : Record) : Decidable r.Fits := by unfold Record.Fits; infer_instance
instance (r : Record) : Decidable r.Allowed := by unfold Record.Allowed; infer_instance

/-- `ed` is a well-formed user-supplied extra field: it fits a 2-byte length and is exactly the
concatenation of records with user-writable IDs (no truncated header, no data size running past
the end). -/
def WFExtra (ed : Bytes) : Prop :=
  ed.length ≤ 65535 ∧ ∃ rs : List Record, (∀ r ∈ rs, r.Fits ∧ r.Allowed) ∧ encodeAll rs = ed

/-- The local header of an entry written in ZIP64 format ("large file") stores the 20-byte ZIP64
record in the same field (4.5.3: both sizes MUST be present in the local header). -/
def zip64LocalRecordLen (zip64 : Bool) : Nat := if zip64 then 20 else 0

/-- The ways the remainder of a field can fail to continue with a user-writable record:
a truncated header, a record whose ID is the ZIP64 ID / in 0..31 / defined or registered
(whatever follows it), a data size that runs past the end of the field. -/
inductive Malformed : Bytes → Prop
  | shortHeader (t : Bytes) : 0 < t.length → t.length < 4 → Malformed t
  | badId (r : Record) (more : Bytes) : r.Fits → ¬ r.Allowed → Malformed (r.encode ++ more)
  | overrun (id size : Nat) (payload : Bytes) : id < 65536 → size < 65536 → payload.length < size →
      Malformed (u16le id ++ u16le size ++ payload)

end ZipVerif.Spec.Extra
