import ZipVerif.Spec.Paths
import ZipVerif.Basic.Bytes
/-
An abstract Unix filesystem for C07, written from POSIX path-resolution rules (`path_resolution(7)`,
`mkdir(2)`, `open(2)`, `chmod(2)`, `stat(2)`) and from the documented algorithm of
`std::fs::create_dir_all`; it shares no text with the crate.

* A filesystem is a finite map from *absolute resolved paths* (`Path` = the list of ordinary component
  names below "/") to nodes: `dir mode` or `file bytes mode`.  It is represented as its own write log
  (`nodes`, newest binding first): `lookup` reads the newest binding, `set` prepends one.  Nothing is
  ever removed (no operation used by `extract` removes anything), so the new part of the log IS the
  sequence of operation targets, which is how confinement is stated.
* There are no symbolic links and no mount points in the model, so the parent of a resolved directory
  is its lexical parent.  Everything else of kernel path resolution is kept: a path is walked
  component by component *through the existing directory structure*: an ordinary component must exist
  and be a directory before the next component (even a following `..`) is looked at (`a/../b` fails
  with ENOENT when `a` does not exist, with ENOTDIR when `a` is a file), and a path that ends in `.` or
  `..` denotes a directory that already exists (mkdir → EEXIST, open(O_CREAT) → EISDIR).
* The string handed to a system call is abstracted to what the kernel sees of it: the list of its
  components (`Comp.normal` / `Comp.parentDir`, `Comp.curDir` only as a final "." that the kernel
  treats as the last component — looking up "." in a directory needs search permission on it like
  any other name: `chmod("d/.")` fails with EACCES once `d` has mode 000) in REVERSE order (last component first: `Path::parent()` is then the
  tail of the list, and `create_dir_all` recurses structurally), and whether it ends in '/'.
* Permissions: `Cfg.priv = true` is the superuser (no permission check ever fails).  Otherwise every
  object is taken to be owned by the caller and the owner bits decide: search (x) on every directory
  that is walked through, write+search on the directory in which an entry is created, write on a file
  that is truncated.  Group/other classes, ACLs, capabilities, read-only mounts, quotas, name-length
  limits, ENOSPC and concurrent modification are outside the model.
-/

namespace ZipVerif.Spec.FS
open ZipVerif ZipVerif.Spec.Paths

/-- An absolute, resolved path: the ordinary component names below "/". -/
abbrev Path := List Name

inductive Node where
  | dir (mode : Nat)
  | file (data : Bytes) (mode : Nat)
  deriving DecidableEq, Repr, Inhabited

inductive FsErr where
  | notFound          -- ENOENT
  | notADirectory     -- ENOTDIR
  | isADirectory      -- EISDIR
  | alreadyExists     -- EEXIST
  | permissionDenied  -- EACCES
  deriving DecidableEq, Repr, Inhabited

/-- The filesystem: its write log, newest binding first. -/
structure FS where
  nodes : List (Path × Node)
  deriving Repr, Inhabited

def FS.lookup (fs : FS) (p : Path) : Option Node := fs.nodes.lookup p

def FS.set (fs : FS) (p : Path) (n : Node) : FS := ⟨(p, n) :: fs.nodes⟩

/-- Process-level parameters of the operations. -/
structure Cfg where
  /-- mode of a directory made by `mkdir(path, 0o777)`: `0o777 & ~umask` -/
  dirMode : Nat
  /-- mode of a file made by `open(path, O_CREAT, 0o666)`: `0o666 & ~umask` -/
  fileMode : Nat
  /-- the caller is the superuser -/
  priv : Bool
  deriving Repr, Inhabited

def hasBits (m bits : Nat) : Bool := m &&& bits == bits

/-- Search (x) permission on directory `d`. -/
def canSearch (c : Cfg) (fs : FS) (d : Path) : Bool :=
  c.priv || match fs.lookup d with
    | some (.dir m) => hasBits m 0o100
    | _ => false

/-- Permission to add an entry to directory `d` (w + x). -/
def canModifyDir (c : Cfg) (fs : FS) (d : Path) : Bool :=
  c.priv || match fs.lookup d with
    | some (.dir m) => hasBits m 0o300
    | _ => false

/-- Permission to open a file of mode `m` for writing. -/
def canWriteFile (c : Cfg) (m : Nat) : Bool := c.priv || hasBits m 0o200

/-- Truncating or writing a file without CAP_FSETID clears set-user-ID, and set-group-ID when the
group-execute bit is set. -/
def dropPrivs (c : Cfg) (m : Nat) : Nat :=
  if c.priv then m else if hasBits m 0o010 then m &&& 0o1777 else m &&& 0o3777

/-- One step of kernel path resolution from the existing directory `cur`. -/
def step (c : Cfg) (fs : FS) (cur : Path) : Comp → Except FsErr Path
  | .rootDir => .ok []
  | .curDir => if canSearch c fs cur then .ok cur else .error .permissionDenied
  | .parentDir => if canSearch c fs cur then .ok cur.dropLast else .error .permissionDenied
  | .normal s =>
    if canSearch c fs cur then
      match fs.lookup (cur ++ [s]) with
      | none => .error .notFound
      | some (.file _ _) => .error .notADirectory
      | some (.dir _) => .ok (cur ++ [s])
    else .error .permissionDenied

/-- Resolve a whole (reversed) component list as a chain of directories, starting at "/". -/
def walkR (c : Cfg) (fs : FS) : List Comp → Except FsErr Path
  | [] => .ok []
  | x :: up =>
    match walkR c fs up with
    | .error e => .error e
    | .ok cur => step c fs cur x

/-- What a path denotes once all components but the last are resolved. -/
inductive Target where
  /-- the last component is an ordinary name, to be looked up (or created) in directory `dir` -/
  | entry (dir : Path) (name : Name)
  /-- the path is "/" or ends in "." or "..": it denotes the existing directory `p` -/
  | self (p : Path)
  deriving Repr

def Target.path : Target → Path
  | .entry d s => d ++ [s]
  | .self p => p

/-- Resolution of a reversed component list up to its last component. -/
def locateR (c : Cfg) (fs : FS) : List Comp → Except FsErr Target
  | [] => .ok (.self [])
  | .normal s :: up =>
    match walkR c fs up with
    | .error e => .error e
    | .ok d => if canSearch c fs d then .ok (.entry d s) else .error .permissionDenied
  | x :: up =>
    match walkR c fs (x :: up) with
    | .error e => .error e
    | .ok d => .ok (.self d)

/-- `stat(2)`. -/
def stat (c : Cfg) (fs : FS) (rp : List Comp) : Except FsErr Node :=
  match locateR c fs rp with
  | .error e => .error e
  | .ok (.self p) =>
    -- a path ending in "." / ".." was walked into: it is a directory
    match fs.lookup p with
    | some (.dir m) => .ok (.dir m)
    | _ => .ok (.dir 0)
  | .ok (.entry d s) =>
    match fs.lookup (d ++ [s]) with
    | some n => .ok n
    | none => .error .notFound

/-- `Path::exists()`: `metadata(path).is_ok()`. -/
def pathExists (c : Cfg) (fs : FS) (rp : List Comp) : Bool :=
  match stat c fs rp with
  | .ok _ => true
  | .error _ => false

/-- `Path::is_dir()`. -/
def isDir (c : Cfg) (fs : FS) (rp : List Comp) : Bool :=
  match stat c fs rp with
  | .ok (.dir _) => true
  | _ => false

/-- A new directory inherits the set-group-ID bit of its parent. -/
def newDirMode (c : Cfg) (fs : FS) (parent : Path) : Nat :=
  c.dirMode ||| (match fs.lookup parent with
    | some (.dir m) => m &&& 0o2000
    | _ => 0)

/-- `mkdir(2)` with mode 0o777 (a trailing '/' makes no difference to mkdir). -/
def mkdir (c : Cfg) (fs : FS) (rp : List Comp) : Except FsErr FS :=
  match locateR c fs rp with
  | .error e => .error e
  | .ok (.self _) => .error .alreadyExists
  | .ok (.entry d s) =>
    match fs.lookup (d ++ [s]) with
    | some _ => .error .alreadyExists
    | none =>
      if canModifyDir c fs d then .ok (fs.set (d ++ [s]) (.dir (newDirMode c fs d)))
      else .error .permissionDenied

/-- With the final "." the kernel sees when the string ends in "/." -/
def dotted (rp : List Comp) (dot : Bool) : List Comp := if dot then .curDir :: rp else rp

/-- `std::fs::create_dir_all(path)`: `mkdir(path)`; on ENOENT first `create_dir_all(path.parent())`,
then `mkdir(path)` again; any other error is forgiven when `path.is_dir()`.  `path.parent()` drops
the last component *and* a trailing "." (`dot`), so only the original path can carry one.  Errors
leave the directories created so far in place, hence the pair.  (Newer standard libraries walk the
ancestors iteratively; the system calls and results are the same on this model's domain.) -/
def createDirAll (c : Cfg) : List Comp → Bool → FS → FS × Option FsErr
  | [], _, fs => (fs, none)
  | x :: up, dot, fs =>
    match mkdir c fs (dotted (x :: up) dot) with
    | .ok fs' => (fs', none)
    | .error .notFound =>
      match createDirAll c up false fs with
      | (fs1, some e) => (fs1, some e)
      | (fs1, none) =>
        match mkdir c fs1 (dotted (x :: up) dot) with
        | .ok fs2 => (fs2, none)
        | .error e => if isDir c fs1 (dotted (x :: up) dot) then (fs1, none) else (fs1, some e)
    | .error e => if isDir c fs (dotted (x :: up) dot) then (fs, none) else (fs, some e)

/-- The mode of a file after `open(O_CREAT|O_TRUNC, 0o666)`: an existing file keeps its mode (minus the
set-ID bits for an unprivileged caller), a new one gets the default. -/
def openedFileMode (c : Cfg) : Option Node → Nat
  | some (.file _ m) => dropPrivs c m
  | _ => c.fileMode

/-- `File::create(path)` = `open(path, O_WRONLY|O_CREAT|O_TRUNC, 0o666)`.  Returns the new state and
the resolved path of the opened file (the open file description later writes go to). -/
def createFile (c : Cfg) (fs : FS) (rp : List Comp) (slash : Bool) : Except FsErr (FS × Path) :=
  match locateR c fs rp with
  | .error e => .error e
  | .ok (.self _) => .error .isADirectory
  | .ok (.entry d s) =>
    match fs.lookup (d ++ [s]) with
    | some (.dir _) => .error .isADirectory
    | some (.file _ m) =>
      if slash then .error .notADirectory
      else if canWriteFile c m then .ok (fs.set (d ++ [s]) (.file [] (dropPrivs c m)), d ++ [s])
      else .error .permissionDenied
    | none =>
      if slash then .error .isADirectory
      else if canModifyDir c fs d then .ok (fs.set (d ++ [s]) (.file [] c.fileMode), d ++ [s])
      else .error .permissionDenied

/-- Everything written through the handle returned by `createFile` (the file was just truncated, so
any set-ID bits are already gone). -/
def writeAt (fs : FS) (p : Path) (data : Bytes) : FS :=
  match fs.lookup p with
  | some (.file _ m) => fs.set p (.file data m)
  | _ => fs

/-- `chmod(path, mode)`: the kernel keeps the low twelve bits. -/
def setPermissions (c : Cfg) (fs : FS) (rp : List Comp) (slash : Bool) (mode : Nat) : Except FsErr FS :=
  match locateR c fs rp with
  | .error e => .error e
  | .ok (.self p) =>
    match fs.lookup p with
    | some (.dir _) => .ok (fs.set p (.dir (mode &&& 0o7777)))
    | _ => .error .notFound
  | .ok (.entry d s) =>
    match fs.lookup (d ++ [s]) with
    | none => .error .notFound
    | some (.dir _) => .ok (fs.set (d ++ [s]) (.dir (mode &&& 0o7777)))
    | some (.file b _) =>
      if slash then .error .notADirectory else .ok (fs.set (d ++ [s]) (.file b (mode &&& 0o7777)))

end ZipVerif.Spec.FS
