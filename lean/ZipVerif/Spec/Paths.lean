/-
Path vocabulary for C06, independent of the crate's text.

* `Name`   – an entry name: a Rust `String`, i.e. a sequence of Unicode scalar values.
* `Comp`   – `std::path::Component` on Unix (`Prefix` exists only on Windows and is never produced).
* `depth`  – signed net depth of a component walk (+1 per ordinary component, −1 per `..`).
* `resolve`/`resolveFrom` – *lexical normalisation* as a stack machine: an ordinary component pushes,
  `..` pops (popping the empty stack = staying at the file-system root), `.` does nothing and a root
  component empties the stack (that is what `Path::join` does with an absolute right-hand side).
* `segments`/`ordinary` – the plain reading "split on '/', keep what is not empty, `.` or `..`".
-/

namespace ZipVerif.Spec.Paths

abbrev Name := List Char

inductive Comp where
  | rootDir
  | curDir
  | parentDir
  | normal (s : Name)
  deriving DecidableEq, Repr, Inhabited

/-- One step of splitting on '/', processing the string from the right. -/
def splitStep (c : Char) (acc : List Name) : List Name :=
  if c = '/' then [] :: acc
  else match acc with
    | [] => [[c]]
    | s :: ss => (c :: s) :: ss

/-- Split on '/' (always at least one segment; `""` ↦ `[""]`, `"a/"` ↦ `["a", ""]`).
`List.foldr` is compiled to a loop, so this is stack-safe on 64 KiB names. -/
def segments (n : Name) : List Name := n.foldr splitStep [[]]

/-- A segment that is an ordinary file-name component. -/
def ordinary (s : Name) : Bool := s != [] && s != ['.'] && s != ['.', '.']

/-- Signed net depth of a walk. -/
def depth : List Comp → Int
  | [] => 0
  | .normal _ :: r => 1 + depth r
  | .parentDir :: r => -1 + depth r
  | _ :: r => depth r

/-- The walk never goes above the directory it started in. -/
def NeverClimbs (cs : List Comp) : Prop := ∀ k, 0 ≤ depth (cs.take k)

/-- One step of the lexical-normalisation stack machine (top of the stack = end of the list). -/
def resolveStep (st : List Name) : Comp → List Name
  | .rootDir => []
  | .curDir => st
  | .parentDir => st.dropLast
  | .normal s => st ++ [s]

/-- Lexical normalisation of a walk that starts with stack `st`. -/
def resolveFrom (st : List Name) (cs : List Comp) : List Name := cs.foldl resolveStep st

/-- Lexical normalisation of an absolute path given by its components below the root. -/
def resolve (cs : List Comp) : List Name := resolveFrom [] cs

/-- `base.join(p)` followed by lexical normalisation, with `base` an absolute, already normalised
directory given by its ordinary components: (`Path::join` replaces `base` when `p` is absolute —
that is the `rootDir` case of `resolveStep`). -/
def joinResolve (base : List Name) (p : List Comp) : List Name :=
  resolve (base.map Comp.normal ++ p)

/-- "Stays lexically inside `base`": the normalised joined path, and the normalised path after
every initial part of the walk, is `base` followed by something — no step ever pops an element of
`base`. -/
def StaysInside (base : List Name) (p : List Comp) : Prop :=
  ∀ k, ∃ rest, joinResolve base (p.take k) = base ++ rest

/-- The same for ANY base directory, however it is written: `base` is the component list of the base
path as given — absolute (it starts with `rootDir`) or relative to the working directory `cwd`, with
or without "." and ".." — and `resolveFrom cwd base` is the directory it denotes (the stack machine
saturates at the root like the kernel: "/.." is "/").  The joined path, and the joined path cut after
every initial part of `p`, normalises to that directory followed by something: the walk never climbs
above the point the base itself resolves to. -/
def StaysInsideAny (cwd : List Name) (base p : List Comp) : Prop :=
  ∀ k, ∃ rest, resolveFrom cwd (base ++ p.take k) = resolveFrom cwd base ++ rest

end ZipVerif.Spec.Paths
