import ZipVerif.Spec.Crc32
/-
Traditional PKWARE encryption, transcribed from APPNOTE.TXT section 6.1 ("Traditional PKWARE
Encryption"), in the document's own vocabulary (Key(0..2), update_keys, decrypt_byte) and with its
decimal constants.  Independent of the crate's text; `crc32(old, char)` is the one-byte update of
`Spec/Crc32.lean` (APPNOTE 6.1.5 refers to the CRC-32 algorithm of 4.4.7).

6.1.5  Key(0) <- 305419896, Key(1) <- 591751049, Key(2) <- 878082192; update_keys(password(i)) for each i
       update_keys(char):  Key(0) <- crc32(key(0),char)
                           Key(1) <- Key(1) + (Key(0) & 000000ffH)
                           Key(1) <- Key(1) * 134775813 + 1
                           Key(2) <- crc32(key(2),key(1) >> 24)
       decrypt_byte():     local unsigned short temp;  temp <- Key(2) | 2
                           decrypt_byte <- (temp * (temp ^ 1)) >> 8
6.1.6  the 12-byte encryption header is decrypted byte by byte with  C <- buffer(i) ^ decrypt_byte();
       update_keys(C); its last byte is the high-order byte of the CRC of the file (PKZIP >= 2.0).
       Info-ZIP: when general purpose bit 3 is set the CRC is not yet known when the header is written,
       so the high-order byte of the last-mod-file-time field is used instead.
6.1.7  the compressed data stream is decrypted the same way; encryption xors the *plaintext* byte with
       decrypt_byte() and updates the keys with the plaintext byte.
-/

namespace ZipVerif.Spec.Pkware
open ZipVerif.Spec

/-- The three 32-bit keys. All arithmetic on them is modulo 2^32. -/
structure Keys where
  key0 : UInt32
  key1 : UInt32
  key2 : UInt32
  deriving DecidableEq, Repr

/-- Step 1 of 6.1.5. -/
def initKeys : Keys := ⟨305419896, 591751049, 878082192⟩

/-- `crc32(old_crc, char)`. -/
def crc32 (old : UInt32) (char : UInt8) : UInt32 := Crc32.updateByte old char

def updateKeys (k : Keys) (char : UInt8) : Keys :=
  let key0 := crc32 k.key0 char
  let key1 := k.key1 + (key0 &&& 0x000000ff)
  let key1 := key1 * 134775813 + 1
  let key2 := crc32 k.key2 (UInt8.ofNat (key1.toNat / 16777216))
  ⟨key0, key1, key2⟩

/-- Key initialisation from the password bytes. -/
def keysFor (password : Bytes) : Keys := password.foldl updateKeys initKeys

/-- `decrypt_byte()`: `temp` is the low 16 bits of `Key(2) | 2`; the product is taken over the
integers and the result is its bits 8..15 (the value assigned to a byte). -/
def decryptByte (k : Keys) : UInt8 :=
  let temp : Nat := (k.key2.toNat % 65536) ||| 2
  UInt8.ofNat (temp * (temp ^^^ 1) / 256)

/-- Decrypt a byte string (6.1.6 / 6.1.7): keys are updated with the recovered plaintext byte. -/
def decrypt (k : Keys) : Bytes → Bytes
  | [] => []
  | c :: cs =>
    let p := c ^^^ decryptByte k
    p :: decrypt (updateKeys k p) cs

/-- Encrypt a byte string: keys are updated with the plaintext byte. -/
def encrypt (k : Keys) : Bytes → Bytes
  | [] => []
  | p :: ps => (p ^^^ decryptByte k) :: encrypt (updateKeys k p) ps

/-- The check value the last header byte must carry. -/
def checkByte (bit3 : Bool) (crc : UInt32) (lastModTime : UInt16) : UInt8 :=
  if bit3 then UInt8.ofNat (lastModTime.toNat / 256) else UInt8.ofNat (crc.toNat / 16777216)

/-- A well-formed plaintext encryption header: 12 bytes, the last one the check value
(the first 11 are arbitrary — "random" — bytes). -/
def HeaderOk (hdr : Bytes) (check : UInt8) : Prop := hdr.length = 12 ∧ hdr[11]? = some check

/-- What is stored for an encrypted entry: Encrypt(header ++ compressed data) under the password keys. -/
def encryptEntry (password hdr payload : Bytes) : Bytes :=
  encrypt (keysFor password) (hdr ++ payload)

/-- The reader's procedure: decrypt everything, compare the 12th byte, drop the header.
`none` = the password is known to be wrong (or there is no complete header). -/
def decryptEntry (password : Bytes) (check : UInt8) (stored : Bytes) : Option Bytes :=
  let plain := decrypt (keysFor password) stored
  if 12 ≤ stored.length ∧ plain[11]? = some check then some (plain.drop 12) else none

theorem decrypt_length (k : Keys) (cs : Bytes) : (decrypt k cs).length = cs.length := by
  induction cs generalizing k with
  | nil => rfl
  | cons c cs ih => simp [decrypt, ih]

theorem encrypt_length (k : Keys) (ps : Bytes) : (encrypt k ps).length = ps.length := by
  induction ps generalizing k with
  | nil => rfl
  | cons p ps ih => simp [encrypt, ih]

/-- Decryption inverts encryption from the same key state. -/
theorem decrypt_encrypt (k : Keys) (ps : Bytes) : decrypt k (encrypt k ps) = ps := by
  induction ps generalizing k with
  | nil => rfl
  | cons p ps ih =>
    have e : p ^^^ decryptByte k ^^^ decryptByte k = p := by
      rw [UInt8.xor_assoc, UInt8.xor_self, UInt8.xor_zero]
    simp only [encrypt, decrypt, e, ih]

/-- Encryption inverts decryption too (the cipher is an involution pair on streams). -/
theorem encrypt_decrypt (k : Keys) (cs : Bytes) : encrypt k (decrypt k cs) = cs := by
  induction cs generalizing k with
  | nil => rfl
  | cons c cs ih =>
    have e : c ^^^ decryptByte k ^^^ decryptByte k = c := by
      rw [UInt8.xor_assoc, UInt8.xor_self, UInt8.xor_zero]
    simp only [encrypt, decrypt, e, ih]

/-- An entry encrypted per 6.1 with a well-formed header decrypts to its payload under the same password. -/
theorem decryptEntry_encryptEntry (password hdr payload : Bytes) (check : UInt8)
    (h : HeaderOk hdr check) :
    decryptEntry password check (encryptEntry password hdr payload) = some payload := by
  obtain ⟨hl, hc⟩ := h
  unfold decryptEntry encryptEntry
  simp only [decrypt_encrypt, encrypt_length, List.length_append]
  have h11 : (hdr ++ payload)[11]? = some check := by
    rw [List.getElem?_append_left (by omega)]; exact hc
  rw [if_pos ⟨by omega, h11⟩, ← hl, List.drop_left]

example : keysFor [] = ⟨305419896, 591751049, 878082192⟩ := rfl
example : decrypt (keysFor [0x70, 0x77]) (encrypt (keysFor [0x70, 0x77]) [1, 2, 3]) = [1, 2, 3] := by
  decide +kernel

end ZipVerif.Spec.Pkware
