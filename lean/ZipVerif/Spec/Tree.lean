import ZipVerif.Spec.FS
import ZipVerif.Model.Paths
/-
What extraction is *supposed* to leave on disk (C07), written without reference to the crate's code:

* how an entry name is seen once it is joined onto the target directory (`relComps`, `tailDot`,
  `endsSlash`, `isDirName`).  `components` is the model of `std::path::Path::components` shared with
  C06 (std behaviour, validated there exhaustively);
* `EntryView`: what the archive reader delivers for one entry;
* `treeOf`: the expected result — entry by entry, in archive order: every directory on the way to the
  entry exists afterwards (created with the default mode if it was missing), a file entry's path
  holds exactly the entry's bytes (an existing file keeps its mode); then the recorded modes are
  applied to the entries' paths (low twelve bits), deepest paths first;
* `Consistent`: the decidable side condition under which extraction must succeed with that result.
-/

namespace ZipVerif.Spec.Tree
open ZipVerif ZipVerif.Spec.Paths ZipVerif.Spec.FS ZipVerif.Model.Paths

/-- Errors of the archive reader that `extract` only propagates. -/
inductive SrcErr where
  | ioOther        -- `ZipError::Io` (e.g. "Invalid checksum")
  | unsupported    -- `ZipError::UnsupportedArchive`
  | invalid        -- `ZipError::InvalidArchive` raised by the reader
  deriving DecidableEq, Repr, Inhabited

structure EntryView where
  name : Name
  /-- opening the entry fails (before its name is looked at) -/
  openErr : Option SrcErr := none
  /-- the bytes the reader delivers -/
  data : Bytes := []
  /-- … and the error it then reports instead of end-of-file -/
  readErr : Option SrcErr := none
  /-- `unix_mode()` -/
  mode : Option Nat := none
  deriving Repr, Inhabited

/-- The components of the name as they appear inside `root/<name>`: a leading "." is no longer at the
start of the path, so it is dropped like every other "." -/
def relComps (n : Name) : List Comp := (components n).filter (· != Comp.curDir)

/-- The last non-empty '/'-segment of the name is ".": the kernel sees a final "." component
(which `Path::components` and `Path::parent` ignore). -/
def tailDot (n : Name) : Bool :=
  match ((segments n).filter (· != [])).getLast? with
  | some s => s == ['.']
  | none => false

/-- The joined string ends in '/': the name does, or the name is empty (`join("")` appends '/'). -/
def endsSlash (n : Name) : Bool :=
  match n.getLast? with
  | some ch => ch == '/'
  | none => true

/-- The entry denotes a directory: `name.ends_with('/')`. -/
def isDirName (n : Name) : Bool := n.getLast? == some '/'

/-! ### the expected tree -/

/-- Directory `p` exists afterwards; a missing one is created with the default mode (plus the
set-group-ID bit of its parent). -/
def ensureDir (c : Cfg) (fs : FS) (p : Path) : FS :=
  match fs.lookup p with
  | some _ => fs
  | none => fs.set p (.dir (newDirMode c fs p.dropLast))

/-- Walk the components (given in reverse, last first) from `root`; every directory that is stepped
into exists afterwards.  Returns the position reached. -/
def ensureR (c : Cfg) (root : Path) : List Comp → FS → FS × Path
  | [], fs => (fs, root)
  | x :: up, fs =>
    let r := ensureR c root up fs
    let p := resolveStep r.2 x
    (match x with
      | .normal _ => ensureDir c r.1 p
      | _ => r.1, p)

/-- The entry's directory, or the entry's parent directories and the file with the entry's bytes
(first truncated, then written: two bindings in the write log). -/
def putEntry (c : Cfg) (root : Path) (e : EntryView) (fs : FS) : FS :=
  let rr := (relComps e.name).reverse
  if isDirName e.name then (ensureR c root rr fs).1
  else
    match rr with
    | .normal s :: up =>
      let r := ensureR c root up fs
      let p := r.2 ++ [s]
      let m := openedFileMode c (r.1.lookup p)
      (r.1.set p (.file [] m)).set p (.file e.data m)
    | _ => fs

/-- `chmod`: the low twelve bits replace the mode of whatever is at `p`. -/
def chmodAt (fs : FS) (p : Path) (mode : Nat) : FS :=
  match fs.lookup p with
  | some (.dir _) => fs.set p (.dir (mode &&& 0o7777))
  | some (.file b _) => fs.set p (.file b (mode &&& 0o7777))
  | none => fs

/-- A recorded mode is applied to the (lexically resolved) path of the entry. -/
def setMode (root : Path) (n : Name) (mode : Option Nat) (fs : FS) : FS :=
  match mode with
  | none => fs
  | some m => chmodAt fs (resolveFrom root (relComps n)) m

def putAll (c : Cfg) (root : Path) : List EntryView → FS → FS
  | [], fs => fs
  | e :: es, fs => putAll c root es (putEntry c root e fs)

def setModes (root : Path) : List (Name × Option Nat) → FS → FS
  | [], fs => fs
  | m :: ms, fs => setModes root ms (setMode root m.1 m.2 fs)

/-! ### the order in which recorded modes are applied

Modes are applied after every entry has been placed, the deepest paths first and paths of the same depth
in archive order (a stable sort by descending depth): the contents of a directory get their modes while
the directory still has the default mode, and of several entries denoting the same path the last one
decides. -/

def depthStep (d : Nat) : Comp → Nat
  | .normal _ => d + 1
  | .parentDir => d - 1
  | _ => d

/-- How many levels below the target directory the entry's path ends (for a name that never climbs
above its start): ordinary components count up, ".." counts down. -/
def pathDepth (n : Name) : Nat := (components n).foldl depthStep 0

/-- A recorded mode waiting to be applied: (depth, name, mode). -/
abbrev Pending := Nat × Name × Nat

def pendingOf : List (Name × Option Nat) → List Pending
  | [] => []
  | (n, some m) :: ms => (pathDepth n, n, m) :: pendingOf ms
  | (_, none) :: ms => pendingOf ms

/-- Insert in front of the first element that is not deeper. -/
def insertMode (x : Pending) : List Pending → List Pending
  | [] => [x]
  | y :: ys => if y.1 ≤ x.1 then x :: y :: ys else y :: insertMode x ys

/-- Stable sort by descending depth. -/
def sortModes : List Pending → List Pending
  | [] => []
  | x :: xs => insertMode x (sortModes xs)

/-- The recorded modes of an archive in the order of application. -/
def modeOrder (ms : List (Name × Option Nat)) : List (Name × Option Nat) :=
  (sortModes (pendingOf ms)).map fun p => (p.2.1, some p.2.2)

/-- Expected result of both extractors: all entries are placed in archive order, then the recorded
modes are applied, deepest paths first. -/
def treeOf (c : Cfg) (root : Path) (es : List EntryView) (fs : FS) : FS :=
  setModes root (modeOrder (es.map fun e => (e.name, e.mode))) (putAll c root es fs)

/-! ### the side condition -/

/-- The reversed components of the directories the entry needs: all of them for a directory entry,
all but the last for a file entry. -/
def dirPartR (e : EntryView) : List Comp :=
  if isDirName e.name then (relComps e.name).reverse else (relComps e.name).reverse.tail

/-- The positions, relative to the target directory, reached while walking a component list
(reversed): after all of it, after all but the last component, …, and the start `[]`. -/
def positionsR : List Comp → List Path
  | [] => [[]]
  | x :: up => resolve (x :: up).reverse :: positionsR up

/-- Every directory (relative to the target) that placing the entry creates or walks through. -/
def dirPaths (e : EntryView) : List Path := positionsR (dirPartR e)

/-- The file (relative to the target) the entry writes. -/
def filePath (e : EntryView) : Option Path :=
  if isDirName e.name then none else some (resolve (relComps e.name))

/-- The path (relative to the target directory) an entry denotes. -/
def target (e : EntryView) : Path := resolve (relComps e.name)

/-- The node is what the entry describes: a directory, or a regular file with exactly the entry's
bytes; and it carries the entry's recorded mode (low twelve bits) when the entry has one. -/
def NodeIs (e : EntryView) (n : Node) : Prop :=
  if isDirName e.name then ∃ m, n = .dir m ∧ ∀ md, e.mode = some md → m = md &&& 0o7777
  else ∃ m, n = .file e.data m ∧ ∀ md, e.mode = some md → m = md &&& 0o7777

/-- The directories (relative to the target) in which the kernel looks a component up while it
resolves the entry's path for `chmod`: the positions before each component, and the final directory
itself when the path ends in "." -/
def searchedR : List Comp → List Path
  | [] => []
  | _ :: up => positionsR up

def searched (e : EntryView) : List Path :=
  searchedR (relComps e.name).reverse ++ (if tailDot e.name then [target e] else [])

/-- No recorded mode locks the extractor out of a path whose mode is applied later. -/
def Unlocked (es : List EntryView) : Prop :=
  ∀ e1 ∈ es, ∀ e2 ∈ es, ∀ m1 ∈ e1.mode.toList, isDirName e1.name = true →
    hasBits (m1 &&& 0o7777) 0o100 = false → e2.mode.isSome = true → target e1 ∈ searched e2 →
    (target e1).length < (target e2).length

def isNormal : Comp → Bool
  | .normal _ => true
  | _ => false

/-- Every name consists of ordinary components only (no "..", no final "."; empty segments and inner
"." do not reach the kernel's view of the path). -/
def PlainNames (es : List EntryView) : Prop :=
  ∀ e ∈ es, tailDot e.name = false ∧ (relComps e.name).all isNormal = true

instance (es : List EntryView) : Decidable (PlainNames es) := by
  unfold PlainNames; infer_instance

def lastNormal (cs : List Comp) : Bool :=
  match cs.getLast? with
  | some (.normal _) => true
  | _ => false

def lastParentOrEmpty (cs : List Comp) : Bool :=
  match cs.getLast? with
  | some .parentDir => true
  | none => true
  | _ => false

/-- 1. `safe`: every name passes `enclosed_name` (no NUL, not absolute, never climbs), and the reader
   delivers every entry completely (no open error, no read error).
2. `files`: a name that does not end in '/' denotes a file: its last component is an ordinary name
   (not ".." and not a final "."); otherwise `File::create` is handed a directory.
3. `dots`: a directory name ending in "/./" is only accepted when what precedes the "." certainly exists
   by then (nothing, or a ".."): `create_dir_all("x/.")` fails when `x` is missing, because
   `Path::parent` skips `x` together with the "." (`create_dir_all_dot_fails` in Props/C07).
4. `kinds`: no path is needed both as a regular file and as a directory (a file that is also a proper
   directory prefix of another entry, or a file and a directory entry with the same path).  Duplicate
   files and duplicate directories are fine: the last one wins.
5. `perms`: the caller is the superuser, or the modes the extractor does not choose — the umask's
   defaults and the target directory's own mode — give the owner write+search on directories and write
   on files, and no RECORDED mode locks the extractor out: a directory entry whose mode lacks owner
   search is not among the directories another mode-carrying entry's path is walked through (`searched`),
   unless that entry lies deeper (its mode is then applied first).  For names made of ordinary
   components only this holds for ANY permission bits (`unlocked_of_plain`): the directories walked
   through are proper ancestors.  It can fail only for names with ".." or a final "." (e.g. "./" with
   mode 000 followed by "./" again, or "a/../b/" and "b/../a/" both with mode 000: no order of
   application can succeed, chmod(2) takes a path). -/
def Consistent (c : Cfg) (rootMode : Nat) (es : List EntryView) : Prop :=
  (∀ e ∈ es, (enclosedName e.name).isSome = true ∧ e.openErr = none ∧ e.readErr = none)
  ∧ (∀ e ∈ es, isDirName e.name = false →
      tailDot e.name = false ∧ lastNormal (relComps e.name) = true)
  ∧ (∀ e ∈ es, isDirName e.name = true → tailDot e.name = true →
      lastParentOrEmpty (relComps e.name) = true)
  ∧ (∀ e1 ∈ es, ∀ e2 ∈ es, ∀ p ∈ (filePath e1).toList, p ∉ dirPaths e2)
  ∧ (c.priv = true ∨
      (hasBits c.dirMode 0o300 = true ∧ hasBits c.fileMode 0o200 = true ∧ hasBits rootMode 0o300 = true ∧
        Unlocked es))

instance (es : List EntryView) : Decidable (Unlocked es) := by
  unfold Unlocked; infer_instance

instance (c : Cfg) (rootMode : Nat) (es : List EntryView) : Decidable (Consistent c rootMode es) := by
  unfold Consistent; infer_instance

/-- The target directory exists (reachable from "/"), with mode `rootMode`, and is empty. -/
def Fresh (c : Cfg) (fs : FS) (root : Path) (rootMode : Nat) : Prop :=
  walkR c fs (root.reverse.map Comp.normal) = .ok root
  ∧ fs.lookup root = some (.dir rootMode)
  ∧ ∀ r, r ≠ [] → fs.lookup (root ++ r) = none

end ZipVerif.Spec.Tree
