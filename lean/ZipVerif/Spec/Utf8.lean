import ZipVerif.Basic.Bytes
/-
UTF-8, written from RFC 3629 §3 (encoding) and the Unicode Standard ch. 3.9, table 3-7 "Well-Formed
UTF-8 Byte Sequences" + the recommended "maximal subpart" replacement practice (decoding), which is
what Rust's `String::from_utf8_lossy` / `Utf8Chunks` documents and implements.

Decoded text is `List Char` everywhere: a Lean `Char` is exactly a Unicode scalar value
(`val < 0xD800 ∨ 0xDFFF < val < 0x110000`), i.e. exactly a Rust `char`; a Rust `String` is the UTF-8
encoding of a `List Char`.

No imports beyond core (this file is linked into `zvdriver`).
-/

namespace ZipVerif.Spec

/-- U+FFFD REPLACEMENT CHARACTER. -/
def replacement : Char := '�'

/-! ### Encoding (RFC 3629 §3)

```
0000 0000-0000 007F | 0xxxxxxx
0000 0080-0000 07FF | 110xxxxx 10xxxxxx
0000 0800-0000 FFFF | 1110xxxx 10xxxxxx 10xxxxxx
0001 0000-0010 FFFF | 11110xxx 10xxxxxx 10xxxxxx 10xxxxxx
``` -/

def utf8EncodeChar (c : Char) : Bytes :=
  let n := c.toNat
  if n < 0x80 then [UInt8.ofNat n]
  else if n < 0x800 then [UInt8.ofNat (0xC0 + n / 64), UInt8.ofNat (0x80 + n % 64)]
  else if n < 0x10000 then
    [UInt8.ofNat (0xE0 + n / 4096), UInt8.ofNat (0x80 + n / 64 % 64), UInt8.ofNat (0x80 + n % 64)]
  else
    [UInt8.ofNat (0xF0 + n / 262144), UInt8.ofNat (0x80 + n / 4096 % 64),
     UInt8.ofNat (0x80 + n / 64 % 64), UInt8.ofNat (0x80 + n % 64)]

/-- The UTF-8 encoding of a string of scalar values (what a Rust `String` holds as `as_bytes()`). -/
def utf8Encode : List Char → Bytes
  | [] => []
  | c :: s => utf8EncodeChar c ++ utf8Encode s

/-! ### Decoding (Unicode 15, table 3-7)

```
Code points          1st     2nd     3rd     4th
U+0000..U+007F       00..7F
U+0080..U+07FF       C2..DF  80..BF
U+0800..U+0FFF       E0      A0..BF  80..BF
U+1000..U+CFFF       E1..EC  80..BF  80..BF
U+D000..U+D7FF       ED      80..9F  80..BF
U+E000..U+FFFF       EE..EF  80..BF  80..BF
U+10000..U+3FFFF     F0      90..BF  80..BF  80..BF
U+40000..U+FFFFF     F1..F3  80..BF  80..BF  80..BF
U+100000..U+10FFFF   F4      80..8F  80..BF  80..BF
``` -/

/-- Lower bound of the second byte after lead byte `b0` (table 3-7). -/
def secondLo (b0 : Nat) : Nat := if b0 = 0xE0 then 0xA0 else if b0 = 0xF0 then 0x90 else 0x80
/-- Upper bound of the second byte after lead byte `b0` (table 3-7). -/
def secondHi (b0 : Nat) : Nat := if b0 = 0xED then 0x9F else if b0 = 0xF4 then 0x8F else 0xBF

/-- Scalar value of a 2/3/4-byte sequence (payload bits concatenated). -/
def scalar2 (b0 b1 : Nat) : Nat := (b0 - 0xC0) * 64 + (b1 - 0x80)
def scalar3 (b0 b1 b2 : Nat) : Nat := (b0 - 0xE0) * 4096 + (b1 - 0x80) * 64 + (b2 - 0x80)
def scalar4 (b0 b1 b2 b3 : Nat) : Nat :=
  (b0 - 0xF0) * 262144 + (b1 - 0x80) * 4096 + (b2 - 0x80) * 64 + (b3 - 0x80)

theorem scalar1_valid {b0 : Nat} (h : b0 < 0x80) : b0.isValidChar := by
  unfold Nat.isValidChar; omega

theorem scalar2_valid {b0 b1 : Nat} (h0 : 0xC2 ≤ b0 ∧ b0 ≤ 0xDF) (h1 : 0x80 ≤ b1 ∧ b1 ≤ 0xBF) :
    (scalar2 b0 b1).isValidChar := by
  unfold Nat.isValidChar scalar2; omega

theorem scalar3_valid {b0 b1 b2 : Nat} (h0 : 0xE0 ≤ b0 ∧ b0 ≤ 0xEF)
    (h1 : secondLo b0 ≤ b1 ∧ b1 ≤ secondHi b0) (h2 : 0x80 ≤ b2 ∧ b2 ≤ 0xBF) :
    (scalar3 b0 b1 b2).isValidChar := by
  unfold secondLo secondHi at h1
  unfold Nat.isValidChar scalar3
  repeat' split at h1
  all_goals omega

theorem scalar4_valid {b0 b1 b2 b3 : Nat} (h0 : 0xF0 ≤ b0 ∧ b0 ≤ 0xF4)
    (h1 : secondLo b0 ≤ b1 ∧ b1 ≤ secondHi b0) (h2 : 0x80 ≤ b2 ∧ b2 ≤ 0xBF)
    (h3 : 0x80 ≤ b3 ∧ b3 ≤ 0xBF) : (scalar4 b0 b1 b2 b3).isValidChar := by
  unfold secondLo secondHi at h1
  unfold Nat.isValidChar scalar4
  repeat' split at h1
  all_goals omega

/--
Split a byte string into decoded scalar values (`some c`) and ill-formed *maximal subparts* (`none`):
at each position, the longest prefix that is either a well-formed sequence of table 3-7 or an initial
part of one (at least one byte).  A byte that cannot start a sequence (80..C1, F5..FF) is a subpart of
length one; a sequence cut short (by a byte outside the admissible range or by the end of input) is
one subpart, and decoding resumes *at* the offending byte.
-/
def utf8Chunks : Bytes → List (Option Char)
  | [] => []
  | b0 :: r =>
    if h0 : b0.toNat < 0x80 then
      some (Char.ofNatAux b0.toNat (scalar1_valid h0)) :: utf8Chunks r
    else if hl2 : 0xC2 ≤ b0.toNat ∧ b0.toNat ≤ 0xDF then
      match r with
      | [] => [none]
      | b1 :: r1 =>
        if h1 : 0x80 ≤ b1.toNat ∧ b1.toNat ≤ 0xBF then
          some (Char.ofNatAux (scalar2 b0.toNat b1.toNat) (scalar2_valid hl2 h1)) :: utf8Chunks r1
        else none :: utf8Chunks (b1 :: r1)
    else if hl3 : 0xE0 ≤ b0.toNat ∧ b0.toNat ≤ 0xEF then
      match r with
      | [] => [none]
      | b1 :: r1 =>
        if h1 : secondLo b0.toNat ≤ b1.toNat ∧ b1.toNat ≤ secondHi b0.toNat then
          match r1 with
          | [] => [none]
          | b2 :: r2 =>
            if h2 : 0x80 ≤ b2.toNat ∧ b2.toNat ≤ 0xBF then
              some (Char.ofNatAux (scalar3 b0.toNat b1.toNat b2.toNat) (scalar3_valid hl3 h1 h2))
                :: utf8Chunks r2
            else none :: utf8Chunks (b2 :: r2)
        else none :: utf8Chunks (b1 :: r1)
    else if hl4 : 0xF0 ≤ b0.toNat ∧ b0.toNat ≤ 0xF4 then
      match r with
      | [] => [none]
      | b1 :: r1 =>
        if h1 : secondLo b0.toNat ≤ b1.toNat ∧ b1.toNat ≤ secondHi b0.toNat then
          match r1 with
          | [] => [none]
          | b2 :: r2 =>
            if h2 : 0x80 ≤ b2.toNat ∧ b2.toNat ≤ 0xBF then
              match r2 with
              | [] => [none]
              | b3 :: r3 =>
                if h3 : 0x80 ≤ b3.toNat ∧ b3.toNat ≤ 0xBF then
                  some (Char.ofNatAux (scalar4 b0.toNat b1.toNat b2.toNat b3.toNat)
                    (scalar4_valid hl4 h1 h2 h3)) :: utf8Chunks r3
                else none :: utf8Chunks (b3 :: r3)
            else none :: utf8Chunks (b2 :: r2)
        else none :: utf8Chunks (b1 :: r1)
    else
      -- 80..BF (lone continuation), C0, C1 (overlong leads), F5..FF: never part of well-formed UTF-8
      none :: utf8Chunks r

/-- Lossy decoding: every ill-formed maximal subpart becomes one U+FFFD (`String::from_utf8_lossy`). -/
def utf8Lossy (bs : Bytes) : List Char :=
  (utf8Chunks bs).map fun
    | some c => c
    | none => replacement

/-- All chunks well formed → the decoded string. -/
def allSome {α} : List (Option α) → Option (List α)
  | [] => some []
  | none :: _ => none
  | some a :: r => (allSome r).map (a :: ·)

/-- Strict decoding (`std::str::from_utf8`): `none` iff some subpart is ill-formed. -/
def utf8Strict (bs : Bytes) : Option (List Char) := allSome (utf8Chunks bs)

end ZipVerif.Spec
