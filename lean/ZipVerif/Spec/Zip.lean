import ZipVerif.Basic.Bytes
/-
ZIP archive layout, written from APPNOTE 6.3.x sections 4.3-4.5 (independent of the crate's text).
A `Layout` says exactly which records an archive consists of; `build` lays the bytes out.  Offsets,
counts and sizes recorded in the central directory and end records are *computed* by `build`, so an
archive `build L` is correctly placed by construction; what remains to be required of `L` is that
every value fits the field (or the ZIP64 record) it is stored in (`Layout.Fits`).
-/

namespace ZipVerif.Spec.Zip
open ZipVerif

def sigLocal : UInt32 := 0x04034b50
def sigCentral : UInt32 := 0x02014b50
def sigEocd : UInt32 := 0x06054b50
def sigEocd64 : UInt32 := 0x06064b50
def sigLocator : UInt32 := 0x07064b50
def sigDesc : UInt32 := 0x08074b50

inductive Desc | none | sig32 | nosig32 | sig64 | nosig64
  deriving DecidableEq, Repr

/-- One entry: its central-directory record, how its local record differs, its stored data. -/
structure Entry where
  -- central record (authoritative)
  madeBy : UInt16
  versionNeeded : UInt16
  flags : UInt16
  method : UInt16
  time : UInt16
  date : UInt16
  crc : UInt32
  usize : UInt64                 -- uncompressed size (true value)
  name : Bytes
  centralExtra : Bytes           -- extra records other than the ZIP64 record built below
  comment : Bytes
  internalAttrs : UInt16
  externalAttrs : UInt32
  /-- put (usize, csize, offset) into the central ZIP64 record even when they fit 32 bits -/
  z64 : Bool × Bool × Bool
  -- local record
  localExtra : Bytes
  localZip64 : Bool              -- local sizes 0xFFFFFFFF + ZIP64 record holding both
  desc : Desc                    -- data descriptor (local crc/sizes zeroed, flag bit 3 set)
  gapBefore : Bytes              -- unrelated bytes before the local header
  data : Bytes                   -- the stored (compressed / encrypted) bytes
  /-- version-needed written in the LOCAL header when it differs from the central value
  (producers that write the local header before the sizes are known) -/
  localVersion : Option UInt16 := none
  deriving Repr

structure Layout where
  pre : Bytes                    -- bytes prepended to the archive (offsets are relative to its end)
  entries : List Entry
  gapBeforeCd : Bytes
  comment : Bytes
  zip64End : Bool                -- force a ZIP64 end record + locator
  trailing : Bytes               -- bytes after the end record's comment
  /-- (version made by, version needed) of the ZIP64 end record -/
  end64Versions : UInt16 × UInt16 := (45, 45)
  deriving Repr

def Entry.csize (e : Entry) : UInt64 := UInt64.ofNat e.data.length
def Entry.hasDesc (e : Entry) : Bool := e.desc != .none
def Entry.flagsOut (e : Entry) : UInt16 := if e.hasDesc then e.flags ||| 8 else e.flags

def lo32 (v : UInt64) : UInt32 := v.toUInt32

/-- local file header + file name + extra field (APPNOTE 4.3.7) -/
def localRecord (e : Entry) : Bytes :=
  let d := e.hasDesc
  let z : Bytes := if e.localZip64 then
      le16 1 ++ le16 16 ++ le64 (if d then 0 else e.usize) ++ le64 (if d then 0 else e.csize)
    else []
  let extra := z ++ e.localExtra
  le32 sigLocal ++ le16 (e.localVersion.getD e.versionNeeded) ++ le16 e.flagsOut ++ le16 e.method ++ le16 e.time ++
  le16 e.date ++ le32 (if d then 0 else e.crc) ++
  (if e.localZip64 then le32 0xFFFFFFFF ++ le32 0xFFFFFFFF
   else le32 (if d then 0 else lo32 e.csize) ++ le32 (if d then 0 else lo32 e.usize)) ++
  le16 (UInt16.ofNat e.name.length) ++ le16 (UInt16.ofNat extra.length) ++ e.name ++ extra

/-- data descriptor (APPNOTE 4.3.9) -/
def descriptor (e : Entry) : Bytes :=
  match e.desc with
  | .none => []
  | .sig32 => le32 sigDesc ++ le32 e.crc ++ le32 (lo32 e.csize) ++ le32 (lo32 e.usize)
  | .nosig32 => le32 e.crc ++ le32 (lo32 e.csize) ++ le32 (lo32 e.usize)
  | .sig64 => le32 sigDesc ++ le32 e.crc ++ le64 e.csize ++ le64 e.usize
  | .nosig64 => le32 e.crc ++ le64 e.csize ++ le64 e.usize

def Entry.localBytes (e : Entry) : Bytes := e.gapBefore ++ localRecord e ++ e.data ++ descriptor e

/-- which fields of the central record go through the ZIP64 extended information record -/
def Entry.zU (e : Entry) : Bool := e.z64.1 || e.usize ≥ 0xFFFFFFFF
def Entry.zC (e : Entry) : Bool := e.z64.2.1 || e.csize ≥ 0xFFFFFFFF
def Entry.zO (e : Entry) (off : UInt64) : Bool := e.z64.2.2 || off ≥ 0xFFFFFFFF

/-- central directory header (APPNOTE 4.3.12) for an entry whose local header is at `off`
(relative to the start of the archive proper) -/
def centralRecord (e : Entry) (off : UInt64) : Bytes :=
  let zu := e.zU; let zc := e.zC; let zo := e.zO off
  let n : Nat := (if zu then 8 else 0) + (if zc then 8 else 0) + (if zo then 8 else 0)
  let z : Bytes := if n = 0 then [] else
    le16 1 ++ le16 (UInt16.ofNat n) ++ (if zu then le64 e.usize else []) ++
    (if zc then le64 e.csize else []) ++ (if zo then le64 off else [])
  let extra := z ++ e.centralExtra
  le32 sigCentral ++ le16 e.madeBy ++ le16 e.versionNeeded ++ le16 e.flagsOut ++ le16 e.method ++
  le16 e.time ++ le16 e.date ++ le32 e.crc ++
  le32 (if zc then 0xFFFFFFFF else lo32 e.csize) ++ le32 (if zu then 0xFFFFFFFF else lo32 e.usize) ++
  le16 (UInt16.ofNat e.name.length) ++ le16 (UInt16.ofNat extra.length) ++
  le16 (UInt16.ofNat e.comment.length) ++ le16 0 ++ le16 e.internalAttrs ++ le32 e.externalAttrs ++
  le32 (if zo then 0xFFFFFFFF else lo32 off) ++ e.name ++ extra ++ e.comment

/-- offsets (relative to the archive proper) of the local headers, given the offset of the first -/
def localOffsets : List Entry → Nat → List Nat
  | [], _ => []
  | e :: es, start =>
    (start + e.gapBefore.length) :: localOffsets es (start + e.localBytes.length)

def localsBytes (es : List Entry) : Bytes := (es.map Entry.localBytes).flatten

def centralBytes : List Entry → List Nat → Bytes
  | e :: es, o :: os => centralRecord e (UInt64.ofNat o) ++ centralBytes es os
  | _, _ => []

def Layout.cdOffset (l : Layout) : Nat := (localsBytes l.entries).length + l.gapBeforeCd.length
def Layout.cdBytes (l : Layout) : Bytes := centralBytes l.entries (localOffsets l.entries 0)
def Layout.cdSize (l : Layout) : Nat := l.cdBytes.length
def Layout.count (l : Layout) : Nat := l.entries.length

def Layout.needs64 (l : Layout) : Bool :=
  l.zip64End || l.count > 0xFFFF || l.cdSize > 0xFFFFFFFF || l.cdOffset > 0xFFFFFFFF

/-- ZIP64 end of central directory record + locator (APPNOTE 4.3.14, 4.3.15) -/
def Layout.end64 (l : Layout) : Bytes :=
  if l.needs64 then
    le32 sigEocd64 ++ le64 44 ++ le16 l.end64Versions.1 ++ le16 l.end64Versions.2 ++ le32 0 ++ le32 0 ++
    le64 (UInt64.ofNat l.count) ++ le64 (UInt64.ofNat l.count) ++ le64 (UInt64.ofNat l.cdSize) ++
    le64 (UInt64.ofNat l.cdOffset) ++
    le32 sigLocator ++ le32 0 ++ le64 (UInt64.ofNat (l.cdOffset + l.cdSize)) ++ le32 1
  else []

/-- end of central directory record (APPNOTE 4.3.16) -/
def Layout.eocd (l : Layout) : Bytes :=
  let f := l.zip64End
  let n16 : UInt16 := if f || l.count > 0xFFFF then 0xFFFF else UInt16.ofNat l.count
  le32 sigEocd ++ le16 0 ++ le16 0 ++ le16 n16 ++ le16 n16 ++
  le32 (if f || l.cdSize > 0xFFFFFFFF then 0xFFFFFFFF else UInt32.ofNat l.cdSize) ++
  le32 (if f || l.cdOffset > 0xFFFFFFFF then 0xFFFFFFFF else UInt32.ofNat l.cdOffset) ++
  le16 (UInt16.ofNat l.comment.length) ++ l.comment

def build (l : Layout) : Bytes :=
  l.pre ++ localsBytes l.entries ++ l.gapBeforeCd ++ l.cdBytes ++ l.end64 ++ l.eocd ++ l.trailing


/-! ### Named parts of the central record (additive; `centralRecord_eq` ties them to `centralRecord`) -/

/-- the ZIP64 extended information record of the central header (APPNOTE 4.5.3): only the fields whose
32-bit slot holds 0xFFFFFFFF, in the fixed order uncompressed size, compressed size, offset -/
def Entry.centralZ64 (e : Entry) (off : UInt64) : Bytes :=
  let zu := e.zU; let zc := e.zC; let zo := e.zO off
  let n : Nat := (if zu then 8 else 0) + (if zc then 8 else 0) + (if zo then 8 else 0)
  if n = 0 then [] else
    le16 1 ++ le16 (UInt16.ofNat n) ++ (if zu then le64 e.usize else []) ++
    (if zc then le64 e.csize else []) ++ (if zo then le64 off else [])

/-- the whole extra field of the central record -/
def Entry.centralExtraAll (e : Entry) (off : UInt64) : Bytes := e.centralZ64 off ++ e.centralExtra

theorem centralRecord_eq (e : Entry) (off : UInt64) :
    centralRecord e off =
      le32 sigCentral ++ (le16 e.madeBy ++ (le16 e.versionNeeded ++ (le16 e.flagsOut ++ (le16 e.method ++
      (le16 e.time ++ (le16 e.date ++ (le32 e.crc ++
      (le32 (if e.zC then 0xFFFFFFFF else lo32 e.csize) ++
      (le32 (if e.zU then 0xFFFFFFFF else lo32 e.usize) ++
      (le16 (UInt16.ofNat e.name.length) ++ (le16 (UInt16.ofNat (e.centralExtraAll off).length) ++
      (le16 (UInt16.ofNat e.comment.length) ++ (le16 0 ++ (le16 e.internalAttrs ++ (le32 e.externalAttrs ++
      (le32 (if e.zO off then 0xFFFFFFFF else lo32 off) ++
      (e.name ++ (e.centralExtraAll off ++ e.comment)))))))))))))))))) := by
  unfold centralRecord Entry.centralExtraAll Entry.centralZ64
  simp only [List.append_assoc]

theorem centralZ64_length_le (e : Entry) (off : UInt64) : (e.centralZ64 off).length ≤ 28 := by
  unfold Entry.centralZ64
  cases e.zU <;> cases e.zC <;> cases e.zO off <;> simp

/-! ### Extra fields (APPNOTE 4.5.1): a sequence of records `id, size, payload` -/

/-- The extra bytes are a sequence of complete records none of which carries an identifier that a
ZIP reader interprets structurally: 0x0001 (ZIP64 — `centralRecord` emits that record itself) and
0x9901 (WinZip AES, the subject of a separate property). -/
def extraOkAux : Nat → Bytes → Bool
  | 0, bs => bs.isEmpty
  | fuel + 1, bs =>
    if bs.isEmpty then true else
    match rd16 bs with
    | none => false
    | some (id, r1) =>
      match rd16 r1 with
      | none => false
      | some (len, r2) =>
        id != 0x0001 && id != 0x9901 && decide (len.toNat ≤ r2.length) &&
          extraOkAux fuel (r2.drop len.toNat)

def ExtraOk (bs : Bytes) : Prop := extraOkAux bs.length bs = true

instance (bs : Bytes) : Decidable (ExtraOk bs) := by unfold ExtraOk; infer_instance

example : ExtraOk [] := by decide
example : ExtraOk (le16 0x5455 ++ le16 5 ++ [1, 0, 0, 0, 0] ++ le16 0xcafe ++ le16 0) := by decide
example : ¬ ExtraOk (le16 0x0001 ++ le16 0) := by decide
example : ¬ ExtraOk (le16 0x5455 ++ le16 5 ++ [1, 0]) := by decide

/-- Every variable-length item fits its 16-bit length field and every offset fits 64 bits. -/
def Entry.Fits (e : Entry) : Prop :=
  e.name.length ≤ 0xFFFF ∧ e.comment.length ≤ 0xFFFF ∧
  e.localExtra.length + (if e.localZip64 then 20 else 0) ≤ 0xFFFF ∧
  e.centralExtra.length + 28 ≤ 0xFFFF ∧ e.data.length < 2 ^ 63 ∧ e.usize.toNat < 2 ^ 63

instance (e : Entry) : Decidable e.Fits := by unfold Entry.Fits; infer_instance

def Layout.Fits (l : Layout) : Prop :=
  (∀ e ∈ l.entries, e.Fits) ∧ l.comment.length ≤ 0xFFFF ∧ (build l).length < 2 ^ 63

instance (l : Layout) : Decidable l.Fits := by unfold Layout.Fits; infer_instance

end ZipVerif.Spec.Zip
