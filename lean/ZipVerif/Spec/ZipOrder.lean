import ZipVerif.Spec.ZipView
/-
Generalised layouts (review finding F7): what `Spec.Zip.Layout` cannot say.

A `LayoutG` is a `Layout` (prefix, local records with their gaps, gap before the central directory, comment,
trailing bytes) plus

* `cdOrder` — the list of entry indices the CENTRAL DIRECTORY lists, in the order it lists them.  The local
  records stay where `base.entries` puts them; the directory may name them in any other order (APPNOTE does
  not relate the two orders: 4.3.6 only says the directory follows the file data), and — the theorems do not
  need more — may even omit entries (deleted entries left as dead data) or name one twice;
* `eocdSaturate` — next to FORCED ZIP64 end records the plain end record holds the 0xFFFF / 0xFFFFFFFF markers
  (`true`, what `Layout.eocd` does) or keeps the real count / size / offset wherever they fit (`false`:
  producers that write the ZIP64 records unconditionally);
* `end64Ext` — the "zip64 extensible data sector" of the ZIP64 end record (APPNOTE 4.3.14; the size field of
  the record is 44 + its length);
* `end64Gap` — bytes between the last central record and the ZIP64 end record (only laid out when ZIP64 end
  records are present: the locator then names the record's position; without ZIP64 records such bytes cannot
  be told from a prefix, so no layout has them).

`buildG` lays the bytes out; with the identity order and the defaults it is `build` (`buildG_ofLayout`).
-/

namespace ZipVerif.Spec.Zip
open ZipVerif ZipVerif.Model

/-- the entries with the offsets (relative to the archive proper) of their local headers, in LOCAL order -/
def placed : List Entry → Nat → List (Entry × Nat)
  | [], _ => []
  | e :: es, start => (e, start + e.gapBefore.length) :: placed es (start + e.localBytes.length)

/-- central records of a list of placed entries -/
def centralBytesP : List (Entry × Nat) → Bytes
  | [] => []
  | p :: ps => centralRecord p.1 (UInt64.ofNat p.2) ++ centralBytesP ps

/-- what a reader must report for a directory that lists the placed entries `ps` from file position `chs` on -/
def viewListP (pre : Nat) : List (Entry × Nat) → Nat → List FileData
  | [], _ => []
  | p :: ps, chs =>
    viewEntry p.1 p.2 pre chs :: viewListP pre ps (chs + (centralRecord p.1 (UInt64.ofNat p.2)).length)

structure LayoutG where
  base : Layout
  cdOrder : List Nat
  eocdSaturate : Bool := true
  end64Ext : Bytes := []
  end64Gap : Bytes := []
  deriving Repr

namespace LayoutG

/-- the directory's list: entry and local-header offset for every index of `cdOrder` (an index beyond the
entry list names nothing) -/
def cdList (g : LayoutG) : List (Entry × Nat) := g.cdOrder.filterMap fun i => (placed g.base.entries 0)[i]?

def cdBytes (g : LayoutG) : Bytes := centralBytesP g.cdList
def cdSize (g : LayoutG) : Nat := g.cdBytes.length
def count (g : LayoutG) : Nat := g.cdList.length
def cdOffset (g : LayoutG) : Nat := g.base.cdOffset
def cdStart (g : LayoutG) : Nat := g.base.cdStart

def needs64 (g : LayoutG) : Bool :=
  g.base.zip64End || g.count > 0xFFFF || g.cdSize > 0xFFFFFFFF || g.cdOffset > 0xFFFFFFFF

/-- the gap in front of the ZIP64 end record exists only when that record does -/
def gap (g : LayoutG) : Bytes := if g.needs64 then g.end64Gap else []

/-- position of the ZIP64 end record relative to the archive proper (what the locator records) -/
def end64Off (g : LayoutG) : Nat := g.cdOffset + g.cdSize + g.gap.length

/-- ZIP64 end of central directory record (with its extensible data sector) + locator -/
def end64 (g : LayoutG) : Bytes :=
  if g.needs64 then
    le32 sigEocd64 ++ le64 (UInt64.ofNat (44 + g.end64Ext.length)) ++ le16 g.base.end64Versions.1 ++
    le16 g.base.end64Versions.2 ++ le32 0 ++ le32 0 ++
    le64 (UInt64.ofNat g.count) ++ le64 (UInt64.ofNat g.count) ++ le64 (UInt64.ofNat g.cdSize) ++
    le64 (UInt64.ofNat g.cdOffset) ++ g.end64Ext ++
    le32 sigLocator ++ le32 0 ++ le64 (UInt64.ofNat g.end64Off) ++ le32 1
  else []

/-- the plain end record: markers where the value does not fit, and — when `eocdSaturate` — in every field
next to forced ZIP64 records -/
def eocd (g : LayoutG) : Bytes :=
  let f := g.base.zip64End && g.eocdSaturate
  let n16 : UInt16 := if f || g.count > 0xFFFF then 0xFFFF else UInt16.ofNat g.count
  le32 sigEocd ++ le16 0 ++ le16 0 ++ le16 n16 ++ le16 n16 ++
  le32 (if f || g.cdSize > 0xFFFFFFFF then 0xFFFFFFFF else UInt32.ofNat g.cdSize) ++
  le32 (if f || g.cdOffset > 0xFFFFFFFF then 0xFFFFFFFF else UInt32.ofNat g.cdOffset) ++
  le16 (UInt16.ofNat g.base.comment.length) ++ g.base.comment

/-- file positions of the ZIP64 end record and of the end record -/
def end64Pos (g : LayoutG) : Nat := g.cdStart + g.cdSize + g.gap.length
def eocdPos (g : LayoutG) : Nat := g.cdStart + g.cdSize + g.gap.length + g.end64.length

end LayoutG

def buildG (g : LayoutG) : Bytes :=
  g.base.pre ++ localsBytes g.base.entries ++ g.base.gapBeforeCd ++ g.cdBytes ++ g.gap ++ g.end64 ++ g.eocd ++
    g.base.trailing

/-- The entry list a reader must report for `buildG g`: the directory's entries in the DIRECTORY's order,
each with the offset of its own local header. -/
def viewOfG (g : LayoutG) : List FileData := viewListP g.base.pre.length g.cdList g.cdStart

/-- `cdOrder` is a rearrangement of all entries: the case the property names ("local/central ordering
differences").  The reader theorems hold without it. -/
def LayoutG.IsPermutation (g : LayoutG) : Prop := g.cdOrder.Perm (List.range g.base.entries.length)

/-- every value fits its field, and the whole file stays below 2^63 bytes -/
def LayoutG.Fits (g : LayoutG) : Prop :=
  (∀ e ∈ g.base.entries, e.Fits) ∧ g.base.comment.length ≤ 0xFFFF ∧ (buildG g).length < 2 ^ 63

instance (g : LayoutG) : Decidable g.Fits := by unfold LayoutG.Fits; infer_instance

/-- `Spec.Zip.NoFalseSig` for generalised layouts: (i) no end-record signature behind the real one inside the
search window, (ii) without ZIP64 records no locator signature where the reader probes for one, (iii) with
ZIP64 records and a prefix no ZIP64 end-record signature in `[nominal, real)`. -/
def NoFalseSigG (g : LayoutG) : Prop :=
  g.base.comment.length + g.base.trailing.length ≤ 65535 ∧
  (∀ k, k < g.base.comment.length + g.base.trailing.length →
    u32At (buildG g) (g.eocdPos + 1 + k) ≠ some sigEocd) ∧
  (g.needs64 = false → 42 + g.base.comment.length ≤ (buildG g).length →
    u32At (buildG g) ((buildG g).length - 42 - g.base.comment.length) ≠ some sigLocator) ∧
  (g.needs64 = true → ∀ k, k < g.base.pre.length →
    u32At (buildG g) (g.end64Off + k) ≠ some sigEocd64)

instance (g : LayoutG) : Decidable (NoFalseSigG g) := by unfold NoFalseSigG; infer_instance

/-- a plain layout as a generalised one: the directory lists every entry, in the order of the local records -/
def LayoutG.ofLayout (l : Layout) : LayoutG := { base := l, cdOrder := List.range l.entries.length }

end ZipVerif.Spec.Zip
