import ZipVerif.Spec.ZipView
/-
Generalised layouts (review finding F7): what `Spec.Zip.Layout` cannot say.

A `LayoutG` is a `Layout` (prefix, local records with their gaps, gap before the central directory, comment,
trailing bytes) plus

* `cdOrder` — the list of entry indices the CENTRAL DIRECTORY lists, in the order it lists them.  The local
  records stay where `base.entries` puts them; the directory may name them in any other order (APPNOTE does
  not relate the two orders: 4.3.6 only says the directory follows the file data), and — the theorems do not
  need more — may even omit entries (deleted entries left as dead data) or name one twice;
* `eocdSaturate` — next to FORCED ZIP64 end records the plain end record holds the 0xFFFF / 0xFFFFFFFF markers
  (`true`, what `Layout.eocd` does) or keeps the real count / size / offset wherever they fit (`false`:
  producers that write the ZIP64 records unconditionally);
* `end64Ext` — the "zip64 extensible data sector" of the ZIP64 end record (APPNOTE 4.3.14; the size field of
  the record is 44 + its length);
* `end64Gap` — bytes between the last central record and the ZIP64 end record (only laid out when ZIP64 end
  records are present: the locator then names the record's position; without ZIP64 records such bytes cannot
  be told from a prefix, so no layout has them).

* `z64Place` — per entry (index in LOCAL order; entries beyond the list: the default), where the ZIP64 extended
  information record of its CENTRAL header sits among the records of `centralExtra` (`pos` = number of records in
  front of it; APPNOTE 4.5 does not order the records of an extra field) and whether it carries the 4-byte
  "disk start number" (APPNOTE 4.5.3; the header's 16-bit disk field then holds 0xFFFF and the record exists
  even when no other field needs it).

`buildG` lays the bytes out; with the identity order and the defaults it is `build` (`buildG_ofLayout`).
-/

namespace ZipVerif.Spec.Zip
open ZipVerif ZipVerif.Model

/-- the entries with the offsets (relative to the archive proper) of their local headers, in LOCAL order -/
def placed : List Entry → Nat → List (Entry × Nat)
  | [], _ => []
  | e :: es, start => (e, start + e.gapBefore.length) :: placed es (start + e.localBytes.length)

/-- Where the ZIP64 extended information record of a central header sits, and its optional fourth field. -/
structure Z64Place where
  /-- number of records of `centralExtra` in front of the ZIP64 record (clamped to the number of complete
  records; 0 = first, where `centralRecord` puts it) -/
  pos : Nat := 0
  /-- the "disk start number" field (always 0 in a single-file archive; any value is laid out) -/
  disk : Option UInt32 := none
  deriving Repr, DecidableEq

/-- split a record sequence behind its first `n` complete records (fewer records, or a malformed tail: behind
the last complete one) -/
def splitRecords : Nat → Bytes → Bytes × Bytes
  | 0, bs => ([], bs)
  | n + 1, bs =>
    match rd16 bs with
    | none => ([], bs)
    | some (id, r1) =>
      match rd16 r1 with
      | none => ([], bs)
      | some (len, r2) =>
        if len.toNat ≤ r2.length then
          let ab := splitRecords n (r2.drop len.toNat)
          (le16 id ++ (le16 len ++ (r2.take len.toNat ++ ab.1)), ab.2)
        else ([], bs)

def diskBytes : Option UInt32 → Bytes
  | some d => le32 d
  | none => []

/-- the ZIP64 extended information record of the central header (APPNOTE 4.5.3) with the optional disk-start
field: uncompressed size, compressed size, offset — only those whose 32-bit slot holds 0xFFFFFFFF — then the
disk number — only when the 16-bit slot holds 0xFFFF -/
def Entry.centralZ64G (e : Entry) (off : UInt64) (disk : Option UInt32) : Bytes :=
  let zu := e.zU; let zc := e.zC; let zo := e.zO off
  let n : Nat := (if zu then 8 else 0) + (if zc then 8 else 0) + (if zo then 8 else 0) + (diskBytes disk).length
  if n = 0 then [] else
    le16 1 ++ (le16 (UInt16.ofNat n) ++ ((if zu then le64 e.usize else []) ++
    ((if zc then le64 e.csize else []) ++ ((if zo then le64 off else []) ++ diskBytes disk))))

/-- the whole extra field of the central record: the ZIP64 record behind the first `pl.pos` foreign records -/
def Entry.centralExtraAllG (e : Entry) (off : UInt64) (pl : Z64Place) : Bytes :=
  (splitRecords pl.pos e.centralExtra).1 ++ (e.centralZ64G off pl.disk ++ (splitRecords pl.pos e.centralExtra).2)

/-- central directory header (APPNOTE 4.3.12) with the ZIP64 record placed by `pl` -/
def centralRecordG (e : Entry) (off : UInt64) (pl : Z64Place) : Bytes :=
  le32 sigCentral ++ (le16 e.madeBy ++ (le16 e.versionNeeded ++ (le16 e.flagsOut ++ (le16 e.method ++
  (le16 e.time ++ (le16 e.date ++ (le32 e.crc ++
  (le32 (if e.zC then 0xFFFFFFFF else lo32 e.csize) ++
  (le32 (if e.zU then 0xFFFFFFFF else lo32 e.usize) ++
  (le16 (UInt16.ofNat e.name.length) ++ (le16 (UInt16.ofNat (e.centralExtraAllG off pl).length) ++
  (le16 (UInt16.ofNat e.comment.length) ++ (le16 (if pl.disk.isSome then 0xFFFF else 0) ++
  (le16 e.internalAttrs ++ (le32 e.externalAttrs ++
  (le32 (if e.zO off then 0xFFFFFFFF else lo32 off) ++
  (e.name ++ (e.centralExtraAllG off pl ++ e.comment))))))))))))))))))

/-- what a reader must report for such a record: `viewEntry`, the extra data being the record's whole extra
field as laid out -/
def viewEntryG (e : Entry) (off pre chs : Nat) (pl : Z64Place) : FileData :=
  { viewEntry e off pre chs with extraField := e.centralExtraAllG (UInt64.ofNat off) pl }

/-- an entry of the directory: the entry, the offset of its local header, the placement of its ZIP64 record -/
abbrev Listed := (Entry × Nat) × Z64Place

/-- central records of a list of placed entries -/
def centralBytesP : List Listed → Bytes
  | [] => []
  | p :: ps => centralRecordG p.1.1 (UInt64.ofNat p.1.2) p.2 ++ centralBytesP ps

/-- what a reader must report for a directory that lists the placed entries `ps` from file position `chs` on -/
def viewListP (pre : Nat) : List Listed → Nat → List FileData
  | [], _ => []
  | p :: ps, chs =>
    viewEntryG p.1.1 p.1.2 pre chs p.2 ::
      viewListP pre ps (chs + (centralRecordG p.1.1 (UInt64.ofNat p.1.2) p.2).length)

structure LayoutG where
  base : Layout
  cdOrder : List Nat
  eocdSaturate : Bool := true
  end64Ext : Bytes := []
  end64Gap : Bytes := []
  z64Place : List Z64Place := []
  deriving Repr

namespace LayoutG

/-- the placement of the central ZIP64 record of entry `i` (local order); the default beyond the list -/
def placeOf (g : LayoutG) (i : Nat) : Z64Place :=
  match g.z64Place[i]? with
  | some p => p
  | none => {}

/-- the directory's list: entry, local-header offset and ZIP64 placement for every index of `cdOrder` (an index
beyond the entry list names nothing) -/
def cdList (g : LayoutG) : List Listed :=
  g.cdOrder.filterMap fun i => ((placed g.base.entries 0)[i]?).map fun p => (p, g.placeOf i)

def cdBytes (g : LayoutG) : Bytes := centralBytesP g.cdList
def cdSize (g : LayoutG) : Nat := g.cdBytes.length
def count (g : LayoutG) : Nat := g.cdList.length
def cdOffset (g : LayoutG) : Nat := g.base.cdOffset
def cdStart (g : LayoutG) : Nat := g.base.cdStart

def needs64 (g : LayoutG) : Bool :=
  g.base.zip64End || g.count > 0xFFFF || g.cdSize > 0xFFFFFFFF || g.cdOffset > 0xFFFFFFFF

/-- the gap in front of the ZIP64 end record exists only when that record does -/
def gap (g : LayoutG) : Bytes := if g.needs64 then g.end64Gap else []

/-- position of the ZIP64 end record relative to the archive proper (what the locator records) -/
def end64Off (g : LayoutG) : Nat := g.cdOffset + g.cdSize + g.gap.length

/-- ZIP64 end of central directory record (with its extensible data sector) + locator -/
def end64 (g : LayoutG) : Bytes :=
  if g.needs64 then
    le32 sigEocd64 ++ le64 (UInt64.ofNat (44 + g.end64Ext.length)) ++ le16 g.base.end64Versions.1 ++
    le16 g.base.end64Versions.2 ++ le32 0 ++ le32 0 ++
    le64 (UInt64.ofNat g.count) ++ le64 (UInt64.ofNat g.count) ++ le64 (UInt64.ofNat g.cdSize) ++
    le64 (UInt64.ofNat g.cdOffset) ++ g.end64Ext ++
    le32 sigLocator ++ le32 0 ++ le64 (UInt64.ofNat g.end64Off) ++ le32 1
  else []

/-- the plain end record: markers where the value does not fit, and — when `eocdSaturate` — in every field
next to forced ZIP64 records -/
def eocd (g : LayoutG) : Bytes :=
  let f := g.base.zip64End && g.eocdSaturate
  let n16 : UInt16 := if f || g.count > 0xFFFF then 0xFFFF else UInt16.ofNat g.count
  le32 sigEocd ++ le16 0 ++ le16 0 ++ le16 n16 ++ le16 n16 ++
  le32 (if f || g.cdSize > 0xFFFFFFFF then 0xFFFFFFFF else UInt32.ofNat g.cdSize) ++
  le32 (if f || g.cdOffset > 0xFFFFFFFF then 0xFFFFFFFF else UInt32.ofNat g.cdOffset) ++
  le16 (UInt16.ofNat g.base.comment.length) ++ g.base.comment

/-- file positions of the ZIP64 end record and of the end record -/
def end64Pos (g : LayoutG) : Nat := g.cdStart + g.cdSize + g.gap.length
def eocdPos (g : LayoutG) : Nat := g.cdStart + g.cdSize + g.gap.length + g.end64.length

end LayoutG

def buildG (g : LayoutG) : Bytes :=
  g.base.pre ++ localsBytes g.base.entries ++ g.base.gapBeforeCd ++ g.cdBytes ++ g.gap ++ g.end64 ++ g.eocd ++
    g.base.trailing

/-- The entry list a reader must report for `buildG g`: the directory's entries in the DIRECTORY's order,
each with the offset of its own local header. -/
def viewOfG (g : LayoutG) : List FileData := viewListP g.base.pre.length g.cdList g.cdStart

/-- `cdOrder` is a rearrangement of all entries: the case the property names ("local/central ordering
differences").  The reader theorems hold without it. -/
def LayoutG.IsPermutation (g : LayoutG) : Prop := g.cdOrder.Perm (List.range g.base.entries.length)

/-- every value fits its field (the extra field of every listed central record its 16-bit length: with the
disk-start field the ZIP64 record may have 32 bytes, 4 more than `Entry.Fits` reserves), and the whole file
stays below 2^63 bytes -/
def LayoutG.Fits (g : LayoutG) : Prop :=
  (∀ e ∈ g.base.entries, e.Fits) ∧ g.base.comment.length ≤ 0xFFFF ∧ (buildG g).length < 2 ^ 63 ∧
  (∀ q ∈ g.cdList, (q.1.1.centralExtraAllG (UInt64.ofNat q.1.2) q.2).length ≤ 0xFFFF)

instance (g : LayoutG) : Decidable g.Fits := by unfold LayoutG.Fits; infer_instance

/-- `Spec.Zip.NoFalseSig` for generalised layouts: (i) no end-record signature behind the real one inside the
search window, (ii) without ZIP64 records no locator signature where the reader probes for one, (iii) with
ZIP64 records and a prefix no ZIP64 end-record signature in `[nominal, real)`. -/
def NoFalseSigG (g : LayoutG) : Prop :=
  g.base.comment.length + g.base.trailing.length ≤ 65535 ∧
  (∀ k, k < g.base.comment.length + g.base.trailing.length →
    u32At (buildG g) (g.eocdPos + 1 + k) ≠ some sigEocd) ∧
  (g.needs64 = false → 42 + g.base.comment.length ≤ (buildG g).length →
    u32At (buildG g) ((buildG g).length - 42 - g.base.comment.length) ≠ some sigLocator) ∧
  (g.needs64 = true → ∀ k, k < g.base.pre.length →
    u32At (buildG g) (g.end64Off + k) ≠ some sigEocd64)

instance (g : LayoutG) : Decidable (NoFalseSigG g) := by unfold NoFalseSigG; infer_instance

/-- a plain layout as a generalised one: the directory lists every entry, in the order of the local records -/
def LayoutG.ofLayout (l : Layout) : LayoutG := { base := l, cdOrder := List.range l.entries.length }

end ZipVerif.Spec.Zip
