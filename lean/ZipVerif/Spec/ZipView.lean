import ZipVerif.Spec.Zip
import ZipVerif.Model.Types
import ZipVerif.Model.TextBytes
/-
What a reader must REPORT for a layout: the expected `ZipFileData` view of every entry, written
from the layout alone (no parser involved).  The record type `FileData`, the field decoders
(`System.fromU8`, `Method.fromU16`, `DateTime.fromMsdos` — C18 —, `Text.decodeToUtf8` — C19) are the
API's vocabulary; positions are computed from the layout.
-/

namespace ZipVerif.Spec.Zip
open ZipVerif ZipVerif.Model

/-- What the seekable reader additionally needs of an entry's central record: the foreign extra data is
a well-formed record sequence without the identifiers the reader interprets itself, and the entry is
not a WinZip-AES entry (method 99: C16's subject). -/
def Entry.Readable (e : Entry) : Prop := ExtraOk e.centralExtra ∧ e.method ≠ 99

instance (e : Entry) : Decidable e.Readable := by unfold Entry.Readable; infer_instance

def Layout.Readable (l : Layout) : Prop := ∀ e ∈ l.entries, e.Readable

instance (l : Layout) : Decidable l.Readable := by unfold Layout.Readable; infer_instance

/-- The view of entry `e` whose local header lies `off` bytes after the archive's first byte, in an
archive that has `pre` bytes prepended and whose central record for `e` starts at file position `chs`. -/
def viewEntry (e : Entry) (off pre chs : Nat) : FileData :=
  let utf8 : Bool := e.flagsOut &&& 0x0800 != 0
  { system := System.fromU8 (e.madeBy >>> 8).toUInt8
    versionMadeBy := e.madeBy.toUInt8
    encrypted := e.flagsOut &&& 1 == 1
    usingDataDescriptor := e.flagsOut &&& 0x0008 != 0
    method := Method.fromU16 e.method
    level := none
    time := DateTime.fromMsdos e.date e.time
    crc32 := e.crc
    compressedSize := e.csize
    uncompressedSize := e.usize
    fileName := Text.decodeToUtf8 utf8 e.name
    fileNameRaw := e.name
    extraField := e.centralExtraAll (UInt64.ofNat off)
    fileComment := Text.decodeToUtf8 utf8 e.comment
    headerStart := UInt64.ofNat (off + pre)
    centralHeaderStart := UInt64.ofNat chs
    dataStart := 0
    externalAttributes := e.externalAttrs
    largeFile := e.zU || e.zC
    aesMode := none }

/-- the whole extra field of the LOCAL record (its own ZIP64 record, then the local extra data) -/
def Entry.localExtraAll (e : Entry) : Bytes :=
  (if e.localZip64 then
      le16 1 ++ le16 16 ++ le64 (if e.hasDesc then 0 else e.usize) ++ le64 (if e.hasDesc then 0 else e.csize)
    else []) ++ e.localExtra

/-- File position of the first data byte of an entry whose local header lies at `off` (relative to the
archive proper): 30 fixed bytes, then the LOCAL header's own name and extra lengths. -/
def Entry.dataStart (e : Entry) (off pre : Nat) : Nat :=
  pre + off + 30 + e.name.length + e.localExtraAll.length

/-- Unix mode a reader derives from the central record (APPNOTE 4.4.2: the upper byte of "version
made by" is the host system, 0 = MS-DOS, 3 = UNIX; 4.4.15: external attributes are host dependent).
Info-ZIP convention for UNIX: the upper 16 bits are `st_mode`.  MS-DOS attribute byte: bit 0 =
read-only, bit 4 = directory; mapped to rwxrwxr-x directories / rw-rw-r-- files, and a read-only entry
keeps only its r-x bits.  All-zero attributes and other host systems carry no mode. -/
def unixModeSpec (madeBy : UInt16) (attrs : UInt32) : Option Nat :=
  if attrs.toNat = 0 then none
  else if madeBy.toNat / 256 = 3 then some (attrs.toNat / 65536)
  else if madeBy.toNat / 256 = 0 then
    let dir : Bool := attrs.toNat / 16 % 2 = 1
    let readOnly : Bool := attrs.toNat % 2 = 1
    some (match dir, readOnly with
      | true, false => 0o40775
      | false, false => 0o100664
      | true, true => 0o555
      | false, true => 0o444)
  else none

/-- Views of a list of entries: `loc` = offset (relative to the archive proper) where the next local
record (with its gap) begins, `chs` = file position of the next central record. -/
def viewList (pre : Nat) : List Entry → (loc chs : Nat) → List FileData
  | [], _, _ => []
  | e :: es, loc, chs =>
    let off := loc + e.gapBefore.length
    viewEntry e off pre chs ::
      viewList pre es (loc + e.localBytes.length) (chs + (centralRecord e (UInt64.ofNat off)).length)

/-- File position of the first central record. -/
def Layout.cdStart (l : Layout) : Nat := l.pre.length + l.cdOffset

/-- File position of the ZIP64 end record (when present) and of the end-of-central-directory record. -/
def Layout.end64Pos (l : Layout) : Nat := l.cdStart + l.cdSize
def Layout.eocdPos (l : Layout) : Nat := l.cdStart + l.cdSize + l.end64.length

/-- The little-endian 32-bit word at file position `q` (`none` when fewer than 4 bytes remain). -/
def u32At (b : Bytes) (q : Nat) : Option UInt32 := (rd32 (b.drop q)).map (·.1)

/-- The entry list a reader must report for `build l`. -/
def viewOf (l : Layout) : List FileData := viewList l.pre.length l.entries 0 l.cdStart

/-- **"Names/comments do not embed ZIP record signatures"**, in the explicit form the reader's control
flow needs (DESIGN §4.3):

(i)   the real end record lies inside the 65557-byte search window, and no end-of-central-directory
      signature starts at any offset after the real record's start and ≤ len − 22 (these are the
      offsets the backward search probes before it reaches the real record: they lie in the last
      18 fixed bytes of the record, the comment and the trailing bytes);
(ii)  without ZIP64 end records: the four bytes at `len − (42 + comment.length)` — where
      `get_directory_counts` probes for a ZIP64 locator; normally the tail of the last central
      header — are not the locator signature;
(iii) with ZIP64 end records and a prefix: no ZIP64 end-record signature in `[nominal, real)`, the
      range the forward search scans first (empty without a prefix). -/
def NoFalseSig (l : Layout) : Prop :=
  l.comment.length + l.trailing.length ≤ 65535 ∧
  (∀ k, k < l.comment.length + l.trailing.length →
    u32At (build l) (l.eocdPos + 1 + k) ≠ some sigEocd) ∧
  (l.needs64 = false → 42 + l.comment.length ≤ (build l).length →
    u32At (build l) ((build l).length - 42 - l.comment.length) ≠ some sigLocator) ∧
  (l.needs64 = true → ∀ k, k < l.pre.length →
    u32At (build l) (l.cdOffset + l.cdSize + k) ≠ some sigEocd64)

instance (l : Layout) : Decidable (NoFalseSig l) := by unfold NoFalseSig; infer_instance


end ZipVerif.Spec.Zip
