import ZipVerif.Gen.ReadPaths
import ZipVerif.Gen.StreamPaths
import ZipVerif.Tie.Records
import ZipVerif.Tie.Mangled
/-
Tie obligations for the metadata accessors of the public handle `ZipFile` (read.rs; tier T6, LAYER mode of
rs2lean; helper t6l3): every accessor is regenerated from the source on this run and equals the corresponding field
of the model's view `FileData` of the entry's `ZipFileData` (`Tie.Records.dataOf`, the record `Tie.Parsers` /
`Tie.ReaderGlue` prove the parsers fill), resp. the small functions with logic:

* `tie_version_made_by`: the pair (`v / 10`, `v % 10`) of the low byte of "version made by" (never a panic);
* `tie_is_dir` / `tie_is_file`: `Model.Paths.isDir` of the name - its last character is '/' or '\';
* `tie_unix_mode`: `FileData.unixMode` (through `Tie.Types.tie_unix_mode`);
* `tie_data_start`: the value of the `AtomicU64` cell (`load`);
* the plain projections `name`, `name_raw`, `comment`, `compression`, `compressed_size`, `size`, `last_modified`,
  `crc32`, `extra_data`, `header_start`, `central_header_start`.

So C03's "the reader reports … with the names, comments, sizes, CRC, method, timestamp, attributes/Unix mode, extra
data and offsets recorded there" rests on translated code from the parser to the accessor: swapping two accessors,
returning another field or changing the `/ 10` split breaks an obligation here.

The accessors of the streaming reader's `ZipStreamFileMetadata` (read/stream.rs: `name`, `name_raw`, `is_dir`, `is_file`,
`comment`, `data_start`, `unix_mode`) are tied the same way (`tie_stream_*`).

Trusted vocabulary: `Cow<ZipFileData>` auto-deref = `Rs.Cow.get`; `AtomicU64::load` of types.rs = the field's value
(the main translation holds the cell as its value; the stores are C20's subject); `str::chars().rev().next()` = the
last character of the strictly decoded string (`Rs.Str.chars`, `Basic/RsPath.lean`).
-/

namespace ZipVerif.Tie.Accessors
open ZipVerif ZipVerif.Spec ZipVerif.Model ZipVerif.Spec.Paths ZipVerif.Model.Paths ZipVerif.Tie.Records

/-- the model's view of the entry behind a handle -/
def view (f : Gen.ZipFile) : FileData := dataOf f.data.get

theorem tie_version_made_by (f : Gen.ZipFile) :
    Gen.ZipFile.version_made_by f = some ((view f).versionMadeBy / 10, (view f).versionMadeBy % 10) := by
  unfold Gen.ZipFile.version_made_by
  simp only [Rs.Arith.div, Rs.Arith.rem, Id.run, Rs.L.id_pure]
  have h10 : ((10 : UInt8) = 0) = False := by decide
  simp only [h10, if_false]
  rfl

theorem tie_name (f : Gen.ZipFile) : Gen.ZipFile.name f = some (view f).fileName := rfl
theorem tie_name_raw (f : Gen.ZipFile) : Gen.ZipFile.name_raw f = some (view f).fileNameRaw := rfl
theorem tie_comment (f : Gen.ZipFile) : Gen.ZipFile.comment f = some (view f).fileComment := rfl
theorem tie_compression (f : Gen.ZipFile) :
    (Gen.ZipFile.compression f).map Tie.Types.methodOf = some (view f).method := rfl
theorem tie_compressed_size (f : Gen.ZipFile) : Gen.ZipFile.compressed_size f = some (view f).compressedSize := rfl
theorem tie_size (f : Gen.ZipFile) : Gen.ZipFile.size f = some (view f).uncompressedSize := rfl
theorem tie_last_modified (f : Gen.ZipFile) :
    (Gen.ZipFile.last_modified f).map Tie.DateTime.toModel = some (view f).time := rfl
theorem tie_crc32 (f : Gen.ZipFile) : Gen.ZipFile.crc32 f = some (view f).crc32 := rfl
theorem tie_extra_data (f : Gen.ZipFile) : Gen.ZipFile.extra_data f = some (view f).extraField := rfl
theorem tie_data_start (f : Gen.ZipFile) : Gen.ZipFile.data_start f = some (view f).dataStart := rfl
theorem tie_header_start (f : Gen.ZipFile) : Gen.ZipFile.header_start f = some (view f).headerStart := rfl
theorem tie_central_header_start (f : Gen.ZipFile) :
    Gen.ZipFile.central_header_start f = some (view f).centralHeaderStart := rfl

theorem chars_encode (n : Name) : Rs.Str.chars (utf8Encode n) = n := by
  unfold Rs.Str.chars
  rw [strict_encode]

/-- **`ZipFile::is_dir`**: the last character of the name is '/' or '\'. -/
theorem tie_is_dir (f : Gen.ZipFile) (n : Name) (hname : (view f).fileName = utf8Encode n) :
    Gen.ZipFile.is_dir f = some (isDir n) := by
  unfold Gen.ZipFile.is_dir
  rw [tie_name]
  simp only [Id.run, Rs.L.id_pure, hname, chars_encode, List.head?_reverse]
  unfold isDir
  cases n.getLast? <;> rfl

/-- **`ZipFile::is_file`** = `!is_dir()`. -/
theorem tie_is_file (f : Gen.ZipFile) (n : Name) (hname : (view f).fileName = utf8Encode n) :
    Gen.ZipFile.is_file f = some (!isDir n) := by
  unfold Gen.ZipFile.is_file
  rw [tie_is_dir f n hname]
  rfl

example : isDir "a/b/".toList = true ∧ isDir "a\\".toList = true ∧ isDir "a/b".toList = false ∧ isDir [] = false := by
  decide

/-- **`ZipFile::unix_mode`** = `FileData.unixMode` of the view. -/
theorem tie_unix_mode (f : Gen.ZipFile) : Gen.ZipFile.unix_mode f = some (view f).unixMode := by
  unfold Gen.ZipFile.unix_mode
  rw [Tie.Types.tie_unix_mode f.data.get (view f) ⟨rfl, rfl, rfl, rfl, rfl, rfl⟩]
  rfl

/-! ### the same accessors of the streaming reader's `ZipStreamFileMetadata` (read/stream.rs) -/

def sview (m : Gen.ZipStreamFileMetadata) : FileData := dataOf m._0

theorem tie_stream_name (m : Gen.ZipStreamFileMetadata) : Gen.ZipStreamFileMetadata.name m = some (sview m).fileName := rfl
theorem tie_stream_name_raw (m : Gen.ZipStreamFileMetadata) :
    Gen.ZipStreamFileMetadata.name_raw m = some (sview m).fileNameRaw := rfl
theorem tie_stream_comment (m : Gen.ZipStreamFileMetadata) :
    Gen.ZipStreamFileMetadata.comment m = some (sview m).fileComment := rfl
theorem tie_stream_data_start (m : Gen.ZipStreamFileMetadata) :
    Gen.ZipStreamFileMetadata.data_start m = some (sview m).dataStart := rfl

theorem tie_stream_is_dir (m : Gen.ZipStreamFileMetadata) (n : Name) (hname : (sview m).fileName = utf8Encode n) :
    Gen.ZipStreamFileMetadata.is_dir m = some (isDir n) := by
  unfold Gen.ZipStreamFileMetadata.is_dir
  rw [tie_stream_name]
  simp only [Id.run, Rs.L.id_pure, hname, chars_encode, List.head?_reverse]
  unfold isDir
  cases n.getLast? <;> rfl

theorem tie_stream_is_file (m : Gen.ZipStreamFileMetadata) (n : Name) (hname : (sview m).fileName = utf8Encode n) :
    Gen.ZipStreamFileMetadata.is_file m = some (!isDir n) := by
  unfold Gen.ZipStreamFileMetadata.is_file
  rw [tie_stream_is_dir m n hname]
  rfl

theorem tie_stream_unix_mode (m : Gen.ZipStreamFileMetadata) :
    Gen.ZipStreamFileMetadata.unix_mode m = some (sview m).unixMode := by
  unfold Gen.ZipStreamFileMetadata.unix_mode
  rw [Tie.Types.tie_unix_mode m._0 (sview m) ⟨rfl, rfl, rfl, rfl, rfl, rfl⟩]
  rfl

end ZipVerif.Tie.Accessors
