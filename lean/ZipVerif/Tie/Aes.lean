import ZipVerif.Gen.Types
import ZipVerif.Gen.Aes
import ZipVerif.Gen.Compression
import ZipVerif.Model.Aes
/-
Tie obligations for C16: the items regenerated from /repo/src/{types,aes,compression}.rs on this run
equal what the hand-written AES model uses: key / salt lengths per mode, the three constants of
aes.rs, and the method-number table (in particular 99 ↦ the AES pseudo method).
-/

namespace ZipVerif.Tie.Aes
open ZipVerif ZipVerif.Model.Aes

def toModel : Gen.AesMode → AesMode
  | .Aes128 => .aes128
  | .Aes192 => .aes192
  | .Aes256 => .aes256

def methodToModel : Gen.CompressionMethod → Method
  | .Stored => .stored
  | .Deflated => .deflated
  | .Bzip2 => .bzip2
  | .Aes => .aes
  | .Zstd => .zstd
  | .Unsupported v => .unsupported v

theorem tie_key_length (m : Gen.AesMode) :
    Gen.AesMode.key_length m = some (UInt64.ofNat (toModel m).keyLength) := by
  cases m <;> rfl

theorem tie_salt_length (m : Gen.AesMode) :
    Gen.AesMode.salt_length m = some (UInt64.ofNat (toModel m).saltLength) := by
  cases m <;> decide

theorem tie_pwd_verify_length : Gen.PWD_VERIFY_LENGTH.toNat = PWD_VERIFY_LENGTH := by decide
theorem tie_auth_code_length : Gen.AUTH_CODE_LENGTH.toNat = AUTH_CODE_LENGTH := by decide
theorem tie_iteration_count : Gen.ITERATION_COUNT.toNat = ITERATION_COUNT := by decide

theorem tie_method_from_u16 (v : UInt16) :
    (Gen.CompressionMethod.from_u16 v).map methodToModel = some (Method.fromU16 v) := by
  unfold Gen.CompressionMethod.from_u16 Method.fromU16
  by_cases h0 : v = 0
  · subst h0; rfl
  by_cases h8 : v = 8
  · subst h8; rfl
  by_cases h12 : v = 12
  · subst h12; rfl
  by_cases h93 : v = 93
  · subst h93; rfl
  by_cases h99 : v = 99
  · subst h99; rfl
  simp [h0, h8, h12, h93, h99, methodToModel]

end ZipVerif.Tie.Aes
