import ZipVerif.Gen.AesCtr
import ZipVerif.Tie.AesLayer
import ZipVerif.Model.Aes
/-
Tie obligations for the AES-CTR key stream (aes_ctr.rs; tier T6, LAYER mode of rs2lean; helper t6l2).
`Gen.xor` and `Gen.AesCtrZipKeyStream.crypt_in_place` are regenerated from the source on this run: the `while`
loop (`Rs.L.whileLoop`, fuel `target.len() + 1`, shown adequate here), the refill (`write_u128::<LittleEndian>` of
the counter into the buffer, `encrypt_block`, the checked `counter += 1`, `pos = 0`), `AES_BLOCK_SIZE - pos`,
the two slices handed to `xor`, its `assert_eq!` and `zip` loop, and the re-slicing `target = &mut target[n..]`.

* `tie_xor`: `xor(dest, src)` = `Model.Aes.xorBytes` when the lengths agree, a panic otherwise.
* `tie_crypt_in_place`: `crypt_in_place` = `Model.Aes.cryptInPlace` (new target contents and successor state, or
  a panic), for every key, state and target.
* `tie_aes_read_keystream`: with the TRANSLATED key stream as the `Box<dyn AesCipher>` of the generated
  `AesReaderValid::read` (instead of the model's), that method is still `Model.Aes.Valid.read`.

Hypotheses are facts of the Rust types only (`Typed`: `buffer: [u8; 16]`, `counter: u128`, `pos: usize`; a target
below 2^64 bytes); `cryptLoop_typed` / `read_typed` show they survive every call.  The AES block function is
uninterpreted (`Rs.AesPrims.block` = the model's `AesPrims.block`); `P.WF` (a block has 16 bytes) is used only to
keep `buffer.len() = 16`.
-/

namespace ZipVerif.Tie.AesCtr
open ZipVerif ZipVerif.Model.Aes ZipVerif.Tie.Layers ZipVerif.Tie.AesLayer


theorem iterMutZip_xor : ∀ (xs ys : Bytes),
    Rs.L.iterMutZip xs ys () (fun _ a b => some (a ^^^ b, ())) =
      some (xorBytes xs ys ++ xs.drop ys.length, ())
  | [], ys => by simp [Rs.L.iterMutZip, xorBytes]
  | b :: bs, [] => by simp [Rs.L.iterMutZip, xorBytes]
  | b :: bs, c :: cs => by
    simp only [Rs.L.iterMutZip, iterMutZip_xor bs cs]
    simp [xorBytes]

theorem len_beq (a b : Bytes) (ha : a.length < 2 ^ 64) (hb : b.length < 2 ^ 64) :
    ((Rs.len a) == (Rs.len b)) = decide (a.length = b.length) := by
  unfold Rs.len
  by_cases h : a.length = b.length
  · simp [h]
  · have : UInt64.ofNat a.length ≠ UInt64.ofNat b.length := fun he => h (by
      have := congrArg UInt64.toNat he
      rwa [ofNat_toNat_small ha, ofNat_toNat_small hb] at this)
    simp [h, this]

theorem tie_xor (dest src : Bytes) (hd : dest.length < 2 ^ 64) (hs : src.length < 2 ^ 64) :
    Gen.xor dest src = if dest.length = src.length then (some (), xorBytes dest src) else (none, dest) := by
  unfold Gen.xor
  simp only [Id.run, Rs.L.id_pure, len_beq dest src hd hs, Rs.L.assert]
  by_cases h : dest.length = src.length
  · simp [h]
    rw [iterMutZip_xor]
    simp [h]
  · simp [h]

/-! ### `AesCtrZipKeyStream::crypt_in_place` -/

variable (P : AesPrims) (key : Bytes)

/-- key and model state as the generated structure (`C` is a phantom: the key length) -/
def toGen {C : Type} (key : Bytes) (st : CtrState) : Gen.AesCtrZipKeyStream C :=
  ⟨BitVec.ofNat 128 st.counter, ⟨key⟩, st.buffer, UInt64.ofNat st.pos⟩

/-- facts of the Rust types: `buffer: [u8; 16]`, `counter: u128`, `pos: usize` -/
structure Typed (st : CtrState) : Prop where
  buf : st.buffer.length = 16
  ctr : st.counter < 2 ^ 128
  pos : st.pos < 2 ^ 64

/-- one pass through the body of the model's loop: the bytes done, the state, the rest of the target -/
def iter (st : CtrState) (tgt : Bytes) : Out (Bytes × CtrState × Bytes) :=
  if st.pos > 16 then .panic "attempt to subtract with overflow (AES_BLOCK_SIZE - pos)" else
  (if st.pos = 16 then refill P key st else .ok st) >>= fun st1 =>
  let n := min tgt.length (16 - st1.pos)
  let src := (st1.buffer.drop st1.pos).take n
  if src.length ≠ n then .panic "range end index out of range for slice (aes_ctr.rs buffer)" else
  .ok (xorBytes (tgt.take n) src, ⟨st1.counter, st1.buffer, st1.pos + n⟩, tgt.drop n)

theorem cryptLoop_succ (f : Nat) (st : CtrState) (b : UInt8) (t : Bytes) :
    cryptLoop P key (f + 1) st (b :: t) =
      iter P key st (b :: t) >>= fun r => cryptLoop P key f r.2.1 r.2.2 >>= fun q => .ok (r.1 ++ q.1, q.2) := by
  simp only [cryptLoop, iter, List.length_cons]
  split
  · rfl
  · rcases (if st.pos = 16 then refill P key st else Out.ok st) with st1 | e | m
    · simp only [Out.bind_ok]
      split
      · rfl
      · rfl
    · rfl
    · rfl

/-- the step relation a translated loop body has to satisfy -/
def BodyOk {C : Type} (body : Gen.AesCtrZipKeyStream C × Bytes × Bytes → Option (Gen.AesCtrZipKeyStream C × Bytes × Bytes)) : Prop :=
  ∀ (st : CtrState) (tgt d : Bytes), Typed st → tgt ≠ [] → tgt.length < 2 ^ 64 →
    body (toGen key st, tgt, d) =
      match iter P key st tgt with
      | .ok (x, st', rest) => some (toGen key st', rest, d ++ x)
      | _ => none

theorem iter_ok (hW : P.WF) {st st' : CtrState} {tgt x rest : Bytes} (hT : Typed st) (hne : tgt ≠ [])
    (h : iter P key st tgt = .ok (x, st', rest)) : Typed st' ∧ rest.length < tgt.length := by
  unfold iter at h
  split at h
  · cases h
  · rename_i hp
    by_cases h16 : st.pos = 16
    · simp only [h16, if_true, refill] at h
      split at h
      · cases h
      · simp only [Out.bind_ok] at h
        split at h
        · cases h
        · simp only [Out.ok.injEq, Prod.mk.injEq] at h
          obtain ⟨_, h2, h3⟩ := h
          subst h2 h3
          have hl : tgt.length ≠ 0 := fun h0 => hne (List.eq_nil_of_length_eq_zero h0)
          refine ⟨⟨hW.block_len _ _, ?_, ?_⟩, ?_⟩
          · simp only [U128] at *; omega
          · simp only; omega
          · simp only [List.length_drop]; omega
    · simp only [h16, if_false, Out.bind_ok] at h
      split at h
      · cases h
      · simp only [Out.ok.injEq, Prod.mk.injEq] at h
        obtain ⟨_, h2, h3⟩ := h
        subst h2 h3
        have hl : tgt.length ≠ 0 := fun h0 => hne (List.eq_nil_of_length_eq_zero h0)
        refine ⟨⟨hT.buf, hT.ctr, ?_⟩, ?_⟩
        · simp only; omega
        · simp only [List.length_drop]; omega

theorem loop_eq (hW : P.WF) {C : Type} (cond : Gen.AesCtrZipKeyStream C × Bytes × Bytes → Bool)
    (body : Gen.AesCtrZipKeyStream C × Bytes × Bytes → Option (Gen.AesCtrZipKeyStream C × Bytes × Bytes))
    (hc : ∀ s t d, cond (s, t, d) = !t.isEmpty) (hb : BodyOk P key body) :
    ∀ (f fuel : Nat) (st : CtrState) (t d : Bytes), Typed st → t.length < 2 ^ 64 → t.length < fuel → t.length ≤ f →
      Rs.L.whileLoop fuel (toGen key st, t, d) cond body =
        match cryptLoop P key f st t with
        | .ok (out, st') => some (toGen key st', [], d ++ out)
        | _ => none := by
  intro f
  induction f with
  | zero =>
    intro fuel st t d hT h64 hfu hf
    have : t = [] := List.eq_nil_of_length_eq_zero (by omega)
    subst this
    cases fuel with
    | zero => simp at hfu
    | succ fu => simp [Rs.L.whileLoop, hc, cryptLoop]
  | succ f ih =>
    intro fuel st t d hT h64 hfu hf
    cases t with
    | nil =>
      cases fuel with
      | zero => simp at hfu
      | succ fu => simp [Rs.L.whileLoop, hc, cryptLoop]
    | cons b t =>
      cases fuel with
      | zero => simp at hfu
      | succ fu =>
        rw [cryptLoop_succ]
        simp only [Rs.L.whileLoop, hc, List.isEmpty_cons, Bool.not_false, if_true]
        rw [hb st (b :: t) d hT (by simp) h64]
        rcases hi : iter P key st (b :: t) with ⟨x, st', rest⟩ | e | m
        · obtain ⟨hT', hlt⟩ := iter_ok P key hW hT (by simp) hi
          simp only [Out.bind_ok]
          simp only [List.length_cons] at hlt hfu hf h64
          rw [ih fu st' rest (d ++ x) hT' (by omega) (by omega) (by omega)]
          rcases cryptLoop P key f st' rest with ⟨out, st''⟩ | e | m
          · simp
          · rfl
          · rfl
        · rfl
        · rfl

theorem arith_add_ofNat {a b : Nat} (ha : a < 2 ^ 64) (hb : b < 2 ^ 64) :
    Rs.Arith.add (UInt64.ofNat a) (UInt64.ofNat b) = if a + b < 2 ^ 64 then some (UInt64.ofNat (a + b)) else none := by
  show (if (UInt64.ofNat a).toNat + (UInt64.ofNat b).toNat < 18446744073709551616 then
    some (UInt64.ofNat a + UInt64.ofNat b) else none) = _
  rw [ofNat_toNat_small ha, ofNat_toNat_small hb]
  by_cases h : a + b < 2 ^ 64
  · simp only [h, if_true]
    congr 1
    apply UInt64.toNat_inj.mp
    rw [UInt64.toNat_add, ofNat_toNat_small ha, ofNat_toNat_small hb, ofNat_toNat_small h]
    exact Nat.mod_eq_of_lt h
  · simp [h]

theorem slice_ofNat (bs : Bytes) {lo hi : Nat} (hl : lo < 2 ^ 64) (hh : hi < 2 ^ 64) :
    Rs.slice bs (UInt64.ofNat lo) (UInt64.ofNat hi) =
      if lo ≤ hi ∧ hi ≤ bs.length then some ((bs.take hi).drop lo) else none := by
  unfold Rs.slice
  rw [ofNat_toNat_small hl, ofNat_toNat_small hh]

theorem splitAt_ofNat (bs : Bytes) {n : Nat} (hn : n < 2 ^ 64) :
    Rs.L.splitAt bs (UInt64.ofNat n) = if n ≤ bs.length then some (bs.take n, bs.drop n) else none := by
  unfold Rs.L.splitAt
  rw [ofNat_toNat_small hn]

theorem leBytes_eq (n v : Nat) : Rs.leBytes n v = leN n v := by
  induction n generalizing v with
  | zero => rfl
  | succ n ih => simp [Rs.leBytes, leN, ih]

theorem toLE_ofNat {c : Nat} (hc : c < 2 ^ 128) : Rs.U128.toLE (BitVec.ofNat 128 c) = le128 c := by
  unfold Rs.U128.toLE le128
  rw [leBytes_eq, BitVec.toNat_ofNat, Nat.mod_eq_of_lt hc]

theorem le128_length (c : Nat) : (le128 c).length = 16 := by
  unfold le128
  induction (16 : Nat) generalizing c with
  | zero => rfl
  | succ n ih => simp [leN, ih]

theorem u128_add_one {c : Nat} (hc : c < 2 ^ 128) :
    Rs.Arith.add (BitVec.ofNat 128 c : Rs.U128) 1 =
      if c + 1 < 2 ^ 128 then some (BitVec.ofNat 128 (c + 1)) else none := by
  show (if (BitVec.ofNat 128 c).toNat + (1 : BitVec 128).toNat < 2 ^ 128 then
    some (BitVec.ofNat 128 c + 1) else none) = _
  rw [BitVec.toNat_ofNat, Nat.mod_eq_of_lt hc]
  have h1 : (1 : BitVec 128).toNat = 1 := by decide
  rw [h1]
  by_cases h : c + 1 < 2 ^ 128
  · simp only [h, if_true]
    congr 1
    apply BitVec.eq_of_toNat_eq
    rw [BitVec.toNat_add, BitVec.toNat_ofNat, BitVec.toNat_ofNat, h1, Nat.mod_eq_of_lt hc, Nat.mod_eq_of_lt h]
  · simp [h]

/-- the part of the loop body after the refill, for any way `k` of assembling the new loop state -/
theorem tail_eq {σ : Type} (k : UInt64 → Bytes → Bytes → σ) (p : Nat) (buffer tgt : Bytes)
    (hp64 : p < 2 ^ 64) (hp : p ≠ 16) (hne : tgt ≠ []) (h64 : tgt.length < 2 ^ 64) :
    (do let t7 ← Rs.Arith.sub Gen.AES_BLOCK_SIZE (UInt64.ofNat p)
        let t8 ← Rs.slice tgt 0 (min (Rs.len tgt) t7)
        let t9 ← Rs.Arith.add (UInt64.ofNat p) (min (Rs.len tgt) t7)
        let t10 ← Rs.slice buffer (UInt64.ofNat p) t9
        (Gen.xor t8 t10).fst
        let __x ← Rs.L.splitAt (Rs.L.splice tgt 0 (Gen.xor t8 t10).snd) (min (Rs.len tgt) t7)
        let t16 ← Rs.Arith.add (UInt64.ofNat p) (min (Rs.len tgt) t7)
        pure (k t16 __x.snd __x.fst) : Option σ) =
      if p > 16 then none else
      if ((buffer.drop p).take (min tgt.length (16 - p))).length ≠ min tgt.length (16 - p) then none else
      some (k (UInt64.ofNat (p + min tgt.length (16 - p))) (tgt.drop (min tgt.length (16 - p)))
        (xorBytes (tgt.take (min tgt.length (16 - p))) ((buffer.drop p).take (min tgt.length (16 - p))))) := by
  have h16 : Gen.AES_BLOCK_SIZE = UInt64.ofNat 16 := rfl
  have hlen : Rs.len tgt = UInt64.ofNat tgt.length := rfl
  by_cases hgt : p > 16
  · rw [h16, arith_sub_ofNat (by omega) hp64]
    have : ¬ p ≤ 16 := by omega
    simp [this, hgt]
  · have hle : p ≤ 16 := by omega
    have hp : p < 2 ^ 64 := hp64
    have htl : tgt.length ≠ 0 := fun h0 => hne (List.eq_nil_of_length_eq_zero h0)
    rw [h16, arith_sub_ofNat (by omega) hp]
    simp only [hle, if_true, hgt, if_false, Option.bind_eq_bind, Option.bind_some, hlen]
    rw [min_ofNat h64 (by omega)]
    generalize hn : min tgt.length (16 - p) = n
    have hn1 : n ≤ tgt.length := by omega
    have hn2 : n ≤ 16 - p := by omega
    rw [slice0 tgt (by omega), arith_add_ofNat hp (by omega)]
    have hpn : p + n < 2 ^ 64 := by omega
    simp only [hn1, if_true, hpn, Option.bind_some]
    rw [slice_ofNat buffer hp hpn]
    by_cases hsl : p + n ≤ buffer.length
    · have hsrc : ((buffer.drop p).take n).length = n := by simp only [List.length_take, List.length_drop]; omega
      have hdt : (buffer.take (p + n)).drop p = (buffer.drop p).take n := by
        rw [List.drop_take]; congr 1; omega
      have hx := tie_xor (tgt.take n) ((buffer.drop p).take n) (by simp only [List.length_take]; omega)
        (by rw [hsrc]; omega)
      have hleq : (tgt.take n).length = ((buffer.drop p).take n).length := by
        rw [hsrc]; simp only [List.length_take]; omega
      rw [if_pos hleq] at hx
      simp only [show p ≤ p + n by omega, hsl, and_self, if_true, Option.bind_some, hdt, hx, hsrc, ne_eq,
        not_true_eq_false, if_false]
      have hxl : (xorBytes (tgt.take n) ((buffer.drop p).take n)).length = n := by
        rw [xorBytes_len _ _ hleq]; simp only [List.length_take]; omega
      have hsp : Rs.L.splice tgt 0 (xorBytes (tgt.take n) ((buffer.drop p).take n)) =
          xorBytes (tgt.take n) ((buffer.drop p).take n) ++ tgt.drop n := by
        simp [Rs.L.splice, hxl]
      rw [hsp, splitAt_ofNat _ (by omega)]
      simp [hxl]
    · have hsrc : ¬ ((buffer.drop p).take n).length = n := by simp only [List.length_take, List.length_drop]; omega
      simp [hsl]
      omega

theorem tie_crypt_in_place (hW : P.WF) {C : Type} (st : CtrState) (t : Bytes) (hT : Typed st)
    (ht : t.length < 2 ^ 64) :
    @Gen.AesCtrZipKeyStream.crypt_in_place (primsOf P) C (toGen key st) t =
      match cryptInPlace P key st t with
      | .ok (out, st') => (some (), toGen key st', out)
      | _ => (none, toGen key st, t) := by
  unfold Gen.AesCtrZipKeyStream.crypt_in_place cryptInPlace
  simp only [Id.run, Rs.L.id_pure]
  rw [loop_eq P key hW _ _ (by intro s t d; rfl) ?_ t.length (t.length + 1) st t [] hT ht (by omega) (by omega)]
  · rcases cryptLoop P key t.length st t with ⟨out, st'⟩ | e | m
    · simp
    · simp
    · simp
  · intro st tgt d hT hne h64
    have hbeq : (UInt64.ofNat st.pos == Gen.AES_BLOCK_SIZE) = decide (st.pos = 16) := by
      have h16 : Gen.AES_BLOCK_SIZE = UInt64.ofNat 16 := rfl
      rw [h16]
      by_cases h : st.pos = 16
      · simp [h]
      · have : UInt64.ofNat st.pos ≠ UInt64.ofNat 16 := fun he => h (by
          have := congrArg UInt64.toNat he
          rwa [ofNat_toNat_small hT.pos, ofNat_toNat_small (by omega)] at this)
        simp only [h, decide_false, beq_eq_false_iff_ne, ne_eq]
        exact this
    unfold iter
    by_cases h16 : st.pos = 16
    · show (if (UInt64.ofNat st.pos == Gen.AES_BLOCK_SIZE) = true then _ else _) = _
      rw [hbeq]
      simp only [h16, decide_true, if_true]
      have hsw : Rs.L.sliceWriteAll st.buffer (Rs.U128.toLE (BitVec.ofNat 128 st.counter)) = (.ok (), le128 st.counter) := by
        rw [toLE_ofNat hT.ctr]
        unfold Rs.L.sliceWriteAll
        rw [le128_length, hT.buf]
        simp [List.drop_eq_nil_of_le, hT.buf]
      have henc : @Rs.AesBlock.encrypt_block (primsOf P) ⟨key⟩ (le128 st.counter) = some (P.block key (le128 st.counter)) := by
        unfold Rs.AesBlock.encrypt_block
        rw [le128_length]
        rfl
      simp only [toGen, hsw, Rs.IoRes.unwrap, henc, u128_add_one hT.ctr, Option.bind_eq_bind, Option.bind_some, refill]
      by_cases hov : st.counter + 1 < 2 ^ 128
      · have hov' : ¬ st.counter + 1 ≥ U128 := by simp only [U128]; omega
        simp only [hov, hov', if_true, if_false, Option.bind_some, Out.bind_ok]
        refine (tail_eq (fun a b c => (({ counter := BitVec.ofNat 128 (st.counter + 1), cipher := ⟨key⟩, buffer := P.block key (le128 st.counter), pos := a } : Gen.AesCtrZipKeyStream C), b, d ++ c)) 0 (P.block key (le128 st.counter)) tgt (by omega) (by omega) hne h64).trans ?_
        simp only [show ¬ (0 > 16) by omega, if_false, Nat.zero_add, List.drop_zero, Nat.sub_zero]
        split
        · rfl
        · rfl
      · have hov' : st.counter + 1 ≥ U128 := by simp only [U128]; omega
        simp [hov, hov']
    · show (if (UInt64.ofNat st.pos == Gen.AES_BLOCK_SIZE) = true then _ else _) = _
      rw [hbeq]
      simp only [h16, decide_false, Bool.false_eq_true, if_false, Out.bind_ok]
      refine (tail_eq (fun a b c => (({ counter := BitVec.ofNat 128 st.counter, cipher := ⟨key⟩, buffer := st.buffer, pos := a } : Gen.AesCtrZipKeyStream C), b, d ++ c)) st.pos st.buffer tgt hT.pos h16 hne h64).trans ?_
      by_cases hgt : st.pos > 16
      · simp [hgt]
      · simp only [hgt, if_false]
        split
        · rfl
        · rfl

/-- the type facts survive a call (so the Tie composes along any run) -/
theorem cryptLoop_typed (hW : P.WF) : ∀ (f : Nat) (st st' : CtrState) (t out : Bytes), Typed st →
    cryptLoop P key f st t = .ok (out, st') → Typed st' := by
  intro f
  induction f with
  | zero => intro st st' t out hT h; cases t <;> simp [cryptLoop] at h; exact h.2 ▸ hT
  | succ f ih =>
    intro st st' t out hT h
    cases t with
    | nil => simp [cryptLoop] at h; exact h.2 ▸ hT
    | cons b t =>
      rw [cryptLoop_succ] at h
      rcases hi : iter P key st (b :: t) with ⟨x, st1, rest⟩ | e | m
      · rw [hi] at h
        simp only [Out.bind_ok] at h
        rcases hc : cryptLoop P key f st1 rest with ⟨o2, st2⟩ | e | m
        · rw [hc] at h
          simp only [Out.bind_ok, Out.ok.injEq, Prod.mk.injEq] at h
          exact h.2 ▸ ih st1 st2 rest o2 (iter_ok P key hW hT (by simp) hi).1 hc
        · rw [hc] at h; cases h
        · rw [hc] at h; cases h
      · rw [hi] at h; cases h
      · rw [hi] at h; cases h

theorem new_typed : Typed CtrState.new := ⟨by simp [CtrState.new], by simp [CtrState.new], by simp [CtrState.new]⟩

/-! ### `Box<dyn AesCipher>` is the TRANSLATED key stream

`AesCtrZipKeyStream<C>` is the only implementor of `AesCipher`; with it as the member of `Rs.AesDyn` the
generated `AesReaderValid::read` is the model's `Valid.read`: below the AES block function, PBKDF2 and
HMAC nothing of the AES read path is vocabulary any more. -/

/-- the translated key stream as the `Box<dyn AesCipher>` of the generated reader -/
@[instance_reducible] def dynGen (P : AesPrims) (C : Type) : Rs.AesDyn :=
  ⟨Gen.AesCtrZipKeyStream C, fun c t =>
    match @Gen.AesCtrZipKeyStream.crypt_in_place (primsOf P) C c t with
    | (some _, c', t') => some (t', c')
    | (none, _, _) => none⟩

theorem dynGen_ok (hW : P.WF) (C : Type) (ctr : CtrState) (hT : Typed ctr) :
    DynOk P (dynGen P C) (fun k st => toGen k st) key ctr := by
  intro bs hbs
  show (match @Gen.AesCtrZipKeyStream.crypt_in_place (primsOf P) C (toGen key ctr) bs with
    | (some _, c', t') => some (t', c')
    | (none, _, _) => none) = _
  rw [tie_crypt_in_place P key hW ctr bs hT hbs]
  rcases cryptInPlace P key ctr bs with ⟨out, st'⟩ | e | m <;> rfl

/-- **`AesReaderValid::read` over the translated `AesCtrZipKeyStream::crypt_in_place` is the model's
`Valid.read`** (outcome and successor state), for every inner reader, primitive triple, state and buffer. -/
theorem tie_aes_read_keystream {σ : Type} (hW : P.WF) (C : Type) (S : Src σ) (v : Valid σ) (buf : Bytes)
    (hT : Typed v.ctr) (hbuf : buf.length < 2 ^ 64) (hrem : v.dataRemaining < 2 ^ 64) (hin : SmallA S)
    (hSl : ∀ bs s', S.rd v.inner (min v.dataRemaining buf.length) = (.ok bs, s') →
      bs.length ≤ buf.length ∨ v.dataRemaining < bs.length) :
    (fun g : Rs.IoRes UInt64 × @Gen.AesReaderValid (dynGen P C) σ × Bytes => (outRead g.1 g.2.2, g.2.1))
        (@Gen.AesReaderValid.read (primsOf P) (dynGen P C) σ (readOfA S)
          (toGenD (dynGen P C) (fun k st => toGen k st) v) buf) =
      (eraseMsg (Valid.read P S v buf.length).1,
        toGenD (dynGen P C) (fun k st => toGen k st) (Valid.read P S v buf.length).2) :=
  tie_aes_read_dyn P hW (dynGen P C) (fun k st => toGen k st) S v buf (dynGen_ok P v.key hW C v.ctr hT) hbuf hrem hin hSl

/-- … and the type facts of the key stream survive a `read` (the hypothesis `hT` composes along a run) -/
theorem read_typed {σ : Type} (hW : P.WF) (S : Src σ) (v : Valid σ) (n : Nat) (hT : Typed v.ctr) :
    Typed (Valid.read P S v n).2.ctr := by
  unfold Valid.read
  dsimp only
  repeat' split
  all_goals first
    | exact hT
    | exact cryptLoop_typed P _ hW _ _ _ _ _ hT (by assumption)

end ZipVerif.Tie.AesCtr
