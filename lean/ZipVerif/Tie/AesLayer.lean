import ZipVerif.Gen.AesLayer
import ZipVerif.Tie.Layers
import ZipVerif.Tie.Aes
import ZipVerif.Model.Aes
/-
Tie obligations for the AES read layer (aes.rs; tier T6, LAYER mode of rs2lean; vocabulary:
`Basic/RsAes.lean`).  `Gen.AesReader.new` and `Gen.AesReaderValid.read` are regenerated from the source on
this run.  PBKDF2 / AES / HMAC stay uninterpreted: the generated code takes them from the class
`Rs.AesPrims`, instantiated here with an arbitrary `Model.Aes.AesPrims`; `Box<dyn AesCipher>` is instantiated
with the model's key stream (`cryptInPlace`).

Hypotheses: `data_remaining`, the buffer and every inner delivery below 2^64 (`Nat` vs `u64`); HMAC output
of at least 10 bytes (in Rust a fact of the type `GenericArray<u8, U20>`; the model takes `take 10` without a
length check).
-/

namespace ZipVerif.Tie.AesLayer
open ZipVerif ZipVerif.Model.Aes ZipVerif.Tie.Layers

variable {σ : Type}

/-- the model's primitives as the uninterpreted parameters of the generated code.  The model's `pbkdf2` IS the
1000-round function (`ITERATION_COUNT`); for any other number of rounds the generated code sees an unrelated,
arbitrary function `Q`. -/
@[instance_reducible] def primsOf (P : AesPrims) (Q : Bytes → Bytes → UInt32 → Nat → Bytes := fun _ _ _ _ => []) :
    Rs.AesPrims :=
  ⟨fun pw salt rounds len => if rounds = 1000 then P.pbkdf2 pw salt len else Q pw salt rounds len, P.block, P.hmac⟩

/-- the model's key stream as the `Box<dyn AesCipher>` of the generated code: key and counter state -/
@[instance_reducible] def dynOf (P : AesPrims) : Rs.AesDyn :=
  ⟨Bytes × CtrState, fun c t =>
    match cryptInPlace P c.1 c.2 t with
    | .ok (out, st) => some (out, (c.1, st))
    | _ => none⟩

/-- a model source as the inner reader of the generated code -/
@[instance_reducible] def readOfA (S : Src σ) : Rs.Read σ :=
  ⟨fun s n => match S.rd s n with
    | (.ok bs, s') => (.ok bs, s')
    | (.err k, s') => (.err k, s')⟩

def SmallA (S : Src σ) : Prop := ∀ s n bs s', S.rd s n = (.ok bs, s') → bs.length < 2 ^ 64

/-- panic messages are not part of the translation -/
def eraseMsg {α : Type} : Out α → Out α
  | .panic _ => .panic ""
  | o => o

/-! ### `AesReader::new` -/

theorem sub_ofNat (a k : UInt64) (h : k.toNat ≤ a.toNat) : a - k = UInt64.ofNat (a.toNat - k.toNat) := by
  apply UInt64.toNat_inj.mp
  rw [UInt64.toNat_sub_of_le _ _ (UInt64.le_iff_toNat_le.mpr h), UInt64.toNat_ofNat']
  have := a.toNat_lt
  omega

/-- `AesReader::new`: `compressed_size.checked_sub(2 + 10 + salt_length)` (D4: no wrap-around). -/
theorem tie_aesreader_new (S : Src σ) (reader : σ) (mode : Gen.AesMode) (cs : UInt64) :
    @Gen.AesReader.new σ (readOfA S) reader mode cs =
      some ⟨reader, mode, (dataLength (Tie.Aes.toModel mode) cs.toNat).map UInt64.ofNat⟩ := by
  unfold Gen.AesReader.new dataLength
  cases mode
  · have h : (20 : UInt64).toNat = 20 := rfl
    show some (Gen.AesReader.mk reader Gen.AesMode.Aes128 (if (20 : UInt64).toNat ≤ cs.toNat then some (cs - 20) else none)) = _
    by_cases hc : 20 ≤ cs.toNat
    · simp [h, hc, Tie.Aes.toModel, AesMode.saltLength, AesMode.keyLength, PWD_VERIFY_LENGTH, AUTH_CODE_LENGTH,
        sub_ofNat cs 20 (by rw [h]; exact hc)]
    · simp [h, hc, Tie.Aes.toModel, AesMode.saltLength, AesMode.keyLength, PWD_VERIFY_LENGTH, AUTH_CODE_LENGTH]
  · have h : (24 : UInt64).toNat = 24 := rfl
    show some (Gen.AesReader.mk reader Gen.AesMode.Aes192 (if (24 : UInt64).toNat ≤ cs.toNat then some (cs - 24) else none)) = _
    by_cases hc : 24 ≤ cs.toNat
    · simp [h, hc, Tie.Aes.toModel, AesMode.saltLength, AesMode.keyLength, PWD_VERIFY_LENGTH, AUTH_CODE_LENGTH,
        sub_ofNat cs 24 (by rw [h]; exact hc)]
    · simp [h, hc, Tie.Aes.toModel, AesMode.saltLength, AesMode.keyLength, PWD_VERIFY_LENGTH, AUTH_CODE_LENGTH]
  · have h : (28 : UInt64).toNat = 28 := rfl
    show some (Gen.AesReader.mk reader Gen.AesMode.Aes256 (if (28 : UInt64).toNat ≤ cs.toNat then some (cs - 28) else none)) = _
    by_cases hc : 28 ≤ cs.toNat
    · simp [h, hc, Tie.Aes.toModel, AesMode.saltLength, AesMode.keyLength, PWD_VERIFY_LENGTH, AUTH_CODE_LENGTH,
        sub_ofNat cs 28 (by rw [h]; exact hc)]
    · simp [h, hc, Tie.Aes.toModel, AesMode.saltLength, AesMode.keyLength, PWD_VERIFY_LENGTH, AUTH_CODE_LENGTH]

/-! ### Helper facts -/

theorem rd_readOfA (S : Src σ) (s : σ) (n : Nat) :
    @Rs.Read.rd σ (readOfA S) s n =
      match S.rd s n with
      | (.ok bs, s') => (.ok bs, s')
      | (.err k, s') => (.err k, s') := rfl

theorem read_readOfA (S : Src σ) (s : σ) (buf : Bytes) :
    @Rs.L.read σ (readOfA S) s buf =
      match S.rd s buf.length with
      | (.ok bs, s') => (.ok (UInt64.ofNat bs.length), s', (bs ++ buf.drop bs.length).take buf.length)
      | (.err e, s') => (.err e, s', buf) := by
  unfold Rs.L.read
  rw [rd_readOfA]
  rcases S.rd s buf.length with ⟨r, s'⟩
  cases r <;> rfl

/-- std's `read_exact` loop over a model source is the model's `readExactAux` (which threads an accumulator) -/
theorem readExactAux_readOfA (S : Src σ) (fuel : Nat) (s : σ) (n : Nat) (acc : Bytes) :
    (eraseMsg (readExactAux S fuel s n acc).1, (readExactAux S fuel s n acc).2) =
      match @Rs.L.readExactAux σ (readOfA S) fuel s n with
      | (.ok bs, s') => (.ok (acc ++ bs), s')
      | (.err e, s') => (.err (.io e), s')
      | (.panic, s') => (.panic "", s') := by
  induction fuel generalizing s n acc with
  | zero => cases n <;> simp [readExactAux, Rs.L.readExactAux, eraseMsg]
  | succ f ih =>
    cases n with
    | zero => simp [readExactAux, Rs.L.readExactAux, eraseMsg]
    | succ n =>
      simp only [readExactAux, Rs.L.readExactAux, rd_readOfA]
      rcases S.rd s (n + 1) with ⟨r, s'⟩
      cases r with
      | err e => simp [eraseMsg]
      | ok bs =>
        simp only []
        by_cases hb : bs = []
        · simp [hb, eraseMsg]
        · have hb' : ¬ bs.length = 0 := fun h => hb (List.eq_nil_of_length_eq_zero h)
          simp only [hb, hb', if_false]
          by_cases hl : bs.length ≤ n + 1
          · have hl' : ¬ bs.length > n + 1 := by omega
            simp only [hl, hl', if_true, if_false]
            rw [ih]
            rcases @Rs.L.readExactAux σ (readOfA S) f s' (n + 1 - bs.length) with ⟨r2, s2⟩
            cases r2 <;> simp
          · have hl' : bs.length > n + 1 := by omega
            simp [hl, hl', eraseMsg]

theorem read_exact_readOfA (S : Src σ) (s : σ) (buf : Bytes) :
    @Rs.L.read_exact σ (readOfA S) s buf =
      match readExact S s buf.length with
      | (.ok bs, s') => (.ok (), s', bs)
      | (.err (.io e), s') => (.err e, s', buf)
      | (_, s') => (.panic, s', buf) := by
  unfold Rs.L.read_exact readExact
  have h := readExactAux_readOfA S buf.length s buf.length []
  rcases h1 : @Rs.L.readExactAux σ (readOfA S) buf.length s buf.length with ⟨r, s'⟩
  rw [h1] at h
  rcases h2 : readExactAux S buf.length s buf.length [] with ⟨r2, s2⟩
  rw [h2] at h
  cases r <;> cases r2 <;> simp_all [eraseMsg]

theorem refill_no_err (P : AesPrims) (key : Bytes) (st : CtrState) (e : ZErr) : refill P key st ≠ .err e := by
  unfold refill; split <;> simp

theorem refill_no_err_aux (P : AesPrims) (key : Bytes) (st : CtrState) (e : ZErr)
    (h : (if st.pos = 16 then refill P key st else Out.ok st) = Out.err e) : False := by
  split at h
  · exact refill_no_err P key st e h
  · cases h

theorem cryptLoop_no_err (P : AesPrims) (key : Bytes) :
    ∀ (fuel : Nat) (st : CtrState) (t : Bytes) (e : ZErr), cryptLoop P key fuel st t ≠ .err e := by
  intro fuel
  induction fuel with
  | zero => intro st t e; cases t <;> simp [cryptLoop]
  | succ f ih =>
    intro st t e
    cases t with
    | nil => simp [cryptLoop]
    | cons b t =>
      simp only [cryptLoop]
      split
      · simp
      · rcases hq : (if st.pos = 16 then refill P key st else Out.ok st) with st1 | e1 | m
        · simp only [Out.bind_ok]
          split
          · simp
          · rcases hc : cryptLoop P key f ⟨st1.counter, st1.buffer, st1.pos + min (t.length + 1) (16 - st1.pos)⟩
                (List.drop (min (t.length + 1) (16 - st1.pos)) (b :: t)) with r | e2 | m2
            · simp
            · exact absurd hc (ih _ _ _)
            · simp
        · exact (refill_no_err_aux P key st e1 hq).elim
        · simp

theorem xorBytes_len (a b : Bytes) (h : a.length = b.length) : (xorBytes a b).length = a.length := by
  unfold xorBytes; simp [List.length_zipWith, h]

theorem cryptLoop_length (P : AesPrims) (key : Bytes) (fuel : Nat) (st st' : CtrState) (t out : Bytes)
    (h : cryptLoop P key fuel st t = .ok (out, st')) : out.length = t.length := by
  induction fuel generalizing st t out with
  | zero => cases t <;> simp [cryptLoop] at h; simp [h.1.symm]
  | succ f ih =>
    cases t with
    | nil => simp [cryptLoop] at h; simp [h.1.symm]
    | cons b t =>
      simp only [cryptLoop] at h
      split at h
      · cases h
      · rcases hq : (if st.pos = 16 then refill P key st else Out.ok st) with st1 | e1 | m
        · rw [hq] at h
          simp only [Out.bind_ok] at h
          split at h
          · cases h
          · rename_i hsrc
            rcases hc : cryptLoop P key f ⟨st1.counter, st1.buffer, st1.pos + min (t.length + 1) (16 - st1.pos)⟩
                (List.drop (min (t.length + 1) (16 - st1.pos)) (b :: t)) with r | e2 | m2
            · rw [hc] at h
              simp only [Out.bind_ok, Out.ok.injEq, Prod.mk.injEq] at h
              have hi := ih _ _ r.1 (by rw [hc, ← h.2])
              rw [← h.1, List.length_append, hi, xorBytes_len]
              · simp only [List.length_take, List.length_drop, List.length_cons]; omega
              · simp only [ne_eq, Decidable.not_not] at hsrc
                rw [hsrc]; simp only [List.length_take, List.length_cons]; omega
            · rw [hc] at h; cases h
            · rw [hc] at h; cases h
        · rw [hq] at h; cases h
        · rw [hq] at h; cases h

theorem min_ofNat {a b : Nat} (ha : a < 2 ^ 64) (hb : b < 2 ^ 64) :
    min (UInt64.ofNat a) (UInt64.ofNat b) = UInt64.ofNat (min a b) := by
  have h : (UInt64.ofNat a ≤ UInt64.ofNat b) ↔ a ≤ b := by
    rw [UInt64.le_iff_toNat_le, ofNat_toNat_small ha, ofNat_toNat_small hb]
  by_cases hab : a ≤ b
  · rw [Nat.min_eq_left hab]
    have : UInt64.ofNat a ≤ UInt64.ofNat b := h.mpr hab
    simp [min, Min.min, this]
  · have hba : b ≤ a := by omega
    rw [Nat.min_eq_right hba]
    have : ¬ UInt64.ofNat a ≤ UInt64.ofNat b := fun hh => hab (h.mp hh)
    simp [min, Min.min, this]

theorem arith_sub_ofNat {a b : Nat} (ha : a < 2 ^ 64) (hb : b < 2 ^ 64) :
    Rs.Arith.sub (UInt64.ofNat a) (UInt64.ofNat b) = if b ≤ a then some (UInt64.ofNat (a - b)) else none := by
  show (if (UInt64.ofNat b).toNat ≤ (UInt64.ofNat a).toNat then some (UInt64.ofNat a - UInt64.ofNat b) else none) = _
  rw [ofNat_toNat_small ha, ofNat_toNat_small hb]
  by_cases h : b ≤ a
  · simp only [h, if_true]
    rw [sub_ofNat _ _ (by rw [ofNat_toNat_small ha, ofNat_toNat_small hb]; exact h),
      ofNat_toNat_small ha, ofNat_toNat_small hb]
  · simp [h]

theorem slice0 (b : Bytes) {n : Nat} (hn : n < 2 ^ 64) :
    Rs.slice b 0 (UInt64.ofNat n) = if n ≤ b.length then some (b.take n) else none := by
  unfold Rs.slice
  rw [ofNat_toNat_small hn]
  by_cases h : n ≤ b.length <;> simp [h]

theorem splice0_length (buf new : Bytes) (h : new.length ≤ buf.length) :
    (Rs.L.splice buf 0 new).length = buf.length := by
  simp [Rs.L.splice]; omega

theorem splice0_take (buf new : Bytes) : (Rs.L.splice buf 0 new).take new.length = new := by
  simp [Rs.L.splice]

/-- the caller's buffer after the inner read into `&mut buf[0..n]` starts with the delivered bytes -/
theorem buf1_take (bs buf : Bytes) (n : Nat) (hn : n ≤ buf.length) (hb : bs.length ≤ n) :
    (Rs.L.splice buf 0 ((bs ++ (buf.take n).drop bs.length).take n)).take bs.length = bs := by
  have h1 : (buf.take n).length = n := by simp [List.length_take, hn]
  have h2 := filled_take bs (buf.take n) (by rw [h1]; exact hb)
  have h3 := filled_length bs (buf.take n)
  rw [h1] at h2 h3
  simp only [Rs.L.splice, UInt64.toNat_zero, List.take_zero, List.nil_append, Nat.zero_add]
  rw [List.take_append_of_le_length (by rw [h3]; exact hb)]
  exact h2

theorem buf1_length (bs buf : Bytes) (n : Nat) (hn : n ≤ buf.length) :
    (Rs.L.splice buf 0 ((bs ++ (buf.take n).drop bs.length).take n)).length = buf.length := by
  have h1 : (buf.take n).length = n := by simp [List.length_take, hn]
  have h3 := filled_length bs (buf.take n)
  rw [h1] at h3
  apply splice0_length
  rw [h3]; exact hn

/-! ### `AesReaderValid::read` -/

/-- a model state as the generated structure (the ghost fields are not part of the code), for ANY
implementation `D` of `Box<dyn AesCipher>` whose states are given by `emb key ctr` -/
def toGenD (D : Rs.AesDyn) (emb : Bytes → CtrState → D.Cipher) (v : Valid σ) : @Gen.AesReaderValid D σ :=
  @Gen.AesReaderValid.mk D σ v.inner (UInt64.ofNat v.dataRemaining) (emb v.key v.ctr) ⟨v.hmacKey, v.hmacMsg⟩
    v.finalized

/-- … with the model's key stream as the cipher -/
def toGen (P : AesPrims) (v : Valid σ) : @Gen.AesReaderValid (dynOf P) σ := toGenD (dynOf P) (fun k st => (k, st)) v

/-- `D` run from `emb key ctr` does what the model's key stream does (on targets below 2^64 bytes) -/
def DynOk (P : AesPrims) (D : Rs.AesDyn) (emb : Bytes → CtrState → D.Cipher) (key : Bytes) (ctr : CtrState) : Prop :=
  ∀ bs : Bytes, bs.length < 2 ^ 64 →
    D.crypt_in_place (emb key ctr) bs =
      match cryptInPlace P key ctr bs with
      | .ok (out, st) => some (out, emb key st)
      | _ => none

theorem dynOf_ok (P : AesPrims) (key : Bytes) (ctr : CtrState) : DynOk P (dynOf P) (fun k st => (k, st)) key ctr :=
  fun _ _ => rfl

/-- what the caller sees of a generated `read`, in the vocabulary of `Model.Aes` -/
def outRead : Rs.IoRes UInt64 → Bytes → Out Bytes
  | .ok c, buf => .ok (buf.take c.toNat)
  | .err e, _ => .err (.io e)
  | .panic, _ => .panic ""

/-- **`AesReaderValid::read` is the model's `Valid.read`**, as an equation between state transformers:
same outcome (bytes / error kind / panic) and same successor state, for every inner reader, every
primitive triple, every state and every buffer. -/
theorem tie_aes_read_dyn (P : AesPrims) (hW : P.WF) (D : Rs.AesDyn) (emb : Bytes → CtrState → D.Cipher)
    (S : Src σ) (v : Valid σ) (buf : Bytes) (hD : DynOk P D emb v.key v.ctr)
    (hbuf : buf.length < 2 ^ 64) (hrem : v.dataRemaining < 2 ^ 64) (hin : SmallA S)
    (hSl : ∀ bs s', S.rd v.inner (min v.dataRemaining buf.length) = (.ok bs, s') →
      bs.length ≤ buf.length ∨ v.dataRemaining < bs.length) :
    (fun g : Rs.IoRes UInt64 × @Gen.AesReaderValid D σ × Bytes => (outRead g.1 g.2.2, g.2.1))
        (@Gen.AesReaderValid.read (primsOf P) D σ (readOfA S) (toGenD D emb v) buf) =
      (eraseMsg (Valid.read P S v buf.length).1, toGenD D emb (Valid.read P S v buf.length).2) := by
  unfold Gen.AesReaderValid.read Valid.read
  simp only [Id.run, Rs.L.id_pure, toGenD, ofNat_eq_zero_iff hrem]
  by_cases h0 : v.dataRemaining = 0
  · by_cases hft : v.finalized = true
    · simp [h0, hft, outRead, eraseMsg]
    · -- an entry without ciphertext, not yet finalized: the code is read and compared before `Ok(0)`
      have hf : v.finalized = false := by simpa using hft
      simp only [h0, hf, decide_true, if_true, Bool.not_false, Bool.false_eq_true, if_false]
      have h10 : (Rs.vecZeros Gen.AUTH_CODE_LENGTH).length = AUTH_CODE_LENGTH := by decide
      have hm := readExactAux_readOfA S AUTH_CODE_LENGTH v.inner AUTH_CODE_LENGTH []
      unfold Rs.L.read_exact
      rw [h10]
      unfold readExact
      have hmac20 := hW.hmac_len v.hmacKey v.hmacMsg
      have hsl10 : Rs.slice (P.hmac v.hmacKey v.hmacMsg) 0 Gen.AUTH_CODE_LENGTH =
          some ((P.hmac v.hmacKey v.hmacMsg).take AUTH_CODE_LENGTH) := by
        unfold Rs.slice
        have e10 : Gen.AUTH_CODE_LENGTH.toNat = 10 := by decide
        rw [e10, hmac20]; simp [AUTH_CODE_LENGTH]
      rcases hx : @Rs.L.readExactAux σ (readOfA S) AUTH_CODE_LENGTH v.inner AUTH_CODE_LENGTH with ⟨r, s2⟩
      rcases hme : readExactAux S AUTH_CODE_LENGTH v.inner AUTH_CODE_LENGTH [] with ⟨mr, ms⟩
      rw [hx, hme] at hm
      cases r with
      | ok code =>
        cases mr with
        | err e => simp [eraseMsg] at hm
        | panic m => simp [eraseMsg] at hm
        | ok mcode =>
          simp [eraseMsg] at hm
          obtain ⟨hm1, hm2⟩ := hm
          subst hm1 hm2
          have hP : @Rs.AesPrims.hmac (primsOf P) = P.hmac := rfl
          simp only [Rs.Hmac.finalize_reset, hP, hsl10]
          by_cases heq : (P.hmac v.hmacKey v.hmacMsg).take AUTH_CODE_LENGTH = mcode
          · simp [heq, Rs.L.bytesEq, outRead, eraseMsg]
          · simp [heq, Rs.L.bytesEq, outRead, eraseMsg, Rs.ioKind]
      | err e =>
        cases mr with
        | ok c => simp [eraseMsg] at hm
        | panic m => simp [eraseMsg] at hm
        | err me =>
          simp [eraseMsg] at hm
          obtain ⟨hm1, hm2⟩ := hm
          subst hm1 hm2
          simp [outRead, eraseMsg, Rs.IoRes.fail]
      | panic =>
        cases mr with
        | ok c => simp [eraseMsg] at hm
        | err me => simp [eraseMsg] at hm
        | panic m =>
          simp [eraseMsg] at hm
          subst hm
          simp [outRead, eraseMsg, Rs.IoRes.fail]
  · simp only [h0, decide_false, Bool.false_eq_true, if_false]
    have hlen : Rs.len buf = UInt64.ofNat buf.length := rfl
    simp only [hlen, Rs.as', Rs.As.cast, id, min_ofNat hrem hbuf]
    have hn : min v.dataRemaining buf.length ≤ buf.length := Nat.min_le_right _ _
    have hnr : min v.dataRemaining buf.length ≤ v.dataRemaining := Nat.min_le_left _ _
    have hn0 : min v.dataRemaining buf.length < 2 ^ 64 := by omega
    rw [slice0 buf hn0]
    simp only [hn, if_true, read_readOfA]
    have htl : (buf.take (min v.dataRemaining buf.length)).length = min v.dataRemaining buf.length := by
      simp [List.length_take]
    rw [htl]
    rcases hr : S.rd v.inner (min v.dataRemaining buf.length) with ⟨r, s'⟩
    cases r with
    | err k => simp [outRead, eraseMsg, Rs.IoRes.fail]
    | ok bs =>
      have hs := hin _ _ _ _ hr
      have hL := buf1_length bs buf _ hn
      have hT := buf1_take bs buf _ hn
      generalize Rs.L.splice buf 0 (List.take (min v.dataRemaining buf.length)
        (bs ++ List.drop bs.length (List.take (min v.dataRemaining buf.length) buf))) = buf1 at hL hT ⊢
      have hne : (UInt64.ofNat (min v.dataRemaining buf.length) != 0) =
          !decide (min v.dataRemaining buf.length = 0) := by
        show (!(UInt64.ofNat (min v.dataRemaining buf.length) == 0)) = _
        rw [ofNat_eq_zero_iff hn0]
      simp only [ofNat_eq_zero_iff hs, arith_sub_ofNat hrem hs, slice0 _ hs, hL, hne]
      by_cases hE : bs.length = 0 ∧ min v.dataRemaining buf.length ≠ 0
      · simp [hE.1, hE.2, outRead, eraseMsg, Rs.ioKind]
      · have hE' : (decide (bs.length = 0) && !decide (min v.dataRemaining buf.length = 0)) = false := by
          by_cases h1 : bs.length = 0 <;> by_cases h2 : min v.dataRemaining buf.length = 0 <;> simp_all
        simp only [hE', Bool.false_eq_true, if_false, hE]
        by_cases hle : bs.length ≤ v.dataRemaining
        · have hle' : ¬ bs.length > v.dataRemaining := by omega
          simp only [hle, hle', if_true, if_false]
          by_cases hlb : bs.length ≤ buf.length
          · have hlb' : ¬ bs.length > buf.length := by omega
            have hbn : bs.length ≤ min v.dataRemaining buf.length := by omega
            simp only [hlb, hlb', if_true, if_false, hT hbn]
            rw [hD bs hs]
            have hsub : v.dataRemaining - bs.length < 2 ^ 64 := by omega
            simp only [ofNat_eq_zero_iff hsub]
            rcases hc : cryptInPlace P v.key v.ctr bs with ⟨pt, ctr'⟩ | e | m
            · have hpl : pt.length = bs.length := cryptLoop_length P v.key _ _ _ _ _ hc
              have hpt : (Rs.L.splice buf1 0 pt).take bs.length = pt := by rw [← hpl]; exact splice0_take _ _
              simp only []
              by_cases hz : v.dataRemaining - bs.length = 0
              · simp only [hz, decide_true, if_true]
                cases hf : v.finalized
                · simp only [Bool.not_false, Rs.L.assert, if_true, Bool.false_eq_true, if_false]
                  have h10 : (Rs.vecZeros Gen.AUTH_CODE_LENGTH).length = AUTH_CODE_LENGTH := by decide
                  have hm := readExactAux_readOfA S AUTH_CODE_LENGTH s' AUTH_CODE_LENGTH []
                  unfold Rs.L.read_exact
                  rw [h10]
                  unfold readExact
                  have hmac20 := hW.hmac_len v.hmacKey (v.hmacMsg ++ bs)
                  have hsl10 : Rs.slice (P.hmac v.hmacKey (v.hmacMsg ++ bs)) 0 Gen.AUTH_CODE_LENGTH =
                      some ((P.hmac v.hmacKey (v.hmacMsg ++ bs)).take AUTH_CODE_LENGTH) := by
                    unfold Rs.slice
                    have e10 : Gen.AUTH_CODE_LENGTH.toNat = 10 := by decide
                    rw [e10, hmac20]; simp [AUTH_CODE_LENGTH]
                  rcases hx : @Rs.L.readExactAux σ (readOfA S) AUTH_CODE_LENGTH s' AUTH_CODE_LENGTH with ⟨r, s2⟩
                  rcases hme : readExactAux S AUTH_CODE_LENGTH s' AUTH_CODE_LENGTH [] with ⟨mr, ms⟩
                  rw [hx, hme] at hm
                  cases r with
                  | ok code =>
                    cases mr with
                    | err e => simp [eraseMsg] at hm
                    | panic m => simp [eraseMsg] at hm
                    | ok mcode =>
                      simp [eraseMsg] at hm
                      obtain ⟨hm1, hm2⟩ := hm
                      subst hm1 hm2
                      have hP : @Rs.AesPrims.hmac (primsOf P) = P.hmac := rfl
                      simp only [Rs.Hmac.update, Rs.Hmac.finalize_reset, hP, hsl10]
                      by_cases heq : (P.hmac v.hmacKey (v.hmacMsg ++ bs)).take AUTH_CODE_LENGTH = mcode
                      · simp [heq, Rs.L.bytesEq, outRead, eraseMsg, ofNat_toNat_small hs, hpt, hz]
                      · simp [heq, Rs.L.bytesEq, outRead, eraseMsg, Rs.ioKind, hz]
                  | err e =>
                    cases mr with
                    | ok c => simp [eraseMsg] at hm
                    | panic m => simp [eraseMsg] at hm
                    | err me =>
                      simp [eraseMsg] at hm
                      obtain ⟨hm1, hm2⟩ := hm
                      subst hm1 hm2
                      simp [outRead, eraseMsg, Rs.IoRes.fail, Rs.Hmac.update, hz]
                  | panic =>
                    cases mr with
                    | ok c => simp [eraseMsg] at hm
                    | err me => simp [eraseMsg] at hm
                    | panic m =>
                      simp [eraseMsg] at hm
                      subst hm
                      simp [outRead, eraseMsg, Rs.IoRes.fail, Rs.Hmac.update, hz]
                · simp [Rs.L.assert, outRead, eraseMsg, Rs.Hmac.update]
              · simp [hz, outRead, eraseMsg, ofNat_toNat_small hs, hpt, Rs.Hmac.update]
            · exact absurd hc (cryptLoop_no_err P v.key _ _ _ e)
            · simp [outRead, eraseMsg, Rs.Hmac.update]
          · exact absurd (hSl bs s' hr) (by omega)
        · have hle' : bs.length > v.dataRemaining := by omega
          simp [hle, hle', outRead, eraseMsg]

/-- `tie_aes_read_dyn` with the model's key stream as the cipher -/
theorem tie_aes_read (P : AesPrims) (hW : P.WF) (S : Src σ) (v : Valid σ) (buf : Bytes)
    (hbuf : buf.length < 2 ^ 64) (hrem : v.dataRemaining < 2 ^ 64) (hin : SmallA S)
    (hSl : ∀ bs s', S.rd v.inner (min v.dataRemaining buf.length) = (.ok bs, s') →
      bs.length ≤ buf.length ∨ v.dataRemaining < bs.length) :
    (fun g : Rs.IoRes UInt64 × @Gen.AesReaderValid (dynOf P) σ × Bytes => (outRead g.1 g.2.2, g.2.1))
        (@Gen.AesReaderValid.read (primsOf P) (dynOf P) σ (readOfA S) (toGen P v) buf) =
      (eraseMsg (Valid.read P S v buf.length).1, toGen P (Valid.read P S v buf.length).2) :=
  tie_aes_read_dyn P hW (dynOf P) (fun k st => (k, st)) S v buf (dynOf_ok P v.key v.ctr) hbuf hrem hin hSl

/-- The case excluded by `hSl` above: the inner reader returns MORE than the buffer holds (and not more
than `data_remaining`).  Source and model both panic at `&buf[0..read]`; the source has already executed
`self.data_remaining -= read`, the model's state at that panic has not (the state after a panic is not
observable; the model keeps its invariant there). -/
theorem tie_aes_read_overlong (P : AesPrims) (S : Src σ) (v : Valid σ) (buf : Bytes)
    (hbuf : buf.length < 2 ^ 64) (hrem : v.dataRemaining < 2 ^ 64) (hin : SmallA S)
    (bs : Bytes) (s' : σ) (hr : S.rd v.inner (min v.dataRemaining buf.length) = (.ok bs, s'))
    (h1 : buf.length < bs.length) (h2 : bs.length ≤ v.dataRemaining) :
    (@Gen.AesReaderValid.read (primsOf P) (dynOf P) σ (readOfA S) (toGen P v) buf).1 = .panic ∧
      ∃ m, (Valid.read P S v buf.length).1 = .panic m := by
  have h0 : ¬ v.dataRemaining = 0 := by omega
  have hs := hin _ _ _ _ hr
  have hn : min v.dataRemaining buf.length ≤ buf.length := Nat.min_le_right _ _
  have hn0 : min v.dataRemaining buf.length < 2 ^ 64 := by omega
  have hE : ¬ (bs.length = 0 ∧ min v.dataRemaining buf.length ≠ 0) := by omega
  have hle' : ¬ bs.length > v.dataRemaining := by omega
  constructor
  · unfold Gen.AesReaderValid.read
    have hlen : Rs.len buf = UInt64.ofNat buf.length := rfl
    have htl : (buf.take (min v.dataRemaining buf.length)).length = min v.dataRemaining buf.length := by
      simp [List.length_take]
    have hne : (UInt64.ofNat (min v.dataRemaining buf.length) != 0) =
        !decide (min v.dataRemaining buf.length = 0) := by
      show (!(UInt64.ofNat (min v.dataRemaining buf.length) == 0)) = _
      rw [ofNat_eq_zero_iff hn0]
    have hE' : (decide (bs.length = 0) && !decide (min v.dataRemaining buf.length = 0)) = false := by
      have : ¬ bs.length = 0 := by omega
      simp [this]
    simp only [Id.run, Rs.L.id_pure, toGen, toGenD, ofNat_eq_zero_iff hrem, h0, decide_false, Bool.false_eq_true, if_false,
      hlen, Rs.as', Rs.As.cast, id, min_ofNat hrem hbuf, slice0 buf hn0, hn, if_true, read_readOfA, htl, hr,
      ofNat_eq_zero_iff hs, hne, hE', arith_sub_ofNat hrem hs, h2, slice0 _ hs, buf1_length bs buf _ hn]
    have hlb : ¬ bs.length ≤ buf.length := by omega
    simp [hlb]
  · unfold Valid.read
    have hsl : bs.length > buf.length := h1
    simp only [h0, if_false, hr, hE, hle', hsl, if_true]
    exact ⟨_, rfl⟩

end ZipVerif.Tie.AesLayer
