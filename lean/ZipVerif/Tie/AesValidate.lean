import ZipVerif.Gen.AesLayer
import ZipVerif.Tie.AesCtr
/-
Tie obligation for `AesReader::validate` (aes.rs; tier T6, LAYER mode of rs2lean; helper t6l2).
`Gen.AesReader.validate` is regenerated from the source on this run: salt and key length by mode, the
`ok_or_else(InvalidData)?` on the entry length, the two `read_exact` calls, `2 * key_length + PWD_VERIFY_LENGTH`,
the PBKDF2 call with `ITERATION_COUNT`, the three slices of the derived key, the verifier comparison
(`Ok(None)` on mismatch), `cipher_from_mode`, `Hmac::new_from_slice(..).unwrap()` and the fields of the
returned `AesReaderValid`.

`tie_aes_validate`: the outcome equals that of `Model.Aes.validate` — the validated reader (inner reader state,
`data_remaining`, cipher = a key stream in its initial state under the decrypt key, HMAC under the HMAC key
with an empty message, `finalized = false`), `Ok(None)`, the I/O error kind, or a panic — for every inner reader,
mode, entry length, password, primitive triple and implementation of `Box<dyn AesCipher>`.  Since
`CtrState.new` is `Typed` (`Tie.AesCtr.new_typed`), `Tie.AesCtr.tie_aes_read_keystream` applies to the reader
`validate` returns.

`cipher_from_mode` and `AesCtrZipKeyStream::new` are translated as well (helper t6l3): `tie_keystream_new`
(= `CtrState.new` under the key, or the panic of `GenericArray::from_slice` on a key that does not have the key size
of `C::Cipher`), `tie_cipher_from_mode` (the boxed key stream of the mode's kind, if the key has the mode's key
length: `kind_keyLen` ties the `impl AesKind for AesNNN` items to `AesMode::key_length`), and
`tie_aes_validate_keystream` instantiates `Box<dyn AesCipher>` with the translated key stream.

Trusted vocabulary (`Basic/RsAes.lean`, `Tie/AesVocab.lean`): PBKDF2 as a function of password, salt, ROUNDS and
output length — instantiated with the model's (1000-round) `P.pbkdf2` for 1000 rounds and an arbitrary unrelated
function `Q` otherwise, so another iteration count breaks the equation —; the key sizes 16 / 24 / 32 of
`aes::Aes128` / `Aes192` / `Aes256`; `Box::new(x) as Box<dyn AesCipher>` is an arbitrary function `bx` of the key
stream into the states of the trait object; `Hmac::new_from_slice` accepts every key.
Hypotheses: `P.WF` (PBKDF2 fills the buffer it is given: a fact of the Rust signature), the entry length below
2^64.  `self` is consumed, so the inner reader's state after a FAILED validate is not compared.
-/

namespace ZipVerif.Tie.AesValidate
open ZipVerif ZipVerif.Model.Aes ZipVerif.Tie.Layers ZipVerif.Tie.AesLayer ZipVerif.Tie.AesCtr

variable {σ : Type}

/-- the type of `Box::new(x) as Box<dyn AesCipher>` for an implementation `D` of `Box<dyn AesCipher>` -/
abbrev BoxFn (D : Rs.AesDyn) : Type 1 := {C : Type} → Gen.AesCtrZipKeyStream C → D.Cipher

/-- the parameter `Rs.AesBox` of the generated code := an arbitrary boxing function `bx` -/
@[instance_reducible] def boxOf (D : Rs.AesDyn) (bx : BoxFn D) : @Rs.AesBox D := @Rs.AesBox.mk D bx

/-- the kind `cipher_from_mode` chooses for a mode -/
def kindOf : Gen.AesMode → Type
  | .Aes128 => Gen.Aes128
  | .Aes192 => Gen.Aes192
  | .Aes256 => Gen.Aes256

/-- the state of `Box<dyn AesCipher>` that stands for the model's key stream `(key, ctr)` of an entry of mode `mode`:
the boxed translated key stream of the mode's kind -/
def embOf (D : Rs.AesDyn) (bx : BoxFn D) (mode : Gen.AesMode) (key : Bytes) (ctr : CtrState) : D.Cipher :=
  bx (toGen (C := kindOf mode) key ctr)

/-- **`AesCtrZipKeyStream::<C>::new(key)`** = the model's `CtrState.new` under `key`, or the panic of
`GenericArray::from_slice` when the key does not have the key size of `C::Cipher`. -/
theorem tie_keystream_new (C : Type) [Rs.AesKind C] (key : Bytes) :
    Gen.AesCtrZipKeyStream.new (C := C) key =
      if key.length = Rs.AesKind.keyLen C then some (toGen key CtrState.new) else none := by
  unfold Gen.AesCtrZipKeyStream.new Rs.AesBlock.new
  by_cases h : key.length = Rs.AesKind.keyLen C
  · simp only [h, if_true, Id.run, Rs.L.id_pure]
    rfl
  · simp only [h, if_false, Id.run, Rs.L.id_pure]

/-- the key sizes of the three kinds are the key lengths of the modes (`AesMode::key_length`, Tie.Aes) -/
theorem kind_keyLen (mode : Gen.AesMode) :
    (match mode with
      | .Aes128 => Rs.AesKind.keyLen Gen.Aes128
      | .Aes192 => Rs.AesKind.keyLen Gen.Aes192
      | .Aes256 => Rs.AesKind.keyLen Gen.Aes256) = (Tie.Aes.toModel mode).keyLength := by
  cases mode <;> rfl

/-- the outcome of a generated function in the vocabulary of the model -/
def cls {α : Type} : Rs.IoRes α → Out α
  | .ok a => .ok a
  | .err e => .err (.io e)
  | .panic => .panic ""

/-- the successful result carried over to the generated structure -/
def mapOk {α β : Type} (f : α → β) : Out α → Out β
  | .ok a => .ok (f a)
  | .err e => .err e
  | .panic m => .panic m

/-- the model's `read_exact` fails with I/O errors only -/
theorem readExact_err_io (S : Src σ) (s s' : σ) (n : Nat) (e : ZErr) (h : readExact S s n = (.err e, s')) :
    ∃ k, e = .io k := by
  have hm := readExactAux_readOfA S n s n []
  unfold readExact at h
  rw [h] at hm
  rcases hx : @Rs.L.readExactAux σ (readOfA S) n s n with ⟨r, s2⟩
  rw [hx] at hm
  cases r <;> simp [eraseMsg] at hm
  exact ⟨_, hm.1⟩

theorem arith_mul_ofNat {a b : Nat} (ha : a < 2 ^ 64) (hb : b < 2 ^ 64) :
    Rs.Arith.mul (UInt64.ofNat a) (UInt64.ofNat b) = if a * b < 2 ^ 64 then some (UInt64.ofNat (a * b)) else none := by
  show (if (UInt64.ofNat a).toNat * (UInt64.ofNat b).toNat < 18446744073709551616 then
    some (UInt64.ofNat a * UInt64.ofNat b) else none) = _
  rw [ofNat_toNat_small ha, ofNat_toNat_small hb]
  by_cases h : a * b < 2 ^ 64
  · simp only [h, if_true]
    congr 1
    apply UInt64.toNat_inj.mp
    rw [UInt64.toNat_mul, ofNat_toNat_small ha, ofNat_toNat_small hb, ofNat_toNat_small h]
    exact Nat.mod_eq_of_lt h
  · simp [h]

theorem sliceFrom_ofNat (bs : Bytes) {n : Nat} (hn : n < 2 ^ 64) :
    Rs.sliceFrom bs (UInt64.ofNat n) = if n ≤ bs.length then some (bs.drop n) else none := by
  unfold Rs.sliceFrom
  rw [ofNat_toNat_small hn]

theorem vecZeros_length {n : Nat} (hn : n < 2 ^ 64) : (Rs.vecZeros (UInt64.ofNat n)).length = n := by
  simp [Rs.vecZeros, ofNat_toNat_small hn]

/-- **`cipher_from_mode(mode, key)`** = the boxed key stream of the mode's kind in its initial state, if the key has
the key length of the mode; else a panic. -/
theorem tie_cipher_from_mode (D : Rs.AesDyn) (bx : BoxFn D) (mode : Gen.AesMode) (key : Bytes) :
    @Gen.cipher_from_mode D (boxOf D bx) mode key =
      if key.length = (Tie.Aes.toModel mode).keyLength then some (embOf D bx mode key CtrState.new) else none := by
  unfold Gen.cipher_from_mode
  rw [← kind_keyLen mode]
  cases mode
  · simp only [Id.run, Rs.L.id_pure, Rs.L.id_bind, tie_keystream_new]
    by_cases hk : key.length = Rs.AesKind.keyLen Gen.Aes128 <;> simp only [hk, if_true, if_false] <;> rfl
  · simp only [Id.run, Rs.L.id_pure, Rs.L.id_bind, tie_keystream_new]
    by_cases hk : key.length = Rs.AesKind.keyLen Gen.Aes192 <;> simp only [hk, if_true, if_false] <;> rfl
  · simp only [Id.run, Rs.L.id_pure, Rs.L.id_bind, tie_keystream_new]
    by_cases hk : key.length = Rs.AesKind.keyLen Gen.Aes256 <;> simp only [hk, if_true, if_false] <;> rfl

/-- **`AesReader::validate` is the model's `validate`**: same outcome (a reader in the same state / wrong
password / error kind / panic) for every inner reader, primitive triple, mode, entry length and password, and
for every implementation of `Box<dyn AesCipher>` (`D`, `emb`).  `self` is consumed by the Rust function, so the
inner reader's state after a failure is not part of the result. -/
theorem tie_aes_validate (P : AesPrims) (Q : Bytes → Bytes → UInt32 → Nat → Bytes) (hW : P.WF) (D : Rs.AesDyn)
    (bx : BoxFn D) (S : Src σ) (reader : σ) (mode : Gen.AesMode) (dl : Option Nat)
    (hdl : ∀ n, dl = some n → n < 2 ^ 64) (pw : Bytes) :
    cls (@Gen.AesReader.validate (primsOf P Q) D (boxOf D bx) σ (readOfA S)
        ⟨reader, mode, dl.map UInt64.ofNat⟩ pw) =
      eraseMsg (mapOk (fun o => o.map (toGenD D (embOf D bx mode)))
        (validate P S (Tie.Aes.toModel mode) dl reader pw).1) := by
  unfold Gen.AesReader.validate validate
  have hk : (Tie.Aes.toModel mode).keyLength ≤ 32 := by cases mode <;> decide
  simp only [Id.run, Rs.L.id_pure, Tie.Aes.tie_salt_length, Tie.Aes.tie_key_length, tie_cipher_from_mode, AesMode.saltLength]
  generalize embOf D bx mode = emb
  generalize (Tie.Aes.toModel mode).keyLength = k at hk ⊢
  have two : (2 : UInt64) = UInt64.ofNat 2 := rfl
  have hpv : Gen.PWD_VERIFY_LENGTH = UInt64.ofNat 2 := rfl
  have hpv' : PWD_VERIFY_LENGTH = 2 := rfl
  have hit : Gen.ITERATION_COUNT = 1000 := rfl
  cases dl with
  | none => simp [Rs.L.okOr, Rs.IoRes.fail, cls, eraseMsg, Rs.ioKind, mapOk]
  | some n =>
    have hn := hdl n rfl
    simp only [Option.map_some, Rs.L.okOr, read_exact_readOfA, vecZeros_length (show k / 2 < 2 ^ 64 by omega)]
    have h2 : (Rs.vecZeros Gen.PWD_VERIFY_LENGTH).length = 2 := by decide
    simp only [h2, hpv']
    rcases h1 : readExact S reader (k / 2) with ⟨r1, s1⟩
    cases r1 with
    | err e =>
      obtain ⟨ke, rfl⟩ := readExact_err_io S _ _ _ _ h1
      simp [Rs.IoRes.fail, cls, eraseMsg, mapOk]
    | panic m => simp [Rs.IoRes.fail, cls, eraseMsg, mapOk]
    | ok salt =>
      simp only []
      rcases h3 : readExact S s1 2 with ⟨r2, s2⟩
      cases r2 with
      | err e =>
        obtain ⟨ke, rfl⟩ := readExact_err_io S _ _ _ _ h3
        simp [Rs.IoRes.fail, cls, eraseMsg, mapOk]
      | panic m => simp [Rs.IoRes.fail, cls, eraseMsg, mapOk]
      | ok pvv =>
        simp only []
        have hdkl := hW.pbkdf2_len pw salt (2 * k + 2)
        have hpb : @Rs.pbkdf2 (primsOf P Q) pw salt Gen.ITERATION_COUNT (Rs.vecZeros (UInt64.ofNat (2 * k + 2))) =
            P.pbkdf2 pw salt (2 * k + 2) := by
          show (if Gen.ITERATION_COUNT = 1000 then P.pbkdf2 pw salt (Rs.vecZeros (UInt64.ofNat (2 * k + 2))).length
            else Q pw salt Gen.ITERATION_COUNT (Rs.vecZeros (UInt64.ofNat (2 * k + 2))).length) = _
          rw [vecZeros_length (by omega), if_pos hit]
        generalize hdk : P.pbkdf2 pw salt (2 * k + 2) = dk at hpb hdkl
        rw [two, arith_mul_ofNat (by omega) (by omega), arith_mul_ofNat (by omega) (by omega)]
        simp only [show 2 * k < 2 ^ 64 by omega, show k * 2 < 2 ^ 64 by omega, if_true, hpv,
          arith_add_ofNat (show 2 * k < 2 ^ 64 by omega) (show 2 < 2 ^ 64 by omega),
          show 2 * k + 2 < 2 ^ 64 by omega, hpb,
          slice0 dk (show k < 2 ^ 64 by omega), slice_ofNat dk (show k < 2 ^ 64 by omega) (show k * 2 < 2 ^ 64 by omega),
          arith_sub_ofNat (show 2 * k + 2 < 2 ^ 64 by omega) (show 2 < 2 ^ 64 by omega),
          sliceFrom_ofNat dk (show 2 * k + 2 - 2 < 2 ^ 64 by omega), hdkl,
          show k ≤ 2 * k + 2 by omega, show k ≤ k * 2 ∧ k * 2 ≤ 2 * k + 2 by omega, show 2 ≤ 2 * k + 2 by omega,
          show 2 * k + 2 - 2 ≤ 2 * k + 2 by omega]
        have htk : (dk.take k).length = k := by simp only [List.length_take]; omega
        have hhk : List.drop k (List.take (k * 2) dk) = List.take k (List.drop k dk) := by
          rw [List.drop_take]; congr 1; omega
        simp only [and_self, if_true, htk, hhk, Rs.Hmac.new_from_slice, Rs.L.bytesEq, ne_eq, not_true_eq_false,
          if_false]
        have h22 : 2 * k + 2 - 2 = 2 * k := by omega
        rw [h22]
        by_cases hv : pvv = List.drop (2 * k) dk
        · simp [hv, cls, eraseMsg, mapOk, toGenD]
        · simp [hv, cls, eraseMsg, mapOk]

/-! ### `Box<dyn AesCipher>` := the translated key stream

With the translated `AesCtrZipKeyStream` as the member of `Rs.AesDyn` (`Tie.AesCtr.dynGen`) and "forget the type
parameter" as the boxing function, the reader `validate` returns is the one `Tie.AesCtr.tie_aes_read_keystream` is
about: from `validate` to the last `read` nothing but PBKDF2, the AES block function and HMAC is vocabulary. -/

/-- `Box::new(x) as Box<dyn AesCipher>` for the translated key stream: the same fields (`C` is a phantom parameter
of the generated structure) -/
def forgetKind : BoxFn (dynGen P Unit) := fun {_} x => ⟨x.counter, x.cipher, x.buffer, x.pos⟩

theorem embOf_forgetKind (P : AesPrims) (mode : Gen.AesMode) :
    embOf (dynGen P Unit) (forgetKind (P := P)) mode = fun k st => AesCtr.toGen k st := by
  cases mode <;> rfl

/-- **`AesReader::validate` with the translated key stream behind `Box<dyn AesCipher>`** returns the reader state
`toGenD (dynGen P Unit) toGen` of the model's validated reader. -/
theorem tie_aes_validate_keystream (P : AesPrims) (Q : Bytes → Bytes → UInt32 → Nat → Bytes) (hW : P.WF)
    (S : Src σ) (reader : σ) (mode : Gen.AesMode) (dl : Option Nat) (hdl : ∀ n, dl = some n → n < 2 ^ 64) (pw : Bytes) :
    cls (@Gen.AesReader.validate (primsOf P Q) (dynGen P Unit) (boxOf (dynGen P Unit) (forgetKind (P := P))) σ (readOfA S)
        ⟨reader, mode, dl.map UInt64.ofNat⟩ pw) =
      eraseMsg (mapOk (fun o => o.map (toGenD (dynGen P Unit) (fun k st => AesCtr.toGen k st)))
        (validate P S (Tie.Aes.toModel mode) dl reader pw).1) := by
  rw [tie_aes_validate P Q hW (dynGen P Unit) (forgetKind (P := P)) S reader mode dl hdl pw, embOf_forgetKind]

end ZipVerif.Tie.AesValidate
