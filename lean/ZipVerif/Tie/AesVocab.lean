import ZipVerif.Basic.RsAes
import ZipVerif.Gen.Types
/-
Glue between the generated `AesMode` and the vocabulary of the AES layer (`Basic/RsAes.lean`), imported by
the generated `Gen/AesLayer.lean`.

Trusted vocabulary: `aes.rs::cipher_from_mode(mode, key)` — `Box::new(AesCtrZipKeyStream::<AesNNN>::new(key))
as Box<dyn AesCipher>` for the `NNN` of the mode — is an arbitrary partial function of the mode and the key
into the states of `Box<dyn AesCipher>` (`none` = the panic of `GenericArray::from_slice` on a key of the wrong
length).  The Tie instantiates it with "a key stream in its initial state, if the key has the length of the
mode" (`Model.Aes.validate`); the key stream itself is translated (`Gen/AesCtr.lean`).
-/
namespace ZipVerif
class Rs.AesFromMode [Rs.AesDyn] where
  cipher_from_mode : Gen.AesMode → Bytes → Option Rs.AesDyn.Cipher
end ZipVerif
