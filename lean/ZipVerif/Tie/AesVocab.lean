import ZipVerif.Basic.RsAes
import ZipVerif.Gen.Types
import ZipVerif.Gen.AesCtr
/-
Glue between the generated key stream (`Gen/AesCtr.lean`) and the vocabulary of the AES layer
(`Basic/RsAes.lean`), imported by the generated `Gen/AesLayer.lean`.

Trusted vocabulary: `Box::new(x) as Box<dyn aes_ctr::AesCipher>` for a key stream `x: AesCtrZipKeyStream<C>` (the
only implementor of the trait) is `AesBox.box x`, an ARBITRARY function into the states of `Box<dyn AesCipher>`
(`Rs.AesDyn`).  The Tie instantiates `Rs.AesDyn` with the translated key stream and `box` with "forget the type
parameter" (`Tie/AesValidate.lean`).  `cipher_from_mode` and `AesCtrZipKeyStream::new` themselves are translated.
-/
namespace ZipVerif
class Rs.AesBox [Rs.AesDyn] where
  box : {C : Type} → Gen.AesCtrZipKeyStream C → Rs.AesDyn.Cipher
end ZipVerif
