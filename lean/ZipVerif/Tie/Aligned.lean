import ZipVerif.Tie.WriterSM
/-
Tie obligation for `ZipWriter::start_file_aligned` (src/write.rs; helper t6w2; STATE-MACHINE mode of
`rs2lean` with three additions: a byte-string literal `b".."` is its bytes, `self.write_uNN::<LittleEndian>(v)?`
is byteorder's `WriteBytesExt` = `self.write_all(&v.to_le_bytes())`, `assert_eq!(a, b)` evaluates both sides in
order and panics unless they are equal).

  sim_start_file_aligned   RELATIVE to the ties of its four callees (`CalleeSims ext I`): for a state predicate
        `I` (the u64-fit hypotheses of the callee ties) such that the translated `start_file_with_extra_data`,
        `self.write_all`, `end_local_start_central_extra_data` and `end_extra_data` simulate the model's
        functions on the states of `I` and return states of `I`, and for `g` in `I`,
        `Gen.ZipWriter.start_file_aligned ext g name o align` simulates `Model.startFileAligned … (absW g)`
        (`Sim absRn`: same I/O, outcome, value, device, corresponding writer state, up to the `OVF` panic).
        What the theorem itself checks is the code of `start_file_aligned`: the call order, `align as u64`, the
        guard `align > 1 && data_start % align != 0` (with its short-circuit), the checked computation
        `(align - (data_start + 4) % align) % align`, the padding record - the two bytes `za`, the 16-bit length
        of the zero vector, the zeros, each through `write_all` -, the `assert_eq!` on the new data start, the
        final `end_extra_data` and the checked `extra_data_end - data_start`.

The callee ties themselves are `sim_start_file_with_extra_data`, `sim_write_all`, `sim_end_local_start_central`,
`sim_end_extra_data` of `Tie/WriterSM.lean`; each holds under u64-fit hypotheses on the state it starts from
(lengths and offsets of the open entry below 2^64, `bytes_written + len < 2^64`, the writer invariant).  What is
MISSING for an unconditional statement is an `I` with the proof that the callees preserve it: exact-value
postconditions of the callees (the open entry's `extra_field`, `data_start`, `header_start`, and
`stats.bytes_written` after each step; `header_start + 28 < 2^64` needs a fact about the DEVICE position, which
the `Sim` calculus does not carry).  The one arithmetic idealisation of this function itself is explicit in
`CalleeSims.sf`: the preliminary data start satisfies `data_start + 4 < 2^64` (the source adds in checked `u64`,
the model in `Nat`).

SUPERSEDED as a statement by `Tie/AlignedDev.lean` (helper t6w5): `sim_start_file_aligned_at` discharges the
callee hypotheses (no `CalleeSims`) on every run that satisfies a position bound; this file keeps the relative
theorem and the arithmetic lemmas / tactics both proofs share.
-/
set_option linter.unusedSimpArgs false
set_option linter.unusedSectionVars false
set_option linter.unusedVariables false

namespace ZipVerif.Tie.Aligned
open ZipVerif ZipVerif.Model ZipVerif.Tie.SpecRecords ZipVerif.Tie.Records ZipVerif.Tie.Parsers
open ZipVerif.Tie.WriterSM

/-- The ties of the four callees on the states of an invariant `I` (the u64-fit hypotheses under which
`Tie/WriterSM.lean` proves them), each with the postcondition that the state it returns is in `I` again - the
propagation that is not proved here (see the header). -/
structure CalleeSims (ext : Rs.S.Ext) (I : Gen.ZipWriter → Prop) : Prop where
  sf : ∀ (g : Gen.ZipWriter) (name : Bytes) (o : Gen.FileOptions), I g →
    Sim absRn (fun p => I p.2 ∧ ∀ ds, p.1 = .ok ds → ds.toNat + 4 < 18446744073709551616)
      (Rs.S.run (Gen.ZipWriter.start_file_with_extra_data ext g name o))
      (startFileWithExtraData ext.toWExt name (optOf o) (absW g))
  wr : ∀ (g : Gen.ZipWriter) (buf : Bytes), I g → buf.length ≤ 65535 →
    Sim absR (fun p => I p.2)
      (Rs.S.run (Rs.S.write_all (Gen.ZipWriter.write ext) (buf.length + 1) g buf)) (writeData buf (absW g))
  el : ∀ (g : Gen.ZipWriter), I g →
    Sim absRn (fun p => I p.2) (Rs.S.run (Gen.ZipWriter.end_local_start_central_extra_data ext g))
      (endLocalStartCentral ext.toWExt (absW g))
  ee : ∀ (g : Gen.ZipWriter), I g →
    Sim absRn (fun _ => True) (Rs.S.run (Gen.ZipWriter.end_extra_data ext g))
      (endExtraData ext.toWExt (absW g))

theorem rem_some (x a : UInt64) (ha : 0 < a.toNat) :
    Rs.Arith.rem x a = some (x % a) ∧ (x % a).toNat = x.toNat % a.toNat := by
  refine ⟨?_, UInt64.toNat_mod _ _⟩
  have hne : a ≠ 0 := by
    intro h; rw [h] at ha; exact absurd ha (by decide)
  simp only [Rs.Arith.rem, hne, ↓reduceIte]

/-- the pad length: the checked `u64` computation is the model's `Nat` computation -/
theorem pad_length (ds a : UInt64) (ha : 1 < a.toNat) (hds : ds.toNat + 4 < 18446744073709551616) :
    ∃ p : UInt64, (Rs.Arith.add ds (4 : UInt64) >>= fun t5 => Rs.Arith.rem t5 a >>= fun t6 =>
        Rs.Arith.sub a t6 >>= fun t7 => Rs.Arith.rem t7 a) = some p ∧
      p.toNat = (a.toNat - (ds.toNat + 4) % a.toNat) % a.toNat := by
  have e4 : (4 : UInt64).toNat = 4 := by decide
  obtain ⟨h1, h1n⟩ := add_some ds 4 (by rw [e4]; exact hds)
  rw [e4] at h1n
  obtain ⟨h2, h2n⟩ := rem_some (ds + 4) a (by omega)
  have hlt : ((ds + 4) % a).toNat < a.toNat := by rw [h2n]; exact Nat.mod_lt _ (by omega)
  obtain ⟨h3, h3n⟩ := sub_some a ((ds + 4) % a) (by omega)
  obtain ⟨h4, h4n⟩ := rem_some (a - (ds + 4) % a) a (by omega)
  refine ⟨(a - (ds + 4) % a) % a, ?_, ?_⟩
  · simp only [h1, h2, h3, h4, Option.bind_eq_bind, Option.bind_some]
  · rw [h4n, h3n, h2n, h1n]

theorem u16_of_len (n : Nat) :
    Rs.le16 (Rs.as' UInt16 (Rs.len (List.replicate n (0 : UInt8)))) = le16 (UInt16.ofNat n) := by
  have : Rs.as' UInt16 (Rs.len (List.replicate n (0 : UInt8))) = UInt16.ofNat n := by
    rw [← UInt16.toNat_inj]
    simp only [Rs.as', Rs.As.cast, Rs.len, List.length_replicate, UInt64.toNat_toUInt16, UInt64.toNat_ofNat',
      UInt16.toNat_ofNat']
    omega
  rw [this]; rfl

theorem bne0 (x a : UInt64) (ha : 0 < a.toNat) : (x % a != 0) = (x.toNat % a.toNat != 0) := by
  have e0 : (0 : UInt64).toNat = 0 := by decide
  rw [Bool.eq_iff_iff]
  simp only [bne_iff_ne, ne_eq, ← UInt64.toNat_inj, UInt64.toNat_mod, e0]

set_option hygiene false in
/-- an `Err` of a callee: both sides return it with the callee's state -/
macro "err_leaf" : tactic => `(tactic| (
  ssimp [absRn, absR, Except.map]
  refine Sim.leaf ?_ trivial
  simp only [absRn, absR, Except.map]))

set_option hygiene false in
/-- the common tail: `end_extra_data`, then the checked `extra_data_end - data_start` -/
macro "tail_tac" gX:term "," hI:term : tactic => `(tactic| (
  rw [toM_bind_run (Gen.ZipWriter.end_extra_data ext $gX)]
  refine Sim.bind (cs.ee $gX $hI) ?_
  intro q _
  obtain ⟨r, gE⟩ := q
  cases r with
  | error e => err_leaf
  | ok x =>
    by_cases hx : x.toNat < ds.toNat
    · have hsub : Rs.Arith.sub x ds = none := sub_none _ _ (by omega)
      ssimp [absRn, Except.map, hsub, hx]
      exact Sim.panic _ _
    · obtain ⟨hs, hsn⟩ := sub_some x ds (by omega)
      ssimp [absRn, Except.map, hs, hx]
      refine Sim.leaf ?_ trivial
      simp only [absRn, Except.map, hsn]))

theorem sim_start_file_aligned (ext : Rs.S.Ext) (I : Gen.ZipWriter → Prop) (cs : CalleeSims ext I)
    (g : Gen.ZipWriter) (hI : I g) (name : Bytes) (o : Gen.FileOptions) (align : UInt16) :
    Sim absRn (fun _ => True) (Rs.S.run (Gen.ZipWriter.start_file_aligned ext g name o align))
      (startFileAligned ext.toWExt name (optOf o) align (absW g)) := by
  unfold Gen.ZipWriter.start_file_aligned startFileAligned
  ssimp []
  rw [toM_bind_run (Gen.ZipWriter.start_file_with_extra_data ext g name o)]
  refine Sim.bind (cs.sf g name o hI) ?_
  intro p hp
  obtain ⟨r, g1⟩ := p
  cases r with
  | error e =>
    ssimp [absRn, Except.map]
    refine Sim.leaf ?_ trivial
    simp only [absRn, Except.map]
  | ok ds =>
    have hds := hp.2 ds rfl
    have hI1 : I g1 := hp.1
    have ha64 : (Rs.as' UInt64 align).toNat = align.toNat := as_u16_u64_toNat align
    have e1 : (1 : UInt64).toNat = 1 := by decide
    have e0 : (0 : UInt64).toNat = 0 := by decide
    have hgt : decide (Rs.as' UInt64 align > 1) = decide (align.toNat > 1) := by
      simp only [gt_iff_lt, UInt64.lt_iff_toNat_lt, ha64, e1]
    by_cases h1 : align.toNat > 1
    · obtain ⟨hrem, hremn⟩ := rem_some ds (Rs.as' UInt64 align) (by omega)
      rw [ha64] at hremn
      have hne : (ds % Rs.as' UInt64 align != 0) = (ds.toNat % align.toNat != 0) := by
        rw [Bool.eq_iff_iff]
        simp only [bne_iff_ne, ne_eq, ← UInt64.toNat_inj, hremn, e0]
      by_cases h2 : ds.toNat % align.toNat = 0
      · have hne' : (ds.toNat % align.toNat != 0) = false := by simp only [h2, bne_self_eq_false]
        ssimp [absRn, Except.map, hgt, h1, decide_true, hrem, hne, hne', Bool.and_false, Bool.and_true,
          Bool.true_and]
        tail_tac g1, hI1
      · have hne' : (ds.toNat % align.toNat != 0) = true := by simp only [bne_iff_ne, ne_eq, h2, not_false_eq_true]
        have e4 : (4 : UInt64).toNat = 4 := by decide
        obtain ⟨ha1, ha1n⟩ := add_some ds 4 (by rw [e4]; exact hds)
        rw [e4] at ha1n
        obtain ⟨ha2, ha2n⟩ := rem_some (ds + 4) (Rs.as' UInt64 align) (by omega)
        rw [ha64, ha1n] at ha2n
        have hlt : ((ds + 4) % Rs.as' UInt64 align).toNat < (Rs.as' UInt64 align).toNat := by
          rw [ha2n, ha64]; exact Nat.mod_lt _ (by omega)
        obtain ⟨ha3, ha3n⟩ := sub_some (Rs.as' UInt64 align) ((ds + 4) % Rs.as' UInt64 align) (by omega)
        rw [ha64, ha2n] at ha3n
        obtain ⟨ha4, ha4n⟩ := rem_some (Rs.as' UInt64 align - (ds + 4) % Rs.as' UInt64 align) (Rs.as' UInt64 align)
          (by omega)
        rw [ha64, ha3n] at ha4n
        have hzeros : Rs.vecZeros (Rs.as' UInt64
            ((Rs.as' UInt64 align - (ds + 4) % Rs.as' UInt64 align) % Rs.as' UInt64 align)) =
            List.replicate ((align.toNat - (ds.toNat + 4) % align.toNat) % align.toNat) 0 := by
          have hcast : (Rs.as' UInt64
              ((Rs.as' UInt64 align - (ds + 4) % Rs.as' UInt64 align) % Rs.as' UInt64 align)).toNat =
              (align.toNat - (ds.toNat + 4) % align.toNat) % align.toNat := ha4n
          unfold Rs.vecZeros
          rw [hcast]
        have hpl : (align.toNat - (ds.toNat + 4) % align.toNat) % align.toNat < 65536 := by
          have := Nat.mod_lt (align.toNat - (ds.toNat + 4) % align.toNat) (show align.toNat > 0 by omega)
          have := align.toNat_lt
          omega
        ssimp [absRn, Except.map, hgt, h1, decide_true, hrem, hne, hne', Bool.and_false, Bool.and_true,
          Bool.true_and, ha1, ha2, ha3, ha4, hzeros, u16_of_len]
        -- the padding record: `za`, the 16-bit length, the zeros
        rw [toM_bind_run (Rs.S.write_all (Gen.ZipWriter.write ext) _ g1 _)]
        refine Sim.bind (cs.wr g1 [0x7a, 0x61] hI1 (by decide)) ?_
        intro q hI2
        obtain ⟨r, g2⟩ := q
        cases r with
        | error e => err_leaf
        | ok u =>
          ssimp [absR, Except.map]
          rw [toM_bind_run (Rs.S.write_all (Gen.ZipWriter.write ext) _ g2 _)]
          refine Sim.bind (cs.wr g2 _ hI2 (by simp only [le16, List.length_cons, List.length_nil]; omega)) ?_
          intro q hI3
          obtain ⟨r, g3⟩ := q
          cases r with
          | error e => err_leaf
          | ok u =>
            ssimp [absR, Except.map]
            rw [toM_bind_run (Rs.S.write_all (Gen.ZipWriter.write ext) _ g3 _)]
            refine Sim.bind (cs.wr g3 _ hI3 (by rw [List.length_replicate]; omega)) ?_
            intro q hI4
            obtain ⟨r, g4⟩ := q
            cases r with
            | error e => err_leaf
            | ok u =>
              ssimp [absR, Except.map]
              rw [toM_bind_run (Gen.ZipWriter.end_local_start_central_extra_data ext g4)]
              refine Sim.bind (cs.el g4 hI4) ?_
              intro q hI5
              obtain ⟨r, g5⟩ := q
              cases r with
              | error e => err_leaf
              | ok x =>
                obtain ⟨hr5, _⟩ := rem_some x (Rs.as' UInt64 align) (by omega)
                have hb5 := bne0 x (Rs.as' UInt64 align) (by omega)
                rw [ha64] at hb5
                by_cases h5 : x.toNat % align.toNat = 0
                · have hb5' : (x.toNat % align.toNat != 0) = false := by simp only [h5, bne_self_eq_false]
                  ssimp [absRn, Except.map, hr5, hb5, hb5']
                  tail_tac g5, hI5
                · have hb5' : (x.toNat % align.toNat != 0) = true := by
                    simp only [bne_iff_ne, ne_eq, h5, not_false_eq_true]
                  ssimp [absRn, Except.map, hr5, hb5, hb5']
                  exact Sim.panic _ _
    · -- `align <= 1`: no padding
      have hf : decide (align.toNat > 1) = false := by simp only [h1, decide_false]
      ssimp [absRn, Except.map, hgt, hf, Bool.false_and]
      tail_tac g1, hI1

end ZipVerif.Tie.Aligned
