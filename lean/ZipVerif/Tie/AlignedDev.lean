import ZipVerif.Tie.Aligned
import ZipVerif.Tie.WriteAcc
import ZipVerif.Lemmas.AlignedSat
/-
`ZipWriter::start_file_aligned` tied WITHOUT the assumption `CalleeSims` of `Tie/Aligned.lean` (helper t6w5).

  sim_start_file_aligned_at   for every writer value `g` with the writer invariant (`Inv (absW g)`) and the
        u64-fit conditions of the other covered calls (the open entry's `LastFits`, `name.len() < 2^64`, a
        DOS-representable time, no password - `Call.Admissible`), every fault index `fa` and every device `d`
        that satisfy the POSITION BOUND

            PosBound … fa d :  the sink position right after the new entry's local header (= the position
                               `start_file_with_extra_data` returns as the preliminary data start, on this very
                               run of the model) is at most 2^64 - 65540,

        the run of the translated `Gen.ZipWriter.start_file_aligned ext g name o align` on `(fa, d)` either stops
        with the `u64`-position panic `OVF` or has the I/O calls, outcome, value, final device and (through
        `absW`) final writer state of `Model.startFileAligned … (absW g)` (`SimAt absRn`: the statement of
        `Sim` at ONE fault index and device).

WHY A BOUND, AND WHY THIS ONE.  The source computes `data_start + 4`, the pad, `data_start + extra_field.len()`
(`end_extra_data`) and `header_start + 28` in checked `u64`; the model in `Nat`.  65540 = 4 + 65535 + 1 covers the
largest padding record (`za`, 16-bit length, at most 65534 zeros).  On a sink whose position after the header is
within 64 KiB of 2^64 the source panics on an addition where the model goes on - a genuine difference of the
idealisation, not of the code; `Sim` (all devices, value postconditions only) cannot exclude such devices, which
is why `Tie/Aligned.lean` had to assume the callees' ties on an invariant.  The bound is stated on the run, not
on the initial device: `finish_file` of a pending entry may first emit an encoder's output of any length.

HOW.  The first callee is peeled POINTWISE (`SimAt.bind`): on the run `(fa, d)` the translated
`start_file_with_extra_data` agrees with the model's (`sim_start_file_with_extra_data`), so the model's
device-aware postcondition (`Lemmas/AlignedSat.startFileWithExtraData_satH`: the data start IS the device position,
the header start is a position not behind it, byte counter 0, local extra-field mode) holds of the translated
object; with `PosBound` these are VALUE facts (`AlG`), under which the rest - three `write_all`s that only append
to the open entry's extra field (`sim_wr`, exact state from `writeData_alM`), `end_local_start_central_extra_data`
(`sim_el`), `end_extra_data` - is an ordinary `Sim` on every device.  The hypotheses of every callee tie of
`Tie/WriterSM.lean` are DISCHARGED here; the encoder's accept function is arbitrary (`AccOk`; in extra-field mode
the encoder is not reached: `Tie/WriteAcc.sim_write_all_acc`).
-/
set_option linter.unusedSimpArgs false
set_option linter.unusedSectionVars false
set_option linter.unusedVariables false

namespace ZipVerif.Tie.AlignedDev
open ZipVerif ZipVerif.Model ZipVerif.Tie.SpecRecords ZipVerif.Tie.Records ZipVerif.Tie.Parsers
open ZipVerif.Tie.WriterSM ZipVerif.Tie.Aligned

/-! ### `Sim` at one fault index and device -/

/-- the body of `Sim` for one run -/
def SimAt {α α'} (φ : α → α') (P : α → Prop) (X : M α) (Y : M α') (fa : Option Nat) (d : Dev) : Prop :=
  (X fa d).1 = .panic Rs.S.OVF ∨
    (erase (φ <$> X) fa d = erase Y fa d ∧ ∀ a d', X fa d = (.ok a, d') → P a)

theorem SimAt.of_sim {α α'} {φ : α → α'} {P : α → Prop} {X : M α} {Y : M α'} {fa : Option Nat} {d : Dev}
    (h : Sim φ P X Y) : SimAt φ P X Y fa d := h fa d

theorem sim_iff_at {α α'} (φ : α → α') (P : α → Prop) (X : M α) (Y : M α') :
    Sim φ P X Y ↔ ∀ fa d, SimAt φ P X Y fa d := Iff.rfl

/-- peel a first step on THIS run: the continuation is compared on the device the first step left, for the value
both sides returned there -/
theorem SimAt.bind {α1 α1' α α'} {φ1 : α1 → α1'} {P1 : α1 → Prop} {φ : α → α'} {P : α → Prop}
    {X : M α1} {Y : M α1'} {F : α1 → M α} {G : α1' → M α'} {fa : Option Nat} {d : Dev}
    (hX : SimAt φ1 P1 X Y fa d)
    (hF : ∀ a d1, X fa d = (.ok a, d1) → Y fa d = (.ok (φ1 a), d1) → P1 a →
      SimAt φ P (F a) (G (φ1 a)) fa d1) : SimAt φ P (X >>= F) (Y >>= G) fa d := by
  unfold SimAt at hX ⊢
  rcases hxd : X fa d with ⟨o, d'⟩
  rcases hX with h | ⟨h, hp⟩
  · left
    rw [hxd] at h
    simp only at h
    subst h
    simp only [Model.M.bind_apply, hxd]
  · rw [erase, map_apply, hxd] at h
    simp only [erase] at h
    rcases hyd : Y fa d with ⟨o', d''⟩
    rw [hyd] at h
    simp only [Prod.mk.injEq] at h
    obtain ⟨ho, hd⟩ := h
    subst hd
    cases o with
    | ok a =>
      cases o' with
      | ok a' =>
        simp only [eraseOut, Out.ok.injEq] at ho
        subst ho
        rcases hF a d' hxd hyd (hp a d' hxd) with h | ⟨h1, h2⟩
        · left; simp only [Model.M.bind_apply, hxd]; exact h
        · right
          refine ⟨?_, ?_⟩
          · simp only [erase, map_apply, Model.M.bind_apply, hxd, hyd] at h1 ⊢; exact h1
          · intro b db he
            simp only [Model.M.bind_apply, hxd] at he
            exact h2 b db he
      | err e => simp only [eraseOut] at ho; cases ho
      | panic s => simp only [eraseOut] at ho; cases ho
    | err e =>
      cases o' with
      | ok a' => simp only [eraseOut] at ho; cases ho
      | err e' =>
        simp only [eraseOut, Out.err.injEq] at ho
        subst ho
        right
        refine ⟨by simp only [erase, map_apply, Model.M.bind_apply, hxd, hyd], ?_⟩
        intro b db he
        simp only [Model.M.bind_apply, hxd] at he
        cases he
      | panic s => simp only [eraseOut] at ho; cases ho
    | panic s =>
      cases o' with
      | ok a' => simp only [eraseOut] at ho; cases ho
      | err e' => simp only [eraseOut] at ho; cases ho
      | panic s' =>
        right
        refine ⟨by simp only [erase, map_apply, Model.M.bind_apply, hxd, hyd, eraseOut], ?_⟩
        intro b db he
        simp only [Model.M.bind_apply, hxd] at he
        cases he

/-! ### value facts of the translated object, read off the model state -/

/-- the u64-fit hypotheses of `sim_end_extra_data` / `sim_end_local_start_central` -/
def LastOK (g : Gen.ZipWriter) : Prop :=
  ∀ f, g.files.getLast? = some f →
    f.extra_field.length ≤ 9223372036854775807 ∧
    f.data_start.toNat + f.extra_field.length < 18446744073709551616 ∧
    f.header_start.toNat + 28 < 18446744073709551616

theorem lastOK_of_model (g : Gen.ZipWriter) (fm : FileData) (h : (absW g).files.getLast? = some fm)
    (h1 : fm.extraField.length ≤ 9223372036854775807)
    (h2 : fm.dataStart.toNat + fm.extraField.length < 18446744073709551616)
    (h3 : fm.headerStart.toNat + 28 < 18446744073709551616) : LastOK g := by
  intro f hf
  have : (absW g).files.getLast? = some (dataOf f) := by
    show (g.files.map dataOf).getLast? = _
    rw [getLastOpt_map, hf]; rfl
  rw [this] at h
  cases h
  exact ⟨h1, h2, h3⟩

/-- local extra-field mode of the translated object: the model's `AlM` of its abstraction -/
def AlG (g : Gen.ZipWriter) (ds hs : UInt64) (x : Bytes) : Prop := AlM (absW g) ds hs x

theorem alG_lastOK {g : Gen.ZipWriter} {ds hs : UInt64} {x : Bytes} (h : AlG g ds hs x)
    (hx : x.length ≤ 65539) (hds : ds.toNat + 65540 ≤ 18446744073709551616)
    (hhs : hs.toNat + 28 < 18446744073709551616) : LastOK g := by
  obtain ⟨_, _, _, _, _, _, f, hf, h1, h2, h3⟩ := h
  exact lastOK_of_model g f hf (by rw [h2]; omega) (by rw [h1, h2]; omega) (by rw [h3]; exact hhs)

theorem alG_bytes {g : Gen.ZipWriter} {ds hs : UInt64} {x : Bytes} (h : AlG g ds hs x) :
    g.stats.bytes_written.toNat = 0 := h.2.2.2.2.2.1

theorem alG_hinv {g : Gen.ZipWriter} {ds hs : UInt64} {x : Bytes} (h : AlG g ds hs x) :
    g.writing_to_file = true → g.files ≠ [] := by
  intro _ hnil
  obtain ⟨_, _, _, _, _, _, f, hf, _⟩ := h
  have : (absW g).files = [] := by
    show g.files.map dataOf = []
    rw [hnil]; rfl
  rw [this] at hf
  cases hf

/-- `self.write_all(buf)` in local extra-field mode: the tie of `sim_write_all`, its hypotheses discharged, and
the exact state afterwards -/
theorem sim_wr (ext : Rs.S.Ext) (hacc : AccOk ext.accept) (g : Gen.ZipWriter) (ds hs : UInt64)
    (x buf : Bytes) (h : AlG g ds hs x) (hb : buf.length ≤ 65535) :
    Sim absR (fun p => p.1 = .ok () → AlG p.2 ds hs (x ++ buf))
      (Rs.S.run (Rs.S.write_all (Gen.ZipWriter.write ext) (buf.length + 1) g buf)) (writeData buf (absW g)) := by
  obtain ⟨s', e, h'⟩ := writeData_alM h buf
  have hpost : WriterSM.Post (writeData buf (absW g)) (fun r => r = (.ok (), s')) := by
    rw [e]
    intro fa d a d' he
    cases he
    rfl
  have hin : g.inner = .storer none := h.2.2.2.2.1
  refine Sim.mono (Sim.post_of_model (sim_write_all_acc ext hacc g buf (by omega)
    (by have := alG_bytes h; omega) (alG_hinv h)
    (by intro mm l e p f hc _; rw [hin] at hc; cases hc)) hpost) ?_
  intro p hp _
  have h2 : absW p.2 = s' := congrArg Prod.snd hp.2
  show AlM (absW p.2) ds hs (x ++ buf)
  rw [h2]
  exact h'

/-- `end_local_start_central_extra_data` from local extra-field mode: the tie, its hypotheses discharged; the
object it returns satisfies the hypotheses of `end_extra_data` -/
theorem sim_el (ext : Rs.S.Ext) (g : Gen.ZipWriter) (ds hs : UInt64) (x : Bytes) (h : AlG g ds hs x)
    (hx : x.length ≤ 65539) (hds : ds.toNat + 65540 ≤ 18446744073709551616)
    (hhs : hs.toNat + 28 < 18446744073709551616) :
    Sim absRn (fun p => ∀ v, p.1 = .ok v → LastOK p.2)
      (Rs.S.run (Gen.ZipWriter.end_local_start_central_extra_data ext g))
      (endLocalStartCentral ext.toWExt (absW g)) := by
  have hpost : WriterSM.Post (endLocalStartCentral ext.toWExt (absW g))
      (fun r => ∀ v, r.1 = .ok v → ∃ f', r.2.files.getLast? = some f' ∧ f'.extraField = [] ∧ f'.headerStart = hs) :=
    post_of_sat fun fa d => Sat.mono (endLocalStartCentral_satH ext.toWExt h fa d)
      (fun r d' hq v hv => (hq.2 v hv).2)
  refine Sim.mono (Sim.post_of_model (sim_end_local_start_central ext g (alG_lastOK h hx hds hhs)) hpost) ?_
  intro p hp v hv
  obtain ⟨r, g'⟩ := p
  dsimp only at hv
  subst hv
  obtain ⟨f', hf', hx', hh'⟩ := hp.2 v.toNat rfl
  refine lastOK_of_model g' f' hf' (by rw [hx']; simp) ?_ (by rw [hh']; exact hhs)
  rw [hx']
  have := f'.dataStart.toNat_lt
  simp only [List.length_nil]
  omega

/-! ### the tie -/

/-- THE POSITION BOUND: on this run the sink position after the new entry's local header - the value the
model's `startFileWithExtraData` leaves the device at - is at least 65540 below 2^64. -/
def PosBound (ext : WExt) (name : Bytes) (o : FileOptions) (s : WState) (fa : Option Nat) (d : Dev) : Prop :=
  ∀ r d', startFileWithExtraData ext name o s fa d = (.ok r, d') → d'.pos + 65540 ≤ 18446744073709551616

theorem datepart_of_timeOk (t : DateTime) (h : TimeOk t) : t.datepart ≠ none := by
  unfold TimeOk at h
  unfold DateTime.datepart
  rw [if_neg h]
  intro h'; cases h'

set_option hygiene false in
/-- the common tail: `end_extra_data`, then the checked `extra_data_end - data_start` -/
macro "tail_tac'" gX:term "," hL:term : tactic => `(tactic| (
  rw [toM_bind_run (Gen.ZipWriter.end_extra_data ext $gX)]
  refine Sim.bind ((sim_end_extra_data ext $gX $hL).mono (fun _ _ => trivial)) ?_
  intro q _
  obtain ⟨r, gE⟩ := q
  cases r with
  | error e => err_leaf
  | ok x =>
    by_cases hx : x.toNat < ds.toNat
    · have hsub : Rs.Arith.sub x ds = none := sub_none _ _ (by omega)
      ssimp [absRn, Except.map, hsub, hx]
      exact Sim.panic _ _
    · obtain ⟨hs, hsn⟩ := sub_some x ds (by omega)
      ssimp [absRn, Except.map, hs, hx]
      refine Sim.leaf ?_ trivial
      simp only [absRn, Except.map, hsn]))

theorem sim_start_file_aligned_at (ext : Rs.S.Ext) (hacc : AccOk ext.accept) (g : Gen.ZipWriter)
    (hI : Inv (absW g))
    (hf : ∀ f, g.files.getLast? = some f →
      f.extra_field.length ≤ 9223372036854775807 ∧
      f.data_start.toNat + f.extra_field.length < 18446744073709551616 ∧
      f.header_start.toNat + 34 + f.file_name.length < 18446744073709551616)
    (name : Bytes) (hname : name.length < 18446744073709551616) (o : Gen.FileOptions)
    (ho : TimeOk (optOf o).time) (henc : (optOf o).encryptWith = none) (align : UInt16)
    (fa : Option Nat) (d : Dev) (hb : PosBound ext.toWExt name (optOf o) (absW g) fa d) :
    SimAt absRn (fun _ => True) (Rs.S.run (Gen.ZipWriter.start_file_aligned ext g name o align))
      (startFileAligned ext.toWExt name (optOf o) align (absW g)) fa d := by
  have htime : (Tie.DateTime.toModel o.last_modified_time).datepart ≠ none := datepart_of_timeOk _ ho
  unfold Gen.ZipWriter.start_file_aligned startFileAligned
  ssimp []
  rw [toM_bind_run (Gen.ZipWriter.start_file_with_extra_data ext g name o)]
  refine SimAt.bind (sim_start_file_with_extra_data ext g name o hf hname htime fa d) ?_
  intro p d1 hx hy _
  obtain ⟨r, g1⟩ := p
  cases r with
  | error e =>
    apply SimAt.of_sim
    ssimp [absRn, Except.map]
    refine Sim.leaf ?_ trivial
    simp only [absRn, Except.map]
  | ok ds =>
    -- the model's device-aware postcondition, on this run
    have hsat := startFileWithExtraData_satH ext.toWExt name (optOf o) ho henc (absW g) hI fa d
    simp only [Sat, hy] at hsat
    obtain ⟨hI1, hq⟩ := hsat
    obtain ⟨p, hple, hal, hv⟩ := hq ds.toNat rfl
    have hpos := hb _ _ hy
    have hd1 : (UInt64.ofNat d1.pos).toNat = d1.pos := ofNat_toNat_lt _ (by omega)
    have hdsn : ds.toNat = d1.pos := by rw [hv, hd1]
    have hdse : UInt64.ofNat d1.pos = ds := by rw [← UInt64.toNat_inj, hd1, hdsn]
    rw [hdse] at hal
    have hhs : (UInt64.ofNat p).toNat + 28 < 18446744073709551616 := by
      rw [ofNat_toNat_lt _ (by omega)]; omega
    have hdsb : ds.toNat + 65540 ≤ 18446744073709551616 := by omega
    have hds : ds.toNat + 4 < 18446744073709551616 := by omega
    have hG1 : AlG g1 ds (UInt64.ofNat p) [] := hal
    have hL1 : LastOK g1 := alG_lastOK hG1 (by simp) hdsb hhs
    apply SimAt.of_sim
    -- from here on: value facts only, every device
    have ha64 : (Rs.as' UInt64 align).toNat = align.toNat := as_u16_u64_toNat align
    have e1 : (1 : UInt64).toNat = 1 := by decide
    have e0 : (0 : UInt64).toNat = 0 := by decide
    have hgt : decide (Rs.as' UInt64 align > 1) = decide (align.toNat > 1) := by
      simp only [gt_iff_lt, UInt64.lt_iff_toNat_lt, ha64, e1]
    by_cases h1 : align.toNat > 1
    · obtain ⟨hrem, hremn⟩ := rem_some ds (Rs.as' UInt64 align) (by omega)
      rw [ha64] at hremn
      have hne : (ds % Rs.as' UInt64 align != 0) = (ds.toNat % align.toNat != 0) := by
        rw [Bool.eq_iff_iff]
        simp only [bne_iff_ne, ne_eq, ← UInt64.toNat_inj, hremn, e0]
      by_cases h2 : ds.toNat % align.toNat = 0
      · have hne' : (ds.toNat % align.toNat != 0) = false := by simp only [h2, bne_self_eq_false]
        ssimp [absRn, Except.map, hgt, h1, decide_true, hrem, hne, hne', Bool.and_false, Bool.and_true,
          Bool.true_and]
        tail_tac' g1, hL1
      · have hne' : (ds.toNat % align.toNat != 0) = true := by simp only [bne_iff_ne, ne_eq, h2, not_false_eq_true]
        have e4 : (4 : UInt64).toNat = 4 := by decide
        obtain ⟨ha1, ha1n⟩ := add_some ds 4 (by rw [e4]; exact hds)
        rw [e4] at ha1n
        obtain ⟨ha2, ha2n⟩ := rem_some (ds + 4) (Rs.as' UInt64 align) (by omega)
        rw [ha64, ha1n] at ha2n
        have hlt : ((ds + 4) % Rs.as' UInt64 align).toNat < (Rs.as' UInt64 align).toNat := by
          rw [ha2n, ha64]; exact Nat.mod_lt _ (by omega)
        obtain ⟨ha3, ha3n⟩ := sub_some (Rs.as' UInt64 align) ((ds + 4) % Rs.as' UInt64 align) (by omega)
        rw [ha64, ha2n] at ha3n
        obtain ⟨ha4, ha4n⟩ := rem_some (Rs.as' UInt64 align - (ds + 4) % Rs.as' UInt64 align) (Rs.as' UInt64 align)
          (by omega)
        rw [ha64, ha3n] at ha4n
        have hzeros : Rs.vecZeros (Rs.as' UInt64
            ((Rs.as' UInt64 align - (ds + 4) % Rs.as' UInt64 align) % Rs.as' UInt64 align)) =
            List.replicate ((align.toNat - (ds.toNat + 4) % align.toNat) % align.toNat) 0 := by
          have hcast : (Rs.as' UInt64
              ((Rs.as' UInt64 align - (ds + 4) % Rs.as' UInt64 align) % Rs.as' UInt64 align)).toNat =
              (align.toNat - (ds.toNat + 4) % align.toNat) % align.toNat := ha4n
          unfold Rs.vecZeros
          rw [hcast]
        have hpl : (align.toNat - (ds.toNat + 4) % align.toNat) % align.toNat < 65536 := by
          have := Nat.mod_lt (align.toNat - (ds.toNat + 4) % align.toNat) (show align.toNat > 0 by omega)
          have := align.toNat_lt
          omega
        ssimp [absRn, Except.map, hgt, h1, decide_true, hrem, hne, hne', Bool.and_false, Bool.and_true,
          Bool.true_and, ha1, ha2, ha3, ha4, hzeros, u16_of_len]
        -- the padding record: `za`, the 16-bit length, the zeros
        rw [toM_bind_run (Rs.S.write_all (Gen.ZipWriter.write ext) _ g1 _)]
        refine Sim.bind (sim_wr ext hacc g1 ds _ [] [0x7a, 0x61] hG1 (by decide)) ?_
        intro q hI2
        obtain ⟨r, g2⟩ := q
        cases r with
        | error e => err_leaf
        | ok u =>
          have hG2 := hI2 rfl
          ssimp [absR, Except.map]
          rw [toM_bind_run (Rs.S.write_all (Gen.ZipWriter.write ext) _ g2 _)]
          refine Sim.bind (sim_wr ext hacc g2 ds _ _ _ hG2
            (by simp only [le16, List.length_cons, List.length_nil]; omega)) ?_
          intro q hI3
          obtain ⟨r, g3⟩ := q
          cases r with
          | error e => err_leaf
          | ok u =>
            have hG3 := hI3 rfl
            ssimp [absR, Except.map]
            rw [toM_bind_run (Rs.S.write_all (Gen.ZipWriter.write ext) _ g3 _)]
            refine Sim.bind (sim_wr ext hacc g3 ds _ _ _ hG3 (by rw [List.length_replicate]; omega)) ?_
            intro q hI4
            obtain ⟨r, g4⟩ := q
            cases r with
            | error e => err_leaf
            | ok u =>
              have hG4 := hI4 rfl
              ssimp [absR, Except.map]
              rw [toM_bind_run (Gen.ZipWriter.end_local_start_central_extra_data ext g4)]
              refine Sim.bind (sim_el ext g4 ds _ _ hG4
                (by simp only [List.length_append, List.length_nil, List.length_cons, le16,
                      List.length_replicate]; omega) hdsb hhs) ?_
              intro q hI5
              obtain ⟨r, g5⟩ := q
              cases r with
              | error e => err_leaf
              | ok x =>
                have hL5 : LastOK g5 := hI5 x rfl
                obtain ⟨hr5, _⟩ := rem_some x (Rs.as' UInt64 align) (by omega)
                have hb5 := bne0 x (Rs.as' UInt64 align) (by omega)
                rw [ha64] at hb5
                by_cases h5 : x.toNat % align.toNat = 0
                · have hb5' : (x.toNat % align.toNat != 0) = false := by simp only [h5, bne_self_eq_false]
                  ssimp [absRn, Except.map, hr5, hb5, hb5']
                  tail_tac' g5, hL5
                · have hb5' : (x.toNat % align.toNat != 0) = true := by
                    simp only [bne_iff_ne, ne_eq, h5, not_false_eq_true]
                  ssimp [absRn, Except.map, hr5, hb5, hb5']
                  exact Sim.panic _ _
    · -- `align <= 1`: no padding
      have hf' : decide (align.toNat > 1) = false := by simp only [h1, decide_false]
      ssimp [absRn, Except.map, hgt, hf', Bool.false_and]
      tail_tac' g1, hL1

end ZipVerif.Tie.AlignedDev
