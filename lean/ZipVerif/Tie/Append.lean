import ZipVerif.Gen.Append
import ZipVerif.Tie.Parsers
/-
Tie obligations for the append mode of src/write.rs (helper t6w2, `rs2lean/src/t6w2.rs`, vocabulary
`Basic/RsB.lean`).

  tie_strip_zip64    Gen.strip_zip64_extra_field extra = pure (Model.stripZip64 (extra.length + 1) extra)
                     (`extra.len() < 2^64`, a Rust slice): the translated `while rest.len() >= 4 { … break … }`
                     loop - record header by indexing, `u16::from_le_bytes`, the `rest.len() < 4 + len` guard
                     with `break`, `kind != 0x0001`, the copy of `&rest[..4 + len]`, the advance to
                     `&rest[4 + len..]`, the tail appended after the loop - computes the model's function, never
                     panics (indexes in bounds, no overflow, generated fuel adequate) and touches no device.

TRUSTED VOCABULARY (`Basic/RsB.lean`): `x[i]` on a byte slice is `List` lookup with a panic out of bounds;
`u16::from_le_bytes([a, b])` is `mk16 a b`; `Vec::<u8>::with_capacity(n)` is the empty vector (allocation
failure is not modelled); `v.extend_from_slice(x)` is `v ++ x`.
-/
set_option linter.unusedSimpArgs false
set_option linter.unusedVariables false

namespace ZipVerif.Tie.Append
open ZipVerif ZipVerif.Model ZipVerif.Tie.Parsers

/-! ### `strip_zip64_extra_field` -/

/-- how the translated function ends after its loop -/
def stripEnd (t : Rs.LoopEnd (Bytes × Bytes) Bytes) : M Bytes :=
  match t with
  | .ret r => pure r
  | .done (o, r) => pure (Rs.B.extend o r)

theorem strip_short (n : Nat) (out rest : Bytes) (h : rest.length < 4) :
    Rs.R.whileLoop Gen.strip_zip64_extra_field.loop1_cond Gen.strip_zip64_extra_field.loop1_body (n + 1)
      (out, rest) = pure (.done (out, rest)) := by
  have e4 : (4 : UInt64).toNat = 4 := by decide
  have hl : (Rs.len rest).toNat = rest.length := by
    simp only [Rs.len, UInt64.toNat_ofNat']; omega
  have hc : decide (Rs.len rest ≥ (4 : UInt64)) = false := by
    simp only [ge_iff_le, UInt64.le_iff_toNat_le, hl, e4, decide_eq_false_iff_not]; omega
  rw [R.whileLoop_succ]
  simp only [Gen.strip_zip64_extra_field.loop1_cond, hc, pure_bind, Bool.false_eq_true, ↓reduceIte]

theorem strip_loop : ∀ (n k : Nat) (out rest : Bytes), rest.length < 18446744073709551616 →
    1 ≤ n → rest.length ≤ n + 2 → rest.length < k →
    Rs.R.whileLoop Gen.strip_zip64_extra_field.loop1_cond Gen.strip_zip64_extra_field.loop1_body n
      (out, rest) >>= stripEnd = pure (out ++ stripZip64 k rest) := by
  intro n
  induction n with
  | zero => intro k out rest _ h1; omega
  | succ m ih =>
    intro k out rest hlen _ hn hk
    obtain ⟨k', rfl⟩ : ∃ k', k = k' + 1 := ⟨k - 1, by omega⟩
    by_cases h4 : rest.length < 4
    · rw [strip_short m out rest h4, pure_bind]
      simp only [stripEnd, Rs.B.extend]
      rw [stripZip64, if_pos h4]
    · match rest, h4, hlen, hn, hk with
      | a :: b :: c :: d :: r2, h4, hlen, hn, hk =>
        simp only [List.length_cons] at hlen hn hk
        have e4 : (4 : UInt64).toNat = 4 := by decide
        have e0 : (0 : UInt64).toNat = 0 := by decide
        have e1 : (1 : UInt64).toNat = 1 := by decide
        have e2 : (2 : UInt64).toNat = 2 := by decide
        have e3 : (3 : UInt64).toNat = 3 := by decide
        have hl : (Rs.len (a :: b :: c :: d :: r2)).toNat = r2.length + 4 := by
          simp only [Rs.len, UInt64.toNat_ofNat', List.length_cons]; omega
        have hc : decide (Rs.len (a :: b :: c :: d :: r2) ≥ (4 : UInt64)) = true := by
          simp only [ge_iff_le, UInt64.le_iff_toNat_le, hl, e4, decide_eq_true_eq]; omega
        have hL : (Rs.as' UInt64 (mk16 c d)).toNat = (mk16 c d).toNat := as_u16_u64_toNat _
        have hL16 : (mk16 c d).toNat < 65536 := UInt16.toNat_lt _
        obtain ⟨hadd, haddn⟩ := add_some (4 : UInt64) (Rs.as' UInt64 (mk16 c d)) (by rw [e4, hL]; omega)
        rw [e4, hL] at haddn
        rw [R.whileLoop_succ]
        simp only [Gen.strip_zip64_extra_field.loop1_cond, hc, pure_bind, ↓reduceIte,
          Gen.strip_zip64_extra_field.loop1_body, Rs.B.byteAt, e0, e1, e2, e3, List.getElem?_cons_zero,
          List.getElem?_cons_succ, Rs.R.lift, Rs.B.u16_from_le, hadd, bind_assoc]
        have hm : stripZip64 (k' + 1) (a :: b :: c :: d :: r2) =
            if r2.length < (mk16 c d).toNat then a :: b :: c :: d :: r2
            else if (mk16 a b != (1 : UInt16)) = true then
              (a :: b :: c :: d :: r2).take (4 + (mk16 c d).toNat) ++ stripZip64 k' (r2.drop (mk16 c d).toNat)
            else stripZip64 k' (r2.drop (mk16 c d).toNat) := by
          have h4' : ¬ (r2.length + 1 + 1 + 1 + 1 < 4) := by omega
          simp only [stripZip64, rd16, List.length_cons, h4', ↓reduceIte]
        rw [hm]
        by_cases hshort : r2.length < (mk16 c d).toNat
        · -- the record is cut off: `break`, the tail is kept
          have hlt : decide (Rs.len (a :: b :: c :: d :: r2) < (4 : UInt64) + Rs.as' UInt64 (mk16 c d)) = true := by
            simp only [UInt64.lt_iff_toNat_lt, hl, haddn, decide_eq_true_eq]; omega
          simp only [hlt, ↓reduceIte, pure_bind, stripEnd, Rs.B.extend, if_pos hshort]
        · have hlt : decide (Rs.len (a :: b :: c :: d :: r2) < (4 : UInt64) + Rs.as' UInt64 (mk16 c d)) = false := by
            simp only [UInt64.lt_iff_toNat_lt, hl, haddn, decide_eq_false_iff_not]; omega
          have hto : Rs.sliceTo (a :: b :: c :: d :: r2) ((4 : UInt64) + Rs.as' UInt64 (mk16 c d)) =
              some ((a :: b :: c :: d :: r2).take (4 + (mk16 c d).toNat)) := by
            simp only [Rs.sliceTo, haddn, List.length_cons]; rw [if_pos (by omega)]
          have hfrom : Rs.sliceFrom (a :: b :: c :: d :: r2) ((4 : UInt64) + Rs.as' UInt64 (mk16 c d)) =
              some (r2.drop (mk16 c d).toNat) := by
            simp only [Rs.sliceFrom, haddn, List.length_cons]; rw [if_pos (by omega)]
            have : 4 + (mk16 c d).toNat = (mk16 c d).toNat + 1 + 1 + 1 + 1 := by omega
            rw [this]; rfl
          have hrec := fun o => ih k' o (r2.drop (mk16 c d).toNat)
            (by rw [List.length_drop]; omega)
            (by omega) (by rw [List.length_drop]; omega) (by rw [List.length_drop]; omega)
          simp only [hlt, Bool.false_eq_true, ↓reduceIte, pure_bind, hto, hfrom, if_neg hshort, bind_assoc]
          by_cases hk1 : (mk16 a b != (1 : UInt16)) = true
          · simp only [hk1, ↓reduceIte, pure_bind, Rs.B.extend, bind_assoc]
            rw [hrec, List.append_assoc]
          · simp only [hk1, Bool.false_eq_true, ↓reduceIte, pure_bind, bind_assoc]
            rw [hrec]
      | [], h4, _, _, _ => simp at h4
      | [_], h4, _, _, _ => simp at h4
      | [_, _], h4, _, _, _ => simp at h4
      | [_, _, _], h4, _, _, _ => simp at h4

/-- **`strip_zip64_extra_field`** is the model's `stripZip64` with the fuel `new_append` gives it; no panic,
no device operation. -/
theorem tie_strip_zip64 (extra : Bytes) (h : extra.length < 18446744073709551616) :
    Gen.strip_zip64_extra_field extra = pure (stripZip64 (extra.length + 1) extra) := by
  have e4 : (4 : UInt64).toNat = 4 := by decide
  have hl : (Rs.len extra).toNat = extra.length := by
    simp only [Rs.len, UInt64.toNat_ofNat']; omega
  have := strip_loop ((Rs.len extra).toNat - (4 : UInt64).toNat + 2) (extra.length + 1) [] extra h
    (by omega) (by rw [hl, e4]; omega) (by omega)
  unfold Gen.strip_zip64_extra_field
  simp only [Rs.B.with_capacity]
  rw [List.nil_append] at this
  rw [← this]
  refine bind_congr fun t => ?_
  cases t with
  | ret r => rfl
  | done s => rfl

end ZipVerif.Tie.Append
