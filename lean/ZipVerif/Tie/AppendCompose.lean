import ZipVerif.Tie.AppendOpen
import ZipVerif.Tie.WriterCompose
import ZipVerif.Props.C11
/-
SCRIPTS THAT START FROM `ZipWriter::new_append` (helper t6w4).

`Tie/WriterCompose.lean` (`grun_sim`) composes the step-wise ties of the translated writer methods along a call
list from EVERY start object `g` with `Inv (absW g)`; `Tie/AppendOpen.lean` (`tie_new_append`) proves the
translated `new_append` equal to `Model.newAppend` through `absW`; `Props/C11.lean` (`append_establishes_inv`)
proves that every state `Model.newAppend` returns satisfies `Inv`.  Here the three are put together:

  inv_new_append      every object the TRANSLATED `new_append` returns satisfies the writer invariant (through
                      `absW`), on every device below 2^64 bytes and for every fault index;
  append_grun_sim     open for append with the translated `new_append`, then run any list of covered, admissible
                      calls on the translated methods, ONE fault index for the whole scenario: either the run
                      stops with the u64-position panic `OVF`, or `new_append` returned the model's state and the
                      per-call outcomes, the final object and the final device are those of `Props.C12.runCalls`
                      from that state - so C02 / C11 / C13's append theorems (stated about `newAppend` followed by
                      `runCalls`) speak about the run of the translated code.

Hypotheses: those of the two ties - `NamesFit` (a decoded name's length fits `usize`), the archive is shorter
than 2^64 bytes, `AccOk ext.accept` (helper t6w5: no longer `ext.accept b = b.length`), admissible calls, and the `Nat`/`u64` side conditions `FitsRun` along
the generated run (re-assumed before every call, as in `grun_sim`).
-/
set_option linter.unusedVariables false

namespace ZipVerif.Tie.AppendCompose
open ZipVerif ZipVerif.Model ZipVerif.Tie.Records ZipVerif.Tie.WriterSM ZipVerif.Tie.WriterCompose
open ZipVerif.Tie.AppendOpen
open ZipVerif.Props.C12 (Call step runCalls)

/-- what the translated `new_append` returns is, through `absW`, what the model's `newAppend` returns -/
theorem new_append_state (hn : NamesFit) (fa : Option Nat) (d : Dev) (hd : d.buf.length < 2 ^ 64)
    (g : Gen.ZipWriter) (d' : Dev) (h : Gen.ZipWriter.new_append fa d = (.ok g, d')) :
    Model.newAppend fa d = (.ok (absW g), d') := by
  have t := tie_new_append hn fa d hd
  rw [map_apply, h] at t
  exact t.symm

/-- **`new_append` establishes the writer invariant** - for the TRANSLATED function -/
theorem inv_new_append (hn : NamesFit) (fa : Option Nat) (d : Dev) (hd : d.buf.length < 2 ^ 64)
    (g : Gen.ZipWriter) (d' : Dev) (h : Gen.ZipWriter.new_append fa d = (.ok g, d')) :
    Inv (absW g) :=
  (Props.C11.append_establishes_inv fa d).2.2 _ _ (new_append_state hn fa d hd g d' h)

/-- the translated `new_append` does not panic (on an archive below 2^64 bytes) -/
theorem new_append_no_panic (hn : NamesFit) (fa : Option Nat) (d : Dev) (hd : d.buf.length < 2 ^ 64) :
    ∀ s, (Gen.ZipWriter.new_append fa d).1 ≠ .panic s := by
  intro s hp
  have t := tie_new_append hn fa d hd
  rw [map_apply, hp] at t
  have := (Props.C11.append_establishes_inv fa d).1
  rw [← t] at this
  exact this rfl

/-- **Append scenario, script level.** -/
theorem append_grun_sim (ext : Rs.S.Ext) (hacc : AccOk ext.accept) (calls : List GCall)
    (hadm : ∀ c ∈ calls, (toCall c).Admissible) (hn : NamesFit)
    (fa : Option Nat) (d : Dev) (hd : d.buf.length < 2 ^ 64)
    (g : Gen.ZipWriter) (d1 : Dev) (h : Gen.ZipWriter.new_append fa d = (.ok g, d1))
    (hfits : FitsRun ext calls g fa d1) :
    Model.newAppend fa d = (.ok (absW g), d1) ∧
    (Out.panic Rs.S.OVF ∈ (grun ext calls g fa d1).1 ∨
      ((grun ext calls g fa d1).1.map eraseOut =
          (runCalls ext.toWExt (calls.map toCall) (absW g) fa d1).1.map eraseOut ∧
        absW (grun ext calls g fa d1).2.1 = (runCalls ext.toWExt (calls.map toCall) (absW g) fa d1).2.1 ∧
        (grun ext calls g fa d1).2.2 = (runCalls ext.toWExt (calls.map toCall) (absW g) fa d1).2.2)) :=
  ⟨new_append_state hn fa d hd g d1 h,
   grun_sim ext hacc calls hadm g (inv_new_append hn fa d hd g d1 h) fa d1 hfits⟩

end ZipVerif.Tie.AppendCompose
