import ZipVerif.Tie.Append
import ZipVerif.Tie.WriterSM
import ZipVerif.Tie.ReaderGlue
import ZipVerif.Lemmas.ReaderBounds
/-
Tie obligation for `ZipWriter::new_append` (src/write.rs; helper t6w2, item kind `afn` of
`rs2lean/src/t6w2.rs`: a constructor `fn f(mut readwriter: A) -> ZipResult<ZipWriter<A>>`, `A: Read + Write +
Seek`, translated in READ mode over the owned device; the value is the generated structure of the
STATE-MACHINE mode).

  tie_new_append   (absW <$> Gen.ZipWriter.new_append) fa d = Model.newAppend fa d
                   for every fault index and every device whose length fits `u64`: same I/O calls in the same
                   order, same outcome class and error, same final device, and the writer value corresponds
                   (`Tie.WriterSM.absW`).  Covered statement by statement: `find_and_parse`, the multi-disk
                   check, `get_directory_counts`, the guard `directory_start > cde_start_pos` (D16), the seek to
                   the directory with its error mapped to `InvalidArchive`, the iterator chain
                   `(0..n).map(|_| central_header_to_zip_file(..).and_then(|mut file| { name check (A6);
                   file.extra_field = strip_zip64_extra_field(..); Ok(file) })).collect::<Result<Vec<_>, _>>()?`
                   against the model's `newAppend.loop` (the first failing record ends the iteration), the
                   repositioning seek (reported since fix 1f81f8a: `…seek(..)?`; the translator accepts the older `let _ = …` form too), and the writer that is built (`Storer(Unencrypted)`,
                   the records, `Default` statistics, the three flags off, the footer's comment,
                   `writing_raw = true`).

Hypothesis (`NamesFit`): every name the central-header parser returns has a length that fits `usize` - it is
a Rust `String`; the model compares `Nat` lengths with 65535, the source `file_name.len()`.

TRUSTED VOCABULARY added here (`Basic/RsB.lean`): `(lo..hi).map(closure).collect::<Result<Vec<_>, _>>()?`
runs the closure for `lo, lo+1, …` in order and stops at the first `Err`, which becomes the error of the
expression (`Rs.B.collectRange`; the `Result` adapter reserves nothing in advance); inside the closure
`R.map(|x| v)` / `R.and_then(|x| r)` continue with the `Ok` value and `return Err(e)` is the closure's failing
value; `GenericZipWriter::Storer(MaybeEncrypted::Unencrypted(readwriter))` is `Inner.storer none` with the
device of the monad as the sink; `Default::default()` of a structure that derives `Default` is the field-wise
default (`0`, `false`, empty vector, `crc32fast::Hasher::default() = Hasher::new()`); `let _ = device.op(..)`
performs the operation and drops its `Result`.
-/
set_option linter.unusedSimpArgs false
set_option linter.unusedVariables false

namespace ZipVerif.Tie.AppendOpen
open ZipVerif ZipVerif.Model ZipVerif.Tie.SpecRecords ZipVerif.Tie.Records ZipVerif.Tie.Parsers
open ZipVerif.Tie.ReaderGlue ZipVerif.Tie.Append ZipVerif.Tie.WriterSM

/-- Every decoded name is a Rust `String`: its length fits `usize`. -/
def NamesFit : Prop := ∀ (ao : Nat) (fa : Option Nat) (d : Dev) (f : FileData) (d' : Dev),
  centralHeader ao fa d = (.ok f, d') → f.fileName.length < 18446744073709551616

/-- what the model does with one central record -/
def modelStep (ao : Nat) : M FileData :=
  centralHeader ao >>= fun f =>
    if f.fileName.length > 65535 then M.throw .unsupportedArchive else pure (appendRecord f)

theorem loop_succ (ao n : Nat) :
    newAppend.loop ao (n + 1) = (modelStep ao >>= fun r => newAppend.loop ao n >>= fun rest => pure (r :: rest)) := by
  rw [newAppend.loop, modelStep]
  simp only [bind_assoc]
  refine bind_congr fun f => ?_
  split
  · rfl
  · simp only [pure_bind]

/-- The iterator chain: `n` runs of a closure that behaves like the model's step. -/
theorem collect_loop (ao : Nat) (body : UInt64 → M Gen.ZipFileData)
    (hb : ∀ i fa d, (dataOf <$> body i) fa d = modelStep ao fa d) :
    ∀ (n : Nat) (i : UInt64), (List.map dataOf) <$> Rs.B.collectN body n i = newAppend.loop ao n := by
  intro n
  induction n with
  | zero => intro i; simp only [Rs.B.collectN, newAppend.loop, map_pure, List.map_nil]
  | succ n ih =>
    intro i
    apply M.ext; intro fa d
    rw [loop_succ, ← ih (i + 1)]
    have : (List.map dataOf <$> Rs.B.collectN body (n + 1) i) =
        ((dataOf <$> body i) >>= fun r =>
          (List.map dataOf <$> Rs.B.collectN body n (i + 1)) >>= fun rest => pure (r :: rest)) := by
      simp only [Rs.B.collectN, map_eq_pure_bind, bind_assoc, pure_bind, List.map_cons]
    rw [this]
    exact M.bind_congr_left_at (hb i fa d)

theorem name_gt (name : Bytes) (h : name.length < 18446744073709551616) :
    decide (Rs.len name > Rs.as' UInt64 (65535 : UInt16)) = decide (name.length > 65535) := by
  have e : (Rs.as' UInt64 (65535 : UInt16)).toNat = 65535 := by decide
  have hl : (Rs.len name).toNat = name.length := by
    simp only [Rs.len, UInt64.toNat_ofNat']; omega
  simp only [gt_iff_lt, UInt64.lt_iff_toNat_lt, e, hl]

/-- The closure of `new_append`: one central record. -/
theorem closure_step (hn : NamesFit) (ao : UInt64) (fa : Option Nat) (d : Dev) :
    (dataOf <$> (do
      let t5 : Gen.ZipFileData ← Gen.central_header_to_zip_file ao
      let mut file : Gen.ZipFileData := t5
      (if (decide ((Rs.len file.file_name) > (Rs.as' UInt64 (65535 : UInt16)))) then
        Rs.R.err Rs.ZipErr.UnsupportedArchive else pure ())
      let t6 : Bytes ← Gen.strip_zip64_extra_field file.extra_field
      file := { file with extra_field := t6 }
      pure file : M Gen.ZipFileData)) fa d = modelStep ao.toNat fa d := by
  -- the continuation reads the record through `dataOf` only
  let K : FileData → M FileData := fun f =>
    (if decide (Rs.len f.fileName > Rs.as' UInt64 (65535 : UInt16)) then
        (Rs.R.err Rs.ZipErr.UnsupportedArchive : M Unit) else pure ()) >>= fun _ =>
      Gen.strip_zip64_extra_field f.extraField >>= fun t6 => pure { f with extraField := t6 }
  have h1 : (dataOf <$> (do
      let t5 : Gen.ZipFileData ← Gen.central_header_to_zip_file ao
      let mut file : Gen.ZipFileData := t5
      (if (decide ((Rs.len file.file_name) > (Rs.as' UInt64 (65535 : UInt16)))) then
        Rs.R.err Rs.ZipErr.UnsupportedArchive else pure ())
      let t6 : Bytes ← Gen.strip_zip64_extra_field file.extra_field
      file := { file with extra_field := t6 }
      pure file : M Gen.ZipFileData)) = ((dataOf <$> Gen.central_header_to_zip_file ao) >>= K) := by
    simp only [map_eq_pure_bind, bind_assoc, pure_bind, K]
    rfl
  rw [h1, tie_central_header, modelStep]
  apply M.bind_congr_at
  intro f d' hf
  have hname := hn _ _ _ _ _ hf
  have hx : f.extraField.length ≤ 65535 := by
    have hp := centralHeader_raw_len ao.toNat
    unfold PostV at hp
    exact (hp _ _ _ _ hf).2
  simp only [K]
  rw [name_gt _ hname, tie_strip_zip64 _ (by omega)]
  by_cases hc : f.fileName.length > 65535
  · simp only [hc, decide_true, ↓reduceIte, Rs.R.err, M.throw_bind, Rs.zerr]
  · simp only [hc, decide_false, Bool.false_eq_true, ↓reduceIte, pure_bind, appendRecord]

/-- **`ZipWriter::new_append`** -/
theorem tie_new_append (hn : NamesFit) (fa : Option Nat) (d : Dev) (hd : d.buf.length < 2 ^ 64) :
    (absW <$> Gen.ZipWriter.new_append) fa d = Model.newAppend fa d := by
  have h1 := tie_eocd_find_and_parse fa d hd
  have hc := findAndParseEocd_comment_len
  unfold Gen.ZipWriter.new_append Model.newAppend
  msimp
  rw [M.bind_apply, M.bind_apply, ← h1]
  simp only [map_eq_pure_bind, M.bind_apply, M.pure_apply]
  rcases hG : Gen.CentralDirectoryEnd.find_and_parse fa d with ⟨o, d1⟩
  cases o with
  | err e => rfl
  | panic s => rfl
  | ok r =>
    obtain ⟨footer, cde⟩ := r
    simp only []
    have hmodel : findAndParseEocd fa d = (.ok (eocdRes (footer, cde)), d1) := by
      rw [← h1]
      simp only [map_eq_pure_bind, M.bind_apply, hG, M.pure_apply]
    have hb : footer.zip_file_comment.length ≤ 65535 := hc _ _ _ _ hmodel
    have hlen : footer.zip_file_comment.length < 2 ^ 63 - 42 := by omega
    refine congrFun (congrFun ?_ fa) d1
    have hcond : ((eocdRes (footer, cde)).fst.diskNumber != (eocdRes (footer, cde)).fst.diskWithCd) =
        (footer.disk_number != footer.disk_with_central_directory) := rfl
    rw [hcond]
    by_cases hmd : (footer.disk_number != footer.disk_with_central_directory) = true
    · rw [if_pos hmd, if_pos hmd]
    · rw [if_neg hmd, if_neg hmd]
      have he1 : (eocdRes (footer, cde)).fst = eocdOf footer := rfl
      have he2 : (eocdRes (footer, cde)).snd = cde.toNat := rfl
      have he3 : (eocdOf footer).comment = footer.zip_file_comment := rfl
      rw [he1, he2, he3, ← tie_get_directory_counts footer cde hlen]
      msimp [M.attempt_map]
      refine bind_congr fun x => ?_
      have hds : (countsRes x).2.fst = x.2.fst.toNat := rfl
      have hao : (countsRes x).fst = x.fst.toNat := rfl
      have hnf : (countsRes x).2.snd = x.2.snd.toNat := rfl
      rw [hds, hao, hnf]
      have hgt : decide (x.2.fst > cde) = decide (x.2.fst.toNat > cde.toNat) := by
        simp only [gt_iff_lt, UInt64.lt_iff_toNat_lt]
      rw [hgt]
      by_cases hdir : x.2.fst.toNat > cde.toNat
      · simp only [hdir, decide_true, ↓reduceIte, M.throw_bind]
      · simp only [hdir, decide_false, Bool.false_eq_true, ↓reduceIte, pure_bind]
        refine bind_congr fun r => ?_
        cases r with
        | error e => rfl
        | ok p =>
          simp only [Except.map, Except.isOk, Except.toBool, Bool.not_true, Bool.false_eq_true, ↓reduceIte,
            pure_bind]
          have e0 : (0 : UInt64).toNat = 0 := by decide
          have hloop := collect_loop x.fst.toNat _ (fun i fa d => closure_step hn x.fst fa d)
            (x.2.snd.toNat - (0 : UInt64).toNat) 0
          simp only [Rs.B.collectRange]
          rw [e0, Nat.sub_zero] at hloop ⊢
          simp only [bind_assoc, pure_bind, map_eq_pure_bind, M.throw_bind, M.panic_bind, M.ite_bind,
            Rs.R.err, Rs.R.lift, Rs.zerr] at hloop
          rw [← hloop]
          simp only [map_eq_pure_bind, bind_assoc, pure_bind]
          refine bind_congr fun files => bind_congr fun _ => ?_
          rfl

end ZipVerif.Tie.AppendOpen
