import ZipVerif.Gen.Cp437
import ZipVerif.Lemmas.Text
/-
Tie obligations for `cp437::to_char`: the function regenerated from /repo/src/cp437.rs on this run
(`Gen.to_char : UInt8 → Option Char`, `none` = the `from_u32(..).unwrap()` panic) equals, for all 256
bytes, (1) the reference table generated from CPython's cp437 codec and (2) the hand-written model
the property theorems are stated over.  Both are kernel-checked evaluations of the regenerated
definition over the whole finite domain (`decide +kernel`, no `native_decide`), lifted to `∀ b`.
Any edit of a table arm, of the ASCII range arm or of the final `from_u32` breaks these.
-/

namespace ZipVerif.Tie.Cp437
open ZipVerif ZipVerif.Model ZipVerif.Spec

/-- The regenerated `to_char` returns the reference character (and never panics), for every byte. -/
theorem tie_to_char_ref (b : UInt8) : Gen.to_char b = some (cp437Ref b) :=
  table_lift (f := Gen.to_char) (g := some) cp437RefTable_size (by decide +kernel) b

/-- The regenerated `to_char` is the model's `toChar` (as `Option`: `none` = panic). -/
theorem tie_to_char_model (b : UInt8) : Gen.to_char b = Rs.charFromU32 (toCharU32 b) := by
  rw [tie_to_char_ref, toCharU32_eq_ref, charFromU32_val]

/-- Same statement against the model's outcome type. -/
theorem tie_to_char_out (b : UInt8) :
    toChar b = match Gen.to_char b with
      | some c => .ok c
      | none => .panic "cp437::to_char: char::from_u32(output).unwrap()" := by
  rw [tie_to_char_model]; rfl

end ZipVerif.Tie.Cp437
