import ZipVerif.Gen.Types
import ZipVerif.Model.DateTime
/-
Tie obligations for `DateTime`: the functions regenerated from /repo/src/types.rs on this run
(`Gen.DateTime.*`) equal the hand-written model the property theorems are stated over.
A source edit that changes a mask, a shift, a comparison or a range breaks one of these.
-/

namespace ZipVerif.Tie.DateTime
open ZipVerif ZipVerif.Model

def toModel (x : Gen.DateTime) : DateTime := ⟨x.year, x.month, x.day, x.hour, x.minute, x.second⟩
def ofModel (x : DateTime) : Gen.DateTime := ⟨x.year, x.month, x.day, x.hour, x.minute, x.second⟩

theorem tie_from_msdos (d t : UInt16) :
    (Gen.DateTime.from_msdos d t).map toModel = some (DateTime.fromMsdos d t) := by
  have h : ((d &&& 0b1111111000000000) >>> 9).toNat + (1980 : UInt16).toNat < 65536 := by
    have e : (1980 : UInt16).toNat = 1980 := by decide
    have : ((d &&& 0b1111111000000000) >>> 9).toNat ≤ 127 := by
      have h1 : ((d &&& 0b1111111000000000) >>> 9).toNat = (d.toNat &&& 65024) >>> 9 := by
        simp only [UInt16.toNat_shiftRight, UInt16.toNat_and]; rfl
      have h2 : (d.toNat &&& 65024) ≤ 65024 := Nat.and_le_right
      rw [h1, Nat.shiftRight_eq_div_pow]; omega
    omega
  simp only [Gen.DateTime.from_msdos, Rs.Arith.shl, Rs.Arith.shr, Rs.Arith.add, Rs.as', Rs.As.cast,
    bind, Option.bind, pure, Option.map, toModel, DateTime.fromMsdos]
  simp only [show (1 : Nat) < 16 from by decide, show (5 : Nat) < 16 from by decide,
    show (11 : Nat) < 16 from by decide, show (9 : Nat) < 16 from by decide, if_true]
  have h' : ((d &&& 65024) >>> UInt16.ofNat 9).toNat + UInt16.toNat 1980 < 65536 := h
  rw [if_pos h']
  rfl

theorem tie_timepart (x : Gen.DateTime) :
    Gen.DateTime.timepart x = some (DateTime.timepart (toModel x)) := by
  simp only [Gen.DateTime.timepart, Rs.Arith.shl, Rs.Arith.shr, Rs.as', Rs.As.cast,
    bind, Option.bind, pure, toModel, DateTime.timepart]
  simp only [show (1 : Nat) < 16 from by decide, show (5 : Nat) < 16 from by decide,
    show (11 : Nat) < 16 from by decide, if_true]
  rfl

theorem tie_datepart (x : Gen.DateTime) :
    Gen.DateTime.datepart x = DateTime.datepart (toModel x) := by
  obtain ⟨year, month, day, hour, minute, second⟩ := x
  have e : (1980 : UInt16).toNat = 1980 := by decide
  simp only [Gen.DateTime.datepart, Rs.Arith.shl, Rs.Arith.sub, Rs.as', Rs.As.cast,
    bind, Option.bind, pure, toModel, DateTime.datepart]
  simp only [show (5 : Nat) < 16 from by decide, show (9 : Nat) < 16 from by decide, if_true]
  by_cases h : year < 1980
  · have h' : ¬ (1980 : UInt16).toNat ≤ year.toNat := by
      rw [UInt16.lt_iff_toNat_lt] at h; omega
    rw [if_neg h']
    exact (if_pos h).symm
  · have h' : (1980 : UInt16).toNat ≤ year.toNat := by
      rw [UInt16.lt_iff_toNat_lt] at h; omega
    rw [if_pos h']
    exact (if_neg h).symm

theorem tie_from_date_and_time (y : UInt16) (mo d h mi s : UInt8) :
    Gen.DateTime.from_date_and_time y mo d h mi s =
      some (match DateTime.fromDateAndTime y mo d h mi s with
        | some x => Except.ok (ofModel x)
        | none => Except.error ()) := by
  simp only [Gen.DateTime.from_date_and_time, DateTime.fromDateAndTime, bind, Option.bind, pure]
  by_cases hc : 1980 ≤ y ∧ y ≤ 2107 ∧ 1 ≤ mo ∧ mo ≤ 12 ∧ 1 ≤ d ∧ d ≤ 31 ∧ h ≤ 23 ∧ mi ≤ 59 ∧ s ≤ 60
  · rw [if_pos hc]
    obtain ⟨h1, h2, h3, h4, h5, h6, h7, h8, h9⟩ := hc
    simp only [h1, h2, h3, h4, h5, h6, h7, h8, h9, decide_true, Bool.and_self, if_true]
    rfl
  · rw [if_neg hc]
    have : ((((((decide (1980 ≤ y) && decide (y ≤ 2107)) && (decide (1 ≤ mo) && decide (mo ≤ 12))) &&
        (decide (1 ≤ d) && decide (d ≤ 31))) && decide (h ≤ 23)) && decide (mi ≤ 59)) &&
        decide (s ≤ 60)) = false := by
      rw [Bool.eq_false_iff]
      intro hb
      simp only [Bool.and_eq_true, decide_eq_true_eq] at hb
      exact hc ⟨hb.1.1.1.1.1.1, hb.1.1.1.1.1.2, hb.1.1.1.1.2.1, hb.1.1.1.1.2.2, hb.1.1.1.2.1,
        hb.1.1.1.2.2, hb.1.1.2, hb.1.2, hb.2⟩
    simp only [this]
    rfl

end ZipVerif.Tie.DateTime
