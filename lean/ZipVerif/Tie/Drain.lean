import ZipVerif.Gen.ReadHandle
import ZipVerif.Model.Reader
/-
Tie obligations for the drain of an entry handle: `ZipFile::drain_stream`, `Drop for ZipFile`, and the `into_inner`
chains of `ZipFileReader` / `CryptoReader` (src/read.rs; translator tier T6, helper t6r3, HANDLE mode
`rs2lean/src/t6r3.rs`, vocabulary `Basic/RsH.lean`).  The model side is the SINGLE drain definition of
`Model/Reader.lean`: `takeLoop` / `drainE` (error returned) / `drain` (error swallowed), inside `M.retried` (std-style
retry of `ErrorKind::Interrupted`).

  tie_crypto_into_inner, tie_reader_into_inner
      the unwrapping ORDER: `Gen.CryptoReader.into_inner c = some (cryptoTake c)`, `Gen.ZipFileReader.into_inner r =
      readerTake r` - the `Take` below the CRC layer, the decoder (zstd: `finish()` then the `BufReader`) and the
      decryption layer; `NoReader` panics.
  tie_drain_stream
      `Gen.ZipFile.drain_stream fuel z = drainModel z` for every handle `z` and every `fuel ≥ limit + 2`:
      a handle that BORROWS its entry (a `ZipArchive` entry) is left alone, `Ok`; an owned one: the innermost `Take` is
      taken out - of the pending decryption layer when no reader has been built (`crypto_reader.take()`), else of the
      reader (`mem::replace(.., NoReader)`) -, "already drained" (`NoReader` and no pending layer) is `Ok` without I/O;
      then `attempt (retried (drainE limit))`: reads of `min limit 65536` bytes until the limit is used up or the device
      reports end-of-file, a read error RETURNED, `Interrupted` retried (one more call, nothing else differs).  An
      equation between `M`-computations: every device, every fault index, every error kind.
  loop_retried
      the heart of it: the translated `loop { match reader.read(&mut buffer) { Ok(0) => break, Ok(_) => (),
      Err(ref e) if e.kind() == Interrupted => (), Err(e) => return Err(e) } }` over std's `Take::read` equals
      `retried (takeLoop 65536 limit limit)`.
  tie_drop
      `Gen.ZipFile.drop fuel z = dropModel z`: the same with the result discarded = `retried (drain limit)`
      (`discard_drainE`), the drain `Model.streamEntryCI` / `visitFile` use.
  drain_stream_drained, innerTake_drained
      after a drain nothing is left: the second `drain_stream` that `Drop` issues does no I/O.

Trusted vocabulary (`Basic/RsH.lean`): std's `Take::read`, `Option::take`, `mem::replace`, `[v; n]`; `into_inner` /
`finish` of the external decoders and of the validated decryption layers return the wrapped reader; the loop fuel is
a parameter (out of fuel = panic), the theorems hold for every fuel above the stated bound.
-/
set_option linter.unusedSimpArgs false
set_option linter.unusedVariables false
open ZipVerif ZipVerif.Model

namespace ZipVerif.Tie.Drain

/-! ### The I/O monad, unfolded (local copies: this module imports no `Lemmas/` file, so that it can be audited
together with every property's modules) -/

theorem M.bind_apply {α β} (x : M α) (f : α → M β) (fa : Option Nat) (d : Dev) :
    (x >>= f) fa d = match x fa d with
      | (.ok a, d') => f a fa d'
      | (.err e, d') => (.err e, d')
      | (.panic s, d') => (.panic s, d') := rfl

theorem M.pure_apply {α} (a : α) (fa : Option Nat) (d : Dev) : (Pure.pure a : M α) fa d = (.ok a, d) := rfl

theorem M.attempt_apply {α} (m : M α) (fa : Option Nat) (d : Dev) :
    M.attempt m fa d = match m fa d with
      | (.ok a, d') => (.ok (.ok a), d')
      | (.err e, d') => (.ok (.error e), d')
      | (.panic s, d') => (.panic s, d') := rfl

theorem M.retried_none {α} (m : M α) (d : Dev) : M.retried m none d = m none d := rfl

theorem M.retried_hard {α} (m : M α) (fa : Option Nat) (d : Dev) (h : d.fkind ≠ .interrupted) :
    M.retried m fa d = m fa d := by
  cases fa with
  | none => rfl
  | some k =>
    unfold Model.M.retried
    dsimp only
    rw [if_neg (fun c => h c.1)]

theorem read_apply (n : Nat) (fa : Option Nat) (d : Dev) :
    M.read n fa d =
      if fa = some d.calls then (.err (.io d.fkind), { d with calls := d.calls + 1 })
      else (.ok ((d.buf.drop d.pos).take n),
            { d with calls := d.calls + 1, pos := d.pos + ((d.buf.drop d.pos).take n).length }) := by
  unfold M.read M.prim
  rfl

/-- what the drain loop reports: `none` = it ended by `break`, `some e` = `return Err(e)` -/
def endErr : Rs.LoopEnd (Rs.Take × Bytes) (Except ZErr Unit) → Option ZErr
  | .done _ => none
  | .ret (.error e) => some e
  | .ret (.ok _) => none

def mapO {α β : Type} (f : α → β) (r : Out α × Dev) : Out β × Dev :=
  (match r.1 with | .ok a => .ok (f a) | .err e => .err e | .panic s => .panic s, r.2)

abbrev body := Gen.ZipFile.drain_stream.loop1_body

theorem loop_succ {σ ρ : Type} (b : σ → M (Rs.Step σ ρ)) (fuel : Nat) (s : σ) (fa : Option Nat) (d : Dev) :
    Rs.H.loop b (fuel + 1) s fa d = match b s fa d with
      | (.ok (.next s'), d') => Rs.H.loop b fuel s' fa d'
      | (.ok (.brk s'), d') => (.ok (.done s'), d')
      | (.ok (.ret r), d') => (.ok (.ret r), d')
      | (.err e, d') => (.err e, d')
      | (.panic p, d') => (.panic p, d') := by
  rw [Rs.H.loop, M.bind_apply]
  cases h : b s fa d with
  | mk o d' =>
    cases o with
    | ok a => cases a <;> rfl
    | err e => rfl
    | panic p => rfl

/-- one round of the translated loop, limit exhausted -/
theorem body_zero (t : Rs.Take) (buf : Bytes) (fa : Option Nat) (d : Dev) (h : t.limit = 0) :
    body (t, buf) fa d = (.ok (.brk (t, buf)), d) := by
  unfold body Gen.ZipFile.drain_stream.loop1_body Rs.H.take_read
  simp only [h, if_true]
  rfl

theorem body_pos (t : Rs.Take) (buf : Bytes) (fa : Option Nat) (d : Dev) (h : t.limit ≠ 0) :
    body (t, buf) fa d =
      if fa = some d.calls then
        (if d.fkind = .interrupted then (.ok (.next (t, buf)), { d with calls := d.calls + 1 })
         else (.ok (.ret (.error (.io d.fkind))), { d with calls := d.calls + 1 }))
      else
        let bs := (d.buf.drop d.pos).take (min buf.length t.limit.toNat)
        let d' : Dev := { d with calls := d.calls + 1, pos := d.pos + bs.length }
        let s' : Rs.Take × Bytes := (⟨t.limit - UInt64.ofNat bs.length⟩, bs ++ buf.drop bs.length)
        if UInt64.ofNat bs.length = 0 then (.ok (.brk s'), d') else (.ok (.next s'), d') := by
  unfold body Gen.ZipFile.drain_stream.loop1_body Rs.H.take_read
  simp only [h, if_false]
  simp only [M.bind_apply, M.attempt_apply, read_apply]
  by_cases hf : fa = some d.calls
  · simp only [hf, if_true]
    by_cases hk : d.fkind = .interrupted
    · simp [hk, Rs.H.kindIs, M.pure_apply]
    · simp [hk, Rs.H.kindIs, M.pure_apply]
  · simp only [hf, if_false]
    simp only [M.pure_apply]
    generalize UInt64.ofNat (List.take (min (List.length buf) t.limit.toNat) (List.drop d.pos d.buf)).length = n
    by_cases hn : n = 0
    · subst hn
      simp only [if_true]
      rfl
    · simp only [hn, if_false]
      rfl


theorem takeLoop_succ (chunk fuel want : Nat) (fa : Option Nat) (d : Dev) (hw : want ≠ 0) :
    takeLoop chunk (fuel + 1) want fa d =
      if fa = some d.calls then (.ok (0, some (.io d.fkind)), { d with calls := d.calls + 1 })
      else
        let bs := (d.buf.drop d.pos).take (min want chunk)
        let d' : Dev := { d with calls := d.calls + 1, pos := d.pos + bs.length }
        if bs.length = 0 then (.ok (0, none), d')
        else mapO (fun r => (bs.length + r.1, r.2)) (takeLoop chunk fuel (want - bs.length) fa d') := by
  rw [takeLoop, if_neg hw]
  simp only [M.bind_apply, M.attempt_apply, read_apply]
  by_cases hf : fa = some d.calls
  · simp only [hf, if_true]
    rfl
  · simp only [hf, if_false]
    by_cases hb : ((d.buf.drop d.pos).take (min want chunk)).length = 0
    · simp only [hb, if_true]
      rfl
    · simp only [hb, if_false]
      simp only [M.bind_apply, mapO]
      cases h : takeLoop chunk fuel (want - ((d.buf.drop d.pos).take (min want chunk)).length) fa _ with
      | mk o d'' => cases o <;> rfl


theorem mapO_mapO {α β γ : Type} (f : α → β) (g : β → γ) (r : Out α × Dev) :
    mapO g (mapO f r) = mapO (fun a => g (f a)) r := by
  obtain ⟨o, d⟩ := r
  cases o <;> rfl

theorem mapO_snd (r : Out α × Dev) (f : α → β) : (mapO f r).2 = r.2 := rfl

theorem u64_ne_zero (x : UInt64) : x ≠ 0 ↔ x.toNat ≠ 0 := by
  constructor
  · intro h c
    exact h (UInt64.toNat_inj.mp (by rw [c]; rfl))
  · intro h c
    subst c
    exact h rfl

theorem u64_ofNat_eq_zero (m : Nat) (h : m < 18446744073709551616) : UInt64.ofNat m = 0 ↔ m = 0 := by
  constructor
  · intro c
    have := congrArg UInt64.toNat c
    rw [UInt64.toNat_ofNat'] at this
    have e : (0 : UInt64).toNat = 0 := rfl
    rw [e] at this
    omega
  · intro c
    subst c
    rfl

theorem u64_sub_ofNat (x : UInt64) (m : Nat) (h : m ≤ x.toNat) : (x - UInt64.ofNat m).toNat = x.toNat - m := by
  have hx := x.toNat_lt
  have hm : (UInt64.ofNat m).toNat = m := by
    rw [UInt64.toNat_ofNat']
    omega
  rw [UInt64.toNat_sub_of_le]
  · rw [hm]
  · rw [UInt64.le_iff_toNat_le, hm]
    exact h


/-- the fault, if there is one, is not an `Interrupted` that can still fire -/
def NoIntr (fa : Option Nat) (d : Dev) : Prop := ∀ k, fa = some k → d.fkind = .interrupted → k < d.calls

theorem takeLoop_zero_want (chunk n : Nat) (fa : Option Nat) (d : Dev) :
    takeLoop chunk n 0 fa d = (.ok (0, none), d) := by
  cases n <;> rfl

/-- the take loop never fails: a read error is part of its value -/
theorem takeLoop_ok (chunk : Nat) : ∀ (fuel want : Nat) (fa : Option Nat) (d : Dev),
    ∃ r d', takeLoop chunk fuel want fa d = (.ok r, d') := by
  intro fuel
  induction fuel with
  | zero => intro want fa d; exact ⟨_, _, rfl⟩
  | succ n ih =>
    intro want fa d
    by_cases hw : want = 0
    · subst hw
      exact ⟨_, _, takeLoop_zero_want _ _ _ _⟩
    · rw [takeLoop_succ _ _ _ _ _ hw]
      split
      · exact ⟨_, _, rfl⟩
      · dsimp only
        split
        · exact ⟨_, _, rfl⟩
        · obtain ⟨r, d', h⟩ := ih (want - ((d.buf.drop d.pos).take (min want chunk)).length) fa
            { d with calls := d.calls + 1, pos := d.pos + ((d.buf.drop d.pos).take (min want chunk)).length }
          rw [h]
          exact ⟨_, _, rfl⟩

/-- the call counter never decreases -/
theorem takeLoop_mono (chunk : Nat) : ∀ (fuel want : Nat) (fa : Option Nat) (d : Dev),
    d.calls ≤ (takeLoop chunk fuel want fa d).2.calls := by
  intro fuel
  induction fuel with
  | zero => intro want fa d; exact Nat.le_refl _
  | succ n ih =>
    intro want fa d
    by_cases hw : want = 0
    · subst hw
      rw [takeLoop_zero_want]
      exact Nat.le_refl _
    · rw [takeLoop_succ _ _ _ _ _ hw]
      split
      · exact Nat.le_succ _
      · dsimp only
        split
        · exact Nat.le_succ _
        · rw [mapO_snd]
          have := ih (want - ((d.buf.drop d.pos).take (min want chunk)).length) fa
            { d with calls := d.calls + 1, pos := d.pos + ((d.buf.drop d.pos).take (min want chunk)).length }
          exact Nat.le_trans (Nat.le_succ _) this

/-- a fault index that lies behind the device's call counter is never reached -/
theorem takeLoop_outside (chunk : Nat) : ∀ (fuel want k : Nat) (d : Dev), k < d.calls →
    takeLoop chunk fuel want (some k) d = takeLoop chunk fuel want none d := by
  intro fuel
  induction fuel with
  | zero => intro want k d _; rfl
  | succ n ih =>
    intro want k d hk
    by_cases hw : want = 0
    · subst hw
      rw [takeLoop_zero_want, takeLoop_zero_want]
    · rw [takeLoop_succ _ _ _ _ _ hw, takeLoop_succ _ _ _ _ _ hw]
      have : ¬ (some k = some d.calls) := fun c => by cases c; omega
      simp only [this, reduceCtorEq, if_false]
      split
      · rfl
      · rw [ih _ k _ (by show k < d.calls + 1; omega)]

theorem take_len_le (l : Bytes) (a b : Nat) : (l.take (min a b)).length ≤ a ∧ (l.take (min a b)).length ≤ b := by
  rw [List.length_take]
  omega

theorem loop_hard : ∀ (n g : Nat) (t : Rs.Take) (buf : Bytes) (fa : Option Nat) (d : Dev),
    buf.length = 65536 → t.limit.toNat ≤ n → t.limit.toNat < g → NoIntr fa d →
    mapO endErr (Rs.H.loop body g (t, buf) fa d) = mapO Prod.snd (takeLoop 65536 n t.limit.toNat fa d) := by
  intro n
  induction n with
  | zero =>
    intro g t buf fa d hb hn hg hi
    obtain ⟨g, rfl⟩ : ∃ g', g = g' + 1 := ⟨g - 1, by omega⟩
    have h0 : t.limit = 0 := by
      apply UInt64.toNat_inj.mp
      show t.limit.toNat = 0
      omega
    rw [loop_succ, body_zero _ _ _ _ h0]
    have : t.limit.toNat = 0 := by omega
    rw [this, takeLoop_zero_want]
    rfl
  | succ n ih =>
    intro g t buf fa d hb hn hg hi
    obtain ⟨g, rfl⟩ : ∃ g', g = g' + 1 := ⟨g - 1, by omega⟩
    by_cases h0 : t.limit = 0
    · rw [loop_succ, body_zero _ _ _ _ h0]
      have : t.limit.toNat = 0 := by rw [h0]; rfl
      rw [this, takeLoop_zero_want]
      rfl
    · have hw : t.limit.toNat ≠ 0 := (u64_ne_zero _).mp h0
      rw [loop_succ, body_pos _ _ _ _ h0, takeLoop_succ _ _ _ _ _ hw]
      by_cases hf : fa = some d.calls
      · have hk : d.fkind ≠ .interrupted := fun c => by
          have := hi d.calls hf c
          omega
        simp only [hf, if_true, hk, if_false]
        rfl
      · simp only [hf, if_false, hb]
        rw [Nat.min_comm 65536 t.limit.toNat]
        have hl := take_len_le (d.buf.drop d.pos) t.limit.toNat 65536
        generalize (List.take (min t.limit.toNat 65536) (List.drop d.pos d.buf)) = bs at hl
        by_cases hz : bs.length = 0
        · have : UInt64.ofNat bs.length = 0 := (u64_ofNat_eq_zero _ (by omega)).mpr hz
          simp only [this, hz, if_true]
          rfl
        · have : UInt64.ofNat bs.length ≠ 0 := fun c => hz ((u64_ofNat_eq_zero _ (by omega)).mp c)
          simp only [this, hz, if_false]
          have hsub := u64_sub_ofNat t.limit bs.length hl.1
          have := ih g ⟨t.limit - UInt64.ofNat bs.length⟩ (bs ++ buf.drop bs.length) fa
            { d with calls := d.calls + 1, pos := d.pos + bs.length }
            (by rw [List.length_append, List.length_drop]; omega)
            (by show (t.limit - UInt64.ofNat bs.length).toNat ≤ n; omega)
            (by show (t.limit - UInt64.ofNat bs.length).toNat < g; omega)
            (by intro k hk hkk; have := hi k hk hkk; show k < d.calls + 1; omega)
          rw [this, mapO_mapO]
          show _ = mapO Prod.snd (takeLoop 65536 n (t.limit.toNat - bs.length) fa _)
          rw [← hsub]


def bump (r : Out α × Dev) : Out α × Dev := (r.1, { r.2 with calls := r.2.calls + 1 })

theorem mapO_bump {α β : Type} (f : α → β) (r : Out α × Dev) : mapO f (bump r) = bump (mapO f r) := rfl

/-- the failure-free take loop does not look at the call counter -/
theorem takeLoop_shift (chunk : Nat) : ∀ (n want : Nat) (d : Dev),
    takeLoop chunk n want none { d with calls := d.calls + 1 } = bump (takeLoop chunk n want none d) := by
  intro n
  induction n with
  | zero => intro want d; rfl
  | succ n ih =>
    intro want d
    by_cases hw : want = 0
    · subst hw
      rw [takeLoop_zero_want, takeLoop_zero_want]
      rfl
    · rw [takeLoop_succ _ _ _ _ _ hw, takeLoop_succ _ _ _ _ _ hw]
      simp only [reduceCtorEq, if_false]
      split
      · rfl
      · rw [← mapO_bump, ← ih]

theorem takeLoop_calls_pos (chunk n want : Nat) (d : Dev) (hw : want ≠ 0) :
    d.calls + 1 ≤ (takeLoop chunk (n + 1) want none d).2.calls := by
  rw [takeLoop_succ _ _ _ _ _ hw]
  simp only [reduceCtorEq, if_false]
  split
  · exact Nat.le_refl _
  · rw [mapO_snd]
    have := takeLoop_mono chunk n (want - (List.take (min want chunk) (List.drop d.pos d.buf)).length) none
      { d with calls := d.calls + 1, pos := d.pos + (List.take (min want chunk) (List.drop d.pos d.buf)).length }
    exact this

theorem loop_intr : ∀ (n g : Nat) (t : Rs.Take) (buf : Bytes) (k : Nat) (d : Dev),
    buf.length = 65536 → t.limit.toNat ≤ n → t.limit.toNat + 1 < g → d.fkind = .interrupted → d.calls ≤ k →
    mapO endErr (Rs.H.loop body g (t, buf) (some k) d) =
      mapO Prod.snd (M.retried (takeLoop 65536 n t.limit.toNat) (some k) d) := by
  intro n
  induction n with
  | zero =>
    intro g t buf k d hb hn hg hi hk
    obtain ⟨g, rfl⟩ : ∃ g', g = g' + 1 := ⟨g - 1, by omega⟩
    have h0 : t.limit = 0 := by
      apply UInt64.toNat_inj.mp
      show t.limit.toNat = 0
      omega
    rw [loop_succ, body_zero _ _ _ _ h0]
    have : t.limit.toNat = 0 := by omega
    rw [this]
    unfold M.retried
    simp only [takeLoop_zero_want]
    rw [if_neg (by omega)]
    rfl
  | succ n ih =>
    intro g t buf k d hb hn hg hi hk
    obtain ⟨g, rfl⟩ : ∃ g', g = g' + 1 := ⟨g - 1, by omega⟩
    by_cases h0 : t.limit = 0
    · rw [loop_succ, body_zero _ _ _ _ h0]
      have : t.limit.toNat = 0 := by rw [h0]; rfl
      rw [this]
      unfold M.retried
      simp only [takeLoop_zero_want]
      rw [if_neg (by omega)]
      rfl
    · have hw : t.limit.toNat ≠ 0 := (u64_ne_zero _).mp h0
      rw [loop_succ, body_pos _ _ _ _ h0]
      by_cases hf : k = d.calls
      · subst hf
        rw [if_pos rfl, if_pos hi]
        dsimp only
        rw [loop_hard (n + 1) g t buf (some d.calls) { d with calls := d.calls + 1 } hb hn (by omega)
          (by intro k hk _; cases hk; show d.calls < d.calls + 1; omega)]
        rw [takeLoop_outside 65536 (n + 1) t.limit.toNat d.calls _ (by show d.calls < d.calls + 1; omega)]
        rw [takeLoop_shift]
        have hc := takeLoop_calls_pos 65536 n t.limit.toNat d hw
        unfold M.retried
        dsimp only
        rw [if_pos ⟨hi, Nat.le_refl _, by omega⟩]
        rfl
      · have hf' : ¬ (some k = some d.calls) := fun c => hf (Option.some.inj c)
        have hlt : d.calls < k := by omega
        simp only [hf', if_false, hb]
        rw [Nat.min_comm 65536 t.limit.toNat]
        have hl := take_len_le (d.buf.drop d.pos) t.limit.toNat 65536
        unfold M.retried
        dsimp only
        rw [takeLoop_succ _ _ _ _ _ hw, takeLoop_succ _ _ _ _ _ hw]
        simp only [hf', reduceCtorEq, if_false]
        generalize (List.take (min t.limit.toNat 65536) (List.drop d.pos d.buf)) = bs at hl
        by_cases hz : bs.length = 0
        · have : UInt64.ofNat bs.length = 0 := (u64_ofNat_eq_zero _ (by omega)).mpr hz
          rw [if_pos this, if_pos hz]
          have hnot : ¬ (d.fkind = IoKind.interrupted ∧ d.calls ≤ k ∧
              k < (((Out.ok (0, none) : Out (Nat × Option ZErr)),
                ({ d with calls := d.calls + 1, pos := d.pos + bs.length } : Dev)) : Out (Nat × Option ZErr) × Dev).2.calls) := by
            intro c
            have := c.2.2
            dsimp only at this
            omega
          rw [if_neg hnot, if_pos hz]
          rfl
        · have : UInt64.ofNat bs.length ≠ 0 := fun c => hz ((u64_ofNat_eq_zero _ (by omega)).mp c)
          simp only [this, hz, if_false]
          have hsub := u64_sub_ofNat t.limit bs.length hl.1
          have := ih g ⟨t.limit - UInt64.ofNat bs.length⟩ (bs ++ buf.drop bs.length) k
            { d with calls := d.calls + 1, pos := d.pos + bs.length }
            (by rw [List.length_append, List.length_drop]; omega)
            (by show (t.limit - UInt64.ofNat bs.length).toNat ≤ n; omega)
            (by show (t.limit - UInt64.ofNat bs.length).toNat + 1 < g; omega)
            hi (by show d.calls + 1 ≤ k; omega)
          rw [this]
          unfold M.retried
          dsimp only
          rw [hsub, mapO_snd]
          by_cases hc : k < (takeLoop 65536 n (t.limit.toNat - bs.length) none
              { d with calls := d.calls + 1, pos := d.pos + bs.length }).2.calls
          · rw [if_pos ⟨hi, by show d.calls + 1 ≤ k; omega, hc⟩, if_pos ⟨hi, hk, hc⟩]
            show _ = mapO Prod.snd (bump (mapO _ _))
            rw [← mapO_bump, mapO_mapO]
            rfl
          · rw [if_neg (fun c => hc c.2.2), if_neg (fun c => hc c.2.2), mapO_mapO]


/-- **The translated drain loop is the model's take loop inside std-style retry**: for every fault index and device,
with any fuel of at least `limit + 2` rounds. -/
theorem loop_retried (g : Nat) (t : Rs.Take) (buf : Bytes) (fa : Option Nat) (d : Dev)
    (hb : buf.length = 65536) (hg : t.limit.toNat + 2 ≤ g) :
    mapO endErr (Rs.H.loop body g (t, buf) fa d) =
      mapO Prod.snd (M.retried (takeLoop 65536 t.limit.toNat t.limit.toNat) fa d) := by
  cases fa with
  | none =>
    rw [M.retried_none]
    exact loop_hard _ g t buf none d hb (Nat.le_refl _) (by omega) (fun k hk => by cases hk)
  | some k =>
    by_cases hi : d.fkind = .interrupted
    · by_cases hk : d.calls ≤ k
      · exact loop_intr _ g t buf k d hb (Nat.le_refl _) (by omega) hi hk
      · have : M.retried (takeLoop 65536 t.limit.toNat t.limit.toNat) (some k) d =
            takeLoop 65536 t.limit.toNat t.limit.toNat (some k) d := by
          unfold M.retried
          dsimp only
          rw [if_neg (fun c => hk c.2.1)]
        rw [this]
        exact loop_hard _ g t buf (some k) d hb (Nat.le_refl _) (by omega)
          (fun k' hk' _ => by cases hk'; omega)
    · rw [M.retried_hard _ _ _ hi]
      exact loop_hard _ g t buf (some k) d hb (Nat.le_refl _) (by omega) (fun _ _ c => absurd c hi)

/-- the `io::Result<()>` of `drain_stream` from what the loop reports -/
def resOf : Option ZErr → Except ZErr Unit
  | none => .ok ()
  | some e => .error e

theorem attempt_retried_drainE (n : Nat) (fa : Option Nat) (d : Dev) :
    M.attempt (M.retried (drainE n)) fa d =
      mapO resOf (mapO Prod.snd (M.retried (takeLoop 65536 n n) fa d)) := by
  have key : ∀ fa d, drainE n fa d = (match (takeLoop 65536 n n fa d) with
      | (.ok (_, some e), d') => (.err e, d')
      | (.ok (_, none), d') => (.ok (), d')
      | (.err e, d') => (.err e, d')
      | (.panic s, d') => (.panic s, d')) := by
    intro fa d
    unfold drainE
    rw [M.bind_apply]
    obtain ⟨r, d', h⟩ := takeLoop_ok 65536 n n fa d
    rw [h]
    obtain ⟨a, e⟩ := r
    cases e <;> rfl
  have hcalls : ∀ fa d, (drainE n fa d).2 = (takeLoop 65536 n n fa d).2 := by
    intro fa d
    rw [key]
    obtain ⟨r, d', h⟩ := takeLoop_ok 65536 n n fa d
    rw [h]
    obtain ⟨a, e⟩ := r
    cases e <;> rfl
  have fin : ∀ fa d, M.attempt (drainE n) fa d = mapO resOf (mapO Prod.snd (takeLoop 65536 n n fa d)) := by
    intro fa d
    rw [M.attempt_apply, key]
    obtain ⟨r, d', h⟩ := takeLoop_ok 65536 n n fa d
    rw [h]
    obtain ⟨a, e⟩ := r
    cases e <;> rfl
  cases fa with
  | none => exact fin none d
  | some k =>
    have e1 : M.attempt (M.retried (drainE n)) (some k) d =
        (if d.fkind = .interrupted ∧ d.calls ≤ k ∧ k < (drainE n none d).2.calls then
          bump (M.attempt (drainE n) none d) else M.attempt (drainE n) (some k) d) := by
      rw [M.attempt_apply]
      unfold M.retried
      dsimp only
      by_cases hc : d.fkind = .interrupted ∧ d.calls ≤ k ∧ k < (drainE n none d).2.calls
      · rw [if_pos hc, if_pos hc, M.attempt_apply]
        cases h : drainE n none d with
        | mk o d' => cases o <;> rfl
      · rw [if_neg hc, if_neg hc, M.attempt_apply]
    rw [e1, hcalls, fin, fin]
    unfold M.retried
    dsimp only
    split
    · rfl
    · rfl


/-! ### The `into_inner` chains -/

/-- the `Take` under a decryption layer -/
def cryptoTake : Gen.CryptoReader → Rs.Take
  | .Plaintext t => t
  | .ZipCrypto r => r.inner
  | .Aes r _ => r.inner

/-- the `Take` at the bottom of a built reader: below the CRC layer, the decoder (for zstd also its `BufReader`) and
the decryption layer; `none` = the `NoReader` state (`into_inner` panics) -/
def readerTake : Gen.ZipFileReader → Option Rs.Take
  | .NoReader => none
  | .Raw t => some t
  | .Stored r => some (cryptoTake r.inner)
  | .Deflated r => some (cryptoTake r.inner.inner)
  | .Bzip2 r => some (cryptoTake r.inner.inner)
  | .Zstd r => some (cryptoTake r.inner.inner.inner)

theorem tie_crypto_into_inner (c : Gen.CryptoReader) : Gen.CryptoReader.into_inner c = some (cryptoTake c) := by
  cases c <;> rfl

theorem crc_into_inner {R : Type} (r : Gen.Crc32Reader R) : Gen.Crc32Reader.into_inner r = some r.inner := rfl

theorem tie_reader_into_inner (r : Gen.ZipFileReader) : Gen.ZipFileReader.into_inner r = readerTake r := by
  cases r with
  | NoReader => rfl
  | Raw t => rfl
  | Stored a => simp [Gen.ZipFileReader.into_inner, crc_into_inner, tie_crypto_into_inner, readerTake]
  | Deflated a =>
    simp [Gen.ZipFileReader.into_inner, crc_into_inner, tie_crypto_into_inner, readerTake, Rs.DeflateDecoder.into_inner]
  | Bzip2 a =>
    simp [Gen.ZipFileReader.into_inner, crc_into_inner, tie_crypto_into_inner, readerTake, Rs.BzDecoder.into_inner]
  | Zstd a =>
    simp [Gen.ZipFileReader.into_inner, crc_into_inner, tie_crypto_into_inner, readerTake, Rs.BufReader.into_inner,
      Rs.ZstdDecoder.finish]

/-- the innermost `Take` of an entry handle: the pending decryption layer's while no reader has been built, else the
built reader's; `none` = nothing left to read from (drained) -/
def innerTake (z : Gen.ZipFile) : Option Rs.Take :=
  match z.reader with
  | .NoReader => z.crypto_reader.map cryptoTake
  | r => readerTake r

/-- the handle as `drain_stream` leaves it: whatever held the `Take` is gone -/
def drained (z : Gen.ZipFile) : Gen.ZipFile :=
  match z.reader with
  | .NoReader => { z with crypto_reader := none }
  | _ => { z with reader := .NoReader }

/-- `ZipFile::drain_stream` in terms of the model's single drain definition -/
def drainModel (z : Gen.ZipFile) : M (Except ZErr Unit × Gen.ZipFile) :=
  match z.data, innerTake z with
  | .Owned _, some t => do
    let r ← M.attempt (M.retried (drainE t.limit.toNat))
    pure (r, drained z)
  | _, _ => pure (.ok (), z)

theorem array_len : (Rs.H.array (0 : UInt8) 65536).length = 65536 := by
  unfold Rs.H.array
  rw [List.length_replicate]
  rfl

/-- the part of `drain_stream` behind the `into_inner` chain -/
theorem drain_tail (fuel : Nat) (z : Gen.ZipFile) (t : Rs.Take) (hf : t.limit.toNat + 2 ≤ fuel) :
    (do
      let t8 ← Rs.H.loop body fuel (t, Rs.H.array (0 : UInt8) 65536)
      match t8 with
      | Rs.LoopEnd.ret r => pure (r, z)
      | Rs.LoopEnd.done _ => pure (Except.ok (), z) : M (Except ZErr Unit × Gen.ZipFile)) =
    (do
      let r ← M.attempt (M.retried (drainE t.limit.toNat))
      pure (r, z)) := by
  funext fa d
  rw [M.bind_apply, M.bind_apply, attempt_retried_drainE, ← loop_retried fuel t _ fa d array_len hf]
  cases h : Rs.H.loop body fuel (t, Rs.H.array (0 : UInt8) 65536) fa d with
  | mk o d' =>
    cases o with
    | ok a =>
      cases a with
      | done s => rfl
      | ret r => cases r <;> rfl
    | err e => rfl
    | panic s => rfl


theorem pure_bind_M {α β : Type} (a : α) (f : α → M β) : (pure a >>= f) = f a := by
  funext fa d
  rfl

theorem shl_1_16 : Rs.Arith.shl (1 : UInt64) 16 = some 65536 := by decide

theorem lift_some {α : Type} (a : α) : Rs.H.lift (some a) = (pure a : M α) := rfl

/-- `drain_stream` on an owned handle whose `Take` has been reached -/
theorem drain_owned (fuel : Nat) (z : Gen.ZipFile) (t : Rs.Take) (hf : t.limit.toNat + 2 ≤ fuel) :
    (do
      let t1 ← Rs.H.lift (Rs.Arith.shl (1 : UInt64) 16)
      let t8 ← Rs.H.loop body fuel (t, Rs.H.array (0 : UInt8) t1)
      match t8 with
      | Rs.LoopEnd.ret r => pure (r, z)
      | Rs.LoopEnd.done _ => pure (Except.ok (), z) : M (Except ZErr Unit × Gen.ZipFile)) =
    (do
      let r ← M.attempt (M.retried (drainE t.limit.toNat))
      pure (r, z)) := by
  rw [shl_1_16, lift_some, pure_bind_M]
  exact drain_tail fuel z t hf

theorem tie_drain_stream (fuel : Nat) (z : Gen.ZipFile)
    (hf : ∀ t, innerTake z = some t → t.limit.toNat + 2 ≤ fuel) :
    Gen.ZipFile.drain_stream fuel z = drainModel z := by
  obtain ⟨data, cr, rd⟩ := z
  cases data with
  | Borrowed a => rfl
  | Owned a =>
    cases rd with
    | NoReader =>
      cases cr with
      | none => rfl
      | some c =>
        have := drain_owned fuel ⟨Rs.Cow.Owned a, none, .NoReader⟩ (cryptoTake c) (hf _ rfl)
        unfold Gen.ZipFile.drain_stream
        dsimp only
        simp only [tie_crypto_into_inner, lift_some, pure_bind_M]
        exact this
    | Raw t =>
      have := drain_owned fuel ⟨Rs.Cow.Owned a, cr, .NoReader⟩ t (hf _ rfl)
      unfold Gen.ZipFile.drain_stream
      dsimp only
      simp only [tie_reader_into_inner, readerTake, lift_some, pure_bind_M]
      exact this
    | Stored r =>
      have := drain_owned fuel ⟨Rs.Cow.Owned a, cr, .NoReader⟩ _ (hf _ rfl)
      unfold Gen.ZipFile.drain_stream
      dsimp only
      simp only [tie_reader_into_inner, readerTake, lift_some, pure_bind_M]
      exact this
    | Deflated r =>
      have := drain_owned fuel ⟨Rs.Cow.Owned a, cr, .NoReader⟩ _ (hf _ rfl)
      unfold Gen.ZipFile.drain_stream
      dsimp only
      simp only [tie_reader_into_inner, readerTake, lift_some, pure_bind_M]
      exact this
    | Bzip2 r =>
      have := drain_owned fuel ⟨Rs.Cow.Owned a, cr, .NoReader⟩ _ (hf _ rfl)
      unfold Gen.ZipFile.drain_stream
      dsimp only
      simp only [tie_reader_into_inner, readerTake, lift_some, pure_bind_M]
      exact this
    | Zstd r =>
      have := drain_owned fuel ⟨Rs.Cow.Owned a, cr, .NoReader⟩ _ (hf _ rfl)
      unfold Gen.ZipFile.drain_stream
      dsimp only
      simp only [tie_reader_into_inner, readerTake, lift_some, pure_bind_M]
      exact this


/-- the silent drain of `Drop` is the reported drain with its result discarded -/
theorem discard_drainE (n : Nat) :
    (M.attempt (M.retried (drainE n)) >>= fun _ => pure ()) = M.retried (drain n) := by
  funext fa d
  rw [M.bind_apply, attempt_retried_drainE]
  have key : ∀ fa d, drain n fa d = mapO (fun _ => ()) (takeLoop 65536 n n fa d) := by
    intro fa d
    unfold drain
    rw [M.bind_apply]
    obtain ⟨r, d', h⟩ := takeLoop_ok 65536 n n fa d
    rw [h]
    rfl
  cases fa with
  | none =>
    rw [M.retried_none, M.retried_none, key]
    obtain ⟨r, d', h⟩ := takeLoop_ok 65536 n n none d
    rw [h]
    rfl
  | some k =>
    unfold M.retried
    dsimp only
    rw [key, key, mapO_snd]
    by_cases hc : d.fkind = .interrupted ∧ d.calls ≤ k ∧ k < (takeLoop 65536 n n none d).2.calls
    · rw [if_pos hc, if_pos hc]
      obtain ⟨r, d', h⟩ := takeLoop_ok 65536 n n none d
      rw [h]
      rfl
    · rw [if_neg hc, if_neg hc]
      obtain ⟨r, d', h⟩ := takeLoop_ok 65536 n n (some k) d
      rw [h]
      rfl

/-- `Drop for ZipFile`: the model's silent drain, for an entry of a streaming reader; nothing otherwise -/
def dropModel (z : Gen.ZipFile) : M Gen.ZipFile :=
  match z.data, innerTake z with
  | .Owned _, some t => do
    M.retried (drain t.limit.toNat)
    pure (drained z)
  | _, _ => pure z

theorem tie_drop (fuel : Nat) (z : Gen.ZipFile)
    (hf : ∀ t, innerTake z = some t → t.limit.toNat + 2 ≤ fuel) :
    Gen.ZipFile.drop fuel z = dropModel z := by
  unfold Gen.ZipFile.drop
  dsimp only
  rw [tie_drain_stream fuel z hf]
  unfold drainModel dropModel
  split
  · rw [← discard_drainE]
    funext fa d
    simp only [M.bind_apply]
    cases h : M.attempt (M.retried (drainE _)) fa d with
    | mk o d' => cases o <;> rfl
  · rfl

/-- a drained handle has nothing left: the second `drain_stream` (the one `Drop` issues after `visit` drained the
entry explicitly) does no I/O and returns `Ok` -/
theorem innerTake_drained (z : Gen.ZipFile) (h : z.reader = .NoReader ∨ z.crypto_reader = none) :
    innerTake (drained z) = none := by
  obtain ⟨data, cr, rd⟩ := z
  cases rd <;> first | rfl | (rcases h with h | h <;> cases h <;> rfl)

theorem drain_stream_drained (fuel : Nat) (z : Gen.ZipFile) (h : innerTake z = none) :
    Gen.ZipFile.drain_stream fuel z = pure (.ok (), z) := by
  rw [tie_drain_stream fuel z (by intro t ht; rw [h] at ht; cases ht)]
  unfold drainModel
  rw [h]
  cases z.data <;> rfl

end ZipVerif.Tie.Drain
