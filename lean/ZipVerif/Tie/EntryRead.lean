import ZipVerif.Gen.ReadEntry
import ZipVerif.Tie.AesLayer
import ZipVerif.Model.Aes
/-
Tie obligations for the `Read` implementations of the entry handle (src/read.rs; tier T6, ENTRY mode of rs2lean, helper
t6r4, `rs2lean/src/t6r4b.rs`, vocabulary `Basic/RsE.lean`): `impl Read for CryptoReader`, `impl Read for
ZipFileReader`, `ZipFileReader::finish_crypto` (the end-of-entry authentication drain of the D12 repair),
`ZipFile::get_reader`, `impl Read for ZipFile`.  All are regenerated from the source on this run
(`Gen/ReadEntry.lean`, declarations `Gen.E.*`), over the LAYER translation's REAL structures - `Gen.Crc32Reader R`,
`Gen.ZipCryptoReaderValid R`, `Gen.AesReaderValid R` - whose `read` functions they call.

  crypto_read_* / reader_read_*   the dispatch: each variant calls the `read` of the layer it holds (`NoReader` panics).
  finish_crypto_aes / _other      `finish_crypto` is `io::copy(aes_layer, sink)` on the AES layer below a decompressor
                                  (`Deflated` / `Bzip2` / `Zstd`: `get_mut` twice, three times through the `BufReader`),
                                  the layer put back in place, nothing else touched; `Ok(())` without a read otherwise.
  rd_toGen                        `impl Read for AesReaderValid` as seen by a wrapper = `Model.Aes.Valid.read`
                                  (from `Tie/AesLayer.tie_aes_read`).
  tie_copy_to_sink                std's `io::copy(.., sink())` loop over it = `Model.Aes.copyToSink` (every fuel).
  tie_finish_crypto               hence `finish_crypto` = `Model.Aes.finishCrypto … true` with the model's fuel
                                  `data_remaining + 1`: the function `Props/C16.entry_eof_implies_mac` reasons about.
  get_reader_built / _pending     `get_reader`: identity on a built handle; else `crypto_reader.take()` handed to
                                  `make_reader(method, crc32, _)`, a missing layer or an unsupported method panics.
  zipfile_read_eq                 `ZipFile::read` = one `read` of the stack; on `Ok(0)` with a non-empty buffer - and only
                                  then - `finish_crypto()`, whose error replaces the end-of-file.
  entryRead_eq_glue,              `Model.Aes.entryRead` and the translated `ZipFile::read` are THE SAME glue
  tie_zipfile_read_glue           (`entryGlue`) around (`layersRead`, `finishCrypto`) resp. (the translated
                                  `ZipFileReader::read`, the translated `finish_crypto`).

What is not closed here: `layersRead` = the translated `ZipFileReader::read` on the embedded state (CRC layer ∘ decoder ∘
AES layer through the `Rs.Read` instances); each of the three layers is tied on its own (`Tie/Layers`, `Tie/AesLayer`) and
the model composes them; the composition through the class instances is left.

Trusted vocabulary (`Basic/RsE.lean`): the `Take` over the archive's reader is an arbitrary `Rs.Read`; the external
decoders are `E.Dec` with ONE `read` call an arbitrary function (`DecOps`, a named parameter - `finish_crypto` is
proved for every instance); `io::copy(r, sink())` = reads with the 8 KiB buffer until `Ok(0)` or an error (`Interrupted`
not among the modelled kinds); `make_reader` a named parameter `mk` (translated and tied in READ mode:
`Tie/ReaderGlue2.tie_make_reader`).  Hypotheses: the inner source keeps the `Read` contract (`Src.Contract`,
`SmallA`), `data_remaining < 2^64`.
-/

set_option linter.unusedSimpArgs false
set_option linter.unusedVariables false
namespace ZipVerif.Tie.EntryRead
open ZipVerif ZipVerif.Model.Aes ZipVerif.Tie.Layers ZipVerif.Tie.AesLayer

variable {σ : Type}

/-! ### the AES layer as a member of `Rs.Read` (`impl Read for AesReaderValid`) -/

/-- a model outcome of `Valid.read` as what a wrapper sees of one `read` call -/
def rdView (P : AesPrims) (m : Out Bytes × Valid σ) : Rs.RdRes × @Gen.AesReaderValid (dynOf P) σ :=
  (match m.1 with
    | .ok bs => .ok bs
    | .err (.io k) => .err k
    | .err _ => .panic
    | .panic _ => .panic, toGen P m.2)

theorem read_rem_le (P : AesPrims) (S : Src σ) (v : Valid σ) (n : Nat) :
    (Valid.read P S v n).2.dataRemaining ≤ v.dataRemaining := by
  unfold Valid.read
  by_cases h0 : v.dataRemaining = 0
  · rw [if_pos h0]
    by_cases hf : v.finalized = true
    · rw [if_pos hf]; exact Nat.le_refl _
    · rw [if_neg hf]
      dsimp only
      rcases readExact S v.inner AUTH_CODE_LENGTH with ⟨o, s⟩
      cases o with
      | ok code => dsimp only; split <;> exact Nat.le_refl _
      | err e => exact Nat.le_refl _
      | panic m => exact Nat.le_refl _
  · rw [if_neg h0]
    dsimp only
    rcases S.rd v.inner (min v.dataRemaining n) with ⟨r, s'⟩
    cases r with
    | err k => exact Nat.le_refl _
    | ok bs =>
      dsimp only
      split
      · exact Nat.le_refl _
      · split
        · exact Nat.le_refl _
        · split
          · exact Nat.le_refl _
          · rcases cryptInPlace P v.key v.ctr bs with x | e | m
            · dsimp only
              split
              · split
                · exact Nat.sub_le _ _
                · rcases readExact S s' AUTH_CODE_LENGTH with ⟨o, s2⟩
                  cases o with
                  | ok code => dsimp only; split <;> exact Nat.sub_le _ _
                  | err e => exact Nat.sub_le _ _
                  | panic m => exact Nat.sub_le _ _
              · exact Nat.sub_le _ _
            · exact Nat.sub_le _ _
            · exact Nat.sub_le _ _

theorem rd_asRead {R : Type} (f : R → Bytes → Rs.IoRes UInt64 × R × Bytes) (r : R) (n : Nat) :
    @Rs.Read.rd R (Rs.E.asRead f) r n = match f r (List.replicate n 0) with
      | (.ok c, r', b) => (.ok (b.take c.toNat), r')
      | (.err e, r', _) => (.err e, r')
      | (.panic, r', _) => (.panic, r') := rfl

/-- **`impl Read for AesReaderValid` seen by a wrapper is the model's `Valid.read`** (from `tie_aes_read`) -/
theorem rd_toGen (P : AesPrims) (hW : P.WF) (S : Src σ) (hS : S.Contract) (hin : SmallA S) (v : Valid σ) (n : Nat)
    (hn : n < 2 ^ 64) (hrem : v.dataRemaining < 2 ^ 64) :
    @Rs.Read.rd _ (@Gen.E.read_AesReaderValid (primsOf P) (dynOf P) σ (readOfA S)) (toGen P v) n
      = rdView P (Valid.read P S v n) := by
  have hlen : (List.replicate n (0 : UInt8)).length = n := List.length_replicate
  have key := tie_aes_read P hW S v (List.replicate n 0) (by rw [hlen]; exact hn) hrem hin
    (fun bs s' h => Or.inl (by
      have := hS _ _ _ _ h
      rw [hlen] at this ⊢
      exact Nat.le_trans this (Nat.min_le_right _ _)))
  rw [hlen] at key
  show @Rs.Read.rd _ (Rs.E.asRead _) _ _ = _
  rw [rd_asRead]
  rcases hg : @Gen.AesReaderValid.read (primsOf P) (dynOf P) σ (readOfA S) (toGen P v) (List.replicate n 0) with ⟨g1, g2, g3⟩
  rw [hg] at key
  rcases hm : Valid.read P S v n with ⟨m1, m2⟩
  rw [hm] at key
  simp only [Prod.mk.injEq] at key
  obtain ⟨k1, k2⟩ := key
  subst k2
  unfold rdView
  cases g1 with
  | ok c =>
    cases m1 <;> simp_all [outRead, eraseMsg]
  | err e =>
    cases m1 <;> simp_all [outRead, eraseMsg]
    subst k1; rfl
  | panic =>
    cases m1 <;> simp_all [outRead, eraseMsg]

/-! ### `io::copy(reader, &mut io::sink())` over the AES layer is the model's `copyToSink` -/

/-- a model outcome of `copyToSink` / `finishCrypto` in the vocabulary of the generated code -/
def unitView (P : AesPrims) (m : Out Unit × Valid σ) : Rs.IoRes Unit × @Gen.AesReaderValid (dynOf P) σ :=
  (match m.1 with
    | .ok _ => .ok ()
    | .err (.io k) => .err k
    | .err _ => .panic
    | .panic _ => .panic, toGen P m.2)

/-- the count `io::copy` returns is discarded by `finish_crypto` -/
def voidRes {α : Type} : Rs.IoRes α → Rs.IoRes Unit
  | .ok _ => .ok ()
  | .err e => .err e
  | .panic => .panic

theorem tie_copy_to_sink (P : AesPrims) (hW : P.WF) (S : Src σ) (hS : S.Contract) (hin : SmallA S) :
    ∀ (f : Nat) (v : Valid σ) (acc : UInt64), v.dataRemaining < 2 ^ 64 →
    (fun g : Rs.IoRes UInt64 × @Gen.AesReaderValid (dynOf P) σ => (voidRes g.1, g.2))
        (@Rs.E.copyToSink _ (@Gen.E.read_AesReaderValid (primsOf P) (dynOf P) σ (readOfA S)) f (toGen P v) acc)
      = unitView P (copyToSink P S f v) := by
  intro f
  induction f with
  | zero => intro v acc _; rfl
  | succ f ih =>
    intro v acc hrem
    unfold Rs.E.copyToSink copyToSink
    rw [rd_toGen P hW S hS hin v 8192 (by decide) hrem]
    have hle := read_rem_le P S v 8192
    rcases hv : Valid.read P S v 8192 with ⟨m1, m2⟩
    rw [hv] at hle
    cases m1 with
    | ok bs =>
      simp only [rdView]
      by_cases hb : bs.isEmpty = true
      · simp only [hb, if_true]; rfl
      · simp only [hb, if_false]
        exact ih m2 _ (Nat.lt_of_le_of_lt hle hrem)
    | err e => cases e <;> rfl
    | panic m => rfl

/-! ### the dispatch of `impl Read for CryptoReader` / `impl Read for ZipFileReader` -/

section generic
variable [Rs.AesPrims] [Rs.AesDyn] [Rs.E.DecOps] {T : Type} [Rs.Read T]

/-- put a layer's `read` result back under its constructor -/
def under {A B : Type} (ctor : A → B) (x : Rs.IoRes UInt64 × A × Bytes) : Rs.IoRes UInt64 × B × Bytes :=
  (x.1, ctor x.2.1, x.2.2)

/-- `CryptoReader::read` calls the `read` of the layer it holds - `Take::read`, `ZipCryptoReaderValid::read`,
`AesReaderValid::read` - and nothing else; the layer stays under its constructor. -/
theorem crypto_read_plain (r : T) (buf : Bytes) :
    Gen.E.CryptoReader.read (.Plaintext r) buf = under .Plaintext (Rs.L.read r buf) := rfl
theorem crypto_read_zc (r : Gen.ZipCryptoReaderValid T) (buf : Bytes) :
    Gen.E.CryptoReader.read (.ZipCrypto r) buf = under .ZipCrypto (Gen.ZipCryptoReaderValid.read r buf) := rfl
theorem crypto_read_aes (r : Gen.AesReaderValid T) (vv : Gen.AesVendorVersion) (buf : Bytes) :
    Gen.E.CryptoReader.read (.Aes r vv) buf = under (fun r => .Aes r vv) (Gen.AesReaderValid.read r buf) := rfl

/-- `ZipFileReader::read`: `NoReader` panics; `Raw` reads the `Take`; every other variant calls
`Crc32Reader::read` of the stack it holds. -/
theorem reader_read_none (buf : Bytes) :
    Gen.E.ZipFileReader.read (.NoReader : Gen.E.ZipFileReader T) buf = (.panic, .NoReader, buf) := rfl
theorem reader_read_raw (r : T) (buf : Bytes) :
    Gen.E.ZipFileReader.read (.Raw r) buf = under .Raw (Rs.L.read r buf) := rfl
theorem reader_read_stored (r) (buf : Bytes) :
    Gen.E.ZipFileReader.read (.Stored r : Gen.E.ZipFileReader T) buf = under .Stored (Gen.Crc32Reader.read r buf) := rfl
theorem reader_read_deflated (r) (buf : Bytes) :
    Gen.E.ZipFileReader.read (.Deflated r : Gen.E.ZipFileReader T) buf = under .Deflated (Gen.Crc32Reader.read r buf) := rfl
theorem reader_read_bzip2 (r) (buf : Bytes) :
    Gen.E.ZipFileReader.read (.Bzip2 r : Gen.E.ZipFileReader T) buf = under .Bzip2 (Gen.Crc32Reader.read r buf) := rfl
theorem reader_read_zstd (r) (buf : Bytes) :
    Gen.E.ZipFileReader.read (.Zstd r : Gen.E.ZipFileReader T) buf = under .Zstd (Gen.Crc32Reader.read r buf) := rfl

/-! ### `finish_crypto` -/

/-- the decryption layer a compressing variant holds below its decoder -/
def cryptoOf : Gen.E.ZipFileReader T → Option (Gen.E.CryptoReader T)
  | .Deflated r => some r.inner.inner
  | .Bzip2 r => some r.inner.inner
  | .Zstd r => some r.inner.inner.inner
  | _ => none

/-- … replaced -/
def withCrypto (c : Gen.E.CryptoReader T) : Gen.E.ZipFileReader T → Gen.E.ZipFileReader T
  | .Deflated r => .Deflated { r with inner := { r.inner with inner := c } }
  | .Bzip2 r => .Bzip2 { r with inner := { r.inner with inner := c } }
  | .Zstd r => .Zstd { r with inner := { r.inner with inner := { r.inner.inner with inner := c } } }
  | x => x

/-- **`finish_crypto` drains exactly the AES layer below a decompressor, in place**: for `Deflated` / `Bzip2` /
`Zstd` over `CryptoReader::Aes` it is `io::copy(reader, sink)` on that layer - the layer is put back where it was,
decoder state and CRC layer untouched, the count dropped, an error returned -; -/
theorem finish_crypto_aes (fuel : Nat) (z : Gen.E.ZipFileReader T) (g : Gen.AesReaderValid T) (vv : Gen.AesVendorVersion)
    (h : cryptoOf z = some (.Aes g vv)) :
    Gen.E.ZipFileReader.finish_crypto fuel z =
      (voidRes (Rs.E.copyToSink fuel g 0).1, withCrypto (.Aes (Rs.E.copyToSink fuel g 0).2 vv) z) := by
  cases z with
  | NoReader => cases h
  | Raw r => cases h
  | Stored r => cases h
  | Deflated r =>
    simp only [cryptoOf, Option.some.injEq] at h
    unfold Gen.E.ZipFileReader.finish_crypto
    simp only [Id.run, h, withCrypto]
    rcases Rs.E.copyToSink fuel g 0 with ⟨o, g'⟩
    cases o <;> rfl
  | Bzip2 r =>
    simp only [cryptoOf, Option.some.injEq] at h
    unfold Gen.E.ZipFileReader.finish_crypto
    simp only [Id.run, h, withCrypto]
    rcases Rs.E.copyToSink fuel g 0 with ⟨o, g'⟩
    cases o <;> rfl
  | Zstd r =>
    simp only [cryptoOf, Option.some.injEq] at h
    unfold Gen.E.ZipFileReader.finish_crypto
    simp only [Id.run, h, withCrypto]
    rcases Rs.E.copyToSink fuel g 0 with ⟨o, g'⟩
    cases o <;> rfl

/-- … and it does nothing - `Ok(())`, the reader unchanged, no read - in every other case: `NoReader`, `Raw`, `Stored`
(the decoder's end-of-stream is the ciphertext's), or a decompressor over a plaintext / ZipCrypto layer. -/
theorem finish_crypto_other (fuel : Nat) (z : Gen.E.ZipFileReader T)
    (h : ∀ g vv, cryptoOf z ≠ some (.Aes g vv)) :
    Gen.E.ZipFileReader.finish_crypto fuel z = (.ok (), z) := by
  cases z with
  | NoReader => rfl
  | Raw r => rfl
  | Stored r => rfl
  | Deflated r =>
    unfold Gen.E.ZipFileReader.finish_crypto
    rcases hc : r.inner.inner with t | zc | ⟨g, vv⟩
    · simp only [Id.run, hc]; rfl
    · simp only [Id.run, hc]; rfl
    · exact absurd (by simp [cryptoOf, hc]) (h g vv)
  | Bzip2 r =>
    unfold Gen.E.ZipFileReader.finish_crypto
    rcases hc : r.inner.inner with t | zc | ⟨g, vv⟩
    · simp only [Id.run, hc]; rfl
    · simp only [Id.run, hc]; rfl
    · exact absurd (by simp [cryptoOf, hc]) (h g vv)
  | Zstd r =>
    unfold Gen.E.ZipFileReader.finish_crypto
    rcases hc : r.inner.inner.inner with t | zc | ⟨g, vv⟩
    · simp only [Id.run, hc]; rfl
    · simp only [Id.run, hc]; rfl
    · exact absurd (by simp [cryptoOf, hc]) (h g vv)

end generic

/-! ### `finish_crypto` against the model's `finishCrypto` -/

/-- **`finish_crypto` on a decompressor over the AES layer is the model's `finishCrypto … true`** - the drain that
makes a successful end-of-file imply the MAC check (`Props/C16.entry_eof_implies_mac`) -: same outcome, the AES
layer afterwards is the model's state, everything around it untouched.  Fuel `data_remaining + 1` (the model's). -/
theorem tie_finish_crypto [Rs.E.DecOps] (P : AesPrims) (hW : P.WF) (S : Src σ) (hS : S.Contract) (hin : SmallA S)
    (z : @Gen.E.ZipFileReader (dynOf P) _ σ) (v : Valid σ) (vv : Gen.AesVendorVersion)
    (h : @cryptoOf (dynOf P) _ σ z = some (@Gen.E.CryptoReader.Aes (dynOf P) σ (toGen P v) vv)) (hrem : v.dataRemaining < 2 ^ 64) :
    @Gen.E.ZipFileReader.finish_crypto (primsOf P) (dynOf P) _ σ (readOfA S) (v.dataRemaining + 1) z =
      ((unitView P (finishCrypto P S true v)).1,
        @withCrypto (dynOf P) _ σ (@Gen.E.CryptoReader.Aes (dynOf P) σ (unitView P (finishCrypto P S true v)).2 vv) z) := by
  rw [@finish_crypto_aes (primsOf P) (dynOf P) _ σ (readOfA S) (v.dataRemaining + 1) z (toGen P v) vv h]
  have key := tie_copy_to_sink P hW S hS hin (v.dataRemaining + 1) v 0 hrem
  have hf : finishCrypto P S true v = copyToSink P S (v.dataRemaining + 1) v := rfl
  rw [hf, ← key]

/-- a `Stored` entry: nothing to drain on either side -/
theorem tie_finish_crypto_stored [Rs.E.DecOps] (P : AesPrims) (S : Src σ) (fuel : Nat)
    (r : Gen.Crc32Reader (@Gen.E.CryptoReader (dynOf P) σ)) (v : Valid σ) :
    @Gen.E.ZipFileReader.finish_crypto (primsOf P) (dynOf P) _ σ (readOfA S) fuel (@Gen.E.ZipFileReader.Stored (dynOf P) _ σ r) =
        (.ok (), @Gen.E.ZipFileReader.Stored (dynOf P) _ σ r) ∧
      finishCrypto P S false v = (.ok (), v) := ⟨rfl, rfl⟩

/-! ### `ZipFile::get_reader` and `impl Read for ZipFile` -/

section generic2
variable [Rs.AesPrims] [Rs.AesDyn] [Rs.E.DecOps] {T : Type} [Rs.Read T]

/-- `get_reader` on a handle whose reader stack is built: the handle itself -/
theorem get_reader_built (mk) (z : Gen.E.ZipFile T) (h : z.reader ≠ .NoReader) :
    Gen.E.ZipFile.get_reader mk z = some z := by
  unfold Gen.E.ZipFile.get_reader
  obtain ⟨data, cr, rd⟩ := z
  cases rd <;> first | exact absurd rfl h | rfl

/-- `get_reader` on a fresh handle: the pending decryption layer is TAKEN (`None` afterwards) and handed to
`make_reader` with the entry's method and CRC; no pending layer is a panic -/
theorem get_reader_pending (mk) (z : Gen.E.ZipFile T) (h : z.reader = .NoReader) :
    Gen.E.ZipFile.get_reader mk z =
      match z.crypto_reader with
      | none => none
      | some c => (mk z.data.get.compression_method z.data.get.crc32 c).map
          fun r => { z with crypto_reader := none, reader := r } := by
  unfold Gen.E.ZipFile.get_reader
  obtain ⟨data, cr, rd⟩ := z
  cases h
  cases cr with
  | none => rfl
  | some c =>
    dsimp only [Id.run]
    cases hm : mk data.get.compression_method data.get.crc32 c <;> simp [hm] <;> rfl

/-- `Ok(count)` / the failure of a generated call at another result type -/
def failAs {α β : Type} : Rs.IoRes α → Rs.IoRes β
  | .err e => .err e
  | _ => .panic

/-- **`ZipFile::read`**: `get_reader()`, ONE `read` of the reader stack; when - and only when - it answers `Ok(0)`
on a non-empty buffer, `finish_crypto()`, whose error replaces the end-of-file; the count otherwise. -/
theorem zipfile_read_eq (mk) (fuel : Nat) (z z' : Gen.E.ZipFile T) (buf : Bytes)
    (hz : Gen.E.ZipFile.get_reader mk z = some z') :
    Gen.E.ZipFile.read mk fuel z buf =
      (let x := Gen.E.ZipFileReader.read z'.reader buf
       match x.1 with
       | .ok c =>
         if c == 0 && !Rs.isEmpty x.2.2 then
           (let y := Gen.E.ZipFileReader.finish_crypto fuel x.2.1
            match y.1 with
            | .ok _ => (.ok c, { z' with reader := y.2 }, x.2.2)
            | o => (failAs o, { z' with reader := y.2 }, x.2.2))
         else (.ok c, { z' with reader := x.2.1 }, x.2.2)
       | o => (failAs o, { z' with reader := x.2.1 }, x.2.2)) := by
  unfold Gen.E.ZipFile.read
  simp only [Id.run, hz]
  rcases Gen.E.ZipFileReader.read z'.reader buf with ⟨o, rd, b⟩
  cases o with
  | err e => rfl
  | panic => rfl
  | ok c =>
    simp only [Rs.L.id_pure, Rs.L.id_bind, pure_bind]
    by_cases hc : (c == 0 && !Rs.isEmpty b) = true
    · simp only [hc, if_true]
      rcases Gen.E.ZipFileReader.finish_crypto fuel rd with ⟨o2, rd2⟩
      cases o2 <;> rfl
    · simp only [hc]
      rfl

theorem get_reader_none_panics (mk) (fuel : Nat) (z : Gen.E.ZipFile T) (buf : Bytes)
    (hz : Gen.E.ZipFile.get_reader mk z = none) :
    Gen.E.ZipFile.read mk fuel z buf = (.panic, z, buf) := by
  unfold Gen.E.ZipFile.read
  simp only [Id.run, hz]
  rfl

end generic2

/-! ### the shape of `Model.Aes.entryRead` -/

/-- `ZipFile::read` around ANY reader-stack `read` and ANY `finish_crypto` -/
def entryGlue {St : Type} (LR : St → Nat → Out Bytes × St) (FC : St → Out Unit × St) (st : St) (n : Nat) :
    Out Bytes × St :=
  match LR st n with
  | (.ok bs, st') =>
    if bs.length = 0 ∧ n ≠ 0 then
      match FC st' with
      | (.ok _, s) => (.ok bs, s)
      | (.err e, s) => (.err e, s)
      | (.panic m, s) => (.panic m, s)
    else (.ok bs, st')
  | (.err e, st') => (.err e, st')
  | (.panic m, st') => (.panic m, st')

/-- the model's `entryRead` is that glue around `layersRead` (CRC layer ∘ decoder ∘ AES layer) and `finishCrypto` -/
theorem entryRead_eq_glue {δ H : Type} (P : AesPrims) (S : Src σ) (D : Decoder δ) (compressing : Bool)
    (upd : H → Bytes → H) (fin : H → UInt32) (st : EntrySt σ δ H) (n : Nat) :
    entryRead P S D compressing upd fin st n =
      entryGlue (layersRead P S D upd fin)
        (fun st => ((finishCrypto P S compressing st.aes).1, { st with aes := (finishCrypto P S compressing st.aes).2 })) st n := by
  unfold entryRead entryGlue
  rcases layersRead P S D upd fin st n with ⟨o, st'⟩
  cases o with
  | err e => rfl
  | panic m => rfl
  | ok bs =>
    simp only []
    split
    · rcases finishCrypto P S compressing st'.aes with ⟨o2, v'⟩
      cases o2 <;> rfl
    · rfl

section generic3
variable [Rs.AesPrims] [Rs.AesDyn] [Rs.E.DecOps] {T : Type} [Rs.Read T]

/-- what a caller sees of `ZipFileReader::read` with a buffer of `n` bytes -/
def readerView (rd : Gen.E.ZipFileReader T) (n : Nat) : Out Bytes × Gen.E.ZipFileReader T :=
  let x := Gen.E.ZipFileReader.read rd (List.replicate n 0)
  (outRead x.1 x.2.2, x.2.1)

/-- … and of `finish_crypto` -/
def finishView (fuel : Nat) (rd : Gen.E.ZipFileReader T) : Out Unit × Gen.E.ZipFileReader T :=
  let y := Gen.E.ZipFileReader.finish_crypto fuel rd
  (match y.1 with
    | .ok _ => .ok ()
    | .err e => .err (.io e)
    | .panic => .panic "", y.2)

/-- **`ZipFile::read` has the shape of `Model.Aes.entryRead`** (`entryRead_eq_glue`): the same glue, around the
translated `ZipFileReader::read` and the translated `finish_crypto` (tied to `finishCrypto` by `tie_finish_crypto`).
Hypotheses: the reader stack is built (`get_reader_built`; otherwise `get_reader_pending`), and the `read` below keeps
the `Read` contract on the buffer (a Rust slice cannot change its length; the count is within it). -/
theorem tie_zipfile_read_glue (mk) (fuel : Nat) (z : Gen.E.ZipFile T) (n : Nat) (hn : n < 2 ^ 64)
    (hb : z.reader ≠ .NoReader)
    (hlen : (Gen.E.ZipFileReader.read z.reader (List.replicate n 0)).2.2.length = n) :
    (fun g : Rs.IoRes UInt64 × Gen.E.ZipFile T × Bytes => (outRead g.1 g.2.2, g.2.1.reader))
        (Gen.E.ZipFile.read mk fuel z (List.replicate n 0)) =
      entryGlue readerView (finishView fuel) z.reader n := by
  rw [zipfile_read_eq mk fuel z z _ (get_reader_built mk z hb)]
  unfold entryGlue readerView finishView
  rcases hx : Gen.E.ZipFileReader.read z.reader (List.replicate n 0) with ⟨o, rd, b⟩
  rw [hx] at hlen
  simp only [] at hlen
  cases o with
  | err e => rfl
  | panic => rfl
  | ok c =>
    simp only [outRead]
    have he : Rs.isEmpty b = decide (n = 0) := by
      subst hlen
      cases b <;> simp [Rs.isEmpty]
    have hc0 : ((b.take c.toNat).length = 0 ∧ n ≠ 0) ↔ (c == 0 && !Rs.isEmpty b) = true := by
      rw [he]
      simp only [List.length_take, hlen, Bool.and_eq_true, beq_iff_eq, Bool.not_eq_true', decide_eq_false_iff_not]
      constructor
      · rintro ⟨h1, h2⟩
        refine ⟨?_, h2⟩
        apply UInt64.toNat_inj.mp
        have : c.toNat = 0 := by omega
        rw [this]; rfl
      · rintro ⟨h1, h2⟩
        subst h1
        exact ⟨by simp, h2⟩
    by_cases hc : (c == 0 && !Rs.isEmpty b) = true
    · rw [if_pos hc, if_pos (hc0.mpr hc)]
      rcases Gen.E.ZipFileReader.finish_crypto fuel rd with ⟨o2, rd2⟩
      cases o2 <;> rfl
    · have hn0 : ¬ ((b.take c.toNat).length = 0 ∧ n ≠ 0) := fun h => hc (hc0.mp h)
      rw [if_neg hc, if_neg hn0]

end generic3

end ZipVerif.Tie.EntryRead
