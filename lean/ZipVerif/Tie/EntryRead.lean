import ZipVerif.Gen.ReadEntry
import ZipVerif.Tie.AesLayer
import ZipVerif.Model.Aes
/-
Tie obligations for the `Read` implementations of the entry handle (src/read.rs; tier T6, ENTRY mode of rs2lean, helper
t6r4, `rs2lean/src/t6r4b.rs`, vocabulary `Basic/RsE.lean`): `impl Read for CryptoReader`, `impl Read for
ZipFileReader`, `ZipFileReader::finish_crypto` (the end-of-entry authentication drain of the D12 repair),
`ZipFile::get_reader`, `impl Read for ZipFile`.  All are regenerated from the source on this run
(`Gen/ReadEntry.lean`, declarations `Gen.E.*`), over the LAYER translation's REAL structures - `Gen.Crc32Reader R`,
`Gen.ZipCryptoReaderValid R`, `Gen.AesReaderValid R` - whose `read` functions they call.

  crypto_read_* / reader_read_*   the dispatch: each variant calls the `read` of the layer it holds (`NoReader` panics).
  finish_crypto_aes / _other      `finish_crypto` is `io::copy(aes_layer, sink)` on the AES layer below a decompressor
                                  (`Deflated` / `Bzip2` / `Zstd`: `get_mut` twice, three times through the `BufReader`),
                                  the layer put back in place, nothing else touched; `Ok(())` without a read otherwise.
  rd_toGen                        `impl Read for AesReaderValid` as seen by a wrapper = `Model.Aes.Valid.read`
                                  (from `Tie/AesLayer.tie_aes_read`).
  tie_copy_to_sink                std's `io::copy(.., sink())` loop over it = `Model.Aes.copyToSink` (every fuel).
  tie_finish_crypto               hence `finish_crypto` = `Model.Aes.finishCrypto … true` with the model's fuel
                                  `data_remaining + 1`: the function `Props/C16.entry_eof_implies_mac` reasons about.
  get_reader_built / _pending     `get_reader`: identity on a built handle; else `crypto_reader.take()` handed to
                                  `make_reader(method, crc32, _)`, a missing layer or an unsupported method panics.
  zipfile_read_eq                 `ZipFile::read` = one `read` of the stack; on `Ok(0)` with a non-empty buffer - and only
                                  then - `finish_crypto()`, whose error replaces the end-of-file.
  entryRead_eq_glue,              `Model.Aes.entryRead` and the translated `ZipFile::read` are THE SAME glue
  tie_zipfile_read_glue           (`entryGlue`) around (`layersRead`, `finishCrypto`) resp. (the translated
                                  `ZipFileReader::read`, the translated `finish_crypto`).

  runDecG_eq, tie_layers_read,    the three translated layers COMPOSED through their `Read` instances: a decoder strategy
  tie_entry_read                  (`Model.Aes.DecStep`, instantiating the named parameter `DecOps`) run against
                                  `CryptoReader::Aes` through `impl Read for CryptoReader` is the model's `runDec`;
                                  `Crc32Reader::read` on top is `layersRead`; hence `ZipFile::read` on a handle
                                  reading a Deflated AES entry IS `Model.Aes.entryRead … true` - the function
                                  `entry_eof_implies_mac` / `entryDrain` are stated about (same bytes / error / panic,
                                  the handle's reader afterwards = the model's state), for every decoder strategy that
                                  keeps the `Read` contract (`GoodDec`: at most `n` bytes back, `io::Error`s, pulls below
                                  2^64), every source, every primitive triple.
  tie_entry_read_bzip2,           the same for `Bzip2` (`tie_layers_read` is stated for every decoder kind), and for a
  tie_entry_read_stored           `Stored` entry - `Crc32Reader<CryptoReader::Aes>` directly, `finish_crypto` a no-op on
                                  both sides - against `entryRead … storedDec false` (`entry_eof_implies_mac_stored`).
                                  (`Zstd` adds `io::BufReader` between decoder and layer: two strategies composed; left.)

Trusted vocabulary (`Basic/RsE.lean`): the `Take` over the archive's reader is an arbitrary `Rs.Read`; the external
decoders are `E.Dec` with ONE `read` call an arbitrary function (`DecOps`, a named parameter - `finish_crypto` is
proved for every instance); `io::copy(r, sink())` = reads with the 8 KiB buffer until `Ok(0)` or an error (`Interrupted`
not among the modelled kinds); `make_reader` a named parameter `mk` (translated and tied in READ mode:
`Tie/ReaderGlue2.tie_make_reader`).  Hypotheses: the inner source keeps the `Read` contract (`Src.Contract`,
`SmallA`), `data_remaining < 2^64`.
-/

set_option linter.unusedSimpArgs false
set_option linter.unusedVariables false
namespace ZipVerif.Tie.EntryRead
open ZipVerif ZipVerif.Model.Aes ZipVerif.Tie.Layers ZipVerif.Tie.AesLayer

variable {σ : Type}

/-! ### the AES layer as a member of `Rs.Read` (`impl Read for AesReaderValid`) -/

/-- a model outcome of `Valid.read` as what a wrapper sees of one `read` call -/
def rdView (P : AesPrims) (m : Out Bytes × Valid σ) : Rs.RdRes × @Gen.AesReaderValid (dynOf P) σ :=
  (match m.1 with
    | .ok bs => .ok bs
    | .err (.io k) => .err k
    | .err _ => .panic
    | .panic _ => .panic, toGen P m.2)

theorem read_rem_le (P : AesPrims) (S : Src σ) (v : Valid σ) (n : Nat) :
    (Valid.read P S v n).2.dataRemaining ≤ v.dataRemaining := by
  unfold Valid.read
  by_cases h0 : v.dataRemaining = 0
  · rw [if_pos h0]
    by_cases hf : v.finalized = true
    · rw [if_pos hf]; exact Nat.le_refl _
    · rw [if_neg hf]
      dsimp only
      rcases readExact S v.inner AUTH_CODE_LENGTH with ⟨o, s⟩
      cases o with
      | ok code => dsimp only; split <;> exact Nat.le_refl _
      | err e => exact Nat.le_refl _
      | panic m => exact Nat.le_refl _
  · rw [if_neg h0]
    dsimp only
    rcases S.rd v.inner (min v.dataRemaining n) with ⟨r, s'⟩
    cases r with
    | err k => exact Nat.le_refl _
    | ok bs =>
      dsimp only
      split
      · exact Nat.le_refl _
      · split
        · exact Nat.le_refl _
        · split
          · exact Nat.le_refl _
          · rcases cryptInPlace P v.key v.ctr bs with x | e | m
            · dsimp only
              split
              · split
                · exact Nat.sub_le _ _
                · rcases readExact S s' AUTH_CODE_LENGTH with ⟨o, s2⟩
                  cases o with
                  | ok code => dsimp only; split <;> exact Nat.sub_le _ _
                  | err e => exact Nat.sub_le _ _
                  | panic m => exact Nat.sub_le _ _
              · exact Nat.sub_le _ _
            · exact Nat.sub_le _ _
            · exact Nat.sub_le _ _

theorem rd_asRead {R : Type} (f : R → Bytes → Rs.IoRes UInt64 × R × Bytes) (r : R) (n : Nat) :
    @Rs.Read.rd R (Rs.E.asRead f) r n = match f r (List.replicate n 0) with
      | (.ok c, r', b) => (.ok (b.take c.toNat), r')
      | (.err e, r', _) => (.err e, r')
      | (.panic, r', _) => (.panic, r') := rfl

/-- **`impl Read for AesReaderValid` seen by a wrapper is the model's `Valid.read`** (from `tie_aes_read`) -/
theorem rd_toGen (P : AesPrims) (hW : P.WF) (S : Src σ) (hS : S.Contract) (hin : SmallA S) (v : Valid σ) (n : Nat)
    (hn : n < 2 ^ 64) (hrem : v.dataRemaining < 2 ^ 64) :
    @Rs.Read.rd _ (@Gen.E.read_AesReaderValid (primsOf P) (dynOf P) σ (readOfA S)) (toGen P v) n
      = rdView P (Valid.read P S v n) := by
  have hlen : (List.replicate n (0 : UInt8)).length = n := List.length_replicate
  have key := tie_aes_read P hW S v (List.replicate n 0) (by rw [hlen]; exact hn) hrem hin
    (fun bs s' h => Or.inl (by
      have := hS _ _ _ _ h
      rw [hlen] at this ⊢
      exact Nat.le_trans this (Nat.min_le_right _ _)))
  rw [hlen] at key
  show @Rs.Read.rd _ (Rs.E.asRead _) _ _ = _
  rw [rd_asRead]
  rcases hg : @Gen.AesReaderValid.read (primsOf P) (dynOf P) σ (readOfA S) (toGen P v) (List.replicate n 0) with ⟨g1, g2, g3⟩
  rw [hg] at key
  rcases hm : Valid.read P S v n with ⟨m1, m2⟩
  rw [hm] at key
  simp only [Prod.mk.injEq] at key
  obtain ⟨k1, k2⟩ := key
  subst k2
  unfold rdView
  cases g1 with
  | ok c =>
    cases m1 <;> simp_all [outRead, eraseMsg]
  | err e =>
    cases m1 <;> simp_all [outRead, eraseMsg]
    subst k1; rfl
  | panic =>
    cases m1 <;> simp_all [outRead, eraseMsg]

/-! ### `io::copy(reader, &mut io::sink())` over the AES layer is the model's `copyToSink` -/

/-- a model outcome of `copyToSink` / `finishCrypto` in the vocabulary of the generated code -/
def unitView (P : AesPrims) (m : Out Unit × Valid σ) : Rs.IoRes Unit × @Gen.AesReaderValid (dynOf P) σ :=
  (match m.1 with
    | .ok _ => .ok ()
    | .err (.io k) => .err k
    | .err _ => .panic
    | .panic _ => .panic, toGen P m.2)

/-- the count `io::copy` returns is discarded by `finish_crypto` -/
def voidRes {α : Type} : Rs.IoRes α → Rs.IoRes Unit
  | .ok _ => .ok ()
  | .err e => .err e
  | .panic => .panic

theorem tie_copy_to_sink (P : AesPrims) (hW : P.WF) (S : Src σ) (hS : S.Contract) (hin : SmallA S) :
    ∀ (f : Nat) (v : Valid σ) (acc : UInt64), v.dataRemaining < 2 ^ 64 →
    (fun g : Rs.IoRes UInt64 × @Gen.AesReaderValid (dynOf P) σ => (voidRes g.1, g.2))
        (@Rs.E.copyToSink _ (@Gen.E.read_AesReaderValid (primsOf P) (dynOf P) σ (readOfA S)) f (toGen P v) acc)
      = unitView P (copyToSink P S f v) := by
  intro f
  induction f with
  | zero => intro v acc _; rfl
  | succ f ih =>
    intro v acc hrem
    unfold Rs.E.copyToSink copyToSink
    rw [rd_toGen P hW S hS hin v 8192 (by decide) hrem]
    have hle := read_rem_le P S v 8192
    rcases hv : Valid.read P S v 8192 with ⟨m1, m2⟩
    rw [hv] at hle
    cases m1 with
    | ok bs =>
      simp only [rdView]
      by_cases hb : bs.isEmpty = true
      · simp only [hb, if_true]; rfl
      · simp only [hb, if_false]
        exact ih m2 _ (Nat.lt_of_le_of_lt hle hrem)
    | err e => cases e <;> rfl
    | panic m => rfl

/-! ### the dispatch of `impl Read for CryptoReader` / `impl Read for ZipFileReader` -/

section genericC
variable [Rs.AesPrims] [Rs.AesDyn] {T : Type} [Rs.Read T]

/-- put a layer's `read` result back under its constructor -/
def under {A B : Type} (ctor : A → B) (x : Rs.IoRes UInt64 × A × Bytes) : Rs.IoRes UInt64 × B × Bytes :=
  (x.1, ctor x.2.1, x.2.2)

/-- `CryptoReader::read` calls the `read` of the layer it holds - `Take::read`, `ZipCryptoReaderValid::read`,
`AesReaderValid::read` - and nothing else; the layer stays under its constructor. -/
theorem crypto_read_plain (r : T) (buf : Bytes) :
    Gen.E.CryptoReader.read (.Plaintext r) buf = under .Plaintext (Rs.L.read r buf) := rfl
theorem crypto_read_zc (r : Gen.ZipCryptoReaderValid T) (buf : Bytes) :
    Gen.E.CryptoReader.read (.ZipCrypto r) buf = under .ZipCrypto (Gen.ZipCryptoReaderValid.read r buf) := rfl
theorem crypto_read_aes (r : Gen.AesReaderValid T) (vv : Gen.AesVendorVersion) (buf : Bytes) :
    Gen.E.CryptoReader.read (.Aes r vv) buf = under (fun r => .Aes r vv) (Gen.AesReaderValid.read r buf) := rfl

end genericC

section generic
variable [Rs.AesPrims] [Rs.AesDyn] [Rs.E.DecOps] {T : Type} [Rs.Read T]

/-- `ZipFileReader::read`: `NoReader` panics; `Raw` reads the `Take`; every other variant calls
`Crc32Reader::read` of the stack it holds. -/
theorem reader_read_none (buf : Bytes) :
    Gen.E.ZipFileReader.read (.NoReader : Gen.E.ZipFileReader T) buf = (.panic, .NoReader, buf) := rfl
theorem reader_read_raw (r : T) (buf : Bytes) :
    Gen.E.ZipFileReader.read (.Raw r) buf = under .Raw (Rs.L.read r buf) := rfl
theorem reader_read_stored (r) (buf : Bytes) :
    Gen.E.ZipFileReader.read (.Stored r : Gen.E.ZipFileReader T) buf = under .Stored (Gen.Crc32Reader.read r buf) := rfl
theorem reader_read_deflated (r) (buf : Bytes) :
    Gen.E.ZipFileReader.read (.Deflated r : Gen.E.ZipFileReader T) buf = under .Deflated (Gen.Crc32Reader.read r buf) := rfl
theorem reader_read_bzip2 (r) (buf : Bytes) :
    Gen.E.ZipFileReader.read (.Bzip2 r : Gen.E.ZipFileReader T) buf = under .Bzip2 (Gen.Crc32Reader.read r buf) := rfl
theorem reader_read_zstd (r) (buf : Bytes) :
    Gen.E.ZipFileReader.read (.Zstd r : Gen.E.ZipFileReader T) buf = under .Zstd (Gen.Crc32Reader.read r buf) := rfl

/-! ### `finish_crypto` -/

/-- the decryption layer a compressing variant holds below its decoder -/
def cryptoOf : Gen.E.ZipFileReader T → Option (Gen.E.CryptoReader T)
  | .Deflated r => some r.inner.inner
  | .Bzip2 r => some r.inner.inner
  | .Zstd r => some r.inner.inner.inner
  | _ => none

/-- … replaced -/
def withCrypto (c : Gen.E.CryptoReader T) : Gen.E.ZipFileReader T → Gen.E.ZipFileReader T
  | .Deflated r => .Deflated { r with inner := { r.inner with inner := c } }
  | .Bzip2 r => .Bzip2 { r with inner := { r.inner with inner := c } }
  | .Zstd r => .Zstd { r with inner := { r.inner with inner := { r.inner.inner with inner := c } } }
  | x => x

/-- **`finish_crypto` drains exactly the AES layer below a decompressor, in place**: for `Deflated` / `Bzip2` /
`Zstd` over `CryptoReader::Aes` it is `io::copy(reader, sink)` on that layer - the layer is put back where it was,
decoder state and CRC layer untouched, the count dropped, an error returned -; -/
theorem finish_crypto_aes (fuel : Nat) (z : Gen.E.ZipFileReader T) (g : Gen.AesReaderValid T) (vv : Gen.AesVendorVersion)
    (h : cryptoOf z = some (.Aes g vv)) :
    Gen.E.ZipFileReader.finish_crypto fuel z =
      (voidRes (Rs.E.copyToSink fuel g 0).1, withCrypto (.Aes (Rs.E.copyToSink fuel g 0).2 vv) z) := by
  cases z with
  | NoReader => cases h
  | Raw r => cases h
  | Stored r => cases h
  | Deflated r =>
    simp only [cryptoOf, Option.some.injEq] at h
    unfold Gen.E.ZipFileReader.finish_crypto
    simp only [Id.run, h, withCrypto]
    rcases Rs.E.copyToSink fuel g 0 with ⟨o, g'⟩
    cases o <;> rfl
  | Bzip2 r =>
    simp only [cryptoOf, Option.some.injEq] at h
    unfold Gen.E.ZipFileReader.finish_crypto
    simp only [Id.run, h, withCrypto]
    rcases Rs.E.copyToSink fuel g 0 with ⟨o, g'⟩
    cases o <;> rfl
  | Zstd r =>
    simp only [cryptoOf, Option.some.injEq] at h
    unfold Gen.E.ZipFileReader.finish_crypto
    simp only [Id.run, h, withCrypto]
    rcases Rs.E.copyToSink fuel g 0 with ⟨o, g'⟩
    cases o <;> rfl

/-- … and it does nothing - `Ok(())`, the reader unchanged, no read - in every other case: `NoReader`, `Raw`, `Stored`
(the decoder's end-of-stream is the ciphertext's), or a decompressor over a plaintext / ZipCrypto layer. -/
theorem finish_crypto_other (fuel : Nat) (z : Gen.E.ZipFileReader T)
    (h : ∀ g vv, cryptoOf z ≠ some (.Aes g vv)) :
    Gen.E.ZipFileReader.finish_crypto fuel z = (.ok (), z) := by
  cases z with
  | NoReader => rfl
  | Raw r => rfl
  | Stored r => rfl
  | Deflated r =>
    unfold Gen.E.ZipFileReader.finish_crypto
    rcases hc : r.inner.inner with t | zc | ⟨g, vv⟩
    · simp only [Id.run, hc]; rfl
    · simp only [Id.run, hc]; rfl
    · exact absurd (by simp [cryptoOf, hc]) (h g vv)
  | Bzip2 r =>
    unfold Gen.E.ZipFileReader.finish_crypto
    rcases hc : r.inner.inner with t | zc | ⟨g, vv⟩
    · simp only [Id.run, hc]; rfl
    · simp only [Id.run, hc]; rfl
    · exact absurd (by simp [cryptoOf, hc]) (h g vv)
  | Zstd r =>
    unfold Gen.E.ZipFileReader.finish_crypto
    rcases hc : r.inner.inner.inner with t | zc | ⟨g, vv⟩
    · simp only [Id.run, hc]; rfl
    · simp only [Id.run, hc]; rfl
    · exact absurd (by simp [cryptoOf, hc]) (h g vv)

end generic

/-! ### `finish_crypto` against the model's `finishCrypto` -/

/-- **`finish_crypto` on a decompressor over the AES layer is the model's `finishCrypto … true`** - the drain that
makes a successful end-of-file imply the MAC check (`Props/C16.entry_eof_implies_mac`) -: same outcome, the AES
layer afterwards is the model's state, everything around it untouched.  Fuel `data_remaining + 1` (the model's). -/
theorem tie_finish_crypto [Rs.E.DecOps] (P : AesPrims) (hW : P.WF) (S : Src σ) (hS : S.Contract) (hin : SmallA S)
    (z : @Gen.E.ZipFileReader (dynOf P) _ σ) (v : Valid σ) (vv : Gen.AesVendorVersion)
    (h : @cryptoOf (dynOf P) _ σ z = some (@Gen.E.CryptoReader.Aes (dynOf P) σ (toGen P v) vv)) (hrem : v.dataRemaining < 2 ^ 64) :
    @Gen.E.ZipFileReader.finish_crypto (primsOf P) (dynOf P) _ σ (readOfA S) (v.dataRemaining + 1) z =
      ((unitView P (finishCrypto P S true v)).1,
        @withCrypto (dynOf P) _ σ (@Gen.E.CryptoReader.Aes (dynOf P) σ (unitView P (finishCrypto P S true v)).2 vv) z) := by
  rw [@finish_crypto_aes (primsOf P) (dynOf P) _ σ (readOfA S) (v.dataRemaining + 1) z (toGen P v) vv h]
  have key := tie_copy_to_sink P hW S hS hin (v.dataRemaining + 1) v 0 hrem
  have hf : finishCrypto P S true v = copyToSink P S (v.dataRemaining + 1) v := rfl
  rw [hf, ← key]

/-- a `Stored` entry: nothing to drain on either side -/
theorem tie_finish_crypto_stored [Rs.E.DecOps] (P : AesPrims) (S : Src σ) (fuel : Nat)
    (r : Gen.Crc32Reader (@Gen.E.CryptoReader (dynOf P) σ)) (v : Valid σ) :
    @Gen.E.ZipFileReader.finish_crypto (primsOf P) (dynOf P) _ σ (readOfA S) fuel (@Gen.E.ZipFileReader.Stored (dynOf P) _ σ r) =
        (.ok (), @Gen.E.ZipFileReader.Stored (dynOf P) _ σ r) ∧
      finishCrypto P S false v = (.ok (), v) := ⟨rfl, rfl⟩

/-! ### `ZipFile::get_reader` and `impl Read for ZipFile` -/

section generic2
variable [Rs.AesPrims] [Rs.AesDyn] [Rs.E.DecOps] {T : Type} [Rs.Read T]

/-- `get_reader` on a handle whose reader stack is built: the handle itself -/
theorem get_reader_built (mk) (z : Gen.E.ZipFile T) (h : z.reader ≠ .NoReader) :
    Gen.E.ZipFile.get_reader mk z = some z := by
  unfold Gen.E.ZipFile.get_reader
  obtain ⟨data, cr, rd⟩ := z
  cases rd <;> first | exact absurd rfl h | rfl

/-- `get_reader` on a fresh handle: the pending decryption layer is TAKEN (`None` afterwards) and handed to
`make_reader` with the entry's method and CRC; no pending layer is a panic -/
theorem get_reader_pending (mk) (z : Gen.E.ZipFile T) (h : z.reader = .NoReader) :
    Gen.E.ZipFile.get_reader mk z =
      match z.crypto_reader with
      | none => none
      | some c => (mk z.data.get.compression_method z.data.get.crc32 c).map
          fun r => { z with crypto_reader := none, reader := r } := by
  unfold Gen.E.ZipFile.get_reader
  obtain ⟨data, cr, rd⟩ := z
  cases h
  cases cr with
  | none => rfl
  | some c =>
    dsimp only [Id.run]
    cases hm : mk data.get.compression_method data.get.crc32 c <;> simp [hm] <;> rfl

/-- `Ok(count)` / the failure of a generated call at another result type -/
def failAs {α β : Type} : Rs.IoRes α → Rs.IoRes β
  | .err e => .err e
  | _ => .panic

/-- **`ZipFile::read`**: `get_reader()`, ONE `read` of the reader stack; when - and only when - it answers `Ok(0)`
on a non-empty buffer, `finish_crypto()`, whose error replaces the end-of-file; the count otherwise. -/
theorem zipfile_read_eq (mk) (fuel : Nat) (z z' : Gen.E.ZipFile T) (buf : Bytes)
    (hz : Gen.E.ZipFile.get_reader mk z = some z') :
    Gen.E.ZipFile.read mk fuel z buf =
      (let x := Gen.E.ZipFileReader.read z'.reader buf
       match x.1 with
       | .ok c =>
         if c == 0 && !Rs.isEmpty x.2.2 then
           (let y := Gen.E.ZipFileReader.finish_crypto fuel x.2.1
            match y.1 with
            | .ok _ => (.ok c, { z' with reader := y.2 }, x.2.2)
            | o => (failAs o, { z' with reader := y.2 }, x.2.2))
         else (.ok c, { z' with reader := x.2.1 }, x.2.2)
       | o => (failAs o, { z' with reader := x.2.1 }, x.2.2)) := by
  unfold Gen.E.ZipFile.read
  simp only [Id.run, hz]
  rcases Gen.E.ZipFileReader.read z'.reader buf with ⟨o, rd, b⟩
  cases o with
  | err e => rfl
  | panic => rfl
  | ok c =>
    simp only [Rs.L.id_pure, Rs.L.id_bind, pure_bind]
    by_cases hc : (c == 0 && !Rs.isEmpty b) = true
    · simp only [hc, if_true]
      rcases Gen.E.ZipFileReader.finish_crypto fuel rd with ⟨o2, rd2⟩
      cases o2 <;> rfl
    · simp only [hc]
      rfl

theorem get_reader_none_panics (mk) (fuel : Nat) (z : Gen.E.ZipFile T) (buf : Bytes)
    (hz : Gen.E.ZipFile.get_reader mk z = none) :
    Gen.E.ZipFile.read mk fuel z buf = (.panic, z, buf) := by
  unfold Gen.E.ZipFile.read
  simp only [Id.run, hz]
  rfl

end generic2

/-! ### the shape of `Model.Aes.entryRead` -/

/-- `ZipFile::read` around ANY reader-stack `read` and ANY `finish_crypto` -/
def entryGlue {St : Type} (LR : St → Nat → Out Bytes × St) (FC : St → Out Unit × St) (st : St) (n : Nat) :
    Out Bytes × St :=
  match LR st n with
  | (.ok bs, st') =>
    if bs.length = 0 ∧ n ≠ 0 then
      match FC st' with
      | (.ok _, s) => (.ok bs, s)
      | (.err e, s) => (.err e, s)
      | (.panic m, s) => (.panic m, s)
    else (.ok bs, st')
  | (.err e, st') => (.err e, st')
  | (.panic m, st') => (.panic m, st')

/-- the model's `entryRead` is that glue around `layersRead` (CRC layer ∘ decoder ∘ AES layer) and `finishCrypto` -/
theorem entryRead_eq_glue {δ H : Type} (P : AesPrims) (S : Src σ) (D : Decoder δ) (compressing : Bool)
    (upd : H → Bytes → H) (fin : H → UInt32) (st : EntrySt σ δ H) (n : Nat) :
    entryRead P S D compressing upd fin st n =
      entryGlue (layersRead P S D upd fin)
        (fun st => ((finishCrypto P S compressing st.aes).1, { st with aes := (finishCrypto P S compressing st.aes).2 })) st n := by
  unfold entryRead entryGlue
  rcases layersRead P S D upd fin st n with ⟨o, st'⟩
  cases o with
  | err e => rfl
  | panic m => rfl
  | ok bs =>
    simp only []
    split
    · rcases finishCrypto P S compressing st'.aes with ⟨o2, v'⟩
      cases o2 <;> rfl
    · rfl

section generic3
variable [Rs.AesPrims] [Rs.AesDyn] [Rs.E.DecOps] {T : Type} [Rs.Read T]

/-- what a caller sees of `ZipFileReader::read` with a buffer of `n` bytes -/
def readerView (rd : Gen.E.ZipFileReader T) (n : Nat) : Out Bytes × Gen.E.ZipFileReader T :=
  let x := Gen.E.ZipFileReader.read rd (List.replicate n 0)
  (outRead x.1 x.2.2, x.2.1)

/-- … and of `finish_crypto` -/
def finishView (fuel : Nat) (rd : Gen.E.ZipFileReader T) : Out Unit × Gen.E.ZipFileReader T :=
  let y := Gen.E.ZipFileReader.finish_crypto fuel rd
  (match y.1 with
    | .ok _ => .ok ()
    | .err e => .err (.io e)
    | .panic => .panic "", y.2)

/-- **`ZipFile::read` has the shape of `Model.Aes.entryRead`** (`entryRead_eq_glue`): the same glue, around the
translated `ZipFileReader::read` and the translated `finish_crypto` (tied to `finishCrypto` by `tie_finish_crypto`).
Hypotheses: the reader stack is built (`get_reader_built`; otherwise `get_reader_pending`), and the `read` below keeps
the `Read` contract on the buffer (a Rust slice cannot change its length; the count is within it). -/
theorem tie_zipfile_read_glue (mk) (fuel : Nat) (z : Gen.E.ZipFile T) (n : Nat) (hn : n < 2 ^ 64)
    (hb : z.reader ≠ .NoReader)
    (hlen : (Gen.E.ZipFileReader.read z.reader (List.replicate n 0)).2.2.length = n) :
    (fun g : Rs.IoRes UInt64 × Gen.E.ZipFile T × Bytes => (outRead g.1 g.2.2, g.2.1.reader))
        (Gen.E.ZipFile.read mk fuel z (List.replicate n 0)) =
      entryGlue readerView (finishView fuel) z.reader n := by
  rw [zipfile_read_eq mk fuel z z _ (get_reader_built mk z hb)]
  unfold entryGlue readerView finishView
  rcases hx : Gen.E.ZipFileReader.read z.reader (List.replicate n 0) with ⟨o, rd, b⟩
  rw [hx] at hlen
  simp only [] at hlen
  cases o with
  | err e => rfl
  | panic => rfl
  | ok c =>
    simp only [outRead]
    have he : Rs.isEmpty b = decide (n = 0) := by
      subst hlen
      cases b <;> simp [Rs.isEmpty]
    have hc0 : ((b.take c.toNat).length = 0 ∧ n ≠ 0) ↔ (c == 0 && !Rs.isEmpty b) = true := by
      rw [he]
      simp only [List.length_take, hlen, Bool.and_eq_true, beq_iff_eq, Bool.not_eq_true', decide_eq_false_iff_not]
      constructor
      · rintro ⟨h1, h2⟩
        refine ⟨?_, h2⟩
        apply UInt64.toNat_inj.mp
        have : c.toNat = 0 := by omega
        rw [this]; rfl
      · rintro ⟨h1, h2⟩
        subst h1
        exact ⟨by simp, h2⟩
    by_cases hc : (c == 0 && !Rs.isEmpty b) = true
    · rw [if_pos hc, if_pos (hc0.mpr hc)]
      rcases Gen.E.ZipFileReader.finish_crypto fuel rd with ⟨o2, rd2⟩
      cases o2 <;> rfl
    · have hn0 : ¬ ((b.take c.toNat).length = 0 ∧ n ≠ 0) := fun h => hc (hc0.mp h)
      rw [if_neg hc, if_neg hn0]

end generic3

/-! ### composing the layers: `ZipFileReader::read` on a `Deflated` / `Bzip2` stack over the AES layer is `layersRead` -/

/-- a model outcome as what a `Read` caller sees -/
def toRd : Out Bytes → Rs.RdRes
  | .ok bs => .ok bs
  | .err (.io k) => .err k
  | .err _ => .panic
  | .panic _ => .panic

/-- one `read` call of a decoder strategy against ANY reader below it (through its `Read` instance) -/
def runDecG {δ R : Type} [Rs.Read R] (d0 : δ) : DecStep δ → R → Rs.RdRes × δ × R
  | .done r d, i => (toRd r, d, i)
  | .pull k cont, i =>
    match Rs.Read.rd i k with
    | (.ok bs, i') => runDecG d0 (cont (.ok bs)) i'
    | (.err e, i') => runDecG d0 (cont (.err (.io e))) i'
    | (.panic, i') => (.panic, d0, i')

/-- the model's arbitrary decoder strategy as the named parameter `DecOps` of the generated code -/
@[instance_reducible] def decOpsOf {δ : Type} (D : Decoder δ) : Rs.E.DecOps :=
  ⟨fun _ => δ, fun _ {_} _ st inner n => runDecG st (D.read st n) inner⟩

/-- what the Tie asks of a decoder: it keeps the `Read` contract towards its caller (at most `n` bytes, fewer than
2^64), reports failures as `io::Error`s, and asks the reader below for fewer than 2^64 bytes at a time -/
inductive GoodStep {δ : Type} (n : Nat) : DecStep δ → Prop
  | ok (bs : Bytes) (d : δ) (h1 : bs.length ≤ n) (h2 : bs.length < 2 ^ 64) : GoodStep n (.done (.ok bs) d)
  | err (k : IoKind) (d : δ) : GoodStep n (.done (.err (.io k)) d)
  | panic (m : String) (d : δ) : GoodStep n (.done (.panic m) d)
  | pull (k : Nat) (cont : InnerRes → DecStep δ) (hk : k < 2 ^ 64) (h : ∀ r, GoodStep n (cont r)) :
      GoodStep n (.pull k cont)

def GoodDec {δ : Type} (D : Decoder δ) : Prop := ∀ d n, GoodStep n (D.read d n)

theorem rd_crypto_aes (P : AesPrims) (S : Src σ) (g : @Gen.AesReaderValid (dynOf P) σ) (vv : Gen.AesVendorVersion) (k : Nat) :
    @Rs.Read.rd _ (@Gen.E.read_CryptoReader (primsOf P) (dynOf P) σ (readOfA S)) (@Gen.E.CryptoReader.Aes (dynOf P) σ g vv) k =
      ((@Rs.Read.rd _ (@Gen.E.read_AesReaderValid (primsOf P) (dynOf P) σ (readOfA S)) g k).1,
        @Gen.E.CryptoReader.Aes (dynOf P) σ (@Rs.Read.rd _ (@Gen.E.read_AesReaderValid (primsOf P) (dynOf P) σ (readOfA S)) g k).2 vv) := by
  show @Rs.Read.rd _ (Rs.E.asRead _) _ _ = (( @Rs.Read.rd _ (Rs.E.asRead _) _ _).1, _)
  rw [rd_asRead, rd_asRead]
  rw [@crypto_read_aes (primsOf P) (dynOf P) σ (readOfA S) g vv]
  unfold under
  rcases @Gen.AesReaderValid.read (primsOf P) (dynOf P) σ (readOfA S) g (List.replicate k 0) with ⟨o, g', b⟩
  cases o <;> rfl

/-- `Valid.read` fails with `io::Error`s only (read off `rd_toGen`) -/
theorem read_err_io (P : AesPrims) (hW : P.WF) (S : Src σ) (hS : S.Contract) (hin : SmallA S) (v : Valid σ) (n : Nat)
    (hn : n < 2 ^ 64) (hrem : v.dataRemaining < 2 ^ 64) (e : ZErr) (v' : Valid σ)
    (h : Valid.read P S v n = (.err e, v')) : ∃ k, e = .io k := by
  have hlen : (List.replicate n (0 : UInt8)).length = n := List.length_replicate
  have key := tie_aes_read P hW S v (List.replicate n 0) (by rw [hlen]; exact hn) hrem hin
    (fun bs s' h => Or.inl (by
      have := hS _ _ _ _ h
      rw [hlen] at this ⊢
      exact Nat.le_trans this (Nat.min_le_right _ _)))
  rw [hlen, h] at key
  rcases hg : @Gen.AesReaderValid.read (primsOf P) (dynOf P) σ (readOfA S) (toGen P v) (List.replicate n 0) with ⟨g1, g2, g3⟩
  rw [hg] at key
  simp only [Prod.mk.injEq, eraseMsg] at key
  cases g1 <;> simp [outRead] at key
  exact ⟨_, key.1.symm⟩

/-- **a decoder call against `CryptoReader::Aes` through the `Read` instances is the model's `runDec`** -/
theorem runDecG_eq {δ : Type} (P : AesPrims) (hW : P.WF) (S : Src σ) (hS : S.Contract) (hin : SmallA S) (d0 : δ)
    (vv : Gen.AesVendorVersion) (n : Nat) : ∀ (step : DecStep δ), GoodStep n step → ∀ (v : Valid σ), v.dataRemaining < 2 ^ 64 →
    @runDecG δ _ (@Gen.E.read_CryptoReader (primsOf P) (dynOf P) σ (readOfA S)) d0 step
        (@Gen.E.CryptoReader.Aes (dynOf P) σ (toGen P v) vv) =
      (toRd (runDec P S d0 step v).1, (runDec P S d0 step v).2.1,
        @Gen.E.CryptoReader.Aes (dynOf P) σ (toGen P (runDec P S d0 step v).2.2) vv) ∧
      (runDec P S d0 step v).2.2.dataRemaining ≤ v.dataRemaining := by
  intro step hg
  induction hg with
  | ok bs d h1 h2 => intro v _; exact ⟨rfl, Nat.le_refl _⟩
  | err k d => intro v _; exact ⟨rfl, Nat.le_refl _⟩
  | panic m d => intro v _; exact ⟨rfl, Nat.le_refl _⟩
  | pull k cont hk h ih =>
    intro v hrem
    unfold runDecG runDec
    rw [rd_crypto_aes, rd_toGen P hW S hS hin v k hk hrem]
    have hle := read_rem_le P S v k
    rcases hv : Valid.read P S v k with ⟨m1, m2⟩
    rw [hv] at hle
    have hrem2 : m2.dataRemaining < 2 ^ 64 := Nat.lt_of_le_of_lt hle hrem
    cases m1 with
    | ok bs =>
      simp only [rdView]
      have := ih (.ok bs) m2 hrem2
      exact ⟨this.1, Nat.le_trans this.2 hle⟩
    | err e =>
      obtain ⟨k', rfl⟩ := read_err_io P hW S hS hin v k hk hrem e m2 hv
      simp only [rdView]
      have := ih (.err (.io k')) m2 hrem2
      exact ⟨this.1, Nat.le_trans this.2 hle⟩
    | panic m =>
      simp only [rdView]
      exact ⟨rfl, hle⟩


/-! #### the CRC layer on top -/

theorem runDecG_small {δ R : Type} [Rs.Read R] (d0 : δ) (n : Nat) : ∀ (step : DecStep δ), GoodStep n step → ∀ (i : R) bs d i',
    runDecG d0 step i = (.ok bs, d, i') → bs.length ≤ n ∧ bs.length < 2 ^ 64 := by
  intro step hg
  induction hg with
  | ok bs0 d0' h1 h2 =>
    intro i bs d i' h
    simp only [runDecG, toRd, Prod.mk.injEq, Rs.RdRes.ok.injEq] at h
    obtain ⟨rfl, _, _⟩ := h
    exact ⟨h1, h2⟩
  | err k d0' => intro i bs d i' h; simp [runDecG, toRd] at h
  | panic m d0' => intro i bs d i' h; simp [runDecG, toRd] at h
  | pull k cont hk h ih =>
    intro i bs d i' hr
    unfold runDecG at hr
    rcases hx : Rs.Read.rd i k with ⟨o, i2⟩
    rw [hx] at hr
    cases o with
    | ok b2 => exact ih (.ok b2) i2 bs d i' hr
    | err e => exact ih (.err (.io e)) i2 bs d i' hr
    | panic => simp at hr

/-- `RdRes` and the `ReadRes` of `Model/Layers.lean` are the same three cases -/
def toRR : Rs.RdRes → Model.Layers.ReadRes
  | .ok bs => .ok bs
  | .err e => .err e
  | .panic => .panic

theorem rdOf_toRR (x : Rs.RdRes) : rdOf (toRR x) = x := by cases x <;> rfl

/-- any member of `Rs.Read` as a source of `Model/Layers.lean` -/
def srcOfRead (R : Type) [Rs.Read R] : Model.Layers.Src R := ⟨fun s k => (toRR (Rs.Read.rd s k).1, (Rs.Read.rd s k).2)⟩

theorem readOf_srcOfRead (R : Type) [inst : Rs.Read R] : readOf (srcOfRead R) = inst := by
  cases inst with
  | mk rd =>
    show Rs.Read.mk _ = Rs.Read.mk rd
    congr
    funext s k
    show (rdOf (toRR (rd s k).1), (rd s k).2) = rd s k
    rw [rdOf_toRR]

theorem runDec_err_io {δ : Type} (P : AesPrims) (S : Src σ) (d0 : δ) (n : Nat) : ∀ (step : DecStep δ), GoodStep n step →
    ∀ (v : Valid σ) e d v', runDec P S d0 step v = (.err e, d, v') → ∃ k, e = .io k := by
  intro step hg
  induction hg with
  | ok bs d h1 h2 => intro v e d' v' h; simp [runDec] at h
  | err k d => intro v e d' v' h; simp only [runDec, Prod.mk.injEq, Out.err.injEq] at h; exact ⟨k, h.1.symm⟩
  | panic m d => intro v e d' v' h; simp [runDec] at h
  | pull k cont hk h ih =>
    intro v e d' v' hr
    unfold runDec at hr
    rcases hx : Valid.read P S v k with ⟨o, v2⟩
    rw [hx] at hr
    cases o with
    | ok b2 => exact ih (.ok b2) v2 e d' v' hr
    | err e2 => exact ih (.err e2) v2 e d' v' hr
    | panic m => simp at hr

/-- the decoder-over-decryption stack as a member of `Rs.Read`, with the model's strategy as the decoder -/
abbrev stackRead {δ : Type} (P : AesPrims) (S : Src σ) (D : Decoder δ) (k : Rs.E.DecKind) :
    Rs.Read (@Rs.E.Dec (decOpsOf D) k (@Gen.E.CryptoReader (dynOf P) σ)) :=
  @Rs.E.readDec (decOpsOf D) k _ (@Gen.E.read_CryptoReader (primsOf P) (dynOf P) σ (readOfA S))

def mkDec {δ : Type} (P : AesPrims) (D : Decoder δ) (k : Rs.E.DecKind) (d : δ) (i : @Gen.E.CryptoReader (dynOf P) σ) :
    @Rs.E.Dec (decOpsOf D) k (@Gen.E.CryptoReader (dynOf P) σ) := @Rs.E.Dec.mk (decOpsOf D) k _ d i

def stOf {δ : Type} (P : AesPrims) (D : Decoder δ) (k : Rs.E.DecKind)
    (s : @Rs.E.Dec (decOpsOf D) k (@Gen.E.CryptoReader (dynOf P) σ)) : δ := @Rs.E.Dec.st (decOpsOf D) k _ s

def innerOf {δ : Type} (P : AesPrims) (D : Decoder δ) (k : Rs.E.DecKind)
    (s : @Rs.E.Dec (decOpsOf D) k (@Gen.E.CryptoReader (dynOf P) σ)) : @Gen.E.CryptoReader (dynOf P) σ :=
  @Rs.E.Dec.inner (decOpsOf D) k _ s

theorem rd_stack {δ : Type} (P : AesPrims) (S : Src σ) (D : Decoder δ) (k : Rs.E.DecKind)
    (s : @Rs.E.Dec (decOpsOf D) k (@Gen.E.CryptoReader (dynOf P) σ)) (m : Nat) :
    @Rs.Read.rd _ (stackRead P S D k) s m =
      ((@runDecG δ _ (@Gen.E.read_CryptoReader (primsOf P) (dynOf P) σ (readOfA S)) (stOf P D k s) (D.read (stOf P D k s) m) (innerOf P D k s)).1,
        mkDec P D k
          (@runDecG δ _ (@Gen.E.read_CryptoReader (primsOf P) (dynOf P) σ (readOfA S)) (stOf P D k s) (D.read (stOf P D k s) m) (innerOf P D k s)).2.1
          (@runDecG δ _ (@Gen.E.read_CryptoReader (primsOf P) (dynOf P) σ (readOfA S)) (stOf P D k s) (D.read (stOf P D k s) m) (innerOf P D k s)).2.2) := rfl

/-- a model state of an AES entry read through a decompressor, as the generated `Crc32Reader` stack -/
def embedStack {δ : Type} (P : AesPrims) (D : Decoder δ) (k : Rs.E.DecKind) (vv : Gen.AesVendorVersion)
    (st : EntrySt σ δ Rs.Crc32Hasher) :
    Gen.Crc32Reader (@Rs.E.Dec (decOpsOf D) k (@Gen.E.CryptoReader (dynOf P) σ)) :=
  ⟨mkDec P D k st.dec (@Gen.E.CryptoReader.Aes (dynOf P) σ (toGen P st.aes) vv),
    st.crc.hasher, st.crc.check, st.crc.ae2⟩

/-- **`Crc32Reader::read` over a decompressor over `CryptoReader::Aes` - what `ZipFileReader::read` calls for a
`Deflated` / `Bzip2` entry (`reader_read_deflated`) - is the model's `layersRead`**, for every decoder strategy that
keeps the `Read` contract: the three translated layers composed through their `Read` instances. -/
theorem tie_layers_read {δ : Type} (P : AesPrims) (hW : P.WF) (S : Src σ) (hS : S.Contract) (hin : SmallA S)
    (D : Decoder δ) (hD : GoodDec D) (k : Rs.E.DecKind) (vv : Gen.AesVendorVersion)
    (st : EntrySt σ δ Rs.Crc32Hasher) (n : Nat) (hn : n < 2 ^ 64) (hrem : st.aes.dataRemaining < 2 ^ 64) :
    (fun g : Rs.IoRes UInt64 × _ × Bytes => (outRead g.1 g.2.2, g.2.1))
        (@Gen.Crc32Reader.read _ (stackRead P S D k) (embedStack P D k vv st) (List.replicate n 0)) =
      (eraseMsg (layersRead P S D Rs.Crc32Hasher.update Rs.Crc32Hasher.finalize st n).1,
        embedStack P D k vv (layersRead P S D Rs.Crc32Hasher.update Rs.Crc32Hasher.finalize st n).2) := by
  have hlen : (List.replicate n (0 : UInt8)).length = n := List.length_replicate
  have hsmall : Small (@srcOfRead _ (stackRead P S D k)) := by
    intro s m bs s' h
    have h3 : (toRR (@Rs.Read.rd _ (stackRead P S D k) s m).1, (@Rs.Read.rd _ (stackRead P S D k) s m).2) =
        (Model.Layers.ReadRes.ok bs, s') := h
    rw [rd_stack] at h3
    rcases hr : @runDecG δ _ (@Gen.E.read_CryptoReader (primsOf P) (dynOf P) σ (readOfA S)) (stOf P D k s)
        (D.read (stOf P D k s) m) (innerOf P D k s) with ⟨r, st', i⟩
    rw [hr] at h3
    cases r with
    | ok b2 =>
      simp only [toRR, Prod.mk.injEq, Model.Layers.ReadRes.ok.injEq] at h3
      obtain ⟨rfl, _⟩ := h3
      exact (@runDecG_small δ _ (@Gen.E.read_CryptoReader (primsOf P) (dynOf P) σ (readOfA S)) _ m _ (hD _ m) _ _ _ _ hr).2
    | err e => simp [toRR] at h3
    | panic => simp [toRR] at h3
  have key := tie_crc32reader_read (@srcOfRead _ (stackRead P S D k)) (embedStack P D k vv st) (List.replicate n 0)
    (by rw [hlen]; exact hn) hsmall
  rw [readOf_srcOfRead, hlen] at key
  -- what the stack's `read` delivers at this state: the model's `runDec`
  have hrd := runDecG_eq P hW S hS hin st.dec vv n (D.read st.dec n) (hD st.dec n) st.aes hrem
  have hrd1 : @Rs.Read.rd _ (stackRead P S D k) (embedStack P D k vv st).inner n =
      (toRd (runDec P S st.dec (D.read st.dec n) st.aes).1,
        mkDec P D k (runDec P S st.dec (D.read st.dec n) st.aes).2.1
          (@Gen.E.CryptoReader.Aes (dynOf P) σ (toGen P (runDec P S st.dec (D.read st.dec n) st.aes).2.2) vv)) := by
    rw [rd_stack]
    show (( @runDecG δ _ (@Gen.E.read_CryptoReader (primsOf P) (dynOf P) σ (readOfA S)) st.dec (D.read st.dec n) (@Gen.E.CryptoReader.Aes (dynOf P) σ (toGen P st.aes) vv)).1,
      mkDec P D k ( @runDecG δ _ (@Gen.E.read_CryptoReader (primsOf P) (dynOf P) σ (readOfA S)) st.dec (D.read st.dec n) (@Gen.E.CryptoReader.Aes (dynOf P) σ (toGen P st.aes) vv)).2.1
        ( @runDecG δ _ (@Gen.E.read_CryptoReader (primsOf P) (dynOf P) σ (readOfA S)) st.dec (D.read st.dec n) (@Gen.E.CryptoReader.Aes (dynOf P) σ (toGen P st.aes) vv)).2.2) = _
    rw [hrd.1]
  have hgood := hD st.dec n
  have hview : ∀ g : Rs.IoRes UInt64 × Gen.Crc32Reader (@Rs.E.Dec (decOpsOf D) k (@Gen.E.CryptoReader (dynOf P) σ)) × Bytes,
      (outRead g.1 g.2.2, g.2.1) = ((match (view g).1 with
        | .ok bs => Out.ok bs
        | .err e => .err (.io e)
        | .panic => .panic ""), (view g).2) := by
    rintro ⟨o, r, b⟩
    cases o <;> rfl
  show (outRead _ _, _) = _
  rw [hview, key]
  unfold crcLift Model.Layers.crcLayer layersRead crcRead
  simp only [srcOfRead, hrd1]
  by_cases h0 : n = 0
  · subst h0
    simp [eraseMsg, embedStack]
  · simp only [h0, if_false]
    have hsm : ∀ bs, (runDec P S st.dec (D.read st.dec n) st.aes).1 = .ok bs → bs.length ≤ n := by
      intro bs hb
      have h5 := hrd.1
      rw [hb] at h5
      exact (@runDecG_small δ _ (@Gen.E.read_CryptoReader (primsOf P) (dynOf P) σ (readOfA S)) st.dec n _ hgood _ _ _ _ h5).1
    have hio := runDec_err_io P S st.dec n _ hgood st.aes
    rcases hm : runDec P S st.dec (D.read st.dec n) st.aes with ⟨m1, d', v'⟩
    rw [hm] at hsm
    cases m1 with
    | ok bs =>
      have hl := hsm bs rfl
      have hemp : bs.isEmpty = decide (bs.length = 0) := by cases bs <;> simp
      have hsym : (st.crc.hasher.reg ^^^ 4294967295 = st.crc.check) = (st.crc.check = st.crc.hasher.reg ^^^ 4294967295) :=
        propext eq_comm
      by_cases hc : st.crc.check = st.crc.hasher.reg ^^^ 4294967295 <;>
        cases hae : st.crc.ae2 <;>
        by_cases hz : bs.length = 0 <;>
        simp [toRd, toRR, embedStack, eraseMsg, hemp, hsym, hc, hae, hz, hl, Rs.Crc32Hasher.update, Rs.Crc32Hasher.finalize, Spec.Crc32.finalize]
    | err e =>
      obtain ⟨k', rfl⟩ := hio e d' v' hm
      simp [toRd, toRR, embedStack, eraseMsg]
    | panic m => simp [toRd, toRR, embedStack, eraseMsg]

/-! #### all of it: `ZipFile::read` of a `Deflated` AES entry is `Model.Aes.entryRead` -/

theorem lread_len {R : Type} [Rs.Read R] (r : R) (buf : Bytes) : (Rs.L.read r buf).2.2.length = buf.length := by
  unfold Rs.L.read
  rcases Rs.Read.rd r buf.length with ⟨o, r'⟩
  cases o with
  | ok bs => exact filled_length bs buf
  | err e => rfl
  | panic => rfl

theorem crc_read_len {R : Type} [Rs.Read R] (self : Gen.Crc32Reader R) (buf : Bytes) :
    (Gen.Crc32Reader.read self buf).2.2.length = buf.length := by
  have hl := lread_len self.inner buf
  unfold Gen.Crc32Reader.read
  rcases hx : Rs.L.read self.inner buf with ⟨o, r', b⟩
  rw [hx] at hl
  have hl' : b.length = buf.length := hl
  simp only [Id.run, Rs.L.id_pure, Rs.L.id_bind, hx, Gen.Crc32Reader.check_matches]
  split
  · rfl
  · cases o with
    | err e => exact hl'
    | panic => exact hl'
    | ok c =>
      simp only [Rs.L.id_pure, Rs.L.id_bind, pure_bind]
      split
      · exact hl'
      · split <;> exact hl'

theorem layersRead_aes {δ H : Type} (P : AesPrims) (S : Src σ) (D : Decoder δ) (upd : H → Bytes → H) (fin : H → UInt32)
    (st : EntrySt σ δ H) (n : Nat) :
    (layersRead P S D upd fin st n).2.aes =
      if n = 0 then st.aes else (runDec P S st.dec (D.read st.dec n) st.aes).2.2 := by
  unfold layersRead crcRead
  by_cases h0 : n = 0
  · simp [h0]
  · simp only [h0, if_false]
    rcases runDec P S st.dec (D.read st.dec n) st.aes with ⟨o, d, v⟩
    cases o with
    | ok bs => simp only []; split <;> rfl
    | err e => rfl
    | panic m => rfl

theorem copyToSink_err_io (P : AesPrims) (hW : P.WF) (S : Src σ) (hS : S.Contract) (hin : SmallA S) :
    ∀ (f : Nat) (v : Valid σ), v.dataRemaining < 2 ^ 64 → ∀ e v', copyToSink P S f v = (.err e, v') → ∃ k, e = .io k := by
  intro f
  induction f with
  | zero => intro v _ e v' h; simp [copyToSink] at h
  | succ f ih =>
    intro v hrem e v' h
    unfold copyToSink at h
    have hle := read_rem_le P S v 8192
    rcases hv : Valid.read P S v 8192 with ⟨m1, m2⟩
    rw [hv] at h hle
    cases m1 with
    | ok bs =>
      simp only [] at h
      split at h
      · simp at h
      · exact ih m2 (Nat.lt_of_le_of_lt hle hrem) e v' h
    | err e2 =>
      simp only [Prod.mk.injEq, Out.err.injEq] at h
      obtain ⟨rfl, _⟩ := h
      exact read_err_io P hW S hS hin v 8192 (by decide) hrem e2 m2 hv
    | panic m => simp at h

/-- the model state as the handle's reader: `ZipFileReader::Deflated(Crc32Reader<DeflateDecoder<CryptoReader::Aes>>)` -/
def embedReader {δ : Type} (P : AesPrims) (D : Decoder δ) (vv : Gen.AesVendorVersion) (st : EntrySt σ δ Rs.Crc32Hasher) :
    @Gen.E.ZipFileReader (dynOf P) (decOpsOf D) σ :=
  @Gen.E.ZipFileReader.Deflated (dynOf P) (decOpsOf D) σ (embedStack P D .deflate vv st)

/-- the handle's `reader` field (with the instances of this section) -/
def readerOf {δ : Type} (P : AesPrims) (D : Decoder δ) (z : @Gen.E.ZipFile (dynOf P) (decOpsOf D) σ) :
    @Gen.E.ZipFileReader (dynOf P) (decOpsOf D) σ := @Gen.E.ZipFile.reader (dynOf P) (decOpsOf D) σ z

/-- **`ZipFile::read` on a handle reading a Deflated AES entry IS `Model.Aes.entryRead … true`** - the function
`Props/C16.entry_eof_implies_mac` and `entryDrain` are stated about -, for every decoder strategy keeping the `Read`
contract, every source, every primitive triple: same bytes / error / panic, and the handle's reader afterwards is the
model's state.  (`fuel`: the rounds granted to `io::copy`; the model's choice.) -/
theorem tie_entry_read {δ : Type} (P : AesPrims) (hW : P.WF) (S : Src σ) (hS : S.Contract) (hin : SmallA S)
    (D : Decoder δ) (hD : GoodDec D) (vv : Gen.AesVendorVersion)
    (mk : Gen.CompressionMethod → UInt32 → @Gen.E.CryptoReader (dynOf P) σ → Option (@Gen.E.ZipFileReader (dynOf P) (decOpsOf D) σ))
    (z : @Gen.E.ZipFile (dynOf P) (decOpsOf D) σ) (st : EntrySt σ δ Rs.Crc32Hasher) (hz : readerOf P D z = embedReader P D vv st)
    (n : Nat) (hn : n < 2 ^ 64) (hrem : st.aes.dataRemaining < 2 ^ 64) (fuel : Nat)
    (hfuel : fuel = (layersRead P S D Rs.Crc32Hasher.update Rs.Crc32Hasher.finalize st n).2.aes.dataRemaining + 1) :
    (fun g : Rs.IoRes UInt64 × @Gen.E.ZipFile (dynOf P) (decOpsOf D) σ × Bytes => (outRead g.1 g.2.2, readerOf P D g.2.1))
        (@Gen.E.ZipFile.read (primsOf P) (dynOf P) (decOpsOf D) σ (readOfA S) mk fuel z (List.replicate n 0)) =
      (eraseMsg (entryRead P S D true Rs.Crc32Hasher.update Rs.Crc32Hasher.finalize st n).1,
        embedReader P D vv (entryRead P S D true Rs.Crc32Hasher.update Rs.Crc32Hasher.finalize st n).2) := by
  have hlenr : (List.replicate n (0 : UInt8)).length = n := List.length_replicate
  have hb : readerOf P D z ≠ @Gen.E.ZipFileReader.NoReader (dynOf P) (decOpsOf D) σ := by rw [hz]; intro h; cases h
  have hlen : (@Gen.E.ZipFileReader.read (primsOf P) (dynOf P) (decOpsOf D) σ (readOfA S) (readerOf P D z) (List.replicate n 0)).2.2.length = n := by
    rw [hz]
    have h1 := @reader_read_deflated (primsOf P) (dynOf P) (decOpsOf D) σ (readOfA S) (embedStack P D .deflate vv st) (List.replicate n 0)
    unfold embedReader
    rw [h1]
    unfold under
    exact (@crc_read_len _ (stackRead P S D .deflate) _ _).trans hlenr
  have hglue := @tie_zipfile_read_glue (primsOf P) (dynOf P) (decOpsOf D) σ (readOfA S) mk fuel z n hn hb hlen
  show (fun g : Rs.IoRes UInt64 × @Gen.E.ZipFile (dynOf P) (decOpsOf D) σ × Bytes => (outRead g.1 g.2.2, @Gen.E.ZipFile.reader (dynOf P) (decOpsOf D) σ g.2.1)) _ = _
  rw [hglue, entryRead_eq_glue]
  show entryGlue _ _ (readerOf P D z) n = _
  rw [hz]
  have hL := tie_layers_read P hW S hS hin D hD .deflate vv st n hn hrem
  have hrv : @readerView (primsOf P) (dynOf P) (decOpsOf D) σ (readOfA S) (embedReader P D vv st) n =
      (eraseMsg (layersRead P S D Rs.Crc32Hasher.update Rs.Crc32Hasher.finalize st n).1,
        embedReader P D vv (layersRead P S D Rs.Crc32Hasher.update Rs.Crc32Hasher.finalize st n).2) := by
    unfold readerView embedReader
    rw [@reader_read_deflated (primsOf P) (dynOf P) (decOpsOf D) σ (readOfA S) (embedStack P D .deflate vv st) (List.replicate n 0)]
    unfold under
    have h1 := congrArg Prod.fst hL
    have h2 := congrArg Prod.snd hL
    exact Prod.ext h1 (congrArg (@Gen.E.ZipFileReader.Deflated (dynOf P) (decOpsOf D) σ) h2)
  unfold entryGlue
  rw [hrv]
  have hle : (layersRead P S D Rs.Crc32Hasher.update Rs.Crc32Hasher.finalize st n).2.aes.dataRemaining < 2 ^ 64 := by
    rw [layersRead_aes]
    split
    · exact hrem
    · exact Nat.lt_of_le_of_lt (runDecG_eq P hW S hS hin st.dec vv n (D.read st.dec n) (hD st.dec n) st.aes hrem).2 hrem
  rcases hlr : layersRead P S D Rs.Crc32Hasher.update Rs.Crc32Hasher.finalize st n with ⟨o, st'⟩
  rw [hlr] at hfuel hle
  simp only [] at hfuel hle
  cases o with
  | err e => rfl
  | panic m => rfl
  | ok bs =>
    simp only [eraseMsg]
    by_cases hc : bs.length = 0 ∧ n ≠ 0
    · rw [if_pos hc, if_pos hc]
      have hfc := @tie_finish_crypto σ (decOpsOf D) P hW S hS hin (embedReader P D vv st') st'.aes vv rfl hle
      unfold finishView
      subst hfuel
      rw [hfc]
      rcases hfc2 : finishCrypto P S true st'.aes with ⟨o2, v2⟩
      cases o2 with
      | ok u => rfl
      | err e =>
        obtain ⟨k', rfl⟩ := copyToSink_err_io P hW S hS hin _ st'.aes hle e v2 hfc2
        rfl
      | panic m => rfl
    · rw [if_neg hc, if_neg hc]

/-- the model state as the handle's reader: `ZipFileReader::Bzip2(Crc32Reader<BzDecoder<CryptoReader::Aes>>)` -/
def embedReaderBz {δ : Type} (P : AesPrims) (D : Decoder δ) (vv : Gen.AesVendorVersion) (st : EntrySt σ δ Rs.Crc32Hasher) :
    @Gen.E.ZipFileReader (dynOf P) (decOpsOf D) σ :=
  @Gen.E.ZipFileReader.Bzip2 (dynOf P) (decOpsOf D) σ (embedStack P D .bzip2 vv st)

/-- **`ZipFile::read` on a handle reading a Bzip2 AES entry IS `Model.Aes.entryRead … true`** - the function
`Props/C16.entry_eof_implies_mac` and `entryDrain` are stated about -, for every decoder strategy keeping the `Read`
contract, every source, every primitive triple: same bytes / error / panic, and the handle's reader afterwards is the
model's state.  (`fuel`: the rounds granted to `io::copy`; the model's choice.) -/
theorem tie_entry_read_bzip2 {δ : Type} (P : AesPrims) (hW : P.WF) (S : Src σ) (hS : S.Contract) (hin : SmallA S)
    (D : Decoder δ) (hD : GoodDec D) (vv : Gen.AesVendorVersion)
    (mk : Gen.CompressionMethod → UInt32 → @Gen.E.CryptoReader (dynOf P) σ → Option (@Gen.E.ZipFileReader (dynOf P) (decOpsOf D) σ))
    (z : @Gen.E.ZipFile (dynOf P) (decOpsOf D) σ) (st : EntrySt σ δ Rs.Crc32Hasher) (hz : readerOf P D z = embedReaderBz P D vv st)
    (n : Nat) (hn : n < 2 ^ 64) (hrem : st.aes.dataRemaining < 2 ^ 64) (fuel : Nat)
    (hfuel : fuel = (layersRead P S D Rs.Crc32Hasher.update Rs.Crc32Hasher.finalize st n).2.aes.dataRemaining + 1) :
    (fun g : Rs.IoRes UInt64 × @Gen.E.ZipFile (dynOf P) (decOpsOf D) σ × Bytes => (outRead g.1 g.2.2, readerOf P D g.2.1))
        (@Gen.E.ZipFile.read (primsOf P) (dynOf P) (decOpsOf D) σ (readOfA S) mk fuel z (List.replicate n 0)) =
      (eraseMsg (entryRead P S D true Rs.Crc32Hasher.update Rs.Crc32Hasher.finalize st n).1,
        embedReaderBz P D vv (entryRead P S D true Rs.Crc32Hasher.update Rs.Crc32Hasher.finalize st n).2) := by
  have hlenr : (List.replicate n (0 : UInt8)).length = n := List.length_replicate
  have hb : readerOf P D z ≠ @Gen.E.ZipFileReader.NoReader (dynOf P) (decOpsOf D) σ := by rw [hz]; intro h; cases h
  have hlen : (@Gen.E.ZipFileReader.read (primsOf P) (dynOf P) (decOpsOf D) σ (readOfA S) (readerOf P D z) (List.replicate n 0)).2.2.length = n := by
    rw [hz]
    have h1 := @reader_read_bzip2 (primsOf P) (dynOf P) (decOpsOf D) σ (readOfA S) (embedStack P D .bzip2 vv st) (List.replicate n 0)
    unfold embedReaderBz
    rw [h1]
    unfold under
    exact (@crc_read_len _ (stackRead P S D .bzip2) _ _).trans hlenr
  have hglue := @tie_zipfile_read_glue (primsOf P) (dynOf P) (decOpsOf D) σ (readOfA S) mk fuel z n hn hb hlen
  show (fun g : Rs.IoRes UInt64 × @Gen.E.ZipFile (dynOf P) (decOpsOf D) σ × Bytes => (outRead g.1 g.2.2, @Gen.E.ZipFile.reader (dynOf P) (decOpsOf D) σ g.2.1)) _ = _
  rw [hglue, entryRead_eq_glue]
  show entryGlue _ _ (readerOf P D z) n = _
  rw [hz]
  have hL := tie_layers_read P hW S hS hin D hD .bzip2 vv st n hn hrem
  have hrv : @readerView (primsOf P) (dynOf P) (decOpsOf D) σ (readOfA S) (embedReaderBz P D vv st) n =
      (eraseMsg (layersRead P S D Rs.Crc32Hasher.update Rs.Crc32Hasher.finalize st n).1,
        embedReaderBz P D vv (layersRead P S D Rs.Crc32Hasher.update Rs.Crc32Hasher.finalize st n).2) := by
    unfold readerView embedReaderBz
    rw [@reader_read_bzip2 (primsOf P) (dynOf P) (decOpsOf D) σ (readOfA S) (embedStack P D .bzip2 vv st) (List.replicate n 0)]
    unfold under
    have h1 := congrArg Prod.fst hL
    have h2 := congrArg Prod.snd hL
    exact Prod.ext h1 (congrArg (@Gen.E.ZipFileReader.Bzip2 (dynOf P) (decOpsOf D) σ) h2)
  unfold entryGlue
  rw [hrv]
  have hle : (layersRead P S D Rs.Crc32Hasher.update Rs.Crc32Hasher.finalize st n).2.aes.dataRemaining < 2 ^ 64 := by
    rw [layersRead_aes]
    split
    · exact hrem
    · exact Nat.lt_of_le_of_lt (runDecG_eq P hW S hS hin st.dec vv n (D.read st.dec n) (hD st.dec n) st.aes hrem).2 hrem
  rcases hlr : layersRead P S D Rs.Crc32Hasher.update Rs.Crc32Hasher.finalize st n with ⟨o, st'⟩
  rw [hlr] at hfuel hle
  simp only [] at hfuel hle
  cases o with
  | err e => rfl
  | panic m => rfl
  | ok bs =>
    simp only [eraseMsg]
    by_cases hc : bs.length = 0 ∧ n ≠ 0
    · rw [if_pos hc, if_pos hc]
      have hfc := @tie_finish_crypto σ (decOpsOf D) P hW S hS hin (embedReaderBz P D vv st') st'.aes vv rfl hle
      unfold finishView
      subst hfuel
      rw [hfc]
      rcases hfc2 : finishCrypto P S true st'.aes with ⟨o2, v2⟩
      cases o2 with
      | ok u => rfl
      | err e =>
        obtain ⟨k', rfl⟩ := copyToSink_err_io P hW S hS hin _ st'.aes hle e v2 hfc2
        rfl
      | panic m => rfl
    · rw [if_neg hc, if_neg hc]

/-! #### a `Stored` AES entry: no decoder, `Model.Aes.entryRead … storedDec false` -/

theorem read_len_le (P : AesPrims) (S : Src σ) (v : Valid σ) (n : Nat) (out : Bytes) (v' : Valid σ)
    (h : Valid.read P S v n = (.ok out, v')) : out.length ≤ n := by
  unfold Valid.read at h
  by_cases h0 : v.dataRemaining = 0
  · rw [if_pos h0] at h
    by_cases hf : v.finalized = true
    · rw [if_pos hf] at h
      simp only [Prod.mk.injEq, Out.ok.injEq] at h
      rw [← h.1]; exact Nat.zero_le _
    · rw [if_neg hf] at h
      dsimp only at h
      rcases hx : readExact S v.inner AUTH_CODE_LENGTH with ⟨o, s⟩
      rw [hx] at h
      cases o with
      | ok code =>
        dsimp only at h
        split at h
        · simp at h
        · simp only [Prod.mk.injEq, Out.ok.injEq] at h
          rw [← h.1]; exact Nat.zero_le _
      | err e => simp at h
      | panic m => simp at h
  · rw [if_neg h0] at h
    dsimp only at h
    rcases hx : S.rd v.inner (min v.dataRemaining n) with ⟨r, s'⟩
    rw [hx] at h
    cases r with
    | err k => simp at h
    | ok bs =>
      dsimp only at h
      split at h
      · simp at h
      · split at h
        · simp at h
        · split at h
          · simp at h
          · rename_i hle
            rcases hc : cryptInPlace P v.key v.ctr bs with x | e | m
            · rw [hc] at h
              have hpl : x.1.length = bs.length := by
                obtain ⟨pt, ctr'⟩ := x
                exact cryptLoop_length P v.key bs.length v.ctr ctr' bs pt hc
              dsimp only at h
              split at h
              · split at h
                · simp at h
                · rcases hy : readExact S s' AUTH_CODE_LENGTH with ⟨o, s2⟩
                  rw [hy] at h
                  cases o with
                  | ok code =>
                    dsimp only at h
                    split at h
                    · simp at h
                    · simp only [Prod.mk.injEq, Out.ok.injEq] at h
                      rw [← h.1, hpl]; omega
                  | err e => simp at h
                  | panic m => simp at h
              · simp only [Prod.mk.injEq, Out.ok.injEq] at h
                rw [← h.1, hpl]; omega
            · rw [hc] at h; simp at h
            · rw [hc] at h; simp at h

theorem asRead_small {R : Type} (f : R → Bytes → Rs.IoRes UInt64 × R × Bytes) : Small (@srcOfRead R (Rs.E.asRead f)) := by
  intro s m bs s' h
  have h3 : (toRR (@Rs.Read.rd _ (Rs.E.asRead f) s m).1, (@Rs.Read.rd _ (Rs.E.asRead f) s m).2) =
      (Model.Layers.ReadRes.ok bs, s') := h
  rw [rd_asRead] at h3
  rcases hx : f s (List.replicate m 0) with ⟨o, r', b⟩
  rw [hx] at h3
  cases o with
  | ok c =>
    simp only [toRR, Prod.mk.injEq, Model.Layers.ReadRes.ok.injEq] at h3
    rw [← h3.1, List.length_take]
    have := c.toNat_lt
    omega
  | err e => simp [toRR] at h3
  | panic => simp [toRR] at h3

/-- a model state of a `Stored` AES entry as the generated stack `Crc32Reader<CryptoReader::Aes>` -/
def embedStored (P : AesPrims) (vv : Gen.AesVendorVersion) (st : EntrySt σ Unit Rs.Crc32Hasher) :
    Gen.Crc32Reader (@Gen.E.CryptoReader (dynOf P) σ) :=
  ⟨@Gen.E.CryptoReader.Aes (dynOf P) σ (toGen P st.aes) vv, st.crc.hasher, st.crc.check, st.crc.ae2⟩

theorem tie_layers_read_stored (P : AesPrims) (hW : P.WF) (S : Src σ) (hS : S.Contract) (hin : SmallA S)
    (vv : Gen.AesVendorVersion) (st : EntrySt σ Unit Rs.Crc32Hasher) (n : Nat) (hn : n < 2 ^ 64)
    (hrem : st.aes.dataRemaining < 2 ^ 64) :
    (fun g : Rs.IoRes UInt64 × _ × Bytes => (outRead g.1 g.2.2, g.2.1))
        (@Gen.Crc32Reader.read _ (@Gen.E.read_CryptoReader (primsOf P) (dynOf P) σ (readOfA S))
          (embedStored P vv st) (List.replicate n 0)) =
      (eraseMsg (layersRead P S storedDec Rs.Crc32Hasher.update Rs.Crc32Hasher.finalize st n).1,
        embedStored P vv (layersRead P S storedDec Rs.Crc32Hasher.update Rs.Crc32Hasher.finalize st n).2) := by
  have hlen : (List.replicate n (0 : UInt8)).length = n := List.length_replicate
  have key := tie_crc32reader_read (@srcOfRead _ (@Gen.E.read_CryptoReader (primsOf P) (dynOf P) σ (readOfA S)))
    (embedStored P vv st) (List.replicate n 0) (by rw [hlen]; exact hn) (asRead_small _)
  rw [readOf_srcOfRead, hlen] at key
  have hrd1 : @Rs.Read.rd _ (@Gen.E.read_CryptoReader (primsOf P) (dynOf P) σ (readOfA S)) (embedStored P vv st).inner n =
      ((rdView P (Valid.read P S st.aes n)).1,
        @Gen.E.CryptoReader.Aes (dynOf P) σ (rdView P (Valid.read P S st.aes n)).2 vv) := by
    show @Rs.Read.rd _ (@Gen.E.read_CryptoReader (primsOf P) (dynOf P) σ (readOfA S)) (@Gen.E.CryptoReader.Aes (dynOf P) σ (toGen P st.aes) vv) n = _
    rw [rd_crypto_aes, rd_toGen P hW S hS hin st.aes n hn hrem]
  have hview : ∀ g : Rs.IoRes UInt64 × Gen.Crc32Reader (@Gen.E.CryptoReader (dynOf P) σ) × Bytes,
      (outRead g.1 g.2.2, g.2.1) = ((match (view g).1 with
        | .ok bs => Out.ok bs
        | .err e => .err (.io e)
        | .panic => .panic ""), (view g).2) := by
    rintro ⟨o, r, b⟩
    cases o <;> rfl
  show (outRead _ _, _) = _
  rw [hview, key]
  unfold crcLift Model.Layers.crcLayer layersRead crcRead
  simp only [srcOfRead, hrd1]
  by_cases h0 : n = 0
  · subst h0
    simp [eraseMsg, embedStored]
  · simp only [h0, if_false, storedDec, runDec]
    have hl := read_len_le P S st.aes n
    have hio := read_err_io P hW S hS hin st.aes n hn hrem
    rcases hm : Valid.read P S st.aes n with ⟨m1, v'⟩
    rw [hm] at hl hio
    cases m1 with
    | ok bs =>
      have hl' := hl bs v' rfl
      have hemp : bs.isEmpty = decide (bs.length = 0) := by cases bs <;> simp
      have hsym : (st.crc.hasher.reg ^^^ 4294967295 = st.crc.check) = (st.crc.check = st.crc.hasher.reg ^^^ 4294967295) :=
        propext eq_comm
      by_cases hc : st.crc.check = st.crc.hasher.reg ^^^ 4294967295 <;>
        cases hae : st.crc.ae2 <;>
        by_cases hz : bs.length = 0 <;>
        simp [rdView, toRR, embedStored, eraseMsg, hemp, hsym, hc, hae, hz, hl', Rs.Crc32Hasher.update, Rs.Crc32Hasher.finalize, Spec.Crc32.finalize]
    | err e =>
      obtain ⟨k', rfl⟩ := hio e v' rfl
      simp [rdView, toRR, embedStored, eraseMsg]
    | panic m => simp [rdView, toRR, embedStored, eraseMsg]

/-- **`ZipFile::read` on a handle reading a Stored AES entry is `Model.Aes.entryRead … storedDec false`** (what
`Props/C16.entry_eof_implies_mac_stored` is stated about); `finish_crypto` does nothing on either side. -/
theorem tie_entry_read_stored (dops : Rs.E.DecOps) (P : AesPrims) (hW : P.WF) (S : Src σ) (hS : S.Contract) (hin : SmallA S)
    (vv : Gen.AesVendorVersion)
    (mk : Gen.CompressionMethod → UInt32 → @Gen.E.CryptoReader (dynOf P) σ → Option (@Gen.E.ZipFileReader (dynOf P) dops σ))
    (z : @Gen.E.ZipFile (dynOf P) dops σ) (st : EntrySt σ Unit Rs.Crc32Hasher)
    (hz : @Gen.E.ZipFile.reader (dynOf P) dops σ z = @Gen.E.ZipFileReader.Stored (dynOf P) dops σ (embedStored P vv st))
    (n : Nat) (hn : n < 2 ^ 64) (hrem : st.aes.dataRemaining < 2 ^ 64) (fuel : Nat) :
    (fun g : Rs.IoRes UInt64 × @Gen.E.ZipFile (dynOf P) dops σ × Bytes =>
        (outRead g.1 g.2.2, @Gen.E.ZipFile.reader (dynOf P) dops σ g.2.1))
        (@Gen.E.ZipFile.read (primsOf P) (dynOf P) dops σ (readOfA S) mk fuel z (List.replicate n 0)) =
      (eraseMsg (entryRead P S storedDec false Rs.Crc32Hasher.update Rs.Crc32Hasher.finalize st n).1,
        @Gen.E.ZipFileReader.Stored (dynOf P) dops σ
          (embedStored P vv (entryRead P S storedDec false Rs.Crc32Hasher.update Rs.Crc32Hasher.finalize st n).2)) := by
  have hlenr : (List.replicate n (0 : UInt8)).length = n := List.length_replicate
  have hb : @Gen.E.ZipFile.reader (dynOf P) dops σ z ≠ @Gen.E.ZipFileReader.NoReader (dynOf P) dops σ := by
    rw [hz]; intro h; cases h
  have hrr := @reader_read_stored (primsOf P) (dynOf P) dops σ (readOfA S) (embedStored P vv st) (List.replicate n 0)
  have hlen : (@Gen.E.ZipFileReader.read (primsOf P) (dynOf P) dops σ (readOfA S)
      (@Gen.E.ZipFile.reader (dynOf P) dops σ z) (List.replicate n 0)).2.2.length = n := by
    rw [hz, hrr]
    unfold under
    exact (@crc_read_len _ (@Gen.E.read_CryptoReader (primsOf P) (dynOf P) σ (readOfA S)) _ _).trans hlenr
  have hglue := @tie_zipfile_read_glue (primsOf P) (dynOf P) dops σ (readOfA S) mk fuel z n hn hb hlen
  rw [hglue, entryRead_eq_glue, hz]
  have hL := tie_layers_read_stored P hW S hS hin vv st n hn hrem
  have hrv : @readerView (primsOf P) (dynOf P) dops σ (readOfA S)
      (@Gen.E.ZipFileReader.Stored (dynOf P) dops σ (embedStored P vv st)) n =
      (eraseMsg (layersRead P S storedDec Rs.Crc32Hasher.update Rs.Crc32Hasher.finalize st n).1,
        @Gen.E.ZipFileReader.Stored (dynOf P) dops σ
          (embedStored P vv (layersRead P S storedDec Rs.Crc32Hasher.update Rs.Crc32Hasher.finalize st n).2)) := by
    unfold readerView
    rw [hrr]
    unfold under
    have h1 := congrArg Prod.fst hL
    have h2 := congrArg Prod.snd hL
    exact Prod.ext h1 (congrArg (@Gen.E.ZipFileReader.Stored (dynOf P) dops σ) h2)
  unfold entryGlue
  rw [hrv]
  rcases hlr : layersRead P S storedDec Rs.Crc32Hasher.update Rs.Crc32Hasher.finalize st n with ⟨o, st'⟩
  cases o with
  | err e => rfl
  | panic m => rfl
  | ok bs =>
    simp only [eraseMsg]
    by_cases hc : bs.length = 0 ∧ n ≠ 0
    · rw [if_pos hc, if_pos hc]
      rfl
    · rw [if_neg hc, if_neg hc]

end ZipVerif.Tie.EntryRead
