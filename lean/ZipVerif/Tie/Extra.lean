import ZipVerif.Gen.Write
import ZipVerif.Model.Align
import ZipVerif.Spec.Extra
/-
Tie obligations for the extra-data validation: the table regenerated from /repo/src/write.rs on
this run (`Gen.EXTRA_FIELD_MAPPING`) is the model's table, which is the APPNOTE list of the Spec.
A source edit that adds, drops or changes a reserved header ID breaks these.
-/

namespace ZipVerif.Tie.Extra
open ZipVerif ZipVerif.Model.Align

theorem tie_extra_field_mapping : Gen.EXTRA_FIELD_MAPPING.toList = extraFieldMapping := by decide

theorem tie_extra_field_mapping_size : Gen.EXTRA_FIELD_MAPPING.size = 49 := by decide

theorem tie_extra_field_mapping_spec :
    Gen.EXTRA_FIELD_MAPPING.toList.map UInt16.toNat = Spec.Extra.reservedIds := by decide

/-- The membership test of the source, `EXTRA_FIELD_MAPPING.iter().any(|&mapped| mapped == kind)`,
over the regenerated table is the model's. -/
theorem tie_reserved_kind (kind : UInt16) :
    (decide (kind ≤ 31) || Gen.EXTRA_FIELD_MAPPING.toList.any (· == kind)) = reservedKind kind := by
  rw [tie_extra_field_mapping]; rfl

end ZipVerif.Tie.Extra
