import ZipVerif.Gen.ReadExtract
import ZipVerif.Gen.StreamExtract
import ZipVerif.Tie.Accessors
import ZipVerif.Model.Extract
/-
Tie obligations for the two extractors (tier T6, EXTRACT mode of rs2lean, helper t6r4; vocabulary `Basic/RsX.lean`):
`ZipArchive::extract` and `apply_unix_modes` (src/read.rs), `ZipStreamReader::extract` with the visitor `Extractor`
declared in its body (src/read/stream.rs).  All are regenerated from the source on this run (`Gen/ReadExtract.lean`,
`Gen/StreamExtract.lean`): the order `by_index(i)?` / `enclosed_name().ok_or(InvalidArchive("Invalid file path"))?` /
`path_depth` / `directory.join(filepath)`; directory versus file by `name().ends_with('/')`; `create_dir_all` of the
directory resp. of `outpath.parent()` (the seekable extractor only when `!p.exists()`, the streaming one always);
`File::create`, `io::copy`; the recorded mode only PUSHED as (depth, path, mode); after all entries
`apply_unix_modes`: `sort_by_key(Reverse(depth))` (stable) and `set_permissions` for each, the first failure ends
the run.  `enclosed_name`, `name`, `unix_mode`, `path_depth` are the LAYER-mode translations tied in `Tie/Paths.lean`,
`Tie/Mangled.lean`, `Tie/Accessors.lean`; they are CALLED by the generated code here.

* `tie_apply_unix_modes`: `apply_unix_modes` = `applyModes` over `sortModes` (i.e. `modeOrder`).
* `tie_extract_seek`: `Gen.ZipArchive.extract … fs = ofModel (Model.Extract.extractSeek c root views fs)`.
* `tie_extract_stream`: `Gen.ZipStreamReader.extract … fs = ofModel (Model.Extract.extractStream c root views metas fs)`.

Both are equations of (filesystem afterwards, outcome) for every configuration `c` (privileged or not, umask), every
initial filesystem, every target directory and EVERY behaviour of the archive reader: `hs` / `files` is what
`by_index(i)` / `read_zipfile_from_stream` answers per entry (an error or a handle - any `Gen.ZipFile` value), `content`
what `io::copy` then receives from a handle and whether the read fails at the end; the `EntryView`s the model is
given are computed from these (`viewOf`: the name decoded from the handle, the bytes, the read error, `unix_mode()`).

The filesystem stays the model: the named parameters of the generated code are instantiated with EXACTLY the operations
of `Spec/FS.lean` the model uses (`fsOps`: `createDirAll`, `createFile` + `writeAt`, `setPermissions`, `pathExists`) and
with the path arithmetic `Model/Extract.lean` documents for std on Unix (`KPath`: reversed components of
`root.join(name)`, a final ".", a trailing '/'; `parent` drops the last component and both flags).  Trusted here,
as in the model's header: that this is what std/the kernel do (validated by the `extract` correspondence stream).

Assumptions (trusted base):
  * `io::copy(&mut file, &mut outfile)` writes to the file description `File::create` returned everything the handle
    delivers before it ends or fails (`copy`), and returns the handle with its metadata unchanged (`ZipFile::read`
    touches only the reader fields).
  * the error of `by_index` / of the visit passes through unchanged; `From<io::Error>` is the identity on the model's
    error type (`errOps.io = id`: the model does not distinguish `ZipError::Io(e)` from `e`); `InvalidArchive(msg)` is
    `Err.invalidPath` exactly for the message "Invalid file path" (another message is another value: `noCentral`).
  * `ZipStreamReader::visit` is `streamOps`: `visit_file` for the local entries in order (an entry that cannot be
    opened ends the visit with its error), then at least one central record, `visit_additional_metadata` for each in
    order; when it fails, the visitor is as the last callback that returned `Ok` left it (a callback that fails has
    not touched it: `rs2lean` checks that its writes follow its last `?`, `Basic/RsX.lean`).  That shape is what `Tie/Visit.lean` (`tie_visit`) proves about the translated `visit` for every visitor;
    the entry drain between rounds acts on the stream only.
  * the `Drop` of an entry handle does not touch the filesystem.
Hypotheses: `HandlesOk` / `MetasOk` - the name of every handle is a Rust `String` (UTF-8 of some `n`) shorter than
2^64 - 1 characters; fewer than 2^64 entries (`usize`).
-/

set_option linter.unusedSimpArgs false
namespace ZipVerif.Tie.Extract
open ZipVerif ZipVerif.Spec ZipVerif.Model ZipVerif.Spec.Paths ZipVerif.Model.Paths ZipVerif.Spec.FS ZipVerif.Spec.Tree
open ZipVerif.Model.Extract ZipVerif.Tie.Paths ZipVerif.Tie.Mangled ZipVerif.Tie.Accessors

/-- a path as the kernel will see it -/
structure KPath where
  r : List Comp
  dot : Bool
  slash : Bool
  deriving DecidableEq

def dirOf (root : Path) : KPath := ⟨root.reverse.map Comp.normal, false, false⟩

def kpath (root : Path) (n : Name) : KPath := ⟨joinedR root n, tailDot n, endsSlash n⟩

def liftIo : FS × Option FsErr → FS × Rs.XOut Err Unit
  | (fs, none) => (fs, .ok ())
  | (fs, some e) => (fs, .err (.fs e))

def fsOps (c : Cfg) (content : Gen.ZipFile → Bytes × Option SrcErr) : Rs.FsOps FS KPath Gen.ZipFile Path Err where
  join d rel := match utf8Strict rel with
    | some n => ⟨(relComps n).reverse ++ d.r, tailDot n, endsSlash n⟩
    | none => d
  parent p := match p.r with
    | [] => none
    | _ :: up => some ⟨up, false, false⟩
  «exists» p fs := pathExists c fs p.r
  create_dir_all p := fun fs => liftIo (createDirAll c p.r p.dot fs)
  file_create p := fun fs =>
    match createFile c fs (dotted p.r p.dot) p.slash with
    | .error e => (fs, .err (.fs e))
    | .ok (fs2, tgt) => (fs2, .ok tgt)
  copy f tgt := fun fs =>
    match (content f).2 with
    | none => (writeAt fs tgt (content f).1, .ok (UInt64.ofNat (content f).1.length, f))
    | some se => (writeAt fs tgt (content f).1, .err (.src se))
  set_permissions p m := fun fs =>
    match setPermissions c fs (dotted p.r p.dot) p.slash m.toNat with
    | .ok fs' => (fs', .ok ())
    | .error e => (fs, .err (.fs e))

def errOps : Rs.ErrOps Err Err where
  io := id
  invalid_archive s := if s = "Invalid file path" then .invalidPath else .noCentral

def srcOps (hs : List (Except SrcErr Gen.ZipFile)) : Rs.SrcOps FS Gen.ZipFile Err where
  len := UInt64.ofNat hs.length
  by_index i := fun fs =>
    match hs[i.toNat]? with
    | some (.ok f) => (fs, .ok f)
    | some (.error e) => (fs, .err (.src e))
    | none => (fs, .panic)

def nameOf (f : Gen.ZipFile) : Name := (utf8Strict f.data.get.file_name).getD []

def viewOf (content : Gen.ZipFile → Bytes × Option SrcErr) : Except SrcErr Gen.ZipFile → EntryView
  | .error e => { name := [], openErr := some e }
  | .ok f => { name := nameOf f, data := (content f).1, readErr := (content f).2, mode := (view f).unixMode.map (·.toNat) }

def ofModel : FS × Option Err → FS × Rs.XOut Err Unit
  | (fs, none) => (fs, .ok ())
  | (fs, some e) => (fs, .err e)

/-! ### the monad -/

theorem bind_apply {W E α β} (x : Rs.X W E α) (f : α → Rs.X W E β) (w : W) :
    (x >>= f) w = match x w with
      | (w1, .ok a) => f a w1
      | (w1, .err e) => (w1, .err e)
      | (w1, .panic) => (w1, .panic) := rfl

theorem pure_apply {W E α} (a : α) (w : W) : (pure a : Rs.X W E α) w = (w, .ok a) := rfl


theorem lift_some_bind {W E α β} (a : α) (f : α → Rs.X W E β) : (Rs.X.lift (some a) >>= f) = f a := rfl
theorem okOr_some_bind {W E α β} (a : α) (e : E) (f : α → Rs.X W E β) : (Rs.X.okOr (some a) e >>= f) = f a := rfl
theorem okOr_none_bind {W E α β} (e : E) (f : α → Rs.X W E β) (w : W) :
    (Rs.X.okOr (none : Option α) e >>= f) w = (w, .err e) := rfl

theorem lift_some_apply {W E α} (a : α) (w : W) : (Rs.X.lift (some a) : Rs.X W E α) w = (w, .ok a) := rfl
theorem lift_none_apply {W E α} (w : W) : (Rs.X.lift (none : Option α) : Rs.X W E α) w = (w, .panic) := rfl
theorem okOr_some_apply {W E α} (a : α) (e : E) (w : W) : (Rs.X.okOr (some a) e : Rs.X W E α) w = (w, .ok a) := rfl
theorem okOr_none_apply {W E α} (e : E) (w : W) : (Rs.X.okOr (none : Option α) e : Rs.X W E α) w = (w, .err e) := rfl
theorem observe_apply {W E α} (g : W → α) (w : W) : (Rs.X.observe g : Rs.X W E α) w = (w, .ok (g w)) := rfl
theorem io_apply {W E IoE α} (conv : IoE → E) (x : Rs.X W IoE α) (w : W) :
    Rs.X.io conv x w = match x w with
      | (w1, .ok a) => (w1, .ok a)
      | (w1, .err e) => (w1, .err (conv e))
      | (w1, .panic) => (w1, .panic) := rfl

/-! ### UTF-8: the last byte -/

theorem encodeChar_ne_nil (c : Char) : utf8EncodeChar c ≠ [] := by
  unfold utf8EncodeChar
  simp only []
  split
  · simp
  · split
    · simp
    · split <;> simp

theorem endsWith_slash (n : Name) : Rs.Str.endsWithAscii (utf8Encode n) 47 = isDirName n := by
  unfold Rs.Str.endsWithAscii isDirName
  rcases List.eq_nil_or_concat n with h | ⟨r, c, h⟩
  · subst h; rfl
  · subst h
    rw [List.concat_eq_append, encode_append]
    have hc : utf8Encode [c] = utf8EncodeChar c := by simp [utf8Encode]
    rw [hc, List.getLast?_append, List.getLast?_concat]
    cases hl : (utf8EncodeChar c).getLast? with
    | none => exact absurd (List.getLast?_eq_none_iff.mp hl) (encodeChar_ne_nil c)
    | some b =>
      have hb : b ∈ utf8EncodeChar c := List.mem_of_getLast? hl
      have e47 : UInt8.ofNat 47 = (47 : UInt8) := rfl
      have hgoal : (b == (47 : UInt8)) = (c == '/') := by
        rcases encodeChar_byte c b hb with ⟨h1, h2, h3⟩ | h
        · by_cases hc : c = '/'
          · subst hc
            have : b = 47 := by
              apply UInt8.toNat_inj.mp
              rw [h3]; rfl
            subst this; rfl
          · have : b ≠ 47 := by
              intro hb'
              apply hc
              apply Char.ext
              apply UInt32.toNat_inj.mp
              have : c.toNat = 47 := by rw [← h3, hb']; rfl
              exact this
            rw [beq_eq_false_iff_ne.mpr this, beq_eq_false_iff_ne.mpr hc]
        · have h1 : b ≠ 47 := by
            intro hb'; rw [hb'] at h; revert h; decide
          have h2 : c ≠ '/' := by
            intro hc; subst hc
            have he : utf8EncodeChar '/' = [47] := by decide
            rw [he, List.mem_singleton] at hb
            exact h1 hb
          rw [beq_eq_false_iff_ne.mpr h1, beq_eq_false_iff_ne.mpr h2]
      show ((some b).or (utf8Encode r).getLast? == some (UInt8.ofNat 47)) = (some c == some '/')
      rw [e47]
      simpa using hgoal


/-! ### what the translated accessors deliver on a handle whose name is the UTF-8 of `n` -/

/-- the invariant of a Rust `String` (well-formed UTF-8) and of its length (`usize`) -/
def NameOk (bs : Bytes) : Prop := ∃ n : Name, bs = utf8Encode n ∧ n.length + 1 < 2 ^ 64

theorem enclosedName_eq {n m : Name} (h : enclosedName n = some m) : m = n := by
  unfold enclosedName at h
  split at h
  · cases h
  · split at h
    · cases h; rfl
    · cases h

theorem join_encode (c : Cfg) (content) (root : Path) (n : Name) :
    (fsOps c content).join (dirOf root) (utf8Encode n) = kpath root n := by
  show (match utf8Strict (utf8Encode n) with
    | some n => (⟨(relComps n).reverse ++ (dirOf root).r, tailDot n, endsSlash n⟩ : KPath)
    | none => dirOf root) = _
  rw [strict_encode]
  rfl

theorem cda_apply (c : Cfg) (content) (p : KPath) (fs : FS) :
    (fsOps c content).create_dir_all p fs = liftIo (createDirAll c p.r p.dot fs) := rfl
theorem parent_eq (c : Cfg) (content) (p : KPath) :
    (fsOps c content).parent p = match p.r with
      | [] => none
      | _ :: up => some ⟨up, false, false⟩ := rfl
theorem exists_eq (c : Cfg) (content) (p : KPath) (fs : FS) : (fsOps c content).exists p fs = pathExists c fs p.r := rfl
theorem create_apply (c : Cfg) (content) (p : KPath) (fs : FS) :
    (fsOps c content).file_create p fs = match createFile c fs (dotted p.r p.dot) p.slash with
      | .error e => (fs, .err (.fs e))
      | .ok (fs2, tgt) => (fs2, .ok tgt) := rfl
theorem copy_apply (c : Cfg) (content : Gen.ZipFile → Bytes × Option SrcErr) (f : Gen.ZipFile) (tgt : Path) (fs : FS) :
    (fsOps c content).copy f tgt fs = match (content f).2 with
      | none => (writeAt fs tgt (content f).1, .ok (UInt64.ofNat (content f).1.length, f))
      | some se => (writeAt fs tgt (content f).1, .err (.src se)) := rfl
theorem setperm_apply (c : Cfg) (content) (p : KPath) (m : UInt32) (fs : FS) :
    (fsOps c content).set_permissions p m fs = match setPermissions c fs (dotted p.r p.dot) p.slash m.toNat with
      | .ok fs' => (fs', .ok ())
      | .error e => (fs, .err (.fs e)) := rfl

@[simp] theorem kpath_r (root : Path) (n : Name) : (kpath root n).r = joinedR root n := rfl
@[simp] theorem kpath_dot (root : Path) (n : Name) : (kpath root n).dot = tailDot n := rfl
@[simp] theorem kpath_slash (root : Path) (n : Name) : (kpath root n).slash = endsSlash n := rfl

def pendOf (root : Path) (n : Name) (mode : Option UInt32) : List (UInt64 × KPath × UInt32) :=
  match mode with
  | some m => [(UInt64.ofNat (pathDepth n), kpath root n, m)]
  | none => []

def stepRes {σ : Type} (r : FS × Option Err) (st : σ) : FS × Rs.XOut Err σ :=
  match r with
  | (fs1, some e) => (fs1, .err e)
  | (fs1, none) => (fs1, .ok st)

theorem body_ok (c : Cfg) (content) (root : Path) (hs : List (Except SrcErr Gen.ZipFile)) (i : Nat) (hi : i < 2 ^ 64) (f : Gen.ZipFile)
    (n : Name) (hname : f.data.get.file_name = utf8Encode n) (hn : n.length + 1 < 2 ^ 64)
    (hf : hs[i]? = some (.ok f)) (st) (fs : FS) :
    @Gen.ZipArchive.place_entries.loop1_body pathOps _ _ _ _ _ (fsOps c content) errOps (dirOf root) (srcOps hs) (UInt64.ofNat i) st fs
      = stepRes (placeFile c true root (viewOf content (.ok f)) fs) (st ++ pendOf root n (view f).unixMode) := by
  have hidx : (srcOps hs).by_index (UInt64.ofNat i) fs = (fs, .ok f) := by
    show (match hs[(UInt64.ofNat i).toNat]? with
      | some (.ok f) => (fs, Rs.XOut.ok f)
      | some (.error e) => (fs, .err (Err.src e))
      | none => (fs, .panic)) = _
    rw [UInt64.toNat_ofNat_of_lt' hi, hf]
  have hnm : nameOf f = n := by unfold nameOf; rw [hname, strict_encode]; rfl
  unfold Gen.ZipArchive.place_entries.loop1_body
  simp only [bind_apply, hidx, tie_zipfile_enclosed_name f n hname hn]
  unfold placeFile viewOf
  simp only [hnm]
  have hvn : (view f).fileName = utf8Encode n := hname
  cases hen : enclosedName n with
  | none =>
    simp only [Option.map_none, lift_some_apply, okOr_none_apply]
    rfl
  | some m =>
    have := enclosedName_eq hen
    subst this
    simp only [Option.map_some, lift_some_apply, okOr_some_apply, tie_path_depth m hn, join_encode]
    simp only [bind_apply, io_apply, tie_name, tie_unix_mode, lift_some_apply, hvn, endsWith_slash]
    unfold placeEntry
    simp only []
    by_cases hd : isDirName m
    · simp only [hd, if_true, bind_apply, io_apply, cda_apply]
      show _ = stepRes (liftFs (createDirAll c (kpath root m).r (kpath root m).dot fs)) _
      rcases createDirAll c (kpath root m).r (kpath root m).dot fs with ⟨fs1, _ | e⟩
      · simp only [liftIo, liftFs, stepRes, lift_some_apply, pendOf]
        cases (view f).unixMode <;> simp [pure_apply]
      · simp [liftIo, liftFs, stepRes, errOps]
    · simp only [hd, Bool.false_eq_true, if_false, parent_eq, ensureParent, kpath_r, kpath_dot, kpath_slash]
      rcases hr : joinedR root m with _ | ⟨x, up⟩
      · simp only [bind_apply, io_apply, create_apply, copy_apply, kpath_r, kpath_dot, kpath_slash, lift_some_apply, hr]
        rcases createFile c fs (dotted [] (tailDot m)) (endsSlash m) with e | ⟨fs2, tgt⟩
        · simp [stepRes, errOps]
        · rcases (content f).snd with _ | se
          · rcases hm : (view f).unixMode with _ | md <;> simp [stepRes, pendOf, pure_apply, hm]
          · simp [stepRes, errOps]
      · simp only [bind_apply, kpath_r, kpath_dot, kpath_slash, lift_some_apply, hr,
          observe_apply, exists_eq, Bool.true_and]
        by_cases hex : pathExists c fs up
        · simp only [hex, Bool.not_true, Bool.false_eq_true, if_false, if_true]
          simp only [bind_apply, io_apply, create_apply, copy_apply, kpath_r, kpath_dot, kpath_slash, lift_some_apply, hr]
          rcases createFile c fs (dotted (x :: up) (tailDot m)) (endsSlash m) with e | ⟨fs2, tgt⟩
          · simp [stepRes, errOps]
          · rcases (content f).snd with _ | se
            · rcases hm : (view f).unixMode with _ | md <;> simp [stepRes, pendOf, pure_apply, hm]
            · simp [stepRes, errOps]
        · simp only [hex, Bool.not_false, if_true, Bool.false_eq_true, if_false]
          simp only [bind_apply, io_apply, create_apply, copy_apply, kpath_r, kpath_dot, kpath_slash, lift_some_apply, hr, cda_apply]
          rcases createDirAll c up false fs with ⟨fs1, _ | e⟩
          · simp only [liftIo]
            rcases createFile c fs1 (dotted (x :: up) (tailDot m)) (endsSlash m) with e | ⟨fs2, tgt⟩
            · simp [stepRes, errOps]
            · rcases (content f).snd with _ | se
              · rcases hm : (view f).unixMode with _ | md <;> simp [stepRes, pendOf, pure_apply, hm]
              · simp [stepRes, errOps]
          · simp [liftIo, stepRes, errOps]

theorem body_err (c : Cfg) (content) (root : Path) (hs : List (Except SrcErr Gen.ZipFile)) (i : Nat) (hi : i < 2 ^ 64)
    (e : SrcErr) (hf : hs[i]? = some (.error e)) (st) (fs : FS) :
    @Gen.ZipArchive.place_entries.loop1_body pathOps _ _ _ _ _ (fsOps c content) errOps (dirOf root) (srcOps hs) (UInt64.ofNat i) st fs
      = stepRes (placeFile c true root (viewOf content (.error e)) fs) st := by
  have hidx : (srcOps hs).by_index (UInt64.ofNat i) fs = (fs, .err (.src e)) := by
    show (match hs[(UInt64.ofNat i).toNat]? with
      | some (.ok f) => (fs, Rs.XOut.ok f)
      | some (.error e) => (fs, .err (Err.src e))
      | none => (fs, .panic)) = _
    rw [UInt64.toNat_ofNat_of_lt' hi, hf]
  unfold Gen.ZipArchive.place_entries.loop1_body
  simp only [bind_apply, hidx]
  rfl

/-- the modes an entry list leaves pending, in archive order -/
def pendAll (root : Path) : List (Except SrcErr Gen.ZipFile) → List (UInt64 × KPath × UInt32)
  | [] => []
  | .error _ :: r => pendAll root r
  | .ok f :: r => pendOf root (nameOf f) (view f).unixMode ++ pendAll root r

/-- every handle the archive delivers carries a Rust `String` as its name -/
def HandlesOk (hs : List (Except SrcErr Gen.ZipFile)) : Prop :=
  ∀ f, Except.ok f ∈ hs → NameOk f.data.get.file_name

theorem forN_succ {W E σ : Type} (body : UInt64 → σ → Rs.X W E σ) (n : Nat) (i : UInt64) (s : σ) :
    Rs.X.forN body (n + 1) i s = (body i s >>= fun s' => Rs.X.forN body n (i + 1) s') := rfl

theorem ofNat_succ (i : Nat) : UInt64.ofNat i + 1 = UInt64.ofNat (i + 1) := by
  rw [UInt64.ofNat_add]; rfl

theorem nameOf_eq {f : Gen.ZipFile} {n : Name} (h : f.data.get.file_name = utf8Encode n) : nameOf f = n := by
  unfold nameOf; rw [h, strict_encode]; rfl

/-- a step of the collector's loop: the world, the vector, the outcome -/
def stepResK {σ : Type} (r : FS × Option Err) (st : σ) : FS × σ × Rs.XOut Err Unit :=
  match r with
  | (fs1, some e) => (fs1, st, .err e)
  | (fs1, none) => (fs1, st, .ok ())

theorem forNK_succ {W E σ : Type} (body : UInt64 → σ → Rs.X W E σ) (n : Nat) (i : UInt64) (s : σ) (w : W) :
    Rs.X.forNK body (n + 1) i s w =
      (match body i s w with
       | (w1, .ok s') => Rs.X.forNK body n (i + 1) s' w1
       | (w1, .err e) => (w1, s, .err e)
       | (w1, .panic) => (w1, s, .panic)) := rfl

/-- the loop of `ZipArchive::place_entries` from index `i` on: the model's `placeFiles` over the remaining entries;
the vector `modes` collects (depth, joined path, mode) of every entry placed completely that records a mode — when
the loop fails, of the entries before the failing one (`placedCount`) -/
theorem loop_eq (c : Cfg) (content) (root : Path) (hs : List (Except SrcErr Gen.ZipFile)) (hlen : hs.length < 2 ^ 64)
    (hok : HandlesOk hs) : ∀ (k i : Nat), i + k = hs.length → ∀ st fs,
    Rs.X.forNK (@Gen.ZipArchive.place_entries.loop1_body pathOps _ _ _ _ _ (fsOps c content) errOps (dirOf root) (srcOps hs))
        k (UInt64.ofNat i) st fs
      = stepResK (placeFiles c true root ((hs.drop i).map (viewOf content)) fs)
          (st ++ pendAll root ((hs.drop i).take (placedCount c true root ((hs.drop i).map (viewOf content)) fs))) := by
  intro k
  induction k with
  | zero =>
    intro i hi st fs
    have : hs.drop i = [] := List.drop_eq_nil_of_le (by omega)
    rw [this]
    simp [Rs.X.forNK, placeFiles, stepResK, pendAll]
  | succ k ih =>
    intro i hi st fs
    have hlt : i < hs.length := by omega
    have hd : hs.drop i = hs[i] :: hs.drop (i + 1) := List.drop_eq_getElem_cons hlt
    have hget : hs[i]? = some hs[i] := List.getElem?_eq_getElem hlt
    rw [forNK_succ, hd, ofNat_succ]
    simp only [List.map_cons, placeFiles, placedCount]
    rcases hh : hs[i] with e | f
    · rw [hh] at hget
      rw [body_err c content root hs i (by omega) e hget]
      simp [placeFile, viewOf, stepRes, stepResK, pendAll]
    · rw [hh] at hget
      obtain ⟨n, hname, hn⟩ := hok f (by rw [← hh]; exact List.getElem_mem hlt)
      rw [body_ok c content root hs i (by omega) f n hname hn hget]
      rcases hp : placeFile c true root (viewOf content (Except.ok f)) fs with ⟨fs1, _ | er⟩
      · simp only [stepRes]
        rw [ih (i + 1) (by omega)]
        simp only [List.take_succ_cons, pendAll, nameOf_eq hname, List.append_assoc]
      · simp [stepRes, stepResK, pendAll]

/-! ### `apply_unix_modes` -/

/-- a pending mode of the model as the triple the source keeps -/
def enc (root : Path) (p : Pending) : UInt64 × KPath × UInt32 :=
  (UInt64.ofNat p.1, kpath root p.2.1, UInt32.ofNat p.2.2)

/-- depths fit `usize`, modes fit `u32` -/
def PendOk (l : List Pending) : Prop := ∀ p ∈ l, p.1 < 2 ^ 64 ∧ p.2.2 < 2 ^ 32

theorem mem_insertMode (x p : Pending) : ∀ l : List Pending, p ∈ insertMode x l ↔ p = x ∨ p ∈ l := by
  intro l
  induction l with
  | nil => simp [insertMode]
  | cons y ys ih =>
    unfold insertMode
    split
    · simp
    · simp only [List.mem_cons, ih]
      constructor
      · rintro (h | h | h) <;> simp [h]
      · rintro (h | h | h) <;> simp [h]

theorem mem_sortModes (p : Pending) : ∀ l : List Pending, p ∈ sortModes l ↔ p ∈ l := by
  intro l
  induction l with
  | nil => simp [sortModes]
  | cons y ys ih => simp [sortModes, mem_insertMode, ih]

theorem ofNat_le_ofNat {a b : Nat} (ha : a < 2 ^ 64) (hb : b < 2 ^ 64) :
    (UInt64.ofNat a ≤ UInt64.ofNat b) ↔ a ≤ b := by
  rw [UInt64.le_iff_toNat_le, UInt64.toNat_ofNat_of_lt' ha, UInt64.toNat_ofNat_of_lt' hb]

theorem insert_map (root : Path) (key : UInt64 × KPath × UInt32 → Rs.Reverse UInt64) (hk : ∀ x, key x = Rs.Reverse.mk x.1)
    (x : Pending) (hx : x.1 < 2 ^ 64) : ∀ ys : List Pending, PendOk ys →
    Rs.X.insertByKey key (enc root x) (ys.map (enc root)) = (insertMode x ys).map (enc root) := by
  intro ys
  induction ys with
  | nil => intro _; rfl
  | cons y r ih =>
    intro hys
    have hy := hys y (List.mem_cons_self ..)
    have hle : Rs.KeyLe.le (key (enc root x)) (key (enc root y)) = decide (y.1 ≤ x.1) := by
      rw [hk, hk]
      show decide (UInt64.ofNat y.1 ≤ UInt64.ofNat x.1) = _
      rw [decide_eq_decide]
      exact ofNat_le_ofNat hy.1 hx
    simp only [List.map_cons, Rs.X.insertByKey, insertMode, hle, decide_eq_true_eq]
    split
    · rfl
    · rw [ih (fun p hp => hys p (List.mem_cons_of_mem _ hp))]
      rfl

theorem sort_map (root : Path) (key : UInt64 × KPath × UInt32 → Rs.Reverse UInt64) (hk : ∀ x, key x = Rs.Reverse.mk x.1) :
    ∀ l : List Pending, PendOk l → Rs.X.sortByKey key (l.map (enc root)) = (sortModes l).map (enc root) := by
  intro l
  induction l with
  | nil => intro _; rfl
  | cons x r ih =>
    intro hl
    have hr : PendOk r := fun p hp => hl p (List.mem_cons_of_mem _ hp)
    simp only [List.map_cons, Rs.X.sortByKey, sortModes, ih hr]
    exact insert_map root key hk x (hl x (List.mem_cons_self ..)).1 _
      (fun p hp => hr p ((mem_sortModes p r).mp hp))

theorem forVec_cons {W E α σ : Type} (x : α) (xs : List α) (body : α → σ → Rs.X W E σ) (s : σ) :
    Rs.X.forVec (x :: xs) body s = (body x s >>= fun s' => Rs.X.forVec xs body s') := rfl

/-- the loop of `apply_unix_modes`: `set_permissions` in list order, the first failure ends it -/
theorem forVec_modes (c : Cfg) (content) (root : Path) : ∀ l : List Pending, PendOk l → ∀ fs,
    Rs.X.forVec (l.map (enc root)) (@Gen.apply_unix_modes.loop1_body pathOps _ _ _ _ Err (fsOps c content) errOps) () fs
      = ofModel (applyModes c root (l.map fun p => (p.2.1, some p.2.2)) fs) := by
  intro l
  induction l with
  | nil => intro _ fs; rfl
  | cons x r ih =>
    intro hl fs
    have hx := hl x (List.mem_cons_self ..)
    have hm : (UInt32.ofNat x.2.2).toNat = x.2.2 := UInt32.toNat_ofNat_of_lt' hx.2
    rw [List.map_cons, forVec_cons, bind_apply]
    unfold Gen.apply_unix_modes.loop1_body
    simp only [enc, bind_apply, setperm_apply, Rs.Permissions.from_mode, kpath_r, kpath_dot, kpath_slash, hm,
      List.map_cons, applyModes, applyMode]
    rcases setPermissions c fs (dotted (joinedR root x.2.1) (tailDot x.2.1)) (endsSlash x.2.1) x.2.2 with e | fs'
    · rfl
    · simp only [pure_apply]
      exact ih (fun p hp => hl p (List.mem_cons_of_mem _ hp)) fs'

/-- **`apply_unix_modes`**: the stable sort by descending depth (`sortModes`), then `set_permissions` for each
(`applyModes`). -/
theorem tie_apply_unix_modes (c : Cfg) (content) (root : Path) (l : List Pending) (hl : PendOk l) (fs : FS) :
    @Gen.apply_unix_modes pathOps _ _ _ _ Err (fsOps c content) errOps (l.map (enc root)) fs
      = ofModel (applyModes c root ((sortModes l).map fun p => (p.2.1, some p.2.2)) fs) := by
  unfold Gen.apply_unix_modes
  simp only [bind_apply]
  rw [sort_map root _ (fun _ => rfl) l hl, forVec_modes c content root _ (fun p hp => hl p ((mem_sortModes p l).mp hp))]
  generalize applyModes c root _ fs = r
  rcases r with ⟨fs1, _ | e⟩ <;> rfl

/-! ### `ZipArchive::extract` -/

theorem foldl_depth_le (cs : List Comp) : ∀ d, cs.foldl depthStep d ≤ d + cs.length := by
  induction cs with
  | nil => intro d; simp
  | cons x r ih =>
    intro d
    have h1 : depthStep d x ≤ d + 1 := by cases x <;> simp [depthStep] <;> omega
    have := ih (depthStep d x)
    simp only [List.foldl_cons, List.length_cons]
    omega

theorem pathDepth_lt (n : Name) (hn : n.length + 1 < 2 ^ 64) : pathDepth n < 2 ^ 64 := by
  have h1 := foldl_depth_le (components n) 0
  have h2 := components_length_le n
  unfold pathDepth
  omega

/-- what the model is given: name and mode of every entry -/
def metaOf (content : Gen.ZipFile → Bytes × Option SrcErr) (hs : List (Except SrcErr Gen.ZipFile)) : List (Name × Option Nat) :=
  (hs.map (viewOf content)).map fun e => (e.name, e.mode)

theorem pendAll_eq (root : Path) (content) : ∀ hs : List (Except SrcErr Gen.ZipFile), HandlesOk hs →
    pendAll root hs = (pendingOf (metaOf content hs)).map (enc root) ∧ PendOk (pendingOf (metaOf content hs)) := by
  intro hs
  induction hs with
  | nil => intro _; exact ⟨rfl, fun p hp => by cases hp⟩
  | cons h r ih =>
    intro hok
    have ⟨ih1, ih2⟩ := ih (fun f hf => hok f (List.mem_cons_of_mem _ hf))
    rcases h with e | f
    · exact ⟨ih1, ih2⟩
    · obtain ⟨n, hname, hn⟩ := hok f (List.mem_cons_self ..)
      have hnm := nameOf_eq hname
      rcases hm : (view f).unixMode with _ | md
      · have hq : pendingOf (metaOf content (Except.ok f :: r)) = pendingOf (metaOf content r) := by
          simp [metaOf, viewOf, hm, pendingOf]
        rw [hq]
        refine ⟨?_, ih2⟩
        simp only [pendAll, hm, pendOf, List.nil_append, ih1]
      · have hq : pendingOf (metaOf content (Except.ok f :: r)) = (pathDepth n, n, md.toNat) :: pendingOf (metaOf content r) := by
          simp [metaOf, viewOf, hm, pendingOf, hnm]
        rw [hq]
        refine ⟨?_, ?_⟩
        · simp only [pendAll, hm, pendOf, hnm, ih1, List.map_cons, enc, UInt32.ofNat_toNat]
          rfl
        · intro p hp
          rcases List.mem_cons.mp hp with h | h
          · subst h
            exact ⟨pathDepth_lt n hn, md.toNat_lt⟩
          · exact ih2 p h

/-- a run of the placing loop that succeeds has placed every entry -/
theorem placedCount_all {c : Cfg} {chk : Bool} {root : Path} {es : List EntryView} {fs fs1 : FS}
    (h : placeFiles c chk root es fs = (fs1, none)) : placedCount c chk root es fs = es.length := by
  induction es generalizing fs with
  | nil => rfl
  | cons e0 es ih =>
    simp only [placeFiles] at h
    simp only [placedCount, List.length_cons]
    split at h
    · cases h
    · next fs2 he => rw [ih h]

theorem handlesOk_take {hs : List (Except SrcErr Gen.ZipFile)} (hok : HandlesOk hs) (n : Nat) : HandlesOk (hs.take n) :=
  fun f hf => hok f (List.mem_of_mem_take hf)

theorem metaOf_take (content) (hs : List (Except SrcErr Gen.ZipFile)) (n : Nat) :
    metaOf content (hs.take n) = ((hs.map (viewOf content)).take n).map fun e => (e.name, e.mode) := by
  unfold metaOf
  rw [List.map_take]

/-- **`ZipArchive::extract` is the model's `extractSeek`**: for every filesystem state, every behaviour of the archive
reader (`hs`: what `by_index(i)` answers; `content`: what `io::copy` receives from a handle and whether the read then
fails) and every target directory: all entries are placed in archive order (`placeFiles`, with the `exists` test in
front of `create_dir_all(parent)`), the first error ends the placing and leaves what was done; then the recorded
modes — after an error: those of the entries placed before the failing one — are applied, deepest path first, same
depth in archive order (`modeOrder`, `applyModes`); after an error of the placing the outcome of that is ignored and
the error of the placing is returned. -/
theorem tie_extract_seek (c : Cfg) (content : Gen.ZipFile → Bytes × Option SrcErr) (root : Path)
    (hs : List (Except SrcErr Gen.ZipFile)) (hlen : hs.length < 2 ^ 64) (hok : HandlesOk hs) (fs : FS) :
    @Gen.ZipArchive.extract pathOps _ _ _ _ _ (fsOps c content) errOps (srcOps hs) (dirOf root) fs
      = ofModel (extractSeek c root (hs.map (viewOf content)) fs) := by
  unfold Gen.ZipArchive.extract Gen.ZipArchive.place_entries extractSeek
  have hl : Rs.X.forRangeK (0 : UInt64) (srcOps hs).len
      (@Gen.ZipArchive.place_entries.loop1_body pathOps _ _ _ _ _ (fsOps c content) errOps (dirOf root) (srcOps hs)) [] fs
      = stepResK (placeFiles c true root (hs.map (viewOf content)) fs)
          (pendAll root (hs.take (placedCount c true root (hs.map (viewOf content)) fs))) := by
    have h0 : ((srcOps hs).len.toNat - (0 : UInt64).toNat) = hs.length := by
      show (UInt64.ofNat hs.length).toNat - 0 = _
      rw [UInt64.toNat_ofNat_of_lt' hlen]; rfl
    unfold Rs.X.forRangeK
    rw [h0]
    have := loop_eq c content root hs hlen hok hs.length 0 (by omega) [] fs
    simpa using this
  simp only [bind_apply, Rs.X.keep, hl]
  rcases hpf : placeFiles c true root (hs.map (viewOf content)) fs with ⟨fs1, _ | e⟩
  · have hcnt : placedCount c true root (hs.map (viewOf content)) fs = hs.length := by
      rw [placedCount_all hpf, List.length_map]
    simp only [stepResK, hcnt, List.take_length, Rs.X.attempt]
    have ⟨h1, h2⟩ := pendAll_eq root content hs hok
    rw [h1, tie_apply_unix_modes c content root _ h2 fs1]
    show _ = ofModel (applyModes c root (modeOrder (metaOf content hs)) fs1)
    unfold modeOrder
    generalize applyModes c root _ fs1 = r
    rcases r with ⟨fs2, _ | e⟩ <;> rfl
  · simp only [stepResK, Rs.X.attempt]
    have ⟨h1, h2⟩ := pendAll_eq root content _ (handlesOk_take hok (placedCount c true root (hs.map (viewOf content)) fs))
    rw [h1, tie_apply_unix_modes c content root _ h2 fs1, metaOf_take]
    show _ = ofModel ((applyModes c root (modeOrder _) fs1).1, some e)
    unfold modeOrder
    generalize applyModes c root _ fs1 = r
    rcases r with ⟨fs2, _ | e2⟩ <;> rfl

/-! ### `ZipStreamReader::extract` -/

abbrev Extractor := Gen.ZipStreamReader.extract.Extractor KPath

/-- `visit_file` for the local entries, in stream order; an entry that cannot be opened ends the visit -/
def filesLoop {V : Type} (vf : V → Gen.ZipFile → Rs.X FS Err (Unit × V × Gen.ZipFile)) :
    List (Except SrcErr Gen.ZipFile) → V → Rs.X.K FS Err V
  | [], v => fun w => (w, v, .ok ())
  | .error e :: _, v => fun w => (w, v, .err (.src e))
  | .ok f :: r, v => fun w =>
    match vf v f w with
    | (w1, .ok x) => filesLoop vf r x.2.1 w1
    | (w1, .err e) => (w1, v, .err e)
    | (w1, .panic) => (w1, v, .panic)

/-- `visit_additional_metadata` for the central records, in order -/
def metasLoop {V : Type} (vm : V → Gen.ZipStreamFileMetadata → Rs.X FS Err (Unit × V)) :
    List Gen.ZipStreamFileMetadata → V → Rs.X.K FS Err V
  | [], v => fun w => (w, v, .ok ())
  | m :: r, v => fun w =>
    match vm v m w with
    | (w1, .ok x) => metasLoop vm r x.2 w1
    | (w1, .err e) => (w1, v, .err e)
    | (w1, .panic) => (w1, v, .panic)

/-- `ZipStreamReader::visit` as far as the extractor sees it (its shape is the subject of `Tie/Visit.lean`,
`tie_visit`): the file rounds, then - at least one - central record, each shown to the visitor once; together with
the visitor as the last complete callback left it -/
def streamOps {V : Type} (files : List (Except SrcErr Gen.ZipFile)) (metas : List Gen.ZipStreamFileMetadata) :
    Rs.StreamOps FS Gen.ZipFile Gen.ZipStreamFileMetadata Err V where
  visit vf vm v := fun w =>
    match filesLoop vf files v w with
    | (w1, v1, .ok ()) =>
      (match metas with
       | [] => (w1, v1, .err .noCentral)
       | _ => metasLoop vm metas v1 w1)
    | r => r

def nameOfM (m : Gen.ZipStreamFileMetadata) : Name := (utf8Strict m._0.file_name).getD []

def metaView (m : Gen.ZipStreamFileMetadata) : Name × Option Nat := (nameOfM m, (sview m).unixMode.map (·.toNat))

def MetasOk (ms : List Gen.ZipStreamFileMetadata) : Prop := ∀ m ∈ ms, NameOk m._0.file_name

theorem visit_file_eq (c : Cfg) (content) (root : Path) (l) (f : Gen.ZipFile)
    (n : Name) (hname : f.data.get.file_name = utf8Encode n) (hn : n.length + 1 < 2 ^ 64) (fs : FS) :
    @Gen.ZipStreamReader.extract.Extractor.visit_file pathOps _ _ _ _ _ (fsOps c content) errOps ⟨dirOf root, l⟩ f fs
      = stepRes (placeFile c false root (viewOf content (.ok f)) fs) ((), (⟨dirOf root, l⟩ : Extractor), f) := by
  have hnm : nameOf f = n := nameOf_eq hname
  unfold Gen.ZipStreamReader.extract.Extractor.visit_file
  simp only [bind_apply, tie_zipfile_enclosed_name f n hname hn]
  unfold placeFile viewOf
  simp only [hnm]
  have hvn : (view f).fileName = utf8Encode n := hname
  cases hen : enclosedName n with
  | none =>
    simp only [Option.map_none, lift_some_apply, okOr_none_apply]
    rfl
  | some m =>
    have := enclosedName_eq hen
    subst this
    simp only [Option.map_some, lift_some_apply, okOr_some_apply, join_encode]
    simp only [bind_apply, io_apply, tie_name, lift_some_apply, hvn, endsWith_slash]
    unfold placeEntry
    simp only []
    by_cases hd : isDirName m
    · simp only [hd, if_true, bind_apply, io_apply, cda_apply]
      show _ = stepRes (liftFs (createDirAll c (kpath root m).r (kpath root m).dot fs)) _
      rcases createDirAll c (kpath root m).r (kpath root m).dot fs with ⟨fs1, _ | e⟩
      · simp [liftIo, liftFs, stepRes, pure_apply]
      · simp [liftIo, liftFs, stepRes, errOps]
    · simp only [hd, Bool.false_eq_true, if_false, parent_eq, ensureParent, kpath_r, kpath_dot, kpath_slash, Bool.false_and]
      rcases hr : joinedR root m with _ | ⟨x, up⟩
      · simp only [bind_apply, io_apply, create_apply, copy_apply, kpath_r, kpath_dot, kpath_slash, hr]
        rcases createFile c fs (dotted [] (tailDot m)) (endsSlash m) with e | ⟨fs2, tgt⟩
        · simp [stepRes, errOps]
        · rcases (content f).snd with _ | se
          · simp [stepRes, pure_apply]
          · simp [stepRes, errOps]
      · simp only [bind_apply, io_apply, create_apply, copy_apply, kpath_r, kpath_dot, kpath_slash, hr, cda_apply]
        rcases createDirAll c up false fs with ⟨fs1, _ | e⟩
        · simp only [liftIo]
          rcases createFile c fs1 (dotted (x :: up) (tailDot m)) (endsSlash m) with e | ⟨fs2, tgt⟩
          · simp [stepRes, errOps]
          · rcases (content f).snd with _ | se
            · simp [stepRes, pure_apply]
            · simp [stepRes, errOps]
        · simp [liftIo, stepRes, errOps]


theorem nameOfM_eq {m : Gen.ZipStreamFileMetadata} {n : Name} (h : m._0.file_name = utf8Encode n) : nameOfM m = n := by
  unfold nameOfM; rw [h, strict_encode]; rfl

theorem visit_meta_eq (c : Cfg) (content) (root : Path) (l) (m : Gen.ZipStreamFileMetadata)
    (n : Name) (hname : m._0.file_name = utf8Encode n) (hn : n.length + 1 < 2 ^ 64) (fs : FS) :
    @Gen.ZipStreamReader.extract.Extractor.visit_additional_metadata pathOps _ _ _ _ _ (fsOps c content) errOps ⟨dirOf root, l⟩ m fs
      = match enclosedName n with
        | none => (fs, .err .invalidPath)
        | some _ => (fs, .ok ((), (⟨dirOf root, l ++ pendOf root n (sview m).unixMode⟩ : Extractor))) := by
  unfold Gen.ZipStreamReader.extract.Extractor.visit_additional_metadata
  simp only [bind_apply, tie_stream_enclosed_name m n hname hn, tie_stream_unix_mode]
  cases hen : enclosedName n with
  | none =>
    simp only [Option.map_none, lift_some_apply, okOr_none_apply]
    rfl
  | some k =>
    have := enclosedName_eq hen
    subst this
    simp only [Option.map_some, lift_some_apply, okOr_some_apply, join_encode]
    rcases hm : (sview m).unixMode with _ | md
    · simp [pendOf, pure_apply]
    · simp [pendOf, pure_apply, bind_apply, tie_path_depth k hn, lift_some_apply]

theorem files_eq (c : Cfg) (content) (root : Path) : ∀ (files : List (Except SrcErr Gen.ZipFile)), HandlesOk files → ∀ l fs,
    filesLoop (@Gen.ZipStreamReader.extract.Extractor.visit_file pathOps _ _ _ _ _ (fsOps c content) errOps) files ⟨dirOf root, l⟩ fs
      = stepResK (placeFiles c false root (files.map (viewOf content)) fs) (⟨dirOf root, l⟩ : Extractor) := by
  intro files
  induction files with
  | nil => intro _ l fs; rfl
  | cons h r ih =>
    intro hok l fs
    rcases h with e | f
    · rfl
    · obtain ⟨n, hname, hn⟩ := hok f (List.mem_cons_self ..)
      simp only [filesLoop, visit_file_eq c content root l f n hname hn, List.map_cons, placeFiles]
      rcases placeFile c false root (viewOf content (Except.ok f)) fs with ⟨fs1, _ | er⟩
      · simp only [stepRes]
        exact ih (fun f hf => hok f (List.mem_cons_of_mem _ hf)) l fs1
      · rfl

/-- the modes the central records leave pending, in central-directory order -/
def pendAllM (root : Path) : List Gen.ZipStreamFileMetadata → List (UInt64 × KPath × UInt32)
  | [] => []
  | m :: r => pendOf root (nameOfM m) (sview m).unixMode ++ pendAllM root r

theorem metas_eq (c : Cfg) (content) (root : Path) : ∀ (metas : List Gen.ZipStreamFileMetadata), MetasOk metas → ∀ l fs,
    metasLoop (@Gen.ZipStreamReader.extract.Extractor.visit_additional_metadata pathOps _ _ _ _ _ (fsOps c content) errOps)
        metas ⟨dirOf root, l⟩ fs
      = (fs, (⟨dirOf root, l ++ pendAllM root (metas.take (checkedCount (metas.map metaView)))⟩ : Extractor),
          match checkMetas (metas.map metaView) with
          | some e => .err e
          | none => .ok ()) := by
  intro metas
  induction metas with
  | nil => intro _ l fs; simp [metasLoop, checkMetas, checkedCount, pendAllM]
  | cons m r ih =>
    intro hok l fs
    obtain ⟨n, hname, hn⟩ := hok m (List.mem_cons_self ..)
    have hnm := nameOfM_eq hname
    simp only [metasLoop, visit_meta_eq c content root l m n hname hn, List.map_cons, checkMetas, checkedCount, metaView, hnm]
    cases hen : enclosedName n with
    | none => simp [pendAllM]
    | some k =>
      simp only []
      rw [ih (fun m hm => hok m (List.mem_cons_of_mem _ hm))]
      simp only [List.take_succ_cons, pendAllM, hnm, List.append_assoc]

/-- when no central record is rejected, all are accepted -/
theorem checkedCount_all : ∀ {ms : List (Name × Option Nat)}, checkMetas ms = none → checkedCount ms = ms.length := by
  intro ms
  induction ms with
  | nil => intro _; rfl
  | cons m r ih =>
    intro h
    simp only [checkMetas] at h
    simp only [checkedCount, List.length_cons]
    split at h
    · cases h
    · next p hp => rw [ih h]

theorem metasOk_take {ms : List Gen.ZipStreamFileMetadata} (h : MetasOk ms) (n : Nat) : MetasOk (ms.take n) :=
  fun m hm => h m (List.mem_of_mem_take hm)

theorem pendAllM_eq (root : Path) : ∀ metas : List Gen.ZipStreamFileMetadata, MetasOk metas →
    pendAllM root metas = (pendingOf (metas.map metaView)).map (enc root) ∧ PendOk (pendingOf (metas.map metaView)) := by
  intro metas
  induction metas with
  | nil => intro _; exact ⟨rfl, fun p hp => by cases hp⟩
  | cons m r ih =>
    intro hok
    have ⟨ih1, ih2⟩ := ih (fun f hf => hok f (List.mem_cons_of_mem _ hf))
    obtain ⟨n, hname, hn⟩ := hok m (List.mem_cons_self ..)
    have hnm := nameOfM_eq hname
    rcases hm : (sview m).unixMode with _ | md
    · have hq : pendingOf ((m :: r).map metaView) = pendingOf (r.map metaView) := by
        simp [metaView, hm, pendingOf]
      rw [hq]
      refine ⟨?_, ih2⟩
      simp only [pendAllM, hm, pendOf, List.nil_append, ih1]
    · have hq : pendingOf ((m :: r).map metaView) = (pathDepth n, n, md.toNat) :: pendingOf (r.map metaView) := by
        simp [metaView, hm, pendingOf, hnm]
      rw [hq]
      refine ⟨?_, ?_⟩
      · simp only [pendAllM, hm, pendOf, hnm, ih1, List.map_cons, enc, UInt32.ofNat_toNat]
        rfl
      · intro p hp
        rcases List.mem_cons.mp hp with h | h
        · subst h
          exact ⟨pathDepth_lt n hn, md.toNat_lt⟩
        · exact ih2 p h

/-- **`ZipStreamReader::extract` is the model's `extractStream`**: for every filesystem state, every sequence of local
entries the stream delivers (`files`, with what `io::copy` receives from each: `content`) and every sequence of
central records (`metas`): the entries are placed in stream order WITHOUT the `exists` test (`placeFiles … false`),
the central records are checked (`enclosed_name` or the error) and their modes collected with `path_depth` of the
name, and after the visit - also a visit that failed: then for the central records before the rejected one, the
outcome ignored - the modes are applied by `apply_unix_modes` (`modeOrder`, `applyModes`). -/
theorem tie_extract_stream (c : Cfg) (content : Gen.ZipFile → Bytes × Option SrcErr) (root : Path)
    (files : List (Except SrcErr Gen.ZipFile)) (metas : List Gen.ZipStreamFileMetadata)
    (hok : HandlesOk files) (hmok : MetasOk metas) (fs : FS) :
    @Gen.ZipStreamReader.extract pathOps _ _ _ _ _ (fsOps c content) errOps (streamOps files metas) (dirOf root) fs
      = ofModel (extractStream c root (files.map (viewOf content)) (metas.map metaView) fs) := by
  unfold Gen.ZipStreamReader.extract extractStream
  have hnil : ∀ fs1, @Gen.apply_unix_modes pathOps _ _ _ _ Err (fsOps c content) errOps [] fs1 = (fs1, .ok ()) := by
    intro fs1
    have := tie_apply_unix_modes c content root [] (fun p hp => by cases hp) fs1
    simpa [sortModes, applyModes, ofModel] using this
  simp only [streamOps, bind_apply, Rs.X.keep]
  rw [files_eq c content root files hok [] fs]
  rcases placeFiles c false root (files.map (viewOf content)) fs with ⟨fs1, _ | e⟩
  · simp only [stepResK]
    rcases metas with _ | ⟨m, r⟩
    · simp only [Rs.X.attempt, hnil]
      rfl
    · simp only [metas_eq c content root (m :: r) hmok [] fs1, List.nil_append]
      rcases hcm : checkMetas ((m :: r).map metaView) with _ | e
      · have hcnt : checkedCount ((m :: r).map metaView) = (m :: r).length := by
          rw [checkedCount_all hcm, List.length_map]
        simp only [hcnt, List.take_length, Rs.X.attempt]
        have ⟨h1, h2⟩ := pendAllM_eq root (m :: r) hmok
        rw [h1, tie_apply_unix_modes c content root _ h2 fs1]
        simp only [List.map_cons] at hcm
        simp only [List.map_cons, hcm]
        unfold modeOrder
        generalize applyModes c root _ fs1 = res
        rcases res with ⟨fs2, _ | e⟩ <;> rfl
      · simp only [Rs.X.attempt]
        have ⟨h1, h2⟩ := pendAllM_eq root _ (metasOk_take hmok (checkedCount ((m :: r).map metaView)))
        rw [h1, tie_apply_unix_modes c content root _ h2 fs1, List.map_take]
        simp only [List.map_cons] at hcm
        simp only [List.map_cons, hcm]
        unfold modeOrder
        generalize applyModes c root _ fs1 = res
        rcases res with ⟨fs2, _ | e2⟩ <;> rfl
  · simp only [stepResK, Rs.X.attempt, hnil]
    rfl

end ZipVerif.Tie.Extract
