import ZipVerif.Tie.WriterSM
/-
Tie obligation for `impl Write for ZipWriter :: flush` (src/write.rs; helper t6w5).

`rs2lean` translates the method in the STATE-MACHINE mode (`Gen.ZipWriter.flush`, `Gen/Writer.lean`): the match on
`self.inner.ref_mut()`, `w.flush()` through the current encoder, the `BrokenPipe` of a closed writer.

  tie_flush    erase (absR <$> Rs.S.run (Gen.ZipWriter.flush ext g)) = erase (Model.flushWriter (absW g))

an EQUATION for every writer value, every device and every fault index, without hypotheses.

TRUSTED VOCABULARY added (`Basic/RsS.lean`): `w.flush()` on the `&mut dyn Write` of `ref_mut()` is
`Rs.S.enc_flush`: `Storer(Unencrypted(sink))` forwards to `sink.flush()` (ONE I/O call, its error is the
method's); `ZipCryptoWriter::flush` is `Ok(())` without I/O (src/zipcrypto.rs: the body is `Ok(())`); a flate2 /
bzip2 / zstd encoder's `flush` is `Ok(())`, no sink call, the stack as this model sees it unchanged (the byte
stream the entry ends up with is the parameter `ext.compress`; the sink calls an encoder's flush makes under an
injected fault are not modelled - the statement of `Model.flushWriter`).
-/
namespace ZipVerif.Tie.Flush
open ZipVerif ZipVerif.Model ZipVerif.Tie.WriterSM

theorem tie_flush (ext : Rs.S.Ext) (g : Gen.ZipWriter) :
    erase (absR <$> Rs.S.run (Gen.ZipWriter.flush ext g)) = erase (flushWriter (absW g)) := by
  unfold Gen.ZipWriter.flush flushWriter
  cases hin : g.inner with
  | closed =>
    ssimp [absW, hin, Rs.S.ref_mut]
    simp only [absR, absW, hin]
  | storer enc =>
    cases enc with
    | none =>
      ssimp [absW, hin, Rs.S.ref_mut, Rs.S.enc_flush, Model.io]
      apply erase_congr
      intro r
      cases r with
      | error e =>
        ssimp []
        simp only [absR, absW, hin]
      | ok n =>
        ssimp []
        simp only [absR, absW, hin]
    | some e =>
      ssimp [absW, hin, Rs.S.ref_mut, Rs.S.enc_flush, Model.io]
      simp only [absR, absW, hin]
  | compressor m l enc pending =>
    ssimp [absW, hin, Rs.S.ref_mut, Rs.S.enc_flush, Model.io]
    simp only [absR, absW, hin]

end ZipVerif.Tie.Flush
