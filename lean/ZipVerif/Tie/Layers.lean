import ZipVerif.Gen.Crc32
import ZipVerif.Model.Layers
import ZipVerif.Model.Aes
/-
Tie obligations for the read layers (tier T6, LAYER mode of rs2lean; vocabulary and its assumed meaning:
`Basic/RsL.lean`).  `Gen.Crc32Reader.read` is the text of `Crc32Reader::read` (crc32.rs) regenerated on this
run, a function of the layer's own fields, the caller's buffer and an ARBITRARY inner reader; the theorems
say it is the model's transducer step (`Model.Layers.crcLayer`, C04/C09; `Model.Aes.crcRead`, C16) for every
inner reader, every state and every buffer.

Hypotheses mark the `Nat`/`u64` idealisation only: the buffer and what one inner `read` call delivers are
shorter than 2^64 bytes.
-/

namespace ZipVerif.Tie.Layers
open ZipVerif ZipVerif.Model.Layers

variable {σ : Type}

/-- the result of a model source's `rd` in the vocabulary of the generated code -/
def rdOf : ReadRes → Rs.RdRes
  | .ok bs => .ok bs
  | .err e => .err e
  | .panic => .panic

/-- a model source as an inner reader of the generated code -/
@[instance_reducible] def readOf (inner : Src σ) : Rs.Read σ := ⟨fun s n => (rdOf (inner.rd s n).1, (inner.rd s n).2)⟩

/-- what the caller sees of a generated `read`: the first `count` bytes of its buffer -/
def viewRead : Rs.IoRes UInt64 → Bytes → ReadRes
  | .ok c, buf => .ok (buf.take c.toNat)
  | .err e, _ => .err e
  | .panic, _ => .panic

/-- no single inner `read` delivers 2^64 bytes or more -/
def Small (inner : Src σ) : Prop := ∀ s n bs s', inner.rd s n = (.ok bs, s') → bs.length < 2 ^ 64

theorem filled_length (bs buf : Bytes) :
    ((bs ++ buf.drop bs.length).take buf.length).length = buf.length := by
  simp only [List.length_take, List.length_append, List.length_drop]; omega

theorem filled_take (bs buf : Bytes) (h : bs.length ≤ buf.length) :
    ((bs ++ buf.drop bs.length).take buf.length).take bs.length = bs := by
  rw [List.take_take, Nat.min_eq_left h, List.take_append_of_le_length (Nat.le_refl _), List.take_length]

theorem ofNat_toNat_small {n : Nat} (h : n < 2 ^ 64) : (UInt64.ofNat n).toNat = n := by
  simp only [UInt64.toNat_ofNat']; omega

theorem ofNat_eq_zero_iff {n : Nat} (h : n < 2 ^ 64) : (UInt64.ofNat n == 0) = decide (n = 0) := by
  by_cases h0 : n = 0
  · subst h0; rfl
  · have : UInt64.ofNat n ≠ 0 := by
      intro hc
      have := congrArg UInt64.toNat hc
      rw [ofNat_toNat_small h] at this
      exact h0 this
    simp [this, h0]

theorem rd_readOf (inner : Src σ) (s : σ) (n : Nat) :
    @Rs.Read.rd σ (readOf inner) s n = (rdOf (inner.rd s n).1, (inner.rd s n).2) := rfl

/-- `inner.read(buf)` over a model source -/
theorem read_readOf (inner : Src σ) (s : σ) (buf : Bytes) :
    @Rs.L.read σ (readOf inner) s buf =
      match inner.rd s buf.length with
      | (.ok bs, s') => (.ok (UInt64.ofNat bs.length), s', (bs ++ buf.drop bs.length).take buf.length)
      | (.err e, s') => (.err e, s', buf)
      | (.panic, s') => (.panic, s', buf) := by
  unfold Rs.L.read
  rw [rd_readOf]
  rcases inner.rd s buf.length with ⟨r, s'⟩
  cases r <;> rfl

/-- `&buf[0..count]` after an inner read that delivered `bs` -/
theorem slice_filled (bs buf : Bytes) (hs : bs.length < 2 ^ 64) :
    Rs.slice ((bs ++ buf.drop bs.length).take buf.length) 0 (UInt64.ofNat bs.length) =
      if bs.length ≤ buf.length then some bs else none := by
  unfold Rs.slice
  rw [ofNat_toNat_small hs, filled_length]
  by_cases h : bs.length ≤ buf.length
  · simp only [h, and_true, if_true]
    rw [filled_take bs buf h]
    simp
  · simp [h]

/-- the outcome of the model's `readExact` in the vocabulary of the generated code -/
def exOf : ExactRes → Rs.RdRes
  | .ok bs => .ok bs
  | .err e => .err e
  | .panic => .panic

/-- std's `read_exact` loop over a model source is the model's `readExactAux` -/
theorem readExactAux_readOf (inner : Src σ) (fuel : Nat) (s : σ) (n : Nat) :
    @Rs.L.readExactAux σ (readOf inner) fuel s n =
      (exOf (readExactAux inner fuel s n).1, (readExactAux inner fuel s n).2) := by
  induction fuel generalizing s n with
  | zero => cases n <;> rfl
  | succ f ih =>
    cases n with
    | zero => rfl
    | succ n =>
      simp only [Rs.L.readExactAux, readExactAux, rd_readOf]
      rcases inner.rd s (n + 1) with ⟨r, s'⟩
      cases r with
      | err e => rfl
      | panic => rfl
      | ok bs =>
        simp only [rdOf]
        by_cases hb : bs = []
        · simp [hb, exOf]
        · simp only [hb, if_false]
          by_cases hl : bs.length ≤ n + 1
          · simp only [hl, if_true, ih]
            rcases readExactAux inner f s' (n + 1 - bs.length) with ⟨r2, s2⟩
            cases r2 <;> rfl
          · simp [hl, exOf]

/-- a successful `read_exact` filled the whole buffer -/
theorem readExactAux_len (inner : Src σ) (fuel : Nat) (s : σ) (n : Nat) (bs : Bytes) (s' : σ)
    (h : readExactAux inner fuel s n = (.ok bs, s')) : bs.length = n := by
  induction fuel generalizing s n bs s' with
  | zero =>
    cases n with
    | zero => simp [readExactAux] at h; simp [h.1.symm]
    | succ n => simp [readExactAux] at h
  | succ f ih =>
    cases n with
    | zero => simp [readExactAux] at h; simp [h.1.symm]
    | succ n =>
      simp only [readExactAux] at h
      rcases hr : inner.rd s (n + 1) with ⟨r, s1⟩
      rw [hr] at h
      cases r with
      | err e => simp at h
      | panic => simp at h
      | ok b1 =>
        simp only at h
        by_cases hb : b1 = []
        · simp [hb] at h
        · simp only [hb, if_false] at h
          by_cases hl : b1.length ≤ n + 1
          · simp only [hl, if_true] at h
            rcases h2 : readExactAux inner f s1 (n + 1 - b1.length) with ⟨r2, s2⟩
            rw [h2] at h
            cases r2 with
            | ok rest =>
              simp only [Prod.mk.injEq, ExactRes.ok.injEq] at h
              have := ih _ _ _ _ h2
              rw [← h.1, List.length_append, this]; omega
            | err e => simp at h
            | panic => simp at h
          · simp [hl] at h

/-- `inner.read_exact(buf)` over a model source -/
theorem read_exact_readOf (inner : Src σ) (s : σ) (buf : Bytes) :
    @Rs.L.read_exact σ (readOf inner) s buf =
      match readExact inner s buf.length with
      | (.ok bs, s') => (.ok (), s', bs)
      | (.err e, s') => (.err e, s', buf)
      | (.panic, s') => (.panic, s', buf) := by
  unfold Rs.L.read_exact readExact
  rw [readExactAux_readOf]
  rcases readExactAux inner buf.length s buf.length with ⟨r, s'⟩
  cases r <;> rfl

/-- `Crc32Reader::new` starts the hasher at the initial register. -/
theorem tie_crc32reader_new (inner : σ) (checksum : UInt32) (ae2 : Bool) :
    Gen.Crc32Reader.new inner checksum ae2 = some ⟨inner, ⟨Spec.Crc32.init⟩, checksum, ae2⟩ := rfl

/-- `check_matches`: declared CRC = finalised register. -/
theorem tie_check_matches (self : Gen.Crc32Reader σ) :
    Gen.Crc32Reader.check_matches self = some (self.check == Spec.Crc32.finalize self.hasher.reg) := rfl

/-- what a generated `read` of a layer returns, in the model's vocabulary: the bytes handed to the
caller (or the failure) and the layer afterwards -/
def view {τ : Type} (g : Rs.IoRes UInt64 × τ × Bytes) : ReadRes × τ := (viewRead g.1 g.2.2, g.2.1)

/-- the model's step result as a value of the generated structure -/
def crcLift (self : Gen.Crc32Reader σ) (m : ReadRes × σ × UInt32) : ReadRes × Gen.Crc32Reader σ :=
  (m.1, { self with inner := m.2.1, hasher := ⟨m.2.2⟩ })

/-- **`Crc32Reader::read` is the model's `crcLayer` step**, as an equation between state
transformers: same outcome (the bytes handed to the caller, the error kind, or a panic) and same
successor state, for every inner reader. -/
theorem tie_crc32reader_read (inner : Src σ) (self : Gen.Crc32Reader σ) (buf : Bytes)
    (hbuf : buf.length < 2 ^ 64) (hin : Small inner) :
    view (@Gen.Crc32Reader.read σ (readOf inner) self buf) =
      crcLift self ((crcLayer inner self.check self.ae2_encrypted).rd (self.inner, self.hasher.reg) buf.length) := by
  unfold Gen.Crc32Reader.read crcLayer view crcLift
  by_cases hnil : buf = []
  · subst hnil; simp [Rs.isEmpty, viewRead, Rs.L.id_pure, Id.run]
  · have hemp : Rs.isEmpty buf = false := by cases buf <;> simp_all [Rs.isEmpty]
    have hlen : buf.length ≠ 0 := by cases buf <;> simp_all
    simp only [hemp, Bool.false_eq_true, if_false, hlen, tie_check_matches, read_readOf, Id.run,
      Rs.L.id_pure, Rs.L.id_bind]
    rcases hr : inner.rd self.inner buf.length with ⟨r, s'⟩
    cases r with
    | err e => simp [viewRead]
    | panic => simp [viewRead]
    | ok bs =>
      have hs := hin _ _ _ _ hr
      simp only [ofNat_eq_zero_iff hs]
      rw [slice_filled bs buf hs]
      have hemp : bs.isEmpty = decide (bs.length = 0) := by cases bs <;> simp
      by_cases h0 : bs.length = 0
      · have hb : bs = [] := List.eq_nil_of_length_eq_zero h0
        subst hb
        by_cases hc : self.check = Spec.Crc32.finalize self.hasher.reg <;>
          cases hae : self.ae2_encrypted <;>
          simp [viewRead, hc, Rs.ioKind, Rs.Crc32Hasher.update, Spec.Crc32.updateBytes]
      · have hb : bs.isEmpty = false := by rw [hemp]; simp [h0]
        simp only [h0, hb, decide_false, Bool.false_and, Bool.false_eq_true, if_false]
        by_cases hl : bs.length ≤ buf.length
        · simp [hl, viewRead, ofNat_toNat_small hs, filled_take bs buf hl, Rs.Crc32Hasher.update]
        · simp [hl, viewRead]

/-! ### The same function against the CRC step of the AES model (`Model.Aes.crcRead`, C16)

`crcRead` is parametric in the hasher and in the reader below it, has `ZErr` errors and no branch for a
reader that returns more than was asked for: the equation is stated for readers that keep the `Read`
contract, at the instance hasher = `crc32fast::Hasher`. -/

/-- a read outcome in the vocabulary of `Model.Aes` (an I/O error is `ZErr.io`) -/
def outOf : ReadRes → Out Bytes
  | .ok bs => .ok bs
  | .err e => .err (.io e)
  | .panic => .panic "inner reader"

theorem tie_crc32reader_read_aes (inner : Src σ) (self : Gen.Crc32Reader σ) (buf : Bytes)
    (hbuf : buf.length < 2 ^ 64) (hin : Small inner) (hwf : inner.WF) :
    Model.Aes.crcRead Rs.Crc32Hasher.update Rs.Crc32Hasher.finalize
        (fun i n => (outOf (inner.rd i n).1, (inner.rd i n).2))
        ⟨self.hasher, self.check, self.ae2_encrypted⟩ self.inner buf.length =
      (let v := view (@Gen.Crc32Reader.read σ (readOf inner) self buf)
       (outOf v.1, ⟨v.2.hasher, v.2.check, v.2.ae2_encrypted⟩, v.2.inner)) := by
  rw [tie_crc32reader_read inner self buf hbuf hin]
  unfold Model.Aes.crcRead crcLayer crcLift
  by_cases hn : buf.length = 0
  · simp [hn, outOf]
  · simp only [hn, if_false]
    have hw := hwf self.inner buf.length
    rcases hr : inner.rd self.inner buf.length with ⟨r, s'⟩
    rw [hr] at hw
    cases r with
    | err e => simp [outOf]
    | panic => exact absurd hw (by simp)
    | ok bs =>
      have hl : bs.length ≤ buf.length := hw
      have hemp : bs.isEmpty = decide (bs.length = 0) := by cases bs <;> simp
      have hsym : (self.hasher.reg ^^^ 4294967295 = self.check) = (self.check = self.hasher.reg ^^^ 4294967295) :=
        propext eq_comm
      by_cases hc : self.check = self.hasher.reg ^^^ 4294967295 <;>
        cases hae : self.ae2_encrypted <;>
        by_cases h0 : bs.length = 0 <;>
        simp [outOf, hemp, hsym, hc, h0, hl, Rs.Crc32Hasher.finalize, Rs.Crc32Hasher.update, Spec.Crc32.finalize]

end ZipVerif.Tie.Layers
