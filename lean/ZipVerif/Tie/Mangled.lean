import ZipVerif.Tie.Paths
import ZipVerif.Gen.StreamPaths
/-
Tie obligations for `ZipFileData::file_name_sanitized` (types.rs) and for the public wrappers
`ZipFile::{mangled_name, sanitized_name, enclosed_name}` (read.rs) and `ZipStreamFileMetadata::{mangled_name,
enclosed_name}` (read/stream.rs); tier T6, LAYER mode of rs2lean; helper t6l3; vocabulary `Basic/RsPath.lean`.
All are regenerated from the source on this run: `find('\0')` and the slice up to it, the `MAIN_SEPARATOR` match,
`replace`, `Path::new(..).components()`, the `filter` with its `matches!`, the `fold` with `PathBuf::push`; the
wrappers' delegations through `Cow<ZipFileData>` / the tuple field.

* `tie_file_name_sanitized`: on the UTF-8 bytes of a name `n`, `file_name_sanitized` = `Model.Paths.mangledName n`
  (never a panic).
* `tie_zipfile_mangled_name` (also `sanitized_name`), `tie_zipfile_enclosed_name`, `tie_stream_mangled_name`,
  `tie_stream_enclosed_name`: the wrappers give the model's `mangledName` / `enclosedName` of the entry's name.

Trusted vocabulary (`Basic/RsPath.lean`): a `String` is its UTF-8 bytes; `find(c)` for an ASCII literal is the index
of the first byte `c`; a `str` slice is the byte slice and panics off a character boundary; `replace` with `&str`
arguments is the byte-level non-overlapping replacement; `char::to_string` is the RFC 3629 encoding; `MAIN_SEPARATOR`
is '/' (Unix); `Component::as_os_str`; `Iterator::filter` is `List.filter`.  `Path::components()` / `PathBuf::push`
are the named parameters of `Tie/Paths.lean` (`pathOps` := the functions of `Model/Paths.lean` read through UTF-8,
validated against std by the exhaustive `paths` stream).  UTF-8 facts PROVED here, not assumed: a byte below 0x80
occurs in an encoding only as the character with that code (`encodeChar_byte`), hence the first 0 byte is the first
NUL (`findAscii_nul`), its index is a character boundary (`slice_nul`), and replacing the byte 0x5C by 0x2F replaces
the character `\` by `/` (`replace_backslash`).  Hypothesis: the name's encoding is shorter than 2^64 bytes (`usize`
index versus `Nat`; a Rust string is shorter than 2^63 bytes).
-/

namespace ZipVerif.Tie.Mangled
open ZipVerif ZipVerif.Spec ZipVerif.Model ZipVerif.Spec.Paths ZipVerif.Model.Paths ZipVerif.Tie.Layers ZipVerif.Tie.Paths

/-! ### UTF-8: a byte below 0x80 occurs only as the character with that code -/

/-- every byte of the encoding of `c` is `c` itself (an ASCII character) or at least 0x80 -/
theorem encodeChar_byte (c : Char) (b : UInt8) (hb : b ∈ utf8EncodeChar c) :
    (c.toNat < 0x80 ∧ utf8EncodeChar c = [b] ∧ b.toNat = c.toNat) ∨ 0x80 ≤ b.toNat := by
  have hv : c.toNat < 0x110000 := by
    have := c.valid
    rcases this with h | h
    · have : c.toNat < 0xd800 := h; omega
    · exact h.2
  unfold utf8EncodeChar at hb ⊢
  simp only [] at hb ⊢
  by_cases h1 : c.toNat < 0x80
  · simp only [h1, if_true, List.mem_singleton] at hb ⊢
    subst hb
    exact Or.inl ⟨trivial, rfl, toNat_ofNat8 (by omega)⟩
  · right
    simp only [h1, if_false] at hb
    split at hb
    · simp only [List.mem_cons, List.not_mem_nil, or_false] at hb
      rcases hb with h | h <;> subst h <;> rw [toNat_ofNat8 (by omega)] <;> omega
    · split at hb
      · simp only [List.mem_cons, List.not_mem_nil, or_false] at hb
        rcases hb with h | h | h <;> subst h <;> rw [toNat_ofNat8 (by omega)] <;> omega
      · simp only [List.mem_cons, List.not_mem_nil, or_false] at hb
        rcases hb with h | h | h | h <;> subst h <;> rw [toNat_ofNat8 (by omega)] <;> omega

theorem encode_append (a b : Name) : utf8Encode (a ++ b) = utf8Encode a ++ utf8Encode b := by
  induction a with
  | nil => rfl
  | cons c r ih => simp only [List.cons_append, utf8Encode, ih, List.append_assoc]

/-! ### `find('\0')` and the slice up to it -/

/-- a name that contains NUL is its part before the first NUL, NUL, and a rest -/
theorem truncNul_split (n : Name) (h : '\x00' ∈ n) : ∃ rest, n = truncNul n ++ '\x00' :: rest := by
  induction n with
  | nil => simp at h
  | cons c r ih =>
    by_cases hc : c = '\x00'
    · subst hc
      exact ⟨r, by simp [truncNul]⟩
    · have hr : '\x00' ∈ r := by
        rcases List.mem_cons.mp h with h | h
        · exact absurd h.symm hc
        · exact h
      obtain ⟨rest, e⟩ := ih hr
      refine ⟨rest, ?_⟩
      have hb : (c != '\x00') = true := by simpa using hc
      have : truncNul (c :: r) = c :: truncNul r := by simp [truncNul, List.takeWhile, hb]
      rw [this, List.cons_append, ← e]

theorem nul_not_mem_truncNul (n : Name) : '\x00' ∉ truncNul n := by
  intro h
  have := of_mem_takeWhile _ _ _ h
  simp at this

theorem truncNul_of_not_mem (n : Name) (h : '\x00' ∉ n) : truncNul n = n := by
  induction n with
  | nil => rfl
  | cons c r ih =>
    have hc : c ≠ '\x00' := fun e => h (by subst e; exact List.mem_cons_self ..)
    have hb : (c != '\x00') = true := by simpa using hc
    have hr : '\x00' ∉ r := fun hh => h (List.mem_cons_of_mem _ hh)
    have := ih hr
    unfold truncNul at this ⊢
    simp [List.takeWhile, hb, this]

theorem findIdx_append_hit (a b : Bytes) (x : UInt8) (ha : x ∉ a) :
    (a ++ x :: b).findIdx? (· == x) = some a.length := by
  induction a with
  | nil => simp [List.findIdx?_cons]
  | cons y r ih =>
    have hy : (y == x) = false := by
      simp only [beq_eq_false_iff_ne, ne_eq]
      intro e; subst e; exact ha (List.mem_cons_self ..)
    have hr : x ∉ r := fun h => ha (List.mem_cons_of_mem _ h)
    simp [List.findIdx?_cons, hy, ih hr]

theorem findIdx_none (a : Bytes) (x : UInt8) (ha : x ∉ a) : a.findIdx? (· == x) = none := by
  induction a with
  | nil => rfl
  | cons y r ih =>
    have hy : (y == x) = false := by
      simp only [beq_eq_false_iff_ne, ne_eq]
      intro e; subst e; exact ha (List.mem_cons_self ..)
    have hr : x ∉ r := fun h => ha (List.mem_cons_of_mem _ h)
    simp [List.findIdx?_cons, hy, ih hr]

/-- `name.find('\0')`: the length of the encoding of the part before the first NUL -/
theorem findAscii_nul (n : Name) :
    Rs.Str.findAscii (utf8Encode n) 0 =
      if '\x00' ∈ n then some (UInt64.ofNat (utf8Encode (truncNul n)).length) else none := by
  unfold Rs.Str.findAscii
  have h0 : UInt8.ofNat 0 = 0 := rfl
  rw [h0]
  by_cases h : '\x00' ∈ n
  · obtain ⟨rest, e⟩ := truncNul_split n h
    have hz : (0 : UInt8) ∉ utf8Encode (truncNul n) :=
      fun hh => nul_not_mem_truncNul n ((zero_mem_encode _).mp hh)
    have enc : utf8Encode n = utf8Encode (truncNul n) ++ 0 :: utf8Encode rest := by
      conv => lhs; rw [e]
      rw [encode_append]; rfl
    rw [if_pos h, enc, findIdx_append_hit _ _ _ hz]
    rfl
  · have hz : (0 : UInt8) ∉ utf8Encode n := fun hh => h ((zero_mem_encode _).mp hh)
    rw [if_neg h, findIdx_none _ _ hz]
    rfl

/-- `&name[0..index]` for the index of the first NUL: the encoding of the part before it (index 0 and the
index of a NUL byte are character boundaries) -/
theorem slice_nul (n : Name) (h : '\x00' ∈ n) (hn : (utf8Encode n).length < 2 ^ 64) :
    Rs.Str.slice (utf8Encode n) 0 (UInt64.ofNat (utf8Encode (truncNul n)).length) = some (utf8Encode (truncNul n)) := by
  obtain ⟨rest, e⟩ := truncNul_split n h
  have enc : utf8Encode n = utf8Encode (truncNul n) ++ 0 :: utf8Encode rest := by
    conv => lhs; rw [e]
    rw [encode_append]; rfl
  generalize utf8Encode (truncNul n) = a at enc
  rw [enc] at hn ⊢
  simp only [List.length_append, List.length_cons] at hn
  have hl : (UInt64.ofNat a.length).toNat = a.length := by
    rw [UInt64.toNat_ofNat']; exact Nat.mod_eq_of_lt (by omega)
  unfold Rs.Str.slice Rs.Str.isCharBoundary
  rw [hl]
  simp

/-! ### `replace("\\", "/")` -/

/-- replacing a one-byte pattern is a byte-wise substitution -/
theorem replaceGo_single (p : UInt8) (to s : Bytes) :
    Rs.Str.replaceGo [p] to s 0 = s.flatMap (fun b => if b = p then to else [b]) := by
  induction s with
  | nil => rfl
  | cons b r ih =>
    by_cases hb : b = p
    · subst hb
      simp [Rs.Str.replaceGo, List.isPrefixOf, ih, List.flatMap_cons]
    · have hb' : ¬ p = b := fun e => hb e.symm
      simp [Rs.Str.replaceGo, List.isPrefixOf, ih, List.flatMap_cons, hb, hb']

theorem char_of_toNat_eq {c : Char} {k : Nat} (hk : k.isValidChar) (h : c.toNat = k) : c = Char.ofNat k := by
  apply char_eq_of_toNat
  rw [h]
  unfold Char.ofNat
  rw [dif_pos hk]
  rfl

/-- on UTF-8, replacing the byte of `\` by the byte of `/` replaces the character `\` by `/` -/
theorem flatMap_backslash (n : Name) :
    (utf8Encode n).flatMap (fun b => if b = 0x5C then [(0x2F : UInt8)] else [b]) = utf8Encode (toMainSep n) := by
  induction n with
  | nil => rfl
  | cons c r ih =>
    simp only [utf8Encode, List.flatMap_append, ih, toMainSep, List.map_cons]
    congr 1
    by_cases hc : c = '\\'
    · subst hc; rfl
    · rw [if_neg hc]
      have : ∀ b ∈ utf8EncodeChar c, b ≠ 0x5C := by
        intro b hb e
        subst e
        rcases encodeChar_byte c _ hb with ⟨_, _, h3⟩ | h
        · exact hc (char_eq_of_toNat (by rw [← h3]; rfl))
        · exact absurd h (by decide)
      generalize utf8EncodeChar c = l at this
      induction l with
      | nil => rfl
      | cons x t iht =>
        have hx := this x (List.mem_cons_self ..)
        simp only [List.flatMap_cons, hx, if_false, List.singleton_append]
        rw [iht (fun b hb => this b (List.mem_cons_of_mem _ hb))]

theorem replace_backslash (n : Name) :
    Rs.Str.replace (utf8Encode n) (Rs.Str.ofChar (Char.ofNat 92)) (Rs.Str.ofChar Rs.Path.MAIN_SEPARATOR) =
      utf8Encode (toMainSep n) := by
  have e1 : Rs.Str.ofChar (Char.ofNat 92) = [0x5C] := by decide
  have e2 : Rs.Str.ofChar Rs.Path.MAIN_SEPARATOR = [0x2F] := by decide
  rw [e1, e2]
  unfold Rs.Str.replace
  simp only [List.isEmpty_cons, Bool.false_eq_true, if_false]
  rw [replaceGo_single, flatMap_backslash]

/-! ### the `filter` and the `fold` -/

theorem filter_normal (p : Rs.Component → Bool) (hp : ∀ c, p (encComp c) = (normalOnly c).isSome) (cs : List Comp) :
    List.filter p (cs.map encComp) =
      (cs.filterMap normalOnly).map (fun s => Rs.Component.Normal (utf8Encode s)) := by
  induction cs with
  | nil => rfl
  | cons c r ih =>
    simp only [List.map_cons, List.filter_cons, hp c, ih]
    cases c <;> simp [encComp, normalOnly, List.filterMap_cons]

theorem push_encode (b x : Name) :
    @Rs.PathOps.push pathOps (utf8Encode b) (utf8Encode x) = utf8Encode (push b x) := by
  show (match utf8Strict (utf8Encode b), utf8Strict (utf8Encode x) with
      | some b, some x => utf8Encode (push b x)
      | _, _ => []) = _
  rw [strict_encode, strict_encode]

theorem foldM_push (body : Bytes → Rs.Component → Option Bytes)
    (hb : ∀ (acc s : Name), body (utf8Encode acc) (.Normal (utf8Encode s)) = some (utf8Encode (push acc s))) :
    ∀ (l : List Name) (acc : Name),
      Rs.L.foldM (l.map (fun s => Rs.Component.Normal (utf8Encode s))) (utf8Encode acc) body =
        some (utf8Encode (l.foldl push acc)) := by
  intro l
  induction l with
  | nil => intro acc; rfl
  | cons s r ih =>
    intro acc
    simp only [List.map_cons, Rs.L.foldM, hb, List.foldl_cons]
    exact ih _

/-- **`ZipFileData::file_name_sanitized` is the model's `mangledName`** (on the UTF-8 bytes of the name): the part
before the first NUL, `\` read as `/`, the `Normal` components pushed in order onto an empty `PathBuf`.  It never
panics. -/
theorem tie_file_name_sanitized (data : Gen.ZipFileData) (n : Name) (hname : data.file_name = utf8Encode n)
    (hn : (utf8Encode n).length < 2 ^ 64) :
    @Gen.ZipFileData.file_name_sanitized pathOps data = some (utf8Encode (mangledName n)) := by
  unfold Gen.ZipFileData.file_name_sanitized mangledName mangledComps
  simp only [Id.run, Rs.L.id_pure, Rs.L.id_bind, hname, findAscii_nul]
  have hsep : (Rs.Path.MAIN_SEPARATOR == Char.ofNat 47) = true := by decide
  have hnil : ([] : Bytes) = utf8Encode [] := rfl
  by_cases h0 : '\x00' ∈ n
  · simp only [h0, if_true, slice_nul n h0 hn, hsep, replace_backslash, components_encode]
    rw [filter_normal _ (fun c => by cases c <;> rfl), hnil, foldM_push _ ?_]
    intro acc s
    simp only [Rs.Component.as_os_str, push_encode]
    rfl
  · simp only [h0, if_false, hsep, if_true, replace_backslash, components_encode]
    rw [filter_normal _ (fun c => by cases c <;> rfl), hnil, foldM_push _ ?_, truncNul_of_not_mem n h0]
    intro acc s
    simp only [Rs.Component.as_os_str, push_encode]
    rfl

example : mangledName "a\\..\\b/./c\x00d/e".toList = "a/b/c".toList := by decide

/-! ### the public wrappers (thin delegations) -/

/-- `ZipFile::mangled_name` = `self.data.file_name_sanitized()` -/
theorem zipfile_mangled_name_eq (f : Gen.ZipFile) :
    @Gen.ZipFile.mangled_name pathOps f = @Gen.ZipFileData.file_name_sanitized pathOps f.data.get := by
  unfold Gen.ZipFile.mangled_name
  cases @Gen.ZipFileData.file_name_sanitized pathOps f.data.get <;> rfl

/-- `ZipFile::enclosed_name` = `self.data.enclosed_name()` -/
theorem zipfile_enclosed_name_eq (f : Gen.ZipFile) :
    @Gen.ZipFile.enclosed_name pathOps f = @Gen.ZipFileData.enclosed_name pathOps f.data.get := by
  unfold Gen.ZipFile.enclosed_name
  cases @Gen.ZipFileData.enclosed_name pathOps f.data.get <;> rfl

theorem stream_mangled_name_eq (m : Gen.ZipStreamFileMetadata) :
    @Gen.ZipStreamFileMetadata.mangled_name pathOps m = @Gen.ZipFileData.file_name_sanitized pathOps m._0 := by
  unfold Gen.ZipStreamFileMetadata.mangled_name
  cases @Gen.ZipFileData.file_name_sanitized pathOps m._0 <;> rfl

theorem stream_enclosed_name_eq (m : Gen.ZipStreamFileMetadata) :
    @Gen.ZipStreamFileMetadata.enclosed_name pathOps m = @Gen.ZipFileData.enclosed_name pathOps m._0 := by
  unfold Gen.ZipStreamFileMetadata.enclosed_name
  cases @Gen.ZipFileData.enclosed_name pathOps m._0 <;> rfl

/-- **`ZipFile::mangled_name` / `sanitized_name` are the model's `mangledName`** of the entry's name. -/
theorem tie_zipfile_mangled_name (f : Gen.ZipFile) (n : Name) (hname : f.data.get.file_name = utf8Encode n)
    (hn : (utf8Encode n).length < 2 ^ 64) :
    @Gen.ZipFile.mangled_name pathOps f = some (utf8Encode (mangledName n)) ∧
    @Gen.ZipFile.sanitized_name pathOps f = some (utf8Encode (mangledName n)) := by
  have h := tie_file_name_sanitized _ n hname hn
  refine ⟨by rw [zipfile_mangled_name_eq, h], ?_⟩
  -- `sanitized_name` (deprecated) = `self.mangled_name()`
  unfold Gen.ZipFile.sanitized_name
  simp only [zipfile_mangled_name_eq, h]
  rfl

/-- **`ZipFile::enclosed_name` is the model's `enclosedName`** of the entry's name. -/
theorem tie_zipfile_enclosed_name (f : Gen.ZipFile) (n : Name) (hname : f.data.get.file_name = utf8Encode n)
    (hn : n.length + 1 < 2 ^ 64) :
    @Gen.ZipFile.enclosed_name pathOps f = some ((enclosedName n).map utf8Encode) := by
  rw [zipfile_enclosed_name_eq, tie_enclosed_name _ n hname hn]

/-- **`ZipStreamFileMetadata::mangled_name` is the model's `mangledName`.** -/
theorem tie_stream_mangled_name (m : Gen.ZipStreamFileMetadata) (n : Name) (hname : m._0.file_name = utf8Encode n)
    (hn : (utf8Encode n).length < 2 ^ 64) :
    @Gen.ZipStreamFileMetadata.mangled_name pathOps m = some (utf8Encode (mangledName n)) := by
  rw [stream_mangled_name_eq, tie_file_name_sanitized _ n hname hn]

/-- **`ZipStreamFileMetadata::enclosed_name` is the model's `enclosedName`.** -/
theorem tie_stream_enclosed_name (m : Gen.ZipStreamFileMetadata) (n : Name) (hname : m._0.file_name = utf8Encode n)
    (hn : n.length + 1 < 2 ^ 64) :
    @Gen.ZipStreamFileMetadata.enclosed_name pathOps m = some ((enclosedName n).map utf8Encode) := by
  rw [stream_enclosed_name_eq, tie_enclosed_name _ n hname hn]

end ZipVerif.Tie.Mangled
