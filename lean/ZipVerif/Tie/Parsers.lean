import ZipVerif.Gen.Spec
import ZipVerif.Gen.Read
import ZipVerif.Model.Records
import ZipVerif.Tie.Types
import ZipVerif.Tie.SpecRecords
import ZipVerif.Tie.Records

/-
Tie obligations for the PARSERS of src/spec.rs and src/read.rs (translator tier T5, READ mode).

`rs2lean` regenerates the functions below from /repo/src on every run as computations in the model's own
I/O monad `M` (`Gen.… : Model.M …`, vocabulary in `Basic/RsM.lean`): `reader.read_uNN::<LittleEndian>()?`
is `M.readUNN`, `read_exact` into a `vec![0; n]` is `M.readExact n`, `seek(SeekFrom::…)` is `M.seek`, `?`
is the monadic bind, `return Err(e)` is `M.throw`, integers keep their Rust widths with CHECKED
`+ - *` (an overflow is `M.panic`), `while` loops are fuelled (out of fuel = panic).  A theorem
`f <$> Gen.g … = Model.g …` is an equation between functions `Option Nat → Dev → Out α × Dev`: it
holds for every device state and every fault index - same I/O calls in the same order, same
outcome, same final device - and `f` is the record correspondence of `Tie/SpecRecords` / `Tie/Records`.

  tie_eocd_parse             eocdOf <$> Gen.CentralDirectoryEnd.parse = parseEocd
  tie_locator_parse          locatorOf <$> Gen.Zip64CentralDirectoryEndLocator.parse = parseLocator
  tie_eocd_find_and_parse    (eocdRes <$> Gen.CentralDirectoryEnd.find_and_parse) fa d = findAndParseEocd fa d
                             for every fault index `fa` and every device `d` whose length fits `u64`
                             (`eocd_loop_tie`: the loop, incl. adequacy of the generated fuel)
  tie_eocd64_find_and_parse  eocd64Res <$> Gen.Zip64CentralDirectoryEnd.find_and_parse nominal upper
                               = findEocd64 nominal.toNat upper.toNat     (upper < u64::MAX)
  tie_get_directory_counts   countsRes <$> Gen.ZipArchive.get_directory_counts footer cde
                               = getDirectoryCounts (eocdOf footer) cde.toNat   (comment fits `isize`)
  tie_parse_extra_field      pefRes (Rs.P.run (Gen.parse_extra_field f))
                               = some (parseExtraField (f.extra_field.length + 1) (dataOf f) f.extra_field)
                             (`&mut ZipFileData`: the entry as the function leaves it - also on `Err` - and
                             the verdict; no panic; the fuel of the cursor loop is adequate)
  tie_central_header_inner   dataOf <$> Gen.central_header_to_zip_file_inner ao chs
                               = centralHeaderInner ao.toNat chs.toNat

The proofs normalise both sides to right-nested binds (`msimp`, `M` is shown to be a lawful monad),
peel equal I/O steps with `bind_congr`, and case-split on the data-dependent conditions; checked
arithmetic is discharged from the guards the source itself performs (dropping a guard leaves a
reachable `M.panic` on the generated side and the proof no longer closes).  Swapping two reads,
changing a width, a constant, a comparison (`>=` → `>`), an error variant, or the `len_left`
bookkeeping of `parse_extra_field` changes the generated term and breaks the corresponding theorem;
code outside the translated subset makes the item `untranslated` (reported by rs2lean).
-/
set_option linter.unusedSimpArgs false
set_option linter.unusedSectionVars false
set_option linter.unusedVariables false

namespace ZipVerif.Tie.Parsers
open ZipVerif ZipVerif.Model ZipVerif.Tie.SpecRecords ZipVerif.Tie.Records

/-! ### `M` is a lawful monad -/

theorem M.ext {α} {x y : M α} (h : ∀ fa d, x fa d = y fa d) : x = y := by
  funext fa d; exact h fa d

theorem M.bind_apply {α β} (x : M α) (f : α → M β) (fa : Option Nat) (d : Dev) :
    (x >>= f) fa d = match x fa d with
      | (.ok a, d') => f a fa d'
      | (.err e, d') => (.err e, d')
      | (.panic s, d') => (.panic s, d') := rfl

theorem M.pure_apply {α} (a : α) (fa : Option Nat) (d : Dev) : (pure a : M α) fa d = (.ok a, d) := rfl

instance : LawfulMonad M := LawfulMonad.mk'
  (id_map := by
    intro α x
    apply M.ext; intro fa d
    show (x >>= fun a => pure (id a)) fa d = x fa d
    rw [M.bind_apply]
    rcases h : x fa d with ⟨o, d'⟩
    cases o <;> rfl)
  (pure_bind := by intros; rfl)
  (bind_assoc := by
    intro α β γ x f g
    apply M.ext; intro fa d
    simp only [M.bind_apply]
    rcases h : x fa d with ⟨o, d'⟩
    cases o <;> simp only []
    )


theorem M.throw_bind {α β} (e : ZErr) (f : α → M β) : (M.throw e >>= f) = M.throw e := rfl
theorem M.panic_bind {α β} (s : String) (f : α → M β) : (M.panic s >>= f) = M.panic s := rfl
theorem M.ite_bind {α β} (c : Prop) [Decidable c] (a b : M α) (f : α → M β) :
    ((if c then a else b) >>= f) = if c then a >>= f else b >>= f := by
  split <;> rfl

/-- Normal form of straight-line `M` code: right-nested binds. -/
syntax "msimp" ("[" Lean.Parser.Tactic.simpLemma,* "]")? : tactic
macro_rules
  | `(tactic| msimp [$ls,*]) => `(tactic| simp only [bind_assoc, pure_bind, map_eq_pure_bind,
      M.throw_bind, M.panic_bind, M.ite_bind, Rs.R.err, Rs.R.lift, Rs.R.read_exact, Rs.R.ok_or, Rs.zerr,
      Rs.R.seek, Rs.R.stream_position,
      Rs.vecZeros, List.length_replicate, $ls,*])
  | `(tactic| msimp) => `(tactic| msimp [bind_assoc])

theorem as_u16_u64_toNat (x : UInt16) : (Rs.as' UInt64 x).toNat = x.toNat := by
  simp only [Rs.as', Rs.As.cast, UInt16.toNat_toUInt64]

/-- `CentralDirectoryEnd::parse` -/
theorem tie_eocd_parse : eocdOf <$> Gen.CentralDirectoryEnd.parse = Model.parseEocd := by
  unfold Gen.CentralDirectoryEnd.parse Model.parseEocd
  msimp [as_u16_u64_toNat, eocdOf]
  rfl

/-- `Zip64CentralDirectoryEndLocator::parse` -/
theorem tie_locator_parse :
    locatorOf <$> Gen.Zip64CentralDirectoryEndLocator.parse = Model.parseLocator := by
  unfold Gen.Zip64CentralDirectoryEndLocator.parse Model.parseLocator
  msimp [locatorOf]
  rfl


/-! ### `CentralDirectoryEnd::find_and_parse` -/

/-- `seek(SeekFrom::Start(n))` for its effect only. -/
def M.seekTo (n : Nat) : M Unit := M.seek (.start n) >>= fun _ => pure ()

/-- `seek(SeekFrom::Start(n))` returns `n`. -/
theorem M.seek_start_bind {β} (n : Nat) (k : Nat → M β) :
    (M.seek (.start n) >>= k) = (M.seekTo n >>= fun _ => k n) := by
  apply M.ext; intro fa d
  simp only [M.seekTo, bind_assoc, pure_bind]
  simp only [M.bind_apply, M.seek, M.prim]
  have h : ¬ ((n : Int) < 0) := by omega
  by_cases hf : fa = some d.calls
  · simp only [hf, ↓reduceIte]
  · simp only [hf, h, ↓reduceIte, Int.toNat_natCast]


theorem R.whileLoop_succ {σ ρ : Type} (cond : σ → M Bool) (body : σ → M (Rs.Step σ ρ)) (n : Nat) (s : σ) :
    Rs.R.whileLoop cond body (n + 1) s = (do
      if (← cond s) then
        match (← body s) with
        | .next s' => Rs.R.whileLoop cond body n s'
        | .brk s' => pure (.done s')
        | .ret r => pure (.ret r)
      else pure (.done s)) := rfl

/-- The result of the translated function as the model states it. -/
def eocdRes (r : Gen.CentralDirectoryEnd × UInt64) : Eocd × Nat := (eocdOf r.1, r.2.toNat)

theorem eocd_loop_tie (bound : UInt64) :
    ∀ (n : Nat) (pos : UInt64) (f : Nat),
      pos.toNat + 1 - bound.toNat + 1 ≤ n → pos.toNat + 1 - bound.toNat ≤ f →
      (Rs.R.whileLoop (Gen.CentralDirectoryEnd.find_and_parse.loop1_cond bound (22 - 6))
          (Gen.CentralDirectoryEnd.find_and_parse.loop1_body bound (22 - 6)) n pos >>= fun t =>
        match t with
        | Rs.LoopEnd.ret r => pure (eocdRes r)
        | Rs.LoopEnd.done _ => M.throw ZErr.invalidArchive) =
      findEocdLoop bound.toNat f pos.toNat := by
  intro n
  induction n with
  | zero => intro pos f h; omega
  | succ n ih =>
    intro pos f hn hf
    rw [R.whileLoop_succ]
    have hcond : Gen.CentralDirectoryEnd.find_and_parse.loop1_cond bound (22 - 6) pos =
        pure (decide (pos ≥ bound)) := rfl
    rw [hcond]
    generalize Rs.R.whileLoop (Gen.CentralDirectoryEnd.find_and_parse.loop1_cond bound (22 - 6))
      (Gen.CentralDirectoryEnd.find_and_parse.loop1_body bound (22 - 6)) n = W at ih ⊢
    by_cases hlt : pos.toNat < bound.toNat
    · have hc : decide (pos ≥ bound) = false := by
        simp only [ge_iff_le, UInt64.le_iff_toNat_le, decide_eq_false_iff_not]; omega
      msimp [hc]
      cases f with
      | zero => rfl
      | succ f => simp only [findEocdLoop, hlt, ↓reduceIte, Bool.false_eq_true]
    · have hc : decide (pos ≥ bound) = true := by
        simp only [ge_iff_le, UInt64.le_iff_toNat_le, decide_eq_true_eq]; omega
      obtain ⟨f, rfl⟩ : ∃ f', f = f' + 1 := ⟨f - 1, by omega⟩
      unfold Gen.CentralDirectoryEnd.find_and_parse.loop1_body findEocdLoop
      have h16 : (Rs.as' Int64 ((22 : UInt64) - 6)).toInt = 16 := by decide
      msimp [hc, hlt, h16, M.seek_start_bind, UInt64.ofNat_toNat, if_true, if_false]
      refine bind_congr fun _ => bind_congr fun x => ?_
      have hsig : Gen.CENTRAL_DIRECTORY_END_SIGNATURE = EOCD_SIG := rfl
      rw [hsig]
      by_cases hx : (x == EOCD_SIG) = true
      · rw [if_pos hx, if_pos hx, ← tie_eocd_parse]
        msimp [eocdRes]
      · rw [if_neg hx, if_neg hx]
        by_cases h0 : pos.toNat = 0
        · have hs : Rs.Arith.sub pos 1 = none := by
            have e1 : (1 : UInt64).toNat = 1 := by decide
            simp only [Rs.Arith.sub, h0, e1]
            rw [if_neg (by omega)]
          rw [if_pos h0, hs]
          msimp
        · have hs : Rs.Arith.sub pos 1 = some (pos - 1) := by
            have e1 : (1 : UInt64).toNat = 1 := by decide
            simp only [Rs.Arith.sub, e1]
            rw [if_pos (by omega)]
          have hp : (pos - 1).toNat = pos.toNat - 1 := by
            have e1 : (1 : UInt64).toNat = 1 := by decide
            rw [UInt64.toNat_sub_of_le _ _ (by rw [UInt64.le_iff_toNat_le, e1]; omega), e1]
          rw [if_neg h0, hs]
          msimp
          rw [← hp]
          exact ih (pos - 1) f (by omega) (by omega)


/-- `seek(SeekFrom::End(0))` returns the length of the device. -/
theorem M.seek_end0_congr {β} (k k' : Nat → M β) (fa : Option Nat) (d : Dev)
    (h : ∀ fa' d', k d.buf.length fa' d' = k' d.buf.length fa' d') :
    (M.seek (.endOff 0) >>= k) fa d = (M.seek (.endOff 0) >>= k') fa d := by
  simp only [M.bind_apply, M.seek, M.prim]
  have h0 : ¬ ((d.buf.length : Int) < 0) := by omega
  by_cases hf : fa = some d.calls
  · simp only [hf, ↓reduceIte]
  · simp only [hf, Int.add_zero, h0, ↓reduceIte, Int.toNat_natCast, h]

/-- `CentralDirectoryEnd::find_and_parse`, on every device whose length fits `u64` (every
`Cursor<Vec<u8>>`) and for every fault index: same I/O calls, same outcome, same final device state. -/
theorem tie_eocd_find_and_parse (fa : Option Nat) (d : Dev) (hd : d.buf.length < 2 ^ 64) :
    (eocdRes <$> Gen.CentralDirectoryEnd.find_and_parse) fa d = Model.findAndParseEocd fa d := by
  unfold Gen.CentralDirectoryEnd.find_and_parse Model.findAndParseEocd
  have h0 : (0 : Int64).toInt = 0 := by decide
  msimp [h0]
  apply M.seek_end0_congr
  intro fa' d'
  generalize d.buf.length = L at hd
  have hL : (UInt64.ofNat L).toNat = L := by
    rw [UInt64.toNat_ofNat']; exact Nat.mod_eq_of_lt hd
  have hadd : Rs.Arith.add (22 : UInt64) (Rs.as' UInt64 (65535 : UInt16)) = some 65557 := by decide
  have e22 : (22 : UInt64).toNat = 22 := by decide
  have e65557 : (65557 : UInt64).toNat = 65557 := by decide
  rw [hadd]
  msimp
  by_cases hlt : L < 22
  · have hc : decide (UInt64.ofNat L < 22) = true := by
      simp only [UInt64.lt_iff_toNat_lt, hL, e22, decide_eq_true_eq]; exact hlt
    rw [hc, if_pos rfl, if_pos hlt]
  · have hc : decide (UInt64.ofNat L < 22) = false := by
      simp only [UInt64.lt_iff_toNat_lt, hL, e22, decide_eq_false_iff_not]; exact hlt
    have hsub : Rs.Arith.sub (UInt64.ofNat L) 22 = some (UInt64.ofNat L - 22) := by
      simp only [Rs.Arith.sub, hL, e22]
      rw [if_pos (by omega)]
    have hpos : (UInt64.ofNat L - 22).toNat = L - 22 := by
      rw [UInt64.toNat_sub_of_le _ _ (by rw [UInt64.le_iff_toNat_le, e22, hL]; omega), e22, hL]
    have hbound : (Rs.saturatingSub (UInt64.ofNat L) 65557).toNat = L - (22 + 65535) := by
      simp only [Rs.saturatingSub, Rs.Arith.sub, hL, e65557]
      by_cases h : 65557 ≤ L
      · rw [if_pos h, Option.getD_some,
          UInt64.toNat_sub_of_le _ _ (by rw [UInt64.le_iff_toNat_le, e65557, hL]; exact h), e65557, hL]
      · rw [if_neg h, Option.getD_none]
        have : (0 : UInt64).toNat = 0 := by decide
        omega
    rw [hc, if_neg (by decide), if_neg hlt, hsub]
    msimp
    have key := eocd_loop_tie (Rs.saturatingSub (UInt64.ofNat L) 65557)
      ((UInt64.ofNat L - 22).toNat - (Rs.saturatingSub (UInt64.ofNat L) 65557).toNat + 2)
      (UInt64.ofNat L - 22) (L - 22 - (L - (22 + 65535)) + 1) (by omega) (by omega)
    rw [hbound, hpos] at key
    rw [← key, hbound, hpos]
    refine congrFun (congrFun (bind_congr fun t => ?_) fa') d'
    cases t <;> rfl


/-! ### `Zip64CentralDirectoryEnd::find_and_parse` -/

def eocd64Res (r : Gen.Zip64CentralDirectoryEnd × UInt64) : Eocd64 × Nat := (eocd64Of r.1, r.2.toNat)

theorem eocd64_loop_tie (nominal upper : UInt64) (hu : upper.toNat + 1 < 2 ^ 64) :
    ∀ (n : Nat) (pos : UInt64) (f : Nat),
      nominal.toNat ≤ pos.toNat →
      upper.toNat + 1 - pos.toNat + 1 ≤ n → upper.toNat + 1 - pos.toNat ≤ f →
      (Rs.R.whileLoop (Gen.Zip64CentralDirectoryEnd.find_and_parse.loop1_cond upper nominal)
          (Gen.Zip64CentralDirectoryEnd.find_and_parse.loop1_body upper nominal) n pos >>= fun t =>
        match t with
        | Rs.LoopEnd.ret r => pure (eocd64Res r)
        | Rs.LoopEnd.done _ => M.throw ZErr.invalidArchive) =
      findEocd64Loop nominal.toNat upper.toNat f pos.toNat := by
  intro n
  induction n with
  | zero => intro pos f _ h; omega
  | succ n ih =>
    intro pos f hnom hn hf
    rw [R.whileLoop_succ]
    have hcond : Gen.Zip64CentralDirectoryEnd.find_and_parse.loop1_cond upper nominal pos =
        pure (decide (pos ≤ upper)) := rfl
    rw [hcond]
    generalize Rs.R.whileLoop (Gen.Zip64CentralDirectoryEnd.find_and_parse.loop1_cond upper nominal)
      (Gen.Zip64CentralDirectoryEnd.find_and_parse.loop1_body upper nominal) n = W at ih ⊢
    by_cases hgt : pos.toNat > upper.toNat
    · have hc : decide (pos ≤ upper) = false := by
        simp only [UInt64.le_iff_toNat_le, decide_eq_false_iff_not]; omega
      msimp [hc]
      cases f with
      | zero => rfl
      | succ f => simp only [findEocd64Loop, hgt, ↓reduceIte, Bool.false_eq_true]
    · have hc : decide (pos ≤ upper) = true := by
        simp only [UInt64.le_iff_toNat_le, decide_eq_true_eq]; omega
      obtain ⟨f, rfl⟩ : ∃ f', f = f' + 1 := ⟨f - 1, by omega⟩
      unfold Gen.Zip64CentralDirectoryEnd.find_and_parse.loop1_body findEocd64Loop
      have hsub : Rs.Arith.sub pos nominal = some (pos - nominal) := by
        simp only [Rs.Arith.sub]; rw [if_pos hnom]
      have hoff : (pos - nominal).toNat = pos.toNat - nominal.toNat :=
        UInt64.toNat_sub_of_le _ _ (by rw [UInt64.le_iff_toNat_le]; exact hnom)
      have e1 : (1 : UInt64).toNat = 1 := by decide
      have hadd : Rs.Arith.add pos 1 = some (pos + 1) := by
        simp only [Rs.Arith.add, e1]; rw [if_pos (by omega)]
      have hp : (pos + 1).toNat = pos.toNat + 1 := by
        rw [UInt64.toNat_add, e1]; omega
      msimp [hc, hgt, hsub, hadd, M.seek_start_bind, if_true, if_false]
      refine bind_congr fun _ => bind_congr fun x => ?_
      have hsig : Gen.ZIP64_CENTRAL_DIRECTORY_END_SIGNATURE = EOCD64_SIG := rfl
      rw [hsig]
      by_cases hx : (x == EOCD64_SIG) = true
      · rw [if_pos hx, if_pos hx]
        msimp [eocd64Res, eocd64Of, hoff]
      · rw [if_neg hx, if_neg hx, ← hp]
        exact ih (pos + 1) f (by omega) (by omega) (by omega)

/-- `Zip64CentralDirectoryEnd::find_and_parse` for every pair of bounds with `search_upper_bound < u64::MAX`
(at `u64::MAX` the source's `pos += 1` can overflow; `get_directory_counts` passes `cde_start_pos - 60`). -/
theorem tie_eocd64_find_and_parse (nominal upper : UInt64) (hu : upper.toNat + 1 < 2 ^ 64) :
    eocd64Res <$> Gen.Zip64CentralDirectoryEnd.find_and_parse nominal upper =
      Model.findEocd64 nominal.toNat upper.toNat := by
  unfold Gen.Zip64CentralDirectoryEnd.find_and_parse Model.findEocd64
  msimp
  rw [← eocd64_loop_tie nominal upper hu (upper.toNat - nominal.toNat + 2) nominal
    (upper.toNat + 1 - nominal.toNat) (Nat.le_refl _) (by omega) (Nat.le_refl _)]
  refine bind_congr fun t => ?_
  cases t <;> rfl


/-! ### `ZipArchive::get_directory_counts` -/

theorem M.attempt_apply {α} (m : M α) (fa : Option Nat) (d : Dev) :
    M.attempt m fa d = match m fa d with
      | (.ok a, d') => (.ok (.ok a), d')
      | (.err e, d') => (.ok (.error e), d')
      | (.panic s, d') => (.panic s, d') := rfl

/-- `attempt` of a mapped computation. -/
theorem M.attempt_map {α β} (f : α → β) (m : M α) :
    M.attempt (m >>= fun a => pure (f a)) = (M.attempt m >>= fun r => pure (r.map f)) := by
  apply M.ext; intro fa d
  simp only [M.bind_apply, M.attempt_apply, M.pure_apply]
  rcases m fa d with ⟨o, d'⟩
  cases o <;> rfl

/-- `x.len() as i64` for a vector that fits `isize`. -/
theorem len_as_i64 (bs : Bytes) (h : bs.length < 2 ^ 63) :
    (Rs.as' Int64 (Rs.len bs)).toInt = bs.length := by
  simp only [Rs.as', Rs.As.cast, Rs.len, UInt64.toInt64_ofNat']
  exact Int64.toInt_ofNat_of_lt h

/-- `-(20 + 22 + footer.zip_file_comment.len() as i64)` -/
theorem seek_offset (bs : Bytes) (h : bs.length < 2 ^ 63 - 42) :
    ∃ t2 t3 : Int64, Rs.Arith.add (42 : Int64) (Rs.as' Int64 (Rs.len bs)) = some t2 ∧
      Rs.checkedNeg t2 = some t3 ∧ t3.toInt = -(20 + 22 + (bs.length : Int)) := by
  have hl := len_as_i64 bs (by omega)
  have e42 : (42 : Int64).toInt = 42 := by decide
  refine ⟨Int64.ofInt (42 + bs.length), Int64.ofInt (-(42 + (bs.length : Int))), ?_, ?_, ?_⟩
  · simp only [Rs.Arith.add, hl, e42]
    rw [if_pos (by omega)]
  · have e : (Int64.ofInt (42 + (bs.length : Int))).toInt = 42 + bs.length :=
      Int64.toInt_ofInt_of_le (by omega) (by omega)
    simp only [Rs.checkedNeg, e]
    rw [if_neg (by omega)]
  · rw [Int64.toInt_ofInt_of_le (by omega) (by omega)]; omega


/-- The result triple as the model states it. -/
def countsRes (r : UInt64 × UInt64 × UInt64) : Nat × Nat × Nat := (r.1.toNat, r.2.1.toNat, r.2.2.toNat)

theorem sub_some (a b : UInt64) (h : b.toNat ≤ a.toNat) :
    Rs.Arith.sub a b = some (a - b) ∧ (a - b).toNat = a.toNat - b.toNat := by
  refine ⟨?_, UInt64.toNat_sub_of_le _ _ (by rw [UInt64.le_iff_toNat_le]; exact h)⟩
  simp only [Rs.Arith.sub]; rw [if_pos h]

theorem sub_none (a b : UInt64) (h : ¬ b.toNat ≤ a.toNat) : Rs.Arith.sub a b = none := by
  simp only [Rs.Arith.sub]; rw [if_neg h]

theorem add_some (a b : UInt64) (h : a.toNat + b.toNat < 18446744073709551616) :
    Rs.Arith.add a b = some (a + b) ∧ (a + b).toNat = a.toNat + b.toNat := by
  refine ⟨?_, ?_⟩
  · simp only [Rs.Arith.add]; rw [if_pos h]
  · rw [UInt64.toNat_add]; omega

theorem add_none (a b : UInt64) (h : ¬ a.toNat + b.toNat < 18446744073709551616) :
    Rs.Arith.add a b = none := by
  simp only [Rs.Arith.add]; rw [if_neg h]

theorem as_u32_u64_toNat (x : UInt32) : (Rs.as' UInt64 x).toNat = x.toNat := by
  simp only [Rs.as', Rs.As.cast, UInt32.toNat_toUInt64]

/-- No ZIP64 locator: the archive offset from the end record alone. -/
theorem counts_none (cde : UInt64) (sz off : UInt32) (n : UInt16) :
    (Rs.R.ok_or ((Rs.Arith.sub cde (Rs.as' UInt64 sz)).bind fun x => Rs.Arith.sub x (Rs.as' UInt64 off))
        Rs.ZipErr.InvalidArchive >>= fun x =>
      Rs.R.lift (Rs.Arith.add (Rs.as' UInt64 off) x) >>= fun x_1 =>
      (pure (countsRes (x, x_1, Rs.as' UInt64 n)) : M _)) =
    if cde.toNat < sz.toNat + off.toNat then M.throw ZErr.invalidArchive
    else pure (cde.toNat - sz.toNat - off.toNat, off.toNat + (cde.toNat - sz.toNat - off.toNat), n.toNat) := by
  have hsz := as_u32_u64_toNat sz
  have hoff := as_u32_u64_toNat off
  have hn := as_u16_u64_toNat n
  have hc := UInt64.toNat_lt cde
  by_cases h1 : (Rs.as' UInt64 sz).toNat ≤ cde.toNat
  · obtain ⟨e1, v1⟩ := sub_some _ _ h1
    by_cases h2 : (Rs.as' UInt64 off).toNat ≤ (cde - Rs.as' UInt64 sz).toNat
    · obtain ⟨e2, v2⟩ := sub_some _ _ h2
      obtain ⟨e3, v3⟩ := add_some (Rs.as' UInt64 off) (cde - Rs.as' UInt64 sz - Rs.as' UInt64 off) (by omega)
      rw [e1, Option.bind_some, e2]
      msimp
      rw [e3, if_neg (by omega)]
      msimp [countsRes, v3, v2, v1, hsz, hoff, hn]
    · rw [e1, Option.bind_some, sub_none _ _ h2, if_pos (by omega)]
      rfl
  · rw [sub_none _ _ h1, Option.bind_none, if_pos (by omega)]
    rfl

theorem tie_get_directory_counts (footer : Gen.CentralDirectoryEnd) (cde : UInt64)
    (hlen : footer.zip_file_comment.length < 2 ^ 63 - 42) :
    countsRes <$> Gen.ZipArchive.get_directory_counts footer cde =
      Model.getDirectoryCounts (eocdOf footer) cde.toNat := by
  obtain ⟨t2, t3, h2, h3, h3v⟩ := seek_offset footer.zip_file_comment hlen
  have h1 : Rs.Arith.add (20 : Int64) (22 : Int64) = some 42 := by decide
  have e20 : (20 : UInt64).toNat = 20 := by decide
  have hn : _ = if cde.toNat < (eocdOf footer).cdSize.toNat + (eocdOf footer).cdOffset.toNat then _ else _ :=
    counts_none cde footer.central_directory_size footer.central_directory_offset
      footer.number_of_files_on_this_disk
  simp only [Rs.R.ok_or, Rs.R.lift, Rs.zerr] at hn
  unfold Gen.ZipArchive.get_directory_counts Model.getDirectoryCounts
  by_cases h20 : cde.toNat < 20
  · -- the end record less than 20 bytes into the file: no probe, no I/O
    have hd : decide (cde < (20 : UInt64)) = true := by
      rw [decide_eq_true_iff, UInt64.lt_iff_toNat_lt, e20]; exact h20
    rw [hd, if_pos rfl, if_pos h20]
    msimp
    exact hn
  have hd : decide (cde < (20 : UInt64)) = false := by
    rw [decide_eq_false_iff_not, UInt64.lt_iff_toNat_lt, e20]; exact h20
  rw [hd, if_neg (by simp), if_neg h20]
  rw [h1]
  msimp
  rw [h2]
  msimp
  rw [h3]
  msimp [h3v]
  -- the probe seek is `?`-propagated on both sides
  refine bind_congr fun p => ?_
  rw [← tie_locator_parse]
  msimp [M.attempt_map]
  refine bind_congr fun r => ?_
  cases r with
    | error e =>
      cases e <;> first
        | (simp only [Except.map]; msimp; exact hn)
        | (simp only [Except.map]; msimp)
    | ok loc =>
      simp only [Except.map]
      msimp [tie_record_too_small, Gen.unsupported_zip_error]
      have hcond : (Rs.as' UInt32 footer.disk_number != loc.disk_with_central_directory) =
          ((eocdOf footer).diskNumber.toUInt32 != (locatorOf loc).diskWithCd) := rfl
      rw [hcond]
      by_cases hc : (!(eocdOf footer).recordTooSmall &&
          (eocdOf footer).diskNumber.toUInt32 != (locatorOf loc).diskWithCd) = true
      · rw [if_pos hc, if_pos hc]
      · rw [if_neg hc, if_neg hc]
        have e60 : (60 : UInt64).toNat = 60 := by decide
        have hcl := UInt64.toNat_lt cde
        by_cases h60 : cde.toNat < 60
        · rw [sub_none _ _ (by rw [e60]; omega), if_pos h60]
          rfl
        · obtain ⟨es, vs⟩ := sub_some cde 60 (by rw [e60]; omega)
          rw [es, if_neg h60]
          msimp
          have hoffs : (locatorOf loc).eocd64Offset = loc.end_of_central_directory_offset := rfl
          rw [hoffs, ← e60, ← vs, ← tie_eocd64_find_and_parse _ _ (by rw [vs, e60]; omega)]
          msimp
          refine bind_congr fun x => ?_
          have hd : (x.fst.disk_number != x.fst.disk_with_central_directory) =
              ((eocd64Res x).fst.diskNumber != (eocd64Res x).fst.diskWithCd) := rfl
          rw [hd]
          by_cases hdd : ((eocd64Res x).fst.diskNumber != (eocd64Res x).fst.diskWithCd) = true
          · rw [if_pos hdd, if_pos hdd]
          · rw [if_neg hdd, if_neg hdd]
            have hx1 : (eocd64Res x).fst.cdOffset = x.fst.central_directory_offset := rfl
            have hx2 : (eocd64Res x).snd = x.snd.toNat := rfl
            have hx3 : (eocd64Res x).fst.files = x.fst.number_of_files := rfl
            rw [hx1, hx2, hx3]
            by_cases hov : x.fst.central_directory_offset.toNat + x.snd.toNat < 18446744073709551616
            · obtain ⟨ea, va⟩ := add_some _ _ hov
              rw [ea, if_neg (by omega)]
              msimp [countsRes, va]
              rfl
            · rw [add_none _ _ hov, if_pos (by omega)]
              rfl

/-! ### `parse_extra_field` -/

/-- the cursor `k` bytes further -/
def adv (c : Rs.Cursor) (k : Nat) : Rs.Cursor := ⟨c.buf, c.pos + UInt64.ofNat k⟩

theorem adv_zero (c : Rs.Cursor) : adv c 0 = c := by
  cases c
  have e : UInt64.ofNat 0 = 0 := rfl
  simp only [adv, e, UInt64.add_zero]

theorem rest_adv (c : Rs.Cursor) (k : Nat) (h : c.pos.toNat + k < 2 ^ 64) :
    (adv c k).rest = c.rest.drop k := by
  simp only [adv, Rs.Cursor.rest, List.drop_drop]
  congr 1
  rw [UInt64.toNat_add, UInt64.toNat_ofNat']
  have : k % 2 ^ 64 = k := Nat.mod_eq_of_lt (by omega)
  rw [this]; omega

theorem adv_step (c : Rs.Cursor) (k j : Nat) :
    (⟨(adv c k).buf, (adv c k).pos + UInt64.ofNat j⟩ : Rs.Cursor) = adv c (k + j) := by
  simp only [adv, UInt64.ofNat_add, UInt64.add_assoc]

theorem rd16_some {x : Bytes} {v : UInt16} {r : Bytes} (h : rd16 x = some (v, r)) : r = x.drop 2 := by
  match x, h with
  | a :: b :: r', h =>
    simp only [rd16, Option.some.injEq, Prod.mk.injEq] at h
    simp only [List.drop_succ_cons, List.drop_zero, h.2]

theorem rd16_len {x : Bytes} {p : UInt16 × Bytes} (h : rd16 x = some p) : 2 ≤ x.length := by
  match x, h with
  | a :: b :: r', _ => simp only [List.length_cons]; omega

theorem rd64_len {x : Bytes} {p : UInt64 × Bytes} (h : rd64 x = some p) : 8 ≤ x.length := by
  match x, h with
  | a :: b :: c :: d :: e :: f :: g :: i :: r', _ => simp only [List.length_cons]; omega

theorem ok_bind {ε α β} (a : α) (f : α → Except ε β) : (Except.ok a >>= f) = f a := rfl
theorem error_bind {ε α β} (e : ε) (f : α → Except ε β) : ((Except.error e : Except ε α) >>= f) = Except.error e := rfl

theorem rd64_some {x : Bytes} {v : UInt64} {r : Bytes} (h : rd64 x = some (v, r)) : r = x.drop 8 := by
  match x, h with
  | a :: b :: c :: d :: e :: f :: g :: i :: r', h =>
    simp only [rd64, Option.some.injEq, Prod.mk.injEq] at h
    simp only [List.drop_succ_cons, List.drop_zero, h.2]

theorem ofExcept_read_u16 (c : Rs.Cursor) (k : Nat) (st : Gen.ZipFileData) (h : c.pos.toNat + k + 2 < 2 ^ 64) :
    (Rs.P.ofExcept (Rs.Cursor.read_u16 (adv c k)) st : Rs.P Gen.ZipFileData _) =
      match rd16 (c.rest.drop k) with
      | some (v, _) => .ok (v, adv c (k + 2))
      | none => .error ⟨some (.Io .UnexpectedEof), st⟩ := by
  have e2 : (2 : UInt64) = UInt64.ofNat 2 := rfl
  simp only [Rs.Cursor.read_u16, rest_adv c k (by omega), e2, adv_step]
  cases rd16 (c.rest.drop k) with
  | none => rfl
  | some p => rfl

theorem ofExcept_read_u64 (c : Rs.Cursor) (k : Nat) (st : Gen.ZipFileData) (h : c.pos.toNat + k + 8 < 2 ^ 64) :
    (Rs.P.ofExcept (Rs.Cursor.read_u64 (adv c k)) st : Rs.P Gen.ZipFileData _) =
      match rd64 (c.rest.drop k) with
      | some (v, _) => .ok (v, adv c (k + 8))
      | none => .error ⟨some (.Io .UnexpectedEof), st⟩ := by
  have e2 : (8 : UInt64) = UInt64.ofNat 8 := rfl
  simp only [Rs.Cursor.read_u64, rest_adv c k (by omega), e2, adv_step]
  cases rd64 (c.rest.drop k) with
  | none => rfl
  | some p => rfl

theorem ofExcept_read_u8 (c : Rs.Cursor) (k : Nat) (st : Gen.ZipFileData) (h : c.pos.toNat + k + 1 < 2 ^ 64) :
    (Rs.P.ofExcept (Rs.Cursor.read_u8 (adv c k)) st : Rs.P Gen.ZipFileData _) =
      match c.rest.drop k with
      | a :: _ => .ok (a, adv c (k + 1))
      | [] => .error ⟨some (.Io .UnexpectedEof), st⟩ := by
  have e2 : (1 : UInt64) = UInt64.ofNat 1 := rfl
  simp only [Rs.Cursor.read_u8, rest_adv c k (by omega), e2, adv_step]
  cases c.rest.drop k with
  | nil => rfl
  | cons a r => rfl


theorem adv_pos (c : Rs.Cursor) (k : Nat) (h : c.pos.toNat + k < 2 ^ 64) :
    (adv c k).pos.toNat = c.pos.toNat + k := by
  simp only [adv]
  rw [UInt64.toNat_add, UInt64.toNat_ofNat']
  have : k % 2 ^ 64 = k := Nat.mod_eq_of_lt (by omega)
  rw [this]; omega

theorem ofExcept_seek_current (c : Rs.Cursor) (k : Nat) (st : Gen.ZipFileData) (v : Int)
    (hv : 0 ≤ v ∧ v < 2 ^ 62) (h : c.pos.toNat + k + v.toNat < 2 ^ 63) :
    (Rs.P.ofExcept (Rs.Cursor.seek_current (adv c k) (Int64.ofInt v)) st : Rs.P Gen.ZipFileData _) =
      .ok (UInt64.ofNat (c.pos.toNat + k + v.toNat), adv c (k + v.toNat)) := by
  have hp := adv_pos c k (by omega)
  have hi : (Int64.ofInt v).toInt = v := Int64.toInt_ofInt_of_le (by omega) (by omega)
  have hb : (adv c k).buf = c.buf := rfl
  simp only [Rs.Cursor.seek_current, hp, hi, hb]
  have hr : (0 : Int) ≤ ((c.pos.toNat + k : Nat) : Int) + v ∧
      ((c.pos.toNat + k : Nat) : Int) + v < 18446744073709551616 := by omega
  rw [if_pos hr]
  have ht : (((c.pos.toNat + k : Nat) : Int) + v).toNat = c.pos.toNat + k + v.toNat := by omega
  rw [ht]
  simp only [Rs.P.ofExcept, adv]
  have : UInt64.ofNat (c.pos.toNat + k + v.toNat) = c.pos + UInt64.ofNat (k + v.toNat) := by
    rw [Nat.add_assoc, UInt64.ofNat_add, UInt64.ofNat_toNat]
  rw [this]

/-- `len as i64` -/
theorem as_i64_u16 (x : UInt16) : Rs.as' Int64 x = Int64.ofInt (x.toNat : Int) := by
  simp only [Rs.as', Rs.As.cast]
  apply Int64.toInt_inj.mp
  rw [Int64.toInt_ofInt_of_le (by omega) (by have := UInt16.toNat_lt x; omega)]
  have h : x.toUInt64 = UInt64.ofNat x.toNat := by
    apply UInt64.toNat_inj.mp
    rw [UInt16.toNat_toUInt64, UInt64.toNat_ofNat']
    have := UInt16.toNat_lt x
    omega
  rw [h, UInt64.toInt64_ofNat']
  exact Int64.toInt_ofNat_of_lt (by have := UInt16.toNat_lt x; omega)

theorem i64_sub8 (v : Int) (hv : -2 ^ 62 < v ∧ v < 2 ^ 62) :
    Rs.Arith.sub (Int64.ofInt v) (8 : Int64) = some (Int64.ofInt (v - 8)) := by
  have hi : (Int64.ofInt v).toInt = v := Int64.toInt_ofInt_of_le (by omega) (by omega)
  have e8 : (8 : Int64).toInt = 8 := by decide
  simp only [Rs.Arith.sub, hi, e8]
  rw [if_pos (by omega)]

theorem i64_sub7 (v : Int) (hv : -2 ^ 62 < v ∧ v < 2 ^ 62) :
    Rs.Arith.sub (Int64.ofInt v) (7 : Int64) = some (Int64.ofInt (v - 7)) := by
  have hi : (Int64.ofInt v).toInt = v := Int64.toInt_ofInt_of_le (by omega) (by omega)
  have e7 : (7 : Int64).toInt = 7 := by decide
  simp only [Rs.Arith.sub, hi, e7]
  rw [if_pos (by omega)]

theorem i64_pos (v : Int) (hv : -2 ^ 62 < v ∧ v < 2 ^ 62) :
    decide (Int64.ofInt v > (0 : Int64)) = decide (v > 0) := by
  have hi : (Int64.ofInt v).toInt = v := Int64.toInt_ofInt_of_le (by omega) (by omega)
  have e0 : (0 : Int64).toInt = 0 := by decide
  simp only [gt_iff_lt, Int64.lt_iff_toInt_lt, hi, e0]


/-- Outcome of the translated loop as the model states it (`none` = panic). -/
def loopRes (x : Rs.P Gen.ZipFileData (Rs.LoopEnd (Rs.Cursor × Gen.ZipFileData) Unit)) :
    Option (FileData × Option ZErr) :=
  match x with
  | .ok (.done (_, s)) => some (dataOf s, none)
  | .ok (.ret _) => none
  | .error ⟨none, _⟩ => none
  | .error ⟨some e, s⟩ => some (dataOf s, some (zerrOf e))

theorem P.whileLoop_succ {σ τ ρ : Type} (proj : τ → σ) (cond : τ → Rs.P σ Bool)
    (body : τ → Rs.P σ (Rs.Step τ ρ)) (n : Nat) (s : τ) :
    Rs.P.whileLoop proj cond body (n + 1) s = (do
      if (← cond s) then
        match (← body s) with
        | .next s' => Rs.P.whileLoop proj cond body n s'
        | .brk s' => pure (.done s')
        | .ret r => pure (.ret r)
      else pure (.done s)) := rfl

/-- The end of one iteration: skip what is left of the record, go round the loop. -/
theorem pef_tail (B : Bytes) (hB : B.length < 2 ^ 62) (n k : Nat)
    (W : Rs.Cursor × Gen.ZipFileData → Rs.P Gen.ZipFileData (Rs.LoopEnd (Rs.Cursor × Gen.ZipFileData) Unit))
    (ih : ∀ (c : Rs.Cursor) (f : Gen.ZipFileData) (k : Nat), c.buf = B → f.extra_field = B →
      c.rest.length < n → c.rest.length ≤ k → loopRes (W (c, f)) = some (parseExtraField k (dataOf f) c.rest))
    (c : Rs.Cursor) (hc : c.buf = B) (hpos : c.pos.toNat < B.length)
    (hn : c.rest.length < n + 1) (hk : c.rest.length ≤ k + 1)
    (j : Nat) (hj : 4 ≤ j ∧ j ≤ 64) (F : Gen.ZipFileData) (hF : F.extra_field = B)
    (v : Int) (hv : -2 ^ 20 < v ∧ v < 2 ^ 20)
    (K : Rs.Step (Rs.Cursor × Gen.ZipFileData) Unit →
      Rs.P Gen.ZipFileData (Rs.LoopEnd (Rs.Cursor × Gen.ZipFileData) Unit))
    (hK : ∀ s', K (Rs.Step.next s') = W s') :
    loopRes ((if decide (v > 0) = true then do
            let x ← Rs.P.ofExcept ((adv c j).seek_current (Int64.ofInt v)) F
            pure (Rs.Step.next (x.snd, F))
          else pure (Rs.Step.next (adv c j, F)) : Rs.P Gen.ZipFileData _) >>= K) =
    some (parseExtraField k (dataOf F) (if v > 0 then c.rest.drop (j + v.toNat) else c.rest.drop j)) := by
  have hrl : c.rest.length = B.length - c.pos.toNat := by
    simp only [Rs.Cursor.rest, hc, List.length_drop]
  by_cases h0 : v > 0
  · have hd : decide (v > 0) = true := decide_eq_true h0
    rw [hd, if_pos rfl, if_pos h0]
    rw [ofExcept_seek_current c j F v (by omega) (by omega)]
    simp only [ok_bind, pure_bind, hK]
    rw [ih (adv c (j + v.toNat)) F k (by rw [← hc]; rfl) hF
      (by rw [rest_adv _ _ (by omega), List.length_drop]; omega)
      (by rw [rest_adv _ _ (by omega), List.length_drop]; omega),
      rest_adv _ _ (by omega)]
  · have hd : decide (v > 0) = false := decide_eq_false h0
    rw [hd, if_neg (by decide), if_neg h0]
    simp only [pure_bind, hK]
    rw [ih (adv c j) F k (by rw [← hc]; rfl) hF
      (by rw [rest_adv _ _ (by omega), List.length_drop]; omega)
      (by rw [rest_adv _ _ (by omega), List.length_drop]; omega),
      rest_adv _ _ (by omega)]

syntax "pef_model" "[" Lean.Parser.Tactic.simpLemma,* "]" : tactic
macro_rules
  | `(tactic| pef_model [$ls,*]) => `(tactic| (rw [parseExtraField]; simp only [takeU64If, Bool.false_eq_true,
      ↓reduceIte, Option.isSome_none, Option.isSome_some, Nat.add_zero, Nat.zero_add, Nat.reduceAdd,
      Int.natCast_zero, List.drop_drop, $ls,*]))

syntax "pef_gen" "[" Lean.Parser.Tactic.simpLemma,* "]" : tactic
macro_rules
  | `(tactic| pef_gen [$ls,*]) => `(tactic| simp (disch := omega) only [ofExcept_read_u16, ofExcept_read_u64,
      ofExcept_read_u8, ok_bind, error_bind, bind_assoc, pure_bind, List.drop_zero, List.drop_drop,
      Nat.zero_add, Nat.reduceAdd, as_i64_u16, i64_sub8, i64_sub7, i64_pos, Rs.P.lift, Rs.P.err, ↓reduceIte,
      Bool.false_eq_true, $ls,*])

section iter
variable (B : Bytes) (hB : B.length < 2 ^ 62) (n k : Nat)
  (W : Rs.Cursor × Gen.ZipFileData → Rs.P Gen.ZipFileData (Rs.LoopEnd (Rs.Cursor × Gen.ZipFileData) Unit))
  (ih : ∀ (c : Rs.Cursor) (f : Gen.ZipFileData) (k : Nat), c.buf = B → f.extra_field = B →
    c.rest.length < n → c.rest.length ≤ k → loopRes (W (c, f)) = some (parseExtraField k (dataOf f) c.rest))
  (c : Rs.Cursor) (f : Gen.ZipFileData) (hc : c.buf = B) (hf : f.extra_field = B)
  (hpos : c.pos.toNat < B.length) (hn : c.rest.length < n + 1) (hk : c.rest.length ≤ k + 1)
  (K : Rs.Step (Rs.Cursor × Gen.ZipFileData) Unit →
    Rs.P Gen.ZipFileData (Rs.LoopEnd (Rs.Cursor × Gen.ZipFileData) Unit))
  (hK : ∀ s', K (Rs.Step.next s') = W s')
  (kind len : UInt16) (h1 : rd16 c.rest = some (kind, c.rest.drop 2))
  (h2 : rd16 (c.rest.drop 2) = some (len, c.rest.drop 4))
include hB ih hc hf hpos hn hk hK h1 h2

theorem pef_iter_k1_tt (hk1 : (kind == 1) = true)
    (hb1 : ((dataOf f).uncompressedSize == ZIP64_BYTES_THR) = true) (v1 : UInt64)
    (hr1 : rd64 (c.rest.drop 4) = some (v1, c.rest.drop 12)) (hb2 : ((dataOf f).compressedSize == ZIP64_BYTES_THR) = true) :
    loopRes (Gen.parse_extra_field.loop1_body (adv c 0, f) >>= K) =
      some (parseExtraField (k + 1) (dataOf f) c.rest) := by
  have hthr : Gen.ZIP64_BYTES_THR = ZIP64_BYTES_THR := Tie.Types.tie_bytes_thr
  have hl16 := UInt16.toNat_lt len
  have hlen4 : 4 ≤ c.rest.length := by
    have := rd16_len h2
    simp only [List.length_drop] at this; omega
  have hp63 : c.pos.toNat < 2 ^ 62 := by omega
  have hne : c.rest.isEmpty = false := by
    cases hr : c.rest with
    | nil => rw [hr] at hlen4; simp only [List.length_nil] at hlen4; omega
    | cons a r => rfl
  have hg1 : (f.uncompressed_size == Gen.ZIP64_BYTES_THR) = true := by rw [hthr]; exact hb1
  have hl1 := rd64_len hr1
  simp only [List.length_drop] at hl1
  unfold Gen.parse_extra_field.loop1_body
  have hg2 : (f.compressed_size == Gen.ZIP64_BYTES_THR) = true := by rw [hthr]; exact hb2
  cases hr2 : rd64 (c.rest.drop 12) with
  | none =>
    pef_model [hne, h1, h2, hk1, hb1, hr1, hb2, hr2]
    pef_gen [h1, h2, hk1, hg1, hr1, hg2, hr2]
    rfl
  | some p =>
    obtain ⟨v2, r2⟩ := p
    have e2 := rd64_some hr2
    simp only [List.drop_drop, Nat.reduceAdd] at e2
    subst e2
    have hl2 := rd64_len hr2
    simp only [List.length_drop] at hl2
    by_cases hb3 : ((dataOf f).headerStart == ZIP64_BYTES_THR) = true
    · have hg3 : (f.header_start == Gen.ZIP64_BYTES_THR) = true := by rw [hthr]; exact hb3
      cases hr3 : rd64 (c.rest.drop 20) with
      | none =>
        pef_model [hne, h1, h2, hk1, hb1, hr1, hb2, hr2, hb3, hr3]
        pef_gen [h1, h2, hk1, hg1, hr1, hg2, hr2, hg3, hr3]
        rfl
      | some p =>
        obtain ⟨v3, r3⟩ := p
        have e3 := rd64_some hr3
        simp only [List.drop_drop, Nat.reduceAdd] at e3
        subst e3
        have hl3 := rd64_len hr3
        simp only [List.length_drop] at hl3
        pef_model [hne, h1, h2, hk1, hb1, hr1, hb2, hr2, hb3, hr3]
        pef_gen [h1, h2, hk1, hg1, hr1, hg2, hr2, hg3, hr3]
        have ev : ((len.toNat : Int) - 8 - 8 - 8) = (len.toNat : Int) - 24 := by omega
        simp only [ev]
        rw [pef_tail B hB n k W ih c hc hpos hn hk 28 (by omega) _ ?_ ((len.toNat : Int) - 24)
          (by omega) _ hK]
        · first | rfl | (simp only [Int.sub_zero]; rfl)
        · exact hf
    · have hg3 : (f.header_start == Gen.ZIP64_BYTES_THR) = false := by
        rw [hthr]; exact Bool.eq_false_iff.mpr hb3
      pef_model [hne, h1, h2, hk1, hb1, hr1, hb2, hr2, hb3]
      pef_gen [h1, h2, hk1, hg1, hr1, hg2, hr2, hg3]
      have ev : ((len.toNat : Int) - 8 - 8) = (len.toNat : Int) - 16 := by omega
      simp only [ev]
      rw [pef_tail B hB n k W ih c hc hpos hn hk 20 (by omega) _ ?_ ((len.toNat : Int) - 16)
        (by omega) _ hK]
      · first | rfl | (simp only [Int.sub_zero]; rfl)
      · exact hf

theorem pef_iter_k1_tf (hk1 : (kind == 1) = true)
    (hb1 : ((dataOf f).uncompressedSize == ZIP64_BYTES_THR) = true) (v1 : UInt64)
    (hr1 : rd64 (c.rest.drop 4) = some (v1, c.rest.drop 12)) (hb2 : ¬ ((dataOf f).compressedSize == ZIP64_BYTES_THR) = true) :
    loopRes (Gen.parse_extra_field.loop1_body (adv c 0, f) >>= K) =
      some (parseExtraField (k + 1) (dataOf f) c.rest) := by
  have hthr : Gen.ZIP64_BYTES_THR = ZIP64_BYTES_THR := Tie.Types.tie_bytes_thr
  have hl16 := UInt16.toNat_lt len
  have hlen4 : 4 ≤ c.rest.length := by
    have := rd16_len h2
    simp only [List.length_drop] at this; omega
  have hp63 : c.pos.toNat < 2 ^ 62 := by omega
  have hne : c.rest.isEmpty = false := by
    cases hr : c.rest with
    | nil => rw [hr] at hlen4; simp only [List.length_nil] at hlen4; omega
    | cons a r => rfl
  have hg1 : (f.uncompressed_size == Gen.ZIP64_BYTES_THR) = true := by rw [hthr]; exact hb1
  have hl1 := rd64_len hr1
  simp only [List.length_drop] at hl1
  unfold Gen.parse_extra_field.loop1_body
  have hg2 : (f.compressed_size == Gen.ZIP64_BYTES_THR) = false := by
    rw [hthr]; exact Bool.eq_false_iff.mpr hb2
  by_cases hb3 : ((dataOf f).headerStart == ZIP64_BYTES_THR) = true
  · have hg3 : (f.header_start == Gen.ZIP64_BYTES_THR) = true := by rw [hthr]; exact hb3
    cases hr3 : rd64 (c.rest.drop 12) with
    | none =>
      pef_model [hne, h1, h2, hk1, hb1, hr1, hb2, hb3, hr3]
      pef_gen [h1, h2, hk1, hg1, hr1, hg2, hg3, hr3]
      rfl
    | some p =>
      obtain ⟨v3, r3⟩ := p
      have e3 := rd64_some hr3
      simp only [List.drop_drop, Nat.reduceAdd] at e3
      subst e3
      have hl3 := rd64_len hr3
      simp only [List.length_drop] at hl3
      pef_model [hne, h1, h2, hk1, hb1, hr1, hb2, hb3, hr3]
      pef_gen [h1, h2, hk1, hg1, hr1, hg2, hg3, hr3]
      have ev : ((len.toNat : Int) - 8 - 8) = (len.toNat : Int) - 16 := by omega
      simp only [ev]
      rw [pef_tail B hB n k W ih c hc hpos hn hk 20 (by omega) _ ?_ ((len.toNat : Int) - 16)
        (by omega) _ hK]
      · first | rfl | (simp only [Int.sub_zero]; rfl)
      · exact hf
  · have hg3 : (f.header_start == Gen.ZIP64_BYTES_THR) = false := by
      rw [hthr]; exact Bool.eq_false_iff.mpr hb3
    pef_model [hne, h1, h2, hk1, hb1, hr1, hb2, hb3]
    pef_gen [h1, h2, hk1, hg1, hr1, hg2, hg3]
    rw [pef_tail B hB n k W ih c hc hpos hn hk 12 (by omega) _ ?_ ((len.toNat : Int) - 8)
      (by omega) _ hK]
    · first | rfl | (simp only [Int.sub_zero]; rfl)
    · exact hf

theorem pef_iter_k1_t (hk1 : (kind == 1) = true)
    (hb1 : ((dataOf f).uncompressedSize == ZIP64_BYTES_THR) = true) :
    loopRes (Gen.parse_extra_field.loop1_body (adv c 0, f) >>= K) =
      some (parseExtraField (k + 1) (dataOf f) c.rest) := by
  have hthr : Gen.ZIP64_BYTES_THR = ZIP64_BYTES_THR := Tie.Types.tie_bytes_thr
  have hl16 := UInt16.toNat_lt len
  have hlen4 : 4 ≤ c.rest.length := by
    have := rd16_len h2
    simp only [List.length_drop] at this; omega
  have hp63 : c.pos.toNat < 2 ^ 62 := by omega
  have hne : c.rest.isEmpty = false := by
    cases hr : c.rest with
    | nil => rw [hr] at hlen4; simp only [List.length_nil] at hlen4; omega
    | cons a r => rfl
  have hg1 : (f.uncompressed_size == Gen.ZIP64_BYTES_THR) = true := by rw [hthr]; exact hb1
  cases hr1 : rd64 (c.rest.drop 4) with
  | none =>
    unfold Gen.parse_extra_field.loop1_body
    pef_model [hne, h1, h2, hk1, hb1, hr1]
    pef_gen [h1, h2, hk1, hg1, hr1]
    rfl
  | some p =>
    obtain ⟨v1, r1⟩ := p
    have e1 := rd64_some hr1
    simp only [List.drop_drop, Nat.reduceAdd] at e1
    subst e1
    by_cases hb2 : ((dataOf f).compressedSize == ZIP64_BYTES_THR) = true
    · exact pef_iter_k1_tt B hB n k W ih c f hc hf hpos hn hk K hK kind len h1 h2 hk1 hb1 v1 hr1 hb2
    · exact pef_iter_k1_tf B hB n k W ih c f hc hf hpos hn hk K hK kind len h1 h2 hk1 hb1 v1 hr1 hb2

theorem pef_iter_k1_ft (hk1 : (kind == 1) = true)
    (hb1 : ¬ ((dataOf f).uncompressedSize == ZIP64_BYTES_THR) = true) (hb2 : ((dataOf f).compressedSize == ZIP64_BYTES_THR) = true) :
    loopRes (Gen.parse_extra_field.loop1_body (adv c 0, f) >>= K) =
      some (parseExtraField (k + 1) (dataOf f) c.rest) := by
  have hthr : Gen.ZIP64_BYTES_THR = ZIP64_BYTES_THR := Tie.Types.tie_bytes_thr
  have hl16 := UInt16.toNat_lt len
  have hlen4 : 4 ≤ c.rest.length := by
    have := rd16_len h2
    simp only [List.length_drop] at this; omega
  have hp63 : c.pos.toNat < 2 ^ 62 := by omega
  have hne : c.rest.isEmpty = false := by
    cases hr : c.rest with
    | nil => rw [hr] at hlen4; simp only [List.length_nil] at hlen4; omega
    | cons a r => rfl
  have hg1 : (f.uncompressed_size == Gen.ZIP64_BYTES_THR) = false := by
    rw [hthr]; exact Bool.eq_false_iff.mpr hb1
  unfold Gen.parse_extra_field.loop1_body
  have hg2 : (f.compressed_size == Gen.ZIP64_BYTES_THR) = true := by rw [hthr]; exact hb2
  cases hr2 : rd64 (c.rest.drop 4) with
  | none =>
    pef_model [hne, h1, h2, hk1, hb1, hb2, hr2]
    pef_gen [h1, h2, hk1, hg1, hg2, hr2]
    rfl
  | some p =>
    obtain ⟨v2, r2⟩ := p
    have e2 := rd64_some hr2
    simp only [List.drop_drop, Nat.reduceAdd] at e2
    subst e2
    have hl2 := rd64_len hr2
    simp only [List.length_drop] at hl2
    by_cases hb3 : ((dataOf f).headerStart == ZIP64_BYTES_THR) = true
    · have hg3 : (f.header_start == Gen.ZIP64_BYTES_THR) = true := by rw [hthr]; exact hb3
      cases hr3 : rd64 (c.rest.drop 12) with
      | none =>
        pef_model [hne, h1, h2, hk1, hb1, hb2, hr2, hb3, hr3]
        pef_gen [h1, h2, hk1, hg1, hg2, hr2, hg3, hr3]
        rfl
      | some p =>
        obtain ⟨v3, r3⟩ := p
        have e3 := rd64_some hr3
        simp only [List.drop_drop, Nat.reduceAdd] at e3
        subst e3
        have hl3 := rd64_len hr3
        simp only [List.length_drop] at hl3
        pef_model [hne, h1, h2, hk1, hb1, hb2, hr2, hb3, hr3]
        pef_gen [h1, h2, hk1, hg1, hg2, hr2, hg3, hr3]
        have ev : ((len.toNat : Int) - 8 - 8) = (len.toNat : Int) - 16 := by omega
        simp only [ev]
        rw [pef_tail B hB n k W ih c hc hpos hn hk 20 (by omega) _ ?_ ((len.toNat : Int) - 16)
          (by omega) _ hK]
        · first | rfl | (simp only [Int.sub_zero]; rfl)
        · exact hf
    · have hg3 : (f.header_start == Gen.ZIP64_BYTES_THR) = false := by
        rw [hthr]; exact Bool.eq_false_iff.mpr hb3
      pef_model [hne, h1, h2, hk1, hb1, hb2, hr2, hb3]
      pef_gen [h1, h2, hk1, hg1, hg2, hr2, hg3]
      rw [pef_tail B hB n k W ih c hc hpos hn hk 12 (by omega) _ ?_ ((len.toNat : Int) - 8)
        (by omega) _ hK]
      · first | rfl | (simp only [Int.sub_zero]; rfl)
      · exact hf

theorem pef_iter_k1_ff (hk1 : (kind == 1) = true)
    (hb1 : ¬ ((dataOf f).uncompressedSize == ZIP64_BYTES_THR) = true) (hb2 : ¬ ((dataOf f).compressedSize == ZIP64_BYTES_THR) = true) :
    loopRes (Gen.parse_extra_field.loop1_body (adv c 0, f) >>= K) =
      some (parseExtraField (k + 1) (dataOf f) c.rest) := by
  have hthr : Gen.ZIP64_BYTES_THR = ZIP64_BYTES_THR := Tie.Types.tie_bytes_thr
  have hl16 := UInt16.toNat_lt len
  have hlen4 : 4 ≤ c.rest.length := by
    have := rd16_len h2
    simp only [List.length_drop] at this; omega
  have hp63 : c.pos.toNat < 2 ^ 62 := by omega
  have hne : c.rest.isEmpty = false := by
    cases hr : c.rest with
    | nil => rw [hr] at hlen4; simp only [List.length_nil] at hlen4; omega
    | cons a r => rfl
  have hg1 : (f.uncompressed_size == Gen.ZIP64_BYTES_THR) = false := by
    rw [hthr]; exact Bool.eq_false_iff.mpr hb1
  unfold Gen.parse_extra_field.loop1_body
  have hg2 : (f.compressed_size == Gen.ZIP64_BYTES_THR) = false := by
    rw [hthr]; exact Bool.eq_false_iff.mpr hb2
  by_cases hb3 : ((dataOf f).headerStart == ZIP64_BYTES_THR) = true
  · have hg3 : (f.header_start == Gen.ZIP64_BYTES_THR) = true := by rw [hthr]; exact hb3
    cases hr3 : rd64 (c.rest.drop 4) with
    | none =>
      pef_model [hne, h1, h2, hk1, hb1, hb2, hb3, hr3]
      pef_gen [h1, h2, hk1, hg1, hg2, hg3, hr3]
      rfl
    | some p =>
      obtain ⟨v3, r3⟩ := p
      have e3 := rd64_some hr3
      simp only [List.drop_drop, Nat.reduceAdd] at e3
      subst e3
      have hl3 := rd64_len hr3
      simp only [List.length_drop] at hl3
      pef_model [hne, h1, h2, hk1, hb1, hb2, hb3, hr3]
      pef_gen [h1, h2, hk1, hg1, hg2, hg3, hr3]
      rw [pef_tail B hB n k W ih c hc hpos hn hk 12 (by omega) _ ?_ ((len.toNat : Int) - 8)
        (by omega) _ hK]
      · first | rfl | (simp only [Int.sub_zero]; rfl)
      · exact hf
  · have hg3 : (f.header_start == Gen.ZIP64_BYTES_THR) = false := by
      rw [hthr]; exact Bool.eq_false_iff.mpr hb3
    pef_model [hne, h1, h2, hk1, hb1, hb2, hb3]
    pef_gen [h1, h2, hk1, hg1, hg2, hg3]
    rw [pef_tail B hB n k W ih c hc hpos hn hk 4 (by omega) _ ?_ (len.toNat : Int)
      (by omega) _ hK]
    · first | rfl | (simp only [Int.sub_zero]; rfl)
    · exact hf

theorem pef_iter_k1_f (hk1 : (kind == 1) = true)
    (hb1 : ¬ ((dataOf f).uncompressedSize == ZIP64_BYTES_THR) = true) :
    loopRes (Gen.parse_extra_field.loop1_body (adv c 0, f) >>= K) =
      some (parseExtraField (k + 1) (dataOf f) c.rest) := by
  by_cases hb2 : ((dataOf f).compressedSize == ZIP64_BYTES_THR) = true
  · exact pef_iter_k1_ft B hB n k W ih c f hc hf hpos hn hk K hK kind len h1 h2 hk1 hb1 hb2
  · exact pef_iter_k1_ff B hB n k W ih c f hc hf hpos hn hk K hK kind len h1 h2 hk1 hb1 hb2

omit hB ih hc hf hpos hn hk hK h1 h2 in
theorem from_u16_some (v : UInt16) :
    ∃ x, Gen.CompressionMethod.from_u16 v = some x ∧ Tie.Types.methodOf x = Method.fromU16 v := by
  have h := Tie.Types.tie_method_from_u16 v
  cases hx : Gen.CompressionMethod.from_u16 v with
  | none => rw [hx] at h; cases h
  | some x =>
    rw [hx, Option.map_some] at h
    exact ⟨x, rfl, Option.some.inj h⟩

theorem pef_iter_other (hk1 : ¬ (kind == 1) = true) (hk2 : ¬ (kind == 0x9901) = true) :
    loopRes (Gen.parse_extra_field.loop1_body (adv c 0, f) >>= K) =
      some (parseExtraField (k + 1) (dataOf f) c.rest) := by
  have hl16 := UInt16.toNat_lt len
  have hlen4 : 4 ≤ c.rest.length := by
    have := rd16_len h2
    simp only [List.length_drop] at this; omega
  have hp63 : c.pos.toNat < 2 ^ 62 := by omega
  have hne : c.rest.isEmpty = false := by
    cases hr : c.rest with
    | nil => rw [hr] at hlen4; simp only [List.length_nil] at hlen4; omega
    | cons a r => rfl
  have hg1 : (kind == 1) = false := Bool.eq_false_iff.mpr hk1
  have hg2 : (kind == 39169) = false := Bool.eq_false_iff.mpr hk2
  unfold Gen.parse_extra_field.loop1_body
  pef_model [hne, h1, h2, hg1, hg2]
  pef_gen [h1, h2, hg1, hg2]
  rw [pef_tail B hB n k W ih c hc hpos hn hk 4 (by omega) _ ?_ (len.toNat : Int)
    (by omega) _ hK]
  · have hd : ∀ m : Nat, c.rest.drop (4 + m) = if (m : Int) > 0 then c.rest.drop (4 + (m : Int).toNat)
        else c.rest.drop 4 := by
      intro m
      by_cases h0 : (m : Int) > 0
      · rw [if_pos h0, Int.toNat_natCast]
      · rw [if_neg h0]; have : m = 0 := by omega
        rw [this]
    rw [← hd len.toNat]
  · exact hf

theorem pef_iter_aes_v1 (hk1 : ¬ (kind == 1) = true) (hk2 : (kind == 0x9901) = true)
    (hg7 : (len != 7) = false) (vver vid cm : UInt16) (am : UInt8)
    (hr1 : rd16 (c.rest.drop 4) = some (vver, c.rest.drop 6))
    (hr2 : rd16 (c.rest.drop 6) = some (vid, c.rest.drop 8))
    (hr3 : c.rest.drop 8 = am :: c.rest.drop 9)
    (hr4 : rd16 (c.rest.drop 9) = some (cm, c.rest.drop 11))
    (hgvid : (vid != 17729) = false)
    (hv1 : (vver == 1) = true) :
    loopRes (Gen.parse_extra_field.loop1_body (adv c 0, f) >>= K) =
      some (parseExtraField (k + 1) (dataOf f) c.rest) := by
  have hl16 := UInt16.toNat_lt len
  have hlen4 : 4 ≤ c.rest.length := by
    have := rd16_len h2
    simp only [List.length_drop] at this; omega
  have hp63 : c.pos.toNat < 2 ^ 62 := by omega
  have hne : c.rest.isEmpty = false := by
    cases hr : c.rest with
    | nil => rw [hr] at hlen4; simp only [List.length_nil] at hlen4; omega
    | cons a r => rfl
  have hg1 : (kind == 1) = false := Bool.eq_false_iff.mpr hk1
  have hz : zerrOf Rs.ZipErr.UnsupportedArchive = ZErr.unsupportedArchive := rfl
  have hz2 : zerrOf Rs.ZipErr.InvalidArchive = ZErr.invalidArchive := rfl
  have hl7 : len.toNat = 7 := by
    have : len = 7 := by simpa using hg7
    rw [this]; decide
  have hl11 := rd16_len hr4
  simp only [List.length_drop] at hl11
  obtain ⟨x, hx, hxm⟩ := from_u16_some cm
  unfold Gen.parse_extra_field.loop1_body
  by_cases ha1 : (am == 1) = true
  · pef_model [hne, h1, h2, hg1, hk2, hg7, hr1, hr2, hr3, hr4, hgvid, hv1, ha1]
    pef_gen [h1, h2, hg1, hk2, hg7, hr1, hr2, hr3, hr4, hgvid, hx, hv1, ha1]
    rw [pef_tail B hB n k W ih c hc hpos hn hk 11 (by omega) _ ?_ ((len.toNat : Int) - 7)
      (by omega) _ hK]
    · simp only [hl7]
      rw [← hxm]; rfl
    · exact hf
  have hga1 : (am == 1) = false := Bool.eq_false_iff.mpr ha1
  by_cases ha2 : (am == 2) = true
  · pef_model [hne, h1, h2, hg1, hk2, hg7, hr1, hr2, hr3, hr4, hgvid, hv1, hga1, ha2]
    pef_gen [h1, h2, hg1, hk2, hg7, hr1, hr2, hr3, hr4, hgvid, hx, hv1, hga1, ha2]
    rw [pef_tail B hB n k W ih c hc hpos hn hk 11 (by omega) _ ?_ ((len.toNat : Int) - 7)
      (by omega) _ hK]
    · simp only [hl7]
      rw [← hxm]; rfl
    · exact hf
  have hga2 : (am == 2) = false := Bool.eq_false_iff.mpr ha2
  by_cases ha3 : (am == 3) = true
  · pef_model [hne, h1, h2, hg1, hk2, hg7, hr1, hr2, hr3, hr4, hgvid, hv1, hga1, hga2, ha3]
    pef_gen [h1, h2, hg1, hk2, hg7, hr1, hr2, hr3, hr4, hgvid, hx, hv1, hga1, hga2, ha3]
    rw [pef_tail B hB n k W ih c hc hpos hn hk 11 (by omega) _ ?_ ((len.toNat : Int) - 7)
      (by omega) _ hK]
    · simp only [hl7]
      rw [← hxm]; rfl
    · exact hf
  have hga3 : (am == 3) = false := Bool.eq_false_iff.mpr ha3
  pef_model [hne, h1, h2, hg1, hk2, hg7, hr1, hr2, hr3, hr4, hgvid, hv1, hga1, hga2, hga3]
  pef_gen [h1, h2, hg1, hk2, hg7, hr1, hr2, hr3, hr4, hgvid, hx, hv1, hga1, hga2, hga3]
  rfl

theorem pef_iter_aes_v2 (hk1 : ¬ (kind == 1) = true) (hk2 : (kind == 0x9901) = true)
    (hg7 : (len != 7) = false) (vver vid cm : UInt16) (am : UInt8)
    (hr1 : rd16 (c.rest.drop 4) = some (vver, c.rest.drop 6))
    (hr2 : rd16 (c.rest.drop 6) = some (vid, c.rest.drop 8))
    (hr3 : c.rest.drop 8 = am :: c.rest.drop 9)
    (hr4 : rd16 (c.rest.drop 9) = some (cm, c.rest.drop 11))
    (hgvid : (vid != 17729) = false)
    (hgv1 : (vver == 1) = false) (hv2 : (vver == 2) = true) :
    loopRes (Gen.parse_extra_field.loop1_body (adv c 0, f) >>= K) =
      some (parseExtraField (k + 1) (dataOf f) c.rest) := by
  have hl16 := UInt16.toNat_lt len
  have hlen4 : 4 ≤ c.rest.length := by
    have := rd16_len h2
    simp only [List.length_drop] at this; omega
  have hp63 : c.pos.toNat < 2 ^ 62 := by omega
  have hne : c.rest.isEmpty = false := by
    cases hr : c.rest with
    | nil => rw [hr] at hlen4; simp only [List.length_nil] at hlen4; omega
    | cons a r => rfl
  have hg1 : (kind == 1) = false := Bool.eq_false_iff.mpr hk1
  have hz : zerrOf Rs.ZipErr.UnsupportedArchive = ZErr.unsupportedArchive := rfl
  have hz2 : zerrOf Rs.ZipErr.InvalidArchive = ZErr.invalidArchive := rfl
  have hl7 : len.toNat = 7 := by
    have : len = 7 := by simpa using hg7
    rw [this]; decide
  have hl11 := rd16_len hr4
  simp only [List.length_drop] at hl11
  obtain ⟨x, hx, hxm⟩ := from_u16_some cm
  unfold Gen.parse_extra_field.loop1_body
  by_cases ha1 : (am == 1) = true
  · pef_model [hne, h1, h2, hg1, hk2, hg7, hr1, hr2, hr3, hr4, hgvid, hgv1, hv2, ha1]
    pef_gen [h1, h2, hg1, hk2, hg7, hr1, hr2, hr3, hr4, hgvid, hx, hgv1, hv2, ha1]
    rw [pef_tail B hB n k W ih c hc hpos hn hk 11 (by omega) _ ?_ ((len.toNat : Int) - 7)
      (by omega) _ hK]
    · simp only [hl7]
      rw [← hxm]; rfl
    · exact hf
  have hga1 : (am == 1) = false := Bool.eq_false_iff.mpr ha1
  by_cases ha2 : (am == 2) = true
  · pef_model [hne, h1, h2, hg1, hk2, hg7, hr1, hr2, hr3, hr4, hgvid, hgv1, hv2, hga1, ha2]
    pef_gen [h1, h2, hg1, hk2, hg7, hr1, hr2, hr3, hr4, hgvid, hx, hgv1, hv2, hga1, ha2]
    rw [pef_tail B hB n k W ih c hc hpos hn hk 11 (by omega) _ ?_ ((len.toNat : Int) - 7)
      (by omega) _ hK]
    · simp only [hl7]
      rw [← hxm]; rfl
    · exact hf
  have hga2 : (am == 2) = false := Bool.eq_false_iff.mpr ha2
  by_cases ha3 : (am == 3) = true
  · pef_model [hne, h1, h2, hg1, hk2, hg7, hr1, hr2, hr3, hr4, hgvid, hgv1, hv2, hga1, hga2, ha3]
    pef_gen [h1, h2, hg1, hk2, hg7, hr1, hr2, hr3, hr4, hgvid, hx, hgv1, hv2, hga1, hga2, ha3]
    rw [pef_tail B hB n k W ih c hc hpos hn hk 11 (by omega) _ ?_ ((len.toNat : Int) - 7)
      (by omega) _ hK]
    · simp only [hl7]
      rw [← hxm]; rfl
    · exact hf
  have hga3 : (am == 3) = false := Bool.eq_false_iff.mpr ha3
  pef_model [hne, h1, h2, hg1, hk2, hg7, hr1, hr2, hr3, hr4, hgvid, hgv1, hv2, hga1, hga2, hga3]
  pef_gen [h1, h2, hg1, hk2, hg7, hr1, hr2, hr3, hr4, hgvid, hx, hgv1, hv2, hga1, hga2, hga3]
  rfl

theorem pef_iter_aes_v0 (hk1 : ¬ (kind == 1) = true) (hk2 : (kind == 0x9901) = true)
    (hg7 : (len != 7) = false) (vver vid cm : UInt16) (am : UInt8)
    (hr1 : rd16 (c.rest.drop 4) = some (vver, c.rest.drop 6))
    (hr2 : rd16 (c.rest.drop 6) = some (vid, c.rest.drop 8))
    (hr3 : c.rest.drop 8 = am :: c.rest.drop 9)
    (hr4 : rd16 (c.rest.drop 9) = some (cm, c.rest.drop 11))
    (hgvid : (vid != 17729) = false)
    (hgv1 : (vver == 1) = false) (hgv2 : (vver == 2) = false) :
    loopRes (Gen.parse_extra_field.loop1_body (adv c 0, f) >>= K) =
      some (parseExtraField (k + 1) (dataOf f) c.rest) := by
  have hl16 := UInt16.toNat_lt len
  have hlen4 : 4 ≤ c.rest.length := by
    have := rd16_len h2
    simp only [List.length_drop] at this; omega
  have hp63 : c.pos.toNat < 2 ^ 62 := by omega
  have hne : c.rest.isEmpty = false := by
    cases hr : c.rest with
    | nil => rw [hr] at hlen4; simp only [List.length_nil] at hlen4; omega
    | cons a r => rfl
  have hg1 : (kind == 1) = false := Bool.eq_false_iff.mpr hk1
  have hz : zerrOf Rs.ZipErr.UnsupportedArchive = ZErr.unsupportedArchive := rfl
  have hz2 : zerrOf Rs.ZipErr.InvalidArchive = ZErr.invalidArchive := rfl
  have hl7 : len.toNat = 7 := by
    have : len = 7 := by simpa using hg7
    rw [this]; decide
  have hl11 := rd16_len hr4
  simp only [List.length_drop] at hl11
  obtain ⟨x, hx, hxm⟩ := from_u16_some cm
  unfold Gen.parse_extra_field.loop1_body
  pef_model [hne, h1, h2, hg1, hk2, hg7, hr1, hr2, hr3, hr4, hgvid, hgv1, hgv2]
  pef_gen [h1, h2, hg1, hk2, hg7, hr1, hr2, hr3, hr4, hgvid, hx, hgv1, hgv2]
  rfl

theorem pef_iter_aes (hk1 : ¬ (kind == 1) = true) (hk2 : (kind == 0x9901) = true) :
    loopRes (Gen.parse_extra_field.loop1_body (adv c 0, f) >>= K) =
      some (parseExtraField (k + 1) (dataOf f) c.rest) := by
  have hl16 := UInt16.toNat_lt len
  have hlen4 : 4 ≤ c.rest.length := by
    have := rd16_len h2
    simp only [List.length_drop] at this; omega
  have hp63 : c.pos.toNat < 2 ^ 62 := by omega
  have hne : c.rest.isEmpty = false := by
    cases hr : c.rest with
    | nil => rw [hr] at hlen4; simp only [List.length_nil] at hlen4; omega
    | cons a r => rfl
  have hg1 : (kind == 1) = false := Bool.eq_false_iff.mpr hk1
  have hz : zerrOf Rs.ZipErr.UnsupportedArchive = ZErr.unsupportedArchive := rfl
  have hz2 : zerrOf Rs.ZipErr.InvalidArchive = ZErr.invalidArchive := rfl
  unfold Gen.parse_extra_field.loop1_body
  by_cases h7 : (len != 7) = true
  · pef_model [hne, h1, h2, hg1, hk2, h7]
    pef_gen [h1, h2, hg1, hk2, h7]
    rfl
  have hg7 : (len != 7) = false := Bool.eq_false_iff.mpr h7
  have hl7 : len.toNat = 7 := by
    have : len = 7 := by simpa using hg7
    rw [this]; decide
  cases hr1 : rd16 (c.rest.drop 4) with
  | none =>
    pef_model [hne, h1, h2, hg1, hk2, hg7, hr1]
    pef_gen [h1, h2, hg1, hk2, hg7, hr1]
    rfl
  | some p =>
    obtain ⟨vver, r⟩ := p
    have e := rd16_some hr1
    simp only [List.drop_drop, Nat.reduceAdd] at e
    subst e
    cases hr2 : rd16 (c.rest.drop 6) with
    | none =>
      pef_model [hne, h1, h2, hg1, hk2, hg7, hr1, hr2]
      pef_gen [h1, h2, hg1, hk2, hg7, hr1, hr2]
      rfl
    | some p =>
      obtain ⟨vid, r⟩ := p
      have e := rd16_some hr2
      simp only [List.drop_drop, Nat.reduceAdd] at e
      subst e
      cases hr3 : c.rest.drop 8 with
      | nil =>
        pef_model [hne, h1, h2, hg1, hk2, hg7, hr1, hr2, hr3]
        pef_gen [h1, h2, hg1, hk2, hg7, hr1, hr2, hr3]
        rfl
      | cons am r5 =>
        have e5 : r5 = c.rest.drop 9 := by
          have := congrArg (List.drop 1) hr3
          simp only [List.drop_drop, Nat.reduceAdd, List.drop_succ_cons, List.drop_zero] at this
          exact this.symm
        subst e5
        cases hr4 : rd16 (c.rest.drop 9) with
        | none =>
          pef_model [hne, h1, h2, hg1, hk2, hg7, hr1, hr2, hr3, hr4]
          pef_gen [h1, h2, hg1, hk2, hg7, hr1, hr2, hr3, hr4]
          rfl
        | some p =>
          obtain ⟨cm, r⟩ := p
          have e := rd16_some hr4
          simp only [List.drop_drop, Nat.reduceAdd] at e
          subst e
          have hl11 := rd16_len hr4
          simp only [List.length_drop] at hl11
          by_cases hvid : (vid != 17729) = true
          · pef_model [hne, h1, h2, hg1, hk2, hg7, hr1, hr2, hr3, hr4, hvid]
            pef_gen [h1, h2, hg1, hk2, hg7, hr1, hr2, hr3, hr4, hvid]
            rfl
          have hgvid : (vid != 17729) = false := Bool.eq_false_iff.mpr hvid
          by_cases hv1 : (vver == 1) = true
          · exact pef_iter_aes_v1 B hB n k W ih c f hc hf hpos hn hk K hK kind len h1 h2 hk1 hk2 hg7
              vver vid cm am hr1 hr2 hr3 hr4 hgvid hv1
          have hgv1 : (vver == 1) = false := Bool.eq_false_iff.mpr hv1
          by_cases hv2 : (vver == 2) = true
          · exact pef_iter_aes_v2 B hB n k W ih c f hc hf hpos hn hk K hK kind len h1 h2 hk1 hk2 hg7
              vver vid cm am hr1 hr2 hr3 hr4 hgvid hgv1 hv2
          have hgv2 : (vver == 2) = false := Bool.eq_false_iff.mpr hv2
          exact pef_iter_aes_v0 B hB n k W ih c f hc hf hpos hn hk K hK kind len h1 h2 hk1 hk2 hg7
            vver vid cm am hr1 hr2 hr3 hr4 hgvid hgv1 hgv2

end iter

theorem pef_loop (B : Bytes) (hB : B.length < 2 ^ 62) :
    ∀ (n : Nat) (c : Rs.Cursor) (f : Gen.ZipFileData) (k : Nat),
      c.buf = B → f.extra_field = B → c.rest.length < n → c.rest.length ≤ k →
      loopRes (Rs.P.whileLoop (fun st => let (reader, file) := st; file)
          Gen.parse_extra_field.loop1_cond Gen.parse_extra_field.loop1_body n (c, f)) =
        some (parseExtraField k (dataOf f) c.rest) := by
  intro n
  induction n with
  | zero => intro c f k _ _ h; omega
  | succ n ih =>
    intro c f k hc hf hn hk
    rw [P.whileLoop_succ]
    generalize Rs.P.whileLoop (fun st => let (reader, file) := st; file)
      Gen.parse_extra_field.loop1_cond Gen.parse_extra_field.loop1_body n = W at ih ⊢
    have hlen : (Rs.len f.extra_field).toNat = B.length := by
      rw [hf, Rs.len, UInt64.toNat_ofNat']; exact Nat.mod_eq_of_lt (by omega)
    have hcond : Gen.parse_extra_field.loop1_cond (c, f) =
        pure (decide (Rs.as' UInt64 c.pos < Rs.len f.extra_field)) := rfl
    rw [hcond]
    by_cases hpos : c.pos.toNat < B.length
    · have hcd : decide (Rs.as' UInt64 c.pos < Rs.len f.extra_field) = true := by
        simp only [Rs.as', Rs.As.cast, id, UInt64.lt_iff_toNat_lt, hlen, decide_eq_true_eq]; exact hpos
      have hrl : c.rest.length = B.length - c.pos.toNat := by
        simp only [Rs.Cursor.rest, hc, List.length_drop]
      obtain ⟨k, rfl⟩ : ∃ k', k = k' + 1 := ⟨k - 1, by omega⟩
      have hne : c.rest.isEmpty = false := by
        cases hr : c.rest with
        | nil => rw [hr] at hrl; simp only [List.length_nil] at hrl; omega
        | cons a r => rfl
      rw [hcd]
      simp only [pure_bind, ↓reduceIte]
      have hp63 : c.pos.toNat < 2 ^ 62 := by omega
      cases h1 : rd16 c.rest with
      | none =>
        have hm : parseExtraField (k + 1) (dataOf f) c.rest = (dataOf f, some (.io .unexpectedEof)) := by
          rw [parseExtraField]; simp only [hne, h1, Bool.false_eq_true, ↓reduceIte]
        rw [hm]
        have hb : Gen.parse_extra_field.loop1_body (c, f) =
            Gen.parse_extra_field.loop1_body (adv c 0, f) := by rw [adv_zero]
        rw [hb]
        unfold Gen.parse_extra_field.loop1_body
        simp (disch := omega) only [ofExcept_read_u16, ok_bind, error_bind, List.drop_zero, h1]
        rfl
      | some p1 =>
        obtain ⟨kind, r1⟩ := p1
        have e1 := rd16_some h1
        subst e1
        cases h2 : rd16 (c.rest.drop 2) with
        | none =>
          have hm : parseExtraField (k + 1) (dataOf f) c.rest = (dataOf f, some (.io .unexpectedEof)) := by
            rw [parseExtraField]; simp only [hne, h1, h2, Bool.false_eq_true, ↓reduceIte]
          rw [hm]
          have hb : Gen.parse_extra_field.loop1_body (c, f) =
              Gen.parse_extra_field.loop1_body (adv c 0, f) := by rw [adv_zero]
          rw [hb]
          unfold Gen.parse_extra_field.loop1_body
          simp (disch := omega) only [ofExcept_read_u16, ok_bind, error_bind, List.drop_zero, h1, h2,
            Nat.zero_add]
          rfl
        | some p2 =>
          obtain ⟨len, r2⟩ := p2
          have e2 := rd16_some h2
          simp only [List.drop_drop, Nat.reduceAdd] at e2
          subst e2
          have hb : Gen.parse_extra_field.loop1_body (c, f) =
              Gen.parse_extra_field.loop1_body (adv c 0, f) := by rw [adv_zero]
          rw [hb]
          by_cases hk1 : (kind == 1) = true
          · by_cases hb1 : ((dataOf f).uncompressedSize == ZIP64_BYTES_THR) = true
            · exact pef_iter_k1_t B hB n k W ih c f hc hf hpos hn hk _ (fun _ => rfl) kind len h1 h2 hk1 hb1
            · exact pef_iter_k1_f B hB n k W ih c f hc hf hpos hn hk _ (fun _ => rfl) kind len h1 h2 hk1 hb1
          · by_cases hk2 : (kind == 0x9901) = true
            · exact pef_iter_aes B hB n k W ih c f hc hf hpos hn hk _ (fun _ => rfl) kind len h1 h2 hk1 hk2
            · exact pef_iter_other B hB n k W ih c f hc hf hpos hn hk _ (fun _ => rfl) kind len h1 h2 hk1 hk2
    · have hcd : decide (Rs.as' UInt64 c.pos < Rs.len f.extra_field) = false := by
        simp only [Rs.as', Rs.As.cast, id, UInt64.lt_iff_toNat_lt, hlen, decide_eq_false_iff_not]; exact hpos
      have hr : c.rest = [] := by
        simp only [Rs.Cursor.rest, hc, List.drop_eq_nil_iff]; omega
      rw [hcd, hr]
      cases k <;> rfl

/-- Outcome of `parse_extra_field` as the model states it: the entry as the function leaves it
(whatever the outcome) and the error that ended the loop, if any; `none` = panic. -/
def pefRes (x : Option (Except Rs.ZipErr Unit) × Gen.ZipFileData) : Option (FileData × Option ZErr) :=
  match x with
  | (none, _) => none
  | (some (.ok _), s) => some (dataOf s, none)
  | (some (.error e), s) => some (dataOf s, some (zerrOf e))

/-- `parse_extra_field`: same final entry and same verdict as the model for every entry whose extra
field fits in memory, no panic; the generated loop fuel is adequate. -/
theorem tie_parse_extra_field (f : Gen.ZipFileData) (hlen : f.extra_field.length < 2 ^ 62) :
    pefRes (Rs.P.run (Gen.parse_extra_field f)) =
      some (parseExtraField (f.extra_field.length + 1) (dataOf f) f.extra_field) := by
  have hr : (Rs.Cursor.new f.extra_field).rest = f.extra_field := rfl
  have hl : (Rs.len f.extra_field).toNat = f.extra_field.length := by
    rw [Rs.len, UInt64.toNat_ofNat']; exact Nat.mod_eq_of_lt (by omega)
  have h0 : (Rs.as' UInt64 (Rs.Cursor.new f.extra_field).pos).toNat = 0 := rfl
  have key := pef_loop f.extra_field hlen
    ((Rs.len f.extra_field).toNat - (Rs.as' UInt64 (Rs.Cursor.new f.extra_field).pos).toNat + 2)
    (Rs.Cursor.new f.extra_field) f (f.extra_field.length + 1) rfl rfl
    (by rw [hl, h0, hr]; omega) (by rw [hr]; omega)
  rw [hr] at key
  unfold Gen.parse_extra_field
  simp only [bind_assoc, pure_bind]
  generalize Rs.P.whileLoop _ _ _ _ _ = r at key ⊢
  match r, key with
  | .ok (.done (c', s)), key => exact key
  | .ok (.ret _), key => cases key
  | .error ⟨none, _⟩, key => cases key
  | .error ⟨some e, s⟩, key => exact key


/-! ### `central_header_to_zip_file_inner` -/

theorem zerr_eq (e : Rs.ZipErr) : Rs.zerr e = zerrOf e := by
  cases e with
  | Io k => cases k <;> rfl
  | _ => rfl

/-- `read_exact` into a buffer of `n` bytes yields `n` bytes. -/
theorem M.readExact_bind_congr {β} (n : Nat) (k k' : Bytes → M β)
    (h : ∀ bs : Bytes, bs.length = n → k bs = k' bs) : (M.readExact n >>= k) = (M.readExact n >>= k') := by
  unfold M.readExact
  by_cases h0 : n = 0
  · simp only [h0, ↓reduceIte, pure_bind]
    exact h [] (by simp only [List.length_nil, h0])
  · simp only [h0, ↓reduceIte, bind_assoc]
    refine bind_congr fun r => ?_
    by_cases hr : r.length = n
    · simp only [hr, ↓reduceIte, pure_bind]; exact h r hr
    · simp only [hr, ↓reduceIte]
      by_cases hr0 : r.length = 0
      · simp only [hr0, ↓reduceIte, M.throw_bind]
      · simp only [hr0, ↓reduceIte, bind_assoc, M.throw_bind]

theorem from_u8_some (v : UInt8) :
    ∃ x, Gen.System.from_u8 v = some x ∧ Tie.Types.systemOf x = System.fromU8 v := by
  have h := Tie.Types.tie_system_from_u8 v
  cases hx : Gen.System.from_u8 v with
  | none => rw [hx] at h; cases h
  | some x =>
    rw [hx, Option.map_some] at h
    exact ⟨x, rfl, Option.some.inj h⟩

theorem from_msdos_some (d t : UInt16) :
    ∃ x, Gen.DateTime.from_msdos d t = some x ∧ Tie.DateTime.toModel x = DateTime.fromMsdos d t := by
  have h := Tie.DateTime.tie_from_msdos d t
  cases hx : Gen.DateTime.from_msdos d t with
  | none => rw [hx] at h; cases h
  | some x =>
    rw [hx, Option.map_some] at h
    exact ⟨x, rfl, Option.some.inj h⟩

theorem method_aes_eq (x : Gen.CompressionMethod) :
    (x == Gen.CompressionMethod.AES) = (Tie.Types.methodOf x == Method.aes) := by
  cases x <;> rfl

/-- The end of `central_header_to_zip_file_inner`: the AES consistency check and the shifted offset. -/
theorem chi_fin (s : Gen.ZipFileData) (ao : UInt64) :
    ((if (s.compression_method == Gen.CompressionMethod.AES && s.aes_mode.isNone) = true then
        (M.throw ZErr.invalidArchive : M Gen.ZipFileData)
      else (Rs.R.ok_or (Rs.Arith.add s.header_start ao) Rs.ZipErr.InvalidArchive >>= fun t27 =>
        pure { s with header_start := t27 })) >>= fun a => pure (dataOf a)) =
    (if ((dataOf s).method == Method.aes && (dataOf s).aesMode.isNone) = true then M.throw ZErr.invalidArchive
     else if (dataOf s).headerStart.toNat + ao.toNat ≥ 18446744073709551616 then M.throw ZErr.invalidArchive
     else pure { dataOf s with headerStart := UInt64.ofNat ((dataOf s).headerStart.toNat + ao.toNat) }) := by
  have hc : (s.compression_method == Gen.CompressionMethod.AES && s.aes_mode.isNone) =
      ((dataOf s).method == Method.aes && (dataOf s).aesMode.isNone) := by
    rw [method_aes_eq]
    simp only [dataOf, Option.isNone_map]
  rw [hc]
  by_cases h : ((dataOf s).method == Method.aes && (dataOf s).aesMode.isNone) = true
  · rw [if_pos h, if_pos h]; rfl
  · rw [if_neg h, if_neg h]
    have hh : (dataOf s).headerStart = s.header_start := rfl
    rw [hh]
    by_cases hov : s.header_start.toNat + ao.toNat < 18446744073709551616
    · obtain ⟨ea, va⟩ := add_some _ _ hov
      rw [ea, if_neg (by omega)]
      msimp
      have : UInt64.ofNat (s.header_start.toNat + ao.toNat) = s.header_start + ao := by
        apply UInt64.toNat_inj.mp
        rw [va, UInt64.toNat_ofNat']; omega
      rw [this]
      rfl
    · rw [add_none _ _ hov, if_pos (by omega)]
      rfl

theorem tie_central_header_inner (ao chs : UInt64) :
    dataOf <$> Gen.central_header_to_zip_file_inner ao chs =
      Model.centralHeaderInner ao.toNat chs.toNat := by
  unfold Gen.central_header_to_zip_file_inner Model.centralHeaderInner
  msimp [shl_1_11, shl_1_3, as_u16_u64_toNat]
  refine bind_congr fun vmb => bind_congr fun _ => bind_congr fun flags => bind_congr fun cm =>
    bind_congr fun t => bind_congr fun d => bind_congr fun crc => bind_congr fun csz =>
    bind_congr fun usz => bind_congr fun nlen => bind_congr fun xlen => bind_congr fun clen =>
    bind_congr fun _ => bind_congr fun _ => bind_congr fun attrs => bind_congr fun off =>
    bind_congr fun name => ?_
  refine M.readExact_bind_congr _ _ _ fun extra hextra => bind_congr fun comment => ?_
  have hshr : Rs.Arith.shr vmb 8 = some (vmb >>> 8) := rfl
  obtain ⟨sys, hsys, hsysm⟩ := from_u8_some (Rs.as' UInt8 (vmb >>> 8))
  obtain ⟨m, hm, hmm⟩ := from_u16_some cm
  obtain ⟨dt, hdt, hdtm⟩ := from_msdos_some d t
  have hlossy : ∀ raw, Rs.fromUtf8Lossy raw = Text.decodeToUtf8 true raw := fun _ => rfl
  have hcp : ∀ raw, Rs.fromCp437 raw = Text.decodeToUtf8 false raw := fun _ => rfl
  cases hutf : (flags &&& 2048 != 0) <;>
  simp only [hshr, hsys, hm, hdt, pure_bind, hlossy, hcp] <;>
  generalize hpe : parseExtraField _ _ _ = pe <;>
  generalize hG : Gen.ZipFileData.mk _ _ _ _ _ _ _ _ _ _ _ _ _ _ _ _ _ _ _ _ = G <;>
  (have hx16 := UInt16.toNat_lt xlen
   have hGx : G.extra_field = extra := by rw [← hG]
   have key := tie_parse_extra_field G (by rw [hGx, hextra]; omega)
   have hGd : parseExtraField (G.extra_field.length + 1) (dataOf G) G.extra_field = pe := by
     rw [← hpe, ← hG]
     simp only [dataOf, hsysm, hmm, hdtm, UInt64.ofNat_toNat]
     rfl
   rw [hGd] at key
   have hfin := chi_fin
   simp only [Rs.R.ok_or, Rs.zerr] at hfin
   generalize hrun : Rs.P.run (Gen.parse_extra_field G) = r at key
   simp only [Rs.R.runP, hrun]
   obtain ⟨o, s⟩ := r
   cases o with
   | none => cases key
   | some res =>
     cases res with
     | ok u =>
       simp only [pefRes, Option.some.injEq] at key
       subst key
       simp only [pure_bind]
       exact hfin s ao
     | error e =>
       simp only [pefRes, Option.some.injEq] at key
       subst key
       cases e with
       | Io k =>
         cases k <;> simp only [pure_bind, Rs.zerr, zerrOf] <;> exact hfin s ao
       | _ => simp only [pure_bind, Rs.zerr, zerrOf, M.throw_bind])

end ZipVerif.Tie.Parsers
