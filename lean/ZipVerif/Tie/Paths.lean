import ZipVerif.Gen.TypesPaths
import ZipVerif.Gen.ReadPaths
import ZipVerif.Tie.AesCtr
import ZipVerif.Model.Paths
import ZipVerif.Spec.Tree
import ZipVerif.Lemmas.Paths
import ZipVerif.Lemmas.Text
/-
Tie obligations for the path functions (types.rs `ZipFileData::enclosed_name`, read.rs `path_depth`; tier T6,
LAYER mode of rs2lean; helper t6l2; vocabulary `Basic/RsPath.lean`).  Both are regenerated from the source on
this run: the NUL test, the `for` loop over `path.components()` with its `match` (the `return None` on a prefix
or root component, `depth.checked_sub(1)?`, `depth += 1`), the final `Some(path)`; and the `fold` of `path_depth`
(`depth + 1`, `saturating_sub(1)`, `_ => depth`).

* `tie_enclosed_name`: on the UTF-8 bytes of a name `n`, `enclosed_name` = `Model.Paths.enclosedName n` (the name
  itself, or `None`).
* `tie_path_depth`: `path_depth` = `Spec.Tree.pathDepth` (the depth the deferred `chmod`s of `extract` are sorted by).

`Path::components()` is a NAMED PARAMETER of the generated code (`Rs.PathOps.components`); it is instantiated
with the model's `components` read through UTF-8 (`pathOps`, `components_encode`), which the exhaustive `paths`
correspondence stream validates against std.  The only fact about UTF-8 used: the byte 0 occurs only as the
character NUL (`zero_mem_encode`).  Hypothesis: the name is shorter than 2^64 - 1 characters (`usize` depth
counter versus `Nat`; a Rust string is shorter than 2^63 bytes).
-/

namespace ZipVerif.Tie.Paths
open ZipVerif ZipVerif.Spec ZipVerif.Model ZipVerif.Spec.Paths ZipVerif.Model.Paths ZipVerif.Tie.Layers ZipVerif.Tie.AesLayer ZipVerif.Tie.AesCtr

/-- a model component as a `std::path::Component` (the payload as the bytes of the `OsStr`) -/
def encComp : Comp → Rs.Component
  | .rootDir => .RootDir
  | .curDir => .CurDir
  | .parentDir => .ParentDir
  | .normal s => .Normal (utf8Encode s)

/-- the parameters `Path::components` / `PathBuf::push` of the generated code := the functions of
`Model/Paths.lean`, on the UTF-8 bytes of a name -/
@[instance_reducible] def pathOps : Rs.PathOps :=
  ⟨fun bs => match utf8Strict bs with
      | some n => (components n).map encComp
      | none => [],
   fun buf c => match utf8Strict buf, utf8Strict c with
      | some b, some x => utf8Encode (push b x)
      | _, _ => []⟩

theorem components_encode (n : Name) :
    @Rs.PathOps.components pathOps (utf8Encode n) = (components n).map encComp := by
  show (match utf8Strict (utf8Encode n) with
      | some n => (components n).map encComp
      | none => []) = _
  rw [strict_encode]

/-! ### `path_depth` -/

theorem foldM_depth (body : UInt64 → Rs.Component → Option UInt64)
    (hb : ∀ (d : Nat) (c : Comp), d + 1 < 2 ^ 64 → body (UInt64.ofNat d) (encComp c) = some (UInt64.ofNat (Spec.Tree.depthStep d c))) :
    ∀ (cs : List Comp) (d : Nat), d + cs.length < 2 ^ 64 →
      Rs.L.foldM (cs.map encComp) (UInt64.ofNat d) body = some (UInt64.ofNat (cs.foldl Spec.Tree.depthStep d)) := by
  intro cs
  induction cs with
  | nil => intro d _; rfl
  | cons c r ih =>
    intro d hd
    simp only [List.length_cons] at hd
    simp only [List.map_cons, Rs.L.foldM, hb d c (by omega), List.foldl_cons]
    apply ih
    have : Spec.Tree.depthStep d c ≤ d + 1 := by cases c <;> simp [Spec.Tree.depthStep] <;> omega
    omega

theorem tie_path_depth (n : Name) (hn : n.length + 1 < 2 ^ 64) :
    @Gen.path_depth pathOps (utf8Encode n) = some (UInt64.ofNat (Spec.Tree.pathDepth n)) := by
  unfold Gen.path_depth Spec.Tree.pathDepth
  simp only [Id.run, Rs.L.id_pure, components_encode]
  have hz : (0 : UInt64) = UInt64.ofNat 0 := rfl
  rw [hz, foldM_depth _ ?_ (components n) 0 (by have := components_length_le n; omega)]
  intro d c hd
  have h1 : (1 : UInt64) = UInt64.ofNat 1 := rfl
  cases c with
  | normal s =>
    simp only [encComp, h1, arith_add_ofNat (show d < 2 ^ 64 by omega) (show 1 < 2 ^ 64 by omega), hd, if_true]
    rfl
  | parentDir =>
    simp only [encComp, Rs.saturatingSub, h1, arith_sub_ofNat (show d < 2 ^ 64 by omega) (show 1 < 2 ^ 64 by omega)]
    by_cases h0 : 1 ≤ d
    · simp [h0, Spec.Tree.depthStep]
    · have : d = 0 := by omega
      subst this
      rfl
  | rootDir => rfl
  | curDir => rfl

/-! ### `enclosed_name` -/

theorem ofNat8_ne_zero {k : Nat} (h1 : 0 < k) (h2 : k < 256) : UInt8.ofNat k ≠ 0 := by
  intro h
  have := congrArg UInt8.toNat h
  rw [toNat_ofNat8 h2] at this
  simp at this
  omega

/-- in UTF-8 the byte 0 occurs only as the character NUL -/
theorem zero_mem_encodeChar (c : Char) : (0 : UInt8) ∈ utf8EncodeChar c ↔ c = '\x00' := by
  have hv : c.toNat < 0x110000 := by
    have := c.valid
    rcases this with h | h
    · have : c.toNat < 0xd800 := h; omega
    · exact h.2
  unfold utf8EncodeChar
  simp only []
  by_cases h1 : c.toNat < 0x80
  · simp only [h1, if_true, List.mem_singleton]
    constructor
    · intro h
      apply char_eq_of_toNat
      have := congrArg UInt8.toNat h
      rw [toNat_ofNat8 (by omega)] at this
      simpa using this.symm
    · intro h; subst h; rfl
  · have hne : c ≠ '\x00' := fun h => h1 (by subst h; decide)
    simp only [h1, if_false, hne, iff_false]
    split
    · simp only [List.mem_cons, List.not_mem_nil, or_false, not_or]
      exact ⟨fun h => ofNat8_ne_zero (by omega) (by omega) h.symm, fun h => ofNat8_ne_zero (by omega) (by omega) h.symm⟩
    · split
      · simp only [List.mem_cons, List.not_mem_nil, or_false, not_or]
        exact ⟨fun h => ofNat8_ne_zero (by omega) (by omega) h.symm, fun h => ofNat8_ne_zero (by omega) (by omega) h.symm,
          fun h => ofNat8_ne_zero (by omega) (by omega) h.symm⟩
      · simp only [List.mem_cons, List.not_mem_nil, or_false, not_or]
        exact ⟨fun h => ofNat8_ne_zero (by omega) (by omega) h.symm, fun h => ofNat8_ne_zero (by omega) (by omega) h.symm,
          fun h => ofNat8_ne_zero (by omega) (by omega) h.symm, fun h => ofNat8_ne_zero (by omega) (by omega) h.symm⟩

theorem zero_mem_encode (n : Name) : (0 : UInt8) ∈ utf8Encode n ↔ '\x00' ∈ n := by
  induction n with
  | nil => simp [utf8Encode]
  | cons c r ih =>
    simp only [utf8Encode, List.mem_append, zero_mem_encodeChar, ih, List.mem_cons]
    constructor
    · rintro (h | h)
      · exact Or.inl h.symm
      · exact Or.inr h
    · rintro (h | h)
      · exact Or.inl h.symm
      · exact Or.inr h

theorem containsAscii_nul (n : Name) : Rs.Str.containsAscii (utf8Encode n) 0 = decide ('\x00' ∈ n) := by
  unfold Rs.Str.containsAscii
  have h0 : UInt8.ofNat 0 = 0 := rfl
  rw [h0]
  by_cases h : '\x00' ∈ n
  · simp [h, (zero_mem_encode n).mpr h]
  · have := mt (zero_mem_encode n).mp h
    simp [h, this]

/-- what one pass through the body of the loop of `enclosed_name` has to do -/
def stepOf (d : Nat) : Comp → Rs.Step UInt64 (Option Bytes)
  | .rootDir => .ret none
  | .parentDir => if d = 0 then .ret none else .next (UInt64.ofNat (d - 1))
  | .normal _ => .next (UInt64.ofNat (d + 1))
  | .curDir => .next (UInt64.ofNat d)

theorem forEach_walk (body : UInt64 → Rs.Component → Option (Rs.Step UInt64 (Option Bytes)))
    (hb : ∀ (d : Nat) (c : Comp), d + 1 < 2 ^ 64 → body (UInt64.ofNat d) (encComp c) = some (stepOf d c)) :
    ∀ (cs : List Comp) (d : Nat), d + cs.length < 2 ^ 64 →
      Rs.L.forEach (cs.map encComp) (UInt64.ofNat d) body =
        match walk cs d with
        | some d' => some (.done (UInt64.ofNat d'))
        | none => some (.ret none) := by
  intro cs
  induction cs with
  | nil => intro d _; rfl
  | cons c r ih =>
    intro d hd
    simp only [List.length_cons] at hd
    simp only [List.map_cons, Rs.L.forEach, hb d c (by omega)]
    cases c with
    | rootDir => simp [stepOf, walk]
    | curDir => simp only [stepOf, walk]; exact ih d (by omega)
    | normal s => simp only [stepOf, walk]; exact ih (d + 1) (by omega)
    | parentDir =>
      by_cases h0 : d = 0
      · simp [stepOf, walk, h0]
      · simp only [stepOf, walk, h0, if_false]; exact ih (d - 1) (by omega)

/-- **`ZipFileData::enclosed_name` is the model's `enclosedName`** (on the UTF-8 bytes of the name): `None` for
a NUL, a root (or prefix) component or a `..` that climbs above the start; the name itself otherwise. -/
theorem tie_enclosed_name (data : Gen.ZipFileData) (n : Name) (hname : data.file_name = utf8Encode n)
    (hn : n.length + 1 < 2 ^ 64) :
    @Gen.ZipFileData.enclosed_name pathOps data = some ((enclosedName n).map utf8Encode) := by
  unfold Gen.ZipFileData.enclosed_name enclosedName
  simp only [Id.run, Rs.L.id_pure, hname, containsAscii_nul, components_encode]
  by_cases h0 : '\x00' ∈ n
  · simp [h0]
  · simp only [h0, decide_false, Bool.false_eq_true, if_false]
    have hz : (0 : UInt64) = UInt64.ofNat 0 := rfl
    rw [hz, forEach_walk _ ?_ (components n) 0 (by have := components_length_le n; omega)]
    · cases walk (components n) 0 <;> rfl
    · intro d c hd
      have h1 : (1 : UInt64) = UInt64.ofNat 1 := rfl
      cases c with
      | rootDir => rfl
      | curDir => rfl
      | normal s =>
        simp only [encComp, h1, arith_add_ofNat (show d < 2 ^ 64 by omega) (show 1 < 2 ^ 64 by omega), hd, if_true]
        rfl
      | parentDir =>
        simp only [encComp, h1, arith_sub_ofNat (show d < 2 ^ 64 by omega) (show 1 < 2 ^ 64 by omega)]
        by_cases h0 : d = 0
        · subst h0; rfl
        · have : 1 ≤ d := by omega
          simp [this, stepOf, h0]

end ZipVerif.Tie.Paths
