import ZipVerif.Gen.RawCopy
import ZipVerif.Tie.WriterSM
import ZipVerif.Model.RawCopyChunks
import ZipVerif.Lemmas.RawCopyChunks
/-
Tie obligations for RAW COPY: `ZipWriter::raw_copy_file_rename` / `raw_copy_file` of src/write.rs
(translator: helper t6w4, `rs2lean/src/t6w4.rs`; vocabulary `Basic/RsC.lean`; generated `Gen/ZipFileAcc.lean`
- the accessors of `impl ZipFile` - and `Gen/RawCopy.lean` - the `FileOptions` builders and the two methods).

  sim_io_copy                  `io::copy(raw_reader, self)` (std's copy loop over the TRANSLATED `write`) ~
                               `Model.writeDataList chunks`: one `writeData` per chunk the reader delivers
  sim_raw_copy_file_rename     Gen.ZipWriter.raw_copy_file_rename ~ Model.rawCopyChunks
                               (options built from the source entry: method, time, the `large_file` DECISION
                               `compressed_size().max(size()) >= ZIP64_BYTES_THR`, the whole `unix_mode()` as
                               permissions (D15), no level, no encryption - whatever the wall clock `now` is;
                               the raw values crc32 / compressed / uncompressed size; `start_entry`; both flags;
                               the copy)
  sim_raw_copy_file            Gen.ZipWriter.raw_copy_file ~ Model.rawCopyChunks under the source entry's name
  tie_file_options_default / tie_file_options_builders   `FileOptions::default()` and the three builders used
  sim_raw_copy_one             … ~ Model.rawCopy when the reader delivers its bytes in ONE chunk

`Sim absR P x y` (Tie/WriterSM.lean): same I/O calls, outcome, value, final writer state (`absW`) and device for
every device and EVERY fault index, except where `x` stops with the u64-position panic `OVF`.

The model's `rawCopy` (Model/Writer.lean) hands the whole raw stream to ONE `writeData` (one sink call); the
source copies through an 8 KiB buffer, one `write_all` per chunk.  Under an injected fault the two differ (a
fault in the middle of the copy leaves a prefix of the stream in the sink and in the statistics), so the exact
obligation is stated against `Model.rawCopyChunks` (Model/RawCopyChunks.lean: the same function with one
`writeData` per chunk); `Lemmas/RawCopyChunks.lean` relates the two: `rawCopy = rawCopyChunks [raw]`, and on a
fault-free sink `rawCopyChunks chunks` and `rawCopy chunks.flatten` end with the same outcome, writer state,
sink contents and position (`rawCopyChunks_split`; they differ in the number of I/O calls only).

Hypotheses (the model's idealisations, as for the other writer ties): the open entry's u64-fit conditions of
`sim_start_entry`; `name.len() < 2^64`; the source entry's time has a DOS date; `ext.accept b = b.length`
(inherited from `tie_write`; on this path the writer is a plain storer, which hands the buffer to the sink);
the reader DELIVERS `chunks` (`Delivers`: its successive `read` results are the non-empty chunks, each at
most the 8 KiB of the buffer, possibly with `Interrupted` failures in between - retried by `io::copy` -, then end
of data); the bytes delivered fit the `u64` byte counter.  A reader that fails with another error kind, panics,
or overruns the buffer is translated (`Rs.C.io_copy`) but has no model counterpart (review finding F2 of session 3: a raw copy from a short or failing source; NOT the later D21 = pre-allocation repair).

TRUSTED VOCABULARY added (Basic/RsC.lean): `mut file: ZipFile` by value = its `ZipFileData` + the results of
its raw reader's successive `read` calls; `file.get_raw_reader()` on a handle that has not been read from;
`io::copy` = std's generic `stack_buffer_copy` loop (8 KiB, `Interrupted` retried, `write_all` per chunk);
`FileOptions::default()`'s clock expression is the parameter `now`.
-/
set_option linter.unusedSimpArgs false
set_option linter.unusedSectionVars false
set_option linter.unusedVariables false

namespace ZipVerif.Tie.WriterSM
open ZipVerif ZipVerif.Model ZipVerif.Tie.SpecRecords ZipVerif.Tie.Records ZipVerif.Tie.Parsers

/-! ### model facts carried to the concrete run -/

/-- A fact `Q` about every value the MODEL side returns holds for the abstraction of every value the
translated side returns. -/
theorem Sim.post_of_model {α α'} {φ : α → α'} {P : α → Prop} {Q : α' → Prop} {X : M α} {Y : M α'}
    (h : Sim φ P X Y) (hY : Post Y Q) : Sim φ (fun a => P a ∧ Q (φ a)) X Y := by
  intro fa d
  rcases h fa d with h | ⟨he, hp⟩
  · exact Or.inl h
  · right
    refine ⟨he, fun a d' hx => ⟨hp a d' hx, ?_⟩⟩
    simp only [erase, map_apply, hx] at he
    rcases hy : Y fa d with ⟨o, dy⟩
    rw [hy] at he
    simp only [Prod.mk.injEq] at he
    obtain ⟨h3, h4⟩ := he
    cases o with
    | ok b =>
      simp only [eraseOut, Out.ok.injEq] at h3
      subst h3
      exact hY fa d _ dy hy
    | err e => simp only [eraseOut] at h3; cases h3
    | panic s => simp only [eraseOut] at h3; cases h3

/-- a callee in tail position of the model side -/
theorem Sim.bind_tail {α1 α1' α} {φ1 : α1 → α1'} {P1 : α1 → Prop} {φ : α → α1'} {P : α → Prop}
    {X : M α1} {Y : M α1'} {F : α1 → M α}
    (hX : Sim φ1 P1 X Y) (hF : ∀ a, P1 a → Sim φ P (F a) (pure (φ1 a))) : Sim φ P (X >>= F) Y := by
  have := Sim.bind hX (G := pure) hF
  rwa [bind_pure] at this

theorem Post.attempt_bind {α β} {Q : β → Prop} (m : M α) {f : Except ZErr α → M β} (h : ∀ r, Post (f r) Q) :
    Post (M.attempt m >>= f) Q := Post.bind h

/-- what one successful `writeData` leaves of the writer state -/
def WDPost (s : WState) (buf : Bytes) (r : Except ZErr Unit × WState) : Prop :=
  r.1 = .ok () → r.2.files.length = s.files.length ∧ r.2.writingToFile = s.writingToFile ∧
    r.2.statsBytes ≤ s.statsBytes + buf.length

theorem setLast_length (l : List FileData) (x : FileData) : (Model.setLast l x).length = l.length := by
  unfold Model.setLast
  rcases h : l.reverse with _ | ⟨y, ys⟩
  · have : l = [] := by simpa using h
    subst this; rfl
  · have hl : l.length = (y :: ys).length := by rw [← h, List.length_reverse]
    simp only [List.length_reverse, List.length_cons] at hl ⊢
    omega

syntax "acct" : tactic
macro_rules
  | `(tactic| acct) => `(tactic| (
      (try dsimp only)
      split
      · exact Post.panic _
      · split
        · exact Post.pure (fun h => by cases h)
        · exact Post.pure (fun _ => ⟨rfl, rfl, by dsimp only; omega⟩)))

theorem writeData_post (buf : Bytes) (s : WState) : Post (writeData buf s) (WDPost s buf) := by
  unfold writeData
  split
  · exact Post.pure (fun _ => ⟨rfl, rfl, by dsimp only; omega⟩)
  split
  · exact Post.pure (fun h => by cases h)
  split
  · exact Post.pure (fun h => by cases h)
  · split
    · split
      · exact Post.panic _
      · exact Post.pure (fun _ => ⟨by dsimp only; rw [setLast_length], rfl, by dsimp only; omega⟩)
    · dsimp only
      split
      · unfold Model.io
        apply Post.bind
        intro r
        cases r with
        | error e => exact Post.pure (fun h => by cases h)
        | ok u => acct
      · acct
      · acct
      · exact Post.pure (fun h => by cases h)

/-! ### `io::copy` over the translated `write` -/

/-- The reader's successive `read` results deliver exactly `chunks`: non-empty chunks of at most the buffer
size, `Interrupted` failures (retried by `io::copy`) anywhere in between, then end of data (`Ok(0)`, or the
end of the listed results). -/
inductive Delivers : List Rs.RdRes → List Bytes → Prop
  | nil : Delivers [] []
  | eof (rest : List Rs.RdRes) : Delivers (.ok [] :: rest) []
  | chunk (c : Bytes) (rest : List Rs.RdRes) (cs : List Bytes) : c ≠ [] → c.length ≤ 8192 →
      Delivers rest cs → Delivers (.ok c :: rest) (c :: cs)
  | intr (rest : List Rs.RdRes) (cs : List Bytes) : Delivers rest cs → Delivers (.err .interrupted :: rest) cs

/-- outcome (the byte count is dropped by the caller's `?;`) and final state of the copy -/
def absRu (r : Except ZErr UInt64 × Gen.ZipWriter) : Except ZErr Unit × WState := (r.1.map fun _ => (), absW r.2)

theorem sim_write_all_post (ext : Rs.S.Ext) (g : Gen.ZipWriter) (buf : Bytes)
    (hlen : buf.length < 9223372036854775808)
    (hbytes : g.stats.bytes_written.toNat + buf.length < 18446744073709551616)
    (hinv : g.writing_to_file = true → g.files ≠ [])
    (hacc : ∀ b, ext.accept b = b.length) :
    Sim absR (fun p => p.1 = .ok () → p.2.files.length = g.files.length ∧
        p.2.writing_to_file = g.writing_to_file ∧
        p.2.stats.bytes_written.toNat ≤ g.stats.bytes_written.toNat + buf.length)
      (Rs.S.run (Rs.S.write_all (Gen.ZipWriter.write ext) (buf.length + 1) g buf))
      (writeData buf (absW g)) := by
  refine Sim.mono (Sim.post_of_model (sim_write_all ext g buf hlen hbytes hinv hacc) (writeData_post buf (absW g))) ?_
  intro p hp hok
  obtain ⟨h1, h2, h3⟩ := hp.2 hok
  simp only [absR, absW, List.length_map] at h1 h2 h3
  exact ⟨h1, h2, h3⟩

theorem sim_io_copy (ext : Rs.S.Ext) (hacc : ∀ b, ext.accept b = b.length) :
    ∀ (script : List Rs.RdRes) (chunks : List Bytes), Delivers script chunks →
    ∀ (g : Gen.ZipWriter) (len : UInt64),
      (g.writing_to_file = true → g.files ≠ []) →
      g.stats.bytes_written.toNat + chunks.flatten.length < 18446744073709551616 →
      Sim absRu (fun _ => True)
        (Rs.S.run (Rs.C.io_copy (Gen.ZipWriter.write ext) g script len))
        (writeDataList chunks (absW g)) := by
  intro script chunks hd
  induction hd with
  | nil =>
    intro g len _ _
    simp only [Rs.C.io_copy, writeDataList]
    ssimp []
    refine Sim.leaf ?_ trivial
    simp only [absRu, Except.map]
  | eof rest =>
    intro g len _ _
    simp only [Rs.C.io_copy, writeDataList, List.length_nil, Rs.C.DEFAULT_BUF_SIZE, List.isEmpty_nil]
    ssimp [show ¬ (0 > 8192) by omega]
    refine Sim.leaf ?_ trivial
    simp only [absRu, Except.map]
  | chunk c rest cs hne hle _ ih =>
    intro g len hinv hbytes
    have hfl : (c :: cs).flatten.length = c.length + cs.flatten.length := by
      simp only [List.flatten_cons, List.length_append]
    rw [hfl] at hbytes
    have hemp : c.isEmpty = false := by cases c <;> simp_all
    simp only [Rs.C.io_copy, writeDataList, Rs.C.DEFAULT_BUF_SIZE]
    ssimp [show ¬ (c.length > 8192) by omega, hemp]
    rw [toM_bind_run (Rs.S.write_all (Gen.ZipWriter.write ext) (c.length + 1) g c)]
    refine Sim.bind (sim_write_all_post ext g c (by omega) (by omega) hinv hacc) ?_
    intro p hp
    obtain ⟨r, g2⟩ := p
    cases r with
    | error e =>
      ssimp [absR]
      refine Sim.leaf ?_ trivial
      simp only [absRu, Except.map]
    | ok u =>
      obtain ⟨h1, h2, h3⟩ := hp rfl
      have h1' : g2.files.length = g.files.length := h1
      have h2' : g2.writing_to_file = g.writing_to_file := h2
      have h3' : g2.stats.bytes_written.toNat ≤ g.stats.bytes_written.toNat + c.length := h3
      ssimp [absR]
      refine ih g2 _ ?_ (by omega)
      intro hw
      rw [h2'] at hw
      have := hinv hw
      intro hnil
      rw [hnil] at h1'
      apply this
      exact List.eq_nil_of_length_eq_zero (by simpa using h1'.symm)
  | intr rest cs _ ih =>
    intro g len hinv hbytes
    simp only [Rs.C.io_copy, ↓reduceIte]
    exact ih g len hinv hbytes

/-! ### `raw_copy_file_rename`, `raw_copy_file` -/

/-- `FileOptions::default()` (features deflate, time): Deflated, default level, the wall clock, no permissions,
not a large file, no encryption -/
theorem tie_file_options_default (now : Gen.DateTime) :
    optOf (Gen.FileOptionsB.default now) =
      { method := .deflated, level := none, time := Tie.DateTime.toModel now, permissions := none,
        largeFile := false, encryptWith := none } := rfl

/-- the three builders raw copy uses set their own field and nothing else -/
theorem tie_file_options_builders (o : Gen.FileOptions) (m : Gen.CompressionMethod) (t : Gen.DateTime) (b : Bool) :
    optOf (Gen.FileOptionsB.compression_method o m) = { optOf o with method := Tie.Types.methodOf m } ∧
    optOf (Gen.FileOptionsB.last_modified_time o t) = { optOf o with time := Tie.DateTime.toModel t } ∧
    optOf (Gen.FileOptionsB.large_file o b) = { optOf o with largeFile := b } := ⟨rfl, rfl, rfl⟩

/-- the `large_file` decision of the source, in the model's words -/
theorem big_eq (cs us : UInt64) :
    decide (max cs us ≥ Gen.ZIP64_BYTES_THR) = decide ((if cs ≥ us then cs else us) ≥ Model.ZIP64_BYTES_THR) := by
  have e : Gen.ZIP64_BYTES_THR = Model.ZIP64_BYTES_THR := rfl
  rw [e]
  by_cases h : cs ≤ us
  · rw [show max cs us = us from if_pos h]
    by_cases h2 : cs ≥ us
    · have : cs = us := by
        rw [← UInt64.toNat_inj]
        simp only [UInt64.le_iff_toNat_le, ge_iff_le] at h h2
        omega
      rw [if_pos h2, this]
    · rw [if_neg h2]
  · rw [show max cs us = cs from if_neg h]
    have h2 : cs ≥ us := by
      simp only [UInt64.le_iff_toNat_le, ge_iff_le] at h ⊢
      omega
    rw [if_pos h2]

theorem sim_raw_copy_file_rename (ext : Rs.S.Ext) (now : Gen.DateTime) (g : Gen.ZipWriter)
    (file : Rs.C.ZipFile Gen.ZipFileData) (name : Bytes) (chunks : List Bytes)
    (hf : ∀ f, g.files.getLast? = some f →
      f.extra_field.length ≤ 9223372036854775807 ∧
      f.data_start.toNat + f.extra_field.length < 18446744073709551616 ∧
      f.header_start.toNat + 34 + f.file_name.length < 18446744073709551616)
    (hname : name.length < 18446744073709551616)
    (htime : (Tie.DateTime.toModel file.data.last_modified_time).datepart ≠ none)
    (hacc : ∀ b, ext.accept b = b.length)
    (hraw : Delivers file.raw chunks)
    (htotal : chunks.flatten.length < 18446744073709551616) :
    Sim absR (fun _ => True) (Rs.S.run (Gen.ZipWriter.raw_copy_file_rename ext now g file name))
      (rawCopyChunks ext.toWExt (dataOf file.data) chunks name (absW g)) := by
  have key : ∀ (o' : Gen.FileOptions), o'.last_modified_time = file.data.last_modified_time →
      optOf o' = rawCopyOptions (dataOf file.data) →
      Sim absR (fun _ => True)
        (Rs.S.run (do
          let (t2, t3) ← Gen.ZipWriter.start_entry ext g name o'
            (some ({ crc32 := file.data.crc32, compressed_size := file.data.compressed_size,
                     uncompressed_size := file.data.uncompressed_size } : Gen.ZipRawValues))
          let (t4, t5) ← Rs.C.io_copy (Gen.ZipWriter.write ext)
            { t3 with writing_to_file := true, writing_raw := true } file.raw 0
          pure ((), t5)))
        (rawCopyChunks ext.toWExt (dataOf file.data) chunks name (absW g)) := by
    intro o' ht ho
    unfold rawCopyChunks
    rw [← ho]
    ssimp []
    rw [toM_bind_run (Gen.ZipWriter.start_entry ext g name o' _)]
    refine Sim.bind (sim_start_entry ext g name o' _ hf hname (by rw [ht]; exact htime)) ?_
    intro p hp
    obtain ⟨r, g2⟩ := p
    cases r with
    | error e =>
      ssimp [absR]
      refine Sim.leaf ?_ trivial
      simp only [absR]
    | ok u =>
      obtain ⟨hne, hb0⟩ := hp rfl
      ssimp [absR]
      rw [toM_bind_run (Rs.C.io_copy (Gen.ZipWriter.write ext)
        { g2 with writing_to_file := true, writing_raw := true } file.raw 0)]
      have hw := sim_io_copy ext hacc file.raw chunks hraw { g2 with writing_to_file := true, writing_raw := true } 0
        (fun _ => hne)
        (by show g2.stats.bytes_written.toNat + chunks.flatten.length < 18446744073709551616
            rw [hb0]
            have e0 : (0 : UInt64).toNat = 0 := by decide
            rw [e0]; omega)
      refine Sim.bind_tail hw ?_
      intro q _
      obtain ⟨r2, g3⟩ := q
      cases r2 with
      | error e =>
        ssimp [absRu, Except.map]
        exact Sim.leaf rfl trivial
      | ok n =>
        ssimp [absRu, Except.map]
        exact Sim.leaf rfl trivial
  have hum : Gen.ZipFileAcc.unix_mode file = some (dataOf file.data).unixMode :=
    Tie.Types.tie_unix_mode file.data (dataOf file.data) (view_dataOf file.data).1
  have hbig := big_eq file.data.compressed_size file.data.uncompressed_size
  unfold Gen.ZipWriter.raw_copy_file_rename
  simp only [hum, S.lift_some_bind, Rs.C.get_raw_reader, Gen.ZipFileAcc.crc32, Gen.ZipFileAcc.compressed_size,
    Gen.ZipFileAcc.size, Gen.ZipFileAcc.last_modified, Gen.ZipFileAcc.compression,
    Gen.FileOptionsB.compression_method, Gen.FileOptionsB.last_modified_time, Gen.FileOptionsB.large_file,
    Gen.FileOptionsB.default]
  cases hu : (dataOf file.data).unixMode with
  | none =>
    have := key { compression_method := file.data.compression_method, compression_level := none,
                  last_modified_time := file.data.last_modified_time, permissions := none,
                  large_file := decide (max file.data.compressed_size file.data.uncompressed_size ≥ Gen.ZIP64_BYTES_THR),
                  encrypt_with := none } rfl (by simp only [optOf, rawCopyOptions, hu, hbig, Option.map]; rfl)
    simp only [S.pure_bind_s]
    exact this
  | some mode =>
    have := key { compression_method := file.data.compression_method, compression_level := none,
                  last_modified_time := file.data.last_modified_time, permissions := some mode,
                  large_file := decide (max file.data.compressed_size file.data.uncompressed_size ≥ Gen.ZIP64_BYTES_THR),
                  encrypt_with := none } rfl (by simp only [optOf, rawCopyOptions, hu, hbig, Option.map]; rfl)
    simp only [S.pure_bind_s]
    exact this

theorem sim_raw_copy_file (ext : Rs.S.Ext) (now : Gen.DateTime) (g : Gen.ZipWriter)
    (file : Rs.C.ZipFile Gen.ZipFileData) (chunks : List Bytes)
    (hf : ∀ f, g.files.getLast? = some f →
      f.extra_field.length ≤ 9223372036854775807 ∧
      f.data_start.toNat + f.extra_field.length < 18446744073709551616 ∧
      f.header_start.toNat + 34 + f.file_name.length < 18446744073709551616)
    (hname : file.data.file_name.length < 18446744073709551616)
    (htime : (Tie.DateTime.toModel file.data.last_modified_time).datepart ≠ none)
    (hacc : ∀ b, ext.accept b = b.length)
    (hraw : Delivers file.raw chunks)
    (htotal : chunks.flatten.length < 18446744073709551616) :
    Sim absR (fun _ => True) (Rs.S.run (Gen.ZipWriter.raw_copy_file ext now g file))
      (rawCopyChunks ext.toWExt (dataOf file.data) chunks (dataOf file.data).fileName (absW g)) := by
  have h := sim_raw_copy_file_rename ext now g file file.data.file_name chunks hf hname htime hacc hraw htotal
  have e : Rs.S.run (Gen.ZipWriter.raw_copy_file ext now g file) =
      Rs.S.run (Gen.ZipWriter.raw_copy_file_rename ext now g file file.data.file_name) := by
    unfold Gen.ZipWriter.raw_copy_file
    simp only [Gen.ZipFileAcc.name, Rs.S.run, S.toM_bind, S.toM_pure, bind_assoc]
    refine bind_congr fun r => ?_
    cases r with
    | ok p => obtain ⟨a, s⟩ := p; simp only [pure_bind, S.toM_pure]
    | error p => obtain ⟨e, s⟩ := p; simp only [pure_bind]
  rw [e]
  exact h

theorem Delivers.head_le {scr : List Rs.RdRes} {c : Bytes} {cs : List Bytes} (h : Delivers scr (c :: cs)) :
    c.length ≤ 8192 := by
  generalize hcs : c :: cs = l at h
  induction h with
  | nil => cases hcs
  | eof => cases hcs
  | chunk c' rest cs' hne hle _ _ => cases hcs; exact hle
  | intr rest cs' _ ih => exact ih hcs

/-- a reader that delivers the entry's bytes in ONE read (an entry of at most 8 KiB): the model's `rawCopy`
itself, for every device and every fault index -/
theorem sim_raw_copy_one (ext : Rs.S.Ext) (now : Gen.DateTime) (g : Gen.ZipWriter)
    (file : Rs.C.ZipFile Gen.ZipFileData) (name raw : Bytes)
    (hf : ∀ f, g.files.getLast? = some f →
      f.extra_field.length ≤ 9223372036854775807 ∧
      f.data_start.toNat + f.extra_field.length < 18446744073709551616 ∧
      f.header_start.toNat + 34 + f.file_name.length < 18446744073709551616)
    (hname : name.length < 18446744073709551616)
    (htime : (Tie.DateTime.toModel file.data.last_modified_time).datepart ≠ none)
    (hacc : ∀ b, ext.accept b = b.length)
    (hraw : Delivers file.raw [raw]) :
    Sim absR (fun _ => True) (Rs.S.run (Gen.ZipWriter.raw_copy_file_rename ext now g file name))
      (rawCopy ext.toWExt (dataOf file.data) raw name (absW g)) := by
  rw [rawCopy_eq_chunks]
  refine sim_raw_copy_file_rename ext now g file name [raw] hf hname htime hacc hraw ?_
  have := hraw.head_le
  simp only [List.flatten_cons, List.flatten_nil, List.append_nil]
  omega

/-- **The chunking is invisible on a fault-free sink** (`Lemmas/RawCopyChunks.lean`, restated here so that the
statement is pinned with the tie): `rawCopyChunks chunks` - what the translated method is tied to - and
`rawCopy chunks.flatten` - what C02 / C12 / C14 are proved about - end with the same outcome, the same writer
state, the same sink contents and position, for every chunking of a raw stream not longer than the entry's
`compressed_size` (the raw reader is an `io::Take` with that limit; with the `large_file` decision of the
source this excludes the 4 GiB refusal). -/
theorem raw_copy_chunking_invisible (ext : WExt) (src : FileData) (chunks : List Bytes) (name : Bytes) (s : WState)
    (hI : Inv s) (ho : TimeOk src.time) (hne : ∀ c ∈ chunks, c ≠ [])
    (hlen : chunks.flatten.length ≤ src.compressedSize.toNat) (d : Dev) :
    ∃ o d1 d2, rawCopyChunks ext src chunks name s none d = (o, d1) ∧
      rawCopy ext src chunks.flatten name s none d = (o, d2) ∧ d1.buf = d2.buf ∧ d1.pos = d2.pos :=
  rawCopyChunks_split ext src chunks name s hI ho hne hlen d

/-- non-vacuity: a reader script with an `Interrupted` failure between two chunks -/
example : Delivers [.ok [1, 2, 3], .err .interrupted, .ok [4], .ok []] [[1, 2, 3], [4]] :=
  .chunk _ _ _ (by simp) (by simp) (.intr _ _ (.chunk _ _ _ (by simp) (by simp) (.eof _)))

end ZipVerif.Tie.WriterSM
