import ZipVerif.Tie.WriteAcc
/-
`raw_copy_file_rename` for EVERY accept function of the encoders (helper t6w5): the ties of `Tie/RawCopy.lean`
(helper t6w4) without `ext.accept b = b.length`.

During a raw copy the compressor stack is a plain storer (`start_entry` with `encrypt_with = None` leaves
`Storer(Unencrypted)`: the model's `StartEntryPost`, carried to the translated object), every `write` keeps it one
(`writeData_storer`), and a storer hands the buffer to the sink without consulting an encoder - so
`Tie/WriteAcc.sim_write_all_acc` applies to every chunk with its side condition `NoRefusal` vacuous.

  sim_io_copy_acc, sim_raw_copy_file_rename_acc, sim_raw_copy_one_acc    as in `Tie/RawCopy.lean`, under `AccOk`
       (and `Inv (absW g)`, `TimeOk` of the source entry - the hypotheses of the model's `startEntry_sat`)
  raw_copy_any_chunking    FAULT-FREE sink, ANY chunking the raw reader delivers (a stream not longer than the
       entry's `compressed_size`): the translated `raw_copy_file_rename` has the outcome and final writer state of
       the model's `rawCopy` of the whole stream (`Call.rawCopy`), and leaves the same bytes in the sink at the same
       position (`Lemmas/RawCopyChunks.rawCopyChunks_split`).  The two devices differ in the I/O call COUNTER (one
       sink write per chunk against one), which is why this is not a covered call of `grun_sim` (whose conclusion
       is equality of devices; under a fault index the counter matters) but of the fault-free script tie
       `Tie/WriterComposeView.vrun_sim`.
-/
set_option linter.unusedSimpArgs false
set_option linter.unusedVariables false

namespace ZipVerif.Tie.WriterSM
open ZipVerif ZipVerif.Model ZipVerif.Tie.SpecRecords ZipVerif.Tie.Records ZipVerif.Tie.Parsers

/-- a successful `writeData` in front of a storer leaves a storer -/
theorem writeData_storer (buf : Bytes) (s : WState) (enc : Option EncState) (h : s.inner = .storer enc) :
    Post (writeData buf s) (fun r => r.1 = .ok () → ∃ enc', r.2.inner = .storer enc') := by
  rcases s with ⟨inner, files, ss, sb, sh, wf, wx, co, wr, cm⟩
  simp only at h
  subst h
  unfold writeData
  split
  · exact Post.pure (fun _ => ⟨enc, rfl⟩)
  split
  · exact Post.pure (fun h => by cases h)
  cases enc with
  | none =>
    try dsimp only
    split
    · split
      · exact Post.panic _
      · exact Post.pure (fun _ => ⟨none, rfl⟩)
    · unfold Model.io
      apply Post.bind
      intro r
      cases r with
      | error e => exact Post.pure (fun h => by cases h)
      | ok u =>
        try dsimp only
        split
        · exact Post.panic _
        · split
          · exact Post.pure (fun h => by cases h)
          · exact Post.pure (fun _ => ⟨none, rfl⟩)
  | some e =>
    try dsimp only
    split
    · split
      · exact Post.panic _
      · exact Post.pure (fun _ => ⟨some e, rfl⟩)
    · try dsimp only
      split
      · exact Post.panic _
      · split
        · exact Post.pure (fun h => by cases h)
        · exact Post.pure (fun _ => ⟨_, rfl⟩)

theorem sim_write_all_post_acc (ext : Rs.S.Ext) (ha : AccOk ext.accept) (g : Gen.ZipWriter) (buf : Bytes)
    (hlen : buf.length < 9223372036854775808)
    (hbytes : g.stats.bytes_written.toNat + buf.length < 18446744073709551616)
    (hinv : g.writing_to_file = true → g.files ≠ [])
    (enc : Option EncState) (hst : g.inner = .storer enc) :
    Sim absR (fun p => p.1 = .ok () → p.2.files.length = g.files.length ∧
        p.2.writing_to_file = g.writing_to_file ∧
        p.2.stats.bytes_written.toNat ≤ g.stats.bytes_written.toNat + buf.length ∧
        ∃ enc', p.2.inner = .storer enc')
      (Rs.S.run (Rs.S.write_all (Gen.ZipWriter.write ext) (buf.length + 1) g buf))
      (writeData buf (absW g)) := by
  have hnr : NoRefusal g buf := by
    intro mm l e p f hc _
    rw [hst] at hc
    cases hc
  refine Sim.mono (Sim.post_of_model (Sim.post_of_model (sim_write_all_acc ext ha g buf hlen hbytes hinv hnr)
    (writeData_post buf (absW g))) (writeData_storer buf (absW g) enc hst)) ?_
  intro p hp hok
  obtain ⟨h1, h2, h3⟩ := hp.1.2 hok
  obtain ⟨enc', h4⟩ := hp.2 hok
  simp only [absR, absW, List.length_map] at h1 h2 h3
  exact ⟨h1, h2, h3, enc', h4⟩

theorem sim_io_copy_acc (ext : Rs.S.Ext) (ha : AccOk ext.accept) :
    ∀ (script : List Rs.RdRes) (chunks : List Bytes), Delivers script chunks →
    ∀ (g : Gen.ZipWriter) (len : UInt64),
      (g.writing_to_file = true → g.files ≠ []) →
      g.stats.bytes_written.toNat + chunks.flatten.length < 18446744073709551616 →
      (∃ enc, g.inner = .storer enc) →
      Sim absRu (fun _ => True)
        (Rs.S.run (Rs.C.io_copy (Gen.ZipWriter.write ext) g script len))
        (writeDataList chunks (absW g)) := by
  intro script chunks hd
  induction hd with
  | nil =>
    intro g len _ _ _
    simp only [Rs.C.io_copy, writeDataList]
    ssimp []
    refine Sim.leaf ?_ trivial
    simp only [absRu, Except.map]
  | eof rest =>
    intro g len _ _ _
    simp only [Rs.C.io_copy, writeDataList, List.length_nil, Rs.C.DEFAULT_BUF_SIZE, List.isEmpty_nil]
    ssimp [show ¬ (0 > 8192) by omega]
    refine Sim.leaf ?_ trivial
    simp only [absRu, Except.map]
  | chunk c rest cs hne hle _ ih =>
    intro g len hinv hbytes hst
    obtain ⟨enc, hst⟩ := hst
    have hfl : (c :: cs).flatten.length = c.length + cs.flatten.length := by
      simp only [List.flatten_cons, List.length_append]
    rw [hfl] at hbytes
    have hemp : c.isEmpty = false := by cases c <;> simp_all
    simp only [Rs.C.io_copy, writeDataList, Rs.C.DEFAULT_BUF_SIZE]
    ssimp [show ¬ (c.length > 8192) by omega, hemp]
    rw [toM_bind_run (Rs.S.write_all (Gen.ZipWriter.write ext) (c.length + 1) g c)]
    refine Sim.bind (sim_write_all_post_acc ext ha g c (by omega) (by omega) hinv enc hst) ?_
    intro p hp
    obtain ⟨r, g2⟩ := p
    cases r with
    | error e =>
      ssimp [absR]
      refine Sim.leaf ?_ trivial
      simp only [absRu, Except.map]
    | ok u =>
      obtain ⟨h1, h2, h3, h4⟩ := hp rfl
      have h1' : g2.files.length = g.files.length := h1
      have h2' : g2.writing_to_file = g.writing_to_file := h2
      have h3' : g2.stats.bytes_written.toNat ≤ g.stats.bytes_written.toNat + c.length := h3
      ssimp [absR]
      refine ih g2 _ ?_ (by omega) h4
      intro hw
      rw [h2'] at hw
      have := hinv hw
      intro hnil
      rw [hnil] at h1'
      apply this
      exact List.eq_nil_of_length_eq_zero (by simpa using h1'.symm)
  | intr rest cs _ ih =>
    intro g len hinv hbytes hst
    simp only [Rs.C.io_copy, ↓reduceIte]
    exact ih g len hinv hbytes hst

theorem sim_raw_copy_file_rename_acc (ext : Rs.S.Ext) (ha : AccOk ext.accept) (now : Gen.DateTime)
    (g : Gen.ZipWriter) (hI : Inv (absW g))
    (file : Rs.C.ZipFile Gen.ZipFileData) (name : Bytes) (chunks : List Bytes)
    (hf : ∀ f, g.files.getLast? = some f →
      f.extra_field.length ≤ 9223372036854775807 ∧
      f.data_start.toNat + f.extra_field.length < 18446744073709551616 ∧
      f.header_start.toNat + 34 + f.file_name.length < 18446744073709551616)
    (hname : name.length < 18446744073709551616)
    (hto : TimeOk (dataOf file.data).time)
    (hraw : Delivers file.raw chunks)
    (htotal : chunks.flatten.length < 18446744073709551616) :
    Sim absR (fun _ => True) (Rs.S.run (Gen.ZipWriter.raw_copy_file_rename ext now g file name))
      (rawCopyChunks ext.toWExt (dataOf file.data) chunks name (absW g)) := by
  have htime : (Tie.DateTime.toModel file.data.last_modified_time).datepart ≠ none := by
    have h : ¬ (Tie.DateTime.toModel file.data.last_modified_time).year < 1980 := hto
    unfold DateTime.datepart
    rw [if_neg h]
    intro h'; cases h'
  have key : ∀ (o' : Gen.FileOptions), o'.last_modified_time = file.data.last_modified_time →
      optOf o' = rawCopyOptions (dataOf file.data) →
      Sim absR (fun _ => True)
        (Rs.S.run (do
          let (t2, t3) ← Gen.ZipWriter.start_entry ext g name o'
            (some ({ crc32 := file.data.crc32, compressed_size := file.data.compressed_size,
                     uncompressed_size := file.data.uncompressed_size } : Gen.ZipRawValues))
          let (t4, t5) ← Rs.C.io_copy (Gen.ZipWriter.write ext)
            { t3 with writing_to_file := true, writing_raw := true } file.raw 0
          pure ((), t5)))
        (rawCopyChunks ext.toWExt (dataOf file.data) chunks name (absW g)) := by
    intro o' ht ho
    have hto' : TimeOk (optOf o').time := by
      show TimeOk (Tie.DateTime.toModel o'.last_modified_time)
      rw [ht]; exact hto
    have hpostE : ∀ raw, Post (startEntry ext.toWExt name (optOf o') raw (absW g))
        (fun r => r.1 = .ok () → ∃ enc, r.2.inner = .storer enc) := fun raw =>
      post_of_sat fun fa d => Sat.mono (startEntry_sat ext.toWExt name (optOf o') raw hto' (absW g) hI fa d)
        (fun r d' hq hr => by
          obtain ⟨_, _, _, _, hin, _⟩ := hq.2 () hr
          rw [hin]
          split <;> exact ⟨_, rfl⟩)
    unfold rawCopyChunks
    rw [← ho]
    ssimp []
    rw [toM_bind_run (Gen.ZipWriter.start_entry ext g name o' _)]
    refine Sim.bind (Sim.post_of_model (sim_start_entry ext g name o' _ hf hname (by rw [ht]; exact htime))
      (hpostE _)) ?_
    intro p hp
    obtain ⟨r, g2⟩ := p
    cases r with
    | error e =>
      ssimp [absR]
      refine Sim.leaf ?_ trivial
      simp only [absR]
    | ok u =>
      obtain ⟨hne, hb0⟩ := hp.1 rfl
      obtain ⟨enc, hin⟩ := hp.2 rfl
      have hin2 : g2.inner = .storer enc := hin
      ssimp [absR]
      rw [toM_bind_run (Rs.C.io_copy (Gen.ZipWriter.write ext)
        { g2 with writing_to_file := true, writing_raw := true } file.raw 0)]
      have hw := sim_io_copy_acc ext ha file.raw chunks hraw { g2 with writing_to_file := true, writing_raw := true } 0
        (fun _ => hne)
        (by show g2.stats.bytes_written.toNat + chunks.flatten.length < 18446744073709551616
            rw [hb0]
            have e0 : (0 : UInt64).toNat = 0 := by decide
            rw [e0]; omega)
        ⟨enc, hin2⟩
      refine Sim.bind_tail hw ?_
      intro q _
      obtain ⟨r2, g3⟩ := q
      cases r2 with
      | error e =>
        ssimp [absRu, Except.map]
        exact Sim.leaf rfl trivial
      | ok n =>
        ssimp [absRu, Except.map]
        exact Sim.leaf rfl trivial
  have hum : Gen.ZipFileAcc.unix_mode file = some (dataOf file.data).unixMode :=
    Tie.Types.tie_unix_mode file.data (dataOf file.data) (view_dataOf file.data).1
  have hbig := big_eq file.data.compressed_size file.data.uncompressed_size
  unfold Gen.ZipWriter.raw_copy_file_rename
  simp only [hum, S.lift_some_bind, Rs.C.get_raw_reader, Gen.ZipFileAcc.crc32, Gen.ZipFileAcc.compressed_size,
    Gen.ZipFileAcc.size, Gen.ZipFileAcc.last_modified, Gen.ZipFileAcc.compression,
    Gen.FileOptionsB.compression_method, Gen.FileOptionsB.last_modified_time, Gen.FileOptionsB.large_file,
    Gen.FileOptionsB.default]
  cases hu : (dataOf file.data).unixMode with
  | none =>
    have := key { compression_method := file.data.compression_method, compression_level := none,
                  last_modified_time := file.data.last_modified_time, permissions := none,
                  large_file := decide (max file.data.compressed_size file.data.uncompressed_size ≥ Gen.ZIP64_BYTES_THR),
                  encrypt_with := none } rfl (by simp only [optOf, rawCopyOptions, hu, hbig, Option.map]; rfl)
    simp only [S.pure_bind_s]
    exact this
  | some mode =>
    have := key { compression_method := file.data.compression_method, compression_level := none,
                  last_modified_time := file.data.last_modified_time, permissions := some mode,
                  large_file := decide (max file.data.compressed_size file.data.uncompressed_size ≥ Gen.ZIP64_BYTES_THR),
                  encrypt_with := none } rfl (by simp only [optOf, rawCopyOptions, hu, hbig, Option.map]; rfl)
    simp only [S.pure_bind_s]
    exact this

/-- a reader that delivers the entry's bytes in ONE read: the model's `rawCopy`, every device and fault index,
every accept function that makes progress -/
theorem sim_raw_copy_one_acc (ext : Rs.S.Ext) (ha : AccOk ext.accept) (now : Gen.DateTime) (g : Gen.ZipWriter)
    (hI : Inv (absW g)) (file : Rs.C.ZipFile Gen.ZipFileData) (name raw : Bytes)
    (hf : ∀ f, g.files.getLast? = some f →
      f.extra_field.length ≤ 9223372036854775807 ∧
      f.data_start.toNat + f.extra_field.length < 18446744073709551616 ∧
      f.header_start.toNat + 34 + f.file_name.length < 18446744073709551616)
    (hname : name.length < 18446744073709551616)
    (hto : TimeOk (dataOf file.data).time)
    (hraw : Delivers file.raw [raw]) :
    Sim absR (fun _ => True) (Rs.S.run (Gen.ZipWriter.raw_copy_file_rename ext now g file name))
      (rawCopy ext.toWExt (dataOf file.data) raw name (absW g)) := by
  rw [rawCopy_eq_chunks]
  refine sim_raw_copy_file_rename_acc ext ha now g hI file name [raw] hf hname hto hraw ?_
  have := hraw.head_le
  simp only [List.flatten_cons, List.flatten_nil, List.append_nil]
  omega

theorem Delivers.ne_nil {scr : List Rs.RdRes} {cs : List Bytes} (h : Delivers scr cs) : ∀ c ∈ cs, c ≠ [] := by
  induction h with
  | nil => intro c hc; cases hc
  | eof => intro c hc; cases hc
  | chunk c' rest cs' hne hle _ ih =>
    intro c hc
    rcases List.mem_cons.mp hc with h | h
    · rw [h]; exact hne
    · exact ih c h
  | intr rest cs' _ ih => exact ih

/-- **Any chunking, fault-free sink.**  Whatever chunks the raw reader delivers (a stream not longer than the source
entry's `compressed_size` - the reader is an `io::Take` of that limit), on a sink without an injected fault the
translated `raw_copy_file_rename` either stops with the `u64`-position panic or has the outcome (panic sites
erased) and the final writer state of the model's `rawCopy` of the WHOLE stream - the model call `Call.rawCopy` -
and leaves the same bytes in the sink at the same position. -/
theorem raw_copy_any_chunking (ext : Rs.S.Ext) (ha : AccOk ext.accept) (now : Gen.DateTime) (g : Gen.ZipWriter)
    (hI : Inv (absW g)) (file : Rs.C.ZipFile Gen.ZipFileData) (name : Bytes) (chunks : List Bytes)
    (hf : ∀ f, g.files.getLast? = some f →
      f.extra_field.length ≤ 9223372036854775807 ∧
      f.data_start.toNat + f.extra_field.length < 18446744073709551616 ∧
      f.header_start.toNat + 34 + f.file_name.length < 18446744073709551616)
    (hname : name.length < 18446744073709551616)
    (hto : TimeOk (dataOf file.data).time)
    (hraw : Delivers file.raw chunks)
    (hlen : chunks.flatten.length ≤ file.data.compressed_size.toNat) (d : Dev) :
    (Rs.S.run (Gen.ZipWriter.raw_copy_file_rename ext now g file name) none d).1 = .panic Rs.S.OVF ∨
      (eraseOut ((absR <$> Rs.S.run (Gen.ZipWriter.raw_copy_file_rename ext now g file name)) none d).1 =
          eraseOut (rawCopy ext.toWExt (dataOf file.data) chunks.flatten name (absW g) none d).1 ∧
        (Rs.S.run (Gen.ZipWriter.raw_copy_file_rename ext now g file name) none d).2.buf =
          (rawCopy ext.toWExt (dataOf file.data) chunks.flatten name (absW g) none d).2.buf ∧
        (Rs.S.run (Gen.ZipWriter.raw_copy_file_rename ext now g file name) none d).2.pos =
          (rawCopy ext.toWExt (dataOf file.data) chunks.flatten name (absW g) none d).2.pos) := by
  have hlt : chunks.flatten.length < 18446744073709551616 := by
    have := file.data.compressed_size.toNat_lt
    omega
  have hs := sim_raw_copy_file_rename_acc ext ha now g hI file name chunks hf hname hto hraw hlt none d
  obtain ⟨o, d1, d2, e1, e2, hb, hp⟩ := rawCopyChunks_split ext.toWExt (dataOf file.data) chunks name (absW g) hI hto
    hraw.ne_nil hlen d
  rcases hs with h | ⟨h, _⟩
  · exact Or.inl h
  · right
    simp only [erase, e1, Prod.mk.injEq] at h
    obtain ⟨h1, h2⟩ := h
    rw [e2]
    have hdev : ((absR <$> Rs.S.run (Gen.ZipWriter.raw_copy_file_rename ext now g file name)) none d).2 =
        (Rs.S.run (Gen.ZipWriter.raw_copy_file_rename ext now g file name) none d).2 := by
      rw [map_apply]
    rw [hdev] at h2
    refine ⟨h1, ?_, ?_⟩
    · rw [h2]; exact hb
    · rw [h2]; exact hp

end ZipVerif.Tie.WriterSM
