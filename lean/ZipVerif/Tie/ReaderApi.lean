import ZipVerif.Tie.ReaderGlue2

/-
Tie obligations for the PUBLIC one-line wrappers of src/read.rs (helper t6r2): `by_index`, `by_index_decrypt`,
`by_name`, `by_name_decrypt`.  Each is an equation between the translated wrapper and the translated
`by_*_with_optional_password` (tied to the model in `Tie/ReaderGlue2.lean`):

  by_index_eq / by_name_pub_eq      no password is passed; an `Ok(Err(InvalidPassword))` of the inner function (an AES entry
                                 opened without a password) becomes `Err(UnsupportedArchive(PASSWORD_REQUIRED))`; the
                                 inner function's stores are passed on under the label `self`
  by_index_decrypt_eq / by_name_decrypt_eq
                                 `Some(password)` is passed and the inner result returned unchanged
  tie_by_index_pub               `by_index` in terms of the model: `byIndexOpen … none`, then the layer, then the mapping
-/
set_option linter.unusedSimpArgs false
set_option linter.unusedVariables false

namespace ZipVerif.Tie.ReaderApi
open ZipVerif ZipVerif.Model ZipVerif.Tie.SpecRecords ZipVerif.Tie.Records ZipVerif.Tie.Parsers
  ZipVerif.Tie.ReaderGlue ZipVerif.Tie.ReaderGlue2

/-- `res.map_err(|_| UnsupportedArchive(PASSWORD_REQUIRED))` as the function's outcome -/
def pwRequired {α : Type} (st : Rs.Stores) : Except Rs.InvalidPassword α → M (α × Rs.Stores)
  | .ok a => pure (a, st)
  | .error _ => M.throw .passwordRequired

theorem by_index_eq (ext : GExt) (z : Gen.ZipArchive) (i : UInt64) :
    Gen.ZipArchive.by_index ext z i =
      (Gen.ZipArchive.by_index_with_optional_password ext z i none >>= fun r =>
        pwRequired ([] ++ Rs.Stores.via "self" r.2) r.1) := by
  unfold Gen.ZipArchive.by_index
  msimp
  refine bind_congr fun r => ?_
  rcases r with ⟨_ | _, st⟩ <;> rfl

theorem by_index_decrypt_eq (ext : GExt) (z : Gen.ZipArchive) (i : UInt64) (pw : Bytes) :
    Gen.ZipArchive.by_index_decrypt ext z i pw =
      (fun r => (r.1, [] ++ Rs.Stores.via "self" r.2)) <$>
        Gen.ZipArchive.by_index_with_optional_password ext z i (some pw) := by
  unfold Gen.ZipArchive.by_index_decrypt
  msimp

theorem by_name_pub_eq (ext : GExt) (z : Gen.ZipArchive) (name : Bytes) :
    Gen.ZipArchive.by_name ext z name =
      (Gen.ZipArchive.by_name_with_optional_password ext z name none >>= fun r =>
        pwRequired ([] ++ Rs.Stores.via "self" r.2) r.1) := by
  unfold Gen.ZipArchive.by_name
  msimp
  refine bind_congr fun r => ?_
  rcases r with ⟨_ | _, st⟩ <;> rfl

theorem by_name_decrypt_eq (ext : GExt) (z : Gen.ZipArchive) (name pw : Bytes) :
    Gen.ZipArchive.by_name_decrypt ext z name pw =
      (fun r => (r.1, [] ++ Rs.Stores.via "self" r.2)) <$>
        Gen.ZipArchive.by_name_with_optional_password ext z name (some pw) := by
  unfold Gen.ZipArchive.by_name_decrypt
  msimp

/-- `by_index` in model terms: the open half without a password, the layer `make_crypto_reader` decides on, and
`InvalidPassword` (an AES entry) reported as the password-required error. -/
theorem tie_by_index_pub (ext : GExt) (z : Gen.ZipArchive) (i : UInt64) :
    (fun r => (fileView r.1, r.2)) <$> Gen.ZipArchive.by_index ext z i =
      (Model.byIndexOpen (archOf z) i.toNat none >>= fun r =>
        runChoice ext ⟨r.1.compressedSize⟩ r.1.compressedSize r.2.2 >>= fun c =>
          pwRequired ([] ++ Rs.Stores.via "self" (dsStores r.2.1))
            (c.map fun cr => (r.1, true, some cr, Gen.ZipFileReader.NoReader))) := by
  rw [by_index_eq]
  have h := tie_by_index ext z i none
  simp only [map_eq_pure_bind, bind_assoc, pure_bind] at h ⊢
  have h2 := congrArg (fun (x : M _) => x >>= fun r =>
    pwRequired ([] ++ Rs.Stores.via "self" r.2) r.1) h
  simp only [bind_assoc, pure_bind] at h2
  refine Eq.trans ?_ h2
  refine bind_congr fun r => ?_
  rcases r with ⟨_ | _, st⟩ <;> rfl

end ZipVerif.Tie.ReaderApi
