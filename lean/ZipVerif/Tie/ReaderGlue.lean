import ZipVerif.Gen.Read
import ZipVerif.Model.Reader
import ZipVerif.Tie.Parsers

/-
Tie obligations for the READER GLUE of src/read.rs (translator tier T6, helper t6r; vocabulary in
`Basic/RsM.lean` + `Basic/RsGlue.lean`).

  tie_central_header     dataOf <$> Gen.central_header_to_zip_file ao = centralHeader ao.toNat
                         (`stream_position`, the signature check, then the translated inner parser)
  new_loop               the `for _ in 0..number_of_files` loop of `ZipArchive::new` against `readCentralLoop`,
                         carrying the vector (with its requested capacity) and the name map
  tie_zip_archive_new    (archRes <$> Gen.ZipArchive.new) fa d = (allocRes <$> openArchiveAlloc) fa d
                         for every fault index and every device whose length fits `u64`: same I/O calls, same
                         outcome, same final device; the value is the archive (files, offset, comment), the capacity
                         handed to `Vec::with_capacity` AND `HashMap::with_capacity` (`Model.fileCapacity`), and the
                         name → index map as built by the loop (`namesMapOf`: insertion in order)
  namesMapOf_get         `(namesMapOf files cap).get name = (Archive.indexOfName ⟨files, _, _⟩ name).map UInt64.ofNat`:
                         a later duplicate overwrites an earlier one - the model's `indexOfName` is what
                         `names_map.get(name)` returns
  openArchive_eq_alloc   `openArchive = Prod.fst <$> openArchiveAlloc` (the model function every property uses is
                         the first component of the tied one)
  tie_find_content       fcRes <$> Gen.find_content data = (fun ds => ([("data.data_start", ds)], data.compressed_size))
                           <$> findContent (dataOf data): seek to the local header, signature check, skip 22, the two
                         lengths of the LOCAL header, the checked sum `header_start + 30 + n + m` (its overflow panic
                         included), the seek to the data; the value stored into `data.data_start`; the `Take` limit
  tie_make_crypto_reader Gen.make_crypto_reader ext m crc t udd reader pw info size
                           = runChoice ext reader size (cryptoChoice (methodOf m) crc (toModel t) udd pw (aesInfoOf info))
                         for EVERY behaviour `ext` of the external layer constructors: the decision (unsupported
                         method / method 99 -> error before any I/O; AES info without password -> InvalidPassword;
                         password + AES info -> AES layer with that mode, size, vendor version; password alone ->
                         ZipCrypto with the validator chosen by `using_data_descriptor`: DOS time or CRC; else
                         plaintext) is the model's `cryptoChoice`
  byIndexRead_eq_choice  `byIndexRead = byIndexReadC`: the model's `by_index*` IS `cryptoChoice` followed by the layers

Assumptions that enter the trusted base with this file (`Basic/RsGlue.lean`): `Vec::with_capacity(n)` /
`HashMap::with_capacity(n)` request `n` elements and `push` / `insert` never change what was REQUESTED (growth by
`push` is bounded by the number of pushed elements, which the loop theorems of C05 bound); `HashMap<String, usize>`
is a finite map: `insert` of an existing key replaces its value, `get` returns the value stored last; `Arc::new`
is the identity on values; `for _ in 0..n` runs `n` times.  `find_content`: an `AtomicU64::store` through a shared
reference is reported as part of the function's value (`Rs.Stores`) and dropped when the function fails.
`make_crypto_reader`: `ZipCryptoReader::new(..).validate(..)` / `AesReader::new(..).validate(..)` are uninterpreted
`M`-computations with a Boolean verdict (`Rs.ReadExt`); a validated layer is the record of its constructor's arguments.
-/
set_option linter.unusedSimpArgs false
set_option linter.unusedSectionVars false
set_option linter.unusedVariables false

namespace ZipVerif.Tie.ReaderGlue
open ZipVerif ZipVerif.Model ZipVerif.Tie.SpecRecords ZipVerif.Tie.Records ZipVerif.Tie.Parsers

/-! ### `central_header_to_zip_file` -/

/-- `central_header_start` is stored as `u64`: the model's `Nat` position only enters through `UInt64.ofNat`. -/
theorem centralHeaderInner_ofNat (ao p : Nat) :
    centralHeaderInner ao (UInt64.ofNat p).toNat = centralHeaderInner ao p := by
  unfold centralHeaderInner
  simp only [UInt64.ofNat_toNat]

theorem tie_central_header (ao : UInt64) :
    dataOf <$> Gen.central_header_to_zip_file ao = Model.centralHeader ao.toNat := by
  unfold Gen.central_header_to_zip_file Model.centralHeader
  msimp
  refine bind_congr fun p => bind_congr fun sig => ?_
  have hsig : Gen.CENTRAL_DIRECTORY_HEADER_SIGNATURE = CENTRAL_SIG := rfl
  rw [hsig]
  by_cases h : (sig != CENTRAL_SIG) = true
  · rw [if_pos h, if_pos h]
  · rw [if_neg h, if_neg h, ← centralHeaderInner_ofNat, ← tie_central_header_inner]
    msimp

/-! ### `ZipArchive::new` -/

/-- `names_map` after inserting the names of `files` (indices counted from `i`) in order. -/
def insertNames (m : Rs.HashMap Bytes UInt64) : Nat → List FileData → Rs.HashMap Bytes UInt64
  | _, [] => m
  | i, f :: r => insertNames (m.insert f.fileName (UInt64.ofNat i)) (i + 1) r

/-- The name → index map `ZipArchive::new` builds for a list of entries, created with capacity `cap`. -/
def namesMapOf (files : List FileData) (cap : Nat) : Rs.HashMap Bytes UInt64 :=
  insertNames (Rs.HashMap.with_capacity (UInt64.ofNat cap)) 0 files

/-- The value of the translated function as the model states it: the archive, the requested capacity of the
entry vector, and the name map. -/
def archRes (z : Gen.ZipArchive) : Archive × Nat × Rs.HashMap Bytes UInt64 :=
  (⟨z.shared.files.items.map dataOf, z.shared.offset.toNat, z.shared.comment⟩,
   z.shared.files.reserved.toNat, z.shared.names_map)

/-- The model's result with the name map the code builds from it. -/
def allocRes (r : Archive × Nat) : Archive × Nat × Rs.HashMap Bytes UInt64 :=
  (r.1, r.2, namesMapOf r.1.files r.2)

theorem R.forN_succ {σ : Type} (body : UInt64 → σ → M σ) (n : Nat) (i : UInt64) (s : σ) :
    Rs.R.forN body (n + 1) i s = (body i s >>= fun s' => Rs.R.forN body n (i + 1) s') := rfl

/-- The central-directory loop: `n` iterations from any loop state. -/
theorem new_loop (ao : UInt64) : ∀ (n : Nat) (i : UInt64) (nm : Rs.HashMap Bytes UInt64)
    (fs : Rs.Vec Gen.ZipFileData),
    (Rs.R.forN (Gen.ZipArchive.new.loop1_body ao) n i (nm, fs) >>= fun st =>
      (pure (st.2.items.map dataOf, st.2.reserved, st.1) : M _)) =
    (readCentralLoop ao.toNat n >>= fun rest =>
      pure (fs.items.map dataOf ++ rest, fs.reserved, insertNames nm fs.items.length rest)) := by
  intro n
  induction n with
  | zero =>
    intro i nm fs
    simp only [Rs.R.forN, readCentralLoop, pure_bind, List.append_nil, insertNames]
  | succ n ih =>
    intro i nm fs
    rw [R.forN_succ]
    have hb : Gen.ZipArchive.new.loop1_body ao i (nm, fs) =
        (Gen.central_header_to_zip_file ao >>= fun t6 =>
          pure (Rs.HashMap.insert nm t6.file_name (Rs.Vec.len fs), Rs.Vec.push fs t6)) := rfl
    rw [hb]
    unfold readCentralLoop
    rw [← tie_central_header]
    msimp
    refine bind_congr fun file => ?_
    have key := ih (i + 1) (Rs.HashMap.insert nm file.file_name (Rs.Vec.len fs)) (Rs.Vec.push fs file)
    rw [key]
    refine bind_congr fun rest => ?_
    simp only [Rs.Vec.push, List.map_append, List.map_cons, List.map_nil, List.append_assoc,
      List.cons_append, List.nil_append, List.length_append, List.length_cons, List.length_nil,
      insertNames, Rs.Vec.len]
    rfl

/-! A successful `find_and_parse` returns a comment of at most 65535 bytes (its length is read from a `u16`
field): that is what makes `-(20 + 22 + comment.len() as i64)` of `get_directory_counts` safe.  (Proved here
rather than imported from `Lemmas/ReaderBounds.lean`, which cannot be imported together with the lemma files of
C10.) -/

/-- every successful run returns a value satisfying `Q` -/
def Post {α} (Q : α → Prop) (x : M α) : Prop := ∀ fa d a d', x fa d = (.ok a, d') → Q a

theorem Post.bind {α β} {P : β → Prop} {Q : α → Prop} {x : M β} {f : β → M α} (hx : Post P x)
    (hf : ∀ b, P b → Post Q (f b)) : Post Q (x >>= f) := by
  intro fa d a d' h
  rw [M.bind_apply] at h
  rcases hx' : x fa d with ⟨o, d1⟩
  rw [hx'] at h
  cases o with
  | ok b => exact hf b (hx _ _ _ _ hx') _ _ _ _ h
  | err e => cases h
  | panic s => cases h

theorem Post.bind_any {α β} {Q : α → Prop} {x : M β} {f : β → M α} (hf : ∀ b, Post Q (f b)) :
    Post Q (x >>= f) :=
  Post.bind (P := fun _ => True) (fun _ _ _ _ _ => trivial) fun b _ => hf b

theorem Post.pure {α} {Q : α → Prop} {a : α} (h : Q a) : Post Q (Pure.pure a : M α) := by
  intro fa d b d' hb
  cases hb
  exact h

theorem Post.throw {α} {Q : α → Prop} (e : ZErr) : Post Q (M.throw e : M α) := by
  intro fa d b d' hb
  cases hb

theorem Post.ite {α} {Q : α → Prop} {c : Prop} [Decidable c] {x y : M α} (hx : Post Q x) (hy : Post Q y) :
    Post Q (if c then x else y) := by
  split
  · exact hx
  · exact hy

theorem Post.readExact (n : Nat) : Post (fun r => r.length = n) (M.readExact n) := by
  intro fa d r d' h
  unfold M.readExact at h
  by_cases h0 : n = 0
  · simp only [h0, ↓reduceIte] at h
    cases h
    simp only [List.length_nil, h0]
  · simp only [h0, ↓reduceIte, M.bind_apply] at h
    rcases hr : M.read n fa d with ⟨o, d1⟩
    rw [hr] at h
    cases o with
    | err e => cases h
    | panic s => cases h
    | ok r1 =>
      simp only [] at h
      by_cases hl : r1.length = n
      · simp only [hl, ↓reduceIte] at h
        cases h
        exact hl
      · simp only [hl, ↓reduceIte] at h
        by_cases hz : r1.length = 0
        · simp only [hz, ↓reduceIte] at h
          cases h
        · simp only [hz, ↓reduceIte, M.bind_apply] at h
          rcases hr2 : M.read (n - r1.length) fa d1 with ⟨o2, d2⟩
          rw [hr2] at h
          cases o2 <;> cases h

theorem parseEocd_comment_len : Post (fun e => e.comment.length ≤ 65535) parseEocd := by
  unfold parseEocd
  apply Post.bind_any; intro magic
  apply Post.ite
  · exact Post.throw _
  · apply Post.bind_any; intro _
    apply Post.bind_any; intro _
    apply Post.bind_any; intro _
    apply Post.bind_any; intro _
    apply Post.bind_any; intro _
    apply Post.bind_any; intro _
    apply Post.bind_any; intro clen
    refine Post.bind (Post.readExact _) fun comment hc => ?_
    apply Post.pure
    have := clen.toNat_lt
    show comment.length ≤ 65535
    omega

theorem findEocdLoop_comment_len (bound : Nat) : ∀ (fuel pos : Nat),
    Post (fun r => r.1.comment.length ≤ 65535) (findEocdLoop bound fuel pos) := by
  intro fuel
  induction fuel with
  | zero => intro pos; unfold findEocdLoop; exact Post.throw _
  | succ n ih =>
    intro pos
    unfold findEocdLoop
    apply Post.ite
    · exact Post.throw _
    · apply Post.bind_any; intro _
      apply Post.bind_any; intro w
      apply Post.ite
      · apply Post.bind_any; intro _
        apply Post.bind_any; intro c
        refine Post.bind parseEocd_comment_len fun e he => ?_
        exact Post.pure he
      · apply Post.ite
        · exact Post.throw _
        · exact ih _

theorem findAndParseEocd_comment_len :
    Post (fun r => r.1.comment.length ≤ 65535) findAndParseEocd := by
  unfold findAndParseEocd
  apply Post.bind_any; intro _
  apply Post.ite
  · exact Post.throw _
  · exact findEocdLoop_comment_len _ _ _

/-- the value built from the loop state -/
def mkRes (off : UInt64) (comment : Bytes) (t : List FileData × UInt64 × Rs.HashMap Bytes UInt64) :
    Archive × Nat × Rs.HashMap Bytes UInt64 :=
  (⟨t.1, off.toNat, comment⟩, t.2.1.toNat, t.2.2)

/-- The loop of `ZipArchive::new` from the empty vector and map of capacity `cap`. -/
theorem new_loop_run (ao n cap : UInt64) (comment : Bytes) (capN : Nat) (hcap : cap.toNat = capN) :
    (Rs.R.forRange 0 n (Gen.ZipArchive.new.loop1_body ao)
        (Rs.HashMap.with_capacity cap, Rs.Vec.with_capacity cap) >>= fun x_2 =>
      (pure (archRes (Gen.ZipArchive.mk (Rs.Arc.new (Gen.Shared.mk x_2.snd x_2.fst ao comment)))) : M _)) =
    (readCentralLoop ao.toNat n.toNat >>= fun files =>
      pure (allocRes ({ files := files, offset := ao.toNat, comment := comment }, capN))) := by
  have h := new_loop ao n.toNat 0 (Rs.HashMap.with_capacity cap) (Rs.Vec.with_capacity cap)
  have e0 : (0 : UInt64).toNat = 0 := by decide
  have hl : (Rs.R.forRange 0 n (Gen.ZipArchive.new.loop1_body ao)
        (Rs.HashMap.with_capacity cap, Rs.Vec.with_capacity cap) >>= fun x_2 =>
      (pure (archRes (Gen.ZipArchive.mk (Rs.Arc.new (Gen.Shared.mk x_2.snd x_2.fst ao comment)))) : M _)) =
      ((Rs.R.forN (Gen.ZipArchive.new.loop1_body ao) n.toNat 0
        (Rs.HashMap.with_capacity cap, Rs.Vec.with_capacity cap) >>= fun st =>
          (pure (st.2.items.map dataOf, st.2.reserved, st.1) : M _)) >>= fun t =>
        pure (mkRes ao comment t)) := by
    simp only [Rs.R.forRange, e0, Nat.sub_zero, bind_assoc, pure_bind]
    rfl
  rw [hl, h]
  simp only [bind_assoc, pure_bind]
  refine bind_congr fun rest => ?_
  have hc2 : UInt64.ofNat capN = cap := by rw [← hcap, UInt64.ofNat_toNat]
  simp only [mkRes, allocRes, namesMapOf, Rs.Vec.with_capacity, List.map_nil, List.nil_append,
    List.length_nil, hcap, hc2]

/-- `cde_start_pos.saturating_sub(directory_start) / 46` in natural numbers -/
theorem maxFiles_toNat (cde ds : UInt64) :
    (Rs.saturatingSub cde ds / 46).toNat = (cde.toNat - ds.toNat) / 46 := by
  have e46 : (46 : UInt64).toNat = 46 := by decide
  have e0 : (0 : UInt64).toNat = 0 := by decide
  rw [UInt64.toNat_div, e46]
  congr 1
  unfold Rs.saturatingSub
  show ((if ds.toNat ≤ cde.toNat then some (cde - ds) else none).getD 0).toNat = _
  split
  · rename_i h
    simp only [Option.getD_some]
    exact UInt64.toNat_sub_of_le _ _ (UInt64.le_iff_toNat_le.mpr h)
  · simp only [Option.getD_none, e0]
    omega

/-- `ZipArchive::new` -/
theorem tie_zip_archive_new (fa : Option Nat) (d : Dev) (hd : d.buf.length < 2 ^ 64) :
    (archRes <$> Gen.ZipArchive.new) fa d = (allocRes <$> Model.openArchiveAlloc) fa d := by
  have h1 := tie_eocd_find_and_parse fa d hd
  have hc := findAndParseEocd_comment_len
  unfold Gen.ZipArchive.new Model.openArchiveAlloc
  msimp [tie_record_too_small, Gen.unsupported_zip_error]
  rw [M.bind_apply, M.bind_apply, ← h1]
  simp only [map_eq_pure_bind, M.bind_apply, M.pure_apply]
  rcases hG : Gen.CentralDirectoryEnd.find_and_parse fa d with ⟨o, d1⟩
  cases o with
  | err e => rfl
  | panic s => rfl
  | ok r =>
    obtain ⟨footer, cde⟩ := r
    simp only []
    have hmodel : findAndParseEocd fa d = (.ok (eocdRes (footer, cde)), d1) := by
      rw [← h1]
      simp only [map_eq_pure_bind, M.bind_apply, hG, M.pure_apply]
    have hb : footer.zip_file_comment.length ≤ 65535 := hc _ _ _ _ hmodel
    have hlen : footer.zip_file_comment.length < 2 ^ 63 - 42 := by omega
    refine congrFun (congrFun ?_ fa) d1
    have hcond : (!(eocdRes (footer, cde)).fst.recordTooSmall &&
        (eocdRes (footer, cde)).fst.diskNumber != (eocdRes (footer, cde)).fst.diskWithCd) =
        (!(eocdOf footer).recordTooSmall && footer.disk_number != footer.disk_with_central_directory) := rfl
    rw [hcond]
    by_cases hc : (!(eocdOf footer).recordTooSmall &&
        footer.disk_number != footer.disk_with_central_directory) = true
    · rw [if_pos hc, if_pos hc]
    · rw [if_neg hc, if_neg hc]
      have he1 : (eocdRes (footer, cde)).fst = eocdOf footer := rfl
      have he2 : (eocdRes (footer, cde)).snd = cde.toNat := rfl
      have he3 : (eocdOf footer).comment = footer.zip_file_comment := rfl
      rw [he1, he2, he3, ← tie_get_directory_counts footer cde hlen]
      msimp [M.attempt_map]
      refine bind_congr fun x => ?_
      have hds : (countsRes x).2.fst = x.2.fst.toNat := rfl
      rw [hds]
      have hdiv : Rs.Arith.div (Rs.saturatingSub cde x.2.fst) (46 : UInt64) =
          some (Rs.saturatingSub cde x.2.fst / 46) := rfl
      rw [hdiv]
      simp only [pure_bind]
      have hn : Rs.as' UInt64 x.2.snd = x.2.snd := rfl
      rw [hn]
      have hmax := maxFiles_toNat cde x.2.fst
      by_cases hgt : x.2.snd > Rs.saturatingSub cde x.2.fst / 46
      · rw [if_pos (by simpa using hgt)]
        refine bind_congr fun r => ?_
        cases r with
        | error e => rfl
        | ok p =>
          simp only [Except.map, Except.isOk, Except.toBool, Bool.not_true, Bool.false_eq_true, ↓reduceIte]
          have := new_loop_run x.fst x.2.snd 0 footer.zip_file_comment
            (fileCapacity (countsRes x).2.snd cde.toNat x.2.fst.toNat) (by
              have : x.2.snd.toNat > (cde.toNat - x.2.fst.toNat) / 46 := by
                rw [← hmax]; exact UInt64.lt_iff_toNat_lt.mp hgt
              simp only [fileCapacity, countsRes, this, ↓reduceIte]; decide)
          rw [this]
          msimp
          rfl
      · rw [if_neg (by simpa using hgt)]
        refine bind_congr fun r => ?_
        cases r with
        | error e => rfl
        | ok p =>
          simp only [Except.map, Except.isOk, Except.toBool, Bool.not_true, Bool.false_eq_true, ↓reduceIte]
          have := new_loop_run x.fst x.2.snd x.2.snd footer.zip_file_comment
            (fileCapacity (countsRes x).2.snd cde.toNat x.2.fst.toNat) (by
              have : ¬ x.2.snd.toNat > (cde.toNat - x.2.fst.toNat) / 46 := fun h =>
                hgt (UInt64.lt_iff_toNat_lt.mpr (by rw [hmax]; exact h))
              simp only [fileCapacity, countsRes, this, ↓reduceIte])
          rw [this]
          msimp
          rfl

/-- The model function the properties speak about is the first component of the tied one. -/
theorem openArchive_eq_alloc : Model.openArchive = Prod.fst <$> Model.openArchiveAlloc := by
  unfold Model.openArchive Model.openArchiveAlloc
  msimp
  refine bind_congr fun r => ?_
  by_cases hc : (!r.fst.recordTooSmall && r.fst.diskNumber != r.fst.diskWithCd) = true
  · rw [if_pos hc, if_pos hc]
  · rw [if_neg hc, if_neg hc]
    refine bind_congr fun x => bind_congr fun sk => ?_
    cases sk with
    | error e => rfl
    | ok p => msimp

/-- … hence the translated `ZipArchive::new` computes the model's `openArchive`. -/
theorem tie_zip_archive_new_open (fa : Option Nat) (d : Dev) (hd : d.buf.length < 2 ^ 64) :
    ((fun z => (archRes z).1) <$> Gen.ZipArchive.new) fa d = Model.openArchive fa d := by
  have h := tie_zip_archive_new fa d hd
  rw [openArchive_eq_alloc]
  simp only [map_eq_pure_bind, M.bind_apply, M.pure_apply] at h ⊢
  rcases hG : Gen.ZipArchive.new fa d with ⟨o, d1⟩
  rcases hM : Model.openArchiveAlloc fa d with ⟨o', d2⟩
  rw [hG, hM] at h
  cases o <;> cases o' <;> simp only [Prod.mk.injEq, Out.ok.injEq, Out.err.injEq, Out.panic.injEq,
    reduceCtorEq, false_and] at h ⊢
  · obtain ⟨h1, h2⟩ := h
    exact ⟨by rw [h1]; rfl, h2⟩
  · exact h
  · exact h

/-! ### The name → index map: a later duplicate overwrites an earlier one -/

theorem getList_insertList {κ ν : Type} [BEq κ] [LawfulBEq κ] (l : List (κ × ν)) (k k' : κ) (v : ν) :
    Rs.HashMap.getList (Rs.HashMap.insertList l k v) k' =
      if k == k' then some v else Rs.HashMap.getList l k' := by
  induction l with
  | nil => simp only [Rs.HashMap.insertList, Rs.HashMap.getList]
  | cons a r ih =>
    obtain ⟨k0, v0⟩ := a
    simp only [Rs.HashMap.insertList]
    by_cases h0 : (k0 == k) = true
    · have e : k0 = k := eq_of_beq h0
      subst e
      simp only [h0, ↓reduceIte, Rs.HashMap.getList]
      by_cases h1 : (k0 == k') = true
      · simp only [h1, ↓reduceIte]
      · simp only [h1, ↓reduceIte, Bool.false_eq_true]
    · simp only [h0, ↓reduceIte, Rs.HashMap.getList, ih, Bool.false_eq_true]
      by_cases h1 : (k0 == k') = true
      · have e : k0 = k' := eq_of_beq h1
        subst e
        have : ¬ (k == k0) = true := fun h => h0 (by rw [eq_of_beq h]; exact beq_self_eq_true _)
        simp only [h1, this, ↓reduceIte, Bool.false_eq_true]
      · simp only [h1, ↓reduceIte, Bool.false_eq_true]

theorem get_insert (m : Rs.HashMap Bytes UInt64) (k k' : Bytes) (v : UInt64) :
    (m.insert k v).get k' = if k == k' then some v else m.get k' :=
  getList_insertList m.entries k k' v

theorem insertNames_snoc (m : Rs.HashMap Bytes UInt64) (i : Nat) (init : List FileData) (f : FileData) :
    insertNames m i (init ++ [f]) =
      (insertNames m i init).insert f.fileName (UInt64.ofNat (i + init.length)) := by
  induction init generalizing m i with
  | nil => simp only [List.nil_append, insertNames, List.length_nil, Nat.add_zero]
  | cons g r ih =>
    simp only [List.cons_append, insertNames, ih, List.length_cons]
    rw [show i + 1 + r.length = i + (r.length + 1) by omega]

/-- the entry at index `i` has the name `name` -/
def nameAt (l : List FileData) (name : Bytes) (i : Nat) : Bool :=
  match l[i]? with
  | some f => f.fileName == name
  | none => false

theorem indexOfName_eq (a : Archive) (name : Bytes) :
    a.indexOfName name = ((List.range a.files.length).filter (nameAt a.files name)).getLast? := rfl

theorem indexOfName_snoc (init : List FileData) (f : FileData) (o : Nat) (c name : Bytes) :
    Archive.indexOfName ⟨init ++ [f], o, c⟩ name =
      if f.fileName == name then some init.length else Archive.indexOfName ⟨init, o, c⟩ name := by
  simp only [indexOfName_eq, List.length_append, List.length_cons, List.length_nil, Nat.zero_add,
    List.range_succ, List.filter_append]
  have hlast : nameAt (init ++ [f]) name init.length = (f.fileName == name) := by
    unfold nameAt
    rw [List.getElem?_append_right (Nat.le_refl _), Nat.sub_self]; rfl
  have hpre : (List.range init.length).filter (nameAt (init ++ [f]) name) =
      (List.range init.length).filter (nameAt init name) := by
    apply List.filter_congr
    intro i hi
    unfold nameAt
    rw [List.getElem?_append_left (List.mem_range.mp hi)]
  rw [hpre]
  by_cases hn : (f.fileName == name) = true
  · simp only [List.filter_cons, List.filter_nil, hlast, hn, ↓reduceIte, List.getLast?_append,
      List.getLast?_singleton, Option.some_or]
  · simp only [List.filter_cons, List.filter_nil, hlast, hn, ↓reduceIte, List.append_nil,
      Bool.false_eq_true]

/-- What `names_map.get(name)` returns on the map `ZipArchive::new` builds is the model's `indexOfName`:
the LAST entry with that name. -/
theorem namesMapOf_get (files : List FileData) (o : Nat) (c : Bytes) (cap : Nat) (name : Bytes) :
    (namesMapOf files cap).get name =
      (Archive.indexOfName ⟨files, o, c⟩ name).map UInt64.ofNat := by
  have key : ∀ l : List FileData, (namesMapOf l.reverse cap).get name =
      (Archive.indexOfName ⟨l.reverse, o, c⟩ name).map UInt64.ofNat := by
    intro l
    induction l with
    | nil => rfl
    | cons f r ih =>
      rw [List.reverse_cons, indexOfName_snoc]
      unfold namesMapOf at ih ⊢
      rw [insertNames_snoc, get_insert, ih, Nat.zero_add]
      by_cases hn : (f.fileName == name) = true
      · simp only [hn, ↓reduceIte, Option.map_some]
      · simp only [hn, ↓reduceIte, Bool.false_eq_true]
  have := key files.reverse
  rwa [List.reverse_reverse] at this

/-! ### `find_content` -/

/-- What `find_content` reports: the cells it stored into, and the limit of the `Take` it returns. -/
def fcRes (r : Rs.Take × Rs.Stores) : Rs.Stores × UInt64 := (r.2, r.1.limit)

/-- `find_content`: same I/O (seek to the local header, signature, skip 22, the two LOCAL lengths, seek to the
data), same failure points - including the overflow panic of `header_start + 30 + n + m` -, `data_start` stored
into the entry, and a `Take` limited to the entry's `compressed_size`. -/
theorem tie_find_content (data : Gen.ZipFileData) :
    fcRes <$> Gen.find_content data =
      (fun ds => ([("data.data_start", UInt64.ofNat ds)], data.compressed_size)) <$>
        Model.findContent (dataOf data) := by
  unfold Gen.find_content Model.findContent
  have h22 : (22 : Int64).toInt = 22 := by decide
  have hA : Rs.Arith.add (4 : UInt64) (22 : UInt64) = some 26 := by decide
  have hB : Rs.Arith.add (26 : UInt64) (2 : UInt64) = some 28 := by decide
  have hC : Rs.Arith.add (28 : UInt64) (2 : UInt64) = some 30 := by decide
  have hhs : (dataOf data).headerStart = data.header_start := rfl
  have hsig : Gen.LOCAL_FILE_HEADER_SIGNATURE = LOCAL_SIG := rfl
  msimp [h22, hhs, hsig]
  refine bind_congr fun _ => bind_congr fun sig => ?_
  by_cases hs : (sig != LOCAL_SIG) = true
  · rw [if_pos hs, if_pos hs]
  · rw [if_neg hs, if_neg hs]
    refine bind_congr fun _ => bind_congr fun n => bind_congr fun m => ?_
    rw [hA]; msimp; rw [hB]; msimp; rw [hC]; msimp
    have e30 : (30 : UInt64).toNat = 30 := by decide
    have hn := as_u16_u64_toNat n
    have hm := as_u16_u64_toNat m
    by_cases h1 : data.header_start.toNat + (30 : UInt64).toNat < 18446744073709551616
    · obtain ⟨a1, v1⟩ := add_some _ _ h1
      rw [a1]; msimp
      by_cases h2 : (data.header_start + 30).toNat + (Rs.as' UInt64 n).toNat < 18446744073709551616
      · obtain ⟨a2, v2⟩ := add_some _ _ h2
        rw [a2]; msimp
        by_cases h3 : (data.header_start + 30 + Rs.as' UInt64 n).toNat + (Rs.as' UInt64 m).toNat
            < 18446744073709551616
        · obtain ⟨a3, v3⟩ := add_some _ _ h3
          rw [a3, if_neg (by omega)]
          msimp
          have hds : (data.header_start + 30 + Rs.as' UInt64 n + Rs.as' UInt64 m).toNat =
              data.header_start.toNat + 30 + n.toNat + m.toNat := by omega
          rw [hds]
          refine bind_congr fun _ => ?_
          simp only [fcRes, Rs.R.take, ← hds, UInt64.ofNat_toNat, List.nil_append]
        · rw [add_none _ _ h3, if_pos (by omega)]
          rfl
      · rw [add_none _ _ h2, if_pos (by omega)]
        rfl
    · rw [add_none _ _ h1, if_pos (by omega)]
      rfl

/-! ### `make_crypto_reader`: the decision -/

def vvOf : Gen.AesVendorVersion → AesVendorVersion
  | .Ae1 => .ae1 | .Ae2 => .ae2
def vvGen : AesVendorVersion → Gen.AesVendorVersion
  | .ae1 => .Ae1 | .ae2 => .Ae2
def aesModeGen : AesMode → Gen.AesMode
  | .aes128 => .Aes128 | .aes192 => .Aes192 | .aes256 => .Aes256
def validatorGen : Validator → Gen.ZipCryptoValidator
  | .pkzipCrc32 c => .PkzipCrc32 c
  | .infoZipMsdosTime t => .InfoZipMsdosTime t

theorem vvGen_vvOf (v : Gen.AesVendorVersion) : vvGen (vvOf v) = v := by cases v <;> rfl
theorem aesModeGen_aesModeOf (m : Gen.AesMode) : aesModeGen (Tie.Types.aesModeOf m) = m := by cases m <;> rfl

/-- the external constructors at the generated types -/
abbrev GExt := Rs.ReadExt Gen.ZipCryptoValidator Gen.AesMode

/-- What the model's decision means as a computation: nothing is read for `unsupported` / `invalidPassword` /
`plaintext`; the ZipCrypto and AES layers are built by the (uninterpreted) external constructors from exactly the
password, validator, mode and size the decision names, and `None` from them is `Ok(Err(InvalidPassword))`. -/
def runChoice (ext : GExt) (reader : Rs.Take) (csize : UInt64) :
    CryptoChoice → M (Except Rs.InvalidPassword Gen.CryptoReader)
  | .unsupported => M.throw .unsupportedArchive
  | .invalidPassword => pure (.error ⟨⟩)
  | .plaintext => pure (.ok (.Plaintext reader))
  | .zipCrypto pw v => do
    let ok ← ext.zcValidate reader pw (validatorGen v)
    pure (if ok then .ok (.ZipCrypto ⟨reader, pw, validatorGen v⟩) else .error ⟨⟩)
  | .aes pw mode vv => do
    let ok ← ext.aesValidate reader (aesModeGen mode) csize pw
    pure (if ok then .ok (.Aes ⟨reader, aesModeGen mode, csize, pw⟩ (vvGen vv)) else .error ⟨⟩)

/-- the AES info of an entry as the model states it -/
def aesInfoOf (info : Option (Gen.AesMode × Gen.AesVendorVersion)) : Option (AesMode × AesVendorVersion) :=
  info.map fun p => (Tie.Types.aesModeOf p.1, vvOf p.2)

theorem tie_make_crypto_reader (ext : GExt) (m : Gen.CompressionMethod) (crc : UInt32) (t : Gen.DateTime)
    (udd : Bool) (reader : Rs.Take) (pw : Option Bytes) (info : Option (Gen.AesMode × Gen.AesVendorVersion))
    (csize : UInt64) :
    Gen.make_crypto_reader ext m crc t udd reader pw info csize =
      runChoice ext reader csize
        (cryptoChoice (Tie.Types.methodOf m) crc (Tie.DateTime.toModel t) udd pw (aesInfoOf info)) := by
  unfold Gen.make_crypto_reader
  cases m <;> cases pw <;> rcases info with _ | ⟨mode, vv⟩ <;>
    simp only [cryptoChoice, Tie.Types.methodOf, runChoice, aesInfoOf, Option.map] <;>
    msimp [Gen.unsupported_zip_error, Gen.CompressionMethod.AES, beq_iff_eq, reduceCtorEq, ↓reduceIte,
      Rs.R.zc_validate, Rs.R.aes_validate, aesModeGen_aesModeOf, vvGen_vvOf, Tie.DateTime.tie_timepart] <;>
    (try cases udd) <;>
    (try msimp [validatorGen, ↓reduceIte, Bool.false_eq_true]) <;>
    (try (refine bind_congr fun ok => ?_; cases ok <;> rfl))

/-- `cryptoChoice` IS the model's decision: `byIndexRead` (the function C03 / C04 / C15 / C16 speak about) is the
same function written through it. -/
theorem byIndexRead_eq_choice (ext : Ext) (a : Archive) (i : Nat) (password : Option Bytes) :
    byIndexRead ext a i password = byIndexReadC ext a i password := by
  unfold byIndexRead byIndexReadC
  cases hf : a.files[i]? with
  | none => rfl
  | some data =>
    simp only []
    by_cases hc : (password.isNone && data.encrypted) = true
    · rw [if_pos hc, if_pos hc]
    · rw [if_neg hc, if_neg hc]
      refine bind_congr fun ds => ?_
      generalize (if data.encrypted = true then password else none) = pw
      rcases hm : data.method with _ | _ | _ | _ | _ | v <;> cases pw <;>
        rcases hi : data.aesMode with _ | ⟨mode, vv⟩ <;>
        simp only [cryptoChoice] <;> (try rfl)
      all_goals (cases hu : data.usingDataDescriptor <;> simp only [Validator.checkByte, ↓reduceIte,
        Bool.false_eq_true] <;> rfl)

end ZipVerif.Tie.ReaderGlue
