import ZipVerif.Tie.ReaderGlue
import ZipVerif.Model.ReaderOpen

/-
Tie obligations for the READER GLUE of src/read.rs, continued (translator tier T6, helper t6r2; vocabulary in
`Basic/RsM.lean` + `Basic/RsGlue.lean`).

  tie_is_ae2_encrypted   Gen.CryptoReader.is_ae2_encrypted r = some (ae2Of r): true exactly for an AES layer whose
                         vendor version is AE-2
  tie_make_reader        Gen.make_reader m crc r = (decoderChoice (methodOf m)).map (readerOf crc r):
                         method → decoder constructor (Stored: none, Deflated: DeflateDecoder, Bzip2: BzDecoder,
                         Zstd: zstd Decoder over a BufReader), each under a `Crc32Reader` created with the entry's
                         CRC-32 and the AE-2 flag of the decryption layer; any other method (the AES pseudo-method
                         99, `Unsupported(_)`) is the panic `none` - `decoderChoice = none`
  make_reader_after_crypto
                         after a `make_crypto_reader` that did not refuse the method, `make_reader` does not
                         panic: `cryptoChoice … ≠ .unsupported → decoderChoice ≠ none` (the D3 repair)
  runChoice_ae2          the AE-2 flag `make_reader` hands to the CRC layer, on the layer `make_crypto_reader`
                         built for the decision `.aes pw mode vv`, is `vv == .ae2` - the flag `Model.byIndexReadC`
                         gives to `crcCheck`

  tie_by_index           (… <$> Gen.ZipArchive.by_index_with_optional_password ext z i pw) =
                           byIndexOpen (archOf z) i.toNat pw >>= fun (data, ds, choice) => … <$> runChoice ext … choice
                         for EVERY archive value, index, password and behaviour `ext` of the layer constructors:
                         `files.get(i)` out of range → FileNotFound; encrypted entry and no password →
                         UnsupportedArchive(PASSWORD_REQUIRED) before any I/O; a password on a plain entry is
                         discarded; `find_content` with its store into the entry's `data_start` (reported under the
                         label `data`); `make_crypto_reader` called with the entry's method, CRC-32, time, descriptor
                         flag, the `Take`, the password, AES info and compressed size; `Err(e)` re-thrown,
                         `Ok(Err(InvalidPassword))` returned as a value WITH the store; the handle = (the table's
                         entry, borrowed; `crypto_reader = Some(layer)`; `reader = NoReader`)
  tie_by_index_raw       the same for `by_index_raw`: handle = (entry, borrowed; no layer; `Raw(take)`, limit = the
                         entry's compressed size)
  by_name_eq / tie_by_name
                         `by_name_with_optional_password` = `names_map.get(name)` (absent → FileNotFound) then
                         `by_index_with_optional_password`; on an archive satisfying `NamesOk` (what `ZipArchive::new`
                         returns: `new_namesOk`) with fewer than 2^64 entries the lookup is the model's
                         `Archive.indexOfName` (LAST duplicate) and the whole function is `Model.byNameOpen`
  byIndexReadC_eq_open, byNameRead_eq_open, byIndexRaw_eq_open
                         the model functions the properties speak about (`byIndexRead` = `byIndexReadC`, `byNameRead`,
                         `byIndexRaw`: open AND read to the end) are the tied open halves (`Model/ReaderOpen.lean`)
                         followed by the read halves (`readChoice`, `takeAll`)

Assumptions that enter the trusted base with this file (`Basic/RsGlue.lean`): a method of `impl<R: Read + Seek>
ZipArchive<R>` has `self.reader` as the device of `M` and cannot change `self` otherwise (an assignment to a field of
`self` leaves the subset); `Vec::get(i)` is the `i`-th element or `None`; `Cow::Borrowed/Owned` are tags on the value;
`res.ok_or(e).and_then(|x| body)` in result position is a bind; the `AtomicU64::store` of a callee is reported by
the caller under the argument's name (`Rs.Stores.via`).
`DeflateDecoder::new(r)`,
`BzDecoder::new(r)`, `zstd::Decoder::new(r)` (over `BufReader::new(r)`) are records of their inner reader;
`zstd::Decoder::new` does not fail (it fails only when the zstd context cannot be allocated), so the `.unwrap()`
behind it does not panic.
-/
set_option linter.unusedSimpArgs false
set_option linter.unusedVariables false

namespace ZipVerif.Tie.ReaderGlue2
open ZipVerif ZipVerif.Model ZipVerif.Tie.SpecRecords ZipVerif.Tie.Records ZipVerif.Tie.Parsers ZipVerif.Tie.ReaderGlue

/-! ### `make_reader` -/

/-- `CryptoReader::is_ae2_encrypted` as a function -/
def ae2Of : Gen.CryptoReader → Bool
  | .Aes _ .Ae2 => true
  | _ => false

theorem tie_is_ae2_encrypted (r : Gen.CryptoReader) :
    Gen.CryptoReader.is_ae2_encrypted r = some (ae2Of r) := by
  unfold Gen.CryptoReader.is_ae2_encrypted ae2Of
  rcases r with _ | _ | ⟨x, vv⟩ <;> rfl

/-- the CRC layer `Crc32Reader::new(inner, crc, ae2)` -/
def crcOver {R : Type} (inner : R) (crc : UInt32) (ae2 : Bool) : Gen.Crc32Reader R :=
  { inner := inner, hasher := Rs.Crc32Hasher.new, check := crc, ae2_encrypted := ae2 }

/-- What `make_reader` builds for a decoder choice: the decoder over the decryption layer `r`, under a fresh CRC
layer that checks `crc` unless the layer below is AES AE-2. -/
def readerOf (crc : UInt32) (r : Gen.CryptoReader) : Decoder → Gen.ZipFileReader
  | .stored => .Stored (crcOver r crc (ae2Of r))
  | .deflate => .Deflated (crcOver ⟨r⟩ crc (ae2Of r))
  | .bzip2 => .Bzip2 (crcOver ⟨r⟩ crc (ae2Of r))
  | .zstd => .Zstd (crcOver ⟨⟨r⟩⟩ crc (ae2Of r))

/-- `make_reader`: the decision is the model's `decoderChoice`; the panic of the default arm is its `none`. -/
theorem tie_make_reader (m : Gen.CompressionMethod) (crc : UInt32) (r : Gen.CryptoReader) :
    Gen.make_reader m crc r = (decoderChoice (Tie.Types.methodOf m)).map (readerOf crc r) := by
  unfold Gen.make_reader
  rw [tie_is_ae2_encrypted]
  cases m <;> rfl

/-- A method `make_crypto_reader` lets through has a decoder: the `panic!` of `make_reader` is unreachable behind a
successful `make_crypto_reader` (before the D3 repair the AES pseudo-method 99 reached it). -/
theorem make_reader_after_crypto (method : Method) (crc : UInt32) (t : DateTime) (udd : Bool)
    (pw : Option Bytes) (info : Option (AesMode × AesVendorVersion))
    (h : cryptoChoice method crc t udd pw info ≠ .unsupported) :
    decoderChoice method ≠ none := by
  cases method <;> simp only [decoderChoice, ne_eq, reduceCtorEq, not_false_eq_true] <;>
    exact absurd (by simp only [cryptoChoice]) h

/-- … and conversely a refused method has none. -/
theorem decoderChoice_none_iff (method : Method) (crc : UInt32) (t : DateTime) (udd : Bool)
    (pw : Option Bytes) (info : Option (AesMode × AesVendorVersion)) :
    decoderChoice method = none ↔ cryptoChoice method crc t udd pw info = .unsupported := by
  cases method <;> cases pw <;> rcases info with _ | ⟨mo, vv⟩ <;>
    simp only [decoderChoice, cryptoChoice, reduceCtorEq]

/-- The AE-2 flag of the layer built for a decision: only an AES layer with vendor version AE-2 switches the CRC
check off.  (`runChoice` yields `.ok layer` only from the three layer-building decisions.) -/
theorem runChoice_ae2 (ext : GExt) (reader : Rs.Take) (csize : UInt64) (c : CryptoChoice) (fa : Option Nat)
    (d d' : Dev) (layer : Gen.CryptoReader)
    (h : runChoice ext reader csize c fa d = (.ok (.ok layer), d')) :
    ae2Of layer = match c with
      | .aes _ _ vv => vv == .ae2
      | _ => false := by
  cases c with
  | unsupported => cases h
  | invalidPassword => cases h
  | plaintext => cases h; rfl
  | zipCrypto pw v =>
    simp only [runChoice, M.bind_apply] at h
    rcases hv : ext.zcValidate reader pw (validatorGen v) fa d with ⟨o, d1⟩
    rw [hv] at h
    cases o with
    | err e => cases h
    | panic s => cases h
    | ok ok =>
      cases ok <;> cases h
      rfl
  | aes pw mode vv =>
    simp only [runChoice, M.bind_apply] at h
    rcases hv : ext.aesValidate reader (aesModeGen mode) csize pw fa d with ⟨o, d1⟩
    rw [hv] at h
    cases o with
    | err e => cases h
    | panic s => cases h
    | ok ok =>
      cases ok <;> cases h
      cases vv <;> rfl

/-! ### `by_index_with_optional_password`, `by_index_raw`, `by_name_with_optional_password` -/

/-- the archive of a generated `ZipArchive` as the model states it -/
def archOf (z : Gen.ZipArchive) : Archive := (archRes z).1

/-- A handle with its entry in model terms: the entry, whether it is borrowed from the archive's table, the
decryption layer waiting to be wrapped by `make_reader`, the reader. -/
def fileView (f : Gen.ZipFile) : FileData × Bool × Option Gen.CryptoReader × Gen.ZipFileReader :=
  (dataOf f.data.get, (match f.data with | .Borrowed _ => true | .Owned _ => false), f.crypto_reader, f.reader)

/-- the store `find_content` performs, as the caller reports it -/
def dsStores (ds : Nat) : Rs.Stores := Rs.Stores.via "data" [("data.data_start", UInt64.ofNat ds)]

/-- `find_content` under a bind: what follows only sees the `Take`'s limit and the store list. -/
theorem find_content_bind {β} (g : Gen.ZipFileData) (F : Rs.Take → Rs.Stores → M β) :
    (Gen.find_content g >>= fun p => F p.1 p.2) =
      (Model.findContent (dataOf g) >>= fun ds =>
        F ⟨g.compressed_size⟩ [("data.data_start", UInt64.ofNat ds)]) := by
  have h := tie_find_content g
  have e1 : (Gen.find_content g >>= fun p => F p.1 p.2) =
      ((fcRes <$> Gen.find_content g) >>= fun q => F ⟨q.2⟩ q.1) := by
    simp only [map_eq_pure_bind, bind_assoc, pure_bind]
    rfl
  rw [e1, h]
  simp only [map_eq_pure_bind, bind_assoc, pure_bind]

/-- re-throwing the error of an attempted computation is running it -/
theorem attempt_rethrow {α β} (x : M α) (k : α → M β) :
    (M.attempt x >>= fun r => match r with
      | .ok v => k v
      | .error e => M.throw e) = (x >>= k) := by
  apply M.ext; intro fa d
  simp only [M.bind_apply, M.attempt_apply]
  rcases x fa d with ⟨o, d'⟩
  cases o <;> rfl

theorem aesInfoOf_dataOf (g : Gen.ZipFileData) : aesInfoOf g.aes_mode = (dataOf g).aesMode := by
  unfold aesInfoOf dataOf
  rcases g.aes_mode with _ | ⟨m, vv⟩
  · rfl
  · cases vv <;> rfl

theorem getElemOpt_archOf (z : Gen.ZipArchive) (i : Nat) :
    (archOf z).files[i]? = (z.shared.files.items[i]?).map dataOf := by
  simp only [archOf, archRes, List.getElem?_map]

/-- What `by_index_with_optional_password` does once the password question is settled (`p'` = the password that is
passed on): `find_content`, `make_crypto_reader`, the handle. -/
theorem by_index_tail (ext : GExt) (g : Gen.ZipFileData) (p' : Option Bytes) :
    (do
      let x ← Gen.find_content g
      let x_1 ← (Gen.make_crypto_reader ext g.compression_method g.crc32 g.last_modified_time
        g.using_data_descriptor x.fst p' g.aes_mode g.compressed_size).attempt
      let x_2 ← (match x_1 with
        | Except.ok (Except.ok crypto_reader) =>
          pure (Except.ok (Gen.ZipFile.mk (Rs.Cow.Borrowed g) (some crypto_reader) Gen.ZipFileReader.NoReader))
        | Except.error e => M.throw e
        | Except.ok (Except.error e) => pure (Except.error e) : M (Except Rs.InvalidPassword Gen.ZipFile))
      pure (Except.map fileView x_2, [] ++ Rs.Stores.via "data" x.snd)) =
    (do
      let x ← findContent (dataOf g)
      let a ← runChoice ext { limit := (dataOf g).compressedSize } (dataOf g).compressedSize
        (cryptoChoice (dataOf g).method (dataOf g).crc32 (dataOf g).time (dataOf g).usingDataDescriptor p'
          (dataOf g).aesMode)
      pure (Except.map (fun cr => (dataOf g, true, some cr, Gen.ZipFileReader.NoReader)) a, dsStores x)) := by
  refine (find_content_bind g (fun t st => do
      let x_1 ← (Gen.make_crypto_reader ext g.compression_method g.crc32 g.last_modified_time
        g.using_data_descriptor t p' g.aes_mode g.compressed_size).attempt
      let x_2 ← (match x_1 with
        | Except.ok (Except.ok crypto_reader) =>
          pure (Except.ok (Gen.ZipFile.mk (Rs.Cow.Borrowed g) (some crypto_reader) Gen.ZipFileReader.NoReader))
        | Except.error e => M.throw e
        | Except.ok (Except.error e) => pure (Except.error e) : M (Except Rs.InvalidPassword Gen.ZipFile))
      pure (Except.map fileView x_2, [] ++ Rs.Stores.via "data" st))).trans ?_
  refine bind_congr fun ds => ?_
  rw [tie_make_crypto_reader, aesInfoOf_dataOf]
  apply M.ext; intro fa d
  simp only [M.bind_apply, M.attempt_apply]
  have hm : Tie.Types.methodOf g.compression_method = (dataOf g).method := rfl
  have ht : Tie.DateTime.toModel g.last_modified_time = (dataOf g).time := rfl
  have hc : g.compressed_size = (dataOf g).compressedSize := rfl
  have hcrc : g.crc32 = (dataOf g).crc32 := rfl
  have hu : g.using_data_descriptor = (dataOf g).usingDataDescriptor := rfl
  rw [hm, ht, hc, hcrc, hu]
  rcases runChoice ext { limit := (dataOf g).compressedSize } (dataOf g).compressedSize
    (cryptoChoice (dataOf g).method (dataOf g).crc32 (dataOf g).time (dataOf g).usingDataDescriptor p'
      (dataOf g).aesMode) fa d with ⟨o, d'⟩
  cases o with
  | ok r => cases r <;> rfl
  | err e => rfl
  | panic s => rfl

/-- `by_index_with_optional_password`: index bound → `FileNotFound`; encrypted entry without password → the
password-required error before any I/O; a password for a plain entry is dropped; `find_content` (with its store into
the entry's `data_start`); `make_crypto_reader` with exactly the entry's method, CRC, time, descriptor flag, AES info
and compressed size; the handle: the table's entry (borrowed), the layer in `crypto_reader`, `reader = NoReader`. -/
theorem tie_by_index (ext : GExt) (z : Gen.ZipArchive) (i : UInt64) (pw : Option Bytes) :
    (fun r => (r.1.map fileView, r.2)) <$> Gen.ZipArchive.by_index_with_optional_password ext z i pw =
      (Model.byIndexOpen (archOf z) i.toNat pw >>= fun r =>
        (fun c => (c.map fun cr => (r.1, true, some cr, Gen.ZipFileReader.NoReader), dsStores r.2.1)) <$>
          runChoice ext ⟨r.1.compressedSize⟩ r.1.compressedSize r.2.2) := by
  unfold Gen.ZipArchive.by_index_with_optional_password Model.byIndexOpen
  rw [getElemOpt_archOf]
  have hget : Rs.Vec.get z.shared.files i = z.shared.files.items[i.toNat]? := rfl
  rw [hget]
  cases hf : z.shared.files.items[i.toNat]? with
  | none =>
    msimp
    rfl
  | some g =>
    simp only [Option.map_some]
    have hs : (dataOf g).encrypted = g.encrypted := rfl
    rcases pw with _ | p <;> cases he : g.encrypted
    · msimp [hs, he, Option.isNone, Bool.and_false, Bool.false_eq_true, ↓reduceIte]
      exact by_index_tail ext g none
    · msimp [hs, he, Option.isNone, Bool.and_true, ↓reduceIte]
    · msimp [hs, he, Option.isNone, Bool.and_false, Bool.false_and, Bool.false_eq_true, ↓reduceIte]
      exact by_index_tail ext g none
    · msimp [hs, he, Option.isNone, Bool.and_true, Bool.false_and, Bool.false_eq_true, ↓reduceIte]
      exact by_index_tail ext g (some p)

/-- `by_index_raw`: index bound → `FileNotFound`; `find_content` (with its store); the handle: the table's entry
(borrowed), no decryption layer, `reader = Raw(take)` with the `Take` limited to the entry's compressed size. -/
theorem tie_by_index_raw (z : Gen.ZipArchive) (i : UInt64) :
    (fun r => (fileView r.1, r.2)) <$> Gen.ZipArchive.by_index_raw z i =
      (Model.byIndexRawOpen (archOf z) i.toNat >>= fun r =>
        pure ((r.1, true, none, Gen.ZipFileReader.Raw ⟨r.1.compressedSize⟩), dsStores r.2)) := by
  unfold Gen.ZipArchive.by_index_raw Model.byIndexRawOpen
  rw [getElemOpt_archOf]
  have hget : Rs.Vec.get z.shared.files i = z.shared.files.items[i.toNat]? := rfl
  rw [hget]
  cases hf : z.shared.files.items[i.toNat]? with
  | none =>
    msimp
    rfl
  | some g =>
    simp only [Option.map_some]
    msimp
    refine (find_content_bind g (fun t st => pure (fileView (Gen.ZipFile.mk (Rs.Cow.Borrowed g) none
      (Gen.ZipFileReader.Raw t)), [] ++ Rs.Stores.via "data" st))).trans ?_
    rfl

/-- `by_name_with_optional_password` is the lookup in `names_map` followed by `by_index_with_optional_password`. -/
theorem by_name_eq (ext : GExt) (z : Gen.ZipArchive) (name : Bytes) (pw : Option Bytes) :
    Gen.ZipArchive.by_name_with_optional_password ext z name pw =
      match Rs.HashMap.get z.shared.names_map name with
      | none => M.throw .fileNotFound
      | some idx => (fun r => (r.1, [] ++ Rs.Stores.via "self" r.2)) <$>
          Gen.ZipArchive.by_index_with_optional_password ext z idx pw := by
  unfold Gen.ZipArchive.by_name_with_optional_password
  cases Rs.HashMap.get z.shared.names_map name with
  | none => msimp
  | some idx => msimp

/-- The invariant `ZipArchive::new` establishes (`tie_zip_archive_new`): the name map is the one built from the
entry table, in order. -/
def NamesOk (z : Gen.ZipArchive) : Prop :=
  ∃ cap, z.shared.names_map = namesMapOf (archOf z).files cap

/-- `ZipArchive::new` establishes `NamesOk`: every archive it returns carries the name map built from its table. -/
theorem new_namesOk (fa : Option Nat) (d d' : Dev) (z : Gen.ZipArchive) (hd : d.buf.length < 2 ^ 64)
    (h : Gen.ZipArchive.new fa d = (.ok z, d')) : NamesOk z := by
  have t := tie_zip_archive_new fa d hd
  simp only [map_eq_pure_bind, M.bind_apply, M.pure_apply, h] at t
  rcases hM : Model.openArchiveAlloc fa d with ⟨o, d2⟩
  rw [hM] at t
  cases o with
  | err e => cases t
  | panic s => cases t
  | ok r =>
    simp only [Prod.mk.injEq, Out.ok.injEq] at t
    obtain ⟨t1, _⟩ := t
    refine ⟨r.2, ?_⟩
    have h1 : (archRes z).1 = r.1 := congrArg (fun x => x.1) t1
    have h3 : (archRes z).2.2 = namesMapOf r.1.files r.2 := congrArg (fun x => x.2.2) t1
    show z.shared.names_map = namesMapOf (archRes z).1.files r.2
    rw [h1]
    exact h3

theorem indexOfName_lt (a : Archive) (name : Bytes) (i : Nat) (h : a.indexOfName name = some i) :
    i < a.files.length := by
  rw [indexOfName_eq] at h
  have := List.mem_of_getLast? h
  exact List.mem_range.mp (List.mem_filter.mp this).1

/-- `by_name_with_optional_password` on an archive as built by `ZipArchive::new` (fewer than 2^64 entries): the name
is looked up with the model's `indexOfName` - absent → `FileNotFound`, duplicates → the LAST entry of that name -,
then everything `by_index_with_optional_password` does; its stores are passed on under the label `self`. -/
theorem tie_by_name (ext : GExt) (z : Gen.ZipArchive) (name : Bytes) (pw : Option Bytes)
    (hz : NamesOk z) (hlen : (archOf z).files.length < 2 ^ 64) :
    (fun r => (r.1.map fileView, r.2)) <$> Gen.ZipArchive.by_name_with_optional_password ext z name pw =
      (Model.byNameOpen (archOf z) name pw >>= fun r =>
        (fun c => (c.map fun cr => (r.1, true, some cr, Gen.ZipFileReader.NoReader),
            [] ++ Rs.Stores.via "self" (dsStores r.2.1))) <$>
          runChoice ext ⟨r.1.compressedSize⟩ r.1.compressedSize r.2.2) := by
  obtain ⟨cap, hmap⟩ := hz
  rw [by_name_eq, hmap, namesMapOf_get (archOf z).files (archOf z).offset (archOf z).comment cap name]
  unfold Model.byNameOpen
  have harch : ({ files := (archOf z).files, offset := (archOf z).offset, comment := (archOf z).comment } : Archive)
      = archOf z := rfl
  rw [harch]
  cases hi : (archOf z).indexOfName name with
  | none => rfl
  | some i =>
    simp only [Option.map_some]
    have hlt := indexOfName_lt _ _ _ hi
    have hto : (UInt64.ofNat i).toNat = i := by
      simp only [UInt64.toNat_ofNat']; omega
    have h := tie_by_index ext z (UInt64.ofNat i) pw
    rw [hto] at h
    rw [← bind_pure_comp] at h ⊢
    simp only [map_eq_pure_bind, bind_assoc, pure_bind] at h ⊢
    have h2 := congrArg (fun (x : M _) => x >>= fun r => pure (r.1, [] ++ Rs.Stores.via "self" r.2)) h
    simp only [bind_assoc, pure_bind] at h2
    exact h2

/-! ### The model's read-to-the-end functions are the open halves followed by the read halves -/

theorem byIndexReadC_eq_open (ext : Ext) (a : Archive) (i : Nat) (pw : Option Bytes) :
    byIndexReadC ext a i pw = (byIndexOpen a i pw >>= fun r => readChoice ext r.1 r.2.1 r.2.2) := by
  unfold byIndexReadC byIndexOpen
  cases a.files[i]? with
  | none => rfl
  | some data =>
    simp only []
    by_cases hc : (pw.isNone && data.encrypted) = true
    · rw [if_pos hc, if_pos hc]; rfl
    · rw [if_neg hc, if_neg hc]
      simp only [bind_assoc, pure_bind]
      refine bind_congr fun ds => ?_
      generalize cryptoChoice data.method data.crc32 data.time data.usingDataDescriptor
        (if data.encrypted = true then pw else none) data.aesMode = c
      cases c <;> rfl

theorem byNameRead_eq_open (ext : Ext) (a : Archive) (name : Bytes) (pw : Option Bytes) :
    byNameRead ext a name pw = (byNameOpen a name pw >>= fun r => readChoice ext r.1 r.2.1 r.2.2) := by
  unfold byNameRead byNameOpen
  cases a.indexOfName name with
  | none => rfl
  | some i => simp only []; rw [byIndexRead_eq_choice, byIndexReadC_eq_open]

theorem byIndexRaw_eq_open (a : Archive) (i : Nat) :
    byIndexRaw a i = (byIndexRawOpen a i >>= fun r => do
      let raw ← takeAll r.1.compressedSize.toNat
      pure (r.2, raw)) := by
  unfold byIndexRaw byIndexRawOpen
  cases a.files[i]? with
  | none => rfl
  | some data => simp only [bind_assoc, pure_bind]

end ZipVerif.Tie.ReaderGlue2
