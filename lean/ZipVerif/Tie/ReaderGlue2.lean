import ZipVerif.Tie.ReaderGlue

/-
Tie obligations for the READER GLUE of src/read.rs, continued (translator tier T6, helper t6r2; vocabulary in
`Basic/RsM.lean` + `Basic/RsGlue.lean`).

  tie_is_ae2_encrypted   Gen.CryptoReader.is_ae2_encrypted r = some (ae2Of r): true exactly for an AES layer whose
                         vendor version is AE-2
  tie_make_reader        Gen.make_reader m crc r = (decoderChoice (methodOf m)).map (readerOf crc r):
                         method → decoder constructor (Stored: none, Deflated: DeflateDecoder, Bzip2: BzDecoder,
                         Zstd: zstd Decoder over a BufReader), each under a `Crc32Reader` created with the entry's
                         CRC-32 and the AE-2 flag of the decryption layer; any other method (the AES pseudo-method
                         99, `Unsupported(_)`) is the panic `none` - `decoderChoice = none`
  make_reader_after_crypto
                         after a `make_crypto_reader` that did not refuse the method, `make_reader` does not
                         panic: `cryptoChoice … ≠ .unsupported → decoderChoice ≠ none` (the D3 repair)
  runChoice_ae2          the AE-2 flag `make_reader` hands to the CRC layer, on the layer `make_crypto_reader`
                         built for the decision `.aes pw mode vv`, is `vv == .ae2` - the flag `Model.byIndexReadC`
                         gives to `crcCheck`

Assumptions that enter the trusted base with this file (`Basic/RsGlue.lean`): `DeflateDecoder::new(r)`,
`BzDecoder::new(r)`, `zstd::Decoder::new(r)` (over `BufReader::new(r)`) are records of their inner reader;
`zstd::Decoder::new` does not fail (it fails only when the zstd context cannot be allocated), so the `.unwrap()`
behind it does not panic.
-/
set_option linter.unusedSimpArgs false
set_option linter.unusedVariables false

namespace ZipVerif.Tie.ReaderGlue2
open ZipVerif ZipVerif.Model ZipVerif.Tie.Parsers ZipVerif.Tie.ReaderGlue

/-! ### `make_reader` -/

/-- `CryptoReader::is_ae2_encrypted` as a function -/
def ae2Of : Gen.CryptoReader → Bool
  | .Aes _ .Ae2 => true
  | _ => false

theorem tie_is_ae2_encrypted (r : Gen.CryptoReader) :
    Gen.CryptoReader.is_ae2_encrypted r = some (ae2Of r) := by
  unfold Gen.CryptoReader.is_ae2_encrypted ae2Of
  rcases r with _ | _ | ⟨x, vv⟩ <;> rfl

/-- the CRC layer `Crc32Reader::new(inner, crc, ae2)` -/
def crcOver {R : Type} (inner : R) (crc : UInt32) (ae2 : Bool) : Gen.Crc32Reader R :=
  { inner := inner, hasher := Rs.Crc32Hasher.new, check := crc, ae2_encrypted := ae2 }

/-- What `make_reader` builds for a decoder choice: the decoder over the decryption layer `r`, under a fresh CRC
layer that checks `crc` unless the layer below is AES AE-2. -/
def readerOf (crc : UInt32) (r : Gen.CryptoReader) : Decoder → Gen.ZipFileReader
  | .stored => .Stored (crcOver r crc (ae2Of r))
  | .deflate => .Deflated (crcOver ⟨r⟩ crc (ae2Of r))
  | .bzip2 => .Bzip2 (crcOver ⟨r⟩ crc (ae2Of r))
  | .zstd => .Zstd (crcOver ⟨⟨r⟩⟩ crc (ae2Of r))

/-- `make_reader`: the decision is the model's `decoderChoice`; the panic of the default arm is its `none`. -/
theorem tie_make_reader (m : Gen.CompressionMethod) (crc : UInt32) (r : Gen.CryptoReader) :
    Gen.make_reader m crc r = (decoderChoice (Tie.Types.methodOf m)).map (readerOf crc r) := by
  unfold Gen.make_reader
  rw [tie_is_ae2_encrypted]
  cases m <;> rfl

/-- A method `make_crypto_reader` lets through has a decoder: the `panic!` of `make_reader` is unreachable behind a
successful `make_crypto_reader` (before the D3 repair the AES pseudo-method 99 reached it). -/
theorem make_reader_after_crypto (method : Method) (crc : UInt32) (t : DateTime) (udd : Bool)
    (pw : Option Bytes) (info : Option (AesMode × AesVendorVersion))
    (h : cryptoChoice method crc t udd pw info ≠ .unsupported) :
    decoderChoice method ≠ none := by
  cases method <;> simp only [decoderChoice, ne_eq, reduceCtorEq, not_false_eq_true] <;>
    exact absurd (by simp only [cryptoChoice]) h

/-- … and conversely a refused method has none. -/
theorem decoderChoice_none_iff (method : Method) (crc : UInt32) (t : DateTime) (udd : Bool)
    (pw : Option Bytes) (info : Option (AesMode × AesVendorVersion)) :
    decoderChoice method = none ↔ cryptoChoice method crc t udd pw info = .unsupported := by
  cases method <;> cases pw <;> rcases info with _ | ⟨mo, vv⟩ <;>
    simp only [decoderChoice, cryptoChoice, reduceCtorEq]

/-- The AE-2 flag of the layer built for a decision: only an AES layer with vendor version AE-2 switches the CRC
check off.  (`runChoice` yields `.ok layer` only from the three layer-building decisions.) -/
theorem runChoice_ae2 (ext : GExt) (reader : Rs.Take) (csize : UInt64) (c : CryptoChoice) (fa : Option Nat)
    (d d' : Dev) (layer : Gen.CryptoReader)
    (h : runChoice ext reader csize c fa d = (.ok (.ok layer), d')) :
    ae2Of layer = match c with
      | .aes _ _ vv => vv == .ae2
      | _ => false := by
  cases c with
  | unsupported => cases h
  | invalidPassword => cases h
  | plaintext => cases h; rfl
  | zipCrypto pw v =>
    simp only [runChoice, M.bind_apply] at h
    rcases hv : ext.zcValidate reader pw (validatorGen v) fa d with ⟨o, d1⟩
    rw [hv] at h
    cases o with
    | err e => cases h
    | panic s => cases h
    | ok ok =>
      cases ok <;> cases h
      rfl
  | aes pw mode vv =>
    simp only [runChoice, M.bind_apply] at h
    rcases hv : ext.aesValidate reader (aesModeGen mode) csize pw fa d with ⟨o, d1⟩
    rw [hv] at h
    cases o with
    | err e => cases h
    | panic s => cases h
    | ok ok =>
      cases ok <;> cases h
      cases vv <;> rfl

end ZipVerif.Tie.ReaderGlue2
