import ZipVerif.Gen.Write
import ZipVerif.Model.Records
import ZipVerif.Model.Writer
import ZipVerif.Tie.Types
import ZipVerif.Tie.DateTime
import ZipVerif.Tie.Extra
import ZipVerif.Tie.SpecRecords
/-
Tie obligations for the header serialisers of src/write.rs (translator tiers T3 and T4): what rs2lean
regenerates from /repo/src/write.rs on this run equals the hand-written model the property theorems
are stated over, for EVERY entry value (`view f g` relates a generated `ZipFileData` to a model
`FileData`; `view_dataOf` shows every generated value has a model value).

  tie_write_local_zip64_extra_field   Gen.write_local_zip64_extra_field   = localZip64Chunks
  tie_write_local_file_header         Gen.write_local_file_header         = localHeaderChunks
  tie_write_central_zip64_extra_field Gen.write_central_zip64_extra_field = centralZip64Bytes (size and bytes)
  tie_write_central_directory_header  Gen.write_central_directory_header  = centralHeaderChunks
  tie_validate_extra_data             Gen.validate_extra_data             = validateExtraData
                                      (incl. adequacy of the generated loop fuel, `loop_tie`)
  tie_update_local_zip64_extra_field / tie_update_local_file_header
                                      Gen.update_local_*  (seek/write actions) = Model.updateLocalHeader

Chunk lists are compared as lists, one chunk per Rust `write_all`/`write_uNN` call; an empty chunk
(empty name, no ZIP64 record, no extra data) is an element on both sides - the model skips it only
at I/O time (`M.writeAll []` is a no-op).  Panics are compared as panics (the model's site string is
not part of the comparison), returned errors by variant (`zerrOf`).
The proofs go by meaning: sub-function ties (`version_needed`, `to_u16`, `timepart`, `datepart`) are
reused as rewrite rules, Boolean conditions are case-split, and both sides are normalised to one
explicit chunk list by `wsimp`.  A source edit that reorders or retypes a field write, changes a
threshold comparison, a constant, a cast or an error branch breaks one of these theorems; a
harmless rewrite (renaming, reordering of independent `let`s, `x >= T` for `!(x < T)`) does not.
-/
set_option linter.unusedSimpArgs false

namespace ZipVerif.Tie.Records
open ZipVerif ZipVerif.Model ZipVerif.Tie.SpecRecords

/-- Chunk-list outcome of a translated `fn f<T: Write>(..) -> ZipResult<()>`. -/
def chunks (x : Rs.W Bytes Unit) : Option (Except ZErr (List Bytes)) :=
  match x with
  | ⟨some (.ok _), l⟩ => some (.ok l)
  | ⟨some (.error e), _⟩ => some (.error (zerrOf e))
  | ⟨none, _⟩ => none

/-- Everything the serialisers read from a `ZipFileData`. -/
def view (f : Gen.ZipFileData) (g : FileData) : Prop :=
  Tie.Types.viewOf f g ∧ f.version_made_by = g.versionMadeBy ∧ f.encrypted = g.encrypted ∧
  Tie.DateTime.toModel f.last_modified_time = g.time ∧ f.crc32 = g.crc32 ∧
  f.file_name = g.fileName ∧ f.extra_field = g.extraField ∧ f.large_file = g.largeFile ∧
  f.using_data_descriptor = g.usingDataDescriptor

/-- The model value of a generated `ZipFileData` (`Option<i32>` level as `Option Int`). -/
def dataOf (f : Gen.ZipFileData) : FileData :=
  { system := Tie.Types.systemOf f.system, versionMadeBy := f.version_made_by,
    encrypted := f.encrypted, usingDataDescriptor := f.using_data_descriptor,
    method := Tie.Types.methodOf f.compression_method, level := f.compression_level.map Int32.toInt,
    time := Tie.DateTime.toModel f.last_modified_time, crc32 := f.crc32,
    compressedSize := f.compressed_size, uncompressedSize := f.uncompressed_size,
    fileName := f.file_name, fileNameRaw := f.file_name_raw, extraField := f.extra_field,
    fileComment := f.file_comment, headerStart := f.header_start,
    centralHeaderStart := f.central_header_start, dataStart := f.data_start,
    externalAttributes := f.external_attributes, largeFile := f.large_file,
    aesMode := f.aes_mode.map fun p => (Tie.Types.aesModeOf p.1,
      match p.2 with | .Ae1 => .ae1 | .Ae2 => .ae2) }

theorem view_dataOf (f : Gen.ZipFileData) : view f (dataOf f) :=
  ⟨⟨rfl, rfl, rfl, rfl, rfl, rfl⟩, rfl, rfl, rfl, rfl, rfl, rfl, rfl, rfl⟩

/-- Normal form of straight-line writer code: every primitive becomes an explicit ⟨outcome, log⟩
pair and `bind` concatenates logs. -/
syntax "wsimp" ("[" Lean.Parser.Tactic.simpLemma,* "]")? : tactic
macro_rules
  | `(tactic| wsimp [$ls,*]) => `(tactic| simp only [Rs.W.bind_def, Rs.W.bind_ok, Rs.W.bind_error,
      Rs.W.bind_none, Rs.W.pre_mk, Rs.W.pre_nil, Rs.W.pure_def, Rs.W.lift_some, Rs.W.lift_none,
      Rs.W.write_u16, Rs.W.write_u32, Rs.W.write_u64, Rs.W.write_all, Rs.W.emit, Rs.W.err,
      Rs.Sink.ofBytes, id, Rs.le16, Rs.le32, Rs.le64, List.cons_append, List.nil_append,
      List.append_nil, ↓reduceIte, Bool.false_eq_true, Bool.not_true, Bool.not_false, $ls,*])
  | `(tactic| wsimp) => `(tactic| wsimp [Rs.W.bind_def])

theorem shl_1_11 : Rs.Arith.shl (1 : UInt16) 11 = some 0x0800 := by decide
theorem shl_1_0 : Rs.Arith.shl (1 : UInt16) 0 = some 1 := by decide
theorem shl_1_3 : Rs.Arith.shl (1 : UInt16) 3 = some 8 := by decide

/-- `a + (x.len() as u16)` as a checked `u16` addition (after `len_as_u16`). -/
theorem add_len_u16 (a : UInt16) (n : Nat) :
    Rs.Arith.add a (UInt16.ofNat n) =
      if a.toNat + n % 65536 < 65536 then some (UInt16.ofNat (a.toNat + n % 65536)) else none := by
  simp only [Rs.Arith.add, UInt16.toNat_ofNat']
  have e : 2 ^ 16 = 65536 := by decide
  rw [e]
  by_cases h : a.toNat + n % 65536 < 65536
  · rw [if_pos h, if_pos h]
    congr 1 <;>
      (apply UInt16.toNat_inj.mp
       simp only [UInt16.toNat_add, UInt16.toNat_ofNat']
       omega)
  · rw [if_neg h, if_neg h]

theorem add_len_u16_20 (n : Nat) :
    Rs.Arith.add (20 : UInt16) (UInt16.ofNat n) =
      if 20 + n % 65536 < 65536 then some (UInt16.ofNat (20 + n % 65536)) else none := by
  have h := add_len_u16 20 n
  have e : (20 : UInt16).toNat = 20 := by decide
  rwa [e] at h

theorem add_len_u16_0 (n : Nat) :
    Rs.Arith.add (0 : UInt16) (UInt16.ofNat n) =
      if 0 + n % 65536 < 65536 then some (UInt16.ofNat (0 + n % 65536)) else none := by
  have h := add_len_u16 0 n
  have e : (0 : UInt16).toNat = 0 := by decide
  rwa [e] at h

theorem tie_write_local_zip64_extra_field (f : Gen.ZipFileData) (g : FileData) (h : view f g) :
    Gen.write_local_zip64_extra_field (ω := Bytes) f = ⟨some (.ok ()), localZip64Chunks g⟩ := by
  obtain ⟨⟨_, _, hu, hc, _, _⟩, _⟩ := h
  unfold Gen.write_local_zip64_extra_field localZip64Chunks
  wsimp
  rw [hu, hc]

/-- `write_local_file_header`: same chunks as the model, same panics (DOS year below 1980,
`u16` overflow of the extra-field length), for every entry. -/
theorem tie_write_local_file_header (f : Gen.ZipFileData) (g : FileData) (h : view f g) :
    chunks (Gen.write_local_file_header (ω := Bytes) f) = ofOut (localHeaderChunks g) := by
  have hz := tie_write_local_zip64_extra_field f g h
  obtain ⟨hv, hvm, he, ht, hcrc, hn, hx, hl, hdd⟩ := h
  have hvn := Tie.Types.tie_version_needed f g hv
  have hm := Tie.Types.tie_method_to_u16 f.compression_method
  have htp := Tie.DateTime.tie_timepart f.last_modified_time
  have hdp := Tie.DateTime.tie_datepart f.last_modified_time
  obtain ⟨_, _, hu, hc, _, hmeth⟩ := hv
  unfold Gen.write_local_file_header localHeaderChunks
  rw [hvn, hm, htp, hdp, hz, ht, he, hn, hx, hl, hcrc, hu, hc, hmeth]
  have e20 : (20 : UInt16).toNat = 20 := by decide
  have e0 : (0 : UInt16).toNat = 0 := by decide
  have hia : ∀ bs, Rs.isAscii bs = isAscii bs := fun _ => rfl
  have hthr : Rs.as' UInt32 Gen.ZIP64_BYTES_THR = 4294967295 := by decide
  have h32 : ∀ x : UInt64, Rs.as' UInt32 x = trunc32 x := fun _ => rfl
  cases hd : g.time.datepart <;> cases hlf : g.largeFile <;> cases hen : g.encrypted <;>
    cases hasc : isAscii g.fileName <;>
    wsimp [datepartOut, localExtraLen, flagOf, hd, hlf, hen, hasc, hia, len_as_u16, add_len_u16_20,
      add_len_u16_0, shl_1_11, shl_1_0, hthr, h32, Tie.Types.tie_local_sig, localZip64Chunks] <;>
    first
      | rfl
      | (split <;> rename_i hov <;> (try wsimp) <;>
          simp only [chunks, ofOut, hov, Out.bind_panic, Out.bind_ok, Out.pure_def, ↓reduceIte])

theorem bne_zero_u16 (x : UInt16) : (x != 0) = decide (x > 0) := by
  rw [Bool.eq_iff_iff, bne_iff_ne, decide_eq_true_eq, gt_iff_lt, UInt16.lt_iff_toNat_lt, ne_eq,
    ← UInt16.toNat_inj]
  have e : (0 : UInt16).toNat = 0 := by decide
  rw [e]; omega

/-- `write_central_zip64_extra_field`: the returned size is the number of bytes written and the
bytes written are the model's, for every combination of the three thresholds. -/
theorem tie_write_central_zip64_extra_field (f : Gen.ZipFileData) (g : FileData) (h : view f g) :
    (Gen.write_central_zip64_extra_field (ω := Bytes) f).res =
        some (.ok (UInt16.ofNat (centralZip64Bytes g).length)) ∧
    (Gen.write_central_zip64_extra_field (ω := Bytes) f).log.flatten = centralZip64Bytes g := by
  obtain ⟨⟨_, _, hu, hc, hh, _⟩, _⟩ := h
  unfold Gen.write_central_zip64_extra_field centralZip64Bytes
  rw [hu, hc, hh, Tie.Types.tie_bytes_thr]
  -- other spellings of the same comparisons (`!(x < T)`, `size != 0`) normalise to these
  have lt_iff : ∀ a b : UInt64, a < b ↔ ¬ (a ≥ b) := fun a b => by rw [ge_iff_le, UInt64.not_le]
  by_cases bu : g.uncompressedSize ≥ ZIP64_BYTES_THR <;>
  by_cases bc : g.compressedSize ≥ ZIP64_BYTES_THR <;>
  by_cases bh : g.headerStart ≥ ZIP64_BYTES_THR <;>
  wsimp [lt_iff, bu, bc, bh, decide_true, decide_false, decide_not, Bool.not_not, not_true_eq_false,
    not_false_eq_true, bne_zero_u16,
    Rs.Arith.add, UInt16.reduceToNat, Nat.reduceAdd,
    Nat.reduceLT, UInt16.reduceAdd, gt_iff_lt, UInt16.reduceLT, Nat.reduceEqDiff, List.length_append,
    le16_length, le64_length, List.length_nil, UInt16.reduceOfNat, List.flatten_cons,
    List.flatten_nil, List.append_assoc, and_self]

theorem centralZip64Bytes_length_le (g : FileData) : (centralZip64Bytes g).length ≤ 28 := by
  unfold centralZip64Bytes
  by_cases bu : g.uncompressedSize ≥ ZIP64_BYTES_THR <;>
  by_cases bc : g.compressedSize ≥ ZIP64_BYTES_THR <;>
  by_cases bh : g.headerStart ≥ ZIP64_BYTES_THR <;>
  simp only [bu, bc, bh, ↓reduceIte, Nat.reduceAdd, Nat.reduceEqDiff, List.length_append,
    le16_length, le64_length, List.length_nil, Nat.le_refl, Nat.reduceLeDiff, Nat.zero_le]

theorem zeros_length (n : Nat) : (Rs.zeros n).length = n := by
  simp only [Rs.zeros, List.length_replicate]

/-- The scratch-buffer call in `write_central_directory_header`. -/
theorem intoBuf_central {ω : Type} (f : Gen.ZipFileData) (g : FileData) (h : view f g) :
    Rs.W.intoBuf (ω := ω) (Rs.zeros 28) (Gen.write_central_zip64_extra_field (ω := Bytes) f) =
      ⟨some (.ok (UInt16.ofNat (centralZip64Bytes g).length,
        centralZip64Bytes g ++ (Rs.zeros 28).drop (centralZip64Bytes g).length)), []⟩ := by
  obtain ⟨hr, hl⟩ := tie_write_central_zip64_extra_field f g h
  have hle := centralZip64Bytes_length_le g
  simp only [Rs.W.intoBuf, hr, hl, zeros_length, hle, ↓reduceIte]

/-- `&buf[..n as usize]` gives back the `n` bytes the callee wrote. -/
theorem sliceTo_prefix (z rest : Bytes) (hz : z.length ≤ 28) :
    Rs.sliceTo (z ++ rest) (Rs.as' UInt64 (UInt16.ofNat z.length)) = some z := by
  have e : (Rs.as' UInt64 (UInt16.ofNat z.length)).toNat = z.length := by
    simp only [Rs.as', Rs.As.cast, UInt16.toNat_toUInt64, UInt16.toNat_ofNat']
    omega
  simp only [Rs.sliceTo, e, List.length_append, Nat.le_add_right, ↓reduceIte, List.take_left']

/-- `(n as usize + x.len())` for a Rust `Vec` (at most `isize::MAX` bytes). -/
theorem add_elen (n : Nat) (bs : Bytes) (hn : n ≤ 28) (hb : bs.length ≤ 9223372036854775807) :
    Rs.Arith.add (Rs.as' UInt64 (UInt16.ofNat n)) (Rs.len bs) = some (UInt64.ofNat (n + bs.length)) := by
  have e1 : (Rs.as' UInt64 (UInt16.ofNat n)).toNat = n := by
    simp only [Rs.as', Rs.As.cast, UInt16.toNat_toUInt64, UInt16.toNat_ofNat']
    omega
  have e2 : (Rs.len bs).toNat = bs.length := by
    simp only [Rs.len, UInt64.toNat_ofNat']
    omega
  have hlt : n + bs.length < 18446744073709551616 := by omega
  simp only [Rs.Arith.add, e1, e2, hlt, ↓reduceIte]
  refine congrArg some ?_
  apply UInt64.toNat_inj.mp
  rw [UInt64.toNat_add, e1, e2, UInt64.toNat_ofNat']

theorem tryInto_u16 (n : Nat) (hn : n < 18446744073709551616) :
    Rs.tryInto UInt16 (UInt64.ofNat n) = if n < 65536 then .ok (UInt16.ofNat n) else .error () := by
  have e : (UInt64.ofNat n).toNat = n := by
    simp only [UInt64.toNat_ofNat']; omega
  simp only [Rs.tryInto, Rs.TryInto.conv, e]
  split
  · refine congrArg Except.ok ?_
    apply UInt16.toNat_inj.mp
    rw [UInt64.toNat_toUInt16, e, UInt16.toNat_ofNat']
  · rfl

theorem min32_tie (x : UInt64) : Rs.as' UInt32 (min x Gen.ZIP64_BYTES_THR) = min32 x := rfl

theorem shl_system_8 (s : Gen.System) :
    Rs.Arith.shl (Rs.as' UInt16 s) 8 = some ((Tie.Types.systemOf s).discr <<< 8) := by
  rw [Tie.Types.tie_system_discr]
  simp only [Rs.Arith.shl, Nat.reduceLT, ↓reduceIte, UInt16.reduceOfNat]

/-- `write_central_directory_header`: same chunks as the model (the ZIP64 record is the one chunk
`centralZip64Bytes`, cut out of the 28-byte scratch buffer), `InvalidArchive` before the first
write exactly when the extra length does not fit 16 bits, same panic.  `hlen` is a fact about every
Rust `Vec` (at most `isize::MAX` bytes); it keeps the `usize` addition from overflowing. -/
theorem tie_write_central_directory_header (f : Gen.ZipFileData) (g : FileData) (h : view f g)
    (hlen : g.extraField.length ≤ 9223372036854775807) :
    chunks (Gen.write_central_directory_header (ω := Bytes) f) = ofOut (centralHeaderChunks g) := by
  have hbuf := intoBuf_central (ω := Bytes) f g h
  have hzl := centralZip64Bytes_length_le g
  obtain ⟨hv, hvm, he, ht, hcrc, hn, hx, hl, hdd⟩ := h
  have hvn := Tie.Types.tie_version_needed f g hv
  have hm := Tie.Types.tie_method_to_u16 f.compression_method
  have htp := Tie.DateTime.tie_timepart f.last_modified_time
  have hdp := Tie.DateTime.tie_datepart f.last_modified_time
  obtain ⟨hsys, hattr, hu, hc, hh, hmeth⟩ := hv
  unfold Gen.write_central_directory_header centralHeaderChunks
  simp only [hbuf, hvn, hm, htp, hdp, shl_system_8, ht, he, hn, hx, hcrc, hu, hc, hh, hmeth, hsys,
    hattr, hvm, hdd]
  have hia : ∀ bs, Rs.isAscii bs = isAscii bs := fun _ => rfl
  have h816 : ∀ x : UInt8, Rs.as' UInt16 x = x.toUInt16 := fun _ => rfl
  have hlt : (centralZip64Bytes g).length + g.extraField.length < 18446744073709551616 := by omega
  by_cases hov : (centralZip64Bytes g).length + g.extraField.length < 65536
  · have hov' : ¬ (centralZip64Bytes g).length + g.extraField.length > 65535 := by omega
    cases hd : g.time.datepart <;> cases hen : g.encrypted <;> cases hasc : isAscii g.fileName <;>
      cases hdesc : g.usingDataDescriptor <;>
      wsimp [datepartOut, centralFlagOf, flagOf, hd, hen, hasc, hdesc, hia, h816, len_as_u16, add_elen _ _ hzl hlen,
        tryInto_u16 _ hlt, hov, hov', Rs.mapErr, Rs.W.ofExcept, sliceTo_prefix _ _ hzl, min32_tie,
        shl_1_11, shl_1_0, shl_1_3, Tie.Types.tie_central_sig, chunks, ofOut, Out.bind_panic, Out.bind_ok,
        Out.pure_def]
  · have hov' : (centralZip64Bytes g).length + g.extraField.length > 65535 := by omega
    wsimp [add_elen _ _ hzl hlen, tryInto_u16 _ hlt, hov, hov', Rs.mapErr, Rs.W.ofExcept,
        chunks, ofOut, zerrOf]
/-! ### `validate_extra_data` (tier T4: a fuelled `while` loop) -/

theorem any_beq_eq_contains (l : List UInt16) (k : UInt16) : l.any (fun m => m == k) = l.contains k := by
  induction l with
  | nil => rfl
  | cons x xs ih =>
    simp only [List.any_cons, List.contains_cons, ih]
    congr 1
    exact Bool.eq_iff_iff.mpr ⟨fun h => by rw [beq_iff_eq] at h ⊢; exact h.symm,
      fun h => by rw [beq_iff_eq] at h ⊢; exact h.symm⟩

theorem tie_reserved (k : UInt16) :
    Rs.arrayAny Gen.EXTRA_FIELD_MAPPING (fun m => m == k) = validateExtraDataLoop.reservedExtraIds.contains k := by
  have e : Gen.EXTRA_FIELD_MAPPING.toList = validateExtraDataLoop.reservedExtraIds := by decide
  rw [Rs.arrayAny, e, any_beq_eq_contains]

theorem len_toNat (bs : Bytes) (h : bs.length ≤ 9223372036854775807) : (Rs.len bs).toNat = bs.length := by
  simp only [Rs.len, UInt64.toNat_ofNat']
  omega

/-- One iteration of the loop of `validate_extra_data` on a slice with a complete 4-byte header. -/
theorem loop_body_tie {ω : Type} (a b c d : UInt8) (r2 : Bytes) (hlen : r2.length + 4 ≤ 9223372036854775807) :
    Gen.validate_extra_data.loop1_body (ω := ω) (a :: b :: c :: d :: r2) =
      if mk16 a b == 0x0001 then ⟨some (.error (.Io .Other)), []⟩
      else if (decide (mk16 a b ≤ 31) || validateExtraDataLoop.reservedExtraIds.contains (mk16 a b)) then
        ⟨some (.error (.Io .Other)), []⟩
      else if (mk16 c d).toNat > r2.length then ⟨some (.error (.Io .Other)), []⟩
      else ⟨some (.ok (r2.drop (mk16 c d).toNat)), []⟩ := by
  have hl : (Rs.len (a :: b :: c :: d :: r2)).toNat = r2.length + 4 := by
    rw [len_toNat _ (by simpa using hlen)]; simp only [List.length_cons]
  have e4 : (4 : UInt64).toNat = 4 := by decide
  have h1 : ¬ (Rs.len (a :: b :: c :: d :: r2) < 4) := by
    rw [UInt64.lt_iff_toNat_lt, hl, e4]; omega
  have h2 : Rs.Arith.sub (Rs.len (a :: b :: c :: d :: r2)) (4 : UInt64) = some (UInt64.ofNat r2.length) := by
    have : (4 : UInt64).toNat ≤ (Rs.len (a :: b :: c :: d :: r2)).toNat := by rw [hl, e4]; omega
    simp only [Rs.Arith.sub, this, ↓reduceIte]
    refine congrArg some ?_
    apply UInt64.toNat_inj.mp
    rw [UInt64.toNat_sub_of_le _ _ (UInt64.le_iff_toNat_le.mpr this), hl, e4, UInt64.toNat_ofNat']
    omega
  have h3 : ∀ s : UInt16, (Rs.as' UInt64 s > UInt64.ofNat r2.length) ↔ s.toNat > r2.length := by
    intro s
    rw [gt_iff_lt, UInt64.lt_iff_toNat_lt, UInt64.toNat_ofNat']
    simp only [Rs.as', Rs.As.cast, UInt16.toNat_toUInt64]
    have : r2.length % 2 ^ 64 = r2.length := by omega
    rw [this]
  have h4 : ∀ s : UInt16, s.toNat ≤ r2.length → Rs.sliceFrom r2 (Rs.as' UInt64 s) = some (r2.drop s.toNat) := by
    intro s hs
    simp only [Rs.sliceFrom, Rs.as', Rs.As.cast, UInt16.toNat_toUInt64, hs, ↓reduceIte]
  unfold Gen.validate_extra_data.loop1_body
  wsimp [h1, h2, decide_false, decide_true, Rs.W.read_u16, rd16, tie_reserved, h3]
  by_cases hk : mk16 a b == 1
  · wsimp [hk]
  · by_cases hr : (decide (mk16 a b ≤ 31) || validateExtraDataLoop.reservedExtraIds.contains (mk16 a b)) = true
    · wsimp [hk, hr]
    · by_cases hs : (mk16 c d).toNat > r2.length
      · wsimp [hk, hr, hs, decide_true]
      · wsimp [hk, hr, hs, decide_false, h4 (mk16 c d) (by omega)]
/-- A non-empty slice shorter than a record header ends the loop with `Io(Other)`. -/
theorem loop_body_short {ω : Type} (data : Bytes) (h : data.length < 4) :
    Gen.validate_extra_data.loop1_body (ω := ω) data = ⟨some (.error (.Io .Other)), []⟩ := by
  have e4 : (4 : UInt64).toNat = 4 := by decide
  have h1 : Rs.len data < 4 := by
    rw [UInt64.lt_iff_toNat_lt, len_toNat _ (by omega), e4]; exact h
  unfold Gen.validate_extra_data.loop1_body
  wsimp [h1, decide_true]

/-- Outcome of the translated loop as the model states it (the final slice is dropped). -/
def loopOutcome {ω : Type} (x : Rs.W ω Bytes) : Option (Except ZErr Unit) :=
  x.res.map fun r => match r with
    | .ok _ => .ok ()
    | .error e => .error (zerrOf e)

theorem whileLoop_succ {ω σ : Type} (c : σ → Rs.W ω Bool) (b : σ → Rs.W ω σ) (n : Nat) (s : σ) :
    Rs.W.whileLoop c b (n + 1) s =
      (c s).bind fun t => if t then (b s).bind fun s' => Rs.W.whileLoop c b n s' else ⟨some (.ok s), []⟩ := by
  rfl

/-- The translated loop agrees with the model's loop whenever the fuel exceeds the slice length; in
particular the generated fuel `data.len() + 1` is adequate (no out-of-fuel panic) and nothing is
written. -/
theorem loop_tie {ω : Type} : ∀ (n : Nat) (data : Bytes), data.length < n →
    data.length ≤ 9223372036854775807 →
    (Rs.W.whileLoop (ω := ω) Gen.validate_extra_data.loop1_cond Gen.validate_extra_data.loop1_body n data).log = [] ∧
    loopOutcome (Rs.W.whileLoop (ω := ω) Gen.validate_extra_data.loop1_cond
      Gen.validate_extra_data.loop1_body n data) = some (validateExtraDataLoop n data) := by
  intro n
  induction n with
  | zero => intro data h; omega
  | succ n ih =>
    intro data hf hl
    have hz : zerrOf (.Io .Other) = .io .other := rfl
    rw [whileLoop_succ]
    unfold validateExtraDataLoop
    match data, hf, hl with
    | [], _, _ =>
      wsimp [Gen.validate_extra_data.loop1_cond, Rs.isEmpty, List.isEmpty_nil, loopOutcome, Option.map_some,
        and_self]
    | [a], _, _ =>
      wsimp [Gen.validate_extra_data.loop1_cond, Rs.isEmpty, List.isEmpty_cons, loop_body_short _ (show [a].length < 4 by simp only [List.length_cons, List.length_nil]; omega),
        loopOutcome, Option.map_some, hz, List.length_cons, List.length_nil, Nat.reduceAdd, Nat.reduceLT, and_self]
    | [a, b], _, _ =>
      wsimp [Gen.validate_extra_data.loop1_cond, Rs.isEmpty, List.isEmpty_cons, loop_body_short _ (show [a, b].length < 4 by simp only [List.length_cons, List.length_nil]; omega),
        loopOutcome, Option.map_some, hz, List.length_cons, List.length_nil, Nat.reduceAdd, Nat.reduceLT, and_self]
    | [a, b, c], _, _ =>
      wsimp [Gen.validate_extra_data.loop1_cond, Rs.isEmpty, List.isEmpty_cons, loop_body_short _ (show [a, b, c].length < 4 by simp only [List.length_cons, List.length_nil]; omega),
        loopOutcome, Option.map_some, hz, List.length_cons, List.length_nil, Nat.reduceAdd, Nat.reduceLT, and_self]
    | a :: b :: c :: d :: r2, hf, hl =>
      have hl' : r2.length + 4 ≤ 9223372036854775807 := by simpa using hl
      have hn4 : ¬ ((a :: b :: c :: d :: r2).length < 4) := by simp only [List.length_cons]; omega
      rw [loop_body_tie a b c d r2 hl']
      wsimp [Gen.validate_extra_data.loop1_cond, Rs.isEmpty, List.isEmpty_cons, hn4, rd16]
      by_cases hk : mk16 a b == 1
      · wsimp [hk, loopOutcome, Option.map_some, hz, and_self]
      · by_cases hr : (decide (mk16 a b ≤ 31) || validateExtraDataLoop.reservedExtraIds.contains (mk16 a b)) = true
        · wsimp [hk, hr, loopOutcome, Option.map_some, hz, and_self]
        · by_cases hs : (mk16 c d).toNat > r2.length
          · wsimp [hk, hr, hs, loopOutcome, Option.map_some, hz, and_self]
          · have hd : (r2.drop (mk16 c d).toNat).length < n := by
              simp only [List.length_drop, List.length_cons] at hf ⊢; omega
            have hd' : (r2.drop (mk16 c d).toNat).length ≤ 9223372036854775807 := by
              simp only [List.length_drop]; omega
            obtain ⟨i1, i2⟩ := ih _ hd hd'
            wsimp [hk, hr, hs]
            exact ⟨i1, i2⟩

/-- `validate_extra_data`: the model's verdict for every entry, nothing written, no panic; the
fuel `data.len() + 1` the translator generated for the `while` loop is adequate. -/
theorem tie_validate_extra_data {ω : Type} (f : Gen.ZipFileData) (g : FileData) (h : view f g)
    (hlen : g.extraField.length ≤ 9223372036854775807) :
    (Gen.validate_extra_data (ω := ω) f).log = [] ∧
    (Gen.validate_extra_data (ω := ω) f).res.map (Except.mapError zerrOf) = some (validateExtraData g) := by
  obtain ⟨_, _, _, _, _, _, hx, hl, _⟩ := h
  unfold Gen.validate_extra_data validateExtraData
  rw [hx, hl]
  obtain ⟨i1, i2⟩ := loop_tie (ω := ω) (g.extraField.length + 1) g.extraField (by omega) hlen
  have hadd : ∀ k : UInt64, k.toNat ≤ 20 →
      Rs.Arith.add (Rs.len g.extraField) k = some (UInt64.ofNat (g.extraField.length + k.toNat)) := by
    intro k hk
    have hl := len_toNat _ hlen
    have hlt : (Rs.len g.extraField).toNat + k.toNat < 18446744073709551616 := by omega
    simp only [Rs.Arith.add, hlt, ↓reduceIte]
    refine congrArg some ?_
    apply UInt64.toNat_inj.mp
    rw [UInt64.toNat_add, hl, UInt64.toNat_ofNat']
  have hgt : ∀ m : Nat, m < 18446744073709551616 →
      (UInt64.ofNat m > Gen.ZIP64_ENTRY_THR ↔ m > 65535) := by
    intro m hm
    have e : Gen.ZIP64_ENTRY_THR.toNat = 65535 := by decide
    rw [gt_iff_lt, UInt64.lt_iff_toNat_lt, e, UInt64.toNat_ofNat']
    have : m % 2 ^ 64 = m := by omega
    rw [this]
  have e20 : (20 : UInt64).toNat = 20 := by decide
  have e0 : (0 : UInt64).toNat = 0 := by decide
  dsimp only
  generalize Rs.W.whileLoop (ω := ω) Gen.validate_extra_data.loop1_cond Gen.validate_extra_data.loop1_body
    (g.extraField.length + 1) g.extraField = x at i1 i2 ⊢
  obtain ⟨r, l⟩ := x
  simp only at i1
  subst i1
  cases hlf : g.largeFile
  · by_cases hov : g.extraField.length + 0 > 65535
    · wsimp [hadd 0 (by omega), e0, hgt (g.extraField.length + 0) (by omega), hov, decide_true, Option.map_some,
        Except.mapError, zerrOf, and_self]
    · cases r with
      | none => simp only [loopOutcome, Option.map_none] at i2; cases i2
      | some r =>
        cases r <;>
        simp only [loopOutcome, Option.map_some, Option.some.injEq] at i2 <;>
        wsimp [hadd 0 (by omega), e0, hgt (g.extraField.length + 0) (by omega), hov, decide_false, Option.map_some,
          Except.mapError, ← i2, and_self]
  · by_cases hov : g.extraField.length + 20 > 65535
    · wsimp [hadd 20 (by omega), e20, hgt (g.extraField.length + 20) (by omega), hov, decide_true, Option.map_some,
        Except.mapError, zerrOf, and_self]
    · cases r with
      | none => simp only [loopOutcome, Option.map_none] at i2; cases i2
      | some r =>
        cases r <;>
        simp only [loopOutcome, Option.map_some, Option.some.injEq] at i2 <;>
        wsimp [hadd 20 (by omega), e20, hgt (g.extraField.length + 20) (by omega), hov, decide_false, Option.map_some,
          Except.mapError, ← i2, and_self]

/-! ### `update_local_file_header` / `update_local_zip64_extra_field` (`T: Write + Seek`)

The translated functions log `seek pos | write bytes` actions.  The model (`Model.updateLocalHeader`)
is written in continuation style over the I/O monad with positions in `Nat`; `ioActs` replays an
action list in that style, and the Tie shows the model is exactly the replay of the translated
function's actions.  The `u64` position arithmetic of the source is checked, the model's is not:
the hypothesis `hpos` (the patched fields lie below 2^64) is where they agree. -/

/-- Replay a list of sink actions in the style of `Model.Writer` (`io s … fun _ => …`). -/
def ioActs {β : Type} (s : WState) : List Rs.Act → (Unit → M (Except ZErr β × WState)) →
    M (Except ZErr β × WState)
  | [], k => k ()
  | .seek p :: as, k => io s (M.seek (.start p.toNat)) fun _ => ioActs s as k
  | .write b :: as, k => io s (M.writeAll b) fun _ => ioActs s as k

theorem add_u64 (a b : UInt64) (h : a.toNat + b.toNat < 18446744073709551616) :
    Rs.Arith.add a b = some (a + b) ∧ (a + b).toNat = a.toNat + b.toNat := by
  refine ⟨by simp only [Rs.Arith.add, h, ↓reduceIte], ?_⟩
  rw [UInt64.toNat_add]; omega

theorem tie_update_local_zip64_extra_field (f : Gen.ZipFileData) (g : FileData) (h : view f g)
    (hpos : g.headerStart.toNat + 34 + g.fileName.length < 18446744073709551616) :
    ∃ p : UInt64, p.toNat = g.headerStart.toNat + 30 + g.fileName.length + 4 ∧
      Gen.update_local_zip64_extra_field (ω := Rs.Act) f =
        ⟨some (.ok ()), [.seek p, .write (le64 g.uncompressedSize), .write (le64 g.compressedSize)]⟩ := by
  obtain ⟨⟨_, _, hu, hc, hh, _⟩, _, _, _, _, hn, _, _⟩ := h
  have e30 : (30 : UInt64).toNat = 30 := by decide
  have e4 : (4 : UInt64).toNat = 4 := by decide
  have hl : (Rs.as' UInt64 (Rs.len g.fileName)).toNat = g.fileName.length := by
    simp only [Rs.as', Rs.As.cast, id, Rs.len, UInt64.toNat_ofNat']; omega
  obtain ⟨a1, b1⟩ := add_u64 g.headerStart 30 (by rw [e30]; omega)
  obtain ⟨a2, b2⟩ := add_u64 (g.headerStart + 30) (Rs.as' UInt64 (Rs.len g.fileName)) (by rw [b1, e30, hl]; omega)
  obtain ⟨a3, b3⟩ := add_u64 (g.headerStart + 30 + Rs.as' UInt64 (Rs.len g.fileName)) 4 (by rw [b2, b1, e30, hl, e4]; omega)
  refine ⟨g.headerStart + 30 + Rs.as' UInt64 (Rs.len g.fileName) + 4, by rw [b3, b2, b1, e30, hl, e4], ?_⟩
  unfold Gen.update_local_zip64_extra_field
  rw [hu, hc, hh, hn]
  wsimp [a1, a2, a3, Rs.W.seek_start, Rs.SeekSink.ofSeek]

theorem tie_update_local_file_header (f : Gen.ZipFileData) (g : FileData) (h : view f g)
    (hpos : g.headerStart.toNat + 34 + g.fileName.length < 18446744073709551616) :
    ∃ acts : List Rs.Act, ∃ r : Except Rs.ZipErr Unit,
      Gen.update_local_file_header (ω := Rs.Act) f = ⟨some r, acts⟩ ∧
      ∀ {β : Type} (s : WState) (k : Unit → M (Except ZErr β × WState)),
        updateLocalHeader s g k = ioActs s acts fun _ =>
          match r with
          | .ok () => k ()
          | .error e => pure (.error (zerrOf e), s) := by
  obtain ⟨p, hp, hz⟩ := tie_update_local_zip64_extra_field f g h hpos
  obtain ⟨⟨_, _, hu, hc, hh, _⟩, _, _, _, hcrc, hn, _, hl, _⟩ := h
  have e14 : (14 : UInt64).toNat = 14 := by decide
  obtain ⟨a1, b1⟩ := add_u64 g.headerStart 14 (by rw [e14]; omega)
  have h32 : ∀ x : UInt64, Rs.as' UInt32 x = trunc32 x := fun _ => rfl
  unfold Gen.update_local_file_header
  rw [hz, hu, hc, hh, hcrc, hl, Tie.Types.tie_bytes_thr]
  cases hlf : g.largeFile
  · by_cases hgt : g.compressedSize > ZIP64_BYTES_THR
    · refine ⟨[], .error (.Io .Other), ?_, ?_⟩
      · wsimp [a1, hgt, decide_true, Rs.W.seek_start, Rs.SeekSink.ofSeek, Bool.not_false, Bool.and_self]
      · intro β s k
        simp only [updateLocalHeader, ioActs, hlf, hgt, b1, e14, ↓reduceIte, Bool.false_eq_true, zerrOf,
          Bool.not_false, decide_true, Bool.and_self]
    · refine ⟨[.seek (g.headerStart + 14), .write (le32 g.crc32), .write (le32 (trunc32 g.compressedSize)),
        .write (le32 (trunc32 g.uncompressedSize))], .ok (), ?_, ?_⟩
      · wsimp [a1, hgt, decide_false, Rs.W.seek_start, Rs.SeekSink.ofSeek, h32, Bool.not_false, Bool.and_false]
      · intro β s k
        simp only [updateLocalHeader, ioActs, hlf, hgt, b1, e14, ↓reduceIte, Bool.false_eq_true,
          Bool.not_false, decide_false, Bool.and_false]
  · refine ⟨[.seek (g.headerStart + 14), .write (le32 g.crc32), .seek p, .write (le64 g.uncompressedSize),
      .write (le64 g.compressedSize)], .ok (), ?_, ?_⟩
    · wsimp [a1, Rs.W.seek_start, Rs.SeekSink.ofSeek, Bool.not_true, Bool.false_and]
    · intro β s k
      simp only [updateLocalHeader, ioActs, hlf, b1, e14, hp, ↓reduceIte, Bool.not_true, Bool.false_and,
        Bool.false_eq_true]

/-! ### non-vacuity: concrete instances of the hypotheses, evaluated -/

/-- A large-file entry with every ZIP64 threshold exceeded, a non-ASCII name and extra data. -/
def sample : Gen.ZipFileData :=
  { system := .Unix, version_made_by := 46, encrypted := true, using_data_descriptor := false,
    compression_method := .Deflated, compression_level := some 9, data_start := 0x2_0000_0100,
    last_modified_time := { year := 2024, month := 2, day := 29, hour := 23, minute := 59, second := 58 },
    crc32 := 0xDEADBEEF, compressed_size := 0x1_0000_0000, uncompressed_size := 0xFFFF_FFFF,
    file_name := [0xC3, 0xA9], file_name_raw := [0xC3, 0xA9], extra_field := [0xCA, 0xFE, 0, 0],
    file_comment := [], header_start := 0x2_0000_0000, central_header_start := 0,
    external_attributes := 0x81A40000, large_file := true, aes_mode := none }

example : view sample (dataOf sample) := view_dataOf sample
example : (dataOf sample).extraField.length ≤ 9223372036854775807 := by decide
example : (dataOf sample).headerStart.toNat + 34 + (dataOf sample).fileName.length <
    18446744073709551616 := by decide
example : (Gen.write_central_zip64_extra_field (ω := Bytes) sample).res = some (.ok 28) := rfl
example : ((Gen.write_local_file_header (ω := Bytes) sample).log.map List.length) =
    [4, 2, 2, 2, 2, 2, 4, 4, 4, 2, 2, 2, 2, 2, 8, 8] := rfl
example : (Gen.validate_extra_data (ω := Unit) sample).res = some (.ok ()) := rfl
example : (Gen.validate_extra_data (ω := Unit) { sample with extra_field := [1, 0, 0, 0] }).res =
    some (.error (.Io .Other)) := rfl
example : (Gen.update_local_file_header (ω := Rs.Act) sample).log.length = 5 := rfl

end ZipVerif.Tie.Records
