import ZipVerif.Gen.Spec
import ZipVerif.Model.Records
import ZipVerif.Tie.Types
/-
Tie obligations for the end-of-central-directory records (translator tier T3): the serialisers
regenerated from /repo/src/spec.rs on this run (`Gen.CentralDirectoryEnd.write`,
`Gen.Zip64CentralDirectoryEnd.write`, `Gen.Zip64CentralDirectoryEndLocator.write`) hand exactly the
model's chunk lists (`eocdChunks`, `eocd64Chunks`, `locatorChunks`) to the sink, one chunk per Rust
call, in order, for every record value; `record_too_small` is the model's predicate.
A source edit that swaps, drops, retypes or adds a field write, or changes a signature or the
constant record size, breaks one of these.
-/
set_option linter.unusedSimpArgs false

namespace ZipVerif.Tie.SpecRecords
open ZipVerif ZipVerif.Model

/-! ### conversions and outcome projection shared by the T3/T4 Tie modules -/

/-- The model's error type for a generated `ZipError`. -/
def zerrOf : Rs.ZipErr → ZErr
  | .Io .Other => .io .other
  | .Io .InvalidData => .io .invalidData
  | .Io .InvalidInput => .io .invalidInput
  | .Io .UnexpectedEof => .io .unexpectedEof
  | .Io .WriteZero => .io .writeZero
  | .Io .BrokenPipe => .io .brokenPipe
  | .InvalidArchive => .invalidArchive
  | .UnsupportedArchive => .unsupportedArchive
  | .FileNotFound => .fileNotFound
  | .PasswordRequired => .passwordRequired

/-- Outcome of a translated writer function as the model states it: the chunk list on success,
the error, or a panic (the model's panic-site string is not part of the comparison). -/
def outcome {α} (x : Rs.W Bytes α) : Option (Except ZErr (α × List Bytes)) :=
  match x with
  | ⟨some (.ok a), l⟩ => some (.ok (a, l))
  | ⟨some (.error e), _⟩ => some (.error (zerrOf e))
  | ⟨none, _⟩ => none

/-- The same projection of a model outcome. -/
def ofOut {α} : Out α → Option (Except ZErr α)
  | .ok a => some (.ok a)
  | .err e => some (.error e)
  | .panic _ => none

@[simp] theorem outcome_ok {α} (a : α) (l : List Bytes) :
    outcome (⟨some (.ok a), l⟩ : Rs.W Bytes α) = some (.ok (a, l)) := rfl

/-- `x.len() as u16` -/
theorem len_as_u16 (bs : Bytes) : Rs.as' UInt16 (Rs.len bs) = UInt16.ofNat bs.length := by
  apply UInt16.toNat_inj.mp
  simp only [Rs.as', Rs.As.cast, Rs.len, UInt64.toNat_toUInt16, UInt64.toNat_ofNat',
    UInt16.toNat_ofNat']
  omega

def eocdOf (e : Gen.CentralDirectoryEnd) : Eocd :=
  { diskNumber := e.disk_number, diskWithCd := e.disk_with_central_directory,
    filesOnDisk := e.number_of_files_on_this_disk, files := e.number_of_files,
    cdSize := e.central_directory_size, cdOffset := e.central_directory_offset,
    comment := e.zip_file_comment }

def eocd64Of (e : Gen.Zip64CentralDirectoryEnd) : Eocd64 :=
  { versionMadeBy := e.version_made_by, versionNeeded := e.version_needed_to_extract,
    diskNumber := e.disk_number, diskWithCd := e.disk_with_central_directory,
    filesOnDisk := e.number_of_files_on_this_disk, files := e.number_of_files,
    cdSize := e.central_directory_size, cdOffset := e.central_directory_offset }

def locatorOf (l : Gen.Zip64CentralDirectoryEndLocator) : Locator :=
  { diskWithCd := l.disk_with_central_directory, eocd64Offset := l.end_of_central_directory_offset,
    disks := l.number_of_disks }

/-- `CentralDirectoryEnd::write`.  (Proof: every primitive becomes an explicit ⟨outcome, log⟩ pair
and `bind` concatenates the logs; the result is compared with the model's list as a list.) -/
theorem tie_eocd_write (e : Gen.CentralDirectoryEnd) :
    Gen.CentralDirectoryEnd.write (ω := Bytes) e = ⟨some (.ok ()), eocdChunks (eocdOf e)⟩ := by
  simp only [Gen.CentralDirectoryEnd.write, Rs.W.write_u16, Rs.W.write_u32, Rs.W.write_all,
    Rs.W.emit, Rs.Sink.ofBytes, Rs.W.bind_def, Rs.W.bind_ok, Rs.W.pre_mk, Rs.W.pure_def,
    List.cons_append, List.nil_append, len_as_u16, Rs.le16, Rs.le32, id,
    Tie.Types.tie_eocd_sig, eocdChunks, eocdOf]

theorem tie_eocd64_write (e : Gen.Zip64CentralDirectoryEnd) :
    Gen.Zip64CentralDirectoryEnd.write (ω := Bytes) e = ⟨some (.ok ()), eocd64Chunks (eocd64Of e)⟩ := by
  simp only [Gen.Zip64CentralDirectoryEnd.write, Rs.W.write_u16, Rs.W.write_u32, Rs.W.write_u64,
    Rs.W.emit, Rs.Sink.ofBytes, Rs.W.bind_def, Rs.W.bind_ok, Rs.W.pre_mk, Rs.W.pure_def,
    List.cons_append, List.nil_append, Rs.le16, Rs.le32, Rs.le64, id,
    Tie.Types.tie_eocd64_sig, eocd64Chunks, eocd64Of]

theorem tie_locator_write (l : Gen.Zip64CentralDirectoryEndLocator) :
    Gen.Zip64CentralDirectoryEndLocator.write (ω := Bytes) l =
      ⟨some (.ok ()), locatorChunks (locatorOf l)⟩ := by
  simp only [Gen.Zip64CentralDirectoryEndLocator.write, Rs.W.write_u32, Rs.W.write_u64,
    Rs.W.emit, Rs.Sink.ofBytes, Rs.W.bind_def, Rs.W.bind_ok, Rs.W.pre_mk, Rs.W.pure_def,
    List.cons_append, List.nil_append, Rs.le32, Rs.le64, id,
    Tie.Types.tie_locator_sig, locatorChunks, locatorOf]

theorem tie_record_too_small (e : Gen.CentralDirectoryEnd) :
    Gen.CentralDirectoryEnd.record_too_small e = some (eocdOf e).recordTooSmall := rfl

end ZipVerif.Tie.SpecRecords
