import ZipVerif.Tie.ReaderGlue2

/-
Tie obligation for the STREAMING reader's header function `read_zipfile_from_stream` (src/read.rs; translator tier
T6, helper t6r2; vocabulary in `Basic/RsM.lean` + `Basic/RsGlue.lean`).

  tie_read_zipfile_from_stream
      (Option.map fileView) <$> Gen.read_zipfile_from_stream ext =
        streamHeader >>= fun h => match h with
          | none => pure none
          | some f => match streamReader f with
            | some r => pure (some (f, false, none, r))
            | none => panic
      for every `ext` (the function passes no password, so the external layer constructors are never called):
      signature dispatch (central-directory signature → `Ok(None)`, anything but the local signature →
      InvalidArchive), the local header's fields read in order with their widths, the name decoded by flag bit 11,
      the record as constructed (`header_start`, `data_start`, `central_header_start`, `external_attributes` zero,
      no comment), `parse_extra_field` (I/O-kind errors of the cursor ignored, others returned), encrypted → refused,
      data descriptor → refused, method 99 left in place / unsupported → refused by `make_crypto_reader`, and the
      handle: the entry OWNED by the handle (so that dropping it drains the entry), no pending decryption layer,
      `reader = make_reader(method, crc32, Plaintext(take(compressed_size)))`
  streamHeader_reader_some
      every entry `streamHeader` returns has a reader (`streamReader f ≠ none`): the panic arm above is unreachable
-/
set_option linter.unusedSimpArgs false
set_option linter.unusedVariables false

namespace ZipVerif.Tie.StreamGlue
open ZipVerif ZipVerif.Model ZipVerif.Tie.SpecRecords ZipVerif.Tie.Records ZipVerif.Tie.Parsers
  ZipVerif.Tie.ReaderGlue ZipVerif.Tie.ReaderGlue2

/-- the reader `read_zipfile_from_stream` puts into the handle of an entry: `make_reader` over the plaintext layer
over a `Take` limited to the entry's compressed size -/
def streamReader (f : FileData) : Option Gen.ZipFileReader :=
  (decoderChoice f.method).map (readerOf f.crc32 (.Plaintext ⟨f.compressedSize⟩))

/-- The end of `read_zipfile_from_stream`, after `parse_extra_field`. -/
theorem stream_fin (ext : GExt) (s : Gen.ZipFileData) (enc udd : Bool) :
    ((if enc = true then (M.throw ZErr.unsupportedArchive : M (Option Gen.ZipFile))
      else if udd = true then M.throw ZErr.unsupportedArchive
      else do
        let t21 ← Gen.make_crypto_reader ext s.compression_method s.crc32 s.last_modified_time
          s.using_data_descriptor (Rs.R.take s.compressed_size) none none s.compressed_size
        let t22 ← Rs.R.lift (Rs.unwrapRes t21)
        let t23 ← Rs.R.lift (Gen.make_reader s.compression_method s.crc32 t22)
        pure (some (Gen.ZipFile.mk (Rs.Cow.Owned s) none t23))) >>= fun a =>
      pure (Option.map fileView a)) =
    ((if enc = true then M.throw ZErr.unsupportedArchive
      else if udd = true then M.throw ZErr.unsupportedArchive
      else match (dataOf s).method with
        | .unsupported _ => M.throw ZErr.unsupportedArchive
        | .aes => M.throw ZErr.unsupportedArchive
        | _ => pure (some (dataOf s))) >>= fun h =>
      match h with
      | none => pure none
      | some f => match streamReader f with
        | some r => pure (some (f, false, none, r))
        | none => M.panic "rs2lean: checked operation") := by
  cases enc
  · cases udd
    · simp only [Bool.false_eq_true, ↓reduceIte, pure_bind, bind_assoc]
      rw [tie_make_crypto_reader]
      have hm : (dataOf s).method = Tie.Types.methodOf s.compression_method := rfl
      unfold streamReader
      rw [hm]
      cases hc : s.compression_method <;>
        simp only [cryptoChoice, Tie.Types.methodOf, runChoice, aesInfoOf, Option.map, M.throw_bind, pure_bind,
          Rs.unwrapRes, Rs.R.lift, tie_make_reader, decoderChoice, hm, hc] <;>
        rfl
    · rfl
  · rfl

/-- `read_zipfile_from_stream` -/
theorem tie_read_zipfile_from_stream (ext : GExt) :
    (Option.map fileView) <$> Gen.read_zipfile_from_stream ext =
      (Model.streamHeader >>= fun h =>
        match h with
        | none => pure none
        | some f => match streamReader f with
          | some r => pure (some (f, false, none, r))
          | none => M.panic "rs2lean: checked operation") := by
  unfold Gen.read_zipfile_from_stream Model.streamHeader
  msimp [shl_1_11, shl_1_3, as_u16_u64_toNat]
  refine bind_congr fun sig => ?_
  have hL : Gen.LOCAL_FILE_HEADER_SIGNATURE = LOCAL_SIG := rfl
  have hC : Gen.CENTRAL_DIRECTORY_HEADER_SIGNATURE = CENTRAL_SIG := rfl
  rw [hL, hC]
  by_cases hl : (sig == LOCAL_SIG) = true
  · have hsig : sig = LOCAL_SIG := eq_of_beq hl
    have hc : (sig == CENTRAL_SIG) = false := by rw [hsig]; decide
    have hn : (sig != LOCAL_SIG) = false := by rw [hsig]; decide
    rw [if_pos hl, hc, hn]
    simp only [Bool.false_eq_true, ↓reduceIte]
    refine bind_congr fun vmb => bind_congr fun flags => bind_congr fun cm => ?_
    obtain ⟨m, hm, hmm⟩ := from_u16_some cm
    simp only [hm, pure_bind]
    refine bind_congr fun t => bind_congr fun d => bind_congr fun crc => bind_congr fun csz =>
      bind_congr fun usz => bind_congr fun nlen => bind_congr fun xlen => bind_congr fun name => ?_
    refine M.readExact_bind_congr _ _ _ fun extra hextra => ?_
    have hshr : Rs.Arith.shr vmb 8 = some (vmb >>> 8) := rfl
    obtain ⟨sys, hsys, hsysm⟩ := from_u8_some (Rs.as' UInt8 (vmb >>> 8))
    obtain ⟨dt, hdt, hdtm⟩ := from_msdos_some d t
    have hlossy : ∀ raw, Rs.fromUtf8Lossy raw = Text.decodeToUtf8 true raw := fun _ => rfl
    have hcp : ∀ raw, Rs.fromCp437 raw = Text.decodeToUtf8 false raw := fun _ => rfl
    cases hutf : (flags &&& 2048 != 0) <;>
    simp only [hshr, hsys, hdt, pure_bind, hlossy, hcp] <;>
    generalize hpe : parseExtraField _ _ _ = pe <;>
    generalize hG : Gen.ZipFileData.mk _ _ _ _ _ _ _ _ _ _ _ _ _ _ _ _ _ _ _ _ = G <;>
    (have hx16 := UInt16.toNat_lt xlen
     have hGx : G.extra_field = extra := by rw [← hG]
     have key := tie_parse_extra_field G (by rw [hGx, hextra]; omega)
     have hGd : parseExtraField (G.extra_field.length + 1) (dataOf G) G.extra_field = pe := by
       rw [← hpe, ← hG]
       simp only [dataOf, hsysm, hmm, hdtm, UInt64.ofNat_toNat]
       rfl
     rw [hGd] at key
     generalize hrun : Rs.P.run (Gen.parse_extra_field G) = r at key
     simp only [Rs.R.runP, hrun]
     obtain ⟨o, s⟩ := r
     cases o with
     | none => cases key
     | some res =>
       cases res with
       | ok u =>
         simp only [pefRes, Option.some.injEq] at key
         subst key
         simp only [pure_bind]
         exact stream_fin ext s _ _
       | error e =>
         simp only [pefRes, Option.some.injEq] at key
         subst key
         cases e with
         | Io k =>
           cases k <;> simp only [pure_bind, Rs.zerr, zerrOf] <;> exact stream_fin ext s _ _
         | _ => simp only [pure_bind, Rs.zerr, zerrOf, M.throw_bind])
  · rw [if_neg hl]
    by_cases hc : (sig == CENTRAL_SIG) = true
    · rw [if_pos hc, if_pos hc]; rfl
    · have hn : (sig != LOCAL_SIG) = true := by
        simp only [bne, hl, Bool.not_false]
      rw [if_neg hc, if_neg hc, if_pos hn]

/-- Every entry `streamHeader` returns has a reader: the panic arm of `tie_read_zipfile_from_stream` (the `panic!` of
`make_reader`) is unreachable - methods without a decoder are refused with `UnsupportedArchive` first. -/
theorem streamHeader_reader_some :
    Post (fun h => ∀ f, h = some f → streamReader f ≠ none) Model.streamHeader := by
  unfold Model.streamHeader
  apply Post.bind_any; intro sig
  apply Post.ite
  · exact Post.pure (fun f hf => by cases hf)
  · apply Post.ite
    · exact Post.throw _
    · apply Post.bind_any; intro _
      apply Post.bind_any; intro flags
      apply Post.bind_any; intro _
      apply Post.bind_any; intro _
      apply Post.bind_any; intro _
      apply Post.bind_any; intro _
      apply Post.bind_any; intro _
      apply Post.bind_any; intro _
      apply Post.bind_any; intro _
      apply Post.bind_any; intro _
      apply Post.bind_any; intro _
      apply Post.bind_any; intro extra
      dsimp only
      generalize parseExtraField _ _ _ = pe
      obtain ⟨result, perr⟩ := pe
      have fin : Post (fun h => ∀ f, h = some f → streamReader f ≠ none)
          (if (flags &&& 1 == 1) = true then (M.throw ZErr.unsupportedArchive : M (Option FileData))
           else if (flags &&& (0x0008 : UInt16) != 0) = true then M.throw ZErr.unsupportedArchive
           else match result.method with
             | .unsupported _ => M.throw ZErr.unsupportedArchive
             | .aes => M.throw ZErr.unsupportedArchive
             | _ => pure (some result)) := by
        apply Post.ite
        · exact Post.throw _
        · apply Post.ite
          · exact Post.throw _
          · cases hm : result.method <;> first
              | exact Post.throw _
              | (refine Post.pure (fun f hf => ?_)
                 cases hf
                 simp only [streamReader, hm, decoderChoice, Option.map, ne_eq, reduceCtorEq, not_false_eq_true])
      rcases perr with _ | e
      · exact fin
      · cases e with
        | io k => exact fin
        | _ => exact Post.throw _

end ZipVerif.Tie.StreamGlue
