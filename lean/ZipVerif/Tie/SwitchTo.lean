import ZipVerif.Gen.SwitchTo
import ZipVerif.Tie.WriterSM
/-
Tie obligation for `GenericZipWriter::switch_to` (src/write.rs; helper t6w3, `rs2lean/src/t6w3.rs`, item kind
`gfn`) - the crate's own logic INSIDE the compressor stack, which C12 talks about: the early return when the
requested method is the current one, `BrokenPipe` on a closed writer, `mem::replace(self, Closed)` BEFORE the
running encoder is finished (so every refusal and every failed `finish()?` leaves the writer `Closed`), which
level range belongs to which method (`deflate_compression_level_range` = flate2 none..=best,
`bzip2_compression_level_range` = bzip2 fast..=best, zstd the library's range, each with its default), the
refusal of a level for `Stored`, of `AES` and of `Unsupported(_)`, the new encoder started on the taken-out writer.

`rs2lean` regenerates `Gen.GenericZipWriter.switch_to`, `.current_compression`, `Gen.clamp_opt`,
`Gen.deflate_compression_level_range`, `Gen.bzip2_compression_level_range` (`Gen/SwitchTo.lean`) on every run.

  tie_switch_to        absI <$> Rs.S.run (Gen.GenericZipWriter.switch_to ext z m l) = Rs.S.switch_to ext z.toInner m l
                       an EQUATION of `M` computations for every Rust value `z` of the enum, every method and
                       level, every device and fault index (same I/O calls, outcome, error, final stack, device;
                       neither side can panic).  `Rs.S.switch_to` is the name the translated `ZipWriter` methods
                       call (`Gen/Writer.lean`) and `Tie/WriterSM.lean` reads as the model's `switchTo`
                       (`switchTo_via`): with this theorem that reading is no longer an assumption about
                       `switch_to` but a statement about its translated source.
  tie_switch_to_model  the same against `Model.switchTo` on a full writer state.
  clamp_deflate / clamp_bzip2 / clamp_zstd   the accepted levels and the level handed to the encoder:
                       Deflated 0..=9 (default 6), Bzip2 1..=9 (default 6), Zstd -131072..=22 (default 3) =
                       `Model.levelRange`.
  aes_const            the deprecated constant `CompressionMethod::AES` (used as a pattern by `switch_to`) is the
                       variant `Aes` (translated `aconst`).

TRUSTED VOCABULARY (`Basic/RsS.lean`, external code):
  * `GenericZipWriter<W>` as `Rs.S.GZW` (one constructor per variant; an encoder `Rs.S.Enc` = level, what it wraps,
    plaintext consumed so far) and `GZW.toInner`, the model's `Inner` it stands for.  `toInner` is injective on
    the Rust values; `Model.Inner` has values that are no Rust value (`compressor stored …`), `switchTo` on those
    is not constrained by this theorem.
  * `encoder.finish()` (`Rs.S.enc_finish`): the whole output `ext.compress m level consumed` goes to the wrapped
    writer - appended to the ZipCrypto buffer, or one `write_all` on the sink; on a failed write the destructor
    of a flate2 / bzip2 encoder retries once (result ignored), zstd's does not; the value is the wrapped writer.
  * `DeflateEncoder::new`, `BzEncoder::new`, `flate2::Compression::new`, `bzip2::Compression::new` (the level as a
    number), `ZstdEncoder::new(..)` is `Ok` (its `.unwrap()` does not panic);
  * the libraries' level constants: flate2 none / best / default = 0 / 9 / 6, bzip2 fast / best / default = 1 / 9 / 6,
    `zstd::DEFAULT_COMPRESSION_LEVEL` = 3, `zstd::compression_level_range()` = -131072..=22;
  * `RangeInclusive::contains` is `lo ≤ v ∧ v ≤ hi`; `as i32` / `as u32` between 32-bit integers reinterpret the bits.
-/
set_option linter.unusedSimpArgs false
set_option linter.unusedVariables false

namespace ZipVerif.Tie.SwitchTo
open ZipVerif ZipVerif.Model ZipVerif.Tie.WriterSM

theorem toNat_of_nonneg (v : Int32) (h : 0 ≤ v.toInt) : ((Rs.as' UInt32 v).toNat : Int) = v.toInt := by
  simp only [Rs.as', Rs.As.cast]
  have : v.toUInt32.toNat = v.toBitVec.toNat := rfl
  rw [this]
  have h2 : v.toInt = v.toBitVec.toInt := rfl
  rw [h2] at h ⊢
  rw [BitVec.toInt_eq_toNat_cond] at h ⊢
  have := v.toBitVec.isLt
  split at h <;> split <;> omega

theorem clamp_deflate (l : Option Int32) :
    (Gen.clamp_opt (Option.getD l (Rs.as' Int32 Rs.S.flate2_level_default)) Gen.deflate_compression_level_range).map
        (fun v => Rs.S.flate2_Compression_new (Rs.as' UInt32 v)) =
      (if 0 ≤ (l.map Int32.toInt).getD 6 ∧ (l.map Int32.toInt).getD 6 ≤ 9 then some ((l.map Int32.toInt).getD 6) else none) := by
  have e0 : (Rs.as' Int32 Rs.S.flate2_level_none) = (0 : Int32) := by decide
  have e9 : (Rs.as' Int32 Rs.S.flate2_level_best) = (9 : Int32) := by decide
  have e6 : (Rs.as' Int32 Rs.S.flate2_level_default) = (6 : Int32) := by decide
  simp only [Gen.clamp_opt, Gen.deflate_compression_level_range, Rs.RangeIncl.contains, e0, e9, e6]
  cases l with
  | none => decide
  | some v =>
    simp only [Option.getD_some, Option.map_some, decide_eq_true_eq, Int32.le_iff_toInt_le]
    have z0 : (0 : Int32).toInt = 0 := by decide
    have z9 : (9 : Int32).toInt = 9 := by decide
    rw [z0, z9]
    by_cases h : 0 ≤ v.toInt ∧ v.toInt ≤ 9
    · simp only [h, and_self, ↓reduceIte, Option.map_some, Rs.S.flate2_Compression_new, toNat_of_nonneg v h.1]
    · simp only [h, ↓reduceIte, Option.map_none]

theorem clamp_bzip2 (l : Option Int32) :
    (Gen.clamp_opt (Option.getD l (Rs.as' Int32 Rs.S.bzip2_level_default)) Gen.bzip2_compression_level_range).map
        (fun v => Rs.S.bzip2_Compression_new (Rs.as' UInt32 v)) =
      (if 1 ≤ (l.map Int32.toInt).getD 6 ∧ (l.map Int32.toInt).getD 6 ≤ 9 then some ((l.map Int32.toInt).getD 6) else none) := by
  have e1 : (Rs.as' Int32 Rs.S.bzip2_level_fast) = (1 : Int32) := by decide
  have e9 : (Rs.as' Int32 Rs.S.bzip2_level_best) = (9 : Int32) := by decide
  have e6 : (Rs.as' Int32 Rs.S.bzip2_level_default) = (6 : Int32) := by decide
  simp only [Gen.clamp_opt, Gen.bzip2_compression_level_range, Rs.RangeIncl.contains, e1, e9, e6]
  cases l with
  | none => decide
  | some v =>
    simp only [Option.getD_some, Option.map_some, decide_eq_true_eq, Int32.le_iff_toInt_le]
    have z1 : (1 : Int32).toInt = 1 := by decide
    have z9 : (9 : Int32).toInt = 9 := by decide
    rw [z1, z9]
    by_cases h : 1 ≤ v.toInt ∧ v.toInt ≤ 9
    · simp only [h, and_self, ↓reduceIte, Option.map_some, Rs.S.bzip2_Compression_new, toNat_of_nonneg v (by omega)]
    · simp only [h, ↓reduceIte, Option.map_none]

theorem clamp_zstd (l : Option Int32) :
    (Gen.clamp_opt (Option.getD l Rs.S.zstd_DEFAULT_COMPRESSION_LEVEL) Rs.S.zstd_compression_level_range).map Int32.toInt =
      (if -131072 ≤ (l.map Int32.toInt).getD 3 ∧ (l.map Int32.toInt).getD 3 ≤ 22 then some ((l.map Int32.toInt).getD 3) else none) := by
  simp only [Gen.clamp_opt, Rs.S.zstd_compression_level_range, Rs.RangeIncl.contains, Rs.S.zstd_DEFAULT_COMPRESSION_LEVEL]
  cases l with
  | none => decide
  | some v =>
    simp only [Option.getD_some, Option.map_some, decide_eq_true_eq, Int32.le_iff_toInt_le]
    have z1 : (-131072 : Int32).toInt = -131072 := by decide
    have z9 : (22 : Int32).toInt = 22 := by decide
    rw [z1, z9]
    by_cases h : -131072 ≤ v.toInt ∧ v.toInt ≤ 22
    · simp only [h, and_self, ↓reduceIte, Option.map_some]
    · simp only [h, ↓reduceIte, Option.map_none]

theorem clamp_deflate_cases (l : Option Int32) :
    (Gen.clamp_opt (Option.getD l (Rs.as' Int32 Rs.S.flate2_level_default)) Gen.deflate_compression_level_range = none ∧
      ¬ (0 ≤ (l.map Int32.toInt).getD 6 ∧ (l.map Int32.toInt).getD 6 ≤ 9)) ∨
    (∃ a, Gen.clamp_opt (Option.getD l (Rs.as' Int32 Rs.S.flate2_level_default)) Gen.deflate_compression_level_range = some a ∧
      (0 ≤ (l.map Int32.toInt).getD 6 ∧ (l.map Int32.toInt).getD 6 ≤ 9) ∧
      Rs.S.flate2_Compression_new (Rs.as' UInt32 a) = (l.map Int32.toInt).getD 6) := by
  have h := clamp_deflate l
  cases hc : Gen.clamp_opt (Option.getD l (Rs.as' Int32 Rs.S.flate2_level_default)) Gen.deflate_compression_level_range with
  | none =>
    left; rw [hc] at h
    refine ⟨rfl, fun hx => ?_⟩
    rw [if_pos hx] at h; cases h
  | some a =>
    right; rw [hc] at h
    refine ⟨a, rfl, ?_⟩
    by_cases hx : 0 ≤ (l.map Int32.toInt).getD 6 ∧ (l.map Int32.toInt).getD 6 ≤ 9
    · rw [if_pos hx] at h; simp only [Option.map_some, Option.some.injEq] at h; exact ⟨hx, h⟩
    · rw [if_neg hx] at h; cases h

theorem clamp_bzip2_cases (l : Option Int32) :
    (Gen.clamp_opt (Option.getD l (Rs.as' Int32 Rs.S.bzip2_level_default)) Gen.bzip2_compression_level_range = none ∧
      ¬ (1 ≤ (l.map Int32.toInt).getD 6 ∧ (l.map Int32.toInt).getD 6 ≤ 9)) ∨
    (∃ a, Gen.clamp_opt (Option.getD l (Rs.as' Int32 Rs.S.bzip2_level_default)) Gen.bzip2_compression_level_range = some a ∧
      (1 ≤ (l.map Int32.toInt).getD 6 ∧ (l.map Int32.toInt).getD 6 ≤ 9) ∧
      Rs.S.bzip2_Compression_new (Rs.as' UInt32 a) = (l.map Int32.toInt).getD 6) := by
  have h := clamp_bzip2 l
  cases hc : Gen.clamp_opt (Option.getD l (Rs.as' Int32 Rs.S.bzip2_level_default)) Gen.bzip2_compression_level_range with
  | none =>
    left; rw [hc] at h
    refine ⟨rfl, fun hx => ?_⟩
    rw [if_pos hx] at h; cases h
  | some a =>
    right; rw [hc] at h
    refine ⟨a, rfl, ?_⟩
    by_cases hx : 1 ≤ (l.map Int32.toInt).getD 6 ∧ (l.map Int32.toInt).getD 6 ≤ 9
    · rw [if_pos hx] at h; simp only [Option.map_some, Option.some.injEq] at h; exact ⟨hx, h⟩
    · rw [if_neg hx] at h; cases h

theorem clamp_zstd_cases (l : Option Int32) :
    (Gen.clamp_opt (Option.getD l Rs.S.zstd_DEFAULT_COMPRESSION_LEVEL) Rs.S.zstd_compression_level_range = none ∧
      ¬ (-131072 ≤ (l.map Int32.toInt).getD 3 ∧ (l.map Int32.toInt).getD 3 ≤ 22)) ∨
    (∃ a, Gen.clamp_opt (Option.getD l Rs.S.zstd_DEFAULT_COMPRESSION_LEVEL) Rs.S.zstd_compression_level_range = some a ∧
      (-131072 ≤ (l.map Int32.toInt).getD 3 ∧ (l.map Int32.toInt).getD 3 ≤ 22) ∧
      a.toInt = (l.map Int32.toInt).getD 3) := by
  have h := clamp_zstd l
  cases hc : Gen.clamp_opt (Option.getD l Rs.S.zstd_DEFAULT_COMPRESSION_LEVEL) Rs.S.zstd_compression_level_range with
  | none =>
    left; rw [hc] at h
    refine ⟨rfl, fun hx => ?_⟩
    rw [if_pos hx] at h; cases h
  | some a =>
    right; rw [hc] at h
    refine ⟨a, rfl, ?_⟩
    by_cases hx : -131072 ≤ (l.map Int32.toInt).getD 3 ∧ (l.map Int32.toInt).getD 3 ≤ 22
    · rw [if_pos hx] at h; simp only [Option.map_some, Option.some.injEq] at h; exact ⟨hx, h⟩
    · rw [if_neg hx] at h; cases h

def absI (r : Except ZErr Unit × Rs.S.GZW) : Except ZErr Unit × Rs.S.Inner := (r.1, r.2.toInner)

macro "sw_core" : tactic => `(tactic|
  simp [Rs.S.run, S.toM_bind, S.toM_pure, S.toM_ofM, Rs.S.err, Rs.S.lift, Rs.S.okOr, Rs.S.tryM, Rs.zerr,
    Gen.GenericZipWriter.current_compression, Rs.S.GZW.toInner, Inner.currentCompression, WState.init,
    Tie.Types.methodOf, Rs.S.IsMethod.toModel, levelRange, absI, Rs.S.DeflateEncoder.new, Rs.S.BzEncoder.new,
    Rs.S.ZstdEncoder.new, emitFinish, Rs.S.enc_finish, Rs.S.DeflateEncoder.finish, Rs.S.BzEncoder.finish,
    Rs.S.ZstdEncoder.finish, *])

/-- after `sw_core`: both sides start with the same sink write(s) -/
macro "sw_io" : tactic => `(tactic|
  (first
    | done
    | (refine bind_congr fun r => ?_
       cases r <;> sw_core <;>
         (first
           | done
           | (refine bind_congr fun r2 => ?_
              cases r2 <;> sw_core)))))

macro "sw_all" : tactic => `(tactic| (sw_core <;> sw_io))

/-- the second half of `switch_to` for every target method, given the range facts -/
macro "sw_method" m:ident l:ident : tactic => `(tactic|
  (cases $m:ident with
   | Stored => cases $l:ident <;> sw_all
   | Deflated => rcases clamp_deflate_cases $l with ⟨hc, hx⟩ | ⟨a, hc, hx, ha⟩ <;> sw_all
   | Bzip2 => rcases clamp_bzip2_cases $l with ⟨hc, hx⟩ | ⟨a, hc, hx, ha⟩ <;> sw_all
   | Aes => sw_all
   | Zstd => rcases clamp_zstd_cases $l with ⟨hc, hx⟩ | ⟨a, hc, hx, ha⟩ <;> sw_all
   | Unsupported v => sw_all))

/-- **`GenericZipWriter::switch_to` is the model's `switchTo`** (`Rs.S.switch_to`, the vocabulary the translated
`ZipWriter` methods call), for every Rust value of the compressor stack, every method and level, every device
and fault index. -/
theorem tie_switch_to (ext : Rs.S.Ext) (z : Rs.S.GZW) (m : Gen.CompressionMethod) (l : Option Int32) :
    absI <$> Rs.S.run (Gen.GenericZipWriter.switch_to ext z m l) = Rs.S.switch_to ext z.toInner m l := by
  unfold Gen.GenericZipWriter.switch_to Rs.S.switch_to Model.switchTo
  cases z with
  | Closed => sw_all
  | Storer w => sw_method m l
  | Deflater w =>
    obtain ⟨lv, wi, pend⟩ := w
    cases wi <;> sw_method m l
  | Bzip2 w =>
    obtain ⟨lv, wi, pend⟩ := w
    cases wi <;> sw_method m l
  | Zstd w =>
    obtain ⟨lv, wi, pend⟩ := w
    cases wi <;> sw_method m l

/-- `tie_switch_to` against the model's `switchTo` on a whole writer state -/
theorem tie_switch_to_model (ext : Rs.S.Ext) (z : Rs.S.GZW) (m : Gen.CompressionMethod) (l : Option Int32)
    (s : WState) (hs : s.inner = z.toInner) :
    Model.switchTo ext.toWExt (Tie.Types.methodOf m) (l.map Int32.toInt) s =
      (Rs.S.run (Gen.GenericZipWriter.switch_to ext z m l) >>= fun p =>
        pure (p.1, { s with inner := p.2.toInner })) := by
  rw [switchTo_via, hs, ← tie_switch_to, map_eq_pure_bind, bind_assoc]
  simp only [pure_bind, absI]

/-- the constant pattern `CompressionMethod::AES` of `switch_to` names the variant `Aes` -/
theorem aes_const : Gen.CompressionMethod.AES = Gen.CompressionMethod.Aes := rfl

/-- `toInner` loses nothing: distinct Rust values stand for distinct model stacks -/
theorem toInner_injective (a b : Rs.S.GZW) (h : a.toInner = b.toInner) : a = b := by
  cases a <;> cases b <;> simp only [Rs.S.GZW.toInner, Inner.storer.injEq, Inner.compressor.injEq, reduceCtorEq,
    false_and, and_false] at h <;> first | rfl | (cases h; rfl) | skip
  all_goals
    rename_i w w'
    obtain ⟨a1, a2, a3⟩ := w
    obtain ⟨b1, b2, b3⟩ := w'
    simp only at h
    obtain ⟨_, h1, h2, h3⟩ := h
    subst h1 h2 h3
    rfl

/-- non-vacuity: a level outside the method's range is refused and leaves the writer `Closed` -/
example (ext : Rs.S.Ext) : Rs.S.run (Gen.GenericZipWriter.switch_to ext (.Storer none) .Bzip2 (some 0)) =
    pure (.error .unsupportedArchive, .Closed) := by
  rfl

end ZipVerif.Tie.SwitchTo
