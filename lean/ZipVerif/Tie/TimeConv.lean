import ZipVerif.Gen.TypesTime
import ZipVerif.Tie.DateTime
/-
Tie obligations for the conversions between `zip::DateTime` and `time::OffsetDateTime` (types.rs, feature `time`):
`DateTime::to_time`, `impl TryFrom<OffsetDateTime> for DateTime`, and `DateTime::default`; tier T6, LAYER mode of
rs2lean; helper t6l3; vocabulary `Basic/RsTime.lean`.  All three are regenerated from the source on this run: the
year window `>= 1980 && <= 2107`, the field extraction with its casts, `Month::try_from(self.month)?`,
`Date::from_calendar_date(self.year as i32, .., self.day)?`, `Time::from_hms(..)?`,
`PrimitiveDateTime::new(date, time).assume_utc()`.

* `tie_to_time`: `to_time` = `Model.DateTime.toTimeO` (hence `toTime`): `Ok` of the six fields with offset UTC and
  nanosecond 0 exactly when the model's calendar accepts them, `Err(ComponentRange)` otherwise; never a panic.
* `tie_try_from`: `try_from` = `Model.DateTime.tryFromO` (hence `tryFromCal`): `Err(DateTimeRangeError)` outside
  1980..=2107, the truncated fields inside; the offset and the nanoseconds are not looked at.
* `tie_default`: `DateTime::default()` = `Model.DateTime.default`.

The `time` crate's calendar is the NAMED PARAMETER `Rs.TimeOps` of the generated code, instantiated here (`timeOps`)
with the calendar of `Model/DateTime.lean`: `Date::from_calendar_date` accepts exactly `Cal.dateValid` (year within
±9999, month 1..12, day 1..`Spec.Dos.daysInMonth`), `Time::from_hms` exactly `Cal.timeValid`; an `OffsetDateTime` is
an `OCal` (wall-clock fields in its own offset, nanoseconds, offset), `assume_utc` gives offset 0 and nanosecond 0 -
what the `dos.dim` / `dos.totime` / `off2` correspondence ops compare with the `time` crate.  Trusted besides:
`Month` is its number (`Basic/RsTime.lean`).  Hypothesis of `tie_try_from`: the year fits `i32` (the type of
`OffsetDateTime::year()`; the `time` crate's years are within ±999999).
-/

namespace ZipVerif.Tie.TimeConv
open ZipVerif ZipVerif.Model ZipVerif.Tie.DateTime

/-- the parameter `Rs.TimeOps` of the generated code := the calendar of `Model/DateTime.lean` -/
@[instance_reducible] def timeOps : Rs.TimeOps where
  Date := Int × Nat × Nat
  Time := Nat × Nat × Nat
  PrimitiveDateTime := Cal
  OffsetDateTime := OCal
  from_calendar_date y m d :=
    if (Cal.mk y.toInt m.n.toNat d.toNat 0 0 0).dateValid then .ok (y.toInt, m.n.toNat, d.toNat) else .error {}
  from_hms h m s :=
    if (Cal.mk 0 0 0 h.toNat m.toNat s.toNat).timeValid then .ok (h.toNat, m.toNat, s.toNat) else .error {}
  pdt_new d t := ⟨d.1, d.2.1, d.2.2, t.1, t.2.1, t.2.2⟩
  assume_utc c := ⟨c, 0, 0⟩
  year o := Int32.ofInt o.cal.year
  month o := ⟨UInt8.ofNat o.cal.month⟩
  day o := UInt8.ofNat o.cal.day
  hour o := UInt8.ofNat o.cal.hour
  minute o := UInt8.ofNat o.cal.minute
  second o := UInt8.ofNat o.cal.second

theorem tie_default : Gen.DateTime.default = some (ofModel DateTime.default) := rfl

/-! ### `to_time` -/

theorem u16_as_i32 (x : UInt16) : (Rs.as' Int32 x).toInt = x.toNat := by
  show (x.toUInt32.toInt32).toInt = x.toNat
  have h := x.toNat_lt
  have e : x.toUInt32.toNat = x.toNat := UInt16.toNat_toUInt32 x
  unfold Int32.toInt
  rw [UInt32.toBitVec_toInt32, BitVec.toInt]
  simp only [UInt32.toNat_toBitVec, e]
  omega

theorem valid_split (c : Cal) : c.valid = (c.dateValid && c.timeValid) := by
  simp only [Cal.valid, Cal.dateValid, Cal.timeValid, Bool.and_assoc]

/-- `Month::try_from` refuses exactly the months the calendar refuses -/
theorem month_try_from (x : DateTime) (h : ¬ (1 ≤ x.month ∧ x.month ≤ 12)) : x.cal.dateValid = false := by
  rw [Bool.eq_false_iff]
  intro hv
  simp only [Cal.dateValid, DateTime.cal, Bool.and_eq_true] at hv
  apply h
  have h1 : 1 ≤ x.month.toNat := of_decide_eq_true hv.1.2.1
  have h2 : x.month.toNat ≤ 12 := of_decide_eq_true hv.1.2.2
  constructor
  · rw [UInt8.le_iff_toNat_le]; exact h1
  · rw [UInt8.le_iff_toNat_le]; exact h2

theorem from_calendar_date_eq (x : Gen.DateTime) :
    @Rs.TimeOps.from_calendar_date timeOps (Rs.as' Int32 x.year) ⟨x.month⟩ x.day =
      if (toModel x).cal.dateValid then .ok ((x.year.toNat : Int), x.month.toNat, x.day.toNat) else .error {} := by
  show (if (Cal.mk (Rs.as' Int32 x.year).toInt x.month.toNat x.day.toNat 0 0 0).dateValid then _ else _) = _
  rw [u16_as_i32]
  rfl

theorem from_hms_eq (x : Gen.DateTime) :
    @Rs.TimeOps.from_hms timeOps x.hour x.minute x.second =
      if (toModel x).cal.timeValid then .ok (x.hour.toNat, x.minute.toNat, x.second.toNat) else .error {} := rfl

/-- **`DateTime::to_time` is the model's `toTimeO`**: `Err(ComponentRange)` exactly when the calendar refuses the
date or the clock fields. -/
theorem tie_to_time (x : Gen.DateTime) :
    @Gen.DateTime.to_time timeOps x =
      some (match (toModel x).toTimeO with
        | some o => Except.ok o
        | none => Except.error {}) := by
  unfold Gen.DateTime.to_time DateTime.toTimeO DateTime.toTime
  simp only [Id.run, Rs.L.id_pure, Rs.L.id_bind, Rs.Month.try_from, valid_split]
  by_cases hm : 1 ≤ x.month ∧ x.month ≤ 12
  · rw [if_pos hm]
    simp only [from_calendar_date_eq, from_hms_eq]
    cases h1 : (toModel x).cal.dateValid
    · rfl
    · cases h2 : (toModel x).cal.timeValid <;> rfl
  · rw [if_neg hm, month_try_from (toModel x) hm]
    rfl

/-! ### `try_from` -/

theorem i32_ge (y : Int) (h1 : -2 ^ 31 ≤ y) (h2 : y < 2 ^ 31) (k : Nat) (hk : (k : Int) < 2 ^ 31) :
    (Int32.ofInt y ≥ Int32.ofInt k ↔ (k : Int) ≤ y) ∧ (Int32.ofInt y ≤ Int32.ofInt k ↔ y ≤ (k : Int)) := by
  have e1 := Int32.toInt_ofInt_of_le h1 h2
  have e2 : (Int32.ofInt (k : Int)).toInt = k := Int32.toInt_ofInt_of_le (by omega) hk
  constructor
  · show Int32.ofInt k ≤ Int32.ofInt y ↔ _
    rw [Int32.le_iff_toInt_le, e1, e2]
  · rw [Int32.le_iff_toInt_le, e1, e2]

theorem i32_as_u16 (y : Int) (h1 : 0 ≤ y) (h2 : y < 2 ^ 31) :
    Rs.as' UInt16 (Int32.ofInt y) = UInt16.ofNat y.toNat := by
  show (Int32.ofInt y).toUInt32.toUInt16 = UInt16.ofNat y.toNat
  apply UInt16.toNat_inj.mp
  rw [UInt32.toNat_toUInt16, UInt16.toNat_ofNat']
  have : (Int32.ofInt y).toUInt32.toNat = y.toNat := by
    rw [← UInt32.toNat_toBitVec, Int32.toBitVec_toUInt32, Int32.toBitVec_ofInt, BitVec.toNat_ofInt]
    omega
  rw [this]

/-- **`impl TryFrom<OffsetDateTime> for DateTime` is the model's `tryFromO`**: the wall-clock fields in the value's
own offset, `Err(DateTimeRangeError)` outside 1980..=2107; offset and nanoseconds are not looked at. -/
theorem tie_try_from (o : OCal) (h1 : -2 ^ 31 ≤ o.cal.year) (h2 : o.cal.year < 2 ^ 31) :
    @Gen.DateTime.try_from timeOps o =
      some (match DateTime.tryFromO o with
        | some x => Except.ok (ofModel x)
        | none => Except.error {}) := by
  unfold Gen.DateTime.try_from DateTime.tryFromO DateTime.tryFromCal
  simp only [Id.run, Rs.L.id_pure]
  show (if (decide (Int32.ofInt o.cal.year ≥ Int32.ofInt (1980 : Nat)) && decide (Int32.ofInt o.cal.year ≤ Int32.ofInt (2107 : Nat))) = true
      then some (Except.ok (Gen.DateTime.mk (Rs.as' UInt16 (Int32.ofInt o.cal.year)) _ _ _ _ _)) else _) = _
  have hb : (decide (Int32.ofInt o.cal.year ≥ Int32.ofInt (1980 : Nat)) && decide (Int32.ofInt o.cal.year ≤ Int32.ofInt (2107 : Nat))) =
      decide (1980 ≤ o.cal.year ∧ o.cal.year ≤ 2107) := by
    rw [Bool.eq_iff_iff]
    simp only [Bool.and_eq_true, decide_eq_true_eq]
    rw [(i32_ge _ h1 h2 1980 (by decide)).1, (i32_ge _ h1 h2 2107 (by decide)).2]
    rfl
  rw [hb]
  by_cases hy : 1980 ≤ o.cal.year ∧ o.cal.year ≤ 2107
  · rw [if_pos hy, i32_as_u16 _ (by omega) h2]
    simp only [hy, decide_true, if_true]
    rfl
  · rw [if_neg hy]
    simp only [hy, decide_false, Bool.false_eq_true, if_false]

example : DateTime.tryFromO ⟨⟨2024, 2, 29, 23, 59, 58⟩, 5, 3600⟩ = some ⟨2024, 2, 29, 23, 59, 58⟩ ∧
    (DateTime.mk 2024 2 29 23 59 58).toTimeO = some ⟨⟨2024, 2, 29, 23, 59, 58⟩, 0, 0⟩ ∧
    (DateTime.mk 2100 2 29 0 0 0).toTimeO = none ∧ DateTime.tryFromO ⟨⟨2108, 1, 1, 0, 0, 0⟩, 0, 0⟩ = none := by decide

end ZipVerif.Tie.TimeConv
