import ZipVerif.Gen.Spec
import ZipVerif.Gen.Compression
import ZipVerif.Gen.Types
import ZipVerif.Gen.Aes
import ZipVerif.Model.Types
/-
Tie obligations for constants and pure metadata functions: what rs2lean regenerates from
/repo/src/{spec,compression,types,aes}.rs on this run equals the hand-written model.
A flipped threshold comparison, a changed signature or method code, or a changed attribute
mapping breaks one of these.
-/

namespace ZipVerif.Tie.Types
open ZipVerif ZipVerif.Model

/-! ### constants -/
theorem tie_local_sig : Gen.LOCAL_FILE_HEADER_SIGNATURE = LOCAL_SIG := rfl
theorem tie_central_sig : Gen.CENTRAL_DIRECTORY_HEADER_SIGNATURE = CENTRAL_SIG := rfl
theorem tie_eocd_sig : Gen.CENTRAL_DIRECTORY_END_SIGNATURE = EOCD_SIG := rfl
theorem tie_eocd64_sig : Gen.ZIP64_CENTRAL_DIRECTORY_END_SIGNATURE = EOCD64_SIG := rfl
theorem tie_locator_sig : Gen.ZIP64_CENTRAL_DIRECTORY_END_LOCATOR_SIGNATURE = LOCATOR_SIG := rfl
theorem tie_bytes_thr : Gen.ZIP64_BYTES_THR = ZIP64_BYTES_THR := by decide
theorem tie_entry_thr : Gen.ZIP64_ENTRY_THR.toNat = ZIP64_ENTRY_THR := by decide
theorem tie_default_version : Gen.DEFAULT_VERSION = DEFAULT_VERSION := rfl
theorem tie_s_ifdir : Gen.S_IFDIR = FileData.S_IFDIR := rfl
theorem tie_s_ifreg : Gen.S_IFREG = FileData.S_IFREG := rfl
theorem tie_aes_consts :
    Gen.PWD_VERIFY_LENGTH = 2 ∧ Gen.AUTH_CODE_LENGTH = 10 ∧ Gen.ITERATION_COUNT = 1000 := by decide

/-! ### enums -/
def methodOf : Gen.CompressionMethod → Method
  | .Stored => .stored | .Deflated => .deflated | .Bzip2 => .bzip2 | .Aes => .aes | .Zstd => .zstd
  | .Unsupported v => .unsupported v

def systemOf : Gen.System → System
  | .Dos => .dos | .Unix => .unix | .Unknown => .unknown

def aesModeOf : Gen.AesMode → AesMode
  | .Aes128 => .aes128 | .Aes192 => .aes192 | .Aes256 => .aes256

theorem tie_method_from_u16 (v : UInt16) :
    (Gen.CompressionMethod.from_u16 v).map methodOf = some (Method.fromU16 v) := by
  unfold Gen.CompressionMethod.from_u16 Method.fromU16
  by_cases h0 : v == 0 <;> by_cases h8 : v == 8 <;> by_cases h12 : v == 12 <;>
  by_cases h93 : v == 93 <;> by_cases h99 : v == 99 <;>
  simp_all [bind, Option.bind, pure, methodOf]

theorem tie_method_to_u16 (m : Gen.CompressionMethod) :
    Gen.CompressionMethod.to_u16 m = some (methodOf m).toU16 := by
  cases m <;> rfl

theorem tie_system_from_u8 (s : UInt8) :
    (Gen.System.from_u8 s).map systemOf = some (System.fromU8 s) := by
  unfold Gen.System.from_u8 System.fromU8
  by_cases h0 : s == 0 <;> by_cases h3 : s == 3 <;> simp_all [bind, Option.bind, pure, systemOf]

theorem tie_system_discr (s : Gen.System) : (Rs.as' UInt16 s) = (systemOf s).discr := by
  cases s <;> rfl

theorem tie_aes_key_length (m : Gen.AesMode) :
    (Gen.AesMode.key_length m).map UInt64.toNat = some (aesModeOf m).keyLength := by
  cases m <;> rfl

theorem tie_aes_salt_length (m : Gen.AesMode) :
    (Gen.AesMode.salt_length m).map UInt64.toNat = some (aesModeOf m).saltLength := by
  cases m <;> rfl

/-! ### `ZipFileData` pure methods -/

/-- The fields the three methods read. -/
def viewOf (f : Gen.ZipFileData) (g : FileData) : Prop :=
  systemOf f.system = g.system ∧ f.external_attributes = g.externalAttributes ∧
  f.uncompressed_size = g.uncompressedSize ∧ f.compressed_size = g.compressedSize ∧
  f.header_start = g.headerStart ∧ methodOf f.compression_method = g.method

theorem tie_zip64_extension (f : Gen.ZipFileData) (g : FileData) (h : viewOf f g) :
    Gen.ZipFileData.zip64_extension f = some g.zip64Extension := by
  obtain ⟨_, _, hu, hc, hh, _⟩ := h
  simp only [Gen.ZipFileData.zip64_extension, FileData.zip64Extension, pure, ← hu, ← hc, ← hh]

theorem tie_version_needed (f : Gen.ZipFileData) (g : FileData) (h : viewOf f g) :
    Gen.ZipFileData.version_needed f = some g.versionNeeded := by
  have hz := tie_zip64_extension f g h
  obtain ⟨_, _, _, _, _, hm⟩ := h
  unfold Gen.ZipFileData.version_needed FileData.versionNeeded
  rw [hz, ← hm]
  cases hcm : f.compression_method <;> cases hzz : g.zip64Extension <;> rfl

theorem tie_unix_mode (f : Gen.ZipFileData) (g : FileData) (h : viewOf f g) :
    Gen.ZipFileData.unix_mode f = some g.unixMode := by
  obtain ⟨hs, he, _, _, _, _⟩ := h
  unfold Gen.ZipFileData.unix_mode FileData.unixMode
  rw [← hs, ← he]
  by_cases h0 : f.external_attributes == 0
  · simp [h0, bind, Option.bind, pure]
  · cases hsys : f.system
    · -- Dos
      by_cases hd : (0x10 : UInt32) == (f.external_attributes &&& 0x10) <;>
      by_cases hr : (0x01 : UInt32) == (f.external_attributes &&& 0x01) <;>
      simp [h0, hd, hr, bind, Option.bind, pure, systemOf, Gen.S_IFDIR, Gen.S_IFREG,
        FileData.S_IFDIR, FileData.S_IFREG]
    · -- Unix
      simp [h0, bind, Option.bind, pure, systemOf, Rs.Arith.shr]
    · simp [h0, bind, Option.bind, pure, systemOf]

end ZipVerif.Tie.Types
