import ZipVerif.Gen.ReadStream
import ZipVerif.Tie.Drain
/-
Tie obligations for `ZipStreamReader::visit` and `parse_central_directory` (src/read/stream.rs; translator tier T6,
helper t6r3, HANDLE mode `rs2lean/src/t6r3.rs`, vocabulary `Basic/RsH.lean`), THE VISITOR A PARAMETER
(`Rs.Visitor`: the two callbacks as arbitrary `M`-computations over the visitor's state).

  tie_visit_file_round
      `Gen.ZipStreamReader.visit.loop1_body vis ext fuel v = fileRound vis ext v`: one round of the first loop is
      `read_zipfile_from_stream` (tied to `Model.streamHeader` by `Tie/StreamGlue`), `None` ends the loop; else
      `visit_file`; when the visitor returns `Err` the handle is DROPPED - `dropModel` = the model's silent drain
      `retried (drain rem)` (`Tie/Drain.tie_drop`) - and the error is `visit`'s; otherwise `file.drain_stream()?` -
      `drainModel` = `attempt (retried (drainE rem))` (`tie_drain_stream`): a read error of the drain is `visit`'s error -,
      and the `Drop` at the end of the round finds nothing left (`drop_noop`, `drainModel_spec`).  This is the shape of
      `Model.visitFile` / `visitEntry` (Model/Reader.lean), for EVERY visitor.
  tie_visit_central_round
      one round of the second loop = `centralRound`: the next signature, anything but the central one ends the loop, else
      `central_header_to_zip_file_inner 0 0` (tied to `centralHeaderInner` by `Tie/Parsers`) and the callback: the shape of
      `Model.streamCentralLoop`.
  tie_visit
      `Gen.ZipStreamReader.visit vis ext fuel v = visitModel vis ext fuel v`: the file rounds; then - the first central
      signature having been consumed by `read_zipfile_from_stream` - the REST of the first record and its callback; then the
      further records once each in order: the shape of `Model.streamVisitC` (`visitEntries`, then `visitCentral`).

Hypothesis `VisOk vis fuel` (about the visitor, explicit): the handle a `visit_file` callback gives back satisfies the
handle invariant "pending decryption layer XOR built reader" (a real visitor can only call the handle's public
methods, which keep it) and the limit of its `Take` is below the fuel.  What is NOT done here: instantiating the visitor
with the model's consumer (`Consume`: `takeLoop c.chunk p p` + `Ext.consume`) to obtain `streamVisitC` itself, and the
`Interrupted` retry inside `read_exact` of the header / central reads (the READ-mode vocabulary `M.readExact` models
every failure as a hard one; `Model.visitFile` wraps them in `retried`): on devices that fail with another kind, and on
failure-free runs, `retried` is the identity (`M.retried_hard`).
-/
set_option linter.unusedSimpArgs false
set_option linter.unusedVariables false
open ZipVerif ZipVerif.Model ZipVerif.Tie.Drain

namespace ZipVerif.Tie.Visit

abbrev GExt := Rs.ReadExt Gen.ZipCryptoValidator Gen.AesMode
abbrev Vis (V : Type) := Rs.Visitor V Gen.ZipFile Gen.ZipFileData

/-- nothing is left to drain: the handle borrows its entry, or its `Take` is gone -/
def NoMore (z : Gen.ZipFile) : Prop := (∃ a, z.data = .Borrowed a) ∨ innerTake z = none

/-- the handle invariant `by_index*` / `read_zipfile_from_stream` establish and the handle's own methods keep: a
pending decryption layer XOR a built reader -/
def HandleOk (z : Gen.ZipFile) : Prop := z.reader = .NoReader ∨ z.crypto_reader = none

/-- What the Tie asks of a visitor: the handle it gives back satisfies the handle invariant (a real visitor can only
call the handle's public methods) and its `Take` is within the fuel. -/
def VisOk {V : Type} (vis : Vis V) (fuel : Nat) : Prop :=
  ∀ v f fa d r v' f' d', vis.visit_file v f fa d = (.ok (r, v', f'), d') →
    HandleOk f' ∧ ∀ t, innerTake f' = some t → t.limit.toNat + 2 ≤ fuel

theorem drop_noop (fuel : Nat) (z : Gen.ZipFile) (h : NoMore z) : Gen.ZipFile.drop fuel z = pure z := by
  unfold Gen.ZipFile.drop
  dsimp only
  rcases h with ⟨a, ha⟩ | h
  · obtain ⟨data, cr, rd⟩ := z
    cases ha
    rfl
  · rw [drain_stream_drained fuel z h]
    rfl

theorem retried_takeLoop_ok (n : Nat) (fa : Option Nat) (d : Dev) :
    ∃ r d', M.retried (takeLoop 65536 n n) fa d = (.ok r, d') := by
  cases fa with
  | none => exact takeLoop_ok 65536 n n none d
  | some k =>
    unfold M.retried
    dsimp only
    split
    · obtain ⟨r, d', h⟩ := takeLoop_ok 65536 n n none d
      rw [h]
      exact ⟨_, _, rfl⟩
    · exact takeLoop_ok 65536 n n (some k) d

/-- `drain_stream` never fails as a computation (its `Result` is a value), and leaves nothing to drain -/
theorem drainModel_spec (z : Gen.ZipFile) (hz : HandleOk z) (fa : Option Nat) (d : Dev) :
    ∃ r z' d', drainModel z fa d = (.ok (r, z'), d') ∧ NoMore z' := by
  unfold drainModel
  cases hd : z.data with
  | Borrowed a => exact ⟨_, _, _, rfl, Or.inl ⟨a, hd⟩⟩
  | Owned a =>
    cases ht : innerTake z with
    | none => exact ⟨_, _, _, rfl, Or.inr ht⟩
    | some t =>
      dsimp only
      rw [M.bind_apply, attempt_retried_drainE]
      obtain ⟨r, d', h⟩ := retried_takeLoop_ok t.limit.toNat fa d
      rw [h]
      exact ⟨_, _, _, rfl, Or.inr (innerTake_drained z hz)⟩


/-- One `visit_file` round of `visit` in the model's vocabulary: the header (`read_zipfile_from_stream`, tied to
`streamHeader` by `Tie/StreamGlue`); the visitor; when it returns `Err` the handle is dropped - the SILENT drain
`retried (drain rem)` - and the error is `visit`'s; otherwise `drain_stream` - `retried (drainE rem)`, a read error
RETURNED -, and the `Drop` that follows finds nothing left. -/
def fileRound {V : Type} (vis : Vis V) (ext : GExt) (v : V) : M (Rs.Step V (Unit × V)) := do
  let h ← Gen.read_zipfile_from_stream ext
  match h with
  | none => pure (.brk v)
  | some file => do
    let (r, v', file') ← vis.visit_file v file
    match r with
    | .error e => do
      let _ ← dropModel file'
      M.throw e
    | .ok _ => do
      let (r2, _) ← drainModel file'
      match r2 with
      | .error e => M.throw e
      | .ok _ => pure (.next v')

theorem tie_visit_file_round {V : Type} (vis : Vis V) (ext : GExt) (fuel : Nat) (hv : VisOk vis fuel) (v : V) :
    Gen.ZipStreamReader.visit.loop1_body vis ext fuel v = fileRound vis ext v := by
  funext fa d
  unfold Gen.ZipStreamReader.visit.loop1_body fileRound
  simp only [M.bind_apply]
  cases h1 : Gen.read_zipfile_from_stream ext fa d with
  | mk o1 d1 =>
    cases o1 with
    | err e => rfl
    | panic s => rfl
    | ok hd =>
      cases hd with
      | none => rfl
      | some file =>
        dsimp only
        simp only [M.bind_apply]
        cases h2 : vis.visit_file v file fa d1 with
        | mk o2 d2 =>
          cases o2 with
          | err e => rfl
          | panic s => rfl
          | ok res =>
            obtain ⟨r, v', f'⟩ := res
            obtain ⟨hok, hfuel⟩ := hv v file fa d1 r v' f' d2 h2
            dsimp only
            cases r with
            | error e =>
              dsimp only
              simp only [M.bind_apply, tie_drop fuel f' hfuel]
              cases h3 : dropModel f' fa d2 with
              | mk o3 d3 => cases o3 <;> rfl
            | ok u =>
              dsimp only
              simp only [M.bind_apply, M.pure_apply, tie_drain_stream fuel f' hfuel]
              obtain ⟨r2, z', d3, h3, hnm⟩ := drainModel_spec f' hok fa d2
              rw [h3]
              dsimp only
              cases r2 with
              | error e =>
                dsimp only
                simp only [M.bind_apply, drop_noop fuel z' hnm]
                rfl
              | ok u2 =>
                dsimp only
                simp only [M.bind_apply, M.pure_apply, drop_noop fuel z' hnm]


/-- One `visit_additional_metadata` round behind the first record: the next signature; anything but the central
signature ends the loop; else the rest of the record (`central_header_to_zip_file_inner`, tied to `centralHeaderInner`
by `Tie/Parsers.tie_central_header_inner`), then the visitor, whose error is `visit`'s. -/
def centralRound {V : Type} (vis : Vis V) (v : V) : M (Rs.Step V (Unit × V)) := do
  let sig ← M.readU32
  if sig != Gen.CENTRAL_DIRECTORY_HEADER_SIGNATURE then pure (.brk v) else do
    let m ← Gen.central_header_to_zip_file_inner 0 0
    let (r, v') ← vis.visit_additional_metadata v m
    match r with
    | .error e => M.throw e
    | .ok _ => pure (.next v')

theorem tie_visit_central_round {V : Type} (vis : Vis V) (ext : GExt) (fuel : Nat) (v : V) :
    Gen.ZipStreamReader.visit.loop2_body vis ext fuel v = centralRound vis v := by
  funext fa d
  unfold Gen.ZipStreamReader.visit.loop2_body centralRound Gen.ZipStreamReader.parse_central_directory
  simp only [M.bind_apply]
  cases h1 : M.readU32 fa d with
  | mk o1 d1 =>
    cases o1 with
    | err e => rfl
    | panic s => rfl
    | ok sig =>
      dsimp only
      by_cases hs : (sig != Gen.CENTRAL_DIRECTORY_HEADER_SIGNATURE) = true
      · rw [if_pos hs, if_pos hs]
        rfl
      · rw [if_neg hs, if_neg hs]
        simp only [M.bind_apply]
        cases h2 : Gen.central_header_to_zip_file_inner 0 0 fa d1 with
        | mk o2 d2 =>
          cases o2 with
          | err e => rfl
          | panic s => rfl
          | ok m =>
            dsimp only
            simp only [M.bind_apply, M.pure_apply]
            cases h3 : vis.visit_additional_metadata v m fa d2 with
            | mk o3 d3 =>
              cases o3 with
              | err e => rfl
              | panic s => rfl
              | ok res =>
                obtain ⟨r, v'⟩ := res
                cases r <;> rfl

/-- **`ZipStreamReader::visit`**: the `visit_file` rounds until the central directory's signature has been consumed;
the rest of the FIRST central record and its callback; the further records, each once, until another signature. -/
def visitModel {V : Type} (vis : Vis V) (ext : GExt) (fuel : Nat) (v : V) : M (Unit × V) := do
  let e1 ← Rs.H.loop (fileRound vis ext) fuel v
  match e1 with
  | .ret r => pure r
  | .done v1 => do
    let first ← Gen.central_header_to_zip_file_inner 0 0
    let (r, v2) ← vis.visit_additional_metadata v1 first
    match r with
    | .error e => M.throw e
    | .ok _ => do
      let e2 ← Rs.H.loop (centralRound vis) fuel v2
      match e2 with
      | .ret r => pure r
      | .done v3 => pure ((), v3)

theorem tie_visit {V : Type} (vis : Vis V) (ext : GExt) (fuel : Nat) (hv : VisOk vis fuel) (v : V) :
    Gen.ZipStreamReader.visit vis ext fuel v = visitModel vis ext fuel v := by
  have e1 : Gen.ZipStreamReader.visit.loop1_body vis ext fuel = fileRound vis ext :=
    funext (tie_visit_file_round vis ext fuel hv)
  have e2 : Gen.ZipStreamReader.visit.loop2_body vis ext fuel = centralRound vis :=
    funext (tie_visit_central_round vis ext fuel)
  unfold Gen.ZipStreamReader.visit visitModel
  rw [e1, e2]
  funext fa d
  simp only [M.bind_apply]
  cases h1 : Rs.H.loop (fileRound vis ext) fuel v fa d with
  | mk o1 d1 =>
    cases o1 with
    | err e => rfl
    | panic s => rfl
    | ok le =>
      cases le with
      | ret r => rfl
      | done v1 =>
        dsimp only
        simp only [M.bind_apply]
        cases h2 : Gen.central_header_to_zip_file_inner 0 0 fa d1 with
        | mk o2 d2 =>
          cases o2 with
          | err e => rfl
          | panic s => rfl
          | ok first =>
            dsimp only
            try simp only [M.bind_apply]
            cases h3 : vis.visit_additional_metadata v1 first fa d2 with
            | mk o3 d3 =>
              cases o3 with
              | err e => rfl
              | panic s => rfl
              | ok res =>
                obtain ⟨r, v2⟩ := res
                cases r with
                | error e => rfl
                | ok u =>
                  dsimp only
                  simp only [M.bind_apply, M.pure_apply]
                  cases h4 : Rs.H.loop (centralRound vis) fuel v2 fa d3 with
                  | mk o4 d4 =>
                    cases o4 with
                    | err e => rfl
                    | panic s => rfl
                    | ok le2 => cases le2 <;> rfl

end ZipVerif.Tie.Visit
