import ZipVerif.Tie.Visit
import ZipVerif.Tie.StreamGlue
import ZipVerif.Lemmas.VisitBounds
/-
`ZipStreamReader::visit` against `Model.streamVisitC` ITSELF (helper t6r4): the visitor parameter of `Tie/Visit.tie_visit`
- which holds for every visitor keeping the handle invariant - instantiated with the MODEL'S CONSUMER (`Model.Consume`:
`takeLoop c.chunk p p` through the handle's `Take`, then `Ext.consume`), so that the tie of the translated `visit`
(`Gen/ReadStream.lean`, regenerated on this run) reaches the definitions `Props/C10` and `Props/C11` are stated about.

  rz_spec, chi_spec        `read_zipfile_from_stream` / `central_header_to_zip_file_inner` pointwise, from
                           `Tie/StreamGlue.tie_read_zipfile_from_stream` / `Tie/Parsers.tie_central_header_inner`.
  consumeVis               the consumer as a `ZipStreamVisitor`: `visit_file` reads `min c.pulled csize` compressed bytes
                           through the handle's `Take` (the handle it gives back has its `Take` moved and its pending
                           layer taken: `withTake`), returns a failed read / decoder / checksum error as its `Err`, else
                           records the entry with the `c.k` bytes asked for; `visit_additional_metadata` records the record.
  visOk_consume            it keeps the handle invariant (`VisOk`, the hypothesis of `tie_visit`).
  tie_visit_entry          one `visit_file` round of the translated `visit` = `Model.visitEntry`.
  files_loop               the first loop = `Model.visitEntries`;  central_loop: the second = `Model.streamCentralLoop`.
  tie_visit_streamVisitC   `shown <$> Gen.ZipStreamReader.visit (consumeVis ext pat) gext fuel (0, [], []) = streamVisitC ext pat`
                           pointwise: same outcome, same device, the visitor shown exactly the model's lists.

Hypotheses (explicit): `Hk` - the device fails with a kind other than `Interrupted`, or the run is failure-free (the
header / central `read_exact`s retry `Interrupted`; the READ-mode vocabulary models every failure as hard; the drains
retry on both sides); `KindFacts` (discharged in `Tie/VisitCKind.lean`: `tie_visit_streamVisitC_hard`); fuel above the
largest `Take` (2^64 + 2) and above the model's two loop bounds `len / 30 + 1`, `len / 46 + 1`.  That these bounds of
the model's structural recursions are never what ends its loops is PROVED (`Lemmas/VisitBounds.lean`: every round that
shows an entry consumes at least 30 bytes, every further central record at least 46, of a buffer the run never changes).
-/

set_option linter.unusedSimpArgs false
set_option linter.unusedVariables false
open ZipVerif ZipVerif.Model ZipVerif.Tie.Drain ZipVerif.Tie.Visit ZipVerif.Tie.StreamGlue ZipVerif.Tie.ReaderGlue2
  ZipVerif.Tie.Records ZipVerif.Tie.ReaderGlue

namespace ZipVerif.Tie.VisitC

theorem map_apply {α β} (f : α → β) (x : M α) (fa : Option Nat) (d : Dev) :
    (f <$> x) fa d = match x fa d with
      | (.ok a, d') => (.ok (f a), d')
      | (.err e, d') => (.err e, d')
      | (.panic s, d') => (.panic s, d') := by
  show (x >>= fun a => pure (f a)) fa d = _
  rw [Drain.M.bind_apply]
  rcases x fa d with ⟨o, d'⟩
  cases o <;> rfl

/-! ### the handle `read_zipfile_from_stream` hands out -/

/-- what `read_zipfile_from_stream` answers, read off `tie_read_zipfile_from_stream` pointwise -/
theorem rz_spec (gext : Visit.GExt) (fa : Option Nat) (d : Dev) :
    match Model.streamHeader fa d with
    | (.ok none, d1) => Gen.read_zipfile_from_stream gext fa d = (.ok none, d1)
    | (.ok (some f), d1) =>
      match streamReader f with
      | some r => ∃ file, Gen.read_zipfile_from_stream gext fa d = (.ok (some file), d1) ∧ fileView file = (f, false, none, r)
      | none => ∃ s, Gen.read_zipfile_from_stream gext fa d = (.panic s, d1)
    | (.err e, d1) => Gen.read_zipfile_from_stream gext fa d = (.err e, d1)
    | (.panic s, d1) => Gen.read_zipfile_from_stream gext fa d = (.panic s, d1) := by
  have key := congrFun (congrFun (tie_read_zipfile_from_stream gext) fa) d
  rw [map_apply, Drain.M.bind_apply] at key
  rcases hs : Model.streamHeader fa d with ⟨o, d1⟩
  rw [hs] at key
  rcases hg : Gen.read_zipfile_from_stream gext fa d with ⟨g, d2⟩
  rw [hg] at key
  cases o with
  | err e => cases g <;> simp_all
  | panic s => cases g <;> simp_all
  | ok h =>
    cases h with
    | none =>
      simp only [Drain.M.pure_apply] at key
      cases g with
      | ok x => cases x <;> simp_all
      | err e => simp_all
      | panic s => simp_all
    | some f =>
      simp only [] at key ⊢
      cases hr : streamReader f with
      | none =>
        rw [hr] at key
        cases g <;> simp_all [M.panic]
      | some r =>
        rw [hr] at key
        simp only [Drain.M.pure_apply] at key
        cases g with
        | ok x =>
          cases x with
          | none => simp_all
          | some file =>
            simp only [Option.map_some, Prod.mk.injEq, Out.ok.injEq, Option.some.injEq] at key
            exact ⟨file, by rw [key.2], key.1⟩
        | err e => simp_all
        | panic s => simp_all

/-- the `Take` of a decryption layer replaced (what reading through the layer does to it: the limit goes down) -/
def setCryptoTake (t : Rs.Take) : Gen.CryptoReader → Gen.CryptoReader
  | .Plaintext _ => .Plaintext t
  | .ZipCrypto r => .ZipCrypto { r with inner := t }
  | .Aes r vv => .Aes { r with inner := t } vv

def setReaderTake (t : Rs.Take) : Gen.ZipFileReader → Gen.ZipFileReader
  | .NoReader => .NoReader
  | .Raw _ => .Raw t
  | .Stored r => .Stored { r with inner := setCryptoTake t r.inner }
  | .Deflated r => .Deflated { r with inner := { r.inner with inner := setCryptoTake t r.inner.inner } }
  | .Bzip2 r => .Bzip2 { r with inner := { r.inner with inner := setCryptoTake t r.inner.inner } }
  | .Zstd r => .Zstd { r with inner := { r.inner with inner := { r.inner.inner with inner := setCryptoTake t r.inner.inner.inner } } }

/-- a handle whose reads have moved the `Take` to `t` (a handle that has been read from has built its reader:
`get_reader` took the pending decryption layer) -/
def withTake (z : Gen.ZipFile) (t : Rs.Take) : Gen.ZipFile :=
  { z with reader := setReaderTake t z.reader, crypto_reader := none }

theorem cryptoTake_set (t : Rs.Take) (c : Gen.CryptoReader) : cryptoTake (setCryptoTake t c) = t := by
  cases c <;> rfl

theorem readerTake_set (t : Rs.Take) (r : Gen.ZipFileReader) (h : r ≠ .NoReader) :
    readerTake (setReaderTake t r) = some t := by
  cases r with
  | NoReader => exact absurd rfl h
  | Raw _ => rfl
  | Stored r => simp [setReaderTake, readerTake, cryptoTake_set]
  | Deflated r => simp [setReaderTake, readerTake, cryptoTake_set]
  | Bzip2 r => simp [setReaderTake, readerTake, cryptoTake_set]
  | Zstd r => simp [setReaderTake, readerTake, cryptoTake_set]

theorem setReaderTake_ne (t : Rs.Take) (r : Gen.ZipFileReader) (h : r ≠ .NoReader) : setReaderTake t r ≠ .NoReader := by
  cases r <;> first | exact absurd rfl h | (intro hc; cases hc)

theorem innerTake_withTake (z : Gen.ZipFile) (t : Rs.Take) (h : z.reader ≠ .NoReader) :
    innerTake (withTake z t) = some t := by
  obtain ⟨data, cr, rd⟩ := z
  cases rd with
  | NoReader => exact absurd rfl h
  | Raw _ => rfl
  | Stored r => simp [innerTake, withTake, setReaderTake, readerTake, cryptoTake_set]
  | Deflated r => simp [innerTake, withTake, setReaderTake, readerTake, cryptoTake_set]
  | Bzip2 r => simp [innerTake, withTake, setReaderTake, readerTake, cryptoTake_set]
  | Zstd r => simp [innerTake, withTake, setReaderTake, readerTake, cryptoTake_set]

/-- the reader of a streamed entry is built (`streamReader`), and its `Take` is limited to the compressed size -/
theorem streamReader_take (f : FileData) (r : Gen.ZipFileReader) (h : streamReader f = some r) :
    r ≠ .NoReader ∧ readerTake r = some ⟨f.compressedSize⟩ := by
  unfold streamReader at h
  cases hd : decoderChoice f.method with
  | none => rw [hd] at h; cases h
  | some dec =>
    rw [hd] at h
    simp only [Option.map_some, Option.some.injEq] at h
    subst h
    cases dec <;> exact ⟨(fun hc => by cases hc), rfl⟩

/-! ### the model's consumer as the visitor of the translated `visit` -/

/-- the visitor's state: round index, the entries shown so far with the bytes asked for, the metadata records -/
abbrev VSt := Nat × List (FileData × Bytes) × List FileData

/-- **the model's consumer** (`Model.Consume`, `Model.visitFile`) as a `ZipStreamVisitor`: `visit_file` reads
`min c.pulled compressed_size` compressed bytes through the handle's `Take` in chunks of `c.chunk` (`takeLoop`) - which
moves the `Take` of the handle it gives back -, returns a failed read, a decoder / checksum error (`Ext.consume`) as its
`Err`, and otherwise records the entry with the `c.k` decoded bytes it asked for; `visit_additional_metadata` records
the record. -/
def consumeVis (ext : Ext) (pattern : List Consume) : Vis VSt where
  visit_file v file := do
    let c := Consume.at pattern v.1
    let f := dataOf file.data.get
    let csize := f.compressedSize.toNat
    let d ← M.getDev
    let raw := (d.buf.drop d.pos).take csize
    let p := min c.pulled csize
    let (n, e) ← takeLoop c.chunk p p
    let file' := withTake file ⟨UInt64.ofNat (csize - n)⟩
    match e with
    | some e => pure (.error e, v, file')
    | none =>
      match ext.consume f raw c.k with
      | .err e => pure (.error e, v, file')
      | .panic s => M.panic s
      | .ok bytes => pure (.ok (), (v.1 + 1, v.2.1 ++ [(f, bytes)], v.2.2), file')
  visit_additional_metadata v m := pure (.ok (), (v.1, v.2.1, v.2.2 ++ [dataOf m]))

/-! ### one `visit_file` round -/

/-- what a round of the first loop does with the visitor's state, given the model's answer for the entry -/
def stepOfEntry (v : VSt) : Option (FileData × Bytes) → Rs.Step VSt (Unit × VSt)
  | none => .brk v
  | some x => .next (v.1 + 1, v.2.1 ++ [x], v.2.2)

theorem toNat_ofNat_sub (c : UInt64) (n : Nat) : (UInt64.ofNat (c.toNat - n)).toNat = c.toNat - n := by
  rw [UInt64.toNat_ofNat']
  have := c.toNat_lt
  exact Nat.mod_eq_of_lt (by omega)

/-- **one `visit_file` round of the translated `visit`, with the model's consumer as visitor, IS `Model.visitEntry`**
(the definition `Props/C10` / `C11` reason about): the header, the consumer's reads through the `Take`, on the
visitor's `Err` the silent drop-drain and the error, else the explicit drain whose read error is `visit`'s.  Pointwise
on every device that fails with a kind other than `Interrupted`, and on every failure-free run (the header's
`read_exact`s retry `Interrupted`, which the READ-mode vocabulary does not model; the drains do retry on both sides). -/
theorem tie_visit_entry (ext : Ext) (gext : Visit.GExt) (pat : List Consume) (v : VSt) (fa : Option Nat) (d : Dev)
    (hk : d.fkind ≠ .interrupted ∨ fa = none) :
    fileRound (consumeVis ext pat) gext v fa d =
      (stepOfEntry v <$> visitEntry ext (Consume.at pat v.1)) fa d := by
  have hret : M.retried Model.streamHeader fa d = Model.streamHeader fa d := by
    rcases hk with h | h
    · exact Drain.M.retried_hard _ _ _ h
    · subst h; rfl
  have hspec := rz_spec gext fa d
  have hsome := streamHeader_reader_some fa d
  unfold fileRound visitEntry visitFile
  rw [map_apply]
  simp only [Drain.M.bind_apply, hret]
  rcases hs : Model.streamHeader fa d with ⟨o, d1⟩
  rw [hs] at hspec
  cases o with
  | err e => simp only [] at hspec; rw [hspec]
  | panic s => simp only [] at hspec; rw [hspec]
  | ok h =>
    cases h with
    | none => simp only [] at hspec; rw [hspec]; rfl
    | some f =>
      have hne := hsome (some f) d1 hs f rfl
      simp only [] at hspec
      cases hr : streamReader f with
      | none => exact absurd hr hne
      | some r =>
        rw [hr] at hspec
        obtain ⟨file, hg, hv⟩ := hspec
        rw [hg]
        have hview := hv
        unfold fileView at hview
        simp only [Prod.mk.injEq] at hview
        obtain ⟨hf, hown, hcr, hrd⟩ := hview
        obtain ⟨hrne, hrt⟩ := streamReader_take f r hr
        obtain ⟨a, ha⟩ : ∃ a, file.data = .Owned a := by
          cases hd : file.data with
          | Borrowed b => rw [hd] at hown; cases hown
          | Owned a => exact ⟨a, rfl⟩
        have hgd : ∀ fa d, M.getDev fa d = (Out.ok d, d) := fun _ _ => rfl
        simp only [consumeVis, Drain.M.bind_apply, hf, hgd]
        rcases htl : takeLoop (Consume.at pat v.1).chunk (min (Consume.at pat v.1).pulled f.compressedSize.toNat)
            (min (Consume.at pat v.1).pulled f.compressedSize.toNat) fa d1 with ⟨o2, d2⟩
        cases o2 with
        | err e => rfl
        | panic s => rfl
        | ok ne =>
          obtain ⟨n, e⟩ := ne
          have hit := innerTake_withTake file ⟨UInt64.ofNat (f.compressedSize.toNat - n)⟩ (by rw [hrd]; exact hrne)
          have hdrop : dropModel (withTake file ⟨UInt64.ofNat (f.compressedSize.toNat - n)⟩) =
              (M.retried (drain (f.compressedSize.toNat - n)) >>= fun _ =>
                pure (drained (withTake file ⟨UInt64.ofNat (f.compressedSize.toNat - n)⟩))) := by
            unfold dropModel
            have hd2 : (withTake file ⟨UInt64.ofNat (f.compressedSize.toNat - n)⟩).data = .Owned a := ha
            rw [hd2, hit]
            simp only [toNat_ofNat_sub]
          have hdrain : drainModel (withTake file ⟨UInt64.ofNat (f.compressedSize.toNat - n)⟩) =
              (M.attempt (M.retried (drainE (f.compressedSize.toNat - n))) >>= fun r =>
                pure (r, drained (withTake file ⟨UInt64.ofNat (f.compressedSize.toNat - n)⟩))) := by
            unfold drainModel
            have hd2 : (withTake file ⟨UInt64.ofNat (f.compressedSize.toNat - n)⟩).data = .Owned a := ha
            rw [hd2, hit]
            simp only [toNat_ofNat_sub]
          simp only []
          cases e with
          | some e =>
            simp only [Drain.M.pure_apply, hdrop, Drain.M.bind_apply]
            rcases M.retried (drain (f.compressedSize.toNat - n)) fa d2 with ⟨o3, d3⟩
            cases o3 <;> rfl
          | none =>
            simp only []
            cases hc : ext.consume f (List.take f.compressedSize.toNat (List.drop d1.pos d1.buf)) (Consume.at pat v.fst).k with
            | err e =>
              simp only [Drain.M.pure_apply, hdrop, Drain.M.bind_apply]
              rcases M.retried (drain (f.compressedSize.toNat - n)) fa d2 with ⟨o3, d3⟩
              cases o3 <;> rfl
            | panic s => rfl
            | ok bytes =>
              simp only [Drain.M.pure_apply, hdrain, Drain.M.bind_apply, Drain.M.attempt_apply]
              rcases M.retried (drainE (f.compressedSize.toNat - n)) fa d2 with ⟨o3, d3⟩
              cases o3 <;> rfl

/-! ### the consumer keeps the handle invariant -/

theorem withTake_ok (z : Gen.ZipFile) (t : Rs.Take) : HandleOk (withTake z t) := Or.inr rfl

theorem innerTake_withTake_le (z : Gen.ZipFile) (t t' : Rs.Take) (h : innerTake (withTake z t) = some t') : t' = t := by
  by_cases hr : z.reader = .NoReader
  · unfold innerTake withTake at h
    simp only [hr, setReaderTake, Option.map_none] at h
    cases h
  · rw [innerTake_withTake z t hr] at h
    cases h; rfl

/-- the hypothesis of `tie_visit` holds for the model's consumer (for every fuel above the largest `Take`) -/
theorem visOk_consume (ext : Ext) (pat : List Consume) (fuel : Nat) (hf : 2 ^ 64 + 2 ≤ fuel) :
    VisOk (consumeVis ext pat) fuel := by
  intro v f fa d r v' f' d' h
  have hgd : ∀ fa d, M.getDev fa d = (Out.ok d, d) := fun _ _ => rfl
  simp only [consumeVis, Drain.M.bind_apply, hgd] at h
  rcases htl : takeLoop (Consume.at pat v.1).chunk
      (min (Consume.at pat v.1).pulled (dataOf f.data.get).compressedSize.toNat)
      (min (Consume.at pat v.1).pulled (dataOf f.data.get).compressedSize.toNat) fa d with ⟨o2, d2⟩
  rw [htl] at h
  cases o2 with
  | err e => simp at h
  | panic s => simp at h
  | ok ne =>
    obtain ⟨n, e⟩ := ne
    have hres : ∃ t, f' = withTake f t := by
      simp only [] at h
      cases e with
      | some e =>
        simp only [Drain.M.pure_apply, Prod.mk.injEq, Out.ok.injEq] at h
        exact ⟨_, h.1.2.2.symm⟩
      | none =>
        simp only [] at h
        cases hc : ext.consume (dataOf f.data.get)
            (List.take (dataOf f.data.get).compressedSize.toNat (List.drop d.pos d.buf)) (Consume.at pat v.fst).k with
        | err e =>
          rw [hc] at h
          simp only [Drain.M.pure_apply, Prod.mk.injEq, Out.ok.injEq] at h
          exact ⟨_, h.1.2.2.symm⟩
        | panic s => rw [hc] at h; simp [M.panic] at h
        | ok bytes =>
          rw [hc] at h
          simp only [Drain.M.pure_apply, Prod.mk.injEq, Out.ok.injEq] at h
          exact ⟨_, h.1.2.2.symm⟩
    obtain ⟨t, rfl⟩ := hres
    refine ⟨withTake_ok f t, ?_⟩
    intro t' ht'
    have := innerTake_withTake_le f t t' ht'
    subst this
    have := t'.limit.toNat_lt
    omega

/-! ### the first loop -/

/-- the condition under which the READ-mode header reads and the model's `retried` header reads agree -/
def Hk (fa : Option Nat) (d : Dev) : Prop := d.fkind ≠ .interrupted ∨ fa = none

theorem Hk.step {fa : Option Nat} {d d' : Dev} (h : Hk fa d) (hk : d'.fkind = d.fkind) : Hk fa d' := by
  rcases h with h | h
  · exact Or.inl (by rw [hk]; exact h)
  · exact Or.inr h

/-- the kind of error a device fails with is a property of the device: the model's computations do not change it.
(Proved from `Lemmas/FaultVisit` - `Uniform.kind` - in `Tie/VisitCKind.lean`: `kindFacts`; a parameter here.) -/
structure KindFacts (ext : Ext) (pat : List Consume) : Prop where
  entry : ∀ c fa d, (visitEntry ext c fa d).2.fkind = d.fkind
  entries : ∀ m i fa d, (visitEntries ext pat m i fa d).2.fkind = d.fkind
  central : ∀ fa d, (Model.centralHeaderInner 0 0 fa d).2.fkind = d.fkind

theorem loop_succ {σ ρ : Type} (body : σ → M (Rs.Step σ ρ)) (k : Nat) (s : σ) :
    Rs.H.loop body (k + 1) s = (body s >>= fun r => match r with
      | .next s' => Rs.H.loop body k s'
      | .brk s' => pure (.done s')
      | .ret r => pure (.ret r)) := rfl

theorem visitEntries_succ (ext : Ext) (pat : List Consume) (k i : Nat) :
    visitEntries ext pat (k + 1) i = (visitEntry ext (Consume.at pat i) >>= fun e =>
      match e with
      | none => pure []
      | some x => visitEntries ext pat k (i + 1) >>= fun rest => pure (x :: rest)) := rfl

/-- **the `visit_file` loop of the translated `visit`, with the model's consumer as visitor, is
`Model.visitEntries`**: same outcome and device; on success the visitor has been shown exactly the model's list (when
the model's own loop bound `m` was not what ended its loop). -/
theorem files_loop (ext : Ext) (gext : Visit.GExt) (pat : List Consume) (hK : KindFacts ext pat) : ∀ (m k : Nat), m ≤ k → ∀ (v : VSt) (fa : Option Nat)
    (d : Dev), Hk fa d →
    match visitEntries ext pat m v.1 fa d with
    | (.ok l, d') => l.length < m →
        Rs.H.loop (fileRound (consumeVis ext pat) gext) k v fa d =
          (.ok (.done (v.1 + l.length, v.2.1 ++ l, v.2.2)), d')
    | (.err e, d') => Rs.H.loop (fileRound (consumeVis ext pat) gext) k v fa d = (.err e, d')
    | (.panic s, d') => Rs.H.loop (fileRound (consumeVis ext pat) gext) k v fa d = (.panic s, d') := by
  intro m
  induction m with
  | zero =>
    intro k _ v fa d _
    show ([] : List (FileData × Bytes)).length < 0 → _
    intro h; cases h
  | succ m ih =>
    intro k hk v fa d hkd
    obtain ⟨k', rfl⟩ : ∃ k', k = k' + 1 := ⟨k - 1, by omega⟩
    rw [loop_succ, visitEntries_succ, Drain.M.bind_apply, Drain.M.bind_apply, tie_visit_entry ext gext pat v fa d hkd, map_apply]
    have hkind := hK.entry (Consume.at pat v.1) fa d
    rcases hve : visitEntry ext (Consume.at pat v.1) fa d with ⟨o, d1⟩
    rw [hve] at hkind
    cases o with
    | err e => rfl
    | panic s => rfl
    | ok r =>
      cases r with
      | none =>
        simp only [stepOfEntry, Drain.M.pure_apply]
        intro _
        simp
      | some x =>
        simp only [stepOfEntry, Drain.M.bind_apply]
        have := ih k' (by omega) (v.1 + 1, v.2.1 ++ [x], v.2.2) fa d1 (hkd.step hkind)
        simp only [] at this
        rcases hrest : visitEntries ext pat m (v.1 + 1) fa d1 with ⟨o2, d2⟩
        rw [hrest] at this
        cases o2 with
        | err e => exact this
        | panic s => exact this
        | ok l =>
          simp only [Drain.M.pure_apply, List.length_cons]
          intro hl
          rw [this (by omega)]
          simp only [List.append_assoc, List.cons_append, List.nil_append, Nat.add_assoc, Nat.add_comm 1]

/-! ### the central records -/

theorem chi_spec (fa : Option Nat) (d : Dev) :
    match Model.centralHeaderInner 0 0 fa d with
    | (.ok f, d1) => ∃ m, Gen.central_header_to_zip_file_inner 0 0 fa d = (.ok m, d1) ∧ dataOf m = f
    | (.err e, d1) => Gen.central_header_to_zip_file_inner 0 0 fa d = (.err e, d1)
    | (.panic s, d1) => Gen.central_header_to_zip_file_inner 0 0 fa d = (.panic s, d1) := by
  have key := congrFun (congrFun (Tie.Parsers.tie_central_header_inner 0 0) fa) d
  rw [map_apply] at key
  have h0 : (0 : UInt64).toNat = 0 := rfl
  rw [h0] at key
  rcases hg : Gen.central_header_to_zip_file_inner 0 0 fa d with ⟨g, d2⟩
  rw [hg] at key
  rw [← key]
  cases g with
  | ok m => exact ⟨m, rfl, rfl⟩
  | err e => rfl
  | panic s => rfl

theorem centralLoop_succ (m : Nat) :
    Model.streamCentralLoop (m + 1) = (M.readU32 >>= fun sig =>
      if sig != CENTRAL_SIG then pure [] else
        Model.centralHeaderInner 0 0 >>= fun f => Model.streamCentralLoop m >>= fun rest => pure (f :: rest)) := rfl

theorem centralRound_consume (ext : Ext) (pat : List Consume) (v : VSt) :
    centralRound (consumeVis ext pat) v = (M.readU32 >>= fun sig =>
      if sig != CENTRAL_SIG then pure (.brk v) else
        Gen.central_header_to_zip_file_inner 0 0 >>= fun m => pure (.next (v.1, v.2.1, v.2.2 ++ [dataOf m]))) := by
  unfold centralRound consumeVis
  simp only [pure_bind]
  rfl

/-- **the `visit_additional_metadata` loop of the translated `visit` is `Model.streamCentralLoop`** -/
theorem central_loop (ext : Ext) (pat : List Consume) : ∀ (m k : Nat), m ≤ k → ∀ (v : VSt) (fa : Option Nat) (d : Dev),
    match Model.streamCentralLoop m fa d with
    | (.ok l, d') => l.length < m →
        Rs.H.loop (centralRound (consumeVis ext pat)) k v fa d = (.ok (.done (v.1, v.2.1, v.2.2 ++ l)), d')
    | (.err e, d') => Rs.H.loop (centralRound (consumeVis ext pat)) k v fa d = (.err e, d')
    | (.panic s, d') => Rs.H.loop (centralRound (consumeVis ext pat)) k v fa d = (.panic s, d') := by
  intro m
  induction m with
  | zero =>
    intro k _ v fa d
    show ([] : List FileData).length < 0 → _
    intro h; cases h
  | succ m ih =>
    intro k hk v fa d
    obtain ⟨k', rfl⟩ : ∃ k', k = k' + 1 := ⟨k - 1, by omega⟩
    have hC : Gen.CENTRAL_DIRECTORY_HEADER_SIGNATURE = CENTRAL_SIG := rfl
    rw [loop_succ, centralLoop_succ, Drain.M.bind_apply, Drain.M.bind_apply, centralRound_consume, Drain.M.bind_apply]
    rcases hsig : M.readU32 fa d with ⟨o, d1⟩
    cases o with
    | err e => rfl
    | panic s => rfl
    | ok sig =>
      simp only []
      by_cases hs : (sig != CENTRAL_SIG) = true
      · rw [if_pos hs, if_pos hs]
        simp only [Drain.M.pure_apply]
        intro _
        simp
      · rw [if_neg hs, if_neg hs]
        simp only [Drain.M.bind_apply]
        have hc := chi_spec fa d1
        rcases hchi : Model.centralHeaderInner 0 0 fa d1 with ⟨o2, d2⟩
        rw [hchi] at hc
        cases o2 with
        | err e => simp only [] at hc; rw [hc]
        | panic s => simp only [] at hc; rw [hc]
        | ok f =>
          obtain ⟨mm, hg, hf⟩ := hc
          rw [hg]
          simp only [Drain.M.pure_apply, hf]
          have := ih k' (by omega) (v.1, v.2.1, v.2.2 ++ [f]) fa d2
          simp only [] at this
          rcases hrest : Model.streamCentralLoop m fa d2 with ⟨o3, d3⟩
          rw [hrest] at this
          cases o3 with
          | err e => exact this
          | panic s => exact this
          | ok l =>
            simp only [Drain.M.pure_apply, List.length_cons]
            intro hl
            rw [this (by omega)]
            simp only [List.append_assoc, List.cons_append, List.nil_append]

/-! ### all of `visit` -/

theorem vam_apply (ext : Ext) (pat : List Consume) (v : VSt) (m : Gen.ZipFileData) :
    (consumeVis ext pat).visit_additional_metadata v m = pure (.ok (), (v.1, v.2.1, v.2.2 ++ [dataOf m])) := rfl

/-- what the visitor has been shown, from its final state -/
def shown (r : Unit × VSt) : List (FileData × Bytes) × List FileData := (r.2.2.1, r.2.2.2)

/-- the bound `len / 30 + 1` of the model's entry loop is not what ends it: a successful run has shown fewer entries
(each consumed at least 30 bytes of the buffer: `Lemmas/VisitBounds.visitEntries_len`) -/
theorem entries_bound (ext : Ext) (pat : List Consume) (fa : Option Nat) (d d1 : Dev) (l : List (FileData × Bytes))
    (h : visitEntries ext pat (d.buf.length / 30 + 1) 0 fa d = (.ok l, d1)) : l.length < d.buf.length / 30 + 1 := by
  have := visitEntries_len ext pat _ _ h
  omega

/-- the bound `len / 46 + 1` of the model's central loop is not what ends it, on every device holding the same buffer
(each further record consumed at least 46 bytes: `Lemmas/VisitBounds.streamCentralLoop_len`) -/
theorem central_bound (fa : Option Nat) (d d2 d3 : Dev) (l : List FileData) (hb : d2.buf = d.buf)
    (h : Model.streamCentralLoop (d.buf.length / 46 + 1) fa d2 = (.ok l, d3)) : l.length < d.buf.length / 46 + 1 := by
  have := streamCentralLoop_len _ h
  rw [hb] at this
  omega

/-- **the translated `ZipStreamReader::visit`, run with the model's consumer as its visitor, IS
`Model.streamVisitC`** - the definition `Props/C10` and `Props/C11` are stated about: same outcome, same device, and
on success the visitor has been shown exactly the model's lists (entries with the bytes asked for, then the metadata
records).  For every consumption pattern, every `Ext`, every behaviour of the external layer constructors, on every
device failing with a kind other than `Interrupted` and on every failure-free run (`Hk`: the header `read_exact`s
retry `Interrupted`, which the READ-mode vocabulary does not model), for every fuel above the largest `Take` and the
model's loop bounds. -/
theorem tie_visit_streamVisitC (ext : Ext) (gext : Visit.GExt) (pat : List Consume) (fuel : Nat) (hfuel : 2 ^ 64 + 2 ≤ fuel)
    (fa : Option Nat) (d : Dev) (hk : Hk fa d) (hf1 : d.buf.length / 30 + 1 ≤ fuel) (hf2 : d.buf.length / 46 + 1 ≤ fuel)
    (hK : KindFacts ext pat) :
    (shown <$> Gen.ZipStreamReader.visit (consumeVis ext pat) gext fuel (0, [], [])) fa d =
      streamVisitC ext pat fa d := by
  rw [tie_visit (consumeVis ext pat) gext fuel (visOk_consume ext pat fuel hfuel)]
  rw [map_apply]
  unfold visitModel streamVisitC visitCentral
  have hgd : ∀ fa d, M.getDev fa d = (Out.ok d, d) := fun _ _ => rfl
  simp only [Drain.M.bind_apply, hgd]
  have hL := files_loop ext gext pat hK (d.buf.length / 30 + 1) fuel hf1 (0, [], []) fa d hk
  have hkind1 := hK.entries (d.buf.length / 30 + 1) 0 fa d
  simp only [] at hL
  rcases hve : visitEntries ext pat (d.buf.length / 30 + 1) 0 fa d with ⟨o, d1⟩
  rw [hve] at hL hkind1
  cases o with
  | err e => simp only [] at hL; rw [hL]
  | panic s => simp only [] at hL; rw [hL]
  | ok l =>
    simp only [] at hL hkind1
    rw [hL (entries_bound ext pat fa d d1 l hve)]
    have hb1 : d1.buf = d.buf := (visitEntries_readOnly ext pat _ _).ok hve
    simp only [Nat.zero_add, List.nil_append, Drain.M.bind_apply]
    have hk1 : Hk fa d1 := hk.step hkind1
    have hret1 : M.retried (Model.centralHeaderInner 0 0) fa d1 = Model.centralHeaderInner 0 0 fa d1 := by
      rcases hk1 with h | h
      · exact Drain.M.retried_hard _ _ _ h
      · subst h; rfl
    rw [hret1]
    have hc := chi_spec fa d1
    have hkind2 := hK.central fa d1
    rcases hchi : Model.centralHeaderInner 0 0 fa d1 with ⟨o2, d2⟩
    rw [hchi] at hc hkind2
    cases o2 with
    | err e => simp only [] at hc; rw [hc]
    | panic s => simp only [] at hc; rw [hc]
    | ok f =>
      obtain ⟨mm, hg, hf⟩ := hc
      rw [hg]
      simp only [vam_apply, Drain.M.pure_apply, Drain.M.bind_apply, hf]
      have hk2 : Hk fa d2 := hk1.step hkind2
      have hret2 : M.retried (Model.streamCentralLoop (d.buf.length / 46 + 1)) fa d2 =
          Model.streamCentralLoop (d.buf.length / 46 + 1) fa d2 := by
        rcases hk2 with h | h
        · exact Drain.M.retried_hard _ _ _ h
        · subst h; rfl
      rw [hret2]
      have hC := central_loop ext pat (d.buf.length / 46 + 1) fuel hf2 (l.length, l, [f]) fa d2
      simp only [] at hC
      rcases hcl : Model.streamCentralLoop (d.buf.length / 46 + 1) fa d2 with ⟨o3, d3⟩
      rw [hcl] at hC
      cases o3 with
      | err e =>
        simp only [] at hC
        simp only [List.nil_append, Drain.M.bind_apply]
        rw [hC]
      | panic s =>
        simp only [] at hC
        simp only [List.nil_append, Drain.M.bind_apply]
        rw [hC]
      | ok l2 =>
        simp only [] at hC
        have hb2 : d2.buf = d.buf := ((centralHeaderInner_readOnly 0 0).ok hchi).trans hb1
        have hC' := hC (central_bound fa d d2 d3 l2 hb2 hcl)
        simp only [List.nil_append, Drain.M.bind_apply]
        rw [hC']
        rfl

end ZipVerif.Tie.VisitC
