import ZipVerif.Tie.VisitC
import ZipVerif.Lemmas.FaultVisit
import ZipVerif.Props.C05
/-
The parameter `KindFacts` of `Tie/VisitC.lean` discharged (helper t6r4): no model computation changes the kind of error
a device fails with (`Uniform.kind`, `Lemmas/FaultCore.lean`; instances in `Lemmas/FaultVisit.lean` /
`Lemmas/FaultReader.lean`), hence `tie_visit_streamVisitC_hard`: the translated `ZipStreamReader::visit` with the
model's consumer as visitor is `Model.streamVisitC` (the definition `Props/C11` is stated about), without that
parameter.  No hypothesis on the run is left besides `Hk` and the fuel bounds (the adequacy of the model's loop bounds
is proved: `Lemmas/VisitBounds.lean`); the `example`s at the end instantiate the theorem on the one-entry archive
`Props.C05.oneEntry` (failure-free, and with a hard fault at every call index), where the model's run is evaluated.
-/
open ZipVerif ZipVerif.Model ZipVerif.Tie.Visit

namespace ZipVerif.Tie.VisitC

theorem kindFacts (ext : Ext) (pat : List Consume) : KindFacts ext pat where
  entry c fa d := (visitEntry_uniform ext c).kind fa d
  entries m i fa d := (visitEntries_uniform ext pat m i).kind fa d
  central fa d := (centralHeaderInner_tight 0 0).uni.kind fa d

theorem tie_visit_streamVisitC_hard (ext : Ext) (gext : Visit.GExt) (pat : List Consume) (fuel : Nat) (hfuel : 2 ^ 64 + 2 ≤ fuel)
    (fa : Option Nat) (d : Dev) (hk : Hk fa d) (hf1 : d.buf.length / 30 + 1 ≤ fuel) (hf2 : d.buf.length / 46 + 1 ≤ fuel) :
    (shown <$> Gen.ZipStreamReader.visit (consumeVis ext pat) gext fuel (0, [], [])) fa d =
      streamVisitC ext pat fa d :=
  tie_visit_streamVisitC ext gext pat fuel hfuel fa d hk hf1 hf2 (kindFacts ext pat)

/-! ### non-vacuity: the theorem instantiated on a concrete archive -/

/-- the consumer of the examples: 4 bytes of each entry -/
def pat4 : List Consume := [{ k := 4, pulled := 4 }]

/-- **failure-free run over the one-entry archive `Props.C05.oneEntry`** (101 bytes): every hypothesis of
`tie_visit_streamVisitC_hard` holds, the model's run succeeds (evaluated: one entry `a` with content `Z`, one metadata
record), hence so does the translated `visit`, for every behaviour of the external layer constructors. -/
example (gext : Visit.GExt) :
    (shown <$> Gen.ZipStreamReader.visit (consumeVis storedExt pat4) gext (2 ^ 64 + 2) (0, [], [])) none
        (Dev.ofBytes Props.C05.oneEntry) = streamVisitC storedExt pat4 none (Dev.ofBytes Props.C05.oneEntry) ∧
    ((streamVisitC storedExt pat4 none (Dev.ofBytes Props.C05.oneEntry)).1.isOk = true ∧
      (match (streamVisitC storedExt pat4 none (Dev.ofBytes Props.C05.oneEntry)).1 with
        | .ok (files, metas) => files.map (fun x => (x.1.fileName, x.2)) == [([0x61], [0x5a])] && metas.length == 1
        | _ => false) = true) :=
  ⟨tie_visit_streamVisitC_hard storedExt gext pat4 (2 ^ 64 + 2) (Nat.le_refl _) none (Dev.ofBytes Props.C05.oneEntry)
      (Or.inr rfl) (by decide +kernel) (by decide +kernel), by decide +kernel⟩

/-- **the same archive with I/O call `k` failing hard, for every `k`**: the hypotheses hold (`Hk`: `Dev.ofBytes` fails
with a kind other than `Interrupted`); for every `k` among the calls of the run the model - hence the translated
`visit` - ends in an error (next `example`, evaluated). -/
example (gext : Visit.GExt) (k : Nat) :
    (shown <$> Gen.ZipStreamReader.visit (consumeVis storedExt pat4) gext (2 ^ 64 + 2) (0, [], [])) (some k)
        (Dev.ofBytes Props.C05.oneEntry) = streamVisitC storedExt pat4 (some k) (Dev.ofBytes Props.C05.oneEntry) :=
  tie_visit_streamVisitC_hard storedExt gext pat4 (2 ^ 64 + 2) (Nat.le_refl _) (some k) (Dev.ofBytes Props.C05.oneEntry)
    (Or.inl (by decide)) (by decide +kernel) (by decide +kernel)

example : (List.range (streamVisitC storedExt pat4 none (Dev.ofBytes Props.C05.oneEntry)).2.calls).all (fun k =>
    Props.C05.isErr (streamVisitC storedExt pat4 (some k) (Dev.ofBytes Props.C05.oneEntry)).1) = true := by
  decide +kernel

end ZipVerif.Tie.VisitC
