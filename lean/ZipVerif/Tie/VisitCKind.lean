import ZipVerif.Tie.VisitC
import ZipVerif.Lemmas.FaultVisit
/-
The parameter `KindFacts` of `Tie/VisitC.lean` discharged (helper t6r4): no model computation changes the kind of error
a device fails with (`Uniform.kind`, `Lemmas/FaultCore.lean`; instances in `Lemmas/FaultVisit.lean` /
`Lemmas/FaultReader.lean`), hence `tie_visit_streamVisitC_hard`: the translated `ZipStreamReader::visit` with the
model's consumer as visitor is `Model.streamVisitC` (the definition `Props/C11` is stated about), without that
parameter.  Separate module because the fault lemma family cannot be imported next to the lemma files of C10.
-/
open ZipVerif ZipVerif.Model ZipVerif.Tie.Visit

namespace ZipVerif.Tie.VisitC

theorem kindFacts (ext : Ext) (pat : List Consume) : KindFacts ext pat where
  entry c fa d := (visitEntry_uniform ext c).kind fa d
  entries m i fa d := (visitEntries_uniform ext pat m i).kind fa d
  central fa d := (centralHeaderInner_tight 0 0).uni.kind fa d

theorem tie_visit_streamVisitC_hard (ext : Ext) (gext : Visit.GExt) (pat : List Consume) (fuel : Nat) (hfuel : 2 ^ 64 + 2 ≤ fuel)
    (fa : Option Nat) (d : Dev) (hk : Hk fa d) (hf1 : d.buf.length / 30 + 1 ≤ fuel) (hf2 : d.buf.length / 46 + 1 ≤ fuel)
    (hA : BoundsAdequate ext pat fa d) :
    (shown <$> Gen.ZipStreamReader.visit (consumeVis ext pat) gext fuel (0, [], [])) fa d =
      streamVisitC ext pat fa d :=
  tie_visit_streamVisitC ext gext pat fuel hfuel fa d hk hf1 hf2 hA (kindFacts ext pat)

end ZipVerif.Tie.VisitC
