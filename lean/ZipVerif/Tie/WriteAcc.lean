import ZipVerif.Tie.WriterShort
import ZipVerif.Tie.RawCopy
import ZipVerif.Lemmas.ShortWrite
/-
`self.write_all(buf)` over the translated `write`, for EVERY accept function of the encoder (helper t6w5).

  sim_write_all_gw    std's `write_all` loop (`Rs.S.write_all`) over `Gen.ZipWriter.write ext` IS the generic
                      writer's loop `GW.writeAllLoop ext.accept` (Model/ShortWrite.lean) at the model monad: the
                      one-call tie `tie_write_short` (helper c09b), iterated - the count `write` returned decides
                      `WriteZero` / the rest `&buf[n..]` on both sides (every device, every fault index).
  writeData_acc_M     `GW.writeData acc` at the model monad is the model's `writeData` (whole accept) for every
                      accept function that never answers `Ok(0)` to a non-empty buffer (`AccOk`), unless an
                      ENCODER is in front of the sink AND the entry would cross 4 GiB without `large_file`
                      (`Fits`; there both refuse, but with different byte counts: `ShortWrite.Refusal`).
  sim_write_all_acc   hence `sim_write_all` without `ext.accept b = b.length`.
  sim_add_symlink_acc `sim_add_symlink` without it (the target goes through a storer).
-/
set_option linter.unusedSimpArgs false
set_option linter.unusedVariables false

namespace ZipVerif.Tie.WriterSM
open ZipVerif ZipVerif.Model ZipVerif.Tie.SpecRecords ZipVerif.Tie.Records ZipVerif.Tie.Parsers

theorem Post.bind_post {α β} {P : α → Prop} {Q : β → Prop} {x : M α} {f : α → M β} (hx : Post x P)
    (h : ∀ a, P a → Post (f a) Q) : Post (x >>= f) Q := by
  intro fa d b d' he
  simp only [Model.M.bind_apply] at he
  rcases hxd : x fa d with ⟨o, d1⟩
  rw [hxd] at he
  cases o with
  | ok a => exact h a (hx fa d a d1 hxd) fa d1 b d' he
  | err e => cases he
  | panic s => cases he

theorem bind_congr_post {α β} {P : α → Prop} {x : M α} {f g : α → M β} (hx : Post x P)
    (h : ∀ a, P a → f a = g a) : (x >>= f) = (x >>= g) := by
  funext fa d
  simp only [Model.M.bind_apply]
  rcases hxd : x fa d with ⟨o, d1⟩
  cases o with
  | ok a => simp only [h a (hx fa d a d1 hxd)]
  | err e => rfl
  | panic s => rfl

/-- what `account` returns -/
theorem gw_account_post (taken : Bytes) (s : WState) :
    Post (GW.account taken s : M _) (fun r => r.2.files = s.files ∧ r.2.writingToFile = s.writingToFile ∧
      r.2.statsBytes = s.statsBytes + taken.length ∧ ∀ n, r.1 = .ok n → n = taken.length) := by
  cases h : s.files.getLast? with
  | none =>
    simp only [GW.account, h]
    exact Post.panic _
  | some f =>
    simp only [GW.account, h]
    split
    · exact Post.pure ⟨rfl, rfl, rfl, fun n hn => by cases hn⟩
    · exact Post.pure ⟨rfl, rfl, rfl, fun n hn => by cases hn; rfl⟩

/-- what ONE `write` returns: a count within the buffer, the byte counter advanced by it, `files` still
non-empty, the flag untouched -/
theorem gw_write_post (acc : Bytes → Nat) (hle : ∀ b, acc b ≤ b.length) (buf : Bytes) (s : WState) :
    Post (GW.write acc buf s : M _) (fun r => (s.files ≠ [] → r.2.files ≠ []) ∧
      r.2.writingToFile = s.writingToFile ∧
      ∀ n, r.1 = .ok n → n ≤ buf.length ∧ r.2.statsBytes + (buf.length - n) ≤ s.statsBytes + buf.length) := by
  unfold GW.write
  rcases s with ⟨inner, files, ss, sb, sh, wf, wx, co, wr, cm⟩
  have hacct : ∀ (taken : Bytes) (s' : WState), taken.length ≤ buf.length → s'.files = files → s'.writingToFile = wf →
      s'.statsBytes = sb →
      Post (GW.account taken s' : M _) (fun r => (files ≠ [] → r.2.files ≠ []) ∧ r.2.writingToFile = wf ∧
        ∀ n, r.1 = .ok n → n ≤ buf.length ∧ r.2.statsBytes + (buf.length - n) ≤ sb + buf.length) := by
    intro taken s' ht h1 h2 h3
    refine Post.mono (gw_account_post taken s') ?_
    intro r ⟨e1, e2, e3, e4⟩
    refine ⟨fun h => by rw [e1, h1]; exact h, by rw [e2, h2], fun k hk => ?_⟩
    have := e4 k hk
    omega
  cases wf <;> simp only [Bool.not_false, Bool.not_true, Bool.false_eq_true, ↓reduceIte]
  · exact Post.pure ⟨id, rfl, fun n h => by cases h⟩
  · cases inner with
    | closed => exact Post.pure ⟨id, rfl, fun n h => by cases h⟩
    | storer enc =>
      cases wx <;> simp only [Bool.false_eq_true, ↓reduceIte]
      · cases enc with
        | none =>
          apply Post.bind
          intro r
          cases r with
          | error e => exact Post.pure ⟨id, rfl, fun n h => by cases h⟩
          | ok n => exact hacct _ _ (List.length_take_le' n buf) rfl rfl rfl
        | some e => exact hacct _ _ (Nat.le_refl _) rfl rfl rfl
      · cases h : files.getLast? with
        | none => exact Post.panic _
        | some f =>
          refine Post.pure ⟨fun hne => setLast_ne_nil hne, rfl, fun n hn => ?_⟩
          cases hn
          exact ⟨Nat.le_refl _, by simp⟩
    | compressor mm l enc p =>
      cases wx <;> simp only [Bool.false_eq_true, ↓reduceIte]
      · exact hacct _ _ (List.length_take_le' _ buf) rfl rfl rfl
      · cases h : files.getLast? with
        | none => exact Post.panic _
        | some f =>
          refine Post.pure ⟨fun hne => setLast_ne_nil hne, rfl, fun n hn => ?_⟩
          cases hn
          exact ⟨Nat.le_refl _, by simp⟩

theorem Post.map {α β} {P : α → Prop} {Q : β → Prop} {x : M α} (f : α → β) (hx : Post x P)
    (h : ∀ a, P a → Q (f a)) : Post (f <$> x) Q := by
  rw [map_eq_pure_bind]
  exact Post.bind_post hx fun a ha => Post.pure (h a ha)

/-- **The loop.**  std's `write_all` over the translated `write` is the generic writer's `writeAllLoop` with the
encoder's accept function, at the model monad. -/
theorem sim_write_all_gw (ext : Rs.S.Ext) : ∀ (fuel : Nat) (g : Gen.ZipWriter) (buf : Bytes),
    buf.length < 9223372036854775808 →
    g.stats.bytes_written.toNat + buf.length < 18446744073709551616 →
    (g.writing_to_file = true → g.files ≠ []) →
    Sim absR (fun _ => True) (Rs.S.run (Rs.S.write_all (Gen.ZipWriter.write ext) fuel g buf))
      (GW.writeAllLoop ext.accept fuel buf (absW g) : M _) := by
  intro fuel
  induction fuel with
  | zero =>
    intro g buf _ _ _
    unfold Rs.S.write_all GW.writeAllLoop
    ssimp []
    exact Sim.panic _ _
  | succ fuel ih =>
    intro g buf hlen hbytes hinv
    cases buf with
    | nil =>
      unfold Rs.S.write_all GW.writeAllLoop
      ssimp [List.isEmpty_nil]
      refine Sim.leaf ?_ trivial
      simp only [absR]
    | cons b bs =>
      have tw := tie_write_short ext g (b :: bs) (by simp) hlen hbytes hinv
      -- the continuation of the generic loop, on the count as a `u64`
      let G : Except ZErr UInt64 × WState → M (Except ZErr Unit × WState) := fun p =>
        match p.1 with
        | .error e => pure (.error e, p.2)
        | .ok n => if n.toNat = 0 then pure (.error (.io .writeZero), p.2)
            else GW.writeAllLoop ext.accept fuel ((b :: bs).drop n.toNat) p.2
      have hpost := gw_write_post ext.accept ext.accept_le (b :: bs) (absW g)
      have hY : (GW.writeAllLoop ext.accept (fuel + 1) (b :: bs) (absW g) : M _) =
          (((fun r : Except ZErr Nat × WState => (r.1.map UInt64.ofNat, r.2)) <$>
            (GW.write ext.accept (b :: bs) (absW g) : M _)) >>= G) := by
        show ((GW.write ext.accept (b :: bs) (absW g) : M _) >>= fun p => match p with
            | (r, s) => match r with
              | .error e => pure (.error e, s)
              | .ok n => if n = 0 then pure (.error (.io .writeZero), s)
                  else GW.writeAllLoop ext.accept fuel ((b :: bs).drop n) s) = _
        rw [map_eq_pure_bind, bind_assoc]
        simp only [pure_bind]
        refine bind_congr_post hpost fun r hr => ?_
        obtain ⟨r1, s1⟩ := r
        cases r1 with
        | error e => rfl
        | ok n =>
          obtain ⟨hn, _⟩ := hr.2.2 n rfl
          have : (UInt64.ofNat n).toNat = n := ofNat_toNat_lt n (by simp only [List.length_cons] at hn hlen; omega)
          simp only [G, Except.map, this]
      have hpostY := Post.map (fun r : Except ZErr Nat × WState => (r.1.map UInt64.ofNat, r.2)) hpost
        (Q := fun r => ((absW g).files ≠ [] → r.2.files ≠ []) ∧ r.2.writingToFile = (absW g).writingToFile ∧
          ∀ n : UInt64, r.1 = .ok n → n.toNat ≤ (b :: bs).length ∧
            r.2.statsBytes + ((b :: bs).length - n.toNat) ≤ (absW g).statsBytes + (b :: bs).length)
        (by
          intro r hr
          refine ⟨hr.1, hr.2.1, fun n hn => ?_⟩
          obtain ⟨r1, s1⟩ := r
          cases r1 with
          | error e => cases hn
          | ok k =>
            simp only [Except.map, Except.ok.injEq] at hn
            obtain ⟨hk, hk2⟩ := hr.2.2 k rfl
            have : (UInt64.ofNat k).toNat = k := ofNat_toNat_lt k (by simp only [List.length_cons] at hk hlen; omega)
            rw [← hn, this]
            exact ⟨hk, hk2⟩)
      have hs := Sim.post_of_model (Sim.of_erase tw) hpostY
      unfold Rs.S.write_all
      ssimp [List.isEmpty_cons]
      rw [toM_bind_run (Gen.ZipWriter.write ext g (b :: bs)), hY]
      refine Sim.bind hs ?_
      intro a ha
      obtain ⟨r, g'⟩ := a
      cases r with
      | error e =>
        have hres : G (Except.error e, absW g') = pure (.error e, absW g') := rfl
        ssimp [absR]
        rw [hres]
        refine Sim.leaf ?_ trivial
        simp only [absR]
      | ok n =>
        obtain ⟨hfl, hwf, hcnt⟩ := ha.2
        obtain ⟨hn, hb⟩ := hcnt n rfl
        by_cases hn0 : n.toNat = 0
        · have hz : (n == 0) = true := by
            rw [beq_iff_eq, ← UInt64.toNat_inj, hn0]; rfl
          have hres : G (Except.ok n, absW g') = pure (.error (.io .writeZero), absW g') := by
            simp only [G, hn0, ↓reduceIte]
          ssimp [absR, hz]
          rw [hres]
          refine Sim.leaf ?_ trivial
          simp only [absR]
        · have hz : (n == 0) = false := by
            rw [beq_eq_false_iff_ne, ne_eq, ← UInt64.toNat_inj]
            have e0 : (0 : UInt64).toNat = 0 := by decide
            rw [e0]; exact hn0
          have hsl : Rs.sliceFrom (b :: bs) n = some ((b :: bs).drop n.toNat) := by
            simp only [Rs.sliceFrom, hn, ↓reduceIte]
          ssimp [absR, hz, hsl]
          have hres : G (Except.ok n, absW g') =
              GW.writeAllLoop ext.accept fuel ((b :: bs).drop n.toNat) (absW g') := by
            simp only [G, hn0, ↓reduceIte]
          rw [hres]
          refine ih g' _ ?_ ?_ ?_
          · rw [List.length_drop]; omega
          · rw [List.length_drop]
            have : (absW g').statsBytes = g'.stats.bytes_written.toNat := rfl
            have : (absW g).statsBytes = g.stats.bytes_written.toNat := rfl
            simp only [absR] at hb
            omega
          · intro hw hnil
            have h1 : (absW g).writingToFile = true := by
              have : (absW g').writingToFile = g'.writing_to_file := rfl
              simp only [absR] at hwf
              rw [← hwf, this, hw]
            have h2 : g.files ≠ [] := hinv h1
            have h3 : (absW g).files ≠ [] := by
              show g.files.map dataOf ≠ []
              simpa using h2
            have h4 := hfl h3
            apply h4
            show g'.files.map dataOf = []
            rw [hnil]; rfl

section gw
open ZipVerif.Model.GW

theorem account_M (s : WState) (f : FileData) (hf : s.files.getLast? = some f) (taken : Bytes) :
    (GW.account taken s : M _) =
      if s.statsBytes + taken.length ≤ 0xFFFFFFFF ∨ f.largeFile = true then
        pure (.ok taken.length, { s with statsHasher := Spec.Crc32.updateBytes s.statsHasher taken, statsBytes := s.statsBytes + taken.length })
      else pure (.error (.io .other), { s with statsHasher := Spec.Crc32.updateBytes s.statsHasher taken, statsBytes := s.statsBytes + taken.length, inner := .closed }) := by
  simp only [GW.account, hf]
  by_cases h1 : s.statsBytes + taken.length ≤ 0xFFFFFFFF
  · have : ¬ (s.statsBytes + taken.length > 4294967295) := by omega
    simp only [h1, this, decide_false, Bool.false_and, Bool.false_eq_true, ↓reduceIte, true_or]
  · have : s.statsBytes + taken.length > 4294967295 := by omega
    cases hl : f.largeFile <;>
      simp only [h1, this, decide_true, Bool.true_and, Bool.not_false, Bool.not_true, Bool.false_eq_true,
        ↓reduceIte, false_or, or_true, or_false]

/-- the caller's `write_all` loop in front of an ENCODER (no sink call): every accept function that makes
progress ends with the whole buffer taken, unless the 4 GiB limit refuses -/
theorem loop_M_comp {acc : Bytes → Nat} (ha : AccOk acc) (f : FileData) :
    ∀ (fuel : Nat) (buf : Bytes) (s : WState), buf.length < fuel →
      s.writingToFile = true → s.writingToExtraField = false →
      (∃ mm l enc p, s.inner = .compressor mm l enc p) → s.files.getLast? = some f → Fits s f buf →
      (GW.writeAllLoop acc fuel buf s : M _) = pure (.ok (), fin s buf) := by
  intro fuel
  induction fuel with
  | zero => intro buf s h; omega
  | succ fuel ih =>
    intro buf s hlen hwf hx hcomp hf hfit
    cases buf with
    | nil => rw [fin_nil]; rfl
    | cons b bs =>
      obtain ⟨mm, l, enc, p, hin⟩ := hcomp
      have h1 := ha.le (b :: bs)
      have h2 := ha.pos (b :: bs) (by simp)
      have hsplit : (b :: bs).take (acc (b :: bs)) ++ (b :: bs).drop (acc (b :: bs)) = b :: bs :=
        List.take_append_drop _ _
      have hl : ((b :: bs).take (acc (b :: bs))).length = acc (b :: bs) := by rw [List.length_take]; omega
      have hfit1 : Fits s f ((b :: bs).take (acc (b :: bs))) := by
        apply fits_prefix (rest := (b :: bs).drop (acc (b :: bs)))
        rw [hsplit]; exact hfit
      have hstep : (GW.write acc (b :: bs) s : M _) =
          pure (.ok (acc (b :: bs)), fin s ((b :: bs).take (acc (b :: bs)))) := by
        rcases s with ⟨inner, files, ss, sb, sh, wf, wx, co, wr, cm⟩
        simp only at hwf hx hin hf
        subst hwf hx hin
        simp only [GW.write, Bool.not_true, Bool.false_eq_true, ↓reduceIte]
        rw [account_M _ f hf]
        have hc : sb + ((b :: bs).take (acc (b :: bs))).length ≤ 0xFFFFFFFF ∨ f.largeFile = true := hfit1
        rw [if_pos hc]
        simp only [fin, absorb, hl]
      have hunf : (GW.writeAllLoop acc (fuel + 1) (b :: bs) s : M _) =
          ((GW.write acc (b :: bs) s : M _) >>= fun p => match p with
            | (r, s) => match r with
              | .error e => pure (.error e, s)
              | .ok n => if n = 0 then pure (.error (.io .writeZero), s)
                  else GW.writeAllLoop acc fuel ((b :: bs).drop n) s) := rfl
      rw [hunf, hstep, pure_bind]
      have hn0 : acc (b :: bs) ≠ 0 := by omega
      simp only [hn0, ↓reduceIte]
      have hrl : ((b :: bs).drop (acc (b :: bs))).length < fuel := by
        rw [List.length_drop]; simp only [List.length_cons] at hlen h1 ⊢; omega
      have := ih ((b :: bs).drop (acc (b :: bs))) (fin s ((b :: bs).take (acc (b :: bs)))) hrl
        (by rw [fin_wf]; exact hwf) (by rw [fin_wx]; exact hx)
        ⟨mm, l, enc, p ++ (b :: bs).take (acc (b :: bs)), by rw [fin_inner, hin]; rfl⟩
        (by rw [fin_files]; exact hf) (by rw [fits_fin, hsplit]; exact hfit)
      rw [this, fin_fin, hsplit]

theorem accOk_length : AccOk (fun x : Bytes => x.length) :=
  ⟨fun _ => Nat.le_refl _, fun b hb => by cases b with | nil => exact absurd rfl hb | cons _ _ => simp⟩

theorem account_tail_acc_M (acc : Bytes → Nat) (b : UInt8) (bs : Bytes) (s : WState) (fa : Option Nat) (d : Dev) :
  ((do
      let __x ← (GW.account (b :: bs) s : M _)
      match __x.fst with
        | Except.error e => pure (Except.error e, __x.snd)
        | Except.ok n =>
          if n = 0 then pure (Except.error (ZErr.io IoKind.writeZero), __x.snd)
          else writeAllLoop acc (b :: bs).length (List.drop n (b :: bs)) __x.snd) : M _) fa d =
    (let s := { s with statsHasher := Spec.Crc32.updateBytes s.statsHasher (b :: bs),
                          statsBytes := s.statsBytes + (b :: bs).length }
        match s.files.getLast? with
        | none => M.panic "write.rs:244 files.last_mut().unwrap()"
        | some f =>
          if s.statsBytes > 0xFFFFFFFF && !f.largeFile then
            pure (.error (.io .other), { s with inner := .closed })
          else pure (.ok (), s) : M (Except ZErr Unit × WState)) fa d := by
  simp only [GW.account]
  cases s.files.getLast? with
  | none => rfl
  | some f =>
    simp only []
    split
    · rfl
    · simp only [Model.M.bind_apply, Model.M.pure_apply, List.length_cons, Nat.add_one_ne_zero, ↓reduceIte, List.drop_succ_cons,
        List.drop_length, writeAllLoop_nil_M]

/-- `GW.writeData acc` at the model monad is the model's `writeData`, for every accept function that makes
progress - except when an encoder is in front of the sink and the 4 GiB limit refuses (`Fits`). -/
theorem writeData_acc_M {acc : Bytes → Nat} (ha : AccOk acc) (buf : Bytes) (s : WState)
    (hfit : ∀ mm l e p f, s.inner = .compressor mm l e p → s.files.getLast? = some f → Fits s f buf) :
    (GW.writeData acc buf s : M _) = Model.writeData buf s := by
  cases buf with
  | nil => rfl
  | cons b bs =>
  by_cases hcase : s.writingToFile = true ∧ s.writingToExtraField = false ∧
      (∃ mm l e p, s.inner = .compressor mm l e p) ∧ ∃ f, s.files.getLast? = some f
  · obtain ⟨hwf, hx, ⟨mm, l, e, p, hin⟩, f, hf⟩ := hcase
    have hF := hfit mm l e p f hin hf
    rw [← writeData_M]
    unfold GW.writeData
    rw [loop_M_comp ha f _ _ s (Nat.lt_succ_self _) hwf hx ⟨mm, l, e, p, hin⟩ hf hF,
      loop_M_comp accOk_length f _ _ s (Nat.lt_succ_self _) hwf hx ⟨mm, l, e, p, hin⟩ hf hF]
  · funext fa d
    unfold GW.writeData GW.writeAllLoop GW.write Model.writeData
    rcases s with ⟨inner, files, ss, sb, sh, wf, wx, co, wr, cm⟩
    cases wf <;> simp only [List.isEmpty_cons, Bool.false_eq_true, ↓reduceIte, Bool.not_false, Bool.not_true]
    · rfl
    · cases inner with
      | closed => rfl
      | storer enc =>
        cases wx <;> simp only [Bool.false_eq_true, ↓reduceIte]
        · cases enc with
          | none =>
            simp only [Model.io, Model.M.bind_apply, WriterIO.wAttempt, WriterIO.wWrite, M.attempt, M.write, M.writeAll,
              M.prim, Model.M.pure_apply, List.isEmpty_cons, Bool.false_eq_true, ↓reduceIte]
            by_cases hf : fa = some d.calls
            · simp only [hf, ↓reduceIte]
              rfl
            · simp only [hf, ↓reduceIte, List.take_length]
              exact account_tail_acc_M acc b bs _ fa _
          | some e =>
            exact account_tail_acc_M acc b bs _ fa d
        · cases files.getLast? with
          | none => rfl
          | some f =>
            simp only [Model.M.bind_apply, Model.M.pure_apply, List.length_cons, Nat.add_one_ne_zero, ↓reduceIte, List.drop_succ_cons,
              List.drop_length, writeAllLoop_nil_M]
      | compressor mm l enc p =>
        cases wx <;> simp only [Bool.false_eq_true, ↓reduceIte]
        · cases hl : files.getLast? with
          | none =>
            simp only [GW.account, hl, Model.M.bind_apply]
            rfl
          | some f =>
            exact absurd ⟨rfl, rfl, ⟨mm, l, enc, p, rfl⟩, f, hl⟩ hcase
        · cases files.getLast? with
          | none => rfl
          | some f =>
            simp only [Model.M.bind_apply, Model.M.pure_apply, List.length_cons, Nat.add_one_ne_zero, ↓reduceIte, List.drop_succ_cons,
              List.drop_length, writeAllLoop_nil_M]

end gw

/-- no 4 GiB refusal of this buffer while an ENCODER is in front of the sink -/
def NoRefusal (g : Gen.ZipWriter) (buf : Bytes) : Prop :=
  ∀ mm l e p f, g.inner = .compressor mm l e p → g.files.getLast? = some f →
    g.stats.bytes_written.toNat + buf.length ≤ 0xFFFFFFFF ∨ f.large_file = true

/-- `sim_write_all` for EVERY accept function that makes progress (`AccOk`: at most the buffer, never `Ok(0)` for
a non-empty one) -/
theorem sim_write_all_acc (ext : Rs.S.Ext) (ha : AccOk ext.accept) (g : Gen.ZipWriter) (buf : Bytes)
    (hlen : buf.length < 9223372036854775808)
    (hbytes : g.stats.bytes_written.toNat + buf.length < 18446744073709551616)
    (hinv : g.writing_to_file = true → g.files ≠ [])
    (hnr : NoRefusal g buf) :
    Sim absR (fun _ => True)
      (Rs.S.run (Rs.S.write_all (Gen.ZipWriter.write ext) (buf.length + 1) g buf))
      (writeData buf (absW g)) := by
  have h := sim_write_all_gw ext (buf.length + 1) g buf hlen hbytes hinv
  have e : (GW.writeAllLoop ext.accept (buf.length + 1) buf (absW g) : M _) = writeData buf (absW g) := by
    refine writeData_acc_M ha buf (absW g) ?_
    intro mm l e p fm hin hfm
    cases hl : g.files.getLast? with
    | none =>
      have : (absW g).files.getLast? = none := by
        show (g.files.map dataOf).getLast? = none
        rw [getLastOpt_map, hl]; rfl
      rw [this] at hfm; cases hfm
    | some f =>
      have : (absW g).files.getLast? = some (dataOf f) := by
        show (g.files.map dataOf).getLast? = _
        rw [getLastOpt_map, hl]; rfl
      rw [this] at hfm
      cases hfm
      exact hnr mm l e p f hin hl
  rw [e] at h
  exact h

/-- a device-aware postcondition of the model (`Lemmas/WriterSat.Sat`) that does not mention the device is a
postcondition in the sense of `Tie/WriterSM.Post` -/
theorem post_of_sat {β} {Y : M (Except ZErr β × WState)} {Q : Except ZErr β × WState → Prop}
    (h : ∀ fa d, Sat Y fa d (fun r _ => Q r)) : Post Y Q := by
  intro fa d a d' he
  have := h fa d
  simp only [Sat, he] at this
  exact this

/-- `add_symlink` for every accept function that makes progress: the target is written through a plain or
ZipCrypto storer (`start_entry` leaves one: the model's `StartEntryPost`, carried to the translated object), where
the encoder's accept function is not consulted. -/
theorem sim_add_symlink_acc (ext : Rs.S.Ext) (ha : AccOk ext.accept) (g : Gen.ZipWriter) (name target : Bytes)
    (o : Gen.FileOptions) (hI : Inv (absW g))
    (hf : ∀ f, g.files.getLast? = some f →
      f.extra_field.length ≤ 9223372036854775807 ∧
      f.data_start.toNat + f.extra_field.length < 18446744073709551616 ∧
      f.header_start.toNat + 34 + f.file_name.length < 18446744073709551616)
    (hname : name.length < 18446744073709551616)
    (htarget : target.length < 9223372036854775808)
    (hto : TimeOk (optOf o).time) :
    Sim absR (fun _ => True) (Rs.S.run (Gen.ZipWriter.add_symlink ext g name target o))
      (addSymlink ext.toWExt name target (optOf o) (absW g)) := by
  have htime : (Tie.DateTime.toModel o.last_modified_time).datepart ≠ none := by
    have h : ¬ (Tie.DateTime.toModel o.last_modified_time).year < 1980 := hto
    unfold DateTime.datepart
    rw [if_neg h]
    intro h'; cases h'
  have key : ∀ (o' : Gen.FileOptions), o'.last_modified_time = o.last_modified_time →
      optOf o' = { withFilePerm (optOf o) 0o777 0o120000 with method := .stored } →
      Sim absR (fun _ => True)
        (Rs.S.run (do
          let (t2, t3) ← Gen.ZipWriter.start_entry ext g name o' none
          let (t4, t5) ← Rs.S.write_all (Gen.ZipWriter.write ext) (target.length + 1)
            { t3 with writing_to_file := true } target
          pure ((), { t5 with writing_to_file := false })))
        (addSymlink ext.toWExt name target (optOf o) (absW g)) := by
    intro o' ht ho
    have hto' : TimeOk (optOf o').time := by
      show TimeOk (Tie.DateTime.toModel o'.last_modified_time)
      rw [ht]; exact hto
    have hpostE : Post (startEntry ext.toWExt name (optOf o') (Option.map rawOf none) (absW g))
        (fun r => r.1 = .ok () → ∃ enc, r.2.inner = .storer enc) :=
      post_of_sat fun fa d => Sat.mono (startEntry_sat ext.toWExt name (optOf o') none hto' (absW g) hI fa d)
        (fun r d' hq hr => by
          obtain ⟨_, _, _, _, hin, _⟩ := hq.2 () hr
          rw [hin]
          split <;> exact ⟨_, rfl⟩)
    unfold addSymlink
    rw [← ho]
    ssimp []
    rw [toM_bind_run (Gen.ZipWriter.start_entry ext g name o' none)]
    refine Sim.bind (Sim.post_of_model (sim_start_entry ext g name o' none hf hname (by rw [ht]; exact htime)) hpostE) ?_
    intro p hp
    obtain ⟨r, g2⟩ := p
    cases r with
    | error e =>
      ssimp [absR]
      refine Sim.leaf ?_ trivial
      simp only [absR]
    | ok u =>
      obtain ⟨hne, hb0⟩ := hp.1 rfl
      obtain ⟨enc, hin⟩ := hp.2 rfl
      have hin2 : g2.inner = .storer enc := hin
      ssimp [absR]
      rw [toM_bind_run (Rs.S.write_all (Gen.ZipWriter.write ext) (target.length + 1)
        { g2 with writing_to_file := true } target)]
      have hw := sim_write_all_acc ext ha { g2 with writing_to_file := true } target htarget
        (by show g2.stats.bytes_written.toNat + target.length < 18446744073709551616
            rw [hb0]
            have e0 : (0 : UInt64).toNat = 0 := by decide
            rw [e0]; omega)
        (fun _ => hne)
        (by
          intro mm l e p f hc _
          have hc' : g2.inner = .compressor mm l e p := hc
          rw [hin2] at hc'
          cases hc')
      refine Sim.bind hw ?_
      intro q _
      obtain ⟨r2, g3⟩ := q
      cases r2 with
      | error e =>
        ssimp [absR]
        refine Sim.leaf ?_ trivial
        simp only [absR]
      | ok u2 =>
        ssimp [absR]
        refine Sim.leaf ?_ trivial
        simp only [absR, absW]
  have hopt : ∀ perm : UInt32, o.permissions.getD 0o777 = perm →
      optOf { o with permissions := some (perm ||| 0o120000), compression_method := .Stored } =
        { withFilePerm (optOf o) 0o777 0o120000 with method := .stored } := by
    intro perm h
    simp only [optOf, withFilePerm, h]
    rfl
  unfold Gen.ZipWriter.add_symlink
  cases hp : o.permissions with
  | none =>
    have := key { o with permissions := some (0o777 ||| 0o120000), compression_method := .Stored } rfl (hopt _ (by rw [hp]; rfl))
    simp only [hp, Option.isNone, ↓reduceIte, S.lift_some_bind]
    exact this
  | some perm =>
    have := key { o with permissions := some (perm ||| 0o120000), compression_method := .Stored } rfl (hopt _ (by rw [hp]; rfl))
    simp only [hp, Option.isNone, ↓reduceIte, S.lift_some_bind, Bool.false_eq_true]
    exact this

end ZipVerif.Tie.WriterSM
