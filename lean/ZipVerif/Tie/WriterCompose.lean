import ZipVerif.Tie.WriterSM
import ZipVerif.Tie.RawCopy
import ZipVerif.Tie.AlignedDev
import ZipVerif.Tie.WriteAcc
import ZipVerif.Tie.RawCopyAcc
import ZipVerif.Props.C12
/-
COMPOSITION of the step-wise writer ties (`Tie/WriterSM.lean`) with the writer invariant
(`Lemmas/WriterSat.lean`: `Inv`, `Props/C12.lean`: `inv_init`, `inv_step`, `Call.Admissible`).

`Tie/WriterSM.lean` ties each translated `&mut self` method of `ZipWriter` to the model's step under
hypotheses on the object it is called on.  Those hypotheses are of three kinds; this module discharges the
first two and makes the third an explicit, per-step side condition of a SCRIPT-LEVEL theorem:

  (1) consequences of the writer invariant - `writing_to_file → files ≠ []` (`tie_write`, `sim_write_all`),
      the DOS-representable time of every recorded entry (`FileOK`, second half; `sim_finalize`, `sim_finish`,
      `sim_drop`).  `hinv_of_inv`, `fileOK_of_inv`: from `Inv (absW g)`.
  (2) consequences of `Call.Admissible` - the DOS-representable time of the entry a call creates
      (`htime` of `sim_start_entry`, `sim_start_file`, …).  `htime_of_admissible`.
  (3) where the model counts in `Nat` and the source in `u64` / `usize` (`Fits g c`): the lengths of the
      object's `Vec`s and of the call's slices are Rust-representable (`≤ isize::MAX`, resp. `< 2^64`), the
      open entry's `data_start + extra_field.len()` and `header_start + 34 + file_name.len()` fit `u64`,
      `bytes_written + buf.len()` fits `u64`.  None of these follows from `Inv` (the model has no bounds);
      all of them hold of every value a Rust program can hold on a sink below 2^63 bytes.

  step_sim   `Inv (absW g)`, `(toCall c).Admissible`, `Fits g c`  ⊢
             `Sim absRO ⊤ (gstep ext c g) (Props.C12.step ext (toCall c) (absW g))`
             for every call `c` of the COVERED alphabet `GCall`: the GENERATED method that call runs
             (`gstep`: `Gen.ZipWriter.start_file`, `.start_file_with_extra_data`, `write_all` over
             `Gen.ZipWriter.write`, `.end_local_start_central_extra_data`, `.end_extra_data`,
             `.add_directory`, `.add_symlink`, `.set_comment`, `.finish`, `.drop`) is simulated by the model's
             dispatch of the corresponding model call, up to the `u64`-position panic `OVF`.
  grun_sim   for every list of covered calls, all admissible, from every object satisfying the invariant
             (`fresh`: the value of `ZipWriter::new`, `absW fresh = WState.init`), on every device and fault
             index, with the side conditions (3) holding at every step of the generated run (`FitsRun`):
             EITHER the generated run stops with the `OVF` panic (a sink position ≥ 2^64), OR its per-call
             outcomes (up to the panic-site string), its final object (through `absW`) and its final
             device are those of `Props.C12.runCalls` on the mapped call list.
  grun_no_panic  the transfer of `Props.C12.writer_no_panic` as an example: on a run that ends on a device in
             the `u64` range no call of the GENERATED run panics (other than `OVF`).

So the archive-level theorems of Props/C01, C02, C12 - stated about `runCalls ext calls WState.init fa d` - are,
for `calls = cs.map toCall`, statements about the run of the translated methods `grun ext cs fresh fa d`.

COVERED calls (the methods are translated, `Gen/Writer.lean`): start_file, start_file_with_extra_data, write
(`write_all`), end_local_start_central_extra_data, end_extra_data, add_directory, add_symlink, set_comment,
finish, drop, and (helper t6w4) raw_copy_file_rename from a source whose raw reader delivers the entry in ONE read
(`GCall.rawCopy`, `Tie/RawCopy.sim_raw_copy_one`: an entry of at most 8 KiB; a longer copy is several sink writes in
the source and one in the model's `Call.rawCopy` - equal on a fault-free sink, `raw_copy_chunking_invisible`, but not
under every fault index, so it is not a covered call), and (helper t6w5) start_file_aligned (`GCall.startFileAligned`,
`Tie/AlignedDev.sim_start_file_aligned_at`): its tie holds on the runs that satisfy a POSITION BOUND - the sink
position after the new entry's local header is at most 2^64 - 65540 (`AlignedDev.PosBound`, stated on the model's
run; the source adds the pad and the extra-field length to that position in checked `u64`) -, so `step_sim` is a
statement at ONE fault index and device (`SimAt`) and the bound is the per-step side condition `DevFits` of
`FitsRun` (`True` for every other call).  Scripts that start from `ZipWriter::new_append` instead of
`new`: `Tie/AppendCompose.lean` (`inv_new_append`, `append_grun_sim`).

The vocabulary `Rs.S.switch_to` the generated methods call is PROVED equal to the translated
`GenericZipWriter::switch_to` (`Tie/SwitchTo.lean`), `Rs.S.zc_finish` is linked with the translated
`ZipCryptoWriter::finish` (`Tie/ZcFinish.lean`).

The arguments of a `GCall` are generated values (`Gen.FileOptions`); `toCall` maps them with `optOf`.  The model's
alphabet is larger (compression levels outside `i32`): those calls have no Rust counterpart.

ASSUMED here (beside the vocabulary of `Tie/WriterSM.lean`): `AccOk ext.accept` - the encoder's `write` takes at
most what it is offered and never answers `Ok(0)` to a non-empty buffer (`WriteZero` for `write_all`); NO LONGER
assumed (helper t6w5): `ext.accept b = b.length`.  The model's `Call.write` is `write_all` over an encoder that
takes everything; `Tie/WriteAcc.lean` proves the source's `write_all` loop over the translated `write` equal to it
for every such accept function (`sim_write_all_gw`: the loop is `GW.writeAllLoop ext.accept`, helper c09b's
one-call tie iterated; `writeData_acc_M`), with ONE exception that is a per-step side condition of `.write`
(`NoRefusal` in `ArgFits`): an entry that crosses 4 GiB without `large_file` WHILE an encoder is in front of the
sink - both sides refuse, but the source after the chunk that crossed the limit, the model after the whole buffer
(different byte counter / CRC register in the closed writer: `Lemmas/ShortWrite.Refusal`).  `add_symlink` and
`start_file_aligned` and `raw_copy_file_rename` write through a storer / into the extra field, where the accept
function is not consulted (`sim_add_symlink_acc`, `AlignedDev.sim_wr`, `Tie/RawCopyAcc.sim_raw_copy_one_acc`).
Raw copies of SEVERAL chunks: `Tie/RawCopyAcc.raw_copy_any_chunking` - on a fault-free sink the translated method
has the outcome, final state, sink bytes and position of `Call.rawCopy` of the whole stream for ANY chunking; the
two devices differ in the I/O call counter, so it is not a covered call of `grun_sim` (equal devices, every fault
index) but of the fault-free script tie `Tie/WriterComposeView.vrun_sim` (devices compared by bytes and position);
`dropFields`: what dropping the fields of a `ZipWriter` does after `Drop::drop` returned (flate2 / bzip2
encoders finish into the sink from their destructors) is the model's `dropInner` - external code;
`fresh` is the struct literal of `ZipWriter::new` written by hand (`new` is not translated).
-/
set_option linter.unusedSimpArgs false
set_option linter.unusedVariables false

namespace ZipVerif.Tie.WriterCompose
open ZipVerif ZipVerif.Model ZipVerif.Tie.Records ZipVerif.Tie.WriterSM
open ZipVerif.Props.C12 (Call step runCalls mapStep inv_step)

/-! ### the covered call alphabet -/

/-- One public `ZipWriter` call whose method is translated, with generated argument values. -/
inductive GCall
  | startFile (name : Bytes) (o : Gen.FileOptions)
  | startFileWithExtraData (name : Bytes) (o : Gen.FileOptions)
  | write (buf : Bytes)
  | endLocalStartCentral
  | endExtraData
  | addDirectory (name : Bytes) (o : Gen.FileOptions)
  | addSymlink (name target : Bytes) (o : Gen.FileOptions)
  | setComment (c : Bytes)
  | finish
  | drop
  /-- `raw_copy_file_rename(file, name)` from a source entry whose raw reader delivers its bytes `raw` in ONE read
  (helper t6w4; `now`: the wall clock `FileOptions::default()` reads and the method overwrites) -/
  | rawCopy (now : Gen.DateTime) (file : Rs.C.ZipFile Gen.ZipFileData) (name raw : Bytes)
  /-- `start_file_aligned(name, options, align)` (helper t6w5) -/
  | startFileAligned (name : Bytes) (o : Gen.FileOptions) (align : UInt16)

/-- the model call of a covered call -/
def toCall : GCall → Call
  | .startFile n o => .startFile n (optOf o)
  | .startFileWithExtraData n o => .startFileWithExtraData n (optOf o)
  | .write b => .write b
  | .endLocalStartCentral => .endLocalStartCentral
  | .endExtraData => .endExtraData
  | .addDirectory n o => .addDirectory n (optOf o)
  | .addSymlink n t o => .addSymlink n t (optOf o)
  | .setComment c => .setComment c
  | .finish => .finish
  | .drop => .drop
  | .rawCopy _ file n raw => .rawCopy (dataOf file.data) raw n
  | .startFileAligned n o a => .startFileAligned n (optOf o) a

/-- the value `ZipWriter::new(sink)` builds -/
def fresh : Gen.ZipWriter :=
  { inner := Model.Inner.storer none, files := [],
    stats := { hasher := Rs.Hasher.new, start := 0, bytes_written := 0 },
    writing_to_file := false, writing_to_extra_field := false,
    writing_to_central_extra_field_only := false, writing_raw := false, comment := [] }

theorem absW_fresh : absW fresh = WState.init := rfl

theorem inv_fresh : Inv (absW fresh) := Model.inv_init

def okMap {α β σ : Type} (f : α → β) (r : Except ZErr α × σ) : Except ZErr β × σ := (r.1.map f, r.2)

/-- Dropping the fields of the object after `Drop::drop` returned (external: the encoders' destructors). -/
def dropFields (ext : WExt) (g : Gen.ZipWriter) : M (Except ZErr (Option Nat) × Gen.ZipWriter) :=
  match g.inner with
  | .compressor m l none pending =>
    if m == .deflated || m == .bzip2 then do
      let _ ← M.attempt (M.writeAll (ext.compress m l pending))
      pure (.ok none, { g with inner := .closed })
    else pure (.ok none, g)
  | _ => pure (.ok none, g)

/-- Dispatch of one covered call on the GENERATED methods; success carries the returned offset, if any. -/
def gstep (ext : Rs.S.Ext) (c : GCall) (g : Gen.ZipWriter) : M (Except ZErr (Option Nat) × Gen.ZipWriter) :=
  match c with
  | .startFile n o => okMap (fun _ => none) <$> Rs.S.run (Gen.ZipWriter.start_file ext g n o)
  | .startFileWithExtraData n o =>
    okMap (fun v => some v.toNat) <$> Rs.S.run (Gen.ZipWriter.start_file_with_extra_data ext g n o)
  | .write b => okMap (fun _ => none) <$> Rs.S.run (Rs.S.write_all (Gen.ZipWriter.write ext) (b.length + 1) g b)
  | .endLocalStartCentral =>
    okMap (fun v => some v.toNat) <$> Rs.S.run (Gen.ZipWriter.end_local_start_central_extra_data ext g)
  | .endExtraData => okMap (fun v => some v.toNat) <$> Rs.S.run (Gen.ZipWriter.end_extra_data ext g)
  | .addDirectory n o => okMap (fun _ => none) <$> Rs.S.run (Gen.ZipWriter.add_directory ext g n o)
  | .addSymlink n t o => okMap (fun _ => none) <$> Rs.S.run (Gen.ZipWriter.add_symlink ext g n t o)
  | .setComment c => okMap (fun _ => none) <$> Rs.S.run (Gen.ZipWriter.set_comment ext g c)
  | .finish => okMap (fun _ => none) <$> Rs.S.run (Gen.ZipWriter.finish ext g)
  | .drop => Rs.S.run (Gen.ZipWriter.drop ext g) >>= fun p => dropFields ext.toWExt p.2
  | .rawCopy now file n _ =>
    okMap (fun _ => none) <$> Rs.S.run (Gen.ZipWriter.raw_copy_file_rename ext now g file n)
  | .startFileAligned n o a =>
    okMap (fun v => some v.toNat) <$> Rs.S.run (Gen.ZipWriter.start_file_aligned ext g n o a)

/-! ### (3) the `Nat` / `u64` side conditions -/

/-- the positions of the open entry fit `u64` -/
def LastFits (g : Gen.ZipWriter) : Prop :=
  ∀ f, g.files.getLast? = some f →
    f.extra_field.length ≤ 9223372036854775807 ∧
    f.data_start.toNat + f.extra_field.length < 18446744073709551616 ∧
    f.header_start.toNat + 34 + f.file_name.length < 18446744073709551616

/-- every `Vec` of the object has a Rust-representable length, the open entry's positions fit `u64` -/
structure Sized (g : Gen.ZipWriter) : Prop where
  last : LastFits g
  extras : ∀ f, f ∈ g.files → f.extra_field.length ≤ 9223372036854775807
  nfiles : g.files.length < 18446744073709551616
  comment : g.comment.length < 18446744073709551616

/-- the slices / strings handed to the call are Rust-representable, the byte counter stays in `u64` -/
def ArgFits (g : Gen.ZipWriter) : GCall → Prop
  | .startFile n _ => n.length < 18446744073709551616
  | .startFileWithExtraData n _ => n.length < 18446744073709551616
  | .write b => b.length < 9223372036854775808 ∧
      g.stats.bytes_written.toNat + b.length < 18446744073709551616 ∧ NoRefusal g b
  | .addDirectory n _ => n.length + 1 < 18446744073709551616
  | .addSymlink n t _ => n.length < 18446744073709551616 ∧ t.length < 9223372036854775808
  | .rawCopy _ file n raw => n.length < 18446744073709551616 ∧ Delivers file.raw [raw]
  | .startFileAligned n _ _ => n.length < 18446744073709551616
  | _ => True

def Fits (g : Gen.ZipWriter) (c : GCall) : Prop := Sized g ∧ ArgFits g c

/-- the side condition on the RUN (fault index and device): for `start_file_aligned` the position bound of
`Tie/AlignedDev.lean` - the sink position after the new entry's local header is at most 2^64 - 65540 -, nothing
for the other calls -/
def DevFits (ext : Rs.S.Ext) (g : Gen.ZipWriter) (c : GCall) (fa : Option Nat) (d : Dev) : Prop :=
  match c with
  | .startFileAligned n o _ => AlignedDev.PosBound ext.toWExt n (optOf o) (absW g) fa d
  | _ => True

theorem sized_fresh : Sized fresh :=
  ⟨fun f h => (by cases h), fun f h => (by cases h), (by decide), (by decide)⟩

/-! ### (1), (2): the tie hypotheses that follow from `Inv` and `Call.Admissible` -/

/-- `hinv` of `tie_write` / `sim_write_all` -/
theorem hinv_of_inv (g : Gen.ZipWriter) (hI : Inv (absW g)) : g.writing_to_file = true → g.files ≠ [] := by
  intro h hnil
  have := hI.fileFiles h
  simp only [absW, hnil, List.map_nil, ne_eq, not_true_eq_false] at this

theorem datepart_of_timeOk (t : DateTime) (h : TimeOk t) : t.datepart ≠ none := by
  unfold TimeOk at h
  unfold DateTime.datepart
  rw [if_neg h]
  intro h'; cases h'

/-- `hall` of `sim_finalize` / `sim_finish` / `sim_drop` -/
theorem fileOK_of_inv (g : Gen.ZipWriter) (hI : Inv (absW g)) (hs : Sized g) : ∀ f, f ∈ g.files → FileOK f := by
  intro f hf
  refine ⟨hs.extras f hf, datepart_of_timeOk _ (hI.times (dataOf f) ?_)⟩
  simp only [absW, List.mem_map]
  exact ⟨f, hf, rfl⟩

/-- `htime` of the entry-creating ties: the admissible calls carry a `TimeOk` timestamp -/
theorem htime_of_admissible (c : GCall) (hc : (toCall c).Admissible) :
    match c with
    | .startFile _ o | .startFileWithExtraData _ o | .addDirectory _ o | .addSymlink _ _ o =>
      (Tie.DateTime.toModel o.last_modified_time).datepart ≠ none
    | .rawCopy _ file _ _ => (Tie.DateTime.toModel file.data.last_modified_time).datepart ≠ none
    | _ => True := by
  cases c <;> simp only [toCall, Call.Admissible] at hc ⊢
  · exact datepart_of_timeOk _ hc
  · exact datepart_of_timeOk _ hc.1
  · exact datepart_of_timeOk _ hc
  · exact datepart_of_timeOk _ hc
  · exact datepart_of_timeOk _ hc

/-- the `+ 28` form of `LastFits` (`end_extra_data`) -/
theorem LastFits.extra {g : Gen.ZipWriter} (h : LastFits g) : ∀ f, g.files.getLast? = some f →
    f.extra_field.length ≤ 9223372036854775807 ∧
    f.data_start.toNat + f.extra_field.length < 18446744073709551616 ∧
    f.header_start.toNat + 28 < 18446744073709551616 := by
  intro f hf
  obtain ⟨h1, h2, h3⟩ := h f hf
  exact ⟨h1, h2, by omega⟩

/-! ### one call -/

/-- outcome (with the returned offset) and final object of a generated call as a step of the model -/
def absRO (r : Except ZErr (Option Nat) × Gen.ZipWriter) : Except ZErr (Option Nat) × WState := (r.1, absW r.2)

theorem mapStep_eq {α β} (f : α → β) (st : Step α) (s : WState) :
    mapStep f st s = (st s >>= fun p => pure (p.1.map f, p.2)) := by
  unfold mapStep
  refine bind_congr fun p => ?_
  rfl

/-- a method tie becomes the tie of the dispatched call -/
theorem Sim.toStep {α α' : Type} {φ : Except ZErr α × Gen.ZipWriter → Except ZErr α' × WState}
    {P : Except ZErr α × Gen.ZipWriter → Prop} {X : M (Except ZErr α × Gen.ZipWriter)} {st : Step α'} {s : WState}
    (a : α → Option Nat) (a' : α' → Option Nat) (h : Sim φ P X (st s))
    (hφ : ∀ r, (φ r).2 = absW r.2 ∧ (φ r).1.map a' = r.1.map a) :
    Sim absRO (fun _ => True) (okMap a <$> X) (mapStep a' st s) := by
  rw [mapStep_eq, map_eq_pure_bind]
  refine Sim.bind h fun r _ => Sim.leaf ?_ trivial
  obtain ⟨h1, h2⟩ := hφ r
  simp only [absRO, okMap, h1, h2]

theorem absR_ok {α} (a : α → Option Nat) (r : Except ZErr α × Gen.ZipWriter) :
    (absR r).2 = absW r.2 ∧ (absR r).1.map a = r.1.map a := ⟨rfl, rfl⟩

theorem absRn_ok (r : Except ZErr UInt64 × Gen.ZipWriter) :
    (absRn r).2 = absW r.2 ∧ (absRn r).1.map some = r.1.map (fun v => some v.toNat) := by
  refine ⟨rfl, ?_⟩
  rcases r with ⟨r, g⟩
  cases r <;> rfl

theorem dropFields_eq (ext : WExt) (g : Gen.ZipWriter) :
    absRO <$> dropFields ext g = (dropInner ext (absW g) >>= fun q => pure (q.1.map (fun _ => none), q.2)) := by
  unfold dropFields dropInner
  have hi : (absW g).inner = g.inner := rfl
  rw [hi]
  cases g.inner with
  | closed => rfl
  | storer e => rfl
  | compressor m l enc pending =>
    cases enc with
    | some e => rfl
    | none =>
      dsimp only
      split
      · simp only [map_eq_pure_bind, bind_assoc, pure_bind]; rfl
      · rfl

theorem step_drop_eq (ext : WExt) (s : WState) :
    step ext .drop s = (dropBody ext s >>= fun p => dropInner ext p.2 >>= fun q =>
      pure (q.1.map (fun _ => none), q.2)) := by
  show mapStep _ (dropWriter ext) s = _
  rw [mapStep_eq, dropWriter_eq, bind_assoc]

/-- the pointwise form of `Sim.toStep` -/
theorem SimAt.toStep {α α' : Type} {φ : Except ZErr α × Gen.ZipWriter → Except ZErr α' × WState}
    {P : Except ZErr α × Gen.ZipWriter → Prop} {X : M (Except ZErr α × Gen.ZipWriter)} {st : Step α'} {s : WState}
    {fa : Option Nat} {d : Dev}
    (a : α → Option Nat) (a' : α' → Option Nat) (h : AlignedDev.SimAt φ P X (st s) fa d)
    (hφ : ∀ r, (φ r).2 = absW r.2 ∧ (φ r).1.map a' = r.1.map a) :
    AlignedDev.SimAt absRO (fun _ => True) (okMap a <$> X) (mapStep a' st s) fa d := by
  rw [mapStep_eq, map_eq_pure_bind]
  refine AlignedDev.SimAt.bind h fun r d1 _ _ _ => AlignedDev.SimAt.of_sim (Sim.leaf ?_ trivial)
  obtain ⟨h1, h2⟩ := hφ r
  simp only [absRO, okMap, h1, h2]

/-- **One covered call**: under the invariant, admissibility of the call and the `u64` side conditions the
generated method is simulated by the model's dispatch of the call - on every fault index and device (`SimAt`: the
statement of `Sim` for one run), for `start_file_aligned` on those that satisfy the position bound `DevFits`. -/
theorem step_sim (ext : Rs.S.Ext) (hacc : AccOk ext.accept) (c : GCall) (g : Gen.ZipWriter)
    (hI : Inv (absW g)) (hadm : (toCall c).Admissible) (hfit : Fits g c) (fa : Option Nat) (d : Dev)
    (hdev : DevFits ext g c fa d) :
    AlignedDev.SimAt absRO (fun _ => True) (gstep ext c g) (step ext.toWExt (toCall c) (absW g)) fa d := by
  obtain ⟨hs, ha⟩ := hfit
  have htime := htime_of_admissible c hadm
  cases c with
  | startFile n o =>
    exact AlignedDev.SimAt.of_sim (Sim.toStep _ _ (sim_start_file ext g n o hs.last ha htime) (absR_ok _))
  | startFileWithExtraData n o =>
    exact AlignedDev.SimAt.of_sim (Sim.toStep _ _ (sim_start_file_with_extra_data ext g n o hs.last ha htime) absRn_ok)
  | write b =>
    exact AlignedDev.SimAt.of_sim
      (Sim.toStep _ _ (sim_write_all_acc ext hacc g b ha.1 ha.2.1 (hinv_of_inv g hI) ha.2.2) (absR_ok _))
  | endLocalStartCentral =>
    exact AlignedDev.SimAt.of_sim (Sim.toStep _ _ (sim_end_local_start_central ext g hs.last.extra) absRn_ok)
  | endExtraData =>
    exact AlignedDev.SimAt.of_sim (Sim.toStep _ _ (sim_end_extra_data ext g hs.last.extra) absRn_ok)
  | addDirectory n o =>
    exact AlignedDev.SimAt.of_sim (Sim.toStep _ _ (sim_add_directory ext g n o hs.last ha htime) (absR_ok _))
  | addSymlink n t o =>
    exact AlignedDev.SimAt.of_sim
      (Sim.toStep _ _ (sim_add_symlink_acc ext hacc g n t o hI hs.last ha.1 ha.2 hadm) (absR_ok _))
  | setComment c =>
    refine AlignedDev.SimAt.of_sim ?_
    simp only [gstep, toCall, step, tie_set_comment, map_pure]
    exact Sim.leaf rfl trivial
  | finish =>
    exact AlignedDev.SimAt.of_sim
      (Sim.toStep _ _ (sim_finish ext g hs.last (fileOK_of_inv g hI hs) hs.nfiles hs.comment) (absR_ok _))
  | drop =>
    refine AlignedDev.SimAt.of_sim ?_
    simp only [gstep, toCall]
    rw [step_drop_eq]
    refine Sim.bind (sim_drop ext g hs.last (fileOK_of_inv g hI hs) hs.nfiles hs.comment) fun p _ => ?_
    have := dropFields_eq ext.toWExt p.2
    exact (Sim.of_erase (by rw [this]; rfl)).mono fun _ _ => trivial
  | rawCopy now file n raw =>
    exact AlignedDev.SimAt.of_sim
      (Sim.toStep _ _ (sim_raw_copy_one_acc ext hacc now g hI file n raw hs.last ha.1 hadm ha.2) (absR_ok _))
  | startFileAligned n o a =>
    exact SimAt.toStep _ _ (AlignedDev.sim_start_file_aligned_at ext hacc g hI hs.last n ha o hadm.1 hadm.2 a fa d hdev)
      absRn_ok

/-! ### call sequences -/

/-- Run a sequence of covered calls on the GENERATED methods (the shape of `Props.C12.runCalls`). -/
def grun (ext : Rs.S.Ext) :
    List GCall → Gen.ZipWriter → Option Nat → Dev → List (Out (Option Nat)) × Gen.ZipWriter × Dev
  | [], g, _, d => ([], g, d)
  | c :: cs, g, fa, d =>
    match gstep ext c g fa d with
    | (.ok (.ok v, g'), d') =>
      let r := grun ext cs g' fa d'
      (.ok v :: r.1, r.2)
    | (.ok (.error e, g'), d') =>
      let r := grun ext cs g' fa d'
      (.err e :: r.1, r.2)
    | (.err e, d') =>
      let r := grun ext cs g fa d'
      (.err e :: r.1, r.2)
    | (.panic site, d') => ([.panic site], g, d')

/-- the side conditions (3) hold before every call of the generated run -/
def FitsRun (ext : Rs.S.Ext) : List GCall → Gen.ZipWriter → Option Nat → Dev → Prop
  | [], _, _, _ => True
  | c :: cs, g, fa, d =>
    Fits g c ∧ DevFits ext g c fa d ∧
    match gstep ext c g fa d with
    | (.ok (_, g'), d') => FitsRun ext cs g' fa d'
    | (.err _, d') => FitsRun ext cs g fa d'
    | (.panic _, _) => True

/-- **Script-level tie.**  For every list of covered, admissible calls, from every object with the invariant,
on every device and fault index, the side conditions holding along the run: the run of the GENERATED methods
either stops with the `u64`-position panic `OVF`, or has the outcomes (up to the panic-site string), the
final object and the final device of the model's `runCalls`. -/
theorem grun_sim (ext : Rs.S.Ext) (hacc : AccOk ext.accept) (calls : List GCall)
    (hadm : ∀ c ∈ calls, (toCall c).Admissible) :
    ∀ (g : Gen.ZipWriter), Inv (absW g) → ∀ (fa : Option Nat) (d : Dev), FitsRun ext calls g fa d →
      Out.panic Rs.S.OVF ∈ (grun ext calls g fa d).1 ∨
      ((grun ext calls g fa d).1.map eraseOut =
          (runCalls ext.toWExt (calls.map toCall) (absW g) fa d).1.map eraseOut ∧
        absW (grun ext calls g fa d).2.1 = (runCalls ext.toWExt (calls.map toCall) (absW g) fa d).2.1 ∧
        (grun ext calls g fa d).2.2 = (runCalls ext.toWExt (calls.map toCall) (absW g) fa d).2.2) := by
  induction calls with
  | nil => intro g _ fa d _; right; exact ⟨rfl, rfl, rfl⟩
  | cons c cs ih =>
    intro g hI fa d hfits
    have ih' := ih (fun c' h' => hadm c' (by simp [h']))
    obtain ⟨hfit, hdev, hrest⟩ := hfits
    have hc := hadm c (by simp)
    have hsim := step_sim ext hacc c g hI hc hfit fa d hdev
    unfold AlignedDev.SimAt at hsim
    have hinv := inv_step ext.toWExt (toCall c) hc (absW g) hI fa d
    unfold Model.Sat at hinv
    simp only [List.map_cons, grun, runCalls]
    rcases hx : gstep ext c g fa d with ⟨o, d1⟩
    rw [hx] at hrest
    rcases hsim with hsim | ⟨hsim, _⟩
    · left
      rw [hx] at hsim
      simp only at hsim
      subst hsim
      simp only [List.mem_singleton]
    · simp only [erase, map_apply, hx] at hsim
      rcases hy : step ext.toWExt (toCall c) (absW g) fa d with ⟨o', d2⟩
      rw [hy] at hsim hinv
      simp only [Prod.mk.injEq] at hsim
      obtain ⟨ho, hd⟩ := hsim
      subst hd
      cases o with
      | ok r =>
        obtain ⟨r, g'⟩ := r
        cases o' with
        | ok r' =>
          simp only [eraseOut, Out.ok.injEq, absRO] at ho
          subst ho
          simp only at hinv hrest
          cases r with
          | ok v =>
            simp only
            rcases ih' g' hinv fa d1 hrest with h | ⟨h1, h2, h3⟩
            · left; exact List.mem_cons_of_mem _ h
            · right; exact ⟨by simp only [List.map_cons, h1], h2, h3⟩
          | error e =>
            simp only
            rcases ih' g' hinv fa d1 hrest with h | ⟨h1, h2, h3⟩
            · left; exact List.mem_cons_of_mem _ h
            · right; exact ⟨by simp only [List.map_cons, h1], h2, h3⟩
        | err e => simp only [eraseOut] at ho; cases ho
        | panic s => simp only [eraseOut] at ho; cases ho
      | err e =>
        cases o' with
        | ok r' => simp only [eraseOut] at ho; cases ho
        | err e' => exact hinv.elim
        | panic s => simp only [eraseOut] at ho; cases ho
      | panic s =>
        cases o' with
        | ok r' => simp only [eraseOut] at ho; cases ho
        | err e' => simp only [eraseOut] at ho; cases ho
        | panic s' => right; exact ⟨rfl, rfl, rfl⟩

/-- The fresh-writer instance: `runCalls … WState.init`, the form the archive-level theorems use. -/
theorem grun_sim_fresh (ext : Rs.S.Ext) (hacc : AccOk ext.accept) (calls : List GCall)
    (hadm : ∀ c ∈ calls, (toCall c).Admissible) (fa : Option Nat) (d : Dev)
    (hfits : FitsRun ext calls fresh fa d) :
    Out.panic Rs.S.OVF ∈ (grun ext calls fresh fa d).1 ∨
      ((grun ext calls fresh fa d).1.map eraseOut =
          (runCalls ext.toWExt (calls.map toCall) WState.init fa d).1.map eraseOut ∧
        absW (grun ext calls fresh fa d).2.1 = (runCalls ext.toWExt (calls.map toCall) WState.init fa d).2.1 ∧
        (grun ext calls fresh fa d).2.2 = (runCalls ext.toWExt (calls.map toCall) WState.init fa d).2.2) :=
  grun_sim ext hacc calls hadm fresh inv_fresh fa d hfits

/-- `Props.C12.writer_no_panic`, transferred: no call of the GENERATED run panics, other than by `OVF`,
when the run ends on a device in the `u64` range. -/
theorem grun_no_panic (ext : Rs.S.Ext) (hacc : AccOk ext.accept) (calls : List GCall)
    (hadm : ∀ c ∈ calls, (toCall c).Admissible) (fa : Option Nat) (d : Dev)
    (hfits : FitsRun ext calls fresh fa d)
    (hd : Props.C12.Dev.InRange (grun ext calls fresh fa d).2.2) :
    Out.panic Rs.S.OVF ∈ (grun ext calls fresh fa d).1 ∨ ∀ o ∈ (grun ext calls fresh fa d).1, o.isPanic = false := by
  rcases grun_sim_fresh ext hacc calls hadm fa d hfits with h | ⟨h1, _, h3⟩
  · exact Or.inl h
  · right
    have hadm' : ∀ c ∈ calls.map toCall, c.Admissible := by
      intro c hc
      obtain ⟨c0, hc0, rfl⟩ := List.mem_map.mp hc
      exact hadm c0 hc0
    rw [h3] at hd
    have hnp := Props.C12.writer_no_panic ext.toWExt (calls.map toCall) hadm' fa d hd
    intro o ho
    have : eraseOut o ∈ (runCalls ext.toWExt (calls.map toCall) WState.init fa d).1.map eraseOut := by
      rw [← h1]; exact List.mem_map_of_mem ho
    obtain ⟨o', ho', he⟩ := List.mem_map.mp this
    have := hnp o' ho'
    cases o <;> cases o' <;> simp_all [eraseOut, Out.isPanic]

/-! ### non-vacuity -/

/-- a concrete script satisfies the side conditions -/
example : FitsRun ⟨⟨fun _ _ b => b, fun _ b => b⟩, List.length, fun _ => Nat.le_refl _⟩
    [.setComment [1, 2]] fresh none (Dev.ofBytes []) :=
  ⟨⟨sized_fresh, trivial⟩, trivial, trivial⟩

end ZipVerif.Tie.WriterCompose
