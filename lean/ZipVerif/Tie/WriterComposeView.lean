import ZipVerif.Tie.WriterCompose
import ZipVerif.Lemmas.ViewInv
/-
The script-level tie on a FAULT-FREE sink, with raw copies of ANY chunking among the covered calls (helper t6w5).

`Tie/WriterCompose.grun_sim` concludes that the run of the translated methods and the model's `runCalls` end on EQUAL
devices - for every fault index, where the device's I/O call counter decides which call fails.  A raw copy whose
reader delivers several chunks is several sink writes in the source (`io::copy`: one `write_all` per chunk) and one
in the model's `Call.rawCopy`, so the counters differ and such a copy is not a covered call there.  Without a fault
the counter is never looked at: `Lemmas/ViewInv.vinv_step` - every model call, run fault-free from two devices with
the same bytes at the same position (`SameView`), ends with the same outcome on devices with the same bytes at the
same position.

  vstep_sim   one covered call (`VCall`: a `GCall`, or `raw_copy_file_rename` from a reader that delivers ANY chunks
              of a stream not longer than the entry's `compressed_size`), fault index `none`, the translated side on
              `d`, the model on any `d2` with the same view: `OVF`, or same outcome (panic sites erased), corresponding
              state, same view afterwards (`step_sim` resp. `Tie/RawCopyAcc.raw_copy_any_chunking`, then `vinv_step`).
  vrun_sim    a whole script: `OVF`, or the outcomes and the final writer state of `Props.C12.runCalls` on the mapped
              call list (a multi-chunk copy is mapped to `Call.rawCopy` of the WHOLE stream), and final devices with
              the same bytes at the same position.
-/
set_option linter.unusedSimpArgs false
set_option linter.unusedVariables false

namespace ZipVerif.Tie.WriterCompose
open ZipVerif ZipVerif.Model ZipVerif.Tie.Records ZipVerif.Tie.WriterSM
open ZipVerif.Props.C12 (Call step runCalls mapStep inv_step)

/-- the covered calls of a fault-free run -/
inductive VCall
  | base (c : GCall)
  /-- `raw_copy_file_rename(file, name)`; `chunks`: what the raw reader's successive reads deliver -/
  | rawCopyChunks (now : Gen.DateTime) (file : Rs.C.ZipFile Gen.ZipFileData) (name : Bytes) (chunks : List Bytes)

def VCall.toCall : VCall → Call
  | .base c => WriterCompose.toCall c
  | .rawCopyChunks _ file n chunks => .rawCopy (dataOf file.data) chunks.flatten n

def vstep (ext : Rs.S.Ext) (c : VCall) (g : Gen.ZipWriter) : M (Except ZErr (Option Nat) × Gen.ZipWriter) :=
  match c with
  | .base c => gstep ext c g
  | .rawCopyChunks now file n _ =>
    okMap (fun _ => none) <$> Rs.S.run (Gen.ZipWriter.raw_copy_file_rename ext now g file n)

/-- the side conditions of one call (those of `grun_sim`; for a chunked copy: the reader delivers the chunks, the
stream is not longer than the entry's `compressed_size` - the raw reader is an `io::Take` of that limit) -/
def VFits (ext : Rs.S.Ext) (g : Gen.ZipWriter) (c : VCall) (d : Dev) : Prop :=
  match c with
  | .base c => Fits g c ∧ DevFits ext g c none d
  | .rawCopyChunks _ file n chunks => Sized g ∧ n.length < 18446744073709551616 ∧ Delivers file.raw chunks ∧
      chunks.flatten.length ≤ file.data.compressed_size.toNat

theorem vstep_sim (ext : Rs.S.Ext) (ha : AccOk ext.accept) (c : VCall) (g : Gen.ZipWriter) (hI : Inv (absW g))
    (hadm : c.toCall.Admissible) (d d2 : Dev) (hfit : VFits ext g c d) (hv : SameView d d2) :
    (vstep ext c g none d).1 = .panic Rs.S.OVF ∨
      (eraseOut ((absRO <$> vstep ext c g) none d).1 = eraseOut (step ext.toWExt c.toCall (absW g) none d2).1 ∧
        SameView (vstep ext c g none d).2 (step ext.toWExt c.toCall (absW g) none d2).2) := by
  obtain ⟨o, e, e2, h1, h2, hv2⟩ := (vinv_step ext.toWExt c.toCall (absW g)).run d d2 hv
  cases c with
  | base c =>
    rcases step_sim ext ha c g hI hadm hfit.1 none d hfit.2 with h | ⟨h, _⟩
    · exact Or.inl h
    · right
      have h1' : step ext.toWExt (WriterCompose.toCall c) (absW g) none d = (o, e) := h1
      simp only [erase, h1', Prod.mk.injEq] at h
      rw [show step ext.toWExt (VCall.toCall (.base c)) (absW g) none d2 = (o, e2) from h2]
      refine ⟨h.1, ?_⟩
      have hdev : ((absRO <$> gstep ext c g) none d).2 = (gstep ext c g none d).2 := by rw [map_apply]
      show SameView (gstep ext c g none d).2 e2
      rw [← hdev, h.2]
      exact hv2
  | rawCopyChunks now file n chunks =>
    obtain ⟨hs, hn, hraw, hlen⟩ := hfit
    have hto : TimeOk (dataOf file.data).time := hadm
    rcases raw_copy_any_chunking ext ha now g hI file n chunks hs.last hn hto hraw hlen d with h | ⟨ho, hb, hp⟩
    · left
      show ((okMap (fun _ => none) <$> Rs.S.run (Gen.ZipWriter.raw_copy_file_rename ext now g file n)) none d).1 = _
      rw [map_apply, h]
    · right
      have h1' : mapStep (fun _ => none) (rawCopy ext.toWExt (dataOf file.data) chunks.flatten n) (absW g) none d =
          (o, e) := h1
      rw [show step ext.toWExt (VCall.toCall (.rawCopyChunks now file n chunks)) (absW g) none d2 = (o, e2) from h2]
      rw [mapStep_eq, Model.M.bind_apply] at h1'
      show eraseOut ((absRO <$> (okMap (fun _ => none) <$>
          Rs.S.run (Gen.ZipWriter.raw_copy_file_rename ext now g file n))) none d).1 = eraseOut o ∧
        SameView ((okMap (fun _ => none) <$>
          Rs.S.run (Gen.ZipWriter.raw_copy_file_rename ext now g file n)) none d).2 e2
      simp only [map_apply] at ho ⊢
      rcases hx : Rs.S.run (Gen.ZipWriter.raw_copy_file_rename ext now g file n) none d with ⟨ox, dx⟩
      rcases hy : rawCopy ext.toWExt (dataOf file.data) chunks.flatten n (absW g) none d with ⟨oy, dy⟩
      rw [hx] at ho hb hp
      rw [hy] at ho hb hp h1'
      simp only at ho hb hp h1' ⊢
      have hview : SameView dx e2 := by
        have he : e = dy := by
          cases oy <;> simp only [Model.M.pure_apply, Prod.mk.injEq] at h1' <;> exact h1'.2.symm
        subst he
        exact ⟨by rw [hv2.1, hb], by rw [hv2.2, hp]⟩
      refine ⟨?_, hview⟩
      cases ox with
      | ok a =>
        cases oy with
        | ok b =>
          simp only [eraseOut, Out.ok.injEq] at ho
          simp only [Model.M.pure_apply, Prod.mk.injEq] at h1'
          rw [← h1'.1, ← ho]
          simp only [eraseOut, absRO, absR, okMap]
        | err z => simp only [eraseOut] at ho; cases ho
        | panic z => simp only [eraseOut] at ho; cases ho
      | err z =>
        cases oy with
        | ok b => simp only [eraseOut] at ho; cases ho
        | err z' =>
          simp only [eraseOut, Out.err.injEq] at ho
          simp only [Prod.mk.injEq] at h1'
          rw [← h1'.1, ho]
        | panic z' => simp only [eraseOut] at ho; cases ho
      | panic z =>
        cases oy with
        | ok b => simp only [eraseOut] at ho; cases ho
        | err z' => simp only [eraseOut] at ho; cases ho
        | panic z' =>
          simp only [Prod.mk.injEq] at h1'
          rw [← h1'.1]
          simp only [eraseOut]

/-- Run a sequence of covered calls on the GENERATED methods, fault-free (the shape of `grun` at `fa = none`). -/
def vrun (ext : Rs.S.Ext) : List VCall → Gen.ZipWriter → Dev → List (Out (Option Nat)) × Gen.ZipWriter × Dev
  | [], g, d => ([], g, d)
  | c :: cs, g, d =>
    match vstep ext c g none d with
    | (.ok (.ok v, g'), d') =>
      let r := vrun ext cs g' d'
      (.ok v :: r.1, r.2)
    | (.ok (.error e, g'), d') =>
      let r := vrun ext cs g' d'
      (.err e :: r.1, r.2)
    | (.err e, d') =>
      let r := vrun ext cs g d'
      (.err e :: r.1, r.2)
    | (.panic site, d') => ([.panic site], g, d')

/-- the side conditions hold before every call of the generated run -/
def VFitsRun (ext : Rs.S.Ext) : List VCall → Gen.ZipWriter → Dev → Prop
  | [], _, _ => True
  | c :: cs, g, d =>
    VFits ext g c d ∧
    match vstep ext c g none d with
    | (.ok (_, g'), d') => VFitsRun ext cs g' d'
    | (.err _, d') => VFitsRun ext cs g d'
    | (.panic _, _) => True

/-- **Script-level tie, fault-free, any chunking of the raw copies.** -/
theorem vrun_sim (ext : Rs.S.Ext) (ha : AccOk ext.accept) (calls : List VCall)
    (hadm : ∀ c ∈ calls, c.toCall.Admissible) :
    ∀ (g : Gen.ZipWriter), Inv (absW g) → ∀ (d d2 : Dev), SameView d d2 → VFitsRun ext calls g d →
      Out.panic Rs.S.OVF ∈ (vrun ext calls g d).1 ∨
      ((vrun ext calls g d).1.map eraseOut =
          (runCalls ext.toWExt (calls.map VCall.toCall) (absW g) none d2).1.map eraseOut ∧
        absW (vrun ext calls g d).2.1 = (runCalls ext.toWExt (calls.map VCall.toCall) (absW g) none d2).2.1 ∧
        SameView (vrun ext calls g d).2.2 (runCalls ext.toWExt (calls.map VCall.toCall) (absW g) none d2).2.2) := by
  induction calls with
  | nil => intro g _ d d2 hv _; right; exact ⟨rfl, rfl, hv⟩
  | cons c cs ih =>
    intro g hI d d2 hv hfits
    have ih' := ih (fun c' h' => hadm c' (by simp [h']))
    obtain ⟨hfit, hrest⟩ := hfits
    have hc := hadm c (by simp)
    have hsim := vstep_sim ext ha c g hI hc d d2 hfit hv
    have hinv := inv_step ext.toWExt c.toCall hc (absW g) hI none d2
    unfold Model.Sat at hinv
    simp only [List.map_cons, vrun, runCalls]
    rcases hx : vstep ext c g none d with ⟨o, d1⟩
    rw [hx] at hrest
    rcases hsim with hsim | ⟨hsim, hview⟩
    · left
      rw [hx] at hsim
      simp only at hsim
      subst hsim
      simp only [List.mem_singleton]
    · rw [map_apply, hx] at hsim
      rw [hx] at hview
      rcases hy : step ext.toWExt c.toCall (absW g) none d2 with ⟨o', d2'⟩
      rw [hy] at hsim hinv hview
      simp only at hsim hview
      cases o with
      | ok r =>
        obtain ⟨r, g'⟩ := r
        cases o' with
        | ok r' =>
          simp only [eraseOut, Out.ok.injEq, absRO] at hsim
          subst hsim
          simp only at hinv hrest
          cases r with
          | ok v =>
            simp only
            rcases ih' g' hinv d1 d2' hview hrest with h | ⟨h1, h2, h3⟩
            · left; exact List.mem_cons_of_mem _ h
            · right; exact ⟨by simp only [List.map_cons, h1], h2, h3⟩
          | error e =>
            simp only
            rcases ih' g' hinv d1 d2' hview hrest with h | ⟨h1, h2, h3⟩
            · left; exact List.mem_cons_of_mem _ h
            · right; exact ⟨by simp only [List.map_cons, h1], h2, h3⟩
        | err e => simp only [eraseOut] at hsim; cases hsim
        | panic s => simp only [eraseOut] at hsim; cases hsim
      | err e =>
        cases o' with
        | ok r' => simp only [eraseOut] at hsim; cases hsim
        | err e' => exact hinv.elim
        | panic s => simp only [eraseOut] at hsim; cases hsim
      | panic s =>
        cases o' with
        | ok r' => simp only [eraseOut] at hsim; cases hsim
        | err e' => simp only [eraseOut] at hsim; cases hsim
        | panic s' => right; exact ⟨rfl, rfl, hview⟩

end ZipVerif.Tie.WriterCompose
