import ZipVerif.Gen.Writer
import ZipVerif.Tie.Parsers
/-
Tie obligations for the WRITER STATE MACHINE of src/write.rs (`impl ZipWriter`; translator tier T6,
STATE-MACHINE mode, `rs2lean/src/t6w.rs`, vocabulary in `Basic/RsS.lean`).

`rs2lean` regenerates `Gen.ZipWriter` (the structure) and its methods on every run as state-passing
computations over the model's I/O monad:

    Gen.ZipWriter.f (ext : Rs.S.Ext) (self : Gen.ZipWriter) (args…) : Rs.S Gen.ZipWriter (R × Gen.ZipWriter)

(`Rs.S σ α = M (Except (ZErr × σ) α)`: an `Err` carries the object as the method left it).  A Tie theorem is
an equation between state transformers

    erase (absR <$> Rs.S.run (Gen.ZipWriter.f ext g args)) = erase (Model.f … (absW g))

for every writer value `g`, every device and every fault index: same I/O calls in the same order, same
outcome class and error, same final device, and the final writer states correspond (`absW`: the model
`WState` of a generated `ZipWriter`: `files` through `Tie.Records.dataOf`, the `u64` counters through
`toNat`).  `erase` forgets the panic-site STRING only (the model names source lines, the translation does
not); a panic is still compared as a panic.

  tie_stats_update          Gen.ZipWriterStats.update                 (hasher fold, checked `+=` of the byte count)
  tie_write                 Gen.ZipWriter.write buf = Model.writeData buf     (buf ≠ [], one `write` call)
  write_accounts_accepted   `stats.update(&buf[..count])` uses the count the encoder ACCEPTED (any `ext.accept`)

Hypotheses, and why (each is where the model idealises):
  * `buf.length < 2^63` - a Rust slice;  `bytes_written + buf.length < 2^64` - the model counts in `Nat`,
    the source in checked `u64`;
  * `writing_to_file → files ≠ []` (`tie_write`) - the writer invariant `Inv.fileFiles` (Lemmas/WriterSat):
    the model's `writeData` looks the open entry up BEFORE comparing the byte count with the 4 GiB limit,
    the source short-circuits (`bytes_written > THR && !files.last_mut().unwrap().large_file`), so on a
    state without entries (unreachable) the model panics where the source does not;
  * `ext.accept b = b.length` (`tie_write`) - the model's `writeData` is `write_all`: it never sees an
    encoder that takes fewer bytes than offered.  `write_accounts_accepted` is the obligation for the
    general case.

TRUSTED VOCABULARY (external code; `Basic/RsS.lean` gives each name the meaning of the model's existing
treatment in `Model/Writer.lean` - `Inner`, `EncState`, `WExt`, `switchTo`, `emit`, `emitFinish`):
  * `GenericZipWriter<W>` is `Model.Inner` (`Closed` | `Storer(MaybeEncrypted)` | an encoder with its
    pending plaintext); the sink `W` itself is the device of the monad `M`;
  * `inner.ref_mut()` is `None` exactly when closed; `w.write(buf)` on the returned `&mut dyn Write`
    (`Rs.S.enc_write`): a plain storer issues ONE `write` call on the sink and returns its count, the
    ZipCrypto layer buffers the bytes, an encoder consumes `ext.accept buf ≤ buf.len()` bytes (its output
    reaches the sink when it is finished);
  * `inner.is_closed()`, `inner.get_plain()` (panics unless `Storer(Unencrypted)`);
  * `mem::replace(&mut self.inner, Closed)`: the old value is moved out; DROPPING it is not modelled (a
    flate2 / bzip2 encoder would flush into the sink from its destructor; the model covers that only
    for `Drop for ZipWriter`, `Model.dropInner`);
  * `crc32fast::Hasher` is the raw CRC register (`new` = all ones, `update` = `Spec.Crc32.updateBytes`,
    `clone().finalize()` = complement); `Vec::last/last_mut/push/len`, `<Vec<u8> as Write>::write`
    (appends everything).
-/
set_option linter.unusedSimpArgs false
set_option linter.unusedSectionVars false
set_option linter.unusedVariables false

namespace ZipVerif.Tie.WriterSM
open ZipVerif ZipVerif.Model ZipVerif.Tie.SpecRecords ZipVerif.Tie.Records ZipVerif.Tie.Parsers

/-! ### comparing `M` computations up to the panic-site string -/

def eraseOut {α} : Out α → Out α
  | .panic _ => .panic ""
  | o => o

/-- the same computation with every panic-site string erased -/
def erase {α} (m : M α) : M α := fun fa d => (eraseOut (m fa d).1, (m fa d).2)

theorem erase_bind {α β} (x : M α) (f : α → M β) : erase (x >>= f) = erase x >>= fun a => erase (f a) := by
  apply M.ext; intro fa d
  simp only [erase, M.bind_apply]
  rcases h : x fa d with ⟨o, d'⟩
  cases o <;> simp only [eraseOut]

theorem erase_pure {α} (a : α) : erase (pure a : M α) = pure a := rfl
theorem erase_panic {α} (s : String) : erase (M.panic s : M α) = M.panic "" := rfl
theorem erase_throw {α} (e : ZErr) : erase (M.throw e : M α) = M.throw e := rfl
theorem erase_ite {α} (c : Prop) [Decidable c] (a b : M α) :
    erase (if c then a else b) = if c then erase a else erase b := by split <;> rfl

theorem erase_prim {α} (f : Dev → Out α × Dev) (hf : ∀ d, ∀ s, (f d).1 ≠ .panic s) :
    erase (M.prim f) = M.prim f := by
  apply M.ext; intro fa d
  simp only [erase, M.prim]
  split
  · rfl
  · rcases h : f { d with calls := d.calls + 1 } with ⟨o, d'⟩
    cases o with
    | ok a => rfl
    | err e => rfl
    | panic s => exact absurd (by rw [h]) (hf _ s)

theorem erase_write (bs : Bytes) : erase (M.write bs) = M.write bs :=
  erase_prim _ (fun d s h => by cases h)
theorem erase_flush : erase M.flush = M.flush := erase_prim _ (fun d s h => by cases h)
theorem erase_seek (sf : SeekFrom) : erase (M.seek sf) = M.seek sf := by
  apply erase_prim
  intro d s
  cases sf <;> dsimp only <;> split <;> (intro h; cases h)

theorem erase_attempt {α} (m : M α) : erase (M.attempt m) = M.attempt (erase m) := by
  apply M.ext; intro fa d
  simp only [erase, M.attempt]
  rcases h : m fa d with ⟨o, d'⟩
  cases o <;> rfl

theorem erase_writeAll (bs : Bytes) : erase (M.writeAll bs) = M.writeAll bs := by
  unfold M.writeAll
  split
  · rfl
  · rw [erase_bind, erase_write]; rfl

theorem erase_congr {α β} (x : M α) (f g : α → M β) (h : ∀ a, erase (f a) = erase (g a)) :
    erase (x >>= f) = erase (x >>= g) := by
  rw [erase_bind, erase_bind]; congr 1; funext a; exact h a

/-! ### the `S` monad as `M` code -/

open Rs in
theorem S.toM_bind {σ α β} (x : S σ α) (f : α → S σ β) :
    S.toM (x >>= f) = S.toM x >>= fun r => match r with
      | .ok a => S.toM (f a)
      | .error e => pure (.error e) := rfl
open Rs in
theorem S.toM_pure {σ α} (a : α) : S.toM (pure a : S σ α) = pure (.ok a) := rfl
open Rs in
theorem S.toM_ofM {σ α} (m : M (Except (ZErr × σ) α)) : S.toM (S.ofM m) = m := rfl
open Rs in
theorem S.toM_ite {σ α} (c : Prop) [Decidable c] (a b : S σ α) :
    S.toM (if c then a else b) = if c then S.toM a else S.toM b := by split <;> rfl
open Rs in
theorem S.toM_dite {σ α} (c : Prop) [Decidable c] (a : c → S σ α) (b : ¬ c → S σ α) :
    S.toM (dite c a b) = dite c (fun h => S.toM (a h)) (fun h => S.toM (b h)) := by split <;> rfl

/-- Normal form of straight-line `S` code: right-nested `M` binds. -/
syntax "ssimp" ("[" Lean.Parser.Tactic.simpLemma,* "]")? : tactic
macro_rules
  | `(tactic| ssimp [$ls,*]) => `(tactic| simp only [Rs.S.run, S.toM_bind, S.toM_pure, S.toM_ofM, S.toM_ite,
      Rs.S.err, Rs.S.throw, Rs.S.lift, Rs.S.panic, Rs.S.io, Rs.S.ofResult, Rs.S.call, Rs.S.sub, Rs.S.attempt,
      bind_assoc, pure_bind, map_eq_pure_bind, M.throw_bind, M.panic_bind, M.ite_bind, Rs.zerr,
      ↓reduceIte, Bool.false_eq_true, Bool.not_true, Bool.not_false, $ls,*])
  | `(tactic| ssimp) => `(tactic| ssimp [bind_assoc])

/-! ### the state abstraction -/

/-- The model's writer state of a generated `ZipWriter` value. -/
def absW (g : Gen.ZipWriter) : WState :=
  { inner := g.inner, files := g.files.map dataOf, statsStart := g.stats.start.toNat,
    statsBytes := g.stats.bytes_written.toNat, statsHasher := g.stats.hasher,
    writingToFile := g.writing_to_file, writingToExtraField := g.writing_to_extra_field,
    centralOnly := g.writing_to_central_extra_field_only, writingRaw := g.writing_raw,
    comment := g.comment }

/-- outcome and final state of a generated method as a step of the model -/
def absR {α} (r : Except ZErr α × Gen.ZipWriter) : Except ZErr α × WState := (r.1, absW r.2)

theorem getLastOpt_map {α β} (f : α → β) (l : List α) : (l.map f).getLast? = l.getLast?.map f := by
  simp only [List.getLast?_map]

theorem setLast_map (l : List Gen.ZipFileData) (x : Gen.ZipFileData) :
    (Rs.setLast l x).map dataOf = Model.setLast (l.map dataOf) (dataOf x) := by
  unfold Rs.setLast Model.setLast
  rw [← List.map_reverse]
  cases l.reverse <;> simp only [List.map_nil, List.map_cons, List.map_reverse]

/-! ### `ZipWriterStats::update`, `impl Write for ZipWriter :: write` -/

theorem len_add (a : UInt64) (buf : Bytes) (h : a.toNat + buf.length < 18446744073709551616) :
    Rs.Arith.add a (Rs.as' UInt64 (Rs.len buf)) = some (a + UInt64.ofNat buf.length) ∧
    (a + UInt64.ofNat buf.length).toNat = a.toNat + buf.length := by
  have hl : (Rs.as' UInt64 (Rs.len buf)).toNat = buf.length := by
    simp only [Rs.as', Rs.As.cast, id, Rs.len, UInt64.toNat_ofNat']; omega
  have e : Rs.as' UInt64 (Rs.len buf) = UInt64.ofNat buf.length := rfl
  rw [e] at hl ⊢
  have := add_u64 a _ (by rw [hl]; exact h)
  rwa [hl] at this

theorem tie_stats_update (ext : Rs.S.Ext) (st : Gen.ZipWriterStats) (buf : Bytes)
    (h : st.bytes_written.toNat + buf.length < 18446744073709551616) :
    Rs.S.toM (Gen.ZipWriterStats.update ext st buf) =
      pure (.ok ((), { hasher := Spec.Crc32.updateBytes st.hasher buf, start := st.start,
                       bytes_written := st.bytes_written + UInt64.ofNat buf.length })) := by
  unfold Gen.ZipWriterStats.update
  ssimp [(len_add st.bytes_written buf h).1, Rs.Hasher.update]


theorem write_attempt_bind {β} (bs : Bytes) (k : Except ZErr Nat → M β) :
    (M.attempt (M.write bs) >>= k) = (M.attempt (M.write bs) >>= fun r => match r with
      | .ok _ => k (.ok bs.length)
      | .error e => k (.error e)) := by
  apply M.ext; intro fa d
  simp only [M.bind_apply, M.attempt, M.write, M.prim]
  by_cases hf : fa = some d.calls <;> simp only [hf, ↓reduceIte]

theorem writeAll_attempt_bind {β} (bs : Bytes) (hne : bs.isEmpty = false) (k : Except ZErr Unit → M β) :
    (M.attempt (M.writeAll bs) >>= k) = (M.attempt (M.write bs) >>= fun r => match r with
      | .ok _ => k (.ok ())
      | .error e => k (.error e)) := by
  apply M.ext; intro fa d
  simp only [M.writeAll, hne, Bool.false_eq_true, ↓reduceIte, M.bind_apply, M.attempt, M.write, M.prim, M.pure_apply]
  by_cases hf : fa = some d.calls <;> simp only [hf, ↓reduceIte]

theorem slice_all (buf : Bytes) (h : buf.length < 18446744073709551616) :
    Rs.slice buf (0 : UInt64) (UInt64.ofNat buf.length) = some buf := by
  have e : (UInt64.ofNat buf.length).toNat = buf.length := by
    simp only [UInt64.toNat_ofNat']; omega
  have e0 : (0 : UInt64).toNat = 0 := by decide
  simp only [Rs.slice, e, e0, Nat.zero_le, Nat.le_refl, and_self, ↓reduceIte, List.take_length, List.drop_zero]

theorem gt_thr (x : UInt64) : (x > Gen.ZIP64_BYTES_THR) ↔ x.toNat > 0xFFFFFFFF := by
  have e : Gen.ZIP64_BYTES_THR.toNat = 0xFFFFFFFF := by decide
  rw [gt_iff_lt, UInt64.lt_iff_toNat_lt, e]

theorem tie_write (ext : Rs.S.Ext) (g : Gen.ZipWriter) (buf : Bytes) (hb : buf ≠ [])
    (hlen : buf.length < 9223372036854775808)
    (hbytes : g.stats.bytes_written.toNat + buf.length < 18446744073709551616)
    (hinv : g.writing_to_file = true → g.files ≠ [])
    (hacc : ∀ b, ext.accept b = b.length) :
    erase (absR <$> Rs.S.run (Gen.ZipWriter.write ext g buf)) =
      erase ((fun r => (r.1.map fun _ => Rs.len buf, r.2)) <$> writeData buf (absW g)) := by
  unfold Gen.ZipWriter.write writeData
  have hne : buf.isEmpty = false := by cases buf <;> simp_all
  obtain ⟨hadd, haddn⟩ := len_add g.stats.bytes_written buf hbytes
  cases hwf : g.writing_to_file
  · ssimp [hwf, absW, hne]
    simp only [absR, absW, hwf, Except.map]
  · have hfiles := hinv hwf
    have hlast : ∃ f, g.files.getLast? = some f := by
      cases h : g.files.getLast? with
      | none => exact absurd (List.getLast?_eq_none_iff.mp h) hfiles
      | some f => exact ⟨f, rfl⟩
    obtain ⟨f, hf⟩ := hlast
    have hdl : (dataOf f).largeFile = f.large_file := rfl
    cases hin : g.inner with
    | closed =>
      ssimp [hwf, absW, hne, hin, Rs.S.ref_mut]
      simp only [absR, absW, hwf, hin, Except.map]
    | storer enc =>
      cases hx : g.writing_to_extra_field
      · cases enc with
        | none =>
          ssimp [hwf, absW, hne, hin, hx, Rs.S.ref_mut, Rs.S.enc_write, Model.io]
          rw [write_attempt_bind, writeAll_attempt_bind _ hne]
          apply erase_congr
          intro r
          cases r with
          | error e =>
            ssimp []
            simp only [absR, absW, hwf, hin, hx, Except.map]
          | ok n =>
            ssimp [slice_all buf (by omega), tie_stats_update ext g.stats buf hbytes, gt_thr, haddn, Rs.last,
              getLastOpt_map, hf, Option.map_some]
            by_cases hc : g.stats.bytes_written.toNat + buf.length > 4294967295 <;> cases hlf : f.large_file <;>
              simp only [hc, hlf, hdl, absR, absW, haddn, Except.map, decide_true, decide_false, Bool.and_true,
                Bool.and_false, Bool.true_and, Bool.false_and, Bool.not_true, Bool.not_false, ↓reduceIte,
                Bool.false_eq_true, Rs.len, Rs.S.closed]
        | some e =>
          ssimp [hwf, absW, hne, hin, hx, Rs.S.ref_mut, Rs.S.enc_write, Model.io]
          ssimp [slice_all buf (by omega), tie_stats_update ext g.stats buf hbytes, gt_thr, haddn, Rs.last,
              getLastOpt_map, hf, Option.map_some, Rs.len]
          by_cases hc : g.stats.bytes_written.toNat + buf.length > 4294967295 <;> cases hlf : f.large_file <;>
              simp only [hc, hlf, hdl, absR, absW, haddn, Except.map, decide_true, decide_false, Bool.and_true,
                Bool.and_false, Bool.true_and, Bool.false_and, Bool.not_true, Bool.not_false, ↓reduceIte,
                Bool.false_eq_true, Rs.len, Rs.S.closed]
      · ssimp [hwf, absW, hne, hin, hx, Rs.S.ref_mut, Rs.last, getLastOpt_map, hf, Option.map_some, Rs.vecWrite]
        simp only [absR, absW, setLast_map, Except.map]
        rfl
    | compressor m l enc pending =>
      cases hx : g.writing_to_extra_field
      · ssimp [hwf, absW, hne, hin, hx, Rs.S.ref_mut, Rs.S.enc_write, Model.io, hacc, List.take_length]
        ssimp [slice_all buf (by omega), tie_stats_update ext g.stats buf hbytes, gt_thr, haddn, Rs.last,
              getLastOpt_map, hf, Option.map_some, Rs.len]
        by_cases hc : g.stats.bytes_written.toNat + buf.length > 4294967295 <;> cases hlf : f.large_file <;>
              simp only [hc, hlf, hdl, absR, absW, haddn, Except.map, decide_true, decide_false, Bool.and_true,
                Bool.and_false, Bool.true_and, Bool.false_and, Bool.not_true, Bool.not_false, ↓reduceIte,
                Bool.false_eq_true, Rs.len, Rs.S.closed]
      · ssimp [hwf, absW, hne, hin, hx, Rs.S.ref_mut, Rs.last, getLastOpt_map, hf, Option.map_some, Rs.vecWrite]
        simp only [absR, absW, setLast_map, Except.map]
        rfl

theorem slice_take (buf : Bytes) (n : Nat) (hn : n ≤ buf.length) (h : buf.length < 18446744073709551616) :
    Rs.slice buf (0 : UInt64) (UInt64.ofNat n) = some (buf.take n) := by
  have e : (UInt64.ofNat n).toNat = n := by
    simp only [UInt64.toNat_ofNat']; omega
  have e0 : (0 : UInt64).toNat = 0 := by decide
  simp only [Rs.slice, e, e0, Nat.zero_le, hn, and_self, ↓reduceIte, List.drop_zero]

/-- `write` accounts the bytes the encoder ACCEPTED (`stats.update(&buf[0..count])`), not the bytes
offered: for an encoder that takes `n = ext.accept buf ≤ buf.len()` bytes of the buffer, the call returns
`Ok(n)`, the CRC register and the byte counter advance by exactly `buf[..n]`, and the encoder holds
exactly those bytes.  (The model's `writeData` is `write_all`, it never sees a short count; this is
the source-level fact C09's chunk-independence of the writer rests on.) -/
theorem write_accounts_accepted (ext : Rs.S.Ext) (g : Gen.ZipWriter) (buf : Bytes)
    (m : Method) (l : Int) (enc : Option EncState) (pending : Bytes)
    (hin : g.inner = .compressor m l enc pending) (hwf : g.writing_to_file = true)
    (hx : g.writing_to_extra_field = false) (hlen : buf.length < 9223372036854775808)
    (hsmall : g.stats.bytes_written.toNat + ext.accept buf ≤ 0xFFFFFFFF) :
    Rs.S.run (Gen.ZipWriter.write ext g buf) =
      pure (.ok (UInt64.ofNat (ext.accept buf)),
        { g with inner := .compressor m l enc (pending ++ buf.take (ext.accept buf)),
                 stats := { hasher := Spec.Crc32.updateBytes g.stats.hasher (buf.take (ext.accept buf)),
                            start := g.stats.start,
                            bytes_written := g.stats.bytes_written + UInt64.ofNat (ext.accept buf) } }) := by
  have hle := ext.accept_le buf
  have htl : (buf.take (ext.accept buf)).length = ext.accept buf := by
    rw [List.length_take]; omega
  have hb : g.stats.bytes_written.toNat + (buf.take (ext.accept buf)).length < 18446744073709551616 := by
    rw [htl]; omega
  have hup := tie_stats_update ext g.stats (buf.take (ext.accept buf)) hb
  obtain ⟨_, haddn⟩ := len_add g.stats.bytes_written (buf.take (ext.accept buf)) hb
  rw [htl] at hup haddn
  have hng : ¬ (g.stats.bytes_written.toNat + ext.accept buf > 4294967295) := by omega
  unfold Gen.ZipWriter.write
  ssimp [hwf, hin, hx, Rs.S.ref_mut, Rs.S.enc_write, slice_take buf _ hle (by omega), hup, gt_thr, haddn, hng,
    decide_false]

end ZipVerif.Tie.WriterSM
