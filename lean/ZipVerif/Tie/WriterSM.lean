import ZipVerif.Gen.Writer
import ZipVerif.Tie.Parsers
/-
Tie obligations for the WRITER STATE MACHINE of src/write.rs (`impl ZipWriter`; translator tier T6,
STATE-MACHINE mode, `rs2lean/src/t6w.rs`, vocabulary in `Basic/RsS.lean`).

`rs2lean` regenerates `Gen.ZipWriter` (the structure) and its methods on every run as state-passing
computations over the model's I/O monad:

    Gen.ZipWriter.f (ext : Rs.S.Ext) (self : Gen.ZipWriter) (args…) : Rs.S Gen.ZipWriter (R × Gen.ZipWriter)

(`Rs.S σ α = M (Except (ZErr × σ) α)`: an `Err` carries the object as the method left it).  A Tie theorem is
an equation between state transformers

    erase (absR <$> Rs.S.run (Gen.ZipWriter.f ext g args)) = erase (Model.f … (absW g))

for every writer value `g`, every device and every fault index: same I/O calls in the same order, same
outcome class and error, same final device, and the final writer states correspond (`absW`: the model
`WState` of a generated `ZipWriter`: `files` through `Tie.Records.dataOf`, the `u64` counters through
`toNat`).  `erase` forgets the panic-site STRING only (the model names source lines, the translation does
not); a panic is still compared as a panic.

  tie_stats_update          Gen.ZipWriterStats.update                 (hasher fold, checked `+=` of the byte count)
  tie_write                 Gen.ZipWriter.write buf = Model.writeData buf     (buf ≠ [], one `write` call)
  write_accounts_accepted   `stats.update(&buf[..count])` uses the count the encoder ACCEPTED (any `ext.accept`)
  sim_end_extra_data / tie_end_extra_data     Gen.ZipWriter.end_extra_data  ~ Model.endExtraData
  sim_finish_file / tie_finish_file           Gen.ZipWriter.finish_file     ~ Model.finishFile
  sim_finalize      Gen.ZipWriter.finalize ~ Model.finalize   (comment length check, finish_file, central
                    directory loop = `writeAllCentral` (`central_loop`), the ZIP64 decision, the saturated
                    16/32-bit fields, the three end records)
  sim_start_entry   Gen.ZipWriter.start_entry name o raw ~ Model.startEntry name (optOf o) (raw.map rawOf)
                    (name length check first, finish_file, header_start, the entry record incl. the
                    `permissions << 16` attributes, `write_local_file_header`, data_start / stats reset,
                    `files.push`, the ZipCrypto writer with its 12-byte header)
  sim_start_file    Gen.ZipWriter.start_file ~ Model.startFile (permission default `0o644`, `| 0o100000`,
                    start_entry, switch to the entry's encoder, `writing_to_file`)
  tie_set_raw_comment / tie_set_comment       the `comment` field, nothing else
  sim_add_directory                ~ Model.addDirectory   (`0o755` default, `| 0o40000`, method Stored, the trailing
                                   `/` unless the name ends in `/` or `\\`, `writing_to_file = false`)
  sim_write_all                    `self.write_all(buf)` (std's loop over `Gen.ZipWriter.write`) ~ Model.writeData buf
  sim_add_symlink                  ~ Model.addSymlink     (`0o777` default, `| 0o120000`, method Stored, the target
                                   written as the entry's content between the two `writing_to_file` settings)
  sim_start_file_with_extra_data   ~ Model.startFileWithExtraData    (both flags, the preliminary data_start)
  sim_end_local_start_central      ~ Model.endLocalStartCentral      (end_extra_data, clear, central-only mode)
  sim_finish        Gen.ZipWriter.finish   ~ Model.finish
  sim_drop          Gen.ZipWriter.drop     ~ `dropBody` (`Drop::drop` proper; `dropWriter_eq`: the model's
                    `dropWriter` is `dropBody` followed by the field destructors `dropInner`)

Methods that READ sink positions (`stream_position()`) or call such methods are tied by a REFINEMENT
(`Refines x y`, and `Sim φ P x y` = refinement + a postcondition `P` on the values `x` returns, which a
caller needs to carry its own hypotheses through the call): `x` and `y` agree - same I/O calls, outcome,
value, device - on every run on which `x` does not stop with the distinguished panic `Rs.S.OVF`.  That
panic is raised only by `Rs.S.position` when the model device's position does not fit `u64` (a real
sink's position IS a `u64`; the model's `Dev` counts in `Nat`), so for every device below 2^64 the two
sides are equal.  `Sim.refines` / `Sim.post` project the two halves.  The postcondition used here is the
frame `files.map fkey` unchanged (`fkey` blanks crc32 / sizes / data_start - the only fields the
methods patch in place).

Hypotheses, and why (each is where the model idealises):
  * `buf.length < 2^63` - a Rust slice;  `bytes_written + buf.length < 2^64` - the model counts in `Nat`,
    the source in checked `u64`;
  * `writing_to_file → files ≠ []` (`tie_write`) - the writer invariant `Inv.fileFiles` (Lemmas/WriterSat):
    the model's `writeData` looks the open entry up BEFORE comparing the byte count with the 4 GiB limit,
    the source short-circuits (`bytes_written > THR && !files.last_mut().unwrap().large_file`), so on a
    state without entries (unreachable) the model panics where the source does not;
  * `ext.accept b = b.length` (`tie_write`) - the model's `writeData` is `write_all`: it never sees an
    encoder that takes fewer bytes than offered.  `write_accounts_accepted` is the obligation for the
    general case.
  * per open entry (the last of `files`): `extra_field.len() ≤ isize::MAX` (a Rust `Vec`),
    `data_start + extra_field.len() < 2^64`, `header_start + 34 + file_name.len() < 2^64` - the source
    computes these positions in checked `u64`, the model in `Nat`.
  * `FileOK` for every entry (`finalize`): `extra_field.len() ≤ isize::MAX` and a DOS-representable time
    (year ≥ 1980; a type invariant of `DateTime`): the model raises the serialiser's `datepart` panic
    before the serialiser's first write, the source after it - with an injected sink fault the two
    differ, so the panic is excluded; `files.len() < 2^64`, `comment.len() < 2^64` (Rust `Vec`s).

TRUSTED VOCABULARY (external code; `Basic/RsS.lean` gives each name the meaning of the model's existing
treatment in `Model/Writer.lean` - `Inner`, `EncState`, `WExt`, `switchTo`, `emit`, `emitFinish`):
  * `GenericZipWriter<W>` is `Model.Inner` (`Closed` | `Storer(MaybeEncrypted)` | an encoder with its
    pending plaintext); the sink `W` itself is the device of the monad `M`;
  * `inner.ref_mut()` is `None` exactly when closed; `w.write(buf)` on the returned `&mut dyn Write`
    (`Rs.S.enc_write`): a plain storer issues ONE `write` call on the sink and returns its count, the
    ZipCrypto layer buffers the bytes, an encoder consumes `ext.accept buf ≤ buf.len()` bytes (its output
    reaches the sink when it is finished);
  * `inner.is_closed()`, `inner.get_plain()` (panics unless `Storer(Unencrypted)`);
  * `let writer = inner.get_plain()`: `writer.stream_position()` is `Rs.S.position` (one `seek(Current(0))`
    call; `OVF` panic beyond u64, see above), `writer.seek(SeekFrom::Start(p))`, `writer.write_all(bs)`,
    `writer.write_uNN::<LittleEndian>(v)` are the device primitives; a translated serialiser called with
    `writer` (`update_local_file_header(writer, file)?`, tier T3) is replayed action by action
    (`Rs.S.runW`: its log of writes / seeks, then its own outcome; `Rs.S.runWB` for serialisers that only
    write: their chunks through `M.writeChunks`); `for x in vec.iter() { … }` whose body assigns nothing
    outside and leaves only by `?` is `Rs.S.forEach`; `inner.unwrap()` is `get_plain` by value;
    `let _ = write!(io::stderr(), …)` is dropped (the process's stderr is not modelled);
  * `inner.switch_to(method, level)` is written `Rs.S.switch_to` and read as the model's `switchTo`
    (`switchTo_via`).  NO LONGER AN ASSUMPTION: `GenericZipWriter::switch_to` itself is translated
    (`Gen/SwitchTo.lean`) and `Tie/SwitchTo.lean` (`tie_switch_to`) proves it equal to `Rs.S.switch_to` on every
    Rust value of the enum - the early return, the `Closed` left behind by every refusal, the level ranges, the
    AES / Unsupported refusals are the source's; what stays assumed there is the encoders' own behaviour
    (`finish()`: `ext.compress` of everything consumed goes to the sink or into the ZipCrypto buffer, with the
    destructor's second attempt of flate2 / bzip2 after a failed write; the constructors; the libraries' level
    constants); the method value is read through `Tie.Types.methodOf` (`Tie/WriterVocab.lean`);
  * `ZipCryptoWriter::finish(crc32)` is written `Rs.S.zc_finish` (panic below 12 buffered bytes, check byte,
    `ext.zcEncrypt`, `write_all`, `flush`).  LINKED to the translated `Gen.ZipCryptoWriter.finish` by
    `Tie/ZcFinish.lean` (`tie_zc_finish`: same outcome, error kind and - on `Ok` - device, with `ext.zcEncrypt pw`
    = the PKWARE encryption under the keys derived from `pw`);
    `GenericZipWriter::Storer(MaybeEncrypted::Encrypted(w))` is
    `Inner.storer (some w)`, `…::Unencrypted(sink)` is `Inner.storer none`;
  * `mem::replace(&mut self.inner, Closed)`: the old value is moved out; DROPPING it is not modelled (a
    flate2 / bzip2 encoder would flush into the sink from its destructor; the model covers that only
    for `Drop for ZipWriter`, `Model.dropInner`);
  * a `ZipCryptoKeys` value (`FileOptions::encrypt_with`) is represented by the PASSWORD it was derived from
    (the model's `encryptWith : Option Bytes`; `ZipCryptoKeys::derive` itself is tied in `Tie/ZipCrypto.lean`);
    `ZipCryptoWriter { writer, buffer: vec![], keys }` is `EncState` with an empty buffer, its `write_all`
    appends to the buffer (`Rs.S.zc_write`);
  * new-entry hypotheses: `name.len() < 2^64` (a `String`), and the entry's time has a DOS date (year ≥ 1980,
    a type invariant of `DateTime`; the serialiser's panic is excluded as for `finalize`);
  * `match s.chars().last() { Some('/') | Some('\\') => …, _ => … }` on a `String` is a match on its last BYTE
    (`Rs.lastByte`): in UTF-8 an ASCII character is the last character exactly when its byte is the last byte;
    `s + "/"` appends the literal's bytes;
  * `self.write_all(buf)` is std's default `Write::write_all` over the translated `write` (`Rs.S.write_all`:
    `Ok(0)` is `WriteZero`, otherwise continue with `&buf[n..]`; `ErrorKind::Interrupted` is never produced by
    the model's sink; fuel `buf.len() + 1`);
  * `crc32fast::Hasher` is the raw CRC register (`new` = all ones, `update` = `Spec.Crc32.updateBytes`,
    `clone().finalize()` = complement); `Vec::last/last_mut/push/len`, `<Vec<u8> as Write>::write`
    (appends everything).
-/
set_option linter.unusedSimpArgs false
set_option linter.unusedSectionVars false
set_option linter.unusedVariables false

namespace ZipVerif.Tie.WriterSM
open ZipVerif ZipVerif.Model ZipVerif.Tie.SpecRecords ZipVerif.Tie.Records ZipVerif.Tie.Parsers

/-! ### comparing `M` computations up to the panic-site string -/

def eraseOut {α} : Out α → Out α
  | .panic _ => .panic ""
  | o => o

/-- the same computation with every panic-site string erased -/
def erase {α} (m : M α) : M α := fun fa d => (eraseOut (m fa d).1, (m fa d).2)

theorem erase_bind {α β} (x : M α) (f : α → M β) : erase (x >>= f) = erase x >>= fun a => erase (f a) := by
  apply M.ext; intro fa d
  simp only [erase, M.bind_apply]
  rcases h : x fa d with ⟨o, d'⟩
  cases o <;> simp only [eraseOut]

theorem erase_pure {α} (a : α) : erase (pure a : M α) = pure a := rfl
theorem erase_panic {α} (s : String) : erase (M.panic s : M α) = M.panic "" := rfl
theorem erase_throw {α} (e : ZErr) : erase (M.throw e : M α) = M.throw e := rfl
theorem erase_ite {α} (c : Prop) [Decidable c] (a b : M α) :
    erase (if c then a else b) = if c then erase a else erase b := by split <;> rfl

theorem erase_prim {α} (f : Dev → Out α × Dev) (hf : ∀ d, ∀ s, (f d).1 ≠ .panic s) :
    erase (M.prim f) = M.prim f := by
  apply M.ext; intro fa d
  simp only [erase, M.prim]
  split
  · rfl
  · rcases h : f { d with calls := d.calls + 1 } with ⟨o, d'⟩
    cases o with
    | ok a => rfl
    | err e => rfl
    | panic s => exact absurd (by rw [h]) (hf _ s)

theorem erase_write (bs : Bytes) : erase (M.write bs) = M.write bs :=
  erase_prim _ (fun d s h => by cases h)
theorem erase_flush : erase M.flush = M.flush := erase_prim _ (fun d s h => by cases h)
theorem erase_seek (sf : SeekFrom) : erase (M.seek sf) = M.seek sf := by
  apply erase_prim
  intro d s
  cases sf <;> dsimp only <;> split <;> (intro h; cases h)

theorem erase_attempt {α} (m : M α) : erase (M.attempt m) = M.attempt (erase m) := by
  apply M.ext; intro fa d
  simp only [erase, M.attempt]
  rcases h : m fa d with ⟨o, d'⟩
  cases o <;> rfl

theorem erase_writeAll (bs : Bytes) : erase (M.writeAll bs) = M.writeAll bs := by
  unfold M.writeAll
  split
  · rfl
  · rw [erase_bind, erase_write]; rfl

theorem erase_congr {α β} (x : M α) (f g : α → M β) (h : ∀ a, erase (f a) = erase (g a)) :
    erase (x >>= f) = erase (x >>= g) := by
  rw [erase_bind, erase_bind]; congr 1; funext a; exact h a

/-! ### the `S` monad as `M` code -/

open Rs in
theorem S.toM_bind {σ α β} (x : S σ α) (f : α → S σ β) :
    S.toM (x >>= f) = S.toM x >>= fun r => match r with
      | .ok a => S.toM (f a)
      | .error e => pure (.error e) := rfl
open Rs in
theorem S.toM_pure {σ α} (a : α) : S.toM (pure a : S σ α) = pure (.ok a) := rfl
open Rs in
theorem S.toM_ofM {σ α} (m : M (Except (ZErr × σ) α)) : S.toM (S.ofM m) = m := rfl
open Rs in
theorem S.toM_ite {σ α} (c : Prop) [Decidable c] (a b : S σ α) :
    S.toM (if c then a else b) = if c then S.toM a else S.toM b := by split <;> rfl
open Rs in
theorem S.toM_dite {σ α} (c : Prop) [Decidable c] (a : c → S σ α) (b : ¬ c → S σ α) :
    S.toM (dite c a b) = dite c (fun h => S.toM (a h)) (fun h => S.toM (b h)) := by split <;> rfl

/-- Normal form of straight-line `S` code: right-nested `M` binds. -/
syntax "ssimp" ("[" Lean.Parser.Tactic.simpLemma,* "]")? : tactic
macro_rules
  | `(tactic| ssimp [$ls,*]) => `(tactic| simp only [Rs.S.run, S.toM_bind, S.toM_pure, S.toM_ofM, S.toM_ite,
      Rs.S.err, Rs.S.throw, Rs.S.lift, Rs.S.panic, Rs.S.io, Rs.S.ofResult, Rs.S.call, Rs.S.sub, Rs.S.attempt,
      bind_assoc, pure_bind, map_eq_pure_bind, M.throw_bind, M.panic_bind, M.ite_bind, Rs.zerr,
      ↓reduceIte, Bool.false_eq_true, Bool.not_true, Bool.not_false, $ls,*])
  | `(tactic| ssimp) => `(tactic| ssimp [bind_assoc])

/-! ### the state abstraction -/

/-- The model's writer state of a generated `ZipWriter` value. -/
def absW (g : Gen.ZipWriter) : WState :=
  { inner := g.inner, files := g.files.map dataOf, statsStart := g.stats.start.toNat,
    statsBytes := g.stats.bytes_written.toNat, statsHasher := g.stats.hasher,
    writingToFile := g.writing_to_file, writingToExtraField := g.writing_to_extra_field,
    centralOnly := g.writing_to_central_extra_field_only, writingRaw := g.writing_raw,
    comment := g.comment }

/-- outcome and final state of a generated method as a step of the model -/
def absR {α} (r : Except ZErr α × Gen.ZipWriter) : Except ZErr α × WState := (r.1, absW r.2)

theorem getLastOpt_map {α β} (f : α → β) (l : List α) : (l.map f).getLast? = l.getLast?.map f := by
  simp only [List.getLast?_map]

theorem setLast_map (l : List Gen.ZipFileData) (x : Gen.ZipFileData) :
    (Rs.setLast l x).map dataOf = Model.setLast (l.map dataOf) (dataOf x) := by
  unfold Rs.setLast Model.setLast
  rw [← List.map_reverse]
  cases l.reverse <;> simp only [List.map_nil, List.map_cons, List.map_reverse]

/-! ### `ZipWriterStats::update`, `impl Write for ZipWriter :: write` -/

theorem len_add (a : UInt64) (buf : Bytes) (h : a.toNat + buf.length < 18446744073709551616) :
    Rs.Arith.add a (Rs.as' UInt64 (Rs.len buf)) = some (a + UInt64.ofNat buf.length) ∧
    (a + UInt64.ofNat buf.length).toNat = a.toNat + buf.length := by
  have hl : (Rs.as' UInt64 (Rs.len buf)).toNat = buf.length := by
    simp only [Rs.as', Rs.As.cast, id, Rs.len, UInt64.toNat_ofNat']; omega
  have e : Rs.as' UInt64 (Rs.len buf) = UInt64.ofNat buf.length := rfl
  rw [e] at hl ⊢
  have := add_u64 a _ (by rw [hl]; exact h)
  rwa [hl] at this

theorem tie_stats_update (ext : Rs.S.Ext) (st : Gen.ZipWriterStats) (buf : Bytes)
    (h : st.bytes_written.toNat + buf.length < 18446744073709551616) :
    Rs.S.toM (Gen.ZipWriterStats.update ext st buf) =
      pure (.ok ((), { hasher := Spec.Crc32.updateBytes st.hasher buf, start := st.start,
                       bytes_written := st.bytes_written + UInt64.ofNat buf.length })) := by
  unfold Gen.ZipWriterStats.update
  ssimp [(len_add st.bytes_written buf h).1, Rs.Hasher.update]


theorem write_attempt_bind {β} (bs : Bytes) (k : Except ZErr Nat → M β) :
    (M.attempt (M.write bs) >>= k) = (M.attempt (M.write bs) >>= fun r => match r with
      | .ok _ => k (.ok bs.length)
      | .error e => k (.error e)) := by
  apply M.ext; intro fa d
  simp only [M.bind_apply, M.attempt, M.write, M.prim]
  by_cases hf : fa = some d.calls <;> simp only [hf, ↓reduceIte]

theorem writeAll_attempt_bind {β} (bs : Bytes) (hne : bs.isEmpty = false) (k : Except ZErr Unit → M β) :
    (M.attempt (M.writeAll bs) >>= k) = (M.attempt (M.write bs) >>= fun r => match r with
      | .ok _ => k (.ok ())
      | .error e => k (.error e)) := by
  apply M.ext; intro fa d
  simp only [M.writeAll, hne, Bool.false_eq_true, ↓reduceIte, M.bind_apply, M.attempt, M.write, M.prim, M.pure_apply]
  by_cases hf : fa = some d.calls <;> simp only [hf, ↓reduceIte]

theorem slice_all (buf : Bytes) (h : buf.length < 18446744073709551616) :
    Rs.slice buf (0 : UInt64) (UInt64.ofNat buf.length) = some buf := by
  have e : (UInt64.ofNat buf.length).toNat = buf.length := by
    simp only [UInt64.toNat_ofNat']; omega
  have e0 : (0 : UInt64).toNat = 0 := by decide
  simp only [Rs.slice, e, e0, Nat.zero_le, Nat.le_refl, and_self, ↓reduceIte, List.take_length, List.drop_zero]

theorem gt_thr (x : UInt64) : (x > Gen.ZIP64_BYTES_THR) ↔ x.toNat > 0xFFFFFFFF := by
  have e : Gen.ZIP64_BYTES_THR.toNat = 0xFFFFFFFF := by decide
  rw [gt_iff_lt, UInt64.lt_iff_toNat_lt, e]

theorem tie_write (ext : Rs.S.Ext) (g : Gen.ZipWriter) (buf : Bytes) (hb : buf ≠ [])
    (hlen : buf.length < 9223372036854775808)
    (hbytes : g.stats.bytes_written.toNat + buf.length < 18446744073709551616)
    (hinv : g.writing_to_file = true → g.files ≠ [])
    (hacc : ∀ b, ext.accept b = b.length) :
    erase (absR <$> Rs.S.run (Gen.ZipWriter.write ext g buf)) =
      erase ((fun r => (r.1.map fun _ => Rs.len buf, r.2)) <$> writeData buf (absW g)) := by
  unfold Gen.ZipWriter.write writeData
  have hne : buf.isEmpty = false := by cases buf <;> simp_all
  obtain ⟨hadd, haddn⟩ := len_add g.stats.bytes_written buf hbytes
  cases hwf : g.writing_to_file
  · ssimp [hwf, absW, hne]
    simp only [absR, absW, hwf, Except.map]
  · have hfiles := hinv hwf
    have hlast : ∃ f, g.files.getLast? = some f := by
      cases h : g.files.getLast? with
      | none => exact absurd (List.getLast?_eq_none_iff.mp h) hfiles
      | some f => exact ⟨f, rfl⟩
    obtain ⟨f, hf⟩ := hlast
    have hdl : (dataOf f).largeFile = f.large_file := rfl
    cases hin : g.inner with
    | closed =>
      ssimp [hwf, absW, hne, hin, Rs.S.ref_mut]
      simp only [absR, absW, hwf, hin, Except.map]
    | storer enc =>
      cases hx : g.writing_to_extra_field
      · cases enc with
        | none =>
          ssimp [hwf, absW, hne, hin, hx, Rs.S.ref_mut, Rs.S.enc_write, Model.io]
          rw [write_attempt_bind, writeAll_attempt_bind _ hne]
          apply erase_congr
          intro r
          cases r with
          | error e =>
            ssimp []
            simp only [absR, absW, hwf, hin, hx, Except.map]
          | ok n =>
            ssimp [slice_all buf (by omega), tie_stats_update ext g.stats buf hbytes, gt_thr, haddn, Rs.last,
              getLastOpt_map, hf, Option.map_some]
            by_cases hc : g.stats.bytes_written.toNat + buf.length > 4294967295 <;> cases hlf : f.large_file <;>
              simp only [hc, hlf, hdl, absR, absW, haddn, Except.map, decide_true, decide_false, Bool.and_true,
                Bool.and_false, Bool.true_and, Bool.false_and, Bool.not_true, Bool.not_false, ↓reduceIte,
                Bool.false_eq_true, Rs.len, Rs.S.closed]
        | some e =>
          ssimp [hwf, absW, hne, hin, hx, Rs.S.ref_mut, Rs.S.enc_write, Model.io]
          ssimp [slice_all buf (by omega), tie_stats_update ext g.stats buf hbytes, gt_thr, haddn, Rs.last,
              getLastOpt_map, hf, Option.map_some, Rs.len]
          by_cases hc : g.stats.bytes_written.toNat + buf.length > 4294967295 <;> cases hlf : f.large_file <;>
              simp only [hc, hlf, hdl, absR, absW, haddn, Except.map, decide_true, decide_false, Bool.and_true,
                Bool.and_false, Bool.true_and, Bool.false_and, Bool.not_true, Bool.not_false, ↓reduceIte,
                Bool.false_eq_true, Rs.len, Rs.S.closed]
      · ssimp [hwf, absW, hne, hin, hx, Rs.S.ref_mut, Rs.last, getLastOpt_map, hf, Option.map_some, Rs.vecWrite]
        simp only [absR, absW, setLast_map, Except.map]
        rfl
    | compressor m l enc pending =>
      cases hx : g.writing_to_extra_field
      · ssimp [hwf, absW, hne, hin, hx, Rs.S.ref_mut, Rs.S.enc_write, Model.io, hacc, List.take_length]
        ssimp [slice_all buf (by omega), tie_stats_update ext g.stats buf hbytes, gt_thr, haddn, Rs.last,
              getLastOpt_map, hf, Option.map_some, Rs.len]
        by_cases hc : g.stats.bytes_written.toNat + buf.length > 4294967295 <;> cases hlf : f.large_file <;>
              simp only [hc, hlf, hdl, absR, absW, haddn, Except.map, decide_true, decide_false, Bool.and_true,
                Bool.and_false, Bool.true_and, Bool.false_and, Bool.not_true, Bool.not_false, ↓reduceIte,
                Bool.false_eq_true, Rs.len, Rs.S.closed]
      · ssimp [hwf, absW, hne, hin, hx, Rs.S.ref_mut, Rs.last, getLastOpt_map, hf, Option.map_some, Rs.vecWrite]
        simp only [absR, absW, setLast_map, Except.map]
        rfl

theorem slice_take (buf : Bytes) (n : Nat) (hn : n ≤ buf.length) (h : buf.length < 18446744073709551616) :
    Rs.slice buf (0 : UInt64) (UInt64.ofNat n) = some (buf.take n) := by
  have e : (UInt64.ofNat n).toNat = n := by
    simp only [UInt64.toNat_ofNat']; omega
  have e0 : (0 : UInt64).toNat = 0 := by decide
  simp only [Rs.slice, e, e0, Nat.zero_le, hn, and_self, ↓reduceIte, List.drop_zero]

/-- `write` accounts the bytes the encoder ACCEPTED (`stats.update(&buf[0..count])`), not the bytes
offered: for an encoder that takes `n = ext.accept buf ≤ buf.len()` bytes of the buffer, the call returns
`Ok(n)`, the CRC register and the byte counter advance by exactly `buf[..n]`, and the encoder holds
exactly those bytes.  (The model's `writeData` is `write_all`, it never sees a short count; this is
the source-level fact C09's chunk-independence of the writer rests on.) -/
theorem write_accounts_accepted (ext : Rs.S.Ext) (g : Gen.ZipWriter) (buf : Bytes)
    (m : Method) (l : Int) (enc : Option EncState) (pending : Bytes)
    (hin : g.inner = .compressor m l enc pending) (hwf : g.writing_to_file = true)
    (hx : g.writing_to_extra_field = false) (hlen : buf.length < 9223372036854775808)
    (hsmall : g.stats.bytes_written.toNat + ext.accept buf ≤ 0xFFFFFFFF) :
    Rs.S.run (Gen.ZipWriter.write ext g buf) =
      pure (.ok (UInt64.ofNat (ext.accept buf)),
        { g with inner := .compressor m l enc (pending ++ buf.take (ext.accept buf)),
                 stats := { hasher := Spec.Crc32.updateBytes g.stats.hasher (buf.take (ext.accept buf)),
                            start := g.stats.start,
                            bytes_written := g.stats.bytes_written + UInt64.ofNat (ext.accept buf) } }) := by
  have hle := ext.accept_le buf
  have htl : (buf.take (ext.accept buf)).length = ext.accept buf := by
    rw [List.length_take]; omega
  have hb : g.stats.bytes_written.toNat + (buf.take (ext.accept buf)).length < 18446744073709551616 := by
    rw [htl]; omega
  have hup := tie_stats_update ext g.stats (buf.take (ext.accept buf)) hb
  obtain ⟨_, haddn⟩ := len_add g.stats.bytes_written (buf.take (ext.accept buf)) hb
  rw [htl] at hup haddn
  have hng : ¬ (g.stats.bytes_written.toNat + ext.accept buf > 4294967295) := by omega
  unfold Gen.ZipWriter.write
  ssimp [hwf, hin, hx, Rs.S.ref_mut, Rs.S.enc_write, slice_take buf _ hle (by omega), hup, gt_thr, haddn, hng,
    decide_false]

/-- `attempt` of a sequence: the first failing step ends it -/
theorem attempt_bind_bind {α β γ} (x : M α) (f : α → M β) (k : Except ZErr β → M γ) :
    (M.attempt (x >>= f) >>= k) = (M.attempt x >>= fun r => match r with
      | .ok a => M.attempt (f a) >>= k
      | .error e => k (.error e)) := by
  apply M.ext; intro fa d
  simp only [M.bind_apply, M.attempt]
  rcases h : x fa d with ⟨o, d'⟩
  cases o <;> simp only []
  rename_i a
  rcases h2 : f a fa d' with ⟨o2, d2⟩
  cases o2 <;> simp only [M.bind_apply, M.attempt, h2]

theorem attempt_pure_bind {α γ} (a : α) (k : Except ZErr α → M γ) :
    (M.attempt (pure a) >>= k) = k (.ok a) := rfl

/-! ### refinement up to the `u64` position panic -/

/-- `x` agrees with `y` (outcome up to the panic-site string, value, device) on every run on which `x`
does not stop with the distinguished panic `Rs.S.OVF` (a sink position that does not fit `u64`). -/
def Refines {α} (x y : M α) : Prop :=
  ∀ fa d, (x fa d).1 = .panic Rs.S.OVF ∨ erase x fa d = erase y fa d

theorem Refines.of_eq {α} {x y : M α} (h : erase x = erase y) : Refines x y :=
  fun fa d => Or.inr (by rw [h])

theorem Refines.ovf {α β} (f : α → M β) (y : M β) : Refines (M.panic Rs.S.OVF >>= f) y :=
  fun fa d => Or.inl rfl

theorem Refines.ovf_panic {β} (y : M β) : Refines (M.panic Rs.S.OVF) y :=
  fun fa d => Or.inl rfl

theorem Refines.bind {α β} {x y : M α} {f g : α → M β} (hx : Refines x y) (hf : ∀ a, Refines (f a) (g a)) :
    Refines (x >>= f) (y >>= g) := by
  intro fa d
  rcases hx fa d with h | h
  · left
    simp only [M.bind_apply]
    rcases hxd : x fa d with ⟨o, d'⟩
    rw [hxd] at h
    simp only at h
    subst h
    rfl
  · simp only [erase] at h
    rcases hxd : x fa d with ⟨o, d'⟩
    rcases hyd : y fa d with ⟨o', d''⟩
    rw [hxd, hyd] at h
    simp only [Prod.mk.injEq] at h
    obtain ⟨ho, hd⟩ := h
    subst hd
    cases o with
    | ok a =>
      cases o' with
      | ok a' =>
        simp only [eraseOut, Out.ok.injEq] at ho
        subst ho
        rcases hf a fa d' with h | h
        · left; simp only [M.bind_apply, hxd]; exact h
        · right; simp only [erase, M.bind_apply, hxd, hyd] at h ⊢; exact h
      | err e => simp only [eraseOut] at ho; cases ho
      | panic s => simp only [eraseOut] at ho; cases ho
    | err e =>
      cases o' with
      | ok a' => simp only [eraseOut] at ho; cases ho
      | err e' =>
        simp only [eraseOut, Out.err.injEq] at ho
        subst ho
        right; simp only [erase, M.bind_apply, hxd, hyd]
      | panic s => simp only [eraseOut] at ho; cases ho
    | panic s =>
      cases o' with
      | ok a' => simp only [eraseOut] at ho; cases ho
      | err e' => simp only [eraseOut] at ho; cases ho
      | panic s' => right; simp only [erase, M.bind_apply, hxd, hyd, eraseOut]

theorem Refines.refl {α} (x : M α) : Refines x x := fun _ _ => Or.inr rfl

/-- peel a common first step -/
theorem Refines.congr {α β} (x : M α) {f g : α → M β} (hf : ∀ a, Refines (f a) (g a)) :
    Refines (x >>= f) (x >>= g) := Refines.bind (Refines.refl x) hf

/-! ### `switch_to`: the model's `switchTo` only touches `inner` -/

theorem switchTo_frame (ext : WExt) (m : Method) (l : Option Int) (s : WState) :
    Model.switchTo ext m l s =
      (Model.switchTo ext m l { WState.init with inner := s.inner } >>= fun p =>
        pure (p.1, { s with inner := p.2.inner })) := by
  obtain ⟨inner, files, ss, sb, sh, wf, wx, co, wr, cm⟩ := s
  unfold Model.switchTo
  cases inner with
  | closed => simp only [Inner.currentCompression, WState.init, pure_bind]
  | storer enc =>
    simp only [Inner.currentCompression, WState.init]
    by_cases h1 : (Method.stored == m) = true
    · simp only [h1, ↓reduceIte, pure_bind]
    · simp only [h1, ↓reduceIte]
      cases m <;> simp only [levelRange] <;> (try split) <;> (try simp only [pure_bind]) <;> (try split) <;> (try simp only [pure_bind])
  | compressor cm cl enc pending =>
    simp only [Inner.currentCompression, WState.init]
    by_cases h1 : (cm == m) = true
    · simp only [h1, ↓reduceIte, pure_bind]
    · simp only [h1, ↓reduceIte]
      cases m <;> simp only [levelRange, emitFinish, Bool.false_eq_true, ↓reduceIte] <;> cases enc <;>
        simp only [bind_assoc, pure_bind] <;>
        (try (refine bind_congr fun r => ?_
              cases r <;> simp only [pure_bind, bind_assoc] <;> (try split) <;> (try simp only [pure_bind, bind_assoc]) <;>
                (try split) <;> (try simp only [pure_bind, bind_assoc]))) <;>
        (try split) <;> (try simp only [pure_bind, bind_assoc])

theorem switchTo_via (ext : Rs.S.Ext) (m : Gen.CompressionMethod) (l : Option Int32) (s : WState) :
    Model.switchTo ext.toWExt (Tie.Types.methodOf m) (l.map Int32.toInt) s =
      (Rs.S.switch_to ext s.inner m l >>= fun p => pure (p.1, { s with inner := p.2 })) := by
  rw [switchTo_frame]
  simp only [Rs.S.switch_to, bind_assoc, pure_bind]
  rfl

/-! ### sink actions of a translated serialiser, replayed (`Rs.S.runW`) -/

/-- a list of sink actions, each under `attempt`; `F` gets the first device error or `ok` -/
def actsG {β : Type} : List Rs.Act → (Except ZErr Unit → M β) → M β
  | [], F => F (.ok ())
  | .seek p :: as, F => M.attempt (M.seek (.start p.toNat)) >>= fun r => match r with
    | .ok _ => actsG as F
    | .error e => F (.error e)
  | .write b :: as, F => M.attempt (M.writeAll b) >>= fun r => match r with
    | .ok _ => actsG as F
    | .error e => F (.error e)

theorem attempt_replay {β : Type} (acts : List Rs.Act) (F : Except ZErr Unit → M β) :
    (M.attempt (Rs.S.replay acts) >>= F) = actsG acts F := by
  induction acts with
  | nil => rfl
  | cons a as ih =>
    cases a with
    | write b =>
      simp only [Rs.S.replay, actsG, attempt_bind_bind]
      refine bind_congr fun r => ?_
      cases r <;> simp only [ih]
    | seek p =>
      simp only [Rs.S.replay, actsG, attempt_bind_bind]
      refine bind_congr fun r => ?_
      cases r <;> simp only [ih]

theorem ioActs_eq {β : Type} (s : WState) (acts : List Rs.Act) (k : Unit → M (Except ZErr β × WState)) :
    ioActs s acts k = actsG acts (fun r => match r with
      | .ok _ => k ()
      | .error e => pure (.error e, s)) := by
  induction acts with
  | nil => rfl
  | cons a as ih =>
    cases a with
    | write b =>
      simp only [ioActs, actsG, Model.io, ih]
      refine bind_congr fun r => ?_
      cases r <;> rfl
    | seek p =>
      simp only [ioActs, actsG, Model.io, ih]
      refine bind_congr fun r => ?_
      cases r <;> rfl

theorem actsG_bind {β γ : Type} (acts : List Rs.Act) (F : Except ZErr Unit → M β) (g : β → M γ) :
    (actsG acts F >>= g) = actsG acts (fun r => F r >>= g) := by
  induction acts with
  | nil => rfl
  | cons a as ih =>
    cases a <;> simp only [actsG, bind_assoc] <;> refine bind_congr fun r => ?_ <;> cases r <;> simp only [ih]

theorem Refines.actsG {β : Type} (acts : List Rs.Act) {F F' : Except ZErr Unit → M β}
    (h : ∀ r, Refines (F r) (F' r)) : Refines (actsG acts F) (actsG acts F') := by
  induction acts with
  | nil => exact h _
  | cons a as ih =>
    cases a <;> simp only [WriterSM.actsG] <;> refine Refines.congr _ fun r => ?_ <;> cases r
    · exact h _
    · exact ih
    · exact h _
    · exact ih


/-! ### postconditions of `M` computations (frame facts carried through a callee) -/

/-- every value the computation can return satisfies `Q` -/
def Post {α} (m : M α) (Q : α → Prop) : Prop := ∀ fa d a d', m fa d = (.ok a, d') → Q a

theorem Post.pure {α} {Q : α → Prop} {a : α} (h : Q a) : Post (pure a : M α) Q := by
  intro fa d a' d' he
  cases he
  exact h

theorem Post.panic {α} {Q : α → Prop} (s : String) : Post (M.panic s : M α) Q := by
  intro fa d a' d' he
  cases he

theorem Post.bind {α β} {Q : β → Prop} {x : M α} {f : α → M β} (h : ∀ a, Post (f a) Q) : Post (x >>= f) Q := by
  intro fa d b d' he
  simp only [M.bind_apply] at he
  rcases hx : x fa d with ⟨o, d1⟩
  rw [hx] at he
  cases o with
  | ok a => exact h a fa d1 b d' he
  | err e => cases he
  | panic s => cases he

theorem Post.mono {α} {Q Q' : α → Prop} {m : M α} (h : Post m Q) (hq : ∀ a, Q a → Q' a) : Post m Q' :=
  fun fa d a d' he => hq a (h fa d a d' he)

/-- peel a callee: its tie, its postcondition, and the tie of the rest for every value satisfying the
postcondition -/
theorem Refines.bind_map_post {α α' β} (φ : α → α') (P : α → Prop) {X : M α} {Y : M α'}
    {F : α → M β} {G : α' → M β} (hX : Refines (φ <$> X) Y) (hP : Post X P)
    (hF : ∀ a, P a → Refines (F a) (G (φ a))) : Refines (X >>= F) (Y >>= G) := by
  intro fa d
  rcases hxd : X fa d with ⟨o, d'⟩
  have hm : (φ <$> X) fa d = (match o with | .ok a => .ok (φ a) | .err e => .err e | .panic s => .panic s, d') := by
    simp only [map_eq_pure_bind, M.bind_apply, hxd]
    cases o <;> rfl
  rcases hX fa d with h | h
  · left
    rw [hm] at h
    cases o with
    | ok a => cases h
    | err e => cases h
    | panic s =>
      simp only [Out.panic.injEq] at h
      subst h
      simp only [M.bind_apply, hxd]
  · simp only [erase, hm] at h
    rcases hyd : Y fa d with ⟨o', d''⟩
    rw [hyd] at h
    simp only [Prod.mk.injEq] at h
    obtain ⟨ho, hd⟩ := h
    subst hd
    cases o with
    | ok a =>
      cases o' with
      | ok a' =>
        simp only [eraseOut, Out.ok.injEq] at ho
        subst ho
        rcases hF a (hP fa d a d' hxd) fa d' with h | h
        · left; simp only [M.bind_apply, hxd]; exact h
        · right; simp only [erase, M.bind_apply, hxd, hyd] at h ⊢; exact h
      | err e => simp only [eraseOut] at ho; cases ho
      | panic s => simp only [eraseOut] at ho; cases ho
    | err e =>
      cases o' with
      | ok a' => simp only [eraseOut] at ho; cases ho
      | err e' =>
        simp only [eraseOut, Out.err.injEq] at ho
        subst ho
        right; simp only [erase, M.bind_apply, hxd, hyd]
      | panic s => simp only [eraseOut] at ho; cases ho
    | panic s =>
      cases o' with
      | ok a' => simp only [eraseOut] at ho; cases ho
      | err e' => simp only [eraseOut] at ho; cases ho
      | panic s' => right; simp only [erase, M.bind_apply, hxd, hyd, eraseOut]

/-- what no method changes of an entry once it is in `files`, except through the listed fields -/
def fkey (f : Gen.ZipFileData) : Gen.ZipFileData :=
  { f with crc32 := 0, compressed_size := 0, uncompressed_size := 0, data_start := 0 }

theorem setLast_fkey (l : List Gen.ZipFileData) (x y : Gen.ZipFileData) (hl : l.getLast? = some y)
    (hk : fkey x = fkey y) : (Rs.setLast l x).map fkey = l.map fkey := by
  unfold Rs.setLast
  have hr : l.reverse.head? = some y := by rw [List.head?_reverse]; exact hl
  cases hrev : l.reverse with
  | nil => rw [hrev] at hr; cases hr
  | cons z rest =>
    rw [hrev] at hr
    simp only [List.head?_cons, Option.some.injEq] at hr
    subst hr
    have : l = (z :: rest).reverse := by rw [← hrev, List.reverse_reverse]
    rw [this]
    simp only [List.reverse_cons, List.map_append, List.map_cons, List.map_nil, hk]

/-! ### simulation: refinement of the abstracted computation + a postcondition on the concrete values -/

/-- On every run on which `X` does not stop with the `u64`-position panic `OVF`: `φ <$> X` and `Y` agree
(outcome up to the panic-site string, value, device), and a value returned by `X` satisfies `P`. -/
def Sim {α α'} (φ : α → α') (P : α → Prop) (X : M α) (Y : M α') : Prop :=
  ∀ fa d, (X fa d).1 = .panic Rs.S.OVF ∨
    (erase (φ <$> X) fa d = erase Y fa d ∧ ∀ a d', X fa d = (.ok a, d') → P a)

theorem map_apply {α α'} (φ : α → α') (X : M α) (fa : Option Nat) (d : Dev) :
    (φ <$> X) fa d = (match (X fa d).1 with | .ok a => .ok (φ a) | .err e => .err e | .panic s => .panic s, (X fa d).2) := by
  simp only [map_eq_pure_bind, M.bind_apply]
  rcases X fa d with ⟨o, d'⟩
  cases o <;> rfl

theorem Sim.refines {α α'} {φ : α → α'} {P : α → Prop} {X : M α} {Y : M α'} (h : Sim φ P X Y) :
    Refines (φ <$> X) Y := by
  intro fa d
  rcases h fa d with h | ⟨h, _⟩
  · left; rw [map_apply, h]
  · right; exact h

theorem Sim.post {α α'} {φ : α → α'} {P : α → Prop} {X : M α} {Y : M α'} (h : Sim φ P X Y) : Post X P := by
  intro fa d a d' he
  rcases h fa d with h | ⟨_, h⟩
  · rw [he] at h; cases h
  · exact h a d' he

theorem Sim.leaf {α α'} {φ : α → α'} {P : α → Prop} {a : α} {b : α'} (hb : φ a = b) (hp : P a) :
    Sim φ P (pure a) (pure b) := by
  intro fa d
  right
  refine ⟨by subst hb; rfl, ?_⟩
  intro a' d' he
  cases he
  exact hp

theorem Sim.panic {α α'} {φ : α → α'} {P : α → Prop} (s s' : String) :
    Sim φ P (M.panic s : M α) (M.panic s' : M α') := by
  intro fa d
  right
  exact ⟨rfl, fun a d' he => by cases he⟩

theorem Sim.ovf {α α' β} {φ : α → α'} {P : α → Prop} (f : β → M α) (Y : M α') :
    Sim φ P (M.panic Rs.S.OVF >>= f) Y := fun fa d => Or.inl rfl

theorem Sim.mono {α α'} {φ : α → α'} {P P' : α → Prop} {X : M α} {Y : M α'} (h : Sim φ P X Y)
    (hp : ∀ a, P a → P' a) : Sim φ P' X Y := by
  intro fa d
  rcases h fa d with h | ⟨h1, h2⟩
  · exact Or.inl h
  · exact Or.inr ⟨h1, fun a d' he => hp a (h2 a d' he)⟩

/-- a callee (or any first step) with its own abstraction `φ1` and postcondition `P1` -/
theorem Sim.bind {α1 α1' α α'} {φ1 : α1 → α1'} {P1 : α1 → Prop} {φ : α → α'} {P : α → Prop}
    {X : M α1} {Y : M α1'} {F : α1 → M α} {G : α1' → M α'}
    (hX : Sim φ1 P1 X Y) (hF : ∀ a, P1 a → Sim φ P (F a) (G (φ1 a))) : Sim φ P (X >>= F) (Y >>= G) := by
  intro fa d
  rcases hxd : X fa d with ⟨o, d'⟩
  rcases hX fa d with h | ⟨h, hp⟩
  · left
    rw [hxd] at h
    simp only at h
    subst h
    simp only [M.bind_apply, hxd]
  · rw [erase, map_apply, hxd] at h
    simp only [erase] at h
    rcases hyd : Y fa d with ⟨o', d''⟩
    rw [hyd] at h
    simp only [Prod.mk.injEq] at h
    obtain ⟨ho, hd⟩ := h
    subst hd
    cases o with
    | ok a =>
      cases o' with
      | ok a' =>
        simp only [eraseOut, Out.ok.injEq] at ho
        subst ho
        rcases hF a (hp a d' hxd) fa d' with h | ⟨h1, h2⟩
        · left; simp only [M.bind_apply, hxd]; exact h
        · right
          refine ⟨?_, ?_⟩
          · simp only [erase, map_apply, M.bind_apply, hxd, hyd] at h1 ⊢; exact h1
          · intro b db he
            simp only [M.bind_apply, hxd] at he
            exact h2 b db he
      | err e => simp only [eraseOut] at ho; cases ho
      | panic s => simp only [eraseOut] at ho; cases ho
    | err e =>
      cases o' with
      | ok a' => simp only [eraseOut] at ho; cases ho
      | err e' =>
        simp only [eraseOut, Out.err.injEq] at ho
        subst ho
        right
        refine ⟨by simp only [erase, map_apply, M.bind_apply, hxd, hyd], ?_⟩
        intro b db he
        simp only [M.bind_apply, hxd] at he
        cases he
      | panic s => simp only [eraseOut] at ho; cases ho
    | panic s =>
      cases o' with
      | ok a' => simp only [eraseOut] at ho; cases ho
      | err e' => simp only [eraseOut] at ho; cases ho
      | panic s' =>
        right
        refine ⟨by simp only [erase, map_apply, M.bind_apply, hxd, hyd, eraseOut], ?_⟩
        intro b db he
        simp only [M.bind_apply, hxd] at he
        cases he

theorem Sim.id_refl {α} (x : M α) : Sim (fun a : α => a) (fun _ => True) x x := by
  intro fa d
  right
  refine ⟨?_, fun _ _ _ => trivial⟩
  simp only [erase, map_apply]
  rcases x fa d with ⟨o, d'⟩
  cases o <;> rfl

/-- peel a common first step -/
theorem Sim.congr {β α α'} {φ : α → α'} {P : α → Prop} (x : M β) {f : β → M α} {g : β → M α'}
    (h : ∀ r, Sim φ P (f r) (g r)) : Sim φ P (x >>= f) (x >>= g) :=
  Sim.bind (Sim.id_refl x) (fun a _ => h a)

theorem Sim.actsG {α α'} {φ : α → α'} {P : α → Prop} (acts : List Rs.Act)
    {F : Except ZErr Unit → M α} {F' : Except ZErr Unit → M α'}
    (h : ∀ r, Sim φ P (F r) (F' r)) : Sim φ P (actsG acts F) (actsG acts F') := by
  induction acts with
  | nil => exact h _
  | cons a as ih =>
    cases a <;> simp only [WriterSM.actsG] <;> refine Sim.congr _ fun r => ?_ <;> cases r
    · exact h _
    · exact ih
    · exact h _
    · exact ih


/-! ### `end_extra_data` -/

/-- a serialiser that wrote nothing: only its outcome matters -/
theorem runW_nolog {σ α} (x : Rs.W Rs.Act α) (st : σ) (h : x.log = []) :
    (Rs.S.runW x st).toM = match x.res with
      | some (.ok a) => pure (.ok a)
      | some (.error e) => pure (.error (Rs.zerr e, st))
      | none => M.panic "rs2lean: checked operation" := by
  simp only [Rs.S.runW, h, Rs.S.replay]
  rfl

/-- the same for a write-only serialiser -/
theorem runWB_nolog {σ α} (x : Rs.W Bytes α) (st : σ) (h : x.log = []) :
    (Rs.S.runWB x st).toM = match x.res with
      | some (.ok a) => pure (.ok a)
      | some (.error e) => pure (.error (Rs.zerr e, st))
      | none => M.panic "rs2lean: checked operation" := by
  simp only [Rs.S.runWB, h, M.writeChunks]
  rfl

theorem zerr_eq (e : Rs.ZipErr) : Rs.zerr e = zerrOf e := by
  cases e with
  | Io k => cases k <;> rfl
  | _ => rfl

theorem seek_attempt_bind {β} (n : Nat) (k : Except ZErr UInt64 → M β) :
    (M.attempt (Rs.R.seek (.start n)) >>= k) = (M.attempt (M.seek (.start n)) >>= fun r => match r with
      | .ok p => k (.ok (UInt64.ofNat p))
      | .error e => k (.error e)) := by
  simp only [Rs.R.seek, attempt_bind_bind]
  refine bind_congr fun r => ?_
  cases r <;> rfl

/-- outcome (a `u64` value read as `Nat`) and final state of a generated method as a step of the model -/
def absRn (r : Except ZErr UInt64 × Gen.ZipWriter) : Except ZErr Nat × WState := (r.1.map UInt64.toNat, absW r.2)

theorem sim_end_extra_data (ext : Rs.S.Ext) (g : Gen.ZipWriter)
    (hf : ∀ f, g.files.getLast? = some f →
      f.extra_field.length ≤ 9223372036854775807 ∧
      f.data_start.toNat + f.extra_field.length < 18446744073709551616 ∧
      f.header_start.toNat + 28 < 18446744073709551616) :
    Sim absRn (fun p => p.2.files.map fkey = g.files.map fkey) (Rs.S.run (Gen.ZipWriter.end_extra_data ext g))
      (endExtraData ext.toWExt (absW g)) := by
  unfold Gen.ZipWriter.end_extra_data endExtraData
  cases hx : g.writing_to_extra_field
  · ssimp [hx, absW]
    refine Sim.leaf ?_ rfl
    simp only [absRn, absW, hx, Except.map]
  · cases hcl : g.inner.isClosed
    · cases hl : g.files.getLast? with
      | none =>
        ssimp [hx, absW, hcl, Rs.S.is_closed, Rs.last, hl, getLastOpt_map, Option.map_none]
        exact Sim.panic _ _
      | some f =>
        obtain ⟨hlen, hds, hhs⟩ := hf f hl
        obtain ⟨vlog, vres⟩ := tie_validate_extra_data (ω := Bytes) f (dataOf f) (view_dataOf f) hlen
        have hval := runWB_nolog (σ := Gen.ZipWriter) (Gen.validate_extra_data (ω := Bytes) f) g vlog
        cases hv : (Gen.validate_extra_data (ω := Bytes) f).res with
        | none => rw [hv] at vres; cases vres
        | some vr =>
          rw [hv] at vres hval
          simp only [Option.map_some, Option.some.injEq, zerr_eq] at vres hval
          cases vr with
          | error ve =>
            simp only [Except.mapError] at vres
            ssimp [hx, absW, hcl, Rs.S.is_closed, Rs.last, hl, getLastOpt_map, Option.map_some, hval, ← vres, zerr_eq]
            refine Sim.leaf ?_ rfl
            simp only [absRn, absW, hx, Except.map]
          | ok vu =>
            simp only [Except.mapError] at vres
            cases hco : g.writing_to_central_extra_field_only
            · -- local (and central) extra data: appended to the local header, length back-patched
              cases hin : g.inner with
              | closed => rw [hin] at hcl; cases hcl
              | compressor m l enc pending =>
                ssimp [hx, absW, hcl, Rs.S.is_closed, Rs.last, hl, getLastOpt_map, Option.map_some, hval, ← vres, hco, hin,
                  Rs.S.get_plain]
                exact Sim.panic _ _
              | storer enc =>
                cases enc with
                | some e =>
                  ssimp [hx, absW, hcl, Rs.S.is_closed, Rs.last, hl, getLastOpt_map, Option.map_some, hval, ← vres, hco, hin,
                    Rs.S.get_plain]
                  exact Sim.panic _ _
                | none =>
                  obtain ⟨a1, b1⟩ := len_add f.data_start f.extra_field hds
                  have e28 : (28 : UInt64).toNat = 28 := by decide
                  obtain ⟨a2, b2⟩ := add_u64 f.header_start 28 (by rw [e28]; exact hhs)
                  rw [e28] at b2
                  ssimp [hx, absW, hcl, Rs.S.is_closed, Rs.last, hl, getLastOpt_map, Option.map_some, hval, ← vres, hco, hin,
                    Rs.S.get_plain, Model.io, a1, a2, seek_attempt_bind, b1, b2]
                  apply Sim.congr
                  intro r
                  cases r with
                  | error e =>
                    ssimp []
                    refine Sim.leaf ?_ rfl
                    simp only [absRn, absW, hx, hco, hin, Except.map]
                  | ok u =>
                    have c1 : f.data_start + UInt64.ofNat f.extra_field.length =
                        UInt64.ofNat (f.data_start.toNat + f.extra_field.length) := by
                      apply UInt64.toNat_inj.mp
                      rw [b1, UInt64.toNat_ofNat']; omega
                    have hsw := fun s => switchTo_via ext f.compression_method f.compression_level s
                    cases hlf : f.large_file
                    · have hb : 0 + f.extra_field.length % 65536 < 65536 := by omega
                      ssimp [hlf, len_as_u16, add_len_u16_0, hb, localExtraLen, dataOf, getLastOpt_map, hl, Option.map_some,
                        setLast_map, hsw]
                      apply Sim.congr; intro r
                      cases r with
                      | error e =>
                        ssimp []
                        refine Sim.leaf ?_ (setLast_fkey _ _ _ hl (by simp only [fkey, hlf]))
                        simp only [absRn, absW, setLast_map, Except.map, dataOf, b1]
                        simp only [c1]
                      | ok p =>
                        ssimp []
                        apply Sim.congr; intro r
                        cases r with
                        | error e =>
                          ssimp []
                          refine Sim.leaf ?_ (setLast_fkey _ _ _ hl (by simp only [fkey, hlf]))
                          simp only [absRn, absW, setLast_map, Except.map, dataOf, b1]
                          simp only [c1]
                        | ok p =>
                          ssimp []
                          apply Sim.congr; intro r
                          cases r with
                          | error e =>
                            ssimp []
                            refine Sim.leaf ?_ (setLast_fkey _ _ _ hl (by simp only [fkey, hlf]))
                            simp only [absRn, absW, setLast_map, Except.map, dataOf, b1]
                            simp only [c1]
                          | ok p =>
                            ssimp []
                            apply Sim.congr; intro r
                            obtain ⟨r1, i1⟩ := r
                            cases r1 with
                            | error e =>
                              ssimp []
                              refine Sim.leaf ?_ (setLast_fkey _ _ _ hl (by simp only [fkey, hlf]))
                              simp only [absRn, absW, setLast_map, Except.map, dataOf, b1]
                              simp only [c1]
                            | ok u =>
                              ssimp []
                              refine Sim.leaf ?_ (setLast_fkey _ _ _ hl (by simp only [fkey, hlf]))
                              simp only [absRn, absW, setLast_map, Except.map, dataOf, b1]
                              simp only [c1]
                    · by_cases hb : 20 + f.extra_field.length % 65536 < 65536
                      · ssimp [hlf, len_as_u16, add_len_u16_20, hb, localExtraLen, dataOf, getLastOpt_map, hl, Option.map_some,
                          setLast_map, hsw]
                        apply Sim.congr; intro r
                        cases r with
                        | error e =>
                          ssimp []
                          refine Sim.leaf ?_ (setLast_fkey _ _ _ hl (by simp only [fkey, hlf]))
                          simp only [absRn, absW, setLast_map, Except.map, dataOf, b1]
                          simp only [c1]
                        | ok p =>
                          ssimp []
                          apply Sim.congr; intro r
                          cases r with
                          | error e =>
                            ssimp []
                            refine Sim.leaf ?_ (setLast_fkey _ _ _ hl (by simp only [fkey, hlf]))
                            simp only [absRn, absW, setLast_map, Except.map, dataOf, b1]
                            simp only [c1]
                          | ok p =>
                            ssimp []
                            apply Sim.congr; intro r
                            cases r with
                            | error e =>
                              ssimp []
                              refine Sim.leaf ?_ (setLast_fkey _ _ _ hl (by simp only [fkey, hlf]))
                              simp only [absRn, absW, setLast_map, Except.map, dataOf, b1]
                              simp only [c1]
                            | ok p =>
                              ssimp []
                              apply Sim.congr; intro r
                              obtain ⟨r1, i1⟩ := r
                              cases r1 with
                              | error e =>
                                ssimp []
                                refine Sim.leaf ?_ (setLast_fkey _ _ _ hl (by simp only [fkey, hlf]))
                                simp only [absRn, absW, setLast_map, Except.map, dataOf, b1]
                                simp only [c1]
                              | ok u =>
                                ssimp []
                                refine Sim.leaf ?_ (setLast_fkey _ _ _ hl (by simp only [fkey, hlf]))
                                simp only [absRn, absW, setLast_map, Except.map, dataOf, b1]
                                simp only [c1]

                      · ssimp [hlf, len_as_u16, add_len_u16_20, hb, localExtraLen, dataOf, getLastOpt_map, hl, Option.map_some,
                          setLast_map, hsw]
                        exact Sim.panic _ _
            · ssimp [hx, absW, hcl, Rs.S.is_closed, Rs.last, hl, getLastOpt_map, Option.map_some, hval, ← vres, hco]
              refine Sim.leaf ?_ rfl
              simp only [absRn, absW, hx, Except.map, UInt64.ofNat_toNat]
              rfl
    · ssimp [hx, absW, hcl, Rs.S.is_closed]
      refine Sim.leaf ?_ rfl
      simp only [absRn, absW, hx, Except.map]



/-- `end_extra_data`: equal to the model's `endExtraData` (validation verdict, the extra data appended to
the local header, the length back-patch at `header_start + 28`, `data_start` / `stats.start` moved, the
switch to the entry's encoder, the two flags), for every writer value, device and fault index. -/
theorem tie_end_extra_data (ext : Rs.S.Ext) (g : Gen.ZipWriter)
    (hf : ∀ f, g.files.getLast? = some f →
      f.extra_field.length ≤ 9223372036854775807 ∧
      f.data_start.toNat + f.extra_field.length < 18446744073709551616 ∧
      f.header_start.toNat + 28 < 18446744073709551616) :
    Refines (absRn <$> Rs.S.run (Gen.ZipWriter.end_extra_data ext g)) (endExtraData ext.toWExt (absW g)) :=
  (sim_end_extra_data ext g hf).refines

/-! ### `finish_file` -/

theorem toM_bind_run {σ α β} (x : Rs.S σ (α × σ)) (K : Except (ZErr × σ) (α × σ) → M β) :
    (x.toM >>= K) = (Rs.S.run x >>= fun p => K (match p with
      | (.ok a, s) => .ok (a, s)
      | (.error e, s) => .error (e, s))) := by
  simp only [Rs.S.run, bind_assoc]
  refine bind_congr fun r => ?_
  cases r with
  | ok p => obtain ⟨a, s⟩ := p; simp only [pure_bind]
  | error p => obtain ⟨e, s⟩ := p; simp only [pure_bind]

theorem attempt_panic_bind {α β} (s : String) (k : Except ZErr α → M β) :
    (M.attempt (M.panic s : M α) >>= k) = M.panic s := rfl

theorem position_attempt_bind {β} (k : Except ZErr UInt64 → M β) :
    (M.attempt Rs.S.position >>= k) = (M.attempt M.streamPosition >>= fun r => match r with
      | .ok p => if p < 18446744073709551616 then k (.ok (UInt64.ofNat p)) else M.panic Rs.S.OVF
      | .error e => k (.error e)) := by
  simp only [Rs.S.position, attempt_bind_bind]
  refine bind_congr fun r => ?_
  cases r with
  | error e => rfl
  | ok p =>
    simp only []
    split
    · rfl
    · rfl

theorem setLast_setLast {α} (l : List α) (a b : α) : Rs.setLast (Rs.setLast l a) b = Rs.setLast l b := by
  unfold Rs.setLast
  cases h : l.reverse with
  | nil => simp only [List.reverse_nil]
  | cons x xs => simp only [List.reverse_reverse]

theorem msetLast_setLast (l : List FileData) (a b : FileData) : Model.setLast (Model.setLast l a) b = Model.setLast l b := by
  unfold Model.setLast
  cases h : l.reverse with
  | nil => simp only [List.reverse_nil]
  | cons x xs => simp only [List.reverse_reverse]

theorem Sim.ovf_panic {α α'} {φ : α → α'} {P : α → Prop} (Y : M α') : Sim φ P (M.panic Rs.S.OVF) Y :=
  fun fa d => Or.inl rfl

theorem sub_ofNat (p : Nat) (st : UInt64) (hp : p < 18446744073709551616) :
    Rs.Arith.sub (UInt64.ofNat p) st =
      if p < st.toNat then none else some (UInt64.ofNat (p - st.toNat)) := by
  have e : (UInt64.ofNat p).toNat = p := by simp only [UInt64.toNat_ofNat']; omega
  simp only [Rs.Arith.sub, e]
  by_cases h : st.toNat ≤ p
  · have h' : ¬ p < st.toNat := by omega
    simp only [h, h', ↓reduceIte]
    refine congrArg some ?_
    apply UInt64.toNat_inj.mp
    rw [UInt64.toNat_sub_of_le _ _ (UInt64.le_iff_toNat_le.mpr (by rw [e]; exact h)), e, UInt64.toNat_ofNat']
    omega
  · have h' : p < st.toNat := by omega
    simp only [h, h', ↓reduceIte]

/-- `update_local_file_header(writer, file)?` inside a method: the sink actions of the translated
serialiser are the I/O steps of the model's `updateLocalHeader` -/
theorem sim_update_header {σ α β : Type} {φ : α → Except ZErr β × WState} {P : α → Prop}
    (file : Gen.ZipFileData) (gm : FileData) (hv : view file gm)
    (hpos : gm.headerStart.toNat + 34 + gm.fileName.length < 18446744073709551616)
    (st : σ) (s : WState) (K : Except (ZErr × σ) Unit → M α) (k : Unit → M (Except ZErr β × WState))
    (hok : Sim φ P (K (.ok ())) (k ()))
    (herr : ∀ e, Sim φ P (K (.error (e, st))) (pure (.error e, s))) :
    Sim φ P ((Rs.S.runW (Gen.update_local_file_header (ω := Rs.Act) file) st).toM >>= K)
      (updateLocalHeader s gm k) := by
  obtain ⟨acts, r, hX, hM⟩ := tie_update_local_file_header file gm hv hpos
  rw [hX, hM, ioActs_eq]
  simp only [Rs.S.runW, bind_assoc, attempt_replay, actsG_bind]
  apply Sim.actsG
  intro rr
  cases rr with
  | error e => simp only [pure_bind]; exact herr e
  | ok u =>
    cases r with
    | ok u' => simp only [pure_bind]; exact hok
    | error e => simp only [pure_bind, zerr_eq]; exact herr _

set_option hygiene false in
/-- the part of `finish_file` after the encryption layer is finished (used twice) -/
macro "after_enc" g:ident hf:ident hx:term : tactic => `(tactic| (
  by_cases hwr0 : ($g).writing_raw = true
  rotate_left
  · have hwr : ($g).writing_raw = false := by simpa using hwr0
    cases hl : ($g).files.getLast? with
    | none =>
      ssimp [hwr, Rs.last, hl, getLastOpt_map, Option.map_none]
      refine Sim.leaf ?_ rfl
      simp only [absR, absW, $hx:term, hwr]
    | some f =>
      have hhs := $hf f hl
      ssimp [hwr, Rs.last, hl, getLastOpt_map, Option.map_some, Model.io, position_attempt_bind, setLast_setLast,
        msetLast_setLast, setLast_map, UInt64.ofNat_toNat]
      apply Sim.congr; intro r
      cases r with
      | error e =>
        ssimp []
        refine Sim.leaf ?_ (setLast_fkey _ _ _ hl (by simp only [fkey]))
        simp only [absR, absW, setLast_map, dataOf, $hx:term, hwr, UInt64.ofNat_toNat]
        try rfl
      | ok p =>
        by_cases hp : p < 18446744073709551616
        · by_cases hlt : p < ($g).stats.start.toNat
          · ssimp [hp, sub_ofNat p _ hp, hlt, Rs.S.okOr]
            refine Sim.leaf ?_ (setLast_fkey _ _ _ hl (by simp only [fkey]))
            simp only [absR, absW, setLast_map, dataOf, $hx:term, hwr, UInt64.ofNat_toNat]
            try rfl
          · have e64 : (UInt64.ofNat p).toNat = p := by simp only [UInt64.toNat_ofNat']; omega
            ssimp [hp, sub_ofNat p _ hp, hlt, Rs.S.okOr, seek_attempt_bind, e64]
            refine sim_update_header _ _ ?_ ?_ _ _ _ _ ?_ ?_
            · exact view_dataOf _
            · exact hhs
            · ssimp []
              apply Sim.congr; intro r
              cases r with
              | error e =>
                ssimp []
                refine Sim.leaf ?_ (setLast_fkey _ _ _ hl (by simp only [fkey]))
                simp only [absR, absW, setLast_map, dataOf, $hx:term, hwr, UInt64.ofNat_toNat]
                try rfl
              | ok q =>
                ssimp []
                refine Sim.leaf ?_ (setLast_fkey _ _ _ hl (by simp only [fkey]))
                simp only [absR, absW, setLast_map, dataOf, $hx:term, hwr, UInt64.ofNat_toNat]
                try rfl
            · intro e
              ssimp []
              refine Sim.leaf ?_ (setLast_fkey _ _ _ hl (by simp only [fkey]))
              simp only [absR, absW, setLast_map, dataOf, $hx:term, hwr, UInt64.ofNat_toNat]
              try rfl
        · ssimp [hp]
          exact Sim.ovf_panic _
  · have hwr : ($g).writing_raw = true := hwr0
    ssimp [hwr]
    refine Sim.leaf ?_ rfl
    simp only [absR, absW, $hx:term, hwr]))

set_option hygiene false in
/-- `finish_file` from `switch_to(Stored)` on (the whole method when no extra data is pending) -/
macro "finish_rest" g:ident hf:ident hx:term : tactic => `(tactic| (
  apply Sim.congr; intro p
  obtain ⟨r1, i1⟩ := p
  cases r1 with
  | error e =>
    ssimp []
    refine Sim.leaf ?_ rfl
    simp only [absR, absW, $hx:term]
  | ok u =>
    ssimp []
    cases i1 with
    | closed => ssimp []; exact Sim.panic _ _
    | compressor m l enc pending => ssimp []; exact Sim.panic _ _
    | storer enc =>
      cases enc with
      | none =>
        ssimp [Rs.S.get_plain]
        after_enc $g $hf $hx
      | some e =>
        by_cases hb : e.buffer.length < 12
        · ssimp [Rs.S.get_plain, Rs.S.zc_finish, hb, attempt_panic_bind]
          exact Sim.panic _ _
        · ssimp [Rs.S.get_plain, Rs.S.zc_finish, hb, attempt_bind_bind, Model.io, Rs.Hasher.finalize]
          apply Sim.congr; intro r
          cases r with
          | error er =>
            ssimp []
            refine Sim.leaf ?_ rfl
            simp only [absR, absW, $hx:term]
            try rfl
          | ok u1 =>
            ssimp []
            apply Sim.congr; intro r
            cases r with
            | error er =>
              ssimp []
              refine Sim.leaf ?_ rfl
              simp only [absR, absW, $hx:term]
              try rfl
            | ok u2 =>
              ssimp []
              after_enc $g $hf $hx))

theorem sim_finish_file (ext : Rs.S.Ext) (g : Gen.ZipWriter)
    (hf : ∀ f, g.files.getLast? = some f →
      f.extra_field.length ≤ 9223372036854775807 ∧
      f.data_start.toNat + f.extra_field.length < 18446744073709551616 ∧
      f.header_start.toNat + 34 + f.file_name.length < 18446744073709551616) :
    Sim absR (fun p => p.2.files.map fkey = g.files.map fkey) (Rs.S.run (Gen.ZipWriter.finish_file ext g))
      (finishFile ext.toWExt (absW g)) := by
  have hsw : ∀ s, switchTo ext.toWExt .stored none s =
      (Rs.S.switch_to ext s.inner Gen.CompressionMethod.Stored none >>= fun p => pure (p.1, { s with inner := p.2 })) :=
    fun s => switchTo_via ext .Stored none s
  unfold Gen.ZipWriter.finish_file finishFile
  cases hx : g.writing_to_extra_field
  · have hf' : ∀ f, g.files.getLast? = some f → f.header_start.toNat + 34 + f.file_name.length < 18446744073709551616 :=
      fun f h => (hf f h).2.2
    ssimp [hx, absW, hsw]
    finish_rest g hf' hx
  · have hf1 : ∀ f, g.files.getLast? = some f →
        f.extra_field.length ≤ 9223372036854775807 ∧
        f.data_start.toNat + f.extra_field.length < 18446744073709551616 ∧
        f.header_start.toNat + 28 < 18446744073709551616 :=
      fun f h => ⟨(hf f h).1, (hf f h).2.1, by have := (hf f h).2.2; omega⟩
    have hxa : (absW g).writingToExtraField = true := hx
    ssimp [hx, hxa, hsw]
    rw [toM_bind_run (Gen.ZipWriter.end_extra_data ext g)]
    refine Sim.bind (sim_end_extra_data ext g hf1) ?_
    intro p hp
    obtain ⟨r, g2⟩ := p
    cases r with
    | error e =>
      ssimp [absRn, Except.map]
      refine Sim.leaf ?_ hp
      simp only [absR]
    | ok ds =>
      have hf2 : ∀ f, g2.files.getLast? = some f →
          f.header_start.toNat + 34 + f.file_name.length < 18446744073709551616 := by
        intro f2 h2
        have h3 : (g2.files.map fkey).getLast? = some (fkey f2) := by rw [List.getLast?_map, h2]; rfl
        rw [hp, List.getLast?_map] at h3
        cases h4 : g.files.getLast? with
        | none => rw [h4] at h3; cases h3
        | some f =>
          rw [h4] at h3
          simp only [Option.map_some, Option.some.injEq] at h3
          have := (hf f h4).2.2
          have e1 : f.header_start = f2.header_start :=
            show (fkey f).header_start = (fkey f2).header_start from congrArg _ h3
          have e2 : f.file_name = f2.file_name :=
            show (fkey f).file_name = (fkey f2).file_name from congrArg _ h3
          rw [← e1, ← e2]; exact this
      refine Sim.mono (P := fun q => q.2.files.map fkey = g2.files.map fkey) ?_ (fun a h => h.trans hp)
      ssimp [absRn, Except.map, absW]
      finish_rest g2 hf2 Nat.add_zero


/-- `finish_file`: a refinement of the model's `finishFile` (the implicit `end_extra_data`, the switch back to
`Stored`, the ZipCrypto finish, the early return without entries, crc / sizes from the statistics and
`file_end - stats.start` (checked), the header back-patch, the seek back, the two flags). -/
theorem tie_finish_file (ext : Rs.S.Ext) (g : Gen.ZipWriter)
    (hf : ∀ f, g.files.getLast? = some f →
      f.extra_field.length ≤ 9223372036854775807 ∧
      f.data_start.toNat + f.extra_field.length < 18446744073709551616 ∧
      f.header_start.toNat + 34 + f.file_name.length < 18446744073709551616) :
    Refines (absR <$> Rs.S.run (Gen.ZipWriter.finish_file ext g)) (finishFile ext.toWExt (absW g)) :=
  (sim_finish_file ext g hf).refines

/-! ### `finalize`, `finish`, `Drop::drop` -/

theorem runWB_ok {σ α} (a : α) (l : List Bytes) (st : σ) :
    (Rs.S.runWB ⟨some (.ok a), l⟩ st).toM = (M.attempt (M.writeChunks l) >>= fun r => match r with
      | .error e => pure (.error (e, st))
      | .ok _ => pure (.ok a)) := rfl

theorem runWB_err {σ α} (e : Rs.ZipErr) (st : σ) :
    (Rs.S.runWB (⟨some (.error e), []⟩ : Rs.W Bytes α) st).toM = pure (.error (zerrOf e, st)) := by
  simp only [Rs.S.runWB, M.writeChunks, zerr_eq]
  rfl

/-- `write_central_directory_header` as a whole value (outcome AND what was written): on `Err` nothing was
handed to the sink.  `hnp`: the serialiser does not panic (the entry's time is a DOS time). -/
theorem wcdh_full (f : Gen.ZipFileData) (hlen : f.extra_field.length ≤ 9223372036854775807)
    (hnp : ∀ s, centralHeaderChunks (dataOf f) ≠ .panic s) :
    (∃ l, centralHeaderChunks (dataOf f) = .ok l ∧
        Gen.write_central_directory_header (ω := Bytes) f = ⟨some (.ok ()), l⟩) ∨
    (centralHeaderChunks (dataOf f) = .err .invalidArchive ∧
        Gen.write_central_directory_header (ω := Bytes) f = ⟨some (.error .InvalidArchive), []⟩) := by
  have h := view_dataOf f
  have hl : (dataOf f).extraField.length ≤ 9223372036854775807 := hlen
  have tie := tie_write_central_directory_header f (dataOf f) h hl
  by_cases hov : (centralZip64Bytes (dataOf f)).length + (dataOf f).extraField.length < 65536
  · left
    cases hc : centralHeaderChunks (dataOf f) with
    | panic s => exact absurd hc (hnp s)
    | err e =>
      exfalso
      unfold centralHeaderChunks at hc
      have hov' : ¬ (centralZip64Bytes (dataOf f)).length + (dataOf f).extraField.length > 65535 := by omega
      simp only [hov', ↓reduceIte] at hc
      unfold datepartOut at hc
      cases hd : (dataOf f).time.datepart <;> rw [hd] at hc <;> cases hc
    | ok l =>
      refine ⟨l, rfl, ?_⟩
      rw [hc] at tie
      rcases hx : Gen.write_central_directory_header (ω := Bytes) f with ⟨res, log⟩
      rw [hx] at tie
      cases res with
      | none => cases tie
      | some r =>
        cases r with
        | error e => cases tie
        | ok u => simp only [chunks, ofOut, Option.some.injEq, Except.ok.injEq] at tie; rw [tie]
  · right
    have hov' : (centralZip64Bytes (dataOf f)).length + (dataOf f).extraField.length > 65535 := by omega
    refine ⟨?_, ?_⟩
    · unfold centralHeaderChunks
      simp only [hov', ↓reduceIte]
    · have hbuf := intoBuf_central (ω := Bytes) f (dataOf f) h
      have hzl := centralZip64Bytes_length_le (dataOf f)
      have hlt : (centralZip64Bytes (dataOf f)).length + (dataOf f).extraField.length < 18446744073709551616 := by omega
      obtain ⟨hv, hvm, he, ht, hcrc, hn, hx, hlf, hdd⟩ := h
      unfold Gen.write_central_directory_header
      simp only [hbuf, hx]
      wsimp [add_elen _ _ hzl hl, tryInto_u16 _ hlt, hov, hov', Rs.mapErr, Rs.W.ofExcept]

/-- the central-directory loop of `finalize`: the translated `for` loop is the model's `writeAllCentral` -/
theorem central_loop (st : Gen.ZipWriter) (s : WState) : ∀ (fs : List Gen.ZipFileData),
    (∀ f, f ∈ fs → f.extra_field.length ≤ 9223372036854775807 ∧ ∀ z, centralHeaderChunks (dataOf f) ≠ .panic z) →
    (Rs.S.forEach fs (fun file => do
          let t5 ← Rs.S.runWB (Gen.write_central_directory_header (ω := Bytes) file) st
          pure ())).toM =
      (finalize.writeAllCentral s (fs.map dataOf) >>= fun p => match p.1 with
        | .ok _ => pure (.ok ())
        | .error e => pure (.error (e, st))) := by
  intro fs
  induction fs with
  | nil =>
    intro _
    unfold finalize.writeAllCentral Rs.S.forEach
    rfl
  | cons f rest ih =>
    intro h
    obtain ⟨hlen, hnp⟩ := h f (List.mem_cons_self)
    have ih' := ih (fun f' hf' => h f' (List.mem_cons_of_mem _ hf'))
    rw [List.map_cons]
    unfold finalize.writeAllCentral Rs.S.forEach
    rcases wcdh_full f hlen hnp with ⟨l, hc, hg⟩ | ⟨hc, hg⟩
    · rw [hc, hg]
      ssimp [runWB_ok, Model.io, ih']
      refine bind_congr fun r => ?_
      cases r <;> ssimp []
    · rw [hc, hg]
      ssimp [runWB_err, zerrOf]

/-- `writeAllCentral` hands its state back unchanged -/
theorem wac_state (s : WState) : ∀ (fs : List FileData),
    finalize.writeAllCentral s fs = (finalize.writeAllCentral s fs >>= fun p => pure (p.1, s)) := by
  intro fs
  induction fs with
  | nil => unfold finalize.writeAllCentral; rfl
  | cons f rest ih =>
    unfold finalize.writeAllCentral
    cases centralHeaderChunks f with
    | panic z => rfl
    | err e => rfl
    | ok l =>
      simp only [Model.io, bind_assoc]
      refine bind_congr fun r => ?_
      cases r with
      | error e => rfl
      | ok u => exact ih

theorem chc_nopanic (g : FileData) (h : g.time.datepart ≠ none) : ∀ z, centralHeaderChunks g ≠ .panic z := by
  intro z hc
  unfold centralHeaderChunks datepartOut at hc
  cases hd : g.time.datepart with
  | none => exact h hd
  | some d =>
    rw [hd] at hc
    simp only [] at hc
    split at hc <;> cases hc

/-- facts about the entries that no method changes (`fkey` keeps them) -/
def FileOK (f : Gen.ZipFileData) : Prop :=
  f.extra_field.length ≤ 9223372036854775807 ∧ (dataOf f).time.datepart ≠ none

theorem fileOK_fkey (f f' : Gen.ZipFileData) (h : fkey f = fkey f') (hf : FileOK f) : FileOK f' := by
  have e1 : f.extra_field = f'.extra_field := show (fkey f).extra_field = (fkey f').extra_field from congrArg _ h
  have e2 : f.last_modified_time = f'.last_modified_time :=
    show (fkey f).last_modified_time = (fkey f').last_modified_time from congrArg _ h
  unfold FileOK at *
  simp only [dataOf] at *
  rw [← e1, ← e2]; exact hf

theorem allOK_frame (l l' : List Gen.ZipFileData) (h : l'.map fkey = l.map fkey)
    (hl : ∀ f, f ∈ l → FileOK f) : ∀ f, f ∈ l' → FileOK f := by
  intro f' hf'
  have : fkey f' ∈ l.map fkey := by rw [← h]; exact List.mem_map_of_mem hf'
  obtain ⟨f, hf, he⟩ := List.mem_map.mp this
  exact fileOK_fkey f f' he (hl f hf)

theorem ofNat_toNat_lt (n : Nat) (h : n < 18446744073709551616) : (UInt64.ofNat n).toNat = n := by
  simp only [UInt64.toNat_ofNat']; omega

theorem vlen_gt {α} (l : List α) (h : l.length < 18446744073709551616) :
    (Rs.vlen l > Gen.ZIP64_ENTRY_THR) ↔ l.length > ZIP64_ENTRY_THR := by
  have e : Gen.ZIP64_ENTRY_THR.toNat = 65535 := by decide
  rw [gt_iff_lt, UInt64.lt_iff_toNat_lt, e, Rs.vlen, ofNat_toNat_lt _ h]
  rfl

theorem max_ofNat (a b : Nat) (ha : a < 18446744073709551616) (hb : b < 18446744073709551616) :
    max (UInt64.ofNat a) (UInt64.ofNat b) = UInt64.ofNat (max a b) := by
  by_cases h : a ≤ b
  · have : UInt64.ofNat a ≤ UInt64.ofNat b := by
      rw [UInt64.le_iff_toNat_le, ofNat_toNat_lt _ ha, ofNat_toNat_lt _ hb]; exact h
    rw [show max (UInt64.ofNat a) (UInt64.ofNat b) = UInt64.ofNat b from if_pos this, Nat.max_eq_right h]
  · have h' : b ≤ a := by omega
    have : ¬ UInt64.ofNat a ≤ UInt64.ofNat b := by
      rw [UInt64.le_iff_toNat_le, ofNat_toNat_lt _ ha, ofNat_toNat_lt _ hb]; exact h
    rw [show max (UInt64.ofNat a) (UInt64.ofNat b) = UInt64.ofNat a from if_neg this, Nat.max_eq_left h']

theorem gt_thr_ofNat (n : Nat) (h : n < 18446744073709551616) :
    (UInt64.ofNat n > Gen.ZIP64_BYTES_THR) ↔ n > 4294967295 := by
  rw [gt_thr, ofNat_toNat_lt _ h]

theorem add_ofNat (a b : Nat) (h : a + b < 18446744073709551616) :
    Rs.Arith.add (UInt64.ofNat a) (UInt64.ofNat b) = some (UInt64.ofNat (a + b)) := by
  have ea := ofNat_toNat_lt a (by omega)
  have eb := ofNat_toNat_lt b (by omega)
  obtain ⟨h1, h2⟩ := add_u64 (UInt64.ofNat a) (UInt64.ofNat b) (by rw [ea, eb]; exact h)
  rw [h1]
  refine congrArg some ?_
  apply UInt64.toNat_inj.mp
  rw [h2, ea, eb, ofNat_toNat_lt _ h]

theorem min32_ofNat (n : Nat) (h : n < 18446744073709551616) :
    Rs.as' UInt32 (min (UInt64.ofNat n) Gen.ZIP64_BYTES_THR) = UInt32.ofNat (min n 4294967295) := by
  have e : Gen.ZIP64_BYTES_THR = UInt64.ofNat 4294967295 := by decide
  rw [e, show min (UInt64.ofNat n) (UInt64.ofNat 4294967295) = UInt64.ofNat (min n 4294967295) from ?_]
  · apply UInt32.toNat_inj.mp
    simp only [Rs.as', Rs.As.cast, UInt64.toNat_toUInt32, UInt64.toNat_ofNat', UInt32.toNat_ofNat']
    omega
  · by_cases hle : n ≤ 4294967295
    · have : UInt64.ofNat n ≤ UInt64.ofNat 4294967295 := by
        rw [UInt64.le_iff_toNat_le, ofNat_toNat_lt _ h, ofNat_toNat_lt _ (by omega)]; exact hle
      rw [show min (UInt64.ofNat _) (UInt64.ofNat _) = UInt64.ofNat _ from if_pos this, Nat.min_eq_left hle]
    · have hle' : 4294967295 ≤ n := by omega
      have : ¬ UInt64.ofNat n ≤ UInt64.ofNat 4294967295 := by
        rw [UInt64.le_iff_toNat_le, ofNat_toNat_lt _ h, ofNat_toNat_lt _ (by omega)]; exact hle
      rw [show min (UInt64.ofNat n) (UInt64.ofNat 4294967295) = UInt64.ofNat 4294967295 from if_neg this, Nat.min_eq_right hle']

theorem nf_ofNat {α} (l : List α) (h : l.length < 18446744073709551616) :
    Rs.as' UInt16 (min (Rs.vlen l) Gen.ZIP64_ENTRY_THR) = UInt16.ofNat (min l.length ZIP64_ENTRY_THR) := by
  have e : Gen.ZIP64_ENTRY_THR = UInt64.ofNat 65535 := by decide
  have e' : ZIP64_ENTRY_THR = 65535 := rfl
  rw [e, e', Rs.vlen, show min (UInt64.ofNat l.length) (UInt64.ofNat 65535) = UInt64.ofNat (min l.length 65535) from ?_]
  · apply UInt16.toNat_inj.mp
    simp only [Rs.as', Rs.As.cast, UInt64.toNat_toUInt16, UInt64.toNat_ofNat', UInt16.toNat_ofNat']
    omega
  · by_cases hle : l.length ≤ 65535
    · have : UInt64.ofNat l.length ≤ UInt64.ofNat 65535 := by
        rw [UInt64.le_iff_toNat_le, ofNat_toNat_lt _ h, ofNat_toNat_lt _ (by omega)]; exact hle
      rw [show min (UInt64.ofNat _) (UInt64.ofNat _) = UInt64.ofNat _ from if_pos this, Nat.min_eq_left hle]
    · have hle' : 65535 ≤ l.length := by omega
      have : ¬ UInt64.ofNat l.length ≤ UInt64.ofNat 65535 := by
        rw [UInt64.le_iff_toNat_le, ofNat_toNat_lt _ h, ofNat_toNat_lt _ (by omega)]; exact hle
      rw [show min (UInt64.ofNat l.length) (UInt64.ofNat 65535) = UInt64.ofNat 65535 from if_neg this, Nat.min_eq_right hle']

theorem sim_finalize (ext : Rs.S.Ext) (g : Gen.ZipWriter)
    (hf : ∀ f, g.files.getLast? = some f →
      f.extra_field.length ≤ 9223372036854775807 ∧
      f.data_start.toNat + f.extra_field.length < 18446744073709551616 ∧
      f.header_start.toNat + 34 + f.file_name.length < 18446744073709551616)
    (hall : ∀ f, f ∈ g.files → FileOK f)
    (hn : g.files.length < 18446744073709551616) (hc : g.comment.length < 18446744073709551616) :
    Sim absR (fun p => p.2.files.map fkey = g.files.map fkey) (Rs.S.run (Gen.ZipWriter.finalize ext g))
      (Model.finalize ext.toWExt (absW g)) := by
  have hcl : (decide (Rs.len g.comment > Rs.as' UInt64 (65535 : UInt16))) = decide (g.comment.length > 65535) := by
    have e : (Rs.as' UInt64 (65535 : UInt16)).toNat = 65535 := by decide
    have e2 : (Rs.len g.comment).toNat = g.comment.length := by
      simp only [Rs.len, UInt64.toNat_ofNat']; omega
    rw [decide_eq_decide, gt_iff_lt, UInt64.lt_iff_toNat_lt, e, e2]
  unfold Gen.ZipWriter.finalize Model.finalize
  by_cases hcm : g.comment.length > 65535
  · ssimp [hcl, hcm, absW, decide_true]
    refine Sim.leaf ?_ rfl
    simp only [absR, absW]
  · have hca : (absW g).comment = g.comment := rfl
    ssimp [hcl, hcm, hca, decide_false]
    rw [toM_bind_run (Gen.ZipWriter.finish_file ext g)]
    refine Sim.bind (sim_finish_file ext g hf) ?_
    intro p hp
    obtain ⟨r, g2⟩ := p
    cases r with
    | error e =>
      ssimp [absR]
      refine Sim.leaf ?_ hp
      simp only [absR]
    | ok u =>
      have hall2 := allOK_frame g.files g2.files hp hall
      have hn2 : g2.files.length < 18446744073709551616 := by
        have := congrArg List.length hp
        simp only [List.length_map] at this
        omega
      refine Sim.mono (P := fun q => q.2.files.map fkey = g2.files.map fkey) ?_ (fun a h => h.trans hp)
      ssimp [absR]
      have hia : (absW g2).inner = g2.inner := rfl
      cases hin : g2.inner with
      | closed => ssimp [hia, hin, Rs.S.get_plain]; exact Sim.panic _ _
      | compressor m l enc pending => ssimp [hia, hin, Rs.S.get_plain]; exact Sim.panic _ _
      | storer enc =>
        cases enc with
        | some e => ssimp [hia, hin, Rs.S.get_plain]; exact Sim.panic _ _
        | none =>
          have hloop := central_loop g2 (absW g2) g2.files
            (fun f hf => ⟨(hall2 f hf).1, chc_nopanic _ (hall2 f hf).2⟩)
          have hfiles : (absW g2).files = g2.files.map dataOf := rfl
          rw [hfiles, wac_state]
          ssimp [hia, hin, Rs.S.get_plain, Model.io, position_attempt_bind, hfiles, hloop]
          apply Sim.congr; intro r
          cases r with
          | error e =>
            ssimp []
            refine Sim.leaf ?_ rfl
            simp only [absR]
          | ok p =>
            by_cases hp64 : p < 18446744073709551616
            · ssimp [hp64]
              apply Sim.congr; intro r
              obtain ⟨r1, s1⟩ := r
              cases r1 with
              | error e =>
                ssimp []
                refine Sim.leaf ?_ rfl
                simp only [absR]
              | ok u2 =>
                ssimp []
                apply Sim.congr; intro r
                cases r with
                | error e =>
                  ssimp []
                  refine Sim.leaf ?_ rfl
                  simp only [absR]
                | ok q =>
                  by_cases hq64 : q < 18446744073709551616
                  · by_cases hlt : q < p
                    · have hlt' : q < (UInt64.ofNat p).toNat := by rw [ofNat_toNat_lt _ hp64]; exact hlt
                      ssimp [hq64, sub_ofNat q _ hq64, hlt', hlt]
                      exact Sim.panic _ _
                    · have hlt' : ¬ q < (UInt64.ofNat p).toNat := by rw [ofNat_toNat_lt _ hp64]; exact hlt
                      have hcond : (decide (Rs.vlen g2.files > Gen.ZIP64_ENTRY_THR) ||
                          decide (max (UInt64.ofNat (q - p)) (UInt64.ofNat p) > Gen.ZIP64_BYTES_THR)) =
                          (decide (g2.files.length > ZIP64_ENTRY_THR) || decide (max (q - p) p > 4294967295)) := by
                        rw [max_ofNat _ _ (by omega) hp64]
                        congr 1
                        · rw [decide_eq_decide]; exact vlen_gt _ hn2
                        · rw [decide_eq_decide]; exact gt_thr_ofNat _ (by omega)
                      have hv64 : Rs.as' UInt64 (Rs.vlen g2.files) = UInt64.ofNat g2.files.length := rfl
                      have hdv : Rs.as' UInt16 Gen.DEFAULT_VERSION = DEFAULT_VERSION.toUInt16 := rfl
                      have hadd : p + (q - p) = q := by omega
                      ssimp [hq64, sub_ofNat q _ hq64, hlt', hlt, ofNat_toNat_lt _ hp64, hcond, List.length_map,
                        tie_eocd64_write, tie_locator_write, tie_eocd_write, runWB_ok, eocd64Of, locatorOf, eocdOf,
                        add_ofNat p (q - p) (by omega), hadd, min32_ofNat _ hp64, min32_ofNat (q - p) (by omega),
                        nf_ofNat _ hn2, hv64, hdv]
                      by_cases hz : (decide (g2.files.length > ZIP64_ENTRY_THR) || decide (max (q - p) p > 4294967295)) = true
                      · ssimp [hz]
                        apply Sim.congr; intro r
                        cases r with
                        | error e =>
                          ssimp []
                          refine Sim.leaf ?_ rfl
                          simp only [absR]
                        | ok u3 =>
                          ssimp []
                          apply Sim.congr; intro r
                          cases r with
                          | error e =>
                            ssimp []
                            refine Sim.leaf ?_ rfl
                            simp only [absR]
                          | ok u4 =>
                            ssimp []
                            apply Sim.congr; intro r
                            cases r with
                            | error e =>
                              ssimp []
                              refine Sim.leaf ?_ rfl
                              simp only [absR]
                            | ok u5 =>
                              ssimp []
                              refine Sim.leaf ?_ rfl
                              simp only [absR]
                      · ssimp [hz]
                        apply Sim.congr; intro r
                        cases r with
                        | error e =>
                          ssimp []
                          refine Sim.leaf ?_ rfl
                          simp only [absR]
                        | ok u5 =>
                          ssimp []
                          refine Sim.leaf ?_ rfl
                          simp only [absR]
                  · ssimp [hq64]
                    exact Sim.ovf_panic _
            · ssimp [hp64]
              exact Sim.ovf_panic _

theorem sim_finish (ext : Rs.S.Ext) (g : Gen.ZipWriter)
    (hf : ∀ f, g.files.getLast? = some f →
      f.extra_field.length ≤ 9223372036854775807 ∧
      f.data_start.toNat + f.extra_field.length < 18446744073709551616 ∧
      f.header_start.toNat + 34 + f.file_name.length < 18446744073709551616)
    (hall : ∀ f, f ∈ g.files → FileOK f)
    (hn : g.files.length < 18446744073709551616) (hc : g.comment.length < 18446744073709551616) :
    Sim absR (fun p => p.2.files.map fkey = g.files.map fkey) (Rs.S.run (Gen.ZipWriter.finish ext g))
      (Model.finish ext.toWExt (absW g)) := by
  unfold Gen.ZipWriter.finish Model.finish
  ssimp []
  rw [toM_bind_run (Gen.ZipWriter.finalize ext g)]
  refine Sim.bind (sim_finalize ext g hf hall hn hc) ?_
  intro p hp
  obtain ⟨r, g2⟩ := p
  cases r with
  | error e =>
    ssimp [absR]
    refine Sim.leaf ?_ hp
    simp only [absR]
  | ok u =>
    have hia : (absW g2).inner = g2.inner := rfl
    cases hin : g2.inner with
    | closed => ssimp [absR, hia, hin, Rs.S.unwrap_sink, Rs.S.get_plain]; exact Sim.panic _ _
    | compressor m l enc pending => ssimp [absR, hia, hin, Rs.S.unwrap_sink, Rs.S.get_plain]; exact Sim.panic _ _
    | storer enc =>
      cases enc with
      | some e => ssimp [absR, hia, hin, Rs.S.unwrap_sink, Rs.S.get_plain]; exact Sim.panic _ _
      | none =>
        ssimp [absR, hia, hin, Rs.S.unwrap_sink, Rs.S.get_plain]
        refine Sim.leaf ?_ hp
        simp only [absR, absW]
        try rfl

/-- `Drop::drop` proper (the destructors of the fields that run afterwards are `Model.dropInner`) -/
def dropBody (ext : WExt) : Step Unit := fun s => do
  if s.inner.isClosed then pure (.ok (), s) else
  let (_, s) ← Model.finalize ext s
  pure (.ok (), s)

theorem dropWriter_eq (ext : WExt) (s : WState) :
    dropWriter ext s = (dropBody ext s >>= fun p => dropInner ext p.2) := by
  unfold dropWriter dropBody
  cases h : s.inner.isClosed
  · simp only [Bool.false_eq_true, ↓reduceIte, bind_assoc, pure_bind]
  · simp only [↓reduceIte, pure_bind]
    cases hi : s.inner with
    | closed => simp only [dropInner, hi]
    | storer e => rw [hi] at h; cases h
    | compressor m l e p => rw [hi] at h; cases h

theorem sim_drop (ext : Rs.S.Ext) (g : Gen.ZipWriter)
    (hf : ∀ f, g.files.getLast? = some f →
      f.extra_field.length ≤ 9223372036854775807 ∧
      f.data_start.toNat + f.extra_field.length < 18446744073709551616 ∧
      f.header_start.toNat + 34 + f.file_name.length < 18446744073709551616)
    (hall : ∀ f, f ∈ g.files → FileOK f)
    (hn : g.files.length < 18446744073709551616) (hc : g.comment.length < 18446744073709551616) :
    Sim absR (fun p => p.2.files.map fkey = g.files.map fkey) (Rs.S.run (Gen.ZipWriter.drop ext g))
      (dropBody ext.toWExt (absW g)) := by
  unfold Gen.ZipWriter.drop dropBody
  have hia : (absW g).inner = g.inner := rfl
  cases hcl : g.inner.isClosed
  · ssimp [hia, hcl, Rs.S.is_closed]
    rw [toM_bind_run (Gen.ZipWriter.finalize ext g)]
    refine Sim.bind (sim_finalize ext g hf hall hn hc) ?_
    intro p hp
    obtain ⟨r, g2⟩ := p
    cases r with
    | error e =>
      ssimp [absR]
      refine Sim.leaf ?_ hp
      simp only [absR]
    | ok u =>
      ssimp [absR]
      refine Sim.leaf ?_ hp
      simp only [absR]
  · ssimp [hia, hcl, Rs.S.is_closed]
    refine Sim.leaf ?_ rfl
    simp only [absR]


/-! ### `start_entry`, `start_file`, `set_comment` / `set_raw_comment` -/

/-- the model's options of a generated `FileOptions` value (a `ZipCryptoKeys` value is represented by its password) -/
def optOf (o : Gen.FileOptions) : FileOptions :=
  { method := Tie.Types.methodOf o.compression_method, level := o.compression_level.map Int32.toInt,
    time := Tie.DateTime.toModel o.last_modified_time, permissions := o.permissions,
    largeFile := o.large_file, encryptWith := o.encrypt_with }

def rawOf (r : Gen.ZipRawValues) : UInt32 × UInt64 × UInt64 := (r.crc32, r.compressed_size, r.uncompressed_size)

theorem lhc_nopanic (gm : FileData) (h1 : gm.time.datepart ≠ none) (h2 : gm.extraField = []) :
    ∀ z, localHeaderChunks gm ≠ .panic z := by
  intro z hc
  unfold localHeaderChunks datepartOut localExtraLen at hc
  rw [h2] at hc
  cases hd : gm.time.datepart with
  | none => exact h1 hd
  | some d =>
    rw [hd] at hc
    cases hl : gm.largeFile <;> rw [hl] at hc <;> simp only [List.length_nil] at hc <;> cases hc

/-- `write_local_file_header(writer, &file)?` inside a method (no panic: a DOS time, no extra data yet):
the chunks of the model, one `write_all` each -/
theorem lhc_run {σ : Type} (file : Gen.ZipFileData) (gm : FileData) (hv : view file gm)
    (hnp : ∀ z, localHeaderChunks gm ≠ .panic z) (L : Out (List Bytes)) (hL : localHeaderChunks gm = L)
    (st : σ) (X : Rs.S σ Unit) (hX : Rs.S.runWB (Gen.write_local_file_header (ω := Bytes) file) st = X) :
    ∃ l, L = .ok l ∧ X.toM = (M.attempt (M.writeChunks l) >>= fun r => match r with
      | .error e => pure (.error (e, st))
      | .ok _ => pure (.ok ())) := by
  subst hL hX
  have tie := tie_write_local_file_header file gm hv
  cases hc : localHeaderChunks gm with
  | panic z => exact absurd hc (hnp z)
  | err e =>
    exfalso
    unfold localHeaderChunks datepartOut localExtraLen at hc
    cases hd : gm.time.datepart <;> rw [hd] at hc <;> try cases hc
    simp only [] at hc
    split at hc <;> (split at hc <;> cases hc)
  | ok l =>
    refine ⟨l, rfl, ?_⟩
    rw [hc] at tie
    rcases hx : Gen.write_local_file_header (ω := Bytes) file with ⟨res, log⟩
    rw [hx] at tie
    cases res with
    | none => cases tie
    | some r =>
      cases r with
      | error e => cases tie
      | ok u =>
        simp only [chunks, ofOut, Option.some.injEq, Except.ok.injEq] at tie
        subst tie
        rfl

theorem shl16 (x : UInt32) : Rs.Arith.shl x 16 = some (x <<< 16) := rfl

/-- postcondition of `start_entry`: after `Ok(())` there is an open entry and no byte of it is counted yet -/
syntax "pstart" : tactic
macro_rules
  | `(tactic| pstart) => `(tactic| first
      | (intro h; cases h; done)
      | (intro _; exact ⟨by simp only [Rs.push, ne_eq, List.append_eq_nil_iff, List.cons_ne_self, and_false,
            not_false_eq_true, reduceCtorEq], rfl⟩))

theorem sim_start_entry (ext : Rs.S.Ext) (g : Gen.ZipWriter) (name : Bytes) (o : Gen.FileOptions)
    (raw : Option Gen.ZipRawValues)
    (hf : ∀ f, g.files.getLast? = some f →
      f.extra_field.length ≤ 9223372036854775807 ∧
      f.data_start.toNat + f.extra_field.length < 18446744073709551616 ∧
      f.header_start.toNat + 34 + f.file_name.length < 18446744073709551616)
    (hname : name.length < 18446744073709551616)
    (htime : (Tie.DateTime.toModel o.last_modified_time).datepart ≠ none) :
    Sim absR (fun p => p.1 = .ok () → p.2.files ≠ [] ∧ p.2.stats.bytes_written = 0)
      (Rs.S.run (Gen.ZipWriter.start_entry ext g name o raw))
      (startEntry ext.toWExt name (optOf o) (raw.map rawOf) (absW g)) := by
  have hnl : (decide (Rs.len name > Rs.as' UInt64 (65535 : UInt16))) = decide (name.length > 65535) := by
    have e : (Rs.as' UInt64 (65535 : UInt16)).toNat = 65535 := by decide
    have e2 : (Rs.len name).toNat = name.length := by
      simp only [Rs.len, UInt64.toNat_ofNat']; omega
    rw [decide_eq_decide, gt_iff_lt, UInt64.lt_iff_toNat_lt, e, e2]
  unfold Gen.ZipWriter.start_entry startEntry
  by_cases hnm : name.length > 65535
  · ssimp [hnl, hnm, decide_true]
    refine Sim.leaf ?_ (by pstart)
    simp only [absR]
  · ssimp [hnl, hnm, decide_false]
    rw [toM_bind_run (Gen.ZipWriter.finish_file ext g)]
    refine Sim.bind (sim_finish_file ext g hf) ?_
    intro p hp
    obtain ⟨r, g2⟩ := p
    cases r with
    | error e =>
      ssimp [absR]
      refine Sim.leaf ?_ (by pstart)
      simp only [absR]
    | ok u =>
      have hia : (absW g2).inner = g2.inner := rfl
      cases hin : g2.inner with
      | closed => ssimp [absR, hia, hin, Rs.S.get_plain]; exact Sim.panic _ _
      | compressor m l enc pending => ssimp [absR, hia, hin, Rs.S.get_plain]; exact Sim.panic _ _
      | storer enc =>
        cases enc with
        | some e => ssimp [absR, hia, hin, Rs.S.get_plain]; exact Sim.panic _ _
        | none =>
          ssimp [absR, hia, hin, Rs.S.get_plain, Model.io, position_attempt_bind, shl16]
          apply Sim.congr; intro r
          cases r with
          | error e =>
            ssimp []
            refine Sim.leaf ?_ (by pstart)
            simp only [absR]
          | ok p =>
            by_cases hp64 : p < 18446744073709551616
            · ssimp [hp64, optOf]
              generalize hL : localHeaderChunks _ = L
              generalize hX : Rs.S.runWB (Gen.write_local_file_header (ω := Bytes) _) _ = X
              obtain ⟨l, hl, hrun⟩ := lhc_run _ _ (by cases raw <;> exact view_dataOf _)
                (lhc_nopanic _ htime rfl) _ hL _ _ hX
              subst hl
              ssimp [hrun]
              apply Sim.congr; intro r
              cases r with
              | error e =>
                ssimp []
                refine Sim.leaf ?_ (by pstart)
                simp only [absR]
              | ok u3 =>
                ssimp []
                apply Sim.congr; intro r
                cases r with
                | error e =>
                  ssimp []
                  refine Sim.leaf ?_ (by pstart)
                  simp only [absR]
                | ok q =>
                  by_cases hq64 : q < 18446744073709551616
                  · cases henc : o.encrypt_with with
                    | none =>
                      ssimp [hq64, henc]
                      refine Sim.leaf ?_ (by pstart)
                      cases raw <;>
                        simp only [absR, absW, Rs.push, List.map_append, List.map_cons, List.map_nil, dataOf,
                          ofNat_toNat_lt _ hq64, Option.getD, Option.map, rawOf, Rs.Hasher.new, henc] <;> rfl
                    | some pw =>
                      ssimp [hq64, henc, Rs.S.unwrap_sink, Rs.S.get_plain]
                      refine Sim.leaf ?_ (by pstart)
                      cases raw <;>
                        simp only [absR, absW, Rs.push, List.map_append, List.map_cons, List.map_nil, dataOf,
                          ofNat_toNat_lt _ hq64, Option.getD, Option.map, rawOf, Rs.Hasher.new, henc, Rs.S.zc_write,
                          Rs.zeros, List.nil_append] <;> rfl
                  · ssimp [hq64]
                    exact Sim.ovf_panic _
            · ssimp [hp64]
              exact Sim.ovf_panic _

open Rs in
theorem S.lift_some_bind {σ α β} (a : α) (st : σ) (f : α → Rs.S σ β) : (Rs.S.lift (some a) st >>= f) = f a := by
  show Rs.S.ofM (Rs.S.toM (pure a : Rs.S σ α) >>= _) = f a
  simp only [S.toM_pure, pure_bind]

theorem sim_start_file (ext : Rs.S.Ext) (g : Gen.ZipWriter) (name : Bytes) (o : Gen.FileOptions)
    (hf : ∀ f, g.files.getLast? = some f →
      f.extra_field.length ≤ 9223372036854775807 ∧
      f.data_start.toNat + f.extra_field.length < 18446744073709551616 ∧
      f.header_start.toNat + 34 + f.file_name.length < 18446744073709551616)
    (hname : name.length < 18446744073709551616)
    (htime : (Tie.DateTime.toModel o.last_modified_time).datepart ≠ none) :
    Sim absR (fun _ => True) (Rs.S.run (Gen.ZipWriter.start_file ext g name o))
      (startFile ext.toWExt name (optOf o) (absW g)) := by
  unfold Gen.ZipWriter.start_file
  -- the options after the permission defaulting, on both sides
  have key : ∀ (o' : Gen.FileOptions), o'.last_modified_time = o.last_modified_time →
      optOf o' = withFilePerm (optOf o) 0o644 0o100000 →
      Sim absR (fun _ => True)
        (Rs.S.run (do
          let (t2, t3) ← Gen.ZipWriter.start_entry ext g name o' none
          let (t4, t5) ← Rs.S.call (Rs.S.switch_to ext t3.inner o'.compression_method o'.compression_level)
          let t6 ← Rs.S.ofResult t4 { t3 with inner := t5 }
          pure ((), { t3 with inner := t5, writing_to_file := true })))
        (startFile ext.toWExt name (optOf o) (absW g)) := by
    intro o' ht ho
    unfold startFile
    rw [← ho]
    have hsw := fun s => switchTo_via ext o'.compression_method o'.compression_level s
    have hm : (optOf o').method = Tie.Types.methodOf o'.compression_method := rfl
    have hl : (optOf o').level = o'.compression_level.map Int32.toInt := rfl
    ssimp [hm, hl, hsw]
    rw [toM_bind_run (Gen.ZipWriter.start_entry ext g name o' none)]
    refine Sim.bind (sim_start_entry ext g name o' none hf hname (by rw [ht]; exact htime)) ?_
    intro p _
    obtain ⟨r, g2⟩ := p
    cases r with
    | error e =>
      ssimp [absR]
      refine Sim.leaf ?_ trivial
      simp only [absR]
    | ok u =>
      ssimp [absR]
      have hia : (absW g2).inner = g2.inner := rfl
      rw [hia]
      apply Sim.congr; intro q
      obtain ⟨r1, i1⟩ := q
      cases r1 with
      | error e =>
        ssimp []
        refine Sim.leaf ?_ trivial
        simp only [absR, absW]
      | ok u2 =>
        ssimp []
        refine Sim.leaf ?_ trivial
        simp only [absR, absW]
  cases hp : o.permissions with
  | none =>
    have := key { o with permissions := some (0o644 ||| 0o100000) } rfl (by simp only [optOf, withFilePerm, hp, Option.getD])
    simpa only [hp, Option.isNone, ↓reduceIte, S.lift_some_bind] using this
  | some perm =>
    have := key { o with permissions := some (perm ||| 0o100000) } rfl (by simp only [optOf, withFilePerm, hp, Option.getD])
    simpa only [hp, Option.isNone, ↓reduceIte, S.lift_some_bind, Bool.false_eq_true] using this

/-- `set_raw_comment` / `set_comment`: the comment field, nothing else, no I/O -/
theorem tie_set_raw_comment (ext : Rs.S.Ext) (g : Gen.ZipWriter) (c : Bytes) :
    Rs.S.run (Gen.ZipWriter.set_raw_comment ext g c) = pure (.ok (), { g with comment := c }) := by
  unfold Gen.ZipWriter.set_raw_comment
  ssimp []

theorem tie_set_comment (ext : Rs.S.Ext) (g : Gen.ZipWriter) (c : Bytes) :
    Rs.S.run (Gen.ZipWriter.set_comment ext g c) = pure (.ok (), { g with comment := c }) := by
  unfold Gen.ZipWriter.set_comment Gen.ZipWriter.set_raw_comment
  ssimp []


/-! ### `start_file_with_extra_data`, `end_local_start_central_extra_data` -/

theorem sim_start_file_with_extra_data (ext : Rs.S.Ext) (g : Gen.ZipWriter) (name : Bytes) (o : Gen.FileOptions)
    (hf : ∀ f, g.files.getLast? = some f →
      f.extra_field.length ≤ 9223372036854775807 ∧
      f.data_start.toNat + f.extra_field.length < 18446744073709551616 ∧
      f.header_start.toNat + 34 + f.file_name.length < 18446744073709551616)
    (hname : name.length < 18446744073709551616)
    (htime : (Tie.DateTime.toModel o.last_modified_time).datepart ≠ none) :
    Sim absRn (fun _ => True) (Rs.S.run (Gen.ZipWriter.start_file_with_extra_data ext g name o))
      (startFileWithExtraData ext.toWExt name (optOf o) (absW g)) := by
  unfold Gen.ZipWriter.start_file_with_extra_data
  have key : ∀ (o' : Gen.FileOptions), o'.last_modified_time = o.last_modified_time →
      optOf o' = withFilePerm (optOf o) 0o644 0o100000 →
      Sim absRn (fun _ => True)
        (Rs.S.run (do
          let (t2, t3) ← Gen.ZipWriter.start_entry ext g name o' none
          let t4 ← Rs.S.lift (Rs.last t3.files) { t3 with writing_to_file := true, writing_to_extra_field := true }
          pure (t4.data_start, { t3 with writing_to_file := true, writing_to_extra_field := true })))
        (startFileWithExtraData ext.toWExt name (optOf o) (absW g)) := by
    intro o' ht ho
    unfold startFileWithExtraData
    rw [← ho]
    ssimp []
    rw [toM_bind_run (Gen.ZipWriter.start_entry ext g name o' none)]
    refine Sim.bind (sim_start_entry ext g name o' none hf hname (by rw [ht]; exact htime)) ?_
    intro p _
    obtain ⟨r, g2⟩ := p
    cases r with
    | error e =>
      ssimp [absR]
      refine Sim.leaf ?_ trivial
      simp only [absRn, Except.map]
    | ok u =>
      have hfl : (absW g2).files = g2.files.map dataOf := rfl
      cases hl : g2.files.getLast? with
      | none =>
        ssimp [absR, hfl, Rs.last, hl, getLastOpt_map, Option.map_none]
        exact Sim.panic _ _
      | some f =>
        ssimp [absR, hfl, Rs.last, hl, getLastOpt_map, Option.map_some]
        refine Sim.leaf ?_ trivial
        simp only [absRn, absW, Except.map, dataOf]
  cases hp : o.permissions with
  | none =>
    have := key { o with permissions := some (0o644 ||| 0o100000) } rfl (by simp only [optOf, withFilePerm, hp, Option.getD])
    simpa only [hp, Option.isNone, ↓reduceIte, S.lift_some_bind] using this
  | some perm =>
    have := key { o with permissions := some (perm ||| 0o100000) } rfl (by simp only [optOf, withFilePerm, hp, Option.getD])
    simpa only [hp, Option.isNone, ↓reduceIte, S.lift_some_bind, Bool.false_eq_true] using this

theorem sim_end_local_start_central (ext : Rs.S.Ext) (g : Gen.ZipWriter)
    (hf : ∀ f, g.files.getLast? = some f →
      f.extra_field.length ≤ 9223372036854775807 ∧
      f.data_start.toNat + f.extra_field.length < 18446744073709551616 ∧
      f.header_start.toNat + 28 < 18446744073709551616) :
    Sim absRn (fun _ => True) (Rs.S.run (Gen.ZipWriter.end_local_start_central_extra_data ext g))
      (endLocalStartCentral ext.toWExt (absW g)) := by
  unfold Gen.ZipWriter.end_local_start_central_extra_data endLocalStartCentral
  ssimp []
  rw [toM_bind_run (Gen.ZipWriter.end_extra_data ext g)]
  refine Sim.bind (sim_end_extra_data ext g hf) ?_
  intro p _
  obtain ⟨r, g2⟩ := p
  cases r with
  | error e =>
    ssimp [absRn, Except.map]
    refine Sim.leaf ?_ trivial
    simp only [absRn, Except.map]
  | ok ds =>
    have hfl : (absW g2).files = g2.files.map dataOf := rfl
    cases hl : g2.files.getLast? with
    | none =>
      ssimp [absRn, Except.map, hfl, Rs.last, hl, getLastOpt_map, Option.map_none]
      exact Sim.panic _ _
    | some f =>
      ssimp [absRn, Except.map, hfl, Rs.last, hl, getLastOpt_map, Option.map_some]
      refine Sim.leaf ?_ trivial
      simp only [absRn, absW, Except.map, setLast_map, dataOf]


/-! ### `add_directory` -/

open Rs in
theorem S.pure_bind_s {σ α β} (a : α) (f : α → Rs.S σ β) : ((pure a : Rs.S σ α) >>= f) = f a := by
  show Rs.S.ofM (Rs.S.toM (pure a : Rs.S σ α) >>= _) = f a
  simp only [S.toM_pure, pure_bind]

theorem sim_add_directory (ext : Rs.S.Ext) (g : Gen.ZipWriter) (name : Bytes) (o : Gen.FileOptions)
    (hf : ∀ f, g.files.getLast? = some f →
      f.extra_field.length ≤ 9223372036854775807 ∧
      f.data_start.toNat + f.extra_field.length < 18446744073709551616 ∧
      f.header_start.toNat + 34 + f.file_name.length < 18446744073709551616)
    (hname : name.length + 1 < 18446744073709551616)
    (htime : (Tie.DateTime.toModel o.last_modified_time).datepart ≠ none) :
    Sim absR (fun _ => True) (Rs.S.run (Gen.ZipWriter.add_directory ext g name o))
      (addDirectory ext.toWExt name (optOf o) (absW g)) := by
  have key : ∀ (o' : Gen.FileOptions) (name' : Bytes), o'.last_modified_time = o.last_modified_time →
      name'.length < 18446744073709551616 →
      Sim absR (fun _ => True)
        (Rs.S.run (do
          let (t3, t4) ← Gen.ZipWriter.start_entry ext g name' o' none
          pure ((), { t4 with writing_to_file := false })))
        (do
          let (r, s) ← startEntry ext.toWExt name' (optOf o') none (absW g)
          match r with
          | .error e => pure (.error e, s)
          | .ok () => pure (.ok (), { s with writingToFile := false })) := by
    intro o' name' ht hn'
    ssimp []
    rw [toM_bind_run (Gen.ZipWriter.start_entry ext g name' o' none)]
    refine Sim.bind (sim_start_entry ext g name' o' none hf hn' (by rw [ht]; exact htime)) ?_
    intro p _
    obtain ⟨r, g2⟩ := p
    cases r with
    | error e =>
      ssimp [absR]
      refine Sim.leaf ?_ trivial
      simp only [absR]
    | ok u =>
      ssimp [absR]
      refine Sim.leaf ?_ trivial
      simp only [absR, absW]
  -- the options and the name, on both sides
  have hopt : ∀ perm : UInt32, o.permissions.getD 0o755 = perm →
      optOf { o with permissions := some (perm ||| 0o40000), compression_method := .Stored } =
        { withFilePerm (optOf o) 0o755 0o40000 with method := .stored } := by
    intro perm h
    simp only [optOf, withFilePerm, h]
    rfl
  have hfin : ∀ (perm : UInt32), o.permissions.getD 0o755 = perm →
      Sim absR (fun _ => True)
        (Rs.S.run (do
          let t2 ← (match name.getLast? with
            | some 0x2f | some 0x5c => (pure name : Rs.S Gen.ZipWriter Bytes)
            | _ => pure (name ++ [0x2f]))
          let (t3, t4) ← Gen.ZipWriter.start_entry ext g t2
            { o with permissions := some (perm ||| 0o40000), compression_method := .Stored } none
          pure ((), { t4 with writing_to_file := false })))
        (addDirectory ext.toWExt name (optOf o) (absW g)) := by
    intro perm hperm
    have ho := hopt perm hperm
    unfold addDirectory
    split
    · next h =>
      have := key { o with permissions := some (perm ||| 0o40000), compression_method := .Stored } name rfl (by omega)
      rw [ho] at this
      simp only [S.pure_bind_s, h]
      exact this
    · next h =>
      have := key { o with permissions := some (perm ||| 0o40000), compression_method := .Stored } name rfl (by omega)
      rw [ho] at this
      simp only [S.pure_bind_s, h]
      exact this
    · next h1 h2 =>
      have := key { o with permissions := some (perm ||| 0o40000), compression_method := .Stored } (name ++ [0x2f]) rfl
        (by simp only [List.length_append, List.length_cons, List.length_nil]; omega)
      rw [ho] at this
      split
      · next h => exact absurd h (h1)
      · next h => exact absurd h (h2)
      · simp only [S.pure_bind_s]
        exact this
  unfold Gen.ZipWriter.add_directory
  cases hp : o.permissions with
  | none =>
    have := hfin 0o755 (by rw [hp]; rfl)
    simp only [hp, Rs.lastByte, Option.isNone, ↓reduceIte, S.lift_some_bind]
    exact this
  | some perm =>
    have := hfin perm (by rw [hp]; rfl)
    simp only [hp, Rs.lastByte, Option.isNone, ↓reduceIte, S.lift_some_bind, Bool.false_eq_true]
    exact this


/-! ### `self.write_all(..)`, `add_symlink` -/

/-- an equation up to panic sites as a simulation; the postcondition: the abstracted value is one the
right-hand side can return -/
theorem Sim.of_erase {α α'} {φ : α → α'} {X : M α} {Y : M α'} (h : erase (φ <$> X) = erase Y) :
    Sim φ (fun a => ∃ fa d d', Y fa d = (.ok (φ a), d')) X Y := by
  intro fa d
  right
  refine ⟨by rw [h], ?_⟩
  intro a d' he
  refine ⟨fa, d, d', ?_⟩
  have h2 := congrFun (congrFun h fa) d
  simp only [erase, map_apply, he] at h2
  rcases hy : Y fa d with ⟨o, dy⟩
  rw [hy] at h2
  simp only [Prod.mk.injEq] at h2
  obtain ⟨h3, h4⟩ := h2
  subst h4
  cases o with
  | ok b => simp only [eraseOut, Out.ok.injEq] at h3; rw [h3]
  | err e => simp only [eraseOut] at h3; cases h3
  | panic s => simp only [eraseOut] at h3; cases h3

/-- `self.write_all(buf)` (std's loop over the object's own `write`) is the model's `writeData` -/
theorem sim_write_all (ext : Rs.S.Ext) (g : Gen.ZipWriter) (buf : Bytes)
    (hlen : buf.length < 9223372036854775808)
    (hbytes : g.stats.bytes_written.toNat + buf.length < 18446744073709551616)
    (hinv : g.writing_to_file = true → g.files ≠ [])
    (hacc : ∀ b, ext.accept b = b.length) :
    Sim absR (fun _ => True)
      (Rs.S.run (Rs.S.write_all (Gen.ZipWriter.write ext) (buf.length + 1) g buf))
      (writeData buf (absW g)) := by
  cases buf with
  | nil =>
    unfold Rs.S.write_all writeData
    ssimp [List.isEmpty_nil]
    refine Sim.leaf ?_ trivial
    simp only [absR]
  | cons b bs =>
    have tw := tie_write ext g (b :: bs) (by simp) hlen hbytes hinv hacc
    have hs := Sim.of_erase tw
    have hround : writeData (b :: bs) (absW g) =
        (((fun r : Except ZErr Unit × WState => (r.1.map fun _ => Rs.len (b :: bs), r.2)) <$> writeData (b :: bs) (absW g)) >>=
          fun q => pure (q.1.map (fun _ => ()), q.2)) := by
      simp only [map_eq_pure_bind, bind_assoc, pure_bind]
      conv => lhs; rw [← bind_pure (writeData (b :: bs) (absW g))]
      refine bind_congr fun r => ?_
      obtain ⟨r1, s1⟩ := r
      cases r1 <;> rfl
    unfold Rs.S.write_all
    ssimp [List.isEmpty_cons]
    rw [toM_bind_run (Gen.ZipWriter.write ext g (b :: bs)), hround]
    refine Sim.bind hs ?_
    intro a ha
    obtain ⟨r, g'⟩ := a
    cases r with
    | error e =>
      ssimp [absR]
      refine Sim.leaf ?_ trivial
      simp only [absR, Except.map]
    | ok n =>
      -- the count is the whole buffer
      have hn : n = Rs.len (b :: bs) := by
        obtain ⟨fa, d, d', hy⟩ := ha
        rw [map_apply] at hy
        rcases hw : writeData (b :: bs) (absW g) fa d with ⟨o, dw⟩
        rw [hw] at hy
        cases o with
        | ok q =>
          simp only [Prod.mk.injEq, Out.ok.injEq, absR] at hy
          obtain ⟨⟨h1, _⟩, _⟩ := hy
          obtain ⟨q1, q2⟩ := q
          cases q1 with
          | ok u => simp only [Except.map, Except.ok.injEq] at h1; exact h1.symm
          | error e => simp only [Except.map] at h1; cases h1
        | err e => simp only [Prod.mk.injEq] at hy; cases hy.1
        | panic s => simp only [Prod.mk.injEq] at hy; cases hy.1
      subst hn
      have hl : (Rs.len (b :: bs)).toNat = bs.length + 1 := by
        simp only [Rs.len, UInt64.toNat_ofNat', List.length_cons]
        simp only [List.length_cons] at hlen
        omega
      have hne : (Rs.len (b :: bs) == 0) = false := by
        rw [beq_eq_false_iff_ne, ne_eq, ← UInt64.toNat_inj, hl]
        have e0 : (0 : UInt64).toNat = 0 := by decide
        rw [e0]; omega
      have hsl : Rs.sliceFrom (b :: bs) (Rs.len (b :: bs)) = some [] := by
        simp only [Rs.sliceFrom, hl, List.length_cons, Nat.le_refl, ↓reduceIte, List.drop_succ_cons, List.drop_length]
      ssimp [absR, hne, hsl]
      cases bs with
      | nil =>
        unfold Rs.S.write_all
        ssimp [List.isEmpty_nil, List.length_nil]
        refine Sim.leaf ?_ trivial
        simp only [absR, Except.map]
      | cons c cs =>
        unfold Rs.S.write_all
        ssimp [List.isEmpty_nil, List.length_cons]
        refine Sim.leaf ?_ trivial
        simp only [absR, Except.map]

theorem sim_add_symlink (ext : Rs.S.Ext) (g : Gen.ZipWriter) (name target : Bytes) (o : Gen.FileOptions)
    (hf : ∀ f, g.files.getLast? = some f →
      f.extra_field.length ≤ 9223372036854775807 ∧
      f.data_start.toNat + f.extra_field.length < 18446744073709551616 ∧
      f.header_start.toNat + 34 + f.file_name.length < 18446744073709551616)
    (hname : name.length < 18446744073709551616)
    (htarget : target.length < 9223372036854775808)
    (htime : (Tie.DateTime.toModel o.last_modified_time).datepart ≠ none)
    (hacc : ∀ b, ext.accept b = b.length) :
    Sim absR (fun _ => True) (Rs.S.run (Gen.ZipWriter.add_symlink ext g name target o))
      (addSymlink ext.toWExt name target (optOf o) (absW g)) := by
  have key : ∀ (o' : Gen.FileOptions), o'.last_modified_time = o.last_modified_time →
      optOf o' = { withFilePerm (optOf o) 0o777 0o120000 with method := .stored } →
      Sim absR (fun _ => True)
        (Rs.S.run (do
          let (t2, t3) ← Gen.ZipWriter.start_entry ext g name o' none
          let (t4, t5) ← Rs.S.write_all (Gen.ZipWriter.write ext) (target.length + 1)
            { t3 with writing_to_file := true } target
          pure ((), { t5 with writing_to_file := false })))
        (addSymlink ext.toWExt name target (optOf o) (absW g)) := by
    intro o' ht ho
    unfold addSymlink
    rw [← ho]
    ssimp []
    rw [toM_bind_run (Gen.ZipWriter.start_entry ext g name o' none)]
    refine Sim.bind (sim_start_entry ext g name o' none hf hname (by rw [ht]; exact htime)) ?_
    intro p hp
    obtain ⟨r, g2⟩ := p
    cases r with
    | error e =>
      ssimp [absR]
      refine Sim.leaf ?_ trivial
      simp only [absR]
    | ok u =>
      obtain ⟨hne, hb0⟩ := hp rfl
      ssimp [absR]
      rw [toM_bind_run (Rs.S.write_all (Gen.ZipWriter.write ext) (target.length + 1)
        { g2 with writing_to_file := true } target)]
      have hw := sim_write_all ext { g2 with writing_to_file := true } target htarget
        (by show g2.stats.bytes_written.toNat + target.length < 18446744073709551616
            rw [hb0]
            have e0 : (0 : UInt64).toNat = 0 := by decide
            rw [e0]; omega)
        (fun _ => hne) hacc
      refine Sim.bind hw ?_
      intro q _
      obtain ⟨r2, g3⟩ := q
      cases r2 with
      | error e =>
        ssimp [absR]
        refine Sim.leaf ?_ trivial
        simp only [absR]
      | ok u2 =>
        ssimp [absR]
        refine Sim.leaf ?_ trivial
        simp only [absR, absW]
  have hopt : ∀ perm : UInt32, o.permissions.getD 0o777 = perm →
      optOf { o with permissions := some (perm ||| 0o120000), compression_method := .Stored } =
        { withFilePerm (optOf o) 0o777 0o120000 with method := .stored } := by
    intro perm h
    simp only [optOf, withFilePerm, h]
    rfl
  unfold Gen.ZipWriter.add_symlink
  cases hp : o.permissions with
  | none =>
    have := key { o with permissions := some (0o777 ||| 0o120000), compression_method := .Stored } rfl (hopt _ (by rw [hp]; rfl))
    simp only [hp, Option.isNone, ↓reduceIte, S.lift_some_bind]
    exact this
  | some perm =>
    have := key { o with permissions := some (perm ||| 0o120000), compression_method := .Stored } rfl (hopt _ (by rw [hp]; rfl))
    simp only [hp, Option.isNone, ↓reduceIte, S.lift_some_bind, Bool.false_eq_true]
    exact this


end ZipVerif.Tie.WriterSM
