import ZipVerif.Tie.WriterSM
import ZipVerif.Model.ShortWrite
/-
Tie obligation for C09's generic data path: the translated `impl Write for ZipWriter :: write`
(`Gen.ZipWriter.write`, regenerated from src/write.rs) IS `GW.write` of `Model/ShortWrite.lean` at the model
monad, for EVERY accept function of the encoder (`ext.accept`, any count ≤ the buffer) - not only for the
whole-accepting one `tie_write` assumes.  Same I/O call, same outcome and count, same final writer state
(`absW`), panic-site strings erased.  Hypotheses as for `tie_write` (Rust slice length, `u64` byte counter,
the writer invariant `writing_to_file → files ≠ []`).
-/
set_option linter.unusedSimpArgs false
set_option linter.unusedVariables false

namespace ZipVerif.Tie.WriterSM
open ZipVerif ZipVerif.Model ZipVerif.Tie.SpecRecords ZipVerif.Tie.Records ZipVerif.Tie.Parsers

theorem tie_write_short (ext : Rs.S.Ext) (g : Gen.ZipWriter) (buf : Bytes) (hb : buf ≠ [])
    (hlen : buf.length < 9223372036854775808)
    (hbytes : g.stats.bytes_written.toNat + buf.length < 18446744073709551616)
    (hinv : g.writing_to_file = true → g.files ≠ []) :
    erase (absR <$> Rs.S.run (Gen.ZipWriter.write ext g buf)) =
      erase ((fun r => (r.1.map UInt64.ofNat, r.2)) <$> (GW.write ext.accept buf (absW g) : M _)) := by
  unfold Gen.ZipWriter.write GW.write
  have hne : buf.isEmpty = false := by cases buf <;> simp_all
  obtain ⟨hadd, haddn⟩ := len_add g.stats.bytes_written buf hbytes
  cases hwf : g.writing_to_file
  · ssimp [hwf, absW, hne]
    simp only [absR, absW, hwf, Except.map]
  · have hfiles := hinv hwf
    have hlast : ∃ f, g.files.getLast? = some f := by
      cases h : g.files.getLast? with
      | none => exact absurd (List.getLast?_eq_none_iff.mp h) hfiles
      | some f => exact ⟨f, rfl⟩
    obtain ⟨f, hf⟩ := hlast
    have hdl : (dataOf f).largeFile = f.large_file := rfl
    cases hin : g.inner with
    | closed =>
      ssimp [hwf, absW, hne, hin, Rs.S.ref_mut]
      simp only [absR, absW, hwf, hin, Except.map]
    | storer enc =>
      cases hx : g.writing_to_extra_field
      · cases enc with
        | none =>
          ssimp [hwf, absW, hne, hin, hx, Rs.S.ref_mut, Rs.S.enc_write, Model.io, WriterIO.wAttempt, WriterIO.wWrite]
          rw [write_attempt_bind]
          conv => rhs; rw [write_attempt_bind]
          apply erase_congr
          intro r
          cases r with
          | error e =>
            ssimp []
            simp only [absR, absW, hwf, hin, hx, Except.map]
          | ok n =>
            ssimp [slice_all buf (by omega), tie_stats_update ext g.stats buf hbytes, gt_thr, haddn, Rs.last,
              getLastOpt_map, hf, Option.map_some, GW.account, List.take_length]
            by_cases hc : g.stats.bytes_written.toNat + buf.length > 4294967295 <;> cases hlf : f.large_file <;>
              simp only [hc, hlf, hdl, absR, absW, haddn, Except.map, decide_true, decide_false, Bool.and_true,
                Bool.and_false, Bool.true_and, Bool.false_and, Bool.not_true, Bool.not_false, ↓reduceIte,
                Bool.false_eq_true, Rs.len, Rs.S.closed]
        | some e =>
          ssimp [hwf, absW, hne, hin, hx, Rs.S.ref_mut, Rs.S.enc_write, Model.io]
          ssimp [slice_all buf (by omega), tie_stats_update ext g.stats buf hbytes, gt_thr, haddn, Rs.last,
              getLastOpt_map, hf, Option.map_some, Rs.len, GW.account, GW.absorb]
          by_cases hc : g.stats.bytes_written.toNat + buf.length > 4294967295 <;> cases hlf : f.large_file <;>
              simp only [hc, hlf, hdl, absR, absW, haddn, Except.map, decide_true, decide_false, Bool.and_true,
                Bool.and_false, Bool.true_and, Bool.false_and, Bool.not_true, Bool.not_false, ↓reduceIte,
                Bool.false_eq_true, Rs.len, Rs.S.closed]
      · ssimp [hwf, absW, hne, hin, hx, Rs.S.ref_mut, Rs.last, getLastOpt_map, hf, Option.map_some, Rs.vecWrite]
        simp only [absR, absW, setLast_map, Except.map]
        rfl
    | compressor m l enc pending =>
      have hle := ext.accept_le buf
      have htl : (buf.take (ext.accept buf)).length = ext.accept buf := by
        rw [List.length_take]; omega
      have hb' : g.stats.bytes_written.toNat + (buf.take (ext.accept buf)).length < 18446744073709551616 := by
        rw [htl]; omega
      have hup := tie_stats_update ext g.stats (buf.take (ext.accept buf)) hb'
      obtain ⟨_, haddn'⟩ := len_add g.stats.bytes_written (buf.take (ext.accept buf)) hb'
      rw [htl] at hup haddn'
      cases hx : g.writing_to_extra_field
      · ssimp [hwf, absW, hne, hin, hx, Rs.S.ref_mut, Rs.S.enc_write, Model.io]
        ssimp [slice_take buf _ hle (by omega), hup, gt_thr, haddn', Rs.last, getLastOpt_map, hf, Option.map_some,
          Rs.len, GW.account, GW.absorb, htl]
        by_cases hc : g.stats.bytes_written.toNat + ext.accept buf > 4294967295 <;> cases hlf : f.large_file <;>
              simp only [hc, hlf, hdl, absR, absW, haddn', Except.map, decide_true, decide_false, Bool.and_true,
                Bool.and_false, Bool.true_and, Bool.false_and, Bool.not_true, Bool.not_false, ↓reduceIte,
                Bool.false_eq_true, Rs.len, Rs.S.closed]
      · ssimp [hwf, absW, hne, hin, hx, Rs.S.ref_mut, Rs.last, getLastOpt_map, hf, Option.map_some, Rs.vecWrite]
        simp only [absR, absW, setLast_map, Except.map]
        rfl

end ZipVerif.Tie.WriterSM
