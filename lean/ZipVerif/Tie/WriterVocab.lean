import ZipVerif.Basic.RsS
import ZipVerif.Tie.Types
/-
Glue between the generated enums and the vocabulary of the STATE-MACHINE mode (`Basic/RsS.lean`): the
external compressor stack is keyed by the model's `Method`; a generated `CompressionMethod` value is
read through the enum correspondence `Tie.Types.methodOf` (tied in `Tie/Types.lean`).  Imported by the
generated `Gen/Writer.lean`.
-/
namespace ZipVerif
instance : Rs.S.IsMethod Gen.CompressionMethod := ⟨Tie.Types.methodOf⟩
end ZipVerif
