import ZipVerif.Tie.ZcLayer
import ZipVerif.Basic.RsS
/-
The link between the STATE-MACHINE vocabulary `Rs.S.zc_finish` (`Basic/RsS.lean`; what `ZipWriter::finish_file`
calls when it takes a `MaybeEncrypted::Encrypted(writer)` out of the compressor stack, `Tie/WriterSM.lean`) and
the TRANSLATED `ZipCryptoWriter::finish` of zipcrypto.rs (`Gen.ZipCryptoWriter.finish`, tied to
`Model.ZipCrypto.Writer.finish` by `Tie.ZcLayer.tie_zipcrypto_finish`).

The translated method is generic in its sink `W: Write`; here the sink is the model's device together with the
injected-fault index (`Sink`, `instance : Rs.Write Sink`: one `write` call is `M.write`, `flush` is `M.flush`).

  tie_zc_finish   for every `EncState` (password, buffer), CRC, device and fault index:
                  `Gen.ZipCryptoWriter.finish ⟨sink, buffer, keys(password)⟩ crc` and
                  `Rs.S.zc_finish ext ⟨password, buffer⟩ crc` have the same outcome - `Ok` with the SAME final
                  device, the same `io::ErrorKind`, or both panic (fewer than 12 buffered bytes: `buffer[11]`).
                  On `Err` the translated method drops its sink with `self` (Rust: `finish(mut self, …)`), the
                  model's device stays; so the device is compared on `Ok` only.

Hypothesis `hext`: the writer model's `ext.zcEncrypt pw` IS the PKWARE encryption under the keys derived from
`pw` (`Model.ZipCrypto.encryptAll (derive pw)`; `WExt.zcEncrypt` is a parameter of the writer model, C15 / C02Full
instantiate it this way).  A `ZipCryptoKeys` value is represented by the password it was derived from (vocabulary of
`Tie/WriterSM.lean`; `ZipCryptoKeys::derive` is tied in `Tie/ZipCrypto.lean`).
-/
set_option linter.unusedSimpArgs false
set_option linter.unusedVariables false

namespace ZipVerif.Tie.ZcFinish
open ZipVerif ZipVerif.Model ZipVerif.Model.ZipCrypto ZipVerif.Tie.ZipCrypto ZipVerif.Tie.ZcLayer

/-- the model's device, with the injected-fault index, as a `W: Write` sink -/
abbrev Sink := Option Nat × Dev

def wrOf (fa : Option Nat) : Out Nat × Dev → Rs.WrRes × Sink
  | (.ok n, d) => (.ok n, (fa, d))
  | (.err (.io k), d) => (.err k, (fa, d))
  | (_, d) => (.panic, (fa, d))

def ioOf (fa : Option Nat) : Out Unit × Dev → Rs.IoRes Unit × Sink
  | (.ok _, d) => (.ok (), (fa, d))
  | (.err (.io k), d) => (.err k, (fa, d))
  | (_, d) => (.panic, (fa, d))

instance : Rs.Write Sink where
  wr s bs := wrOf s.1 (M.write bs s.1 s.2)
  fl s := ioOf s.1 (M.flush s.1 s.2)

/-- `write_all` (std's loop, `Rs.L.write_all`) over the device sink is the model's `M.writeAll` -/
theorem write_all_dev (fa : Option Nat) (d : Dev) (bs : Bytes) :
    Rs.L.write_all ((fa, d) : Sink) bs = ioOf fa (M.writeAll bs fa d) := by
  unfold Rs.L.write_all M.writeAll
  cases bs with
  | nil => rfl
  | cons b rest =>
    simp only [List.length_cons, Rs.L.writeAllAux, Rs.Write.wr, M.write, M.prim, List.isEmpty_cons,
      Bool.false_eq_true, ↓reduceIte, bind, pure]
    by_cases hf : fa = some d.calls
    · simp only [hf, ↓reduceIte, wrOf, ioOf]
    · simp only [hf, ↓reduceIte, wrOf, ioOf, Nat.le_refl, List.drop_length_cons, List.drop_nil]
      cases rest <;> simp [Rs.L.writeAllAux]

theorem flush_dev (fa : Option Nat) (d : Dev) : Rs.L.flush ((fa, d) : Sink) = ioOf fa (M.flush fa d) := rfl

theorem set11 (buf : Bytes) (b : UInt8) (h : 11 < buf.length) :
    buf.set 11 b = buf.take 11 ++ [b] ++ buf.drop 12 := by
  rw [List.set_eq_take_append_cons_drop, if_pos h]
  simp only [List.append_assoc, List.singleton_append]

theorem writeAll_shape (bs : Bytes) (fa : Option Nat) (d : Dev) :
    (∃ d', M.writeAll bs fa d = (.ok (), d')) ∨ (∃ k d', M.writeAll bs fa d = (.err (.io k), d')) := by
  unfold M.writeAll
  split
  · exact Or.inl ⟨_, rfl⟩
  · simp only [bind, M.write, M.prim]
    by_cases hf : fa = some d.calls
    · simp only [hf, ↓reduceIte]; exact Or.inr ⟨_, _, rfl⟩
    · simp only [hf, ↓reduceIte]; exact Or.inl ⟨_, rfl⟩

theorem flush_shape (fa : Option Nat) (d : Dev) :
    (∃ d', M.flush fa d = (.ok (), d')) ∨ (∃ k d', M.flush fa d = (.err (.io k), d')) := by
  simp only [M.flush, M.prim]
  by_cases hf : fa = some d.calls
  · simp only [hf, ↓reduceIte]; exact Or.inr ⟨_, _, rfl⟩
  · simp only [hf, ↓reduceIte]; exact Or.inl ⟨_, rfl⟩

/-- **`Rs.S.zc_finish` is the translated `ZipCryptoWriter::finish`** over the model's device. -/
theorem tie_zc_finish (ext : Rs.S.Ext)
    (hext : ∀ pw buf, ext.zcEncrypt pw buf = (encryptAll (derive pw) buf).1)
    (e : EncState) (crc : UInt32) (fa : Option Nat) (d : Dev) :
    match Gen.ZipCryptoWriter.finish (⟨(fa, d), e.buffer, ofModel (derive e.pw)⟩ : Gen.ZipCryptoWriter Sink) crc with
    | .ok s => s.1 = fa ∧ Rs.S.zc_finish ext e crc fa d = (.ok (), s.2)
    | .err k => ∃ d', Rs.S.zc_finish ext e crc fa d = (.err (.io k), d')
    | .panic => ∃ site d', Rs.S.zc_finish ext e crc fa d = (.panic site, d') := by
  rw [tie_zipcrypto_finish]
  unfold Rs.S.zc_finish Writer.finish wOf
  simp only [toModel_ofModel]
  by_cases hl : 11 < e.buffer.length
  · have hl' : ¬ e.buffer.length < 12 := by omega
    simp only [hl, hl', ↓reduceIte, hext, set11 _ _ hl, write_all_dev, flush_dev]
    generalize (encryptAll (derive e.pw) (List.take 11 e.buffer ++ [(crc >>> 24).toUInt8] ++ List.drop 12 e.buffer)).1 = bytes
    simp only [bind]
    rcases writeAll_shape bytes fa d with ⟨d1, hw⟩ | ⟨k, d1, hw⟩
    · simp only [hw, ioOf]
      rcases flush_shape fa d1 with ⟨d2, hfl⟩ | ⟨k, d2, hfl⟩
      · simp only [flush_dev, hfl, ioOf, and_self]
      · simp only [flush_dev, hfl, ioOf, Rs.IoRes.fail]; exact ⟨_, rfl⟩
    · simp only [hw, ioOf, Rs.IoRes.fail]; exact ⟨_, rfl⟩
  · have hl' : e.buffer.length < 12 := by omega
    simp only [hl, hl', ↓reduceIte]
    exact ⟨_, _, rfl⟩

/-- non-vacuity: the start-of-entry buffer (12 header bytes) on a fault-free device finishes `Ok` -/
example : ∃ s, Gen.ZipCryptoWriter.finish
    (⟨(none, Dev.ofBytes []), List.replicate 12 0, ofModel (derive [0x70])⟩ : Gen.ZipCryptoWriter Sink) 0 = .ok s := by
  rw [tie_zipcrypto_finish]
  exact ⟨_, rfl⟩

end ZipVerif.Tie.ZcFinish
